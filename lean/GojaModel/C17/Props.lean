/-
  C17 property theorems (each `theorem` here is one audited proof obligation).

  * `*_spec`  — for an ARBITRARY predicate `P` on touches that accepts the in-bounds touches of the operated
                view(s): the operation keeps `LogAll P` and the view invariant `Inv`, for all arguments and every
                adversary (detach lists at every callback point).  Instantiating `P` gives
  * `access_in_bounds` (`P t := t.ok`): every touched index is `< |buf|` and the buffer is attached at the time;
  * `*_within_view`    (`P t := t` lies in `[offset*es, (offset+length)*es)` of the operated view).
  * `view_inv_*`       — the constructors establish `Inv`, every operation preserves it, for all histories.
  * codec theorems.
-/
import GojaModel.C17.Sort
import GojaModel.C17.Float32

namespace GojaModel.C17

/-! ## every operation, every history -/

/-- One step of any operation, any arguments, any adversary: keeps `LogAll P` for every predicate `P` that accepts
all in-bounds touches, and keeps the view invariant. -/
theorem step_spec {P : Touch → Prop} (hall : ∀ b lo hi, PRange P b lo hi) (s : State) (op : Op) (c : Ctx P s) :
    Ctx P (step s op).2 := by
  cases op with
  | newBuf bytes => exact ⟨inv_pushBuf c.inv bytes, c.log⟩
  | detach b => exact ⟨inv_detach c.inv b, c.log⟩
  | newView k b off len pdet => exact opNewView_spec k b off len (c.applyDet pdet)
  | newDV b off len pdet => exact opNewDV_spec b off len pdet c
  | get v idx =>
    show Ctx P (opGet s v idx).2
    cases hv : s.views[v]? with
    | none => unfold opGet; rw [hv]; exact c
    | some w => exact opGet_spec idx hv c (hall _ _ _)
  | put v idx a =>
    show Ctx P (opPut s v idx a).2
    cases hv : s.views[v]? with
    | none => unfold opPut; rw [hv]; exact c
    | some w => exact opPut_spec idx a hv c (hall _ _ _)
  | fill v a st fi =>
    show Ctx P (opFill s v a st fi).2
    cases hv : s.views[v]? with
    | none => unfold opFill; rw [hv]; exact c
    | some w => exact opFill_spec a st fi hv c (hall _ _ _)
  | copyWithin v t f e =>
    show Ctx P (opCopyWithin s v t f e).2
    cases hv : s.views[v]? with
    | none => unfold opCopyWithin; rw [hv]; exact c
    | some w => exact opCopyWithin_spec t f e hv c (hall _ _ _)
  | setTA v src off =>
    show Ctx P (opSetTA s v src off).2
    cases hv : s.views[v]? with
    | none => unfold opSetTA; rw [hv]; exact c
    | some w =>
      cases hs : s.views[src]? with
      | none => unfold opSetTA; rw [hv, hs]; exact c
      | some w2 => exact opSetTA_spec off hv hs c (hall _ _ _) (hall _ _ _)
  | setArr v off vals =>
    show Ctx P (opSetArr s v off vals).2
    cases hv : s.views[v]? with
    | none => unfold opSetArr; rw [hv]; exact c
    | some w => exact opSetArr_spec off vals hv c (hall _ _ _)
  | slice v st fi sp =>
    show Ctx P (opSlice s v st fi sp).2
    cases hv : s.views[v]? with
    | none => unfold opSlice; rw [hv]; exact c
    | some w => exact opSlice_spec st fi sp hv c (hall _ _ _) (fun _ => hall _ _ _) (fun _ _ _ _ _ => hall _ _ _)
  | subarray v st fi sp =>
    show Ctx P (opSubarray s v st fi sp).2
    cases hv : s.views[v]? with
    | none => unfold opSubarray; rw [hv]; exact c
    | some w => exact opSubarray_spec st fi sp hv c
  | sort v cmp =>
    show Ctx P (opSort s v cmp).2
    cases hv : s.views[v]? with
    | none => unfold opSort; rw [hv]; exact c
    | some w => exact opSort_spec cmp hv c (hall _ _ _)
  | reverse v =>
    show Ctx P (opReverse s v).2
    cases hv : s.views[v]? with
    | none => unfold opReverse; rw [hv]; exact c
    | some w => exact opReverse_spec hv c (hall _ _ _)
  | dvGet d k i le =>
    show Ctx P (opDVGet s d k i le).2
    cases hd : s.dvs[d]? with
    | none => unfold opDVGet; rw [hd]; exact c
    | some w => exact opDVGet_spec k i le hd c (hall _ _ _)
  | dvSet d k i a le =>
    show Ctx P (opDVSet s d k i a le).2
    cases hd : s.dvs[d]? with
    | none => unfold opDVSet; rw [hd]; exact c
    | some w => exact opDVSet_spec k i a le hd c (hall _ _ _)
  | toReversed v =>
    show Ctx P (opToReversed s v).2
    cases hv : s.views[v]? with
    | none => unfold opToReversed; rw [hv]; exact c
    | some w => exact opToReversed_spec hv c (hall _ _ _)
  | toSorted v cmp =>
    show Ctx P (opToSorted s v cmp).2
    cases hv : s.views[v]? with
    | none => unfold opToSorted; rw [hv]; exact c
    | some w => exact opToSorted_spec cmp hv c (hall _ _ _)
  | with_ v i a =>
    show Ctx P (opWith s v i a).2
    cases hv : s.views[v]? with
    | none => unfold opWith; rw [hv]; exact c
    | some w => exact opWith_spec i a hv c (hall _ _ _)
  | filter v keep detAt det sp =>
    show Ctx P (opFilter s v keep detAt det sp).2
    cases hv : s.views[v]? with
    | none => unfold opFilter; rw [hv]; exact c
    | some w => exact opFilter_spec keep detAt det sp hv c (hall _ _ _) (fun _ _ _ _ _ => hall _ _ _)
  | map v sp vals =>
    show Ctx P (opMap s v sp vals).2
    cases hv : s.views[v]? with
    | none => unfold opMap; rw [hv]; exact c
    | some w => exact opMap_spec sp vals hv c (hall _ _ _) (fun _ _ _ _ _ => hall _ _ _)
  | of_ ct vals => exact opOf_spec ct vals c (fun _ _ _ _ _ => hall _ _ _)
  | abSlice b st fi sp => exact opABSlice_spec b st fi sp c (fun _ => hall _ _ _) (fun _ _ _ _ => hall _ _ _)
  | iterate v k det =>
    show Ctx P (opIterate s v k det).2
    cases hv : s.views[v]? with
    | none => unfold opIterate; rw [hv]; exact c
    | some w => exact opIterate_spec k det hv c (hall _ _ _)
  | search v m se fr =>
    show Ctx P (opSearch s v m se fr).2
    cases hv : s.views[v]? with
    | none => unfold opSearch; rw [hv]; exact c
    | some w => exact opSearch_spec m se fr hv c (hall _ _ _)
  | at_ v i =>
    show Ctx P (opAt s v i).2
    cases hv : s.views[v]? with
    | none => unfold opAt; rw [hv]; exact c
    | some w => exact opAt_spec i hv c (hall _ _ _)
  | visit v bwd k det =>
    show Ctx P (opVisit s v bwd k det).2
    cases hv : s.views[v]? with
    | none => unfold opVisit; rw [hv]; exact c
    | some w => exact opVisit_spec bwd k det hv c (hall _ _ _)
  | join v det pe =>
    show Ctx P (opJoin s v det pe).2
    cases hv : s.views[v]? with
    | none => unfold opJoin; rw [hv]; exact c
    | some w => exact opJoin_spec det pe hv c (hall _ _ _)
  | other v na ml det =>
    show Ctx P (opOther s v na ml det).2
    unfold opOther
    split
    · exact c
    · split
      · exact c.applyDet det
      · exact c

theorem run_spec {P : Touch → Prop} (hall : ∀ b lo hi, PRange P b lo hi) :
    ∀ (ops : List Op) (s : State), Ctx P s → Ctx P (run s ops) := by
  intro ops
  induction ops with
  | nil => intro s c; exact c
  | cons op ops ih => intro s c; exact ih _ (step_spec hall s op c)

/-- **view_inv** — for every history (any length, any operations, any arguments, any adversary) starting from the
empty state, every view satisfies `(offset+length)*elemSize ≤ |buf|` while its buffer is attached (and every
DataView `byteOffset+byteLen ≤ |buf|`). -/
theorem view_inv (ops : List Op) : Inv (run {} ops) :=
  (run_spec (P := fun _ => True) (fun _ _ _ _ _ _ _ => trivial) ops {} ⟨inv_init, fun _ _ => trivial⟩).inv

/-- **access_in_bounds** — for every history, every byte index the model touches is `< |buf|` and the buffer is
attached at the time of the touch. -/
theorem access_in_bounds (ops : List Op) : ∀ t ∈ (run {} ops).log, t.ok = true :=
  (run_spec (P := fun t => t.ok = true) (fun _ _ _ _ _ _ _ => rfl) ops {} ⟨inv_init, fun _ h => by simp at h⟩).log

/-- access_in_bounds for one step from any state that satisfies the invariant -/
theorem access_in_bounds_step (s : State) (op : Op) (hi : Inv s) :
    ∀ t ∈ (step { s with log := [] } op).2.log, t.ok = true :=
  (step_spec (P := fun t => t.ok = true) (fun _ _ _ _ _ _ _ => rfl) _ op ⟨hi.withLog [], fun _ h => by simp at h⟩).log

/-! ## within_view -/

/-- the touch lies in the byte range `[offset*es, (offset+length)*es)` of view `v` -/
def InView (v : View) (t : Touch) : Prop := t.buf = v.buf ∧ v.lo ≤ t.idx ∧ t.idx < v.hi

theorem pRange_inView (v : View) : PRange (InView v) v.buf v.lo v.hi := fun _ _ h1 h2 => ⟨rfl, h1, h2⟩

/-- **within_view (copyWithin)** — the statement the code violated before commit b85e9cc. -/
theorem copyWithin_within_view (s : State) (vi : Nat) (v : View) (to from_ : IArg) (fi : Option IArg)
    (hi : Inv s) (hv : s.views[vi]? = some v) :
    ∀ t ∈ (opCopyWithin { s with log := [] } vi to from_ fi).2.log, InView v t :=
  (opCopyWithin_spec to from_ fi (s := { s with log := [] }) hv (ctx0 hi) (pRange_inView v)).log

theorem fill_within_view (s : State) (vi : Nat) (v : View) (a : VArg) (st fi : Option IArg)
    (hi : Inv s) (hv : s.views[vi]? = some v) :
    ∀ t ∈ (opFill { s with log := [] } vi a st fi).2.log, InView v t :=
  (opFill_spec a st fi (s := { s with log := [] }) hv (ctx0 hi) (pRange_inView v)).log

theorem get_within_view (s : State) (vi : Nat) (v : View) (idx : Int) (hi : Inv s) (hv : s.views[vi]? = some v) :
    ∀ t ∈ (opGet { s with log := [] } vi idx).2.log, InView v t :=
  (opGet_spec idx (s := { s with log := [] }) hv (ctx0 hi) (pRange_inView v)).log

theorem put_within_view (s : State) (vi : Nat) (v : View) (idx : Int) (a : VArg) (hi : Inv s) (hv : s.views[vi]? = some v) :
    ∀ t ∈ (opPut { s with log := [] } vi idx a).2.log, InView v t :=
  (opPut_spec idx a (s := { s with log := [] }) hv (ctx0 hi) (pRange_inView v)).log

theorem setArr_within_view (s : State) (vi : Nat) (v : View) (off : Option IArg) (vals : List VArg)
    (hi : Inv s) (hv : s.views[vi]? = some v) :
    ∀ t ∈ (opSetArr { s with log := [] } vi off vals).2.log, InView v t :=
  (opSetArr_spec off vals (s := { s with log := [] }) hv (ctx0 hi) (pRange_inView v)).log

/-- set(typedArray): every touch is inside the target view or inside the source view -/
theorem setTA_within_view (s : State) (vi si : Nat) (v src : View) (off : Option IArg)
    (hi : Inv s) (hv : s.views[vi]? = some v) (hs : s.views[si]? = some src) :
    ∀ t ∈ (opSetTA { s with log := [] } vi si off).2.log, InView v t ∨ InView src t :=
  (opSetTA_spec off (s := { s with log := [] }) (P := fun t => InView v t ∨ InView src t) hv hs (ctx0 hi)
    (fun _ _ h1 h2 => Or.inl ⟨rfl, h1, h2⟩) (fun _ _ h1 h2 => Or.inr ⟨rfl, h1, h2⟩)).log

theorem sort_within_view (s : State) (vi : Nat) (v : View) (cmp : Cmp) (hi : Inv s) (hv : s.views[vi]? = some v) :
    ∀ t ∈ (opSort { s with log := [] } vi cmp).2.log, InView v t :=
  (opSort_spec cmp (s := { s with log := [] }) hv (ctx0 hi) (pRange_inView v)).log

theorem reverse_within_view (s : State) (vi : Nat) (v : View) (hi : Inv s) (hv : s.views[vi]? = some v) :
    ∀ t ∈ (opReverse { s with log := [] } vi).2.log, InView v t :=
  (opReverse_spec (s := { s with log := [] }) hv (ctx0 hi) (pRange_inView v)).log

/-- slice: every touch is inside the source view, inside the freshly allocated result buffer, or inside the view the
species constructor returned -/
theorem slice_within_view (s : State) (vi : Nat) (v : View) (st fi : Option IArg) (sp : Species)
    (hi : Inv s) (hv : s.views[vi]? = some v) :
    ∀ t ∈ (opSlice { s with log := [] } vi st fi sp).2.log,
      InView v t ∨ t.buf = s.bufs.length ∨ ∃ di det dst, sp = some (di, det) ∧ s.views[di]? = some dst ∧ InView dst t :=
  (opSlice_spec st fi sp (s := { s with log := [] })
    (P := fun t => InView v t ∨ t.buf = s.bufs.length ∨ ∃ di det dst, sp = some (di, det) ∧ s.views[di]? = some dst ∧ InView dst t)
    hv (ctx0 hi)
    (fun _ _ h1 h2 => Or.inl ⟨rfl, h1, h2⟩)
    (fun _ _ _ _ _ => Or.inr (Or.inl rfl))
    (fun di det dst h1 h2 _ _ h3 h4 => Or.inr (Or.inr ⟨di, det, dst, h1, h2, rfl, h3, h4⟩))).log

/-- subarray touches no memory at all -/
theorem subarray_no_touch (s : State) (vi : Nat) (v : View) (st fi : Option IArg) (sp : Species)
    (hi : Inv s) (hv : s.views[vi]? = some v) :
    ∀ t ∈ (opSubarray { s with log := [] } vi st fi sp).2.log, False :=
  (opSubarray_spec st fi sp (s := { s with log := [] }) (P := fun _ => False) hv (ctx0 hi)).log

/-- DataView get/set touch only `[byteOffset, byteOffset+byteLen)` -/
theorem dvGet_within_view (s : State) (di : Nat) (d : DView) (k : Kind) (idx : IArg) (le : Bool)
    (hi : Inv s) (hd : s.dvs[di]? = some d) :
    ∀ t ∈ (opDVGet { s with log := [] } di k idx le).2.log,
      t.buf = d.buf ∧ d.byteOffset ≤ t.idx ∧ t.idx < d.byteOffset + d.byteLen :=
  (opDVGet_spec k idx le (s := { s with log := [] }) hd (ctx0 hi) (fun _ _ h1 h2 => ⟨rfl, h1, h2⟩)).log

theorem dvSet_within_view (s : State) (di : Nat) (d : DView) (k : Kind) (idx : IArg) (a : VArg) (le : Bool)
    (hi : Inv s) (hd : s.dvs[di]? = some d) :
    ∀ t ∈ (opDVSet { s with log := [] } di k idx a le).2.log,
      t.buf = d.buf ∧ d.byteOffset ≤ t.idx ∧ t.idx < d.byteOffset + d.byteLen :=
  (opDVSet_spec k idx a le (s := { s with log := [] }) hd (ctx0 hi) (fun _ _ h1 h2 => ⟨rfl, h1, h2⟩)).log

/-- `%TypedArray%.of` / `.from` applied to a constructor that returns an existing typed array touch only THAT
view's byte range (the statement goja violates before fixes/C17-map-of-from-set-element.diff: it indexed from the
start of the buffer) — and nothing at all for a built-in constructor (the result is fresh memory). -/
theorem of_within_view (s : State) (ct : Ctor) (vals : List VArg) (hi : Inv s) :
    ∀ t ∈ (opOf { s with log := [] } ct vals).2.log,
      ∃ di det dst, ct = .user di det ∧ s.views[di]? = some dst ∧ InView dst t :=
  (opOf_spec ct vals (s := { s with log := [] })
    (P := fun t => ∃ di det dst, ct = .user di det ∧ s.views[di]? = some dst ∧ InView dst t) (ctx0 hi)
    (fun di det dst h1 h2 _ _ h3 h4 => ⟨di, det, dst, h1, h2, rfl, h3, h4⟩)).log

/-- `map`: touches only the source view (reads) and the view returned by a user species constructor (writes) -/
theorem map_within_view (s : State) (vi : Nat) (v : View) (sp : Species) (vals : List VArg)
    (hi : Inv s) (hv : s.views[vi]? = some v) :
    ∀ t ∈ (opMap { s with log := [] } vi sp vals).2.log,
      InView v t ∨ ∃ di det dst, sp = some (di, det) ∧ s.views[di]? = some dst ∧ InView dst t :=
  (opMap_spec sp vals (s := { s with log := [] })
    (P := fun t => InView v t ∨ ∃ di det dst, sp = some (di, det) ∧ s.views[di]? = some dst ∧ InView dst t)
    hv (ctx0 hi) (fun _ _ h1 h2 => Or.inl ⟨rfl, h1, h2⟩)
    (fun di det dst h1 h2 _ _ h3 h4 => Or.inr ⟨di, det, dst, h1, h2, rfl, h3, h4⟩)).log

theorem toReversed_within_view (s : State) (vi : Nat) (v : View) (hi : Inv s) (hv : s.views[vi]? = some v) :
    ∀ t ∈ (opToReversed { s with log := [] } vi).2.log, InView v t :=
  (opToReversed_spec (s := { s with log := [] }) hv (ctx0 hi) (pRange_inView v)).log

theorem toSorted_within_view (s : State) (vi : Nat) (v : View) (cmp : Cmp) (hi : Inv s) (hv : s.views[vi]? = some v) :
    ∀ t ∈ (opToSorted { s with log := [] } vi cmp).2.log, InView v t :=
  (opToSorted_spec cmp (s := { s with log := [] }) hv (ctx0 hi) (pRange_inView v)).log

theorem with_within_view (s : State) (vi : Nat) (v : View) (idx : IArg) (a : VArg) (hi : Inv s) (hv : s.views[vi]? = some v) :
    ∀ t ∈ (opWith { s with log := [] } vi idx a).2.log, InView v t :=
  (opWith_spec idx a (s := { s with log := [] }) hv (ctx0 hi) (pRange_inView v)).log

theorem filter_within_view (s : State) (vi : Nat) (v : View) (keep : List Bool) (detAt : Nat) (det : List Nat) (sp : Species)
    (hi : Inv s) (hv : s.views[vi]? = some v) :
    ∀ t ∈ (opFilter { s with log := [] } vi keep detAt det sp).2.log,
      InView v t ∨ ∃ di sdet dst, sp = some (di, sdet) ∧ s.views[di]? = some dst ∧ InView dst t :=
  (opFilter_spec keep detAt det sp (s := { s with log := [] })
    (P := fun t => InView v t ∨ ∃ di sdet dst, sp = some (di, sdet) ∧ s.views[di]? = some dst ∧ InView dst t)
    hv (ctx0 hi) (fun _ _ h1 h2 => Or.inl ⟨rfl, h1, h2⟩)
    (fun di sdet dst h1 h2 _ _ h3 h4 => Or.inr ⟨di, sdet, dst, h1, h2, rfl, h3, h4⟩)).log

/-- `values()` / `entries()` iteration, with a detach after any element -/
theorem iterate_within_view (s : State) (vi : Nat) (v : View) (detAt : Nat) (det : List Nat)
    (hi : Inv s) (hv : s.views[vi]? = some v) :
    ∀ t ∈ (opIterate { s with log := [] } vi detAt det).2.log, InView v t :=
  (opIterate_spec detAt det (s := { s with log := [] }) hv (ctx0 hi) (pRange_inView v)).log

/-- **within_view (indexOf / lastIndexOf / includes)** — for every search value, every fromIndex (any integer, ±∞ clamps,
absent) and every adversary, the scan reads only bytes of the view. This is the statement seeded mutation C17-m1
(`min(fromIndex, length)` in lastIndexOf) violates: `lastFrom_bound` no longer holds there. -/
theorem search_within_view (s : State) (vi : Nat) (v : View) (mode : SearchMode) (se : Num) (from_ : Option IArg)
    (hi : Inv s) (hv : s.views[vi]? = some v) :
    ∀ t ∈ (opSearch { s with log := [] } vi mode se from_).2.log, InView v t :=
  (opSearch_spec mode se from_ (s := { s with log := [] }) hv (ctx0 hi) (pRange_inView v)).log

theorem at_within_view (s : State) (vi : Nat) (v : View) (idx : IArg) (hi : Inv s) (hv : s.views[vi]? = some v) :
    ∀ t ∈ (opAt { s with log := [] } vi idx).2.log, InView v t :=
  (opAt_spec idx (s := { s with log := [] }) hv (ctx0 hi) (pRange_inView v)).log

/-- every / some / find / findIndex / findLast / findLastIndex / forEach / reduce / reduceRight / values() / entries() -/
theorem visit_within_view (s : State) (vi : Nat) (v : View) (bwd : Bool) (detAt : Nat) (det : List Nat)
    (hi : Inv s) (hv : s.views[vi]? = some v) :
    ∀ t ∈ (opVisit { s with log := [] } vi bwd detAt det).2.log, InView v t :=
  (opVisit_spec bwd detAt det (s := { s with log := [] }) hv (ctx0 hi) (pRange_inView v)).log

/-- join / toString / toLocaleString -/
theorem join_within_view (s : State) (vi : Nat) (v : View) (det : List Nat) (pe : Bool) (hi : Inv s) (hv : s.views[vi]? = some v) :
    ∀ t ∈ (opJoin { s with log := [] } vi det pe).2.log, InView v t :=
  (opJoin_spec det pe (s := { s with log := [] }) hv (ctx0 hi) (pRange_inView v)).log

/-- the start index C17-m1 computes (`min(fromIndex, length)`) is out of the view for fromIndex ≥ length — witness on
length 4, fromIndex 4: index 4 is not `< 4` -/
theorem lastIndexOf_m1_witness : ¬ ((min (4 : Int) 4 + 1).toNat ≤ (4 : Int).toNat) := by decide

/-- `ArrayBuffer.prototype.slice` touches only the receiver buffer -/
theorem abSlice_within_buffer (s : State) (b : Nat) (st fi : Option IArg) (sp : BufSpecies) (hi : Inv s) :
    ∀ t ∈ (opABSlice { s with log := [] } b st fi sp).2.log, t.buf = b ∨ ∃ nb sdet, sp = some (nb, sdet) ∧ t.buf = nb :=
  (opABSlice_spec b st fi sp (s := { s with log := [] })
    (P := fun t => t.buf = b ∨ ∃ nb sdet, sp = some (nb, sdet) ∧ t.buf = nb) (ctx0 hi)
    (fun _ _ _ _ _ => Or.inl rfl) (fun nb sdet _ h _ _ _ _ => Or.inr ⟨nb, sdet, h, rfl⟩)).log

/-! ## bytes_eq_spec: the bytes an operation leaves behind, as a function of the byte array before it -/

theorem data_of_attached {s : State} {b : Nat} (h : s.attached b = true) : ∃ d, s.data? b = some d := by
  unfold State.attached at h
  cases hd : s.data? b with
  | none => simp [hd] at h
  | some d => exact ⟨d, rfl⟩

theorem blen_of_data {s : State} {b : Nat} {d : List UInt8} (h : s.data? b = some d) : s.blen b = d.length := by
  unfold State.blen; rw [h]

/-- **bytes_eq_spec (fill)** — ECMA-262 %TypedArray%.prototype.fill: after the argument coercions (state `s3`), every
byte of elements `[k, final)` of the view holds the corresponding byte of NumericToRawBytes(value) and every other
byte of every buffer is unchanged. -/
theorem fill_bytes_eq_spec (s : State) (vi : Nat) (v : View) (a : VArg) (st fi : Option IArg) (raw : List UInt8)
    (hv : s.views[vi]? = some v) (henc : encode v.kind a.num = some raw) (hok : (opFill s vi a st fi).1 = .ok) :
    ∃ d d', (((s.applyDet (oDet st)).applyDet (oDet fi)).applyDet a.det).data? v.buf = some d ∧
      (opFill s vi a st fi).2.data? v.buf = some d' ∧ d'.length = d.length ∧
      (∀ b', b' ≠ v.buf → (opFill s vi a st fi).2.data? b' = (((s.applyDet (oDet st)).applyDet (oDet fi)).applyDet a.det).data? b') ∧
      ∀ j, d'.getD j 0 =
        if (v.offset + (relToIdx (oVal st 0) v.length).toNat) * v.kind.size ≤ j ∧
           j < (v.offset + (relToIdx (oVal st 0) v.length).toNat +
                ((relToIdx (oVal fi v.length) v.length).toNat - (relToIdx (oVal st 0) v.length).toNat)) * v.kind.size ∧
           j < d.length
        then (fit v.kind.size raw).getD ((j - (v.offset + (relToIdx (oVal st 0) v.length).toNat) * v.kind.size) % v.kind.size) 0
        else d.getD j 0 := by
  unfold opFill at hok ⊢; rw [hv] at hok ⊢; dsimp only at hok ⊢
  by_cases h0 : (!s.attached v.buf) = true
  · rw [if_pos h0] at hok; simp at hok
  · rw [if_neg h0] at hok ⊢
    rw [henc] at hok ⊢; dsimp only at hok ⊢
    by_cases ha : (!(((s.applyDet (oDet st)).applyDet (oDet fi)).applyDet a.det).attached v.buf) = true
    · rw [if_pos ha] at hok; simp at hok
    · rw [if_neg ha]
      obtain ⟨d, hd⟩ := data_of_attached (not_not_attached ha)
      obtain ⟨d', h1, h2, h3, h4⟩ := fillLoop_data (v := v) (raw := raw)
        ((relToIdx (oVal fi v.length) v.length).toNat - (relToIdx (oVal st 0) v.length).toNat) _
        (relToIdx (oVal st 0) v.length).toNat d hd
      exact ⟨d, d', hd, h1, h2, h3, h4⟩

/-- **bytes_eq_spec (copyWithin)** — when elements are moved (`count > 0`), the bytes of the view's buffer afterwards
are exactly ECMA-262's byte-by-byte loop (ascending, or descending when the ranges overlap with from < to) applied to
the bytes before; every other buffer is unchanged. -/
theorem copyWithin_bytes_eq_spec (s : State) (vi : Nat) (v : View) (to from_ : IArg) (fi : Option IArg)
    (hi : Inv s) (hv : s.views[vi]? = some v) (hok : (opCopyWithin s vi to from_ fi).1 = .ok)
    (hpos : cwCount v.length (relToIdx to.val v.length) (relToIdx from_.val v.length) (relToIdx (oVal fi v.length) v.length) > 0) :
    ∃ d, (((s.applyDet to.det).applyDet from_.det).applyDet (oDet fi)).data? v.buf = some d ∧
      (opCopyWithin s vi to from_ fi).2.data? v.buf = some (specCopyWithinBytes d
        ((v.offset + (relToIdx from_.val v.length).toNat) * v.kind.size)
        ((v.offset + (relToIdx to.val v.length).toNat) * v.kind.size)
        ((cwCount v.length (relToIdx to.val v.length) (relToIdx from_.val v.length) (relToIdx (oVal fi v.length) v.length)).toNat * v.kind.size)) ∧
      ∀ b', b' ≠ v.buf → (opCopyWithin s vi to from_ fi).2.data? b' =
        (((s.applyDet to.det).applyDet from_.det).applyDet (oDet fi)).data? b' := by
  have hl : (0 : Int) ≤ (v.length : Int) := Int.natCast_nonneg _
  have c3 : Ctx (fun _ => True) (((s.applyDet to.det).applyDet from_.det).applyDet (oDet fi)) :=
    ((Ctx.applyDet ⟨hi, fun _ _ => trivial⟩ to.det).applyDet from_.det).applyDet (oDet fi)
  have m3 := mem_applyDet (mem_applyDet (mem_applyDet (mem_of_getElem? hv) to.det) from_.det) (oDet fi)
  unfold opCopyWithin at hok ⊢; rw [hv] at hok ⊢; dsimp only at hok ⊢
  by_cases h0 : (!s.attached v.buf) = true
  · rw [if_pos h0] at hok; simp at hok
  · rw [if_neg h0] at hok ⊢
    rw [if_pos hpos] at hok ⊢
    by_cases ha : (!(((s.applyDet to.det).applyDet from_.det).applyDet (oDet fi)).attached v.buf) = true
    · rw [if_pos ha] at hok; simp at hok
    · rw [if_neg ha]
      have hatt := not_not_attached ha
      obtain ⟨d, hd⟩ := data_of_attached hatt
      have hr := c3.inv.rangeOK m3 hatt
      obtain ⟨hb1, hb2⟩ := cw_bounds v.length (relToIdx to.val v.length) (relToIdx from_.val v.length)
        (relToIdx (oVal fi v.length) v.length)
        ⟨relToIdx_nonneg _ _ hl, relToIdx_le _ _ hl⟩ ⟨relToIdx_nonneg _ _ hl, relToIdx_le _ _ hl⟩
        ⟨relToIdx_nonneg _ _ hl, relToIdx_le _ _ hl⟩ hpos
      simp only [Int.toNat_natCast] at hb1 hb2
      have hdst := Nat.le_trans (elem_hi v _ _ hb2) hr.2
      rw [blen_of_data hd] at hdst ⊢
      have hmin : min ((cwCount v.length (relToIdx to.val v.length) (relToIdx from_.val v.length) (relToIdx (oVal fi v.length) v.length)).toNat * v.kind.size)
          (d.length - (v.offset + (relToIdx to.val v.length).toNat) * v.kind.size) =
          (cwCount v.length (relToIdx to.val v.length) (relToIdx from_.val v.length) (relToIdx (oVal fi v.length) v.length)).toNat * v.kind.size :=
        Nat.min_eq_left (by omega)
      rw [hmin]
      refine ⟨d, hd, ?_, ?_⟩
      · rw [move_data _ _ _ _ _ _ d hd, if_pos rfl, hd]
        simp only [Option.map_some]
        rw [memmove_eq_specCopyWithin d _ _ _ hdst]
      · intro b' hb'
        rw [move_data _ _ _ _ _ _ d hd, if_neg hb']

/-- **bytes_eq_spec (set, same element type)** — ECMA-262 SetTypedArrayFromTypedArray for equal types: the source
bytes AS THEY WERE BEFORE (the spec clones the source when the buffers are the same) are stored at the target
position; nothing else changes. -/
theorem setTA_sameKind_bytes_eq_spec (s : State) (vi si : Nat) (v src : View) (off : Option IArg)
    (hi : Inv s) (hv : s.views[vi]? = some v) (hs : s.views[si]? = some src) (hk : src.kind = v.kind)
    (hok : (opSetTA s vi si off).1 = .ok) :
    ∃ dd ds, (s.applyDet (oDet off)).data? v.buf = some dd ∧ (s.applyDet (oDet off)).data? src.buf = some ds ∧
      (opSetTA s vi si off).2.data? v.buf =
        some (splice dd ((v.offset + (oVal off 0).toNat) * v.kind.size) (window ds (src.offset * v.kind.size) (src.length * v.kind.size))) ∧
      ∀ b', b' ≠ v.buf → (opSetTA s vi si off).2.data? b' = (s.applyDet (oDet off)).data? b' := by
  have c1 : Ctx (fun _ => True) (s.applyDet (oDet off)) := Ctx.applyDet ⟨hi, fun _ _ => trivial⟩ (oDet off)
  have m1 := mem_applyDet (mem_of_getElem? hv) (oDet off)
  unfold opSetTA at hok ⊢; rw [hv, hs] at hok ⊢; dsimp only at hok ⊢
  by_cases hoff : oVal off 0 < 0
  · rw [if_pos hoff] at hok; simp at hok
  · rw [if_neg hoff] at hok ⊢
    by_cases ha : (!(s.applyDet (oDet off)).attached v.buf) = true
    · rw [if_pos ha] at hok; simp at hok
    · rw [if_neg ha] at hok ⊢
      by_cases has : (!(s.applyDet (oDet off)).attached src.buf) = true
      · rw [if_pos has] at hok; simp at hok
      · rw [if_neg has] at hok ⊢
        by_cases hfit : (src.length : Int) + oVal off 0 > (v.length : Int)
        · rw [if_pos hfit] at hok; simp at hok
        · rw [if_neg hfit] at hok ⊢
          have hkk : (src.kind == v.kind) = true := by simp [hk]
          rw [if_pos hkk]
          obtain ⟨dd, hdd⟩ := data_of_attached (not_not_attached ha)
          obtain ⟨ds, hds⟩ := data_of_attached (not_not_attached has)
          have hr := c1.inv.rangeOK m1 (not_not_attached ha)
          have hfit' : (oVal off 0).toNat + src.length ≤ v.length := by omega
          have hdst := Nat.le_trans (elem_hi v _ _ hfit') hr.2
          rw [blen_of_data hdd] at hdst ⊢
          rw [Nat.min_eq_left (by omega)]
          refine ⟨dd, ds, hdd, hds, ?_, ?_⟩
          · rw [move_data _ _ _ _ _ _ ds hds, if_pos rfl, hdd]; rfl
          · intro b' hb'
            rw [move_data _ _ _ _ _ _ ds hds, if_neg hb']

theorem set_sameSize_live_eq_clone' (f : List UInt8 → List UInt8) (d : List UInt8) (srcLo dstLo n sES dES : Nat) (h : sES = dES) :
    (Xfer.mk f sES dES srcLo dstLo).live d (setOrderSame srcLo dstLo n sES) =
    (Xfer.mk f sES dES srcLo dstLo).clone d d (List.range n) := by
  subst h; exact set_sameSize_live_eq_clone f d srcLo dstLo n sES

/-- goja's visiting order in `set` between typed arrays of different element types (builtin_typedarrays.go:1027-1058) -/
def gojaSetOrder (srcLo dstLo sES dES n : Nat) : List Nat :=
  if sES = dES then setOrderSame srcLo dstLo n sES else setOrderDiff srcLo dstLo sES dES n

/-- **bytes_eq_spec (set, different element types, one buffer)** — the bytes the model leaves behind (ECMA-262: clone the
source, convert, write) are exactly what goja's mechanism computes: element-by-element conversion with LIVE reads in the
order chosen by the pointer comparison (same element size) or by the split index (different sizes). For every position
of the two views on the buffer, every length, every pair of kinds. -/
theorem setTA_diffKind_bytes_eq_goja (s : State) (vi si : Nat) (v src : View) (off : Option IArg)
    (hv : s.views[vi]? = some v) (hs : s.views[si]? = some src) (hk : (src.kind == v.kind) = false)
    (hbuf : src.buf = v.buf) (hok : (opSetTA s vi si off).1 = .ok) :
    ∃ d, (s.applyDet (oDet off)).data? v.buf = some d ∧
      (opSetTA s vi si off).2.data? v.buf = some
        ((Xfer.mk (convBytes src.kind v.kind) src.kind.size v.kind.size (src.offset * src.kind.size)
            ((v.offset + (oVal off 0).toNat) * v.kind.size)).live d
          (gojaSetOrder (src.offset * src.kind.size) ((v.offset + (oVal off 0).toNat) * v.kind.size)
            src.kind.size v.kind.size src.length)) := by
  unfold opSetTA at hok ⊢; rw [hv, hs] at hok ⊢; dsimp only at hok ⊢
  by_cases hoff : oVal off 0 < 0
  · rw [if_pos hoff] at hok; simp at hok
  · rw [if_neg hoff] at hok ⊢
    by_cases ha : (!(s.applyDet (oDet off)).attached v.buf) = true
    · rw [if_pos ha] at hok; simp at hok
    · rw [if_neg ha] at hok ⊢
      by_cases has : (!(s.applyDet (oDet off)).attached src.buf) = true
      · rw [if_pos has] at hok; simp at hok
      · rw [if_neg has] at hok ⊢
        by_cases hfit : (src.length : Int) + oVal off 0 > (v.length : Int)
        · rw [if_pos hfit] at hok; simp at hok
        · rw [if_neg hfit] at hok ⊢
          have hkk : ¬ (src.kind == v.kind) = true := by simp [hk]
          rw [if_neg hkk] at hok ⊢
          by_cases hbig : (src.kind.isBig && !v.kind.isBig) = true
          · rw [if_pos hbig] at hok; simp at hok
          · rw [if_neg hbig] at hok ⊢
            obtain ⟨d, hd⟩ := data_of_attached (not_not_attached ha)
            have hds : (s.applyDet (oDet off)).data? src.buf = some d := by rw [hbuf]; exact hd
            obtain ⟨rv, rd⟩ := readElems_eq src d src.length (s.applyDet (oDet off)) 0 hds
            cases hc : convElems src.kind v.kind (readElems (s.applyDet (oDet off)) src 0 src.length).1 with
            | none => rw [hc] at hok; simp at hok
            | some ys =>
              dsimp only
              refine ⟨d, hd, ?_⟩
              have hys := convElems_eq_map _ _ _ _ hc
              rw [rv, List.map_map] at hys
              let X : Xfer := Xfer.mk (convBytes src.kind v.kind) src.kind.size v.kind.size (src.offset * src.kind.size)
                ((v.offset + (oVal off 0).toNat) * v.kind.size)
              have hys' : ys = (List.range' 0 src.length).map (fun i => X.f (window d (X.srcLo + i * X.sES) X.sES)) := by
                rw [hys]
                apply List.map_congr_left
                intro i _
                show convBytes src.kind v.kind (window d ((src.offset + i) * src.kind.size) src.kind.size) = _
                rw [Nat.add_mul]
              have hw := writeElems_clone v X d (oVal off 0).toNat rfl rfl src.length 0
                (readElems (s.applyDet (oDet off)) src 0 src.length).2 d (by rw [rd]; exact hd)
              rw [Nat.add_zero, ← hys'] at hw
              rw [hw, ← List.range_eq_range']
              congr 1
              unfold gojaSetOrder
              split
              · rename_i he
                exact (set_sameSize_live_eq_clone' _ d _ _ _ _ _ he).symm
              · rename_i hne
                exact (set_diffSize_live_eq_clone _ d _ _ _ _ _ hne).symm

/-! ## sort -/

/-- **sort, default comparator: the view afterwards holds a sorted permutation of its elements** (see `Sort.lean`):
raw elements after = `stableSort` of the raw elements before, which is a permutation in non-decreasing default order
(numbers ascending, −0 before +0, NaN last: `numLess_negZero_posZero`, `numLess_nan_last`); buffer length and every byte
outside the view unchanged. -/
theorem sort_default_sorted_permutation (s : State) (vi : Nat) (v : View) (hi : Inv s) (hv : s.views[vi]? = some v)
    (hok : (opSort s vi none).1 = .ok) :
    ∃ d d', s.data? v.buf = some d ∧ (opSort s vi none).2.data? v.buf = some d' ∧ d'.length = d.length ∧
      elemsOf d' v = stableSort (elemLess v.kind) (elemsOf d v) ∧
      (elemsOf d' v).Perm (elemsOf d v) ∧ Sorted (elemLess v.kind) (elemsOf d' v) ∧
      (∀ lo n, (lo + n ≤ v.lo ∨ v.hi ≤ lo) → window d' lo n = window d lo n) :=
  sort_bytes_sorted_perm s vi v hi hv hok

theorem sort_order_negZero_before_posZero : numLess (.dbl (2 ^ 63)) (.dbl 0) = true := numLess_negZero_posZero

theorem sort_order_nan_last (b : Nat) (hb : f64IsNaN b = false) :
    numLess (.dbl b) (.dbl nanBits) = true ∧ numLess (.dbl nanBits) (.dbl b) = false := numLess_nan_last b hb

/-- **sort, user comparator: the `typedArraySortCtx` protocol under detach** — for ANY sequence of `Less(i,j)` / `Swap(i,j)`
calls with `i, j < length` (whatever algorithm `sort.Stable` runs and whatever the comparator answers) and any adversary
detaching buffers inside comparator calls, every element touch happens while the buffer is attached, is in bounds and
lies inside the view. -/
theorem sort_comparator_protocol_safe (s : State) (vi : Nat) (v : View) (calls : List SortCall) (hi : Inv s)
    (hv : s.views[vi]? = some v) (hatt : s.attached v.buf = true) (hx : ∀ x ∈ calls, x.inRange v.length) :
    ∀ t ∈ (sortCalls { s with log := [] } v {} calls).1.log, t.ok = true ∧ InView v t :=
  sort_protocol_safe s vi v calls hi hv hatt hx

/-- seeded mutation C17-m2 (Swap without `checkDetached`) violates the protocol theorem -/
theorem sort_swap_without_recheck_witness :
    let s0 : State := { bufs := [some [3, 2, 1, 0]], views := [⟨0, 0, 4, .u8⟩] }
    let v : View := ⟨0, 0, 4, .u8⟩
    let r := sortCall s0 v {} (.less 1 0 [0])
    ¬ (∀ t ∈ (swapNoRecheck r.1 v r.2 1 0).log, t.ok = true) := sort_m2_witness

/-! ## the copyWithin defect of the pinned commit, as a witness on the model without the clamp -/

/-- `copyWithin` as it was before commit b85e9cc (`count := final - from` with no clamp by `l - to`), on the
failing input of DESIGN §9: view (offset 0, length 4) over 8 bytes, copyWithin(2, 0) — Go's `copy` is bounded
by the end of the BUFFER, so 4 bytes are moved to offset 2 and bytes 4,5 (outside the view) are written. -/
def cwUnclampedWrites (bufLen offset length es to from_ final : Nat) : List Nat :=
  let n := min ((final - from_) * es) (bufLen - (offset + to) * es)
  (List.range n).map (fun i => (offset + to) * es + i)

theorem copyWithin_unclamped_witness :
    ¬ (∀ i ∈ cwUnclampedWrites 8 0 4 1 2 0 4, i < (0 + 4) * 1) := by decide

/-! ## codecs -/

theorem encode_length (k : Kind) (n : Num) (bs : List UInt8) (h : encode k n = some bs) : bs.length = k.size := by
  unfold encode at h
  cases hn : encodeNat k n with
  | none => simp [hn] at h
  | some x => simp [hn] at h; subst h; exact leBytes_length _ _

theorem leNat_lt (bs : List UInt8) : leNat bs < 256 ^ bs.length := by
  induction bs with
  | nil => simp [leNat]
  | cons b bs ih =>
    have hb : b.toNat < 256 := b.toNat_lt
    simp only [leNat, List.length_cons, Nat.pow_succ]
    omega

/-- little-endian codec round trip: decoding the bytes written for `x < 256^n` gives `x` back -/
theorem leNat_leBytes (n x : Nat) (h : x < 256 ^ n) : leNat (leBytes n x) = x := by
  induction n generalizing x with
  | zero => simp at h; subst h; rfl
  | succ n ih =>
    have h2 : x / 256 < 256 ^ n := by
      rw [Nat.pow_succ] at h
      exact Nat.div_lt_of_lt_mul (by omega)
    simp only [leBytes, leNat, ih _ h2]
    have : (UInt8.ofNat (x % 256)).toNat = x % 256 := by
      simp [UInt8.toNat_ofNat']
    rw [this]; omega

/-- unsigned integer kinds: writing an in-range integer and reading it back is the identity -/
theorem codec_roundtrip_u8 (i : Nat) (h : i < 256) : (encode .u8 (.int i)).map (decode .u8) = some (.int i) := by
  have e : intModN 8 (i : Int) = i := by unfold intModN; omega
  simp only [encode, encodeNat, Kind.size, Nat.mul_one, e, Option.map_some, decode]
  rw [leNat_leBytes 1 i (by omega)]

theorem codec_roundtrip_u16 (i : Nat) (h : i < 65536) : (encode .u16 (.int i)).map (decode .u16) = some (.int i) := by
  have e : intModN 16 (i : Int) = i := by unfold intModN; omega
  simp only [encode, encodeNat, Kind.size, e, Option.map_some, decode]
  rw [leNat_leBytes 2 i (by omega)]

theorem codec_roundtrip_u32 (i : Nat) (h : i < 4294967296) : (encode .u32 (.int i)).map (decode .u32) = some (.int i) := by
  have e : intModN 32 (i : Int) = i := by unfold intModN; omega
  simp only [encode, encodeNat, Kind.size, e, Option.map_some, decode]
  rw [leNat_leBytes 4 i (by omega)]

/-- signed kinds: in-range integers round-trip through two's complement -/
theorem codec_roundtrip_i8 (i : Int) (h1 : -128 ≤ i) (h2 : i < 128) : (encode .i8 (.int i)).map (decode .i8) = some (.int i) := by
  have hb : intModN 8 i < 256 := by unfold intModN; omega
  simp only [encode, encodeNat, Kind.size, Nat.mul_one, Option.map_some, decode]
  rw [leNat_leBytes 1 _ (by omega)]
  unfold signedOfNat intModN
  congr 2
  split <;> omega

theorem codec_roundtrip_i16 (i : Int) (h1 : -32768 ≤ i) (h2 : i < 32768) : (encode .i16 (.int i)).map (decode .i16) = some (.int i) := by
  have hb : intModN 16 i < 65536 := by unfold intModN; omega
  simp only [encode, encodeNat, Kind.size, Option.map_some, decode]
  rw [leNat_leBytes 2 _ (by omega)]
  unfold signedOfNat intModN
  congr 2
  split <;> omega

theorem codec_roundtrip_i32 (i : Int) (h1 : -2147483648 ≤ i) (h2 : i < 2147483648) :
    (encode .i32 (.int i)).map (decode .i32) = some (.int i) := by
  have hb : intModN 32 i < 4294967296 := by unfold intModN; omega
  simp only [encode, encodeNat, Kind.size, Option.map_some, decode]
  rw [leNat_leBytes 4 _ (by omega)]
  unfold signedOfNat intModN
  congr 2
  split <;> omega

/-- modular integers: the bit pattern written depends only on the value modulo 2^n (ECMA-262 ToUintN) -/
theorem intModN_add_mul (bits : Nat) (i k : Int) : intModN bits (i + k * (2 ^ bits : Int)) = intModN bits i := by
  unfold intModN; rw [Int.add_mul_emod_self_right]

/-- Uint8Clamped never wraps -/
theorem u8clamp_range (i : Int) : intClampU8 i ≤ 255 := by
  unfold intClampU8
  split
  · omega
  · split <;> omega

/-! ## ToIntN is modular, Uint8Clamp is nearest-even (theorems about the codec definitions) -/

/-- `f64TruncMag` is ⌊|x|⌋ for a finite double: exact scaling for exponents ≥ 52, floor of `sig / 2^k` below. -/
theorem f64TruncMag_floor (b : Nat) :
    (f64Exp b = 0 → f64TruncMag b = 0) ∧
    (1075 ≤ f64Exp b → f64TruncMag b = (f64Man b + 2 ^ 52) * 2 ^ (f64Exp b - 1075)) ∧
    (0 < f64Exp b → f64Exp b < 1075 →
      f64TruncMag b * 2 ^ (1075 - f64Exp b) ≤ f64Man b + 2 ^ 52 ∧
      f64Man b + 2 ^ 52 < (f64TruncMag b + 1) * 2 ^ (1075 - f64Exp b)) := by
  refine ⟨fun h => by simp [f64TruncMag, h], fun h => ?_, fun h0 h1 => ?_⟩
  · have : ¬ f64Exp b = 0 := by omega
    simp [f64TruncMag, this, h]
  · have h2 : ¬ f64Exp b = 0 := by omega
    have h3 : ¬ 1075 ≤ f64Exp b := by omega
    simp only [f64TruncMag, beq_iff_eq, h2, if_false, ge_iff_le, h3]
    have hp : 0 < 2 ^ (1075 - f64Exp b) := Nat.pow_pos (by decide)
    refine ⟨Nat.div_mul_le_self _ _, ?_⟩
    have := Nat.lt_mul_div_succ (f64Man b + 2 ^ 52) hp
    rw [Nat.mul_comm] at this
    exact this

/-- **ToUintN / ToIntN are modular** (ECMA-262 7.1.6-7.1.11 step "int modulo 2^n"): for a finite double the stored
bit pattern is `sign·⌊|x|⌋ mod 2^n` (mathematical modulo on the integers), and it is `< 2^n`. -/
theorem f64ToUintN_modular (n b : Nat) (hfin : f64Exp b ≠ 2047) :
    ((f64ToUintN n b : Nat) : Int) =
      (if f64Sign b then -((f64TruncMag b : Nat) : Int) else ((f64TruncMag b : Nat) : Int)) % ((2 ^ n : Nat) : Int) ∧
    f64ToUintN n b < 2 ^ n := by
  have hN : 0 < 2 ^ n := Nat.pow_pos (by decide)
  have hfin' : (f64Exp b == 2047) = false := by simp [hfin]
  simp only [f64ToUintN, hfin', Bool.false_eq_true, if_false]
  generalize f64TruncMag b = mag
  generalize 2 ^ n = N at hN
  cases f64Sign b with
  | false =>
    simp only [Bool.false_eq_true, if_false]
    exact ⟨Int.natCast_emod _ _, Nat.mod_lt _ hN⟩
  | true =>
    simp only [if_true]
    refine ⟨?_, Nat.mod_lt _ hN⟩
    have hm : mag % N < N := Nat.mod_lt _ hN
    rw [Int.natCast_emod, Int.natCast_sub (Nat.le_of_lt hm), Int.natCast_emod]
    rw [Int.sub_emod, Int.emod_self, Int.emod_emod]
    rw [← Int.zero_sub ((mag : Int)), Int.sub_emod 0 (mag : Int), Int.zero_emod]

theorem f64ToUintN_nonfinite (n b : Nat) (h : f64Exp b = 2047) : f64ToUintN n b = 0 := by
  simp [f64ToUintN, h]

/-- **Uint8Clamp rounds to nearest, ties to even, and clamps** (ECMA-262 7.1.12) for a positive finite double below
2^52 with value `v = sig / 2^k`: the result `r` satisfies `|r − v| ≤ 1/2` when `v ≤ 255` (stated after multiplying by
`2^(k+1)`), `r` is even in the two tie cases, and `r = 255` when `v ≥ 255`. -/
theorem f64ToU8Clamp_nearest (b k sig : Nat) (hn : f64IsNaN b = false) (hs : f64Sign b = false)
    (h0 : 0 < f64Exp b) (h1 : f64Exp b < 1075) (hkdef : k = 1075 - f64Exp b) (hsig : sig = f64Man b + 2 ^ 52) :
    f64ToU8Clamp b ≤ 255 ∧
    (255 * 2 ^ k ≤ sig → f64ToU8Clamp b = 255) ∧
    (sig ≤ 255 * 2 ^ k →
      2 * (f64ToU8Clamp b * 2 ^ k) ≤ 2 * sig + 2 ^ k ∧ 2 * sig ≤ 2 * (f64ToU8Clamp b * 2 ^ k) + 2 ^ k ∧
      ((2 * (f64ToU8Clamp b * 2 ^ k) = 2 * sig + 2 ^ k ∨ 2 * sig = 2 * (f64ToU8Clamp b * 2 ^ k) + 2 ^ k) →
        f64ToU8Clamp b % 2 = 0)) := by
  have hk : 1 ≤ k := by omega
  have e0 : ¬ f64Exp b = 0 := by omega
  have e1 : ¬ f64Exp b = 2047 := by omega
  have e2 : ¬ 1075 ≤ f64Exp b := by omega
  have hr : f64ToU8Clamp b = (if sig / 2 ^ k ≥ 255 then 255
      else if sig % 2 ^ k > 2 ^ (k - 1) then sig / 2 ^ k + 1
      else if sig % 2 ^ k < 2 ^ (k - 1) then sig / 2 ^ k
      else if (sig / 2 ^ k) % 2 == 1 then sig / 2 ^ k + 1 else sig / 2 ^ k) := by
    simp only [f64ToU8Clamp, hn, hs, Bool.false_eq_true, if_false, beq_iff_eq, e0, e1, ge_iff_le, e2]
    rw [← hsig, ← hkdef]
  generalize f64ToU8Clamp b = r at hr ⊢
  clear hsig hkdef hn hs h0 h1 e0 e1 e2
  have hP : 2 ^ k = 2 * 2 ^ (k - 1) := by
    have : k = (k - 1) + 1 := by omega
    rw [this, Nat.pow_succ]; simp; omega
  have hdm := Nat.div_add_mod sig (2 ^ k)
  have hlt := Nat.mod_lt sig (Nat.pow_pos (n := k) (by decide : 0 < 2))
  have hhalfpos : 0 < 2 ^ (k - 1) := Nat.pow_pos (by decide)
  have hsucc : (sig / 2 ^ k + 1) * 2 ^ k = sig / 2 ^ k * 2 ^ k + 2 ^ k := Nat.succ_mul _ _
  have hcomm : 2 ^ k * (sig / 2 ^ k) = sig / 2 ^ k * 2 ^ k := Nat.mul_comm _ _
  rw [hcomm] at hdm
  rw [hr]
  generalize hq : sig / 2 ^ k = q at *
  generalize hrem : sig % 2 ^ k = rem at *
  generalize hhalf : 2 ^ (k - 1) = half at *
  generalize hPP : 2 ^ k = P at *
  generalize hX : q * P = X at *
  have hmono : 255 ≤ q → 255 * P ≤ X := fun h => by rw [← hX]; exact Nat.mul_le_mul_right P h
  have hmono2 : q ≤ 254 → X ≤ 254 * P := fun h => by rw [← hX]; exact Nat.mul_le_mul_right P h
  have hmod2 : q % 2 = 0 ∨ q % 2 = 1 := by omega
  by_cases c1 : q ≥ 255
  · rw [if_pos c1]
    have := hmono c1
    refine ⟨by omega, fun _ => rfl, fun hle => ?_⟩
    have h255 : 255 * P = X := by omega
    have hrem0 : rem = 0 := by omega
    refine ⟨by omega, by omega, fun h => by omega⟩
  · rw [if_neg c1]
    have hq254 := hmono2 (by omega)
    by_cases c2 : rem > half
    · rw [if_pos c2]
      refine ⟨by omega, fun h => by omega, fun _ => ?_⟩
      rw [hsucc]
      refine ⟨by omega, by omega, fun h => by omega⟩
    · rw [if_neg c2]
      by_cases c3 : rem < half
      · rw [if_pos c3]
        refine ⟨by omega, fun h => by omega, fun _ => ?_⟩
        rw [hX]
        refine ⟨by omega, by omega, fun h => by omega⟩
      · rw [if_neg c3]
        have hreq : rem = half := by omega
        by_cases c4 : (q % 2 == 1) = true
        · rw [if_pos c4]
          have hodd : q % 2 = 1 := by simpa using c4
          refine ⟨by omega, fun h => by omega, fun _ => ?_⟩
          rw [hsucc]
          refine ⟨by omega, by omega, fun _ => by omega⟩
        · rw [if_neg c4]
          have heven : q % 2 = 0 := by
            have : ¬ q % 2 = 1 := by simpa using c4
            omega
          refine ⟨by omega, fun h => by omega, fun _ => ?_⟩
          rw [hX]
          exact ⟨by omega, by omega, fun _ => heven⟩

/-! ## Float32Array stores round to nearest, ties to even (see `Float32.lean`) -/

/-- the rounding primitive of `f64ToF32`: with `q = rneShift sig k`, `2·|q·2^k − sig| ≤ 2^k` and ties give an even `q` -/
theorem float32_round_nearest_even (sig k : Nat) (hk : 1 ≤ k) :
    2 * (rneShift sig k * 2 ^ k) ≤ 2 * sig + 2 ^ k ∧ 2 * sig ≤ 2 * (rneShift sig k * 2 ^ k) + 2 ^ k ∧
    ((2 * (rneShift sig k * 2 ^ k) = 2 * sig + 2 ^ k ∨ 2 * sig = 2 * (rneShift sig k * 2 ^ k) + 2 ^ k) → rneShift sig k % 2 = 0) :=
  let h := rneShift_nearest sig k hk; ⟨h.1, h.2.1, h.2.2.1⟩

/-- **normal range**: the float32 stored for the double `(s, e, m)` widens back to the double with significand exactly
`q·2^29`, `q = rneShift (m+2^52) 29`, at exponent `e` (or `2^52` at `e+1` when the rounding carried) — i.e. the stored value
is `q·2^(e−1075+29)`, by `float32_round_nearest_even` the float32 nearest to `(m+2^52)·2^(e−1075)`, ties to even. -/
theorem float32_store_load_normal (s : Bool) (e m q : Nat) (he1 : 896 < e) (he2 : e < 2047) (hm : m < 2 ^ 52)
    (hq : q = rneShift (m + 2 ^ 52) 29) (hno : (e - 897) * 2 ^ 23 + q < 0x7f800000) :
    (q < 2 ^ 24 → f32ToF64 (f64ToF32 (mkF64 s e m)) = mkF64 s e ((q - 2 ^ 23) * 2 ^ 29)) ∧
    (q = 2 ^ 24 → f32ToF64 (f64ToF32 (mkF64 s e m)) = mkF64 s (e + 1) 0) :=
  f32_store_load_normal s e m q he1 he2 hm hq hno

/-- **subnormal range** of float32 (`e ≤ 896`): the stored bits are the sign and `rneShift sig (926−e)`, the nearest-even
multiple of 2^−149; **overflow**: ±∞ -/
theorem float32_store_subnormal (s : Bool) (e m : Nat) (he1 : 0 < e) (he2 : e ≤ 896) (hm : m < 2 ^ 52) :
    f64ToF32 (mkF64 s e m) = (if s then 2 ^ 31 else 0) + rneShift (m + 2 ^ 52) (926 - e) :=
  f64ToF32_subnormal s e m he1 he2 hm

/-- widening a subnormal float32 is exact: `m·2^−149` becomes the double with exponent field `⌊log2 m⌋ + 874` and
significand `m·2^(52−⌊log2 m⌋)` — with `float32_store_subnormal` and `float32_round_nearest_even` (k = 926 − e) the stored
subnormal is the multiple of 2^−149 nearest to the double, ties to even. -/
theorem float32_load_subnormal (s : Bool) (m : Nat) (h0 : 0 < m) (hm : m < 2 ^ 23) :
    f32ToF64 ((if s then 2 ^ 31 else 0) + m) = mkF64 s (Nat.log2 m + 874) ((m - 2 ^ Nat.log2 m) * 2 ^ (52 - Nat.log2 m)) ∧
    (m - 2 ^ Nat.log2 m) * 2 ^ (52 - Nat.log2 m) + 2 ^ 52 = m * 2 ^ (52 - Nat.log2 m) ∧
    (m - 2 ^ Nat.log2 m) * 2 ^ (52 - Nat.log2 m) < 2 ^ 52 :=
  f32ToF64_subnormal s m h0 hm

theorem float32_store_overflow (s : Bool) (e m : Nat) (he1 : 896 < e) (he2 : e < 2047) (hm : m < 2 ^ 52)
    (hov : (e - 897) * 2 ^ 23 + rneShift (m + 2 ^ 52) 29 ≥ 0x7f800000) :
    f64ToF32 (mkF64 s e m) = (if s then 2 ^ 31 else 0) + 0x7f800000 :=
  f64ToF32_overflow s e m he1 he2 hm hov

/-! ## non-vacuity (these are tests on literals, not theorems about all inputs) -/

/-- a concrete non-trivial state satisfying the invariant: 8-byte buffer with a Uint16 view (offset 1, length 3)
and a DataView (2, 5) -/
def exState : State := run {} [.newBuf [0, 1, 2, 3, 4, 5, 6, 7], .newView .u16 0 (some ⟨2, []⟩) (some ⟨3, []⟩) [],
  .newDV 0 (some ⟨2, []⟩) (some ⟨5, []⟩) []]

example : exState.views = [⟨0, 1, 3, .u16⟩] ∧ exState.dvs = [⟨0, 2, 5⟩] := by decide
example : Inv exState := view_inv _
-- copyWithin on the DESIGN §9 input stays inside the view (bytes 4..7 untouched)
example : ((run {} [.newBuf [0, 1, 2, 3, 4, 5, 6, 7], .newView .u8 0 (some ⟨0, []⟩) (some ⟨4, []⟩) [],
    .copyWithin 0 ⟨2, []⟩ ⟨0, []⟩ none]).bufs) = [some [0, 1, 0, 1, 4, 5, 6, 7]] := by decide
-- `of` applied to a user constructor returning a view at byte offset 4 writes at VIEW index 0,1 (bytes 4,5)
example : ((run {} [.newBuf [1, 2, 3, 4, 5, 6, 7, 8], .newView .u8 0 (some ⟨4, []⟩) (some ⟨4, []⟩) [],
    .of_ (.user 0 []) [⟨.int 9, []⟩, ⟨.int 10, []⟩]]).bufs) = [some [1, 2, 3, 4, 9, 10, 7, 8]] := by decide
-- the hypotheses of fill_bytes_eq_spec are satisfiable (fill succeeds on a concrete state)
example : (opFill exState 0 ⟨.int 7, []⟩ none none).1.isOk = true := by decide
-- an adversarial fill (start.valueOf detaches the buffer) throws and touches nothing
example : (step { exState with log := [] } (.fill 0 ⟨.int 7, []⟩ (some ⟨0, [0]⟩) none)).2.log = [] := by decide

end GojaModel.C17
