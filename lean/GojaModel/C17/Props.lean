/-
  C17 property theorems (each `theorem` here is one audited proof obligation).

  * `*_spec`  — for an ARBITRARY predicate `P` on touches that accepts the in-bounds touches of the operated
                view(s): the operation keeps `LogAll P` and the view invariant `Inv`, for all arguments and every
                adversary (detach lists at every callback point).  Instantiating `P` gives
  * `access_in_bounds` (`P t := t.ok`): every touched index is `< |buf|` and the buffer is attached at the time;
  * `*_within_view`    (`P t := t` lies in `[offset*es, (offset+length)*es)` of the operated view).
  * `view_inv_*`       — the constructors establish `Inv`, every operation preserves it, for all histories.
  * codec theorems.
-/
import GojaModel.C17.Specs

namespace GojaModel.C17

/-! ## every operation, every history -/

/-- One step of any operation, any arguments, any adversary: keeps `LogAll P` for every predicate `P` that accepts
all in-bounds touches, and keeps the view invariant. -/
theorem step_spec {P : Touch → Prop} (hall : ∀ b lo hi, PRange P b lo hi) (s : State) (op : Op) (c : Ctx P s) :
    Ctx P (step s op).2 := by
  cases op with
  | newBuf bytes => exact ⟨inv_pushBuf c.inv bytes, c.log⟩
  | detach b => exact ⟨inv_detach c.inv b, c.log⟩
  | newView k b off len => exact opNewView_spec k b off len c
  | newDV b off len => exact opNewDV_spec b off len c
  | get v idx =>
    show Ctx P (opGet s v idx).2
    cases hv : s.views[v]? with
    | none => unfold opGet; rw [hv]; exact c
    | some w => exact opGet_spec idx hv c (hall _ _ _)
  | put v idx a =>
    show Ctx P (opPut s v idx a).2
    cases hv : s.views[v]? with
    | none => unfold opPut; rw [hv]; exact c
    | some w => exact opPut_spec idx a hv c (hall _ _ _)
  | fill v a st fi =>
    show Ctx P (opFill s v a st fi).2
    cases hv : s.views[v]? with
    | none => unfold opFill; rw [hv]; exact c
    | some w => exact opFill_spec a st fi hv c (hall _ _ _)
  | copyWithin v t f e =>
    show Ctx P (opCopyWithin s v t f e).2
    cases hv : s.views[v]? with
    | none => unfold opCopyWithin; rw [hv]; exact c
    | some w => exact opCopyWithin_spec t f e hv c (hall _ _ _)
  | setTA v src off =>
    show Ctx P (opSetTA s v src off).2
    cases hv : s.views[v]? with
    | none => unfold opSetTA; rw [hv]; exact c
    | some w =>
      cases hs : s.views[src]? with
      | none => unfold opSetTA; rw [hv, hs]; exact c
      | some w2 => exact opSetTA_spec off hv hs c (hall _ _ _) (hall _ _ _)
  | setArr v off vals =>
    show Ctx P (opSetArr s v off vals).2
    cases hv : s.views[v]? with
    | none => unfold opSetArr; rw [hv]; exact c
    | some w => exact opSetArr_spec off vals hv c (hall _ _ _)
  | slice v st fi sp =>
    show Ctx P (opSlice s v st fi sp).2
    cases hv : s.views[v]? with
    | none => unfold opSlice; rw [hv]; exact c
    | some w => exact opSlice_spec st fi sp hv c (hall _ _ _) (fun _ => hall _ _ _) (fun _ _ _ _ _ => hall _ _ _)
  | subarray v st fi sp =>
    show Ctx P (opSubarray s v st fi sp).2
    cases hv : s.views[v]? with
    | none => unfold opSubarray; rw [hv]; exact c
    | some w => exact opSubarray_spec st fi sp hv c
  | sort v cmp =>
    show Ctx P (opSort s v cmp).2
    cases hv : s.views[v]? with
    | none => unfold opSort; rw [hv]; exact c
    | some w => exact opSort_spec cmp hv c (hall _ _ _)
  | reverse v =>
    show Ctx P (opReverse s v).2
    cases hv : s.views[v]? with
    | none => unfold opReverse; rw [hv]; exact c
    | some w => exact opReverse_spec hv c (hall _ _ _)
  | dvGet d k i le =>
    show Ctx P (opDVGet s d k i le).2
    cases hd : s.dvs[d]? with
    | none => unfold opDVGet; rw [hd]; exact c
    | some w => exact opDVGet_spec k i le hd c (hall _ _ _)
  | dvSet d k i a le =>
    show Ctx P (opDVSet s d k i a le).2
    cases hd : s.dvs[d]? with
    | none => unfold opDVSet; rw [hd]; exact c
    | some w => exact opDVSet_spec k i a le hd c (hall _ _ _)
  | other v na ml det =>
    show Ctx P (opOther s v na ml det).2
    unfold opOther
    split
    · exact c
    · split
      · exact c.applyDet det
      · exact c

theorem run_spec {P : Touch → Prop} (hall : ∀ b lo hi, PRange P b lo hi) :
    ∀ (ops : List Op) (s : State), Ctx P s → Ctx P (run s ops) := by
  intro ops
  induction ops with
  | nil => intro s c; exact c
  | cons op ops ih => intro s c; exact ih _ (step_spec hall s op c)

/-- **view_inv** — for every history (any length, any operations, any arguments, any adversary) starting from the
empty state, every view satisfies `(offset+length)*elemSize ≤ |buf|` while its buffer is attached (and every
DataView `byteOffset+byteLen ≤ |buf|`). -/
theorem view_inv (ops : List Op) : Inv (run {} ops) :=
  (run_spec (P := fun _ => True) (fun _ _ _ _ _ _ _ => trivial) ops {} ⟨inv_init, fun _ _ => trivial⟩).inv

/-- **access_in_bounds** — for every history, every byte index the model touches is `< |buf|` and the buffer is
attached at the time of the touch. -/
theorem access_in_bounds (ops : List Op) : ∀ t ∈ (run {} ops).log, t.ok = true :=
  (run_spec (P := fun t => t.ok = true) (fun _ _ _ _ _ _ _ => rfl) ops {} ⟨inv_init, fun _ h => by simp at h⟩).log

/-- access_in_bounds for one step from any state that satisfies the invariant -/
theorem access_in_bounds_step (s : State) (op : Op) (hi : Inv s) :
    ∀ t ∈ (step { s with log := [] } op).2.log, t.ok = true :=
  (step_spec (P := fun t => t.ok = true) (fun _ _ _ _ _ _ _ => rfl) _ op ⟨hi.withLog [], fun _ h => by simp at h⟩).log

/-! ## within_view -/

/-- the touch lies in the byte range `[offset*es, (offset+length)*es)` of view `v` -/
def InView (v : View) (t : Touch) : Prop := t.buf = v.buf ∧ v.lo ≤ t.idx ∧ t.idx < v.hi

theorem pRange_inView (v : View) : PRange (InView v) v.buf v.lo v.hi := fun _ _ h1 h2 => ⟨rfl, h1, h2⟩

/-- **within_view (copyWithin)** — the statement the code violated before commit b85e9cc. -/
theorem copyWithin_within_view (s : State) (vi : Nat) (v : View) (to from_ : IArg) (fi : Option IArg)
    (hi : Inv s) (hv : s.views[vi]? = some v) :
    ∀ t ∈ (opCopyWithin { s with log := [] } vi to from_ fi).2.log, InView v t :=
  (opCopyWithin_spec to from_ fi (s := { s with log := [] }) hv (ctx0 hi) (pRange_inView v)).log

theorem fill_within_view (s : State) (vi : Nat) (v : View) (a : VArg) (st fi : Option IArg)
    (hi : Inv s) (hv : s.views[vi]? = some v) :
    ∀ t ∈ (opFill { s with log := [] } vi a st fi).2.log, InView v t :=
  (opFill_spec a st fi (s := { s with log := [] }) hv (ctx0 hi) (pRange_inView v)).log

theorem get_within_view (s : State) (vi : Nat) (v : View) (idx : Int) (hi : Inv s) (hv : s.views[vi]? = some v) :
    ∀ t ∈ (opGet { s with log := [] } vi idx).2.log, InView v t :=
  (opGet_spec idx (s := { s with log := [] }) hv (ctx0 hi) (pRange_inView v)).log

theorem put_within_view (s : State) (vi : Nat) (v : View) (idx : Int) (a : VArg) (hi : Inv s) (hv : s.views[vi]? = some v) :
    ∀ t ∈ (opPut { s with log := [] } vi idx a).2.log, InView v t :=
  (opPut_spec idx a (s := { s with log := [] }) hv (ctx0 hi) (pRange_inView v)).log

theorem setArr_within_view (s : State) (vi : Nat) (v : View) (off : Option IArg) (vals : List VArg)
    (hi : Inv s) (hv : s.views[vi]? = some v) :
    ∀ t ∈ (opSetArr { s with log := [] } vi off vals).2.log, InView v t :=
  (opSetArr_spec off vals (s := { s with log := [] }) hv (ctx0 hi) (pRange_inView v)).log

/-- set(typedArray): every touch is inside the target view or inside the source view -/
theorem setTA_within_view (s : State) (vi si : Nat) (v src : View) (off : Option IArg)
    (hi : Inv s) (hv : s.views[vi]? = some v) (hs : s.views[si]? = some src) :
    ∀ t ∈ (opSetTA { s with log := [] } vi si off).2.log, InView v t ∨ InView src t :=
  (opSetTA_spec off (s := { s with log := [] }) (P := fun t => InView v t ∨ InView src t) hv hs (ctx0 hi)
    (fun _ _ h1 h2 => Or.inl ⟨rfl, h1, h2⟩) (fun _ _ h1 h2 => Or.inr ⟨rfl, h1, h2⟩)).log

theorem sort_within_view (s : State) (vi : Nat) (v : View) (cmp : Cmp) (hi : Inv s) (hv : s.views[vi]? = some v) :
    ∀ t ∈ (opSort { s with log := [] } vi cmp).2.log, InView v t :=
  (opSort_spec cmp (s := { s with log := [] }) hv (ctx0 hi) (pRange_inView v)).log

theorem reverse_within_view (s : State) (vi : Nat) (v : View) (hi : Inv s) (hv : s.views[vi]? = some v) :
    ∀ t ∈ (opReverse { s with log := [] } vi).2.log, InView v t :=
  (opReverse_spec (s := { s with log := [] }) hv (ctx0 hi) (pRange_inView v)).log

/-- slice: every touch is inside the source view, inside the freshly allocated result buffer, or inside the view the
species constructor returned -/
theorem slice_within_view (s : State) (vi : Nat) (v : View) (st fi : Option IArg) (sp : Species)
    (hi : Inv s) (hv : s.views[vi]? = some v) :
    ∀ t ∈ (opSlice { s with log := [] } vi st fi sp).2.log,
      InView v t ∨ t.buf = s.bufs.length ∨ ∃ di det dst, sp = some (di, det) ∧ s.views[di]? = some dst ∧ InView dst t :=
  (opSlice_spec st fi sp (s := { s with log := [] })
    (P := fun t => InView v t ∨ t.buf = s.bufs.length ∨ ∃ di det dst, sp = some (di, det) ∧ s.views[di]? = some dst ∧ InView dst t)
    hv (ctx0 hi)
    (fun _ _ h1 h2 => Or.inl ⟨rfl, h1, h2⟩)
    (fun _ _ _ _ _ => Or.inr (Or.inl rfl))
    (fun di det dst h1 h2 _ _ h3 h4 => Or.inr (Or.inr ⟨di, det, dst, h1, h2, rfl, h3, h4⟩))).log

/-- subarray touches no memory at all -/
theorem subarray_no_touch (s : State) (vi : Nat) (v : View) (st fi : Option IArg) (sp : Species)
    (hi : Inv s) (hv : s.views[vi]? = some v) :
    ∀ t ∈ (opSubarray { s with log := [] } vi st fi sp).2.log, False :=
  (opSubarray_spec st fi sp (s := { s with log := [] }) (P := fun _ => False) hv (ctx0 hi)).log

/-- DataView get/set touch only `[byteOffset, byteOffset+byteLen)` -/
theorem dvGet_within_view (s : State) (di : Nat) (d : DView) (k : Kind) (idx : IArg) (le : Bool)
    (hi : Inv s) (hd : s.dvs[di]? = some d) :
    ∀ t ∈ (opDVGet { s with log := [] } di k idx le).2.log,
      t.buf = d.buf ∧ d.byteOffset ≤ t.idx ∧ t.idx < d.byteOffset + d.byteLen :=
  (opDVGet_spec k idx le (s := { s with log := [] }) hd (ctx0 hi) (fun _ _ h1 h2 => ⟨rfl, h1, h2⟩)).log

theorem dvSet_within_view (s : State) (di : Nat) (d : DView) (k : Kind) (idx : IArg) (a : VArg) (le : Bool)
    (hi : Inv s) (hd : s.dvs[di]? = some d) :
    ∀ t ∈ (opDVSet { s with log := [] } di k idx a le).2.log,
      t.buf = d.buf ∧ d.byteOffset ≤ t.idx ∧ t.idx < d.byteOffset + d.byteLen :=
  (opDVSet_spec k idx a le (s := { s with log := [] }) hd (ctx0 hi) (fun _ _ h1 h2 => ⟨rfl, h1, h2⟩)).log

/-! ## the copyWithin defect of the pinned commit, as a witness on the model without the clamp -/

/-- `copyWithin` as it was before commit b85e9cc (`count := final - from` with no clamp by `l - to`), on the
failing input of DESIGN §9: view (offset 0, length 4) over 8 bytes, copyWithin(2, 0) — Go's `copy` is bounded
by the end of the BUFFER, so 4 bytes are moved to offset 2 and bytes 4,5 (outside the view) are written. -/
def cwUnclampedWrites (bufLen offset length es to from_ final : Nat) : List Nat :=
  let n := min ((final - from_) * es) (bufLen - (offset + to) * es)
  (List.range n).map (fun i => (offset + to) * es + i)

theorem copyWithin_unclamped_witness :
    ¬ (∀ i ∈ cwUnclampedWrites 8 0 4 1 2 0 4, i < (0 + 4) * 1) := by decide

/-! ## codecs -/

theorem encode_length (k : Kind) (n : Num) (bs : List UInt8) (h : encode k n = some bs) : bs.length = k.size := by
  unfold encode at h
  cases hn : encodeNat k n with
  | none => simp [hn] at h
  | some x => simp [hn] at h; subst h; exact leBytes_length _ _

theorem leNat_lt (bs : List UInt8) : leNat bs < 256 ^ bs.length := by
  induction bs with
  | nil => simp [leNat]
  | cons b bs ih =>
    have hb : b.toNat < 256 := b.toNat_lt
    simp only [leNat, List.length_cons, Nat.pow_succ]
    omega

/-- little-endian codec round trip: decoding the bytes written for `x < 256^n` gives `x` back -/
theorem leNat_leBytes (n x : Nat) (h : x < 256 ^ n) : leNat (leBytes n x) = x := by
  induction n generalizing x with
  | zero => simp at h; subst h; rfl
  | succ n ih =>
    have h2 : x / 256 < 256 ^ n := by
      rw [Nat.pow_succ] at h
      exact Nat.div_lt_of_lt_mul (by omega)
    simp only [leBytes, leNat, ih _ h2]
    have : (UInt8.ofNat (x % 256)).toNat = x % 256 := by
      simp [UInt8.toNat_ofNat']
    rw [this]; omega

/-- unsigned integer kinds: writing an in-range integer and reading it back is the identity -/
theorem codec_roundtrip_u8 (i : Nat) (h : i < 256) : (encode .u8 (.int i)).map (decode .u8) = some (.int i) := by
  have e : intModN 8 (i : Int) = i := by unfold intModN; omega
  simp only [encode, encodeNat, Kind.size, Nat.mul_one, e, Option.map_some, decode]
  rw [leNat_leBytes 1 i (by omega)]

theorem codec_roundtrip_u16 (i : Nat) (h : i < 65536) : (encode .u16 (.int i)).map (decode .u16) = some (.int i) := by
  have e : intModN 16 (i : Int) = i := by unfold intModN; omega
  simp only [encode, encodeNat, Kind.size, e, Option.map_some, decode]
  rw [leNat_leBytes 2 i (by omega)]

theorem codec_roundtrip_u32 (i : Nat) (h : i < 4294967296) : (encode .u32 (.int i)).map (decode .u32) = some (.int i) := by
  have e : intModN 32 (i : Int) = i := by unfold intModN; omega
  simp only [encode, encodeNat, Kind.size, e, Option.map_some, decode]
  rw [leNat_leBytes 4 i (by omega)]

/-- signed kinds: in-range integers round-trip through two's complement -/
theorem codec_roundtrip_i8 (i : Int) (h1 : -128 ≤ i) (h2 : i < 128) : (encode .i8 (.int i)).map (decode .i8) = some (.int i) := by
  have hb : intModN 8 i < 256 := by unfold intModN; omega
  simp only [encode, encodeNat, Kind.size, Nat.mul_one, Option.map_some, decode]
  rw [leNat_leBytes 1 _ (by omega)]
  unfold signedOfNat intModN
  congr 2
  split <;> omega

theorem codec_roundtrip_i16 (i : Int) (h1 : -32768 ≤ i) (h2 : i < 32768) : (encode .i16 (.int i)).map (decode .i16) = some (.int i) := by
  have hb : intModN 16 i < 65536 := by unfold intModN; omega
  simp only [encode, encodeNat, Kind.size, Option.map_some, decode]
  rw [leNat_leBytes 2 _ (by omega)]
  unfold signedOfNat intModN
  congr 2
  split <;> omega

theorem codec_roundtrip_i32 (i : Int) (h1 : -2147483648 ≤ i) (h2 : i < 2147483648) :
    (encode .i32 (.int i)).map (decode .i32) = some (.int i) := by
  have hb : intModN 32 i < 4294967296 := by unfold intModN; omega
  simp only [encode, encodeNat, Kind.size, Option.map_some, decode]
  rw [leNat_leBytes 4 _ (by omega)]
  unfold signedOfNat intModN
  congr 2
  split <;> omega

/-- modular integers: the bit pattern written depends only on the value modulo 2^n (ECMA-262 ToUintN) -/
theorem intModN_add_mul (bits : Nat) (i k : Int) : intModN bits (i + k * (2 ^ bits : Int)) = intModN bits i := by
  unfold intModN; rw [Int.add_mul_emod_self_right]

/-- Uint8Clamped never wraps -/
theorem u8clamp_range (i : Int) : intClampU8 i ≤ 255 := by
  unfold intClampU8
  split
  · omega
  · split <;> omega

/-! ## non-vacuity (these are tests on literals, not theorems about all inputs) -/

/-- a concrete non-trivial state satisfying the invariant: 8-byte buffer with a Uint16 view (offset 1, length 3)
and a DataView (2, 5) -/
def exState : State := run {} [.newBuf [0, 1, 2, 3, 4, 5, 6, 7], .newView .u16 0 (some ⟨2, []⟩) (some ⟨3, []⟩),
  .newDV 0 (some ⟨2, []⟩) (some ⟨5, []⟩)]

example : exState.views = [⟨0, 1, 3, .u16⟩] ∧ exState.dvs = [⟨0, 2, 5⟩] := by decide
example : Inv exState := view_inv _
-- copyWithin on the DESIGN §9 input stays inside the view (bytes 4..7 untouched)
example : ((run {} [.newBuf [0, 1, 2, 3, 4, 5, 6, 7], .newView .u8 0 (some ⟨0, []⟩) (some ⟨4, []⟩),
    .copyWithin 0 ⟨2, []⟩ ⟨0, []⟩ none]).bufs) = [some [0, 1, 0, 1, 4, 5, 6, 7]] := by decide
-- an adversarial fill (start.valueOf detaches the buffer) throws and touches nothing
example : (step { exState with log := [] } (.fill 0 ⟨.int 7, []⟩ (some ⟨0, [0]⟩) none)).2.log = [] := by decide

end GojaModel.C17
