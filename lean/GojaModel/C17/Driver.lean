/-
  C17 model driver: one op per line in, one canonical answer line out (same protocol as harness/cmd/c17).

    N                          new case (fresh state)
    B <hex|->                  new buffer with these bytes
    X <b>                      detach buffer b (Go side: ArrayBuffer.Detach)
    V <kind> <b> <ia> <ia>     new <Kind>Array(buf, byteOffset, length)
    D <b> <ia> <ia>            new DataView(buf, byteOffset, byteLength)
    g <v> <int>                v[idx]
    p <v> <int> <va>           v[idx] = value
    f <v> <va> <ia> <ia>       v.fill(value, start, end)
    c <v> <ia> <ia> <ia>       v.copyWithin(to, from, end)
    s <v> <src> <ia>           v.set(srcTypedArray, offset)
    a <v> <ia> <va>*           v.set([values…], offset)
    l <v> <ia> <ia> <sp>       v.slice(start, end)
    u <v> <ia> <ia> <sp>       v.subarray(begin, end)
    o <v> <cmp>                v.sort(cmp)
    r <v>                      v.reverse()
    G <d> <kind> <ia> <le>     dataView.get<Kind>(idx, le)
    S <d> <kind> <ia> <va> <le>
    m <name> <v> <dets|_> …    any other prototype method (implementation side only)

    V/D take an optional last token ^b,b… = buffers detached by newTarget's `prototype` getter
    R <v>                      v.toReversed()
    T <v> <cmp>                v.toSorted(cmp)
    w <v> <ia> <va>            v.with(index, value)
    t <v> <bits|-> <k!b,…|_> [<sp>]   v.filter(cb): cb(k) truthy iff bit k is 1; call k detaches; optional species
    M <v> <sp> <va>*           v.map(cb): call k returns value k (`x…@b` detaches in the callback body, `x…!b` in valueOf)
    O <of|from|fromMap> <kind|viewid[!b,…]> <va>*   %TypedArray%.of/from applied to a built-in or user constructor
    A <b> <ia> <ia> [<bufid>[!b,…]]   buffer.slice(start, end); optional species constructor returning an existing buffer

    Q <indexOf|lastIndexOf|includes> <v> <va> <ia>   search (explicit fromIndex or `_`)
    k <v> <ia>                 v.at(index)
    e <method> <v> <k!b,…|_>   every/some/find/findIndex/findLast/findLastIndex/forEach/reduce/reduceRight/values/entries:
                               the values handed to the callback / yielded; call k detaches
    J <join|toString|toLocaleString> <v> <b,…|_>   values parsed back from the string (the separator's toString detaches)

  <ia>  = `_` | <int>[!b,b…] | inf | -inf      <va> = x<hex16>[!b,…] | b<dec>[!b,…]
  <sp>  = `_` | <viewid>[!b,…]                  <cmp> = `_` | r[!b,…]
-/
import GojaModel.Base.Proto
import GojaModel.C17.Model
import GojaModel.C17.Hex

namespace GojaModel.C17.Driver
open GojaModel.Proto GojaModel.C17

def parseInt? (s : String) : Option Int :=
  if s == "inf" then some (2 ^ 63 - 1)
  else if s == "-inf" then some (-(2 ^ 63))
  else if s == "nan" then some 0
  else s.toInt?

def parseDets (s : String) : List Nat :=
  (s.splitOn ",").filterMap (·.toNat?)

/-- split `tok` at the first `!` into (head, dets) -/
def splitBang (tok : String) : String × List Nat :=
  -- `@` = the detach happens in the callback body instead of in valueOf: same moment for the model
  match (tok.replace "@" "!").splitOn "!" with
  | [h] => (h, [])
  | h :: d :: _ => (h, parseDets d)
  | [] => ("", [])

def parseIArg (tok : String) : Option (Option IArg) :=
  if tok == "_" then some none else
  let (h, det) := splitBang tok
  match parseInt? h with
  | some v => some (some ⟨v, det⟩)
  | none => none

def parseVArg (tok : String) : Option VArg :=
  let (h, det) := splitBang tok
  match h.toList with
  | 'x' :: rest => (parseHex? (String.ofList rest)).map (fun b => ⟨.dbl b, det⟩)
  | 'b' :: rest => ((String.ofList rest).toInt?).map (fun i => ⟨.big i, det⟩)
  | _ => none

def parseSpecies (tok : String) : Option Species :=
  if tok == "_" then some none else
  let (h, det) := splitBang tok
  h.toNat?.map (fun v => some (v, det))

def parseCmp (tok : String) : Option Cmp :=
  if tok == "_" then some none else
  let (h, det) := splitBang tok
  if h == "r" then some (some det) else none

def parseKind (s : String) : Option Kind :=
  match s with
  | "u8" => some .u8 | "u8c" => some .u8c | "i8" => some .i8
  | "u16" => some .u16 | "i16" => some .i16
  | "u32" => some .u32 | "i32" => some .i32
  | "f32" => some .f32 | "f64" => some .f64
  | "bi64" => some .bi64 | "bu64" => some .bu64
  | _ => none

def parseBytes (s : String) : Option (List UInt8) :=
  if s == "-" then some [] else
  let rec go : List Char → Option (List UInt8)
    | [] => some []
    | [_] => none
    | a :: b :: rest =>
      match hexDigit? a, hexDigit? b, go rest with
      | some x, some y, some r => some (UInt8.ofNat (x * 16 + y) :: r)
      | _, _, _ => none
  go s.toList

def parseBool (s : String) : Bool := s == "1"

/-- when does the adversary of an `m <name>` op run: (receiver must be attached on entry, minimal length) -/
def otherCond (name : String) : Bool × Nat :=
  if name == "toSorted" then (true, 2)
  else if name == "at" || name == "join" || name == "with" || name == "iterate" then (true, 0)
  else if name == "toReversed" || name == "keys" || name == "values" || name == "entries" then (false, 0)
  else if name == "toString" || name == "toLocaleString" || name == "export" then (true, 1000000)  -- never
  else (true, 1)

def parseOp (ws : List String) : Option Op :=
  match ws with
  | ["B", h] => (parseBytes h).map Op.newBuf
  | ["X", b] => b.toNat?.map Op.detach
  | ["V", k, b, o, l] => do
      let k ← parseKind k; let b ← b.toNat?; let o ← parseIArg o; let l ← parseIArg l
      pure (.newView k b o l [])
  | ["V", k, b, o, l, pd] => do
      let k ← parseKind k; let b ← b.toNat?; let o ← parseIArg o; let l ← parseIArg l
      pure (.newView k b o l (parseDets (pd.replace "^" "")))
  | ["D", b, o, l] => do
      let b ← b.toNat?; let o ← parseIArg o; let l ← parseIArg l
      pure (.newDV b o l [])
  | ["D", b, o, l, pd] => do
      let b ← b.toNat?; let o ← parseIArg o; let l ← parseIArg l
      pure (.newDV b o l (parseDets (pd.replace "^" "")))
  | ["R", v] => do pure (.toReversed (← v.toNat?))
  | ["T", v, c] => do pure (.toSorted (← v.toNat?) (← parseCmp c))
  | ["w", v, i, a] => do
      match ← parseIArg i with
      | some i => pure (.with_ (← v.toNat?) i (← parseVArg a))
      | none => none
  | ["t", v, bits, d] => do
      let keep := if bits == "-" then [] else bits.toList.map (· == '1')
      if d == "_" then pure (.filter (← v.toNat?) keep 0 [] none)
      else
        let (h, det) := splitBang d
        pure (.filter (← v.toNat?) keep (← h.toNat?) det none)
  | ["t", v, bits, d, sp] => do
      let keep := if bits == "-" then [] else bits.toList.map (· == '1')
      let sp ← parseSpecies sp
      if d == "_" then pure (.filter (← v.toNat?) keep 0 [] sp)
      else
        let (h, det) := splitBang d
        pure (.filter (← v.toNat?) keep (← h.toNat?) det sp)
  | "M" :: v :: sp :: vals => do
      let vs ← vals.mapM parseVArg
      pure (.map (← v.toNat?) (← parseSpecies sp) vs)
  | "O" :: _ :: c :: vals => do
      let vs ← vals.mapM parseVArg
      let ct ← match parseKind c with
        | some k => some (Ctor.builtin k)
        | none => let (h, det) := splitBang c; h.toNat?.map (fun vid => Ctor.user vid det)
      pure (.of_ ct vs)
  | ["Q", m, v, se, fr] => do
      let mode ← match m with
        | "indexOf" => some SearchMode.indexOf
        | "lastIndexOf" => some SearchMode.lastIndexOf
        | "includes" => some SearchMode.includes
        | _ => none
      pure (.search (← v.toNat?) mode (← parseVArg se).num (← parseIArg fr))
  | ["k", v, i] => do
      match ← parseIArg i with
      | some i => pure (.at_ (← v.toNat?) i)
      | none => none
  | ["e", m, v, d] => do
      if m == "values" || m == "entries" then
        if d == "_" then pure (.iterate (← v.toNat?) 1000000 [])
        else
          let (h, det) := splitBang d
          pure (.iterate (← v.toNat?) (← h.toNat?) det)
      else
      let bwd := m == "findLast" || m == "findLastIndex" || m == "reduceRight"
      if d == "_" then pure (.visit (← v.toNat?) bwd 1000000 [])
      else
        let (h, det) := splitBang d
        pure (.visit (← v.toNat?) bwd (← h.toNat?) det)
  | ["J", m, v, d] => do pure (.join (← v.toNat?) (if d == "_" then [] else parseDets d) (m == "toLocaleString"))
  | ["A", b, st, fi] => do pure (.abSlice (← b.toNat?) (← parseIArg st) (← parseIArg fi) none)
  | ["A", b, st, fi, sp] => do pure (.abSlice (← b.toNat?) (← parseIArg st) (← parseIArg fi) (← parseSpecies sp))
  | ["g", v, i] => do pure (.get (← v.toNat?) (← parseInt? i))
  | ["p", v, i, a] => do pure (.put (← v.toNat?) (← parseInt? i) (← parseVArg a))
  | ["f", v, a, st, fi] => do pure (.fill (← v.toNat?) (← parseVArg a) (← parseIArg st) (← parseIArg fi))
  | ["c", v, t, f, e] => do
      let t ← parseIArg t; let f ← parseIArg f
      match t, f with
      | some t, some f => pure (.copyWithin (← v.toNat?) t f (← parseIArg e))
      | _, _ => none
  | ["s", v, src, o] => do pure (.setTA (← v.toNat?) (← src.toNat?) (← parseIArg o))
  | "a" :: v :: o :: vals => do
      let vs ← vals.mapM parseVArg
      pure (.setArr (← v.toNat?) (← parseIArg o) vs)
  | ["l", v, st, fi, sp] => do pure (.slice (← v.toNat?) (← parseIArg st) (← parseIArg fi) (← parseSpecies sp))
  | ["u", v, st, fi, sp] => do pure (.subarray (← v.toNat?) (← parseIArg st) (← parseIArg fi) (← parseSpecies sp))
  | ["o", v, c] => do pure (.sort (← v.toNat?) (← parseCmp c))
  | ["r", v] => do pure (.reverse (← v.toNat?))
  | ["G", d, k, i, le] => do
      match ← parseIArg i with
      | some i => pure (.dvGet (← d.toNat?) (← parseKind k) i (parseBool le))
      | none => none
  | ["S", d, k, i, a, le] => do
      match ← parseIArg i with
      | some i => pure (.dvSet (← d.toNat?) (← parseKind k) i (← parseVArg a) (parseBool le))
      | none => none
  | "m" :: name :: v :: d :: _ => do
      let (na, ml) := otherCond name
      pure (.other (← v.toNat?) na ml (if d == "_" then [] else parseDets d))
  | _ => none

def showNum : Num → String
  | .int i => "x" ++ toHexW 16 (intToF64 i)
  | .dbl b => if f64IsNaN b then "nan" else "x" ++ toHexW 16 b
  | .big i => "b" ++ toString i
  | .undef => "undef"

def showItem : Option Num → String
  | none => "undef"
  | some n => showNum n

/-- −0 is printed as "0" by Number::toString: join cannot tell them apart -/
def normZero : Option Num → Option Num
  | some (.dbl b) => if b == 2 ^ 63 then some (.dbl 0) else some (.dbl b)
  | x => x

def showVals (xs : List (Option Num)) : String :=
  if xs.all (·.isNone) then "vals-empty" else "vals " ++ ",".intercalate (xs.map showItem)

def showRes : Res → String
  | .ok => "ok"
  | .bad => "BAD-OP"
  | .err .type => "E:Type"
  | .err .range => "E:Range"
  | .undef => "undef"
  | .val n => "v:" ++ showNum n
  | .view o l => "view " ++ toString o ++ " " ++ toString l
  | .bool b => if b then "true" else "false"
  | .vals xs => showVals xs

def showBuf : Option (List UInt8) → String
  | none => "D"
  | some [] => "-"
  | some d => String.join (d.map (fun b => toHexW 2 b.toNat))

def showState (s : State) : String :=
  " ".intercalate (s.bufs.map showBuf)

/-- runtime self-check of `access_in_bounds` on the executed op (the theorem says this never fires). -/
def touchesOk (s : State) : Bool := s.log.all (·.ok)

def showHexRes : HexRes → String
  | .bad => "BAD-OP"
  | .errType => "E:Type"
  | .errSyntax => "E:Syntax"
  | .str cs => "hex:" ++ (if cs.isEmpty then "-" else String.ofList cs)
  | .rw r w => "rw " ++ toString r ++ " " ++ toString w
  | .view n => "view 0 " ++ toString n

/-- the Uint8Array hex methods (Hex.lean): `h <v>` toHex, `H <v> <chars|->` setFromHex, `x <chars|->` fromHex -/
def hexLine (s : State) (ws : List String) : Option (HexRes × State) :=
  let chars (t : String) : List Char := if t == "-" then [] else t.toList
  match ws with
  | ["h", v] => v.toNat?.map (fun vi => opToHex { s with log := [] } vi)
  | ["H", v, t] => v.toNat?.map (fun vi => opSetFromHex { s with log := [] } vi (chars t))
  | ["x", t] => some (opFromHex { s with log := [] } (chars t))
  | _ => none

def stepLine (s : State) (line : String) : State × String :=
  let ws := words line
  if ws == ["N"] then ({}, "ok |") else
  match hexLine s ws with
  | some r =>
    let flag := if touchesOk r.2 then "" else " MODEL-TOUCH-OUT-OF-BOUNDS"
    ({ r.2 with log := [] }, showHexRes r.1 ++ " | " ++ showState r.2 ++ flag)
  | none =>
  match parseOp ws with
  | none => (s, "PARSE-ERROR")
  | some op =>
    let r0 := step { s with log := [] } op
    let r : Res × State := match op, r0.1 with
      | .join .., .vals xs => (.vals (xs.map normZero), r0.2)
      | _, _ => r0
    let flag := if touchesOk r.2 then "" else " MODEL-TOUCH-OUT-OF-BOUNDS"
    ({ r.2 with log := [] }, showRes r.1 ++ " | " ++ showState r.2 ++ flag)

def main : IO Unit := lineLoop stepLine {}

end GojaModel.C17.Driver
