/-
  C17 — sort: (1) the model's stable insertion sort returns a sorted permutation for any asymmetric, transitive
  order, and the default typed-array order (`numLess`: numbers ascending, −0 before +0, NaN last) is such an order;
  (2) the comparator protocol of `typedArraySortCtx` (builtin_typedarrays.go:16-74) as a small machine: for ANY
  sequence of Less / Swap calls a sorting algorithm may make, and any adversary detaching buffers inside the
  comparator, no element is touched after the detach and every touch stays inside the view.
-/
import GojaModel.C17.Overlap

namespace GojaModel.C17

/-- the touch lies in the byte range of view `v` (same predicate as `InView` in Props.lean) -/
def InViewS (v : View) (t : Touch) : Prop := t.buf = v.buf ∧ v.lo ≤ t.idx ∧ t.idx < v.hi

/-! ## sorted permutation -/

theorem insertBy_perm {α} (lt : α → α → Bool) (x : α) (l : List α) : (insertBy lt x l).Perm (x :: l) := by
  induction l with
  | nil => exact List.Perm.refl _
  | cons y ys ih =>
    simp only [insertBy]
    split
    · exact List.Perm.refl _
    · exact List.Perm.trans (List.Perm.cons y ih) (List.Perm.swap x y ys)

theorem stableSort_perm {α} (lt : α → α → Bool) (l : List α) : (stableSort lt l).Perm l := by
  unfold stableSort
  suffices ∀ acc : List α, (l.foldl (fun acc x => insertBy lt x acc) acc).Perm (l.reverse ++ acc) by
    have h := this []
    rw [List.append_nil] at h
    exact h.trans (List.reverse_perm l)
  induction l with
  | nil => intro acc; exact List.Perm.refl _
  | cons x xs ih =>
    intro acc
    simp only [List.foldl_cons, List.reverse_cons, List.append_assoc, List.singleton_append]
    exact (ih (insertBy lt x acc)).trans (List.Perm.append_left _ (insertBy_perm lt x acc))

/-- no later element is smaller than an earlier one -/
def Sorted {α} (lt : α → α → Bool) (l : List α) : Prop := List.Pairwise (fun a b => lt b a = false) l

theorem insertBy_sorted {α} (lt : α → α → Bool)
    (hasym : ∀ a b, lt a b = true → lt b a = false) (htrans : ∀ a b c, lt a b = true → lt b c = true → lt a c = true)
    (x : α) (l : List α) (h : Sorted lt l) : Sorted lt (insertBy lt x l) := by
  induction l with
  | nil => exact List.pairwise_singleton _ _
  | cons y ys ih =>
    unfold Sorted at h ⊢
    rw [List.pairwise_cons] at h
    simp only [insertBy]
    split
    · rename_i hxy
      rw [List.pairwise_cons]
      refine ⟨?_, List.pairwise_cons.mpr h⟩
      intro z hz
      rcases List.mem_cons.mp hz with rfl | hz
      · exact hasym _ _ hxy
      · have hzy := h.1 z hz
        cases hzx : lt z x with
        | false => rfl
        | true => rw [htrans z x y hzx hxy] at hzy; exact absurd hzy (by simp)
    · rename_i hxy
      rw [List.pairwise_cons]
      refine ⟨?_, ih h.2⟩
      intro z hz
      have := (insertBy_perm lt x ys).mem_iff.mp hz
      rcases List.mem_cons.mp this with rfl | hz'
      · simpa using hxy
      · exact h.1 z hz'

theorem stableSort_sorted {α} (lt : α → α → Bool)
    (hasym : ∀ a b, lt a b = true → lt b a = false) (htrans : ∀ a b c, lt a b = true → lt b c = true → lt a c = true)
    (l : List α) : Sorted lt (stableSort lt l) := by
  unfold stableSort
  suffices ∀ acc : List α, Sorted lt acc → Sorted lt (l.foldl (fun acc x => insertBy lt x acc) acc) from
    this [] List.Pairwise.nil
  induction l with
  | nil => intro acc h; exact h
  | cons x xs ih => intro acc h; exact ih _ (insertBy_sorted lt hasym htrans x acc h)

/-! ## the default order is asymmetric and transitive -/

/-- `numLess` on doubles in terms of (is NaN, sign bit, magnitude bits) -/
def dLess (an as : Bool) (am : Nat) (bn bs : Bool) (bm : Nat) : Bool :=
  if bn then !an else if an then false else
  match as, bs with
  | true, false => true
  | false, true => false
  | false, false => decide (am < bm)
  | true, true => decide (bm < am)

theorem numLess_dbl (a b : Nat) :
    numLess (.dbl a) (.dbl b) = dLess (f64IsNaN a) (f64Sign a) (a % 2 ^ 63) (f64IsNaN b) (f64Sign b) (b % 2 ^ 63) := by
  unfold numLess dLess
  dsimp only
  generalize f64IsNaN a = an
  generalize f64IsNaN b = bn
  generalize f64Sign a = sa
  generalize f64Sign b = sb
  cases an <;> cases bn <;> cases sa <;> cases sb <;> simp

theorem dLess_asymm (an as : Bool) (am : Nat) (bn bs : Bool) (bm : Nat) :
    dLess an as am bn bs bm = true → dLess bn bs bm an as am = false := by
  unfold dLess
  cases an <;> cases bn <;> cases as <;> cases bs <;> simp <;> omega

theorem dLess_trans (an as : Bool) (am : Nat) (bn bs : Bool) (bm : Nat) (cn cs : Bool) (cm : Nat) :
    dLess an as am bn bs bm = true → dLess bn bs bm cn cs cm = true → dLess an as am cn cs cm = true := by
  unfold dLess
  cases an <;> cases bn <;> cases cn <;> cases as <;> cases bs <;> cases cs <;> simp <;> omega

theorem numLess_asymm (x y : Num) : numLess x y = true → numLess y x = false := by
  cases x <;> cases y <;>
    first
    | (rw [numLess_dbl, numLess_dbl]; exact dLess_asymm _ _ _ _ _ _)
    | (simp [numLess]; done)
    | (simp [numLess]; omega)

theorem numLess_trans (x y z : Num) : numLess x y = true → numLess y z = true → numLess x z = true := by
  cases x <;> cases y <;> cases z <;>
    first
    | (rw [numLess_dbl, numLess_dbl, numLess_dbl]; exact dLess_trans _ _ _ _ _ _ _ _ _)
    | (simp [numLess]; done)
    | (simp [numLess]; omega)

/-- ECMA-262 TypedArray SortCompare special cases, on the model's order: −0 sorts before +0, NaN sorts last -/
theorem numLess_negZero_posZero : numLess (.dbl (2 ^ 63)) (.dbl 0) = true := by decide

theorem numLess_nan_last (b : Nat) (hb : f64IsNaN b = false) : numLess (.dbl b) (.dbl nanBits) = true ∧ numLess (.dbl nanBits) (.dbl b) = false := by
  have hn : f64IsNaN nanBits = true := by decide
  rw [numLess_dbl, numLess_dbl, hn, hb]
  constructor <;> simp [dLess]

/-- the element order used by `opSort` (default comparator) -/
def elemLess (k : Kind) (a b : List UInt8) : Bool := numLess (decode k a) (decode k b)

/-- **sort result (list level)**: what `opSort` writes back is a permutation of what it read, in non-decreasing
default order. -/
theorem sort_sorted_perm (k : Kind) (elems : List (List UInt8)) :
    (stableSort (elemLess k) elems).Perm elems ∧ Sorted (elemLess k) (stableSort (elemLess k) elems) :=
  ⟨stableSort_perm _ _,
   stableSort_sorted (elemLess k) (fun a b => numLess_asymm (decode k a) (decode k b))
     (fun a b c => numLess_trans (decode k a) (decode k b) (decode k c)) elems⟩

/-! ## the bytes of the view after `sort` -/

theorem getD_beyond (l : List UInt8) (j : Nat) (h : l.length ≤ j) : l.getD j 0 = 0 := by
  rw [List.getD_eq_getElem?_getD, List.getElem?_eq_none h]; rfl

theorem window_splice_same (d : List UInt8) (lo : Nat) (xs : List UInt8) (h : lo + xs.length ≤ d.length) :
    window (splice d lo xs) lo xs.length = xs := by
  apply ext_getD (0 : UInt8)
  · rw [window_length]
  · intro j
    by_cases hj : j < xs.length
    · rw [window_getD _ _ _ _ hj, splice_getD, if_pos ⟨by omega, by omega, by omega⟩]
      congr 1; omega
    · rw [getD_beyond _ _ (by rw [window_length]; omega), getD_beyond _ _ (by omega)]

theorem window_splice_outside (d : List UInt8) (lo : Nat) (xs : List UInt8) (lo' n : Nat)
    (h : lo' + n ≤ lo ∨ lo + xs.length ≤ lo') : window (splice d lo xs) lo' n = window d lo' n := by
  apply window_congr
  intro p h1 h2
  rw [splice_getD]
  have : ¬ (lo ≤ p ∧ p < lo + xs.length ∧ p < d.length) := by omega
  rw [if_neg this]

theorem fit_eq_self (n : Nat) (x : List UInt8) (h : x.length = n) : fit n x = x := by
  apply ext_getD (0 : UInt8)
  · rw [fit_length, h]
  · intro j
    unfold fit
    by_cases hj : j < n
    · rw [List.getD_eq_getElem?_getD, List.getElem?_map, List.getElem?_range hj]; rfl
    · rw [getD_beyond _ _ (by simp; omega), getD_beyond _ _ (by omega)]

/-- what the view's buffer looks like after `writeElems`: every written element reads back, everything outside the
written elements is unchanged -/
theorem writeElems_elems (v : View) : ∀ (ys : List (List UInt8)) (s : State) (k : Nat) (cur : List UInt8),
    s.data? v.buf = some cur → (v.offset + k + ys.length) * v.kind.size ≤ cur.length →
    ∃ d', (writeElems s v k ys).data? v.buf = some d' ∧ d'.length = cur.length ∧
      (∀ i, i < ys.length → window d' ((v.offset + k + i) * v.kind.size) v.kind.size = fit v.kind.size (ys.getD i [])) ∧
      (∀ lo n, (lo + n ≤ (v.offset + k) * v.kind.size ∨ (v.offset + k + ys.length) * v.kind.size ≤ lo) →
        window d' lo n = window cur lo n) := by
  intro ys
  induction ys with
  | nil =>
    intro s k cur h _
    exact ⟨cur, h, rfl, fun i hi => by simp at hi, fun _ _ _ => rfl⟩
  | cons y ys ih =>
    intro s k cur h hb
    simp only [List.length_cons] at hb
    have e1 : (v.offset + (k + 1)) * v.kind.size = (v.offset + k) * v.kind.size + v.kind.size := by
      rw [← Nat.add_assoc, Nat.add_mul, Nat.one_mul]
    have e2 : (v.offset + k + (ys.length + 1)) * v.kind.size = (v.offset + (k + 1) + ys.length) * v.kind.size := by
      congr 1; omega
    have e3 : (v.offset + (k + 1) + ys.length) * v.kind.size = (v.offset + (k + 1)) * v.kind.size + ys.length * v.kind.size := by
      rw [Nat.add_mul]
    have h1 : (s.writeElem v k y).data? v.buf = some (splice cur ((v.offset + k) * v.kind.size) (fit v.kind.size y)) := by
      unfold State.writeElem; rw [data?_writeRange, if_pos rfl, h]; rfl
    obtain ⟨d', hd', hl, hel, hout⟩ := ih (s.writeElem v k y) (k + 1) _ h1 (by rw [splice_length]; rw [e2] at hb; exact hb)
    refine ⟨d', hd', by rw [hl, splice_length], ?_, ?_⟩
    · intro i hi
      cases i with
      | zero =>
        rw [Nat.add_zero, List.getD_cons_zero]
        rw [hout ((v.offset + k) * v.kind.size) v.kind.size (Or.inl (by rw [e1]; exact Nat.le_refl _))]
        have := window_splice_same cur ((v.offset + k) * v.kind.size) (fit v.kind.size y) (by rw [fit_length]; rw [e2, e3, e1] at hb; omega)
        rw [fit_length] at this
        exact this
      | succ i =>
        rw [List.getD_cons_succ]
        have := hel i (by simp at hi; omega)
        have e : v.offset + (k + 1) + i = v.offset + k + (i + 1) := by omega
        rw [e] at this
        exact this
    · intro lo n hlo
      have hlo' : lo + n ≤ (v.offset + (k + 1)) * v.kind.size ∨ (v.offset + (k + 1) + ys.length) * v.kind.size ≤ lo := by
        rw [e1, ← e2]
        rcases hlo with h' | h'
        · left; omega
        · right; simp only [List.length_cons] at h'; exact h'
      rw [hout lo n hlo']
      apply window_splice_outside
      rw [fit_length]
      rcases hlo with h' | h'
      · left; exact h'
      · right; simp only [List.length_cons] at h'; rw [e2, e3, e1] at h'; omega

/-- the raw elements of a view in a byte array -/
def elemsOf (d : List UInt8) (v : View) : List (List UInt8) :=
  (List.range' 0 v.length).map (fun i => window d ((v.offset + i) * v.kind.size) v.kind.size)

theorem map_getD_range' (l : List (List UInt8)) : (List.range' 0 l.length).map (fun i => l.getD i []) = l := by
  apply List.ext_getElem
  · simp
  · intro i h1 h2
    simp [List.getD_eq_getElem?_getD, List.getElem?_eq_getElem h2]

/-- **sort (default comparator): the view afterwards holds a sorted permutation of its elements** — for every view, kind
and content: the raw elements of the view after `opSort` are `stableSort` of the raw elements before (hence, by
`sort_sorted_perm`, a permutation in non-decreasing numeric order with −0 before +0 and NaN last), the buffer keeps its
length and every byte range outside the view is unchanged. -/
theorem sort_bytes_sorted_perm (s : State) (vi : Nat) (v : View) (hi : Inv s) (hv : s.views[vi]? = some v)
    (hok : (opSort s vi none).1 = .ok) :
    ∃ d d', s.data? v.buf = some d ∧ (opSort s vi none).2.data? v.buf = some d' ∧ d'.length = d.length ∧
      elemsOf d' v = stableSort (elemLess v.kind) (elemsOf d v) ∧
      (elemsOf d' v).Perm (elemsOf d v) ∧ Sorted (elemLess v.kind) (elemsOf d' v) ∧
      (∀ lo n, (lo + n ≤ v.lo ∨ v.hi ≤ lo) → window d' lo n = window d lo n) := by
  unfold opSort at hok ⊢; rw [hv] at hok ⊢; dsimp only at hok ⊢
  by_cases ha : (!s.attached v.buf) = true
  · rw [if_pos ha] at hok; simp at hok
  · rw [if_neg ha]
    have hatt : s.attached v.buf = true := by simpa using ha
    obtain ⟨d, hd⟩ : ∃ d, s.data? v.buf = some d := by
      unfold State.attached at hatt
      cases h : s.data? v.buf with
      | none => simp [h] at hatt
      | some d => exact ⟨d, rfl⟩
    obtain ⟨rv, rd⟩ := readElems_eq v d v.length s 0 hd
    have hbound : v.hi ≤ d.length := by
      have := (hi.views v (List.mem_of_getElem? hv)).2 hatt
      unfold State.blen at this; rw [hd] at this; exact this
    have hre : (readElems s v 0 v.length).1 = elemsOf d v := rv
    have hlen : (stableSort (elemLess v.kind) (elemsOf d v)).length = v.length := by
      rw [stableSort_length]; simp [elemsOf]
    obtain ⟨d', hd', hl, hel, hout⟩ := writeElems_elems v (stableSort (elemLess v.kind) (elemsOf d v))
      (readElems s v 0 v.length).2 0 d (by rw [rd]; exact hd) (by rw [hlen, Nat.add_zero]; exact hbound)
    have hsp := sort_sorted_perm v.kind (elemsOf d v)
    have hmem0 : ∀ x ∈ elemsOf d v, x.length = v.kind.size := by
      intro x hx
      unfold elemsOf at hx
      rw [List.mem_map] at hx
      obtain ⟨_, _, rfl⟩ := hx
      exact window_length _ _ _
    have hkey : elemsOf d' v = stableSort (elemLess v.kind) (elemsOf d v) := by
      generalize stableSort (elemLess v.kind) (elemsOf d v) = S at *
      have hmem : ∀ x ∈ S, x.length = v.kind.size := fun x hx => hmem0 x (hsp.1.mem_iff.mp hx)
      have hmap : (List.range' 0 v.length).map (fun i => window d' ((v.offset + i) * v.kind.size) v.kind.size) =
          (List.range' 0 v.length).map (fun i => S.getD i []) := by
        apply List.map_congr_left
        intro i hi'
        rw [List.mem_range'] at hi'
        obtain ⟨j, hj, rfl⟩ := hi'
        have := hel (0 + 1 * j) (by rw [hlen]; omega)
        rw [Nat.add_zero] at this
        rw [this]
        apply fit_eq_self
        apply hmem
        rw [List.getD_eq_getElem?_getD, List.getElem?_eq_getElem (by rw [hlen]; omega)]
        exact List.getElem_mem _
      have := map_getD_range' S
      rw [hlen] at this
      show (List.range' 0 v.length).map (fun i => window d' ((v.offset + i) * v.kind.size) v.kind.size) = S
      rw [hmap]; exact this
    refine ⟨d, d', hd, ?_, hl, hkey, ?_, ?_, ?_⟩
    · show (writeElems (readElems s v 0 v.length).2 v 0 (stableSort _ (readElems s v 0 v.length).1)).data? v.buf = some d'
      rw [hre]; exact hd'
    · rw [hkey]; exact hsp.1
    · rw [hkey]; exact hsp.2
    · intro lo n hlo
      apply hout
      rw [hlen, Nat.add_zero]
      exact hlo

/-! ## comparator protocol -/

def SortCall.inRange (n : Nat) : SortCall → Prop
  | .less i j _ => i < n ∧ j < n
  | .swap i j => i < n ∧ j < n

/-- the cached flag can be trusted whenever no validation is pending -/
def CtxOk (s : State) (v : View) (c : SortCtx) : Prop :=
  c.detached = false → c.needValidate = false → s.attached v.buf = true

theorem checkDetached_ok (s : State) (v : View) (c : SortCtx) (h : CtxOk s v c) :
    (checkDetached s v c).detached = false → s.attached v.buf = true := by
  unfold checkDetached
  split
  · rename_i hc
    intro hd
    simp at hd
    exact hd
  · rename_i hc
    intro hd
    apply h hd
    cases hn : c.needValidate with
    | false => rfl
    | true => simp [hd, hn] at hc

theorem checkDetached_needValidate (s : State) (v : View) (c : SortCtx) :
    (checkDetached s v c).detached = false → (checkDetached s v c).needValidate = false := by
  unfold checkDetached
  split
  · intro _; rfl
  · rename_i hc
    intro hd
    cases hn : c.needValidate with
    | false => rfl
    | true => simp [hd, hn] at hc

theorem sortCall_spec {P : Touch → Prop} {s : State} {v : View} {c : SortCtx} (x : SortCall)
    (hc : Ctx P s) (m : v ∈ s.views) (hok : CtxOk s v c) (hP : PRange P v.buf v.lo v.hi) (hx : x.inRange v.length) :
    Ctx P (sortCall s v c x).1 ∧ v ∈ (sortCall s v c x).1.views ∧ CtxOk (sortCall s v c x).1 v (sortCall s v c x).2 := by
  cases x with
  | less i j det =>
    unfold sortCall; dsimp only
    split
    · rename_i hd
      refine ⟨hc, m, ?_⟩
      intro h1; rw [h1] at hd; simp at hd
    · rename_i hd
      have hd' : (checkDetached s v c).detached = false := by simpa using hd
      have ha := checkDetached_ok s v c hok hd'
      obtain ⟨a1, b1⟩ := readElem_spec hc.log (hc.inv.rangeOK m ha) hP hx.1
      have hr2 := (hc.inv.rangeOK m ha).of_sameShape b1
      obtain ⟨a2, b2⟩ := readElem_spec a1 hr2 hP hx.2
      have c2 : Ctx P ((s.readElem v i).2.readElem v j).2 := ⟨hc.inv.of_sameShape (b1.trans b2), a2⟩
      refine ⟨c2.applyDet det, ?_, ?_⟩
      · rw [applyDet_views, (b1.trans b2).views]; exact m
      · intro _ h2; simp at h2
  | swap i j =>
    unfold sortCall; dsimp only
    split
    · rename_i hd
      refine ⟨hc, m, ?_⟩
      intro h1; rw [h1] at hd; simp at hd
    · rename_i hd
      have hd' : (checkDetached s v c).detached = false := by simpa using hd
      have ha := checkDetached_ok s v c hok hd'
      have hr := hc.inv.rangeOK m ha
      obtain ⟨a1, b1⟩ := readElem_spec hc.log hr hP hx.1
      obtain ⟨a2, b2⟩ := readElem_spec a1 (hr.of_sameShape b1) hP hx.2
      obtain ⟨a3, b3⟩ := writeElem_spec ((s.readElem v i).2.readElem v j).1 a2 (hr.of_sameShape (b1.trans b2)) hP hx.1
      obtain ⟨a4, b4⟩ := writeElem_spec (s.readElem v i).1 a3 (hr.of_sameShape ((b1.trans b2).trans b3)) hP hx.2
      have sh := ((b1.trans b2).trans b3).trans b4
      refine ⟨⟨hc.inv.of_sameShape sh, a4⟩, by rw [sh.views]; exact m, ?_⟩
      intro _ _
      rw [sh.attached]; exact ha

/-- **comparator protocol under detach**: for ANY sequence of `Less` / `Swap` calls with indices below the length (whatever
sorting algorithm, whatever the comparator answers) and any adversary detaching buffers inside the comparator, every
element touch is in bounds, happens while the buffer is attached, and lies inside the view. -/
theorem sortCalls_spec {P : Touch → Prop} {v : View} (hP : PRange P v.buf v.lo v.hi) :
    ∀ (xs : List SortCall) (s : State) (c : SortCtx), Ctx P s → v ∈ s.views → CtxOk s v c →
      (∀ x ∈ xs, x.inRange v.length) → Ctx P (sortCalls s v c xs).1 := by
  intro xs
  induction xs with
  | nil => intro s c hc _ _ _; exact hc
  | cons x xs ih =>
    intro s c hc m hok hx
    obtain ⟨a, b, d⟩ := sortCall_spec x hc m hok hP (hx x (List.mem_cons_self ..))
    exact ih _ _ a b d (fun y hy => hx y (List.mem_cons_of_mem _ hy))

theorem sort_protocol_safe (s : State) (vi : Nat) (v : View) (calls : List SortCall) (hi : Inv s)
    (hv : s.views[vi]? = some v) (hatt : s.attached v.buf = true) (hx : ∀ x ∈ calls, x.inRange v.length) :
    ∀ t ∈ (sortCalls { s with log := [] } v {} calls).1.log, t.ok = true ∧ InViewS v t := by
  have := sortCalls_spec (P := fun t => t.ok = true ∧ InViewS v t) (v := v) (fun _ _ h1 h2 => ⟨rfl, rfl, h1, h2⟩)
    calls { s with log := [] } {} ⟨hi.withLog [], fun _ h => by simp at h⟩ (List.mem_of_getElem? hv)
    (fun _ _ => hatt) hx
  exact this.log

/-- seeded mutation C17-m2 (`Swap` without re-check) touches a detached buffer: after a `Less` whose comparator
detached buffer 0, a `Swap` that trusts the stale flag logs touches with `ok = false`. -/
theorem sort_m2_witness :
    let s0 : State := { bufs := [some [3, 2, 1, 0]], views := [⟨0, 0, 4, .u8⟩] }
    let v : View := ⟨0, 0, 4, .u8⟩
    let r := sortCall s0 v {} (.less 1 0 [0])
    ¬ (∀ t ∈ (swapNoRecheck r.1 v r.2 1 0).log, t.ok = true) := by decide

end GojaModel.C17
