/-
  C17 — theorems about the Uint8Array hex methods (model in Hex.lean): every byte touched lies inside the view and
  inside the attached buffer; byte results; hex codec round trip.
-/
import GojaModel.C17.Hex
import GojaModel.C17.Bytes

namespace GojaModel.C17

theorem hexReceiver_ok {s : State} {vi : Nat} {v : View} (h : hexReceiver s vi = .ok v) :
    s.views[vi]? = some v ∧ v.kind = .u8 ∧ s.attached v.buf = true := by
  unfold hexReceiver at h
  cases hv : s.views[vi]? with
  | none => rw [hv] at h; simp at h
  | some w =>
    rw [hv] at h; dsimp only at h
    by_cases hk : (w.kind != .u8) = true
    · rw [if_pos hk] at h; simp at h
    · rw [if_neg hk] at h
      by_cases ha : (!s.attached w.buf) = true
      · rw [if_pos ha] at h; simp at h
      · rw [if_neg ha] at h
        have : w = v := by simpa using h
        subst this
        exact ⟨rfl, by simpa using hk, by simpa using ha⟩

theorem u8_lo_hi {v : View} (hk : v.kind = .u8) : v.lo = v.offset ∧ v.hi = v.offset + v.length := by
  simp [View.lo, View.hi, hk, Kind.size]

/-- **toHex** keeps the invariant and reads only the view's bytes -/
theorem opToHex_spec {P : Touch → Prop} {s : State} (vi : Nat) (c : Ctx P s)
    (hP : ∀ v, s.views[vi]? = some v → PRange P v.buf v.lo v.hi) : Ctx P (opToHex s vi).2 := by
  unfold opToHex
  cases hr : hexReceiver s vi with
  | error e => exact c
  | ok v =>
    obtain ⟨hv, hk, ha⟩ := hexReceiver_ok hr
    obtain ⟨hlo, hhi⟩ := u8_lo_hi hk
    dsimp only
    obtain ⟨r1, r2, _⟩ := readRange_spec (hP v hv) v.length s v.offset c.log
      (c.inv.rangeOK (mem_of_getElem? hv) ha) (by rw [hlo]; exact Nat.le_refl _) (by rw [hhi]; exact Nat.le_refl _)
    exact ⟨c.inv.of_sameShape r2, r1⟩

theorem hexWrite_spec {P : Touch → Prop} {b lo len base : Nat} (hP : PRange P b base (lo + len)) (hbase : base ≤ lo) :
    ∀ (m : Nat) (cs : List Char) (s : State) (n : Nat), cs.length ≤ 2 * m → LogAll P s → RangeOK s b (lo + len) →
      2 * n + cs.length ≤ 2 * len →
      LogAll P (hexWrite s b lo cs n).2 ∧ SameShape s (hexWrite s b lo cs n).2 := by
  intro m
  induction m with
  | zero =>
    intro cs s n hm hlog _ _
    have : cs = [] := List.eq_nil_of_length_eq_zero (by omega)
    subst this
    exact ⟨hlog, SameShape.refl s⟩
  | succ m ih =>
    intro cs s n hm hlog hr hb
    match cs with
    | [] => exact ⟨hlog, SameShape.refl s⟩
    | [_] => exact ⟨hlog, SameShape.refl s⟩
    | c1 :: c2 :: rest =>
      simp only [List.length_cons] at hm hb
      unfold hexWrite
      split
      · rename_i hv lv _ _
        have hw := logAll_writeByte (i := lo + n) (x := UInt8.ofNat (hv * 16 + lv)) hlog hr hP (by omega) (by omega)
        have hs := sameShape_writeByte s b (lo + n) (UInt8.ofNat (hv * 16 + lv))
        obtain ⟨a, c⟩ := ih rest _ (n + 1) (by omega) hw (hr.of_sameShape hs) (by omega)
        exact ⟨a, hs.trans c⟩
      · exact ⟨hlog, SameShape.refl s⟩

theorem hexTruncate_length (cs : List Char) (maxLength : Nat) (heven : cs.length % 2 = 0) :
    (hexTruncate cs maxLength).length ≤ 2 * maxLength ∧ (hexTruncate cs maxLength).length % 2 = 0 := by
  unfold hexTruncate
  split
  · rw [List.length_take]; omega
  · omega

/-- **setFromHex** keeps the invariant and writes only bytes of the view -/
theorem opSetFromHex_spec {P : Touch → Prop} {s : State} (vi : Nat) (cs : List Char) (c : Ctx P s)
    (hP : ∀ v, s.views[vi]? = some v → PRange P v.buf v.lo v.hi) : Ctx P (opSetFromHex s vi cs).2 := by
  unfold opSetFromHex
  cases hr : hexReceiver s vi with
  | error e => exact c
  | ok v =>
    obtain ⟨hv, hk, ha⟩ := hexReceiver_ok hr
    obtain ⟨hlo, hhi⟩ := u8_lo_hi hk
    dsimp only
    split
    · exact c
    · rename_i hodd
      have heven : cs.length % 2 = 0 := by simpa using hodd
      obtain ⟨hl, _⟩ := hexTruncate_length cs v.length heven
      have hPv := hP v hv
      rw [hlo, hhi] at hPv
      have hrng := c.inv.rangeOK (mem_of_getElem? hv) ha
      rw [hhi] at hrng
      obtain ⟨a, b⟩ := hexWrite_spec hPv (Nat.le_refl _) v.length (hexTruncate cs v.length) s 0 hl c.log hrng (by omega)
      exact ⟨c.inv.of_sameShape b, a⟩

theorem hexDecodeAll_length : ∀ (m : Nat) (cs : List Char) (bs : List UInt8), cs.length ≤ 2 * m →
    hexDecodeAll cs = some bs → 2 * bs.length = cs.length := by
  intro m
  induction m with
  | zero =>
    intro cs bs hm h
    have : cs = [] := List.eq_nil_of_length_eq_zero (by omega)
    subst this
    simp [hexDecodeAll] at h; subst h; rfl
  | succ m ih =>
    intro cs bs hm h
    match cs with
    | [] => simp [hexDecodeAll] at h; subst h; rfl
    | [_] => simp [hexDecodeAll] at h
    | c1 :: c2 :: rest =>
      simp only [List.length_cons] at hm ⊢
      unfold hexDecodeAll at h
      split at h
      · rename_i _ _ bs' _ _ h3
        simp at h; subst h
        have := ih rest bs' (by omega) h3
        simp only [List.length_cons]; omega
      · simp at h

/-- **fromHex** keeps the invariant (the fresh Uint8Array lies inside its fresh buffer) and touches no existing memory -/
theorem opFromHex_spec {P : Touch → Prop} {s : State} (cs : List Char) (c : Ctx P s) : Ctx P (opFromHex s cs).2 := by
  unfold opFromHex
  split
  · exact c
  · rename_i bs _
    refine ⟨?_, c.log⟩
    refine inv_pushView (inv_pushBuf c.inv bs) _ (by simp) (fun _ => ?_)
    have := (rangeOK_newBuf s bs).2
    simpa [View.hi, Kind.size] using this

/-! ### property instances -/

/-- the touch lies in the byte range of view `v` -/
def InViewH (v : View) (t : Touch) : Prop := t.buf = v.buf ∧ v.lo ≤ t.idx ∧ t.idx < v.hi

/-- **access_in_bounds + within_view for toHex / setFromHex / fromHex**: from any state satisfying the invariant, every
touch is in bounds, happens while the buffer is attached, and lies inside the receiver view. -/
theorem hex_within_view (s : State) (vi : Nat) (cs : List Char) (hi : Inv s) :
    (∀ t ∈ (opToHex { s with log := [] } vi).2.log, t.ok = true ∧ ∃ v, s.views[vi]? = some v ∧ InViewH v t) ∧
    (∀ t ∈ (opSetFromHex { s with log := [] } vi cs).2.log, t.ok = true ∧ ∃ v, s.views[vi]? = some v ∧ InViewH v t) ∧
    (∀ t ∈ (opFromHex { s with log := [] } cs).2.log, False) := by
  have c0 : ∀ Q : Touch → Prop, Ctx Q { s with log := [] } := fun Q => ⟨hi.withLog [], fun _ h => by simp at h⟩
  refine ⟨?_, ?_, ?_⟩
  · exact (opToHex_spec (P := fun t => t.ok = true ∧ ∃ v, s.views[vi]? = some v ∧ InViewH v t) vi (c0 _)
      (fun v hv _ _ h1 h2 => ⟨rfl, v, hv, rfl, h1, h2⟩)).log
  · exact (opSetFromHex_spec (P := fun t => t.ok = true ∧ ∃ v, s.views[vi]? = some v ∧ InViewH v t) vi cs (c0 _)
      (fun v hv _ _ h1 h2 => ⟨rfl, v, hv, rfl, h1, h2⟩)).log
  · exact (opFromHex_spec (P := fun _ => False) cs (c0 _)).log

/-- the invariant is preserved by the three operations -/
theorem hex_preserves_inv (s : State) (vi : Nat) (cs : List Char) (hi : Inv s) :
    Inv (opToHex s vi).2 ∧ Inv (opSetFromHex s vi cs).2 ∧ Inv (opFromHex s cs).2 := by
  have c : Ctx (fun _ => True) s := ⟨hi, fun _ _ => trivial⟩
  exact ⟨(opToHex_spec vi c (fun _ _ _ _ _ _ => trivial)).inv, (opSetFromHex_spec vi cs c (fun _ _ _ _ _ _ => trivial)).inv,
    (opFromHex_spec cs c).inv⟩

/-! ### byte results -/

/-- **toHex value**: the hex encoding of the view's bytes -/
theorem toHex_value_eq_spec (s : State) (vi : Nat) (v : View) (d : List UInt8) (hr : hexReceiver s vi = .ok v)
    (hd : s.data? v.buf = some d) : (opToHex s vi).1 = .str (hexOfBytes (window d v.offset v.length)) := by
  unfold opToHex; rw [hr]; dsimp only
  rw [readRange_value v.buf d _ s _ hd]

/-- a completely valid hex string is decoded and stored pair by pair: the bytes land at `lo+n, lo+n+1, …` -/
theorem hexWrite_data (b lo : Nat) : ∀ (m : Nat) (cs : List Char) (bs : List UInt8) (s : State) (n : Nat), cs.length ≤ 2 * m →
    hexDecodeAll cs = some bs →
    (hexWrite s b lo cs n).1 = .rw (2 * (n + bs.length)) (n + bs.length) ∧
    ∀ b', (hexWrite s b lo cs n).2.data? b' = if b' = b then (s.data? b).map (fun d => splice d (lo + n) bs) else s.data? b' := by
  intro m
  induction m with
  | zero =>
    intro cs bs s n hm h
    have : cs = [] := List.eq_nil_of_length_eq_zero (by omega)
    subst this
    simp [hexDecodeAll] at h; subst h
    refine ⟨by simp [hexWrite], fun b' => ?_⟩
    by_cases hb : b' = b
    · subst hb; simp [hexWrite, splice]
    · simp [hexWrite, hb]
  | succ m ih =>
    intro cs bs s n hm h
    match cs with
    | [] =>
      simp [hexDecodeAll] at h; subst h
      refine ⟨by simp [hexWrite], fun b' => ?_⟩
      by_cases hb : b' = b
      · subst hb; simp [hexWrite, splice]
      · simp [hexWrite, hb]
    | [_] => simp [hexDecodeAll] at h
    | c1 :: c2 :: rest =>
      simp only [List.length_cons] at hm
      unfold hexDecodeAll at h
      split at h
      · rename_i hi' lo' bs' h1 h2 h3
        injection h with h; subst h
        unfold hexWrite
        simp only [h1, h2]
        obtain ⟨a, c⟩ := ih rest bs' (s.writeByte b (lo + n) (UInt8.ofNat (hi' * 16 + lo'))) (n + 1) (by omega) h3
        refine ⟨by rw [a]; simp only [List.length_cons]; congr 1 <;> omega, fun b' => ?_⟩
        rw [c b']
        by_cases hb : b' = b
        · subst hb
          rw [if_pos rfl, if_pos rfl, data?_writeByte, if_pos rfl]
          cases s.data? b' with
          | none => rfl
          | some d => rfl
        · rw [if_neg hb, if_neg hb, data?_writeByte, if_neg hb]
      · simp at h

/-! ### hex codec round trip -/

theorem hexVal_hexChar : ∀ d : Fin 16, hexVal? (hexChar d.val) = some d.val := by decide

theorem hexDecode_encode (bs : List UInt8) : hexDecodeAll (hexOfBytes bs) = some bs := by
  induction bs with
  | nil => rfl
  | cons b bs ih =>
    have h1 := hexVal_hexChar ⟨b.toNat / 16, by have := b.toNat_lt; omega⟩
    have h2 := hexVal_hexChar ⟨b.toNat % 16, by omega⟩
    simp only at h1 h2
    simp only [hexOfBytes, hexDecodeAll, h1, h2, ih]
    congr 2
    have : b.toNat / 16 * 16 + b.toNat % 16 = b.toNat := by omega
    rw [this]
    exact UInt8.ofNat_toNat

end GojaModel.C17
