/-
  C17 — bytes_eq_spec for the remaining writing operations: element put / get, reverse, DataView set / get (byte
  order), slice into a fresh buffer.  Each theorem describes the bytes afterwards as a function of the bytes before
  (after the argument coercions), for all arguments and adversaries.
-/
import GojaModel.C17.Sort

namespace GojaModel.C17

theorem data_of_attached' {s : State} {b : Nat} (h : s.attached b = true) : ∃ d, s.data? b = some d := by
  unfold State.attached at h
  cases hd : s.data? b with
  | none => simp [hd] at h
  | some d => exact ⟨d, rfl⟩

/-! ## element put / get -/

/-- **put**: when the index is valid after the value conversion, exactly the `es` bytes of element `idx` become
NumericToRawBytes(value); otherwise nothing changes. -/
theorem put_bytes_eq_spec (s : State) (vi : Nat) (v : View) (idx : Int) (a : VArg) (raw : List UInt8)
    (hv : s.views[vi]? = some v) (henc : encode v.kind a.num = some raw) :
    (isValidIntegerIndex ((s.applyDet a.det).attached v.buf) v.length idx = true →
      ∃ d, (s.applyDet a.det).data? v.buf = some d ∧
        (opPut s vi idx a).2.data? v.buf = some (splice d ((v.offset + idx.toNat) * v.kind.size) (fit v.kind.size raw)) ∧
        ∀ b', b' ≠ v.buf → (opPut s vi idx a).2.data? b' = (s.applyDet a.det).data? b') ∧
    (isValidIntegerIndex ((s.applyDet a.det).attached v.buf) v.length idx = false →
      ∀ b', (opPut s vi idx a).2.data? b' = (s.applyDet a.det).data? b') := by
  unfold opPut; rw [hv]; dsimp only; rw [henc]; dsimp only
  constructor
  · intro hvalid
    rw [if_pos hvalid]
    have ha : (s.applyDet a.det).attached v.buf = true := by
      simp only [isValidIntegerIndex, Bool.and_eq_true] at hvalid; exact hvalid.1
    obtain ⟨d, hd⟩ := data_of_attached' ha
    refine ⟨d, hd, ?_, ?_⟩
    · unfold State.writeElem; rw [data?_writeRange, if_pos rfl, hd]; rfl
    · intro b' hb'; unfold State.writeElem; rw [data?_writeRange, if_neg hb']
  · intro hinv b'
    rw [hinv]; rfl

/-- **get**: an in-range index of an attached view yields RawBytesToNumeric of the element's bytes, anything else
`undefined`; no byte changes. -/
theorem get_value_eq_spec (s : State) (vi : Nat) (v : View) (idx : Int) (d : List UInt8)
    (hv : s.views[vi]? = some v) (hd : s.data? v.buf = some d) (h0 : 0 ≤ idx) (h1 : idx < (v.length : Int)) :
    (opGet s vi idx).1 = .val (decode v.kind (window d ((v.offset + idx.toNat) * v.kind.size) v.kind.size)) ∧
    ∀ b', (opGet s vi idx).2.data? b' = s.data? b' := by
  unfold opGet; rw [hv]; dsimp only
  have hc : (decide (0 ≤ idx) && decide (idx < (v.length : Int))) = true := by simp [h0, h1]
  rw [if_pos hc]
  have ha : s.attached v.buf = true := by unfold State.attached; rw [hd]; rfl
  have hna : ¬ (!s.attached v.buf) = true := by simp [ha]
  rw [if_neg hna]
  constructor
  · show Res.val (decode v.kind (s.readElem v idx.toNat).1) = _
    unfold State.readElem
    rw [readRange_value v.buf d _ s _ hd]
  · intro b'
    show (s.readElem v idx.toNat).2.data? b' = _
    unfold State.readElem
    exact readRange_data v.buf _ s _ b'

/-! ## reverse -/

/-- **reverse**: the raw elements of the view afterwards are the reversed raw elements before; the rest of the buffer
is unchanged. -/
theorem reverse_bytes_eq_spec (s : State) (vi : Nat) (v : View) (hi : Inv s) (hv : s.views[vi]? = some v)
    (hok : (opReverse s vi).1 = .ok) :
    ∃ d d', s.data? v.buf = some d ∧ (opReverse s vi).2.data? v.buf = some d' ∧ d'.length = d.length ∧
      elemsOf d' v = (elemsOf d v).reverse ∧
      (∀ lo n, (lo + n ≤ v.lo ∨ v.hi ≤ lo) → window d' lo n = window d lo n) := by
  unfold opReverse at hok ⊢; rw [hv] at hok ⊢; dsimp only at hok ⊢
  by_cases ha : (!s.attached v.buf) = true
  · rw [if_pos ha] at hok; simp at hok
  · rw [if_neg ha]
    have hatt : s.attached v.buf = true := by simpa using ha
    obtain ⟨d, hd⟩ := data_of_attached' hatt
    obtain ⟨rv, rd⟩ := readElems_eq v d v.length s 0 hd
    have hbound : v.hi ≤ d.length := by
      have := (hi.views v (List.mem_of_getElem? hv)).2 hatt
      unfold State.blen at this; rw [hd] at this; exact this
    have hre : (readElems s v 0 v.length).1 = elemsOf d v := rv
    have hlen : (elemsOf d v).reverse.length = v.length := by simp [elemsOf]
    obtain ⟨d', hd', hl, hel, hout⟩ := writeElems_elems v (elemsOf d v).reverse
      (readElems s v 0 v.length).2 0 d (by rw [rd]; exact hd) (by rw [hlen, Nat.add_zero]; exact hbound)
    have hmem : ∀ x ∈ (elemsOf d v).reverse, x.length = v.kind.size := by
      intro x hx
      rw [List.mem_reverse] at hx
      unfold elemsOf at hx
      rw [List.mem_map] at hx
      obtain ⟨_, _, rfl⟩ := hx
      exact window_length _ _ _
    have hkey : elemsOf d' v = (elemsOf d v).reverse := by
      generalize (elemsOf d v).reverse = S at *
      have hmap : (List.range' 0 v.length).map (fun i => window d' ((v.offset + i) * v.kind.size) v.kind.size) =
          (List.range' 0 v.length).map (fun i => S.getD i []) := by
        apply List.map_congr_left
        intro i hi'
        rw [List.mem_range'] at hi'
        obtain ⟨j, hj, rfl⟩ := hi'
        have := hel (0 + 1 * j) (by rw [hlen]; omega)
        rw [Nat.add_zero] at this
        rw [this]
        apply fit_eq_self
        apply hmem
        rw [List.getD_eq_getElem?_getD, List.getElem?_eq_getElem (by rw [hlen]; omega)]
        exact List.getElem_mem _
      have := map_getD_range' S
      rw [hlen] at this
      show (List.range' 0 v.length).map (fun i => window d' ((v.offset + i) * v.kind.size) v.kind.size) = S
      rw [hmap]; exact this
    refine ⟨d, d', hd, ?_, hl, hkey, ?_⟩
    · show (writeElems (readElems s v 0 v.length).2 v 0 (readElems s v 0 v.length).1.reverse).data? v.buf = some d'
      rw [hre]; exact hd'
    · intro lo n hlo
      apply hout
      rw [hlen, Nat.add_zero]
      exact hlo

/-! ## DataView -/

/-- **DataView.set***: on success the `size` bytes at `byteOffset + idx` become NumericToRawBytes(value) in the
requested byte order (reversed for big-endian); nothing else changes. -/
theorem dvSet_bytes_eq_spec (s : State) (di : Nat) (dv : DView) (k : Kind) (idx : IArg) (a : VArg) (le : Bool) (raw : List UInt8)
    (hd : s.dvs[di]? = some dv) (henc : encode k a.num = some raw) (hok : (opDVSet s di k idx a le).1 = .ok) :
    ∃ d, ((s.applyDet idx.det).applyDet a.det).data? dv.buf = some d ∧
      (opDVSet s di k idx a le).2.data? dv.buf =
        some (splice d (idx.val.toNat + dv.byteOffset) (if le then fit k.size raw else (fit k.size raw).reverse)) ∧
      ∀ b', b' ≠ dv.buf → (opDVSet s di k idx a le).2.data? b' = ((s.applyDet idx.det).applyDet a.det).data? b' := by
  unfold opDVSet at hok ⊢; rw [hd] at hok ⊢; dsimp only at hok ⊢
  by_cases h0 : (!toIndexOk idx.val) = true
  · rw [if_pos h0] at hok; simp at hok
  · rw [if_neg h0] at hok ⊢
    rw [henc] at hok ⊢; dsimp only at hok ⊢
    by_cases ha : (!((s.applyDet idx.det).applyDet a.det).attached dv.buf) = true
    · rw [if_pos ha] at hok; simp at hok
    · rw [if_neg ha] at hok ⊢
      by_cases hr : (!dvRangeOk idx.val (k.size : Int) (dv.byteLen : Int)) = true
      · rw [if_pos hr] at hok; simp at hok
      · rw [if_neg hr]
        have hatt : ((s.applyDet idx.det).applyDet a.det).attached dv.buf = true := by simpa using ha
        obtain ⟨d, hdd⟩ := data_of_attached' hatt
        refine ⟨d, hdd, ?_, ?_⟩
        · show (State.writeRange _ _ _ _).data? dv.buf = _
          rw [data?_writeRange, if_pos rfl, hdd]; rfl
        · intro b' hb'
          show (State.writeRange _ _ _ _).data? b' = _
          rw [data?_writeRange, if_neg hb']

/-- **DataView.get***: on success the value is RawBytesToNumeric of the `size` bytes at `byteOffset + idx`, read in the
requested byte order; no byte changes. -/
theorem dvGet_value_eq_spec (s : State) (di : Nat) (dv : DView) (k : Kind) (idx : IArg) (le : Bool) (d : List UInt8)
    (hd : s.dvs[di]? = some dv) (hdat : (s.applyDet idx.det).data? dv.buf = some d)
    (h0 : toIndexOk idx.val = true) (hr : dvRangeOk idx.val (k.size : Int) (dv.byteLen : Int) = true) :
    (opDVGet s di k idx le).1 =
      .val (decode k (if le then window d (idx.val.toNat + dv.byteOffset) k.size
                     else (window d (idx.val.toNat + dv.byteOffset) k.size).reverse)) := by
  unfold opDVGet; rw [hd]; dsimp only
  have c0 : ¬ (!toIndexOk idx.val) = true := by simp [h0]
  have ha : (s.applyDet idx.det).attached dv.buf = true := by unfold State.attached; rw [hdat]; rfl
  have c1 : ¬ (!(s.applyDet idx.det).attached dv.buf) = true := by simp [ha]
  have c2 : ¬ (!dvRangeOk idx.val (k.size : Int) (dv.byteLen : Int)) = true := by simp [hr]
  rw [if_neg c0, if_neg c1, if_neg c2]
  show Res.val (decode k (if le = true then (State.readRange _ _ _ _).1 else (State.readRange _ _ _ _).1.reverse)) = _
  rw [readRange_value dv.buf d _ _ _ hdat]

/-- a big-endian store followed by a big-endian load (or little/little) returns the bytes written: the two byte
orders are each other's mirror -/
theorem dv_byteorder_roundtrip (xs : List UInt8) (le : Bool) :
    (if le then (if le then xs else xs.reverse) else (if le then xs else xs.reverse).reverse) = xs := by
  cases le <;> simp

/-! ## slice into a fresh buffer -/

/-- forward byte copy between two DIFFERENT buffers: the target gets the source window, the source is unchanged -/
theorem copyFwd_data_distinct (sb db : Nat) (hne : sb ≠ db) (ds : List UInt8) :
    ∀ (n : Nat) (s : State) (slo dlo : Nat), s.data? sb = some ds →
      (copyFwd s sb slo db dlo n).data? db = (s.data? db).map (fun dd => splice dd dlo (window ds slo n)) ∧
      ∀ b', b' ≠ db → (copyFwd s sb slo db dlo n).data? b' = s.data? b' := by
  intro n
  induction n with
  | zero =>
    intro s slo dlo _
    refine ⟨?_, fun _ _ => rfl⟩
    show s.data? db = _
    cases s.data? db <;> simp [window, splice]
  | succ n ih =>
    intro s slo dlo hs
    simp only [copyFwd]
    have hrd : ∀ b', (s.readByte sb slo).2.data? b' = s.data? b' := fun _ => rfl
    have hrv : (s.readByte sb slo).1 = ds.getD slo 0 := by simp [State.readByte, hs]
    have hw : ∀ b', ((s.readByte sb slo).2.writeByte db dlo (s.readByte sb slo).1).data? b' =
        if b' = db then (s.data? db).map (fun dd => dd.set dlo (ds.getD slo 0)) else s.data? b' := by
      intro b'; rw [data?_writeByte, hrv]; rfl
    have hs' : ((s.readByte sb slo).2.writeByte db dlo (s.readByte sb slo).1).data? sb = some ds := by
      rw [hw, if_neg hne]; exact hs
    obtain ⟨a, b⟩ := ih _ (slo + 1) (dlo + 1) hs'
    constructor
    · rw [a, hw, if_pos rfl]
      cases s.data? db <;> simp [window, splice]
    · intro b' hb'
      rw [b b' hb', hw, if_neg hb']

theorem splice_full (d xs : List UInt8) (h : xs.length = d.length) : splice d 0 xs = xs := by
  apply ext_getD (0 : UInt8)
  · rw [splice_length, h]
  · intro j
    rw [splice_getD]
    by_cases hj : j < d.length
    · rw [if_pos ⟨Nat.zero_le _, by omega, hj⟩, Nat.sub_zero]
    · rw [if_neg (by omega), getD_beyond _ _ (by omega), getD_beyond _ _ (by omega)]

theorem data?_pushBuf (s : State) (x : List UInt8) (b : Nat) :
    ({ s with bufs := s.bufs ++ [some x] } : State).data? b =
      if b < s.bufs.length then s.data? b else if b = s.bufs.length then some x else none := by
  unfold State.data?
  simp only [List.getD_eq_getElem?_getD]
  by_cases h1 : b < s.bufs.length
  · rw [if_pos h1, List.getElem?_append_left h1]
  · rw [if_neg h1]
    by_cases h2 : b = s.bufs.length
    · subst h2; simp
    · rw [if_neg h2, List.getElem?_eq_none (by simp; omega)]; rfl

/-- **slice with the default constructor** (`count > 0`): the fresh buffer holds exactly the `count` source elements
starting at `start` (ECMA-262's byte-by-byte copy into new memory), and no existing buffer changes. -/
theorem slice_default_bytes_eq_spec (s : State) (vi : Nat) (v : View) (st fi : Option IArg) (hi : Inv s)
    (hv : s.views[vi]? = some v)
    (hcnt : 0 < (relToIdx (oVal fi v.length) v.length - relToIdx (oVal st 0) v.length).toNat)
    (hatt : ((s.applyDet (oDet st)).applyDet (oDet fi)).attached v.buf = true) (hatt0 : s.attached v.buf = true) :
    ∃ d, ((s.applyDet (oDet st)).applyDet (oDet fi)).data? v.buf = some d ∧
      (opSlice s vi st fi none).2.data? s.bufs.length =
        some (window d ((v.offset + (relToIdx (oVal st 0) v.length).toNat) * v.kind.size)
          ((relToIdx (oVal fi v.length) v.length - relToIdx (oVal st 0) v.length).toNat * v.kind.size)) ∧
      ∀ b', b' < s.bufs.length → (opSlice s vi st fi none).2.data? b' = ((s.applyDet (oDet st)).applyDet (oDet fi)).data? b' := by
  have hnb : ((s.applyDet (oDet st)).applyDet (oDet fi)).bufs.length = s.bufs.length := by
    rw [applyDet_nbufs, applyDet_nbufs]
  have hvb : v.buf < s.bufs.length := (hi.views v (List.mem_of_getElem? hv)).1
  obtain ⟨d, hd⟩ := data_of_attached' hatt
  unfold opSlice; rw [hv]; dsimp only
  have c0 : ¬ speciesBad s none = true := by simp [speciesBad]
  have c1 : ¬ (!s.attached v.buf) = true := by simp [hatt0]
  have c2 : ¬ (!((s.applyDet (oDet st)).applyDet (oDet fi)).attached v.buf) = true := by simp [hatt]
  rw [if_neg c0, if_neg c1, if_pos hcnt, if_neg c2]
  generalize hs2 : (s.applyDet (oDet st)).applyDet (oDet fi) = s2 at *
  generalize hn : (relToIdx (oVal fi v.length) v.length - relToIdx (oVal st 0) v.length).toNat * v.kind.size = n
  have hne : v.buf ≠ s2.bufs.length := by omega
  have hsrc : ({ s2 with bufs := s2.bufs ++ [some (List.replicate n 0)] } : State).data? v.buf = some d := by
    rw [data?_pushBuf, if_pos (by omega)]; exact hd
  obtain ⟨a, b⟩ := copyFwd_data_distinct v.buf s2.bufs.length hne d n
    { s2 with bufs := s2.bufs ++ [some (List.replicate n 0)] }
    ((v.offset + (relToIdx (oVal st 0) v.length).toNat) * v.kind.size) (0 * v.kind.size) hsrc
  refine ⟨d, hd, ?_, ?_⟩
  · show (copyFwd _ _ _ _ _ _).data? s.bufs.length = _
    rw [← hnb, a, data?_pushBuf, if_neg (by omega), if_pos rfl]
    simp only [Option.map_some, Nat.zero_mul]
    rw [splice_full _ _ (by rw [window_length, List.length_replicate])]
  · intro b' hb'
    show (copyFwd _ _ _ _ _ _).data? b' = _
    rw [b b' (by omega), data?_pushBuf, if_pos (by omega)]

theorem leNat_leBytes' (n x : Nat) (h : x < 256 ^ n) : leNat (leBytes n x) = x := by
  induction n generalizing x with
  | zero => simp at h; subst h; rfl
  | succ n ih =>
    have h2 : x / 256 < 256 ^ n := by
      rw [Nat.pow_succ] at h
      exact Nat.div_lt_of_lt_mul (by omega)
    simp only [leBytes, leNat, ih _ h2]
    have : (UInt8.ofNat (x % 256)).toNat = x % 256 := by
      simp [UInt8.toNat_ofNat']
    rw [this]; omega

/-! ## BigInt codecs -/

theorem codec_roundtrip_bu64 (i : Nat) (h : i < 2 ^ 64) : (encode .bu64 (.big i)).map (decode .bu64) = some (.big i) := by
  simp only [Nat.reducePow] at h
  have e : intModN 64 (i : Int) = i := by unfold intModN; omega
  simp only [encode, encodeNat, Kind.size, e, Option.map_some, decode]
  rw [leNat_leBytes' 8 i (by omega)]

theorem codec_roundtrip_bi64 (i : Int) (h1 : -(2 ^ 63) ≤ i) (h2 : i < 2 ^ 63) :
    (encode .bi64 (.big i)).map (decode .bi64) = some (.big i) := by
  simp only [Int.reducePow, Int.reduceNeg] at h1 h2
  have hb : intModN 64 i < 2 ^ 64 := by unfold intModN; omega
  simp only [encode, encodeNat, Kind.size, Option.map_some, decode]
  rw [leNat_leBytes' 8 _ (by omega)]
  unfold signedOfNat intModN
  congr 2
  split <;> omega

/-! ## indexOf / lastIndexOf / includes: the index returned is the first (last) matching element -/

/-- raw bytes of element `i` of view `v` in the byte array `d` -/
def elemAt (d : List UInt8) (v : View) (i : Nat) : List UInt8 := window d ((v.offset + i) * v.kind.size) v.kind.size

theorem readElem_value (s : State) (v : View) (d : List UInt8) (i : Nat) (h : s.data? v.buf = some d) :
    (s.readElem v i).1 = elemAt d v i ∧ ∀ b', (s.readElem v i).2.data? b' = s.data? b' := by
  unfold State.readElem elemAt
  exact ⟨readRange_value v.buf d _ s _ h, fun b' => readRange_data v.buf _ s _ b'⟩

/-- **ascending scan** (indexOf, includes): `some j` iff `j` is the least index in `[k, k+n)` whose decoded element equals
the search value; `none` iff there is none. -/
theorem scanUp_correct (v : View) (svz : Bool) (se : Num) (d : List UInt8) :
    ∀ (n : Nat) (s : State) (k : Nat), s.data? v.buf = some d →
      match (scanUp s v svz se k n).1 with
      | some j => k ≤ j ∧ j < k + n ∧ numEq svz (decode v.kind (elemAt d v j)) se = true ∧
                  ∀ i, k ≤ i → i < j → numEq svz (decode v.kind (elemAt d v i)) se = false
      | none => ∀ i, k ≤ i → i < k + n → numEq svz (decode v.kind (elemAt d v i)) se = false := by
  intro n
  induction n with
  | zero => intro s k _; simp [scanUp]; intro i h1 h2; omega
  | succ n ih =>
    intro s k h
    obtain ⟨hv, hdat⟩ := readElem_value s v d k h
    unfold scanUp; dsimp only
    rw [hv]
    by_cases hm : numEq svz (decode v.kind (elemAt d v k)) se = true
    · rw [if_pos hm]
      exact ⟨Nat.le_refl _, by omega, hm, fun i h1 h2 => by omega⟩
    · rw [if_neg hm]
      have hm' : numEq svz (decode v.kind (elemAt d v k)) se = false := by simpa using hm
      have := ih (s.readElem v k).2 (k + 1) (by rw [hdat]; exact h)
      cases hr : (scanUp (s.readElem v k).2 v svz se (k + 1) n).1 with
      | some j =>
        rw [hr] at this
        obtain ⟨a, b, c, e⟩ := this
        refine ⟨by omega, by omega, c, fun i h1 h2 => ?_⟩
        by_cases hik : i = k
        · subst hik; exact hm'
        · exact e i (by omega) h2
      | none =>
        rw [hr] at this
        intro i h1 h2
        by_cases hik : i = k
        · subst hik; exact hm'
        · exact this i (by omega) (by omega)

/-- **descending scan** (lastIndexOf): `some j` iff `j` is the greatest index below `n` with a matching element -/
theorem scanDown_correct (v : View) (se : Num) (d : List UInt8) :
    ∀ (n : Nat) (s : State), s.data? v.buf = some d →
      match (scanDown s v se n).1 with
      | some j => j < n ∧ numEq false (decode v.kind (elemAt d v j)) se = true ∧
                  ∀ i, j < i → i < n → numEq false (decode v.kind (elemAt d v i)) se = false
      | none => ∀ i, i < n → numEq false (decode v.kind (elemAt d v i)) se = false := by
  intro n
  induction n with
  | zero => intro s _; simp [scanDown]
  | succ n ih =>
    intro s h
    obtain ⟨hv, hdat⟩ := readElem_value s v d n h
    unfold scanDown; dsimp only
    rw [hv]
    by_cases hm : numEq false (decode v.kind (elemAt d v n)) se = true
    · rw [if_pos hm]
      exact ⟨by omega, hm, fun i h1 h2 => by omega⟩
    · rw [if_neg hm]
      have hm' : numEq false (decode v.kind (elemAt d v n)) se = false := by simpa using hm
      have := ih (s.readElem v n).2 (by rw [hdat]; exact h)
      cases hr : (scanDown (s.readElem v n).2 v se n).1 with
      | some j =>
        rw [hr] at this
        obtain ⟨a, c, e⟩ := this
        refine ⟨by omega, c, fun i h1 h2 => ?_⟩
        by_cases hik : i = n
        · subst hik; exact hm'
        · exact e i h1 (by omega)
      | none =>
        rw [hr] at this
        intro i h2
        by_cases hik : i = n
        · subst hik; exact hm'
        · exact this i (by omega)

/-! ## the values handed to callbacks / iterators / join are the elements of the view, in order -/

theorem applyDet_nil (s : State) : s.applyDet [] = s := rfl

theorem visitRead_value (s : State) (v : View) (d : List UInt8) (k : Nat) (h : s.data? v.buf = some d) :
    (visitRead s v k).1 = some (decode v.kind (elemAt d v k)) ∧ ∀ b', (visitRead s v k).2.data? b' = s.data? b' := by
  have ha : s.attached v.buf = true := by unfold State.attached; rw [h]; rfl
  obtain ⟨hv, hd⟩ := readElem_value s v d k h
  unfold visitRead
  rw [if_pos ha]
  exact ⟨by simp only; rw [hv], hd⟩

/-- ascending visit without adversary: every / some / find / findIndex / forEach / reduce see elements `i, i+1, …` -/
theorem visitLoop_up_values (v : View) (d : List UInt8) (detAt : Nat) :
    ∀ (n : Nat) (s : State) (i : Nat) (acc : List (Option Num)), s.data? v.buf = some d →
      (visitLoop s v false detAt [] i n acc).2 =
        acc ++ (List.range' i n).map (fun k => some (decode v.kind (elemAt d v k))) := by
  intro n
  induction n with
  | zero => intro s i acc _; simp [visitLoop]
  | succ n ih =>
    intro s i acc h
    obtain ⟨hv, hd⟩ := visitRead_value s v d i h
    unfold visitLoop; dsimp only
    simp only [Bool.false_eq_true, if_false, applyDet_nil, ite_self]
    rw [ih _ _ _ (by rw [hd]; exact h), hv, List.range'_succ, List.map_cons, List.append_assoc]
    rfl

/-- descending visit without adversary: findLast / findLastIndex / reduceRight see elements `n-1, …, 0` -/
theorem visitLoop_down_values (v : View) (d : List UInt8) (detAt : Nat) :
    ∀ (n : Nat) (s : State) (i : Nat) (acc : List (Option Num)), s.data? v.buf = some d →
      (visitLoop s v true detAt [] i n acc).2 =
        acc ++ (List.range n).reverse.map (fun k => some (decode v.kind (elemAt d v k))) := by
  intro n
  induction n with
  | zero => intro s i acc _; simp [visitLoop]
  | succ n ih =>
    intro s i acc h
    obtain ⟨hv, hd⟩ := visitRead_value s v d n h
    unfold visitLoop; dsimp only
    simp only [if_true, applyDet_nil, ite_self]
    rw [ih _ _ _ (by rw [hd]; exact h), hv, List.range_succ, List.reverse_append, List.reverse_singleton,
      List.singleton_append, List.map_cons, List.append_assoc]
    rfl

/-- **visiting methods, no adversary**: the callback sees exactly the decoded elements of the view, ascending
(`bwd = false`) or descending (`bwd = true`) -/
theorem visit_values_eq_spec (s : State) (vi : Nat) (v : View) (d : List UInt8) (bwd : Bool) (detAt : Nat)
    (hv : s.views[vi]? = some v) (hd : s.data? v.buf = some d) :
    (opVisit s vi bwd detAt []).1 = .vals (
      (if bwd then (List.range v.length).reverse else List.range' 0 v.length).map
        (fun k => some (decode v.kind (elemAt d v k)))) := by
  unfold opVisit; rw [hv]; dsimp only
  have ha : s.attached v.buf = true := by unfold State.attached; rw [hd]; rfl
  have c : ¬ (!s.attached v.buf) = true := by simp [ha]
  rw [if_neg c]
  cases bwd with
  | false => simp only [Bool.false_eq_true, if_false]; rw [visitLoop_up_values v d detAt _ s 0 [] hd]; rfl
  | true => simp only [if_true]; rw [visitLoop_down_values v d detAt _ s 0 [] hd]; rfl

theorem joinLoop_values (v : View) (d : List UInt8) :
    ∀ (n : Nat) (s : State) (k : Nat) (acc : List (Option Num)), s.data? v.buf = some d →
      (joinLoop s v k n acc).2 = acc ++ (List.range' k n).map (fun i => some (decode v.kind (elemAt d v i))) := by
  intro n
  induction n with
  | zero => intro s k acc _; simp [joinLoop]
  | succ n ih =>
    intro s k acc h
    obtain ⟨hv, hd⟩ := visitRead_value s v d k h
    unfold joinLoop; dsimp only
    rw [ih _ _ _ (by rw [hd]; exact h), hv, List.range'_succ, List.map_cons, List.append_assoc]
    rfl

/-- **join / toString / toLocaleString, no adversary**: the joined values are the decoded elements in ascending order -/
theorem join_values_eq_spec (s : State) (vi : Nat) (v : View) (d : List UInt8) (pe : Bool)
    (hv : s.views[vi]? = some v) (hd : s.data? v.buf = some d) :
    (opJoin s vi [] pe).1 = .vals ((List.range' 0 v.length).map (fun i => some (decode v.kind (elemAt d v i)))) := by
  unfold opJoin; rw [hv]; dsimp only
  have ha : s.attached v.buf = true := by unfold State.attached; rw [hd]; rfl
  have c : ¬ ((!s.attached v.buf) && !(pe && v.length == 0)) = true := by simp [ha]
  rw [if_neg c, applyDet_nil, joinLoop_values v d _ s 0 [] hd]
  rfl

/-! ## set(array-like) / %TypedArray%.of / .from without adversary: the elements written are the encoded values -/

theorem attached_writeElem (s : State) (v : View) (k : Nat) (raw : List UInt8) (b : Nat) :
    (s.writeElem v k raw).attached b = s.attached b := by
  unfold State.attached State.writeElem
  rw [data?_writeRange]
  by_cases h : b = v.buf
  · subst h; simp
  · simp [h]

/-- without adversary (`det = []` everywhere), with convertible values, an attached buffer and room in the view,
TypedArraySetElement for `k, k+1, …` is `writeElems` of the encoded values -/
theorem setArrLoop_noadv (v : View) : ∀ (vals : List VArg) (s : State) (k : Nat),
    (∀ a ∈ vals, a.det = [] ∧ (encode v.kind a.num).isSome = true) → s.attached v.buf = true → k + vals.length ≤ v.length →
    setArrLoop s v k vals = (.ok, writeElems s v k (vals.map (fun a => (encode v.kind a.num).getD []))) := by
  intro vals
  induction vals with
  | nil => intro s k _ _ _; rfl
  | cons a as ih =>
    intro s k h ha hk
    simp only [List.length_cons] at hk
    obtain ⟨hdet, henc⟩ := h a (List.mem_cons_self ..)
    obtain ⟨raw, hraw⟩ := Option.isSome_iff_exists.mp henc
    unfold setArrLoop; dsimp only
    rw [hdet, applyDet_nil, hraw]; dsimp only
    have hvalid : isValidIntegerIndex (s.attached v.buf) v.length (k : Int) = true := by
      simp [isValidIntegerIndex, ha]; omega
    rw [if_pos hvalid]
    simp only [List.map_cons, writeElems, hraw, Option.getD_some]
    exact ih _ _ (fun b hb => h b (List.mem_cons_of_mem _ hb)) (by rw [attached_writeElem]; exact ha) (by omega)

/-- **set(array-like), no adversary**: elements `[t, t+n)` of the view hold the encoded values, every byte range outside
them is unchanged. -/
theorem setArr_bytes_eq_spec (s : State) (vi : Nat) (v : View) (t : Nat) (vals : List VArg) (d : List UInt8)
    (hi : Inv s) (hv : s.views[vi]? = some v) (hd : s.data? v.buf = some d)
    (hvals : ∀ a ∈ vals, a.det = [] ∧ (encode v.kind a.num).isSome = true) (hfit : t + vals.length ≤ v.length) :
    ∃ d', (opSetArr s vi (some ⟨t, []⟩) vals).2.data? v.buf = some d' ∧ d'.length = d.length ∧
      (∀ i, i < vals.length → elemAt d' v (t + i) = fit v.kind.size ((encode v.kind (vals.getD i ⟨.undef, []⟩).num).getD [])) ∧
      (∀ lo n, (lo + n ≤ (v.offset + t) * v.kind.size ∨ (v.offset + t + vals.length) * v.kind.size ≤ lo) →
        window d' lo n = window d lo n) := by
  have ha : s.attached v.buf = true := by unfold State.attached; rw [hd]; rfl
  have hb : v.hi ≤ d.length := by
    have := (hi.views v (List.mem_of_getElem? hv)).2 ha
    unfold State.blen at this; rw [hd] at this; exact this
  have c0 : ¬ ((t : Int) < 0) := by omega
  have c1 : ¬ (!s.attached v.buf) = true := by simp [ha]
  have c2 : ¬ ((vals.length : Int) + (t : Int) > (v.length : Int)) := by omega
  have hop : opSetArr s vi (some ⟨(t : Int), []⟩) vals =
      (.ok, writeElems s v t (vals.map (fun a => (encode v.kind a.num).getD []))) := by
    unfold opSetArr; rw [hv]; dsimp only
    simp only [oDet, oVal, applyDet_nil]
    simp only [c0, c1, c2, if_false]
    rw [Int.toNat_natCast, setArrLoop_noadv v vals s t hvals ha hfit]
    simp
  rw [hop]
  have hbound : (v.offset + t + (vals.map (fun a => (encode v.kind a.num).getD [])).length) * v.kind.size ≤ d.length := by
    rw [List.length_map]
    refine Nat.le_trans (Nat.mul_le_mul_right _ (by omega : v.offset + t + vals.length ≤ v.offset + v.length)) hb
  obtain ⟨d', h1, h2, h3, h4⟩ := writeElems_elems v (vals.map (fun a => (encode v.kind a.num).getD [])) s t d hd hbound
  refine ⟨d', h1, h2, ?_, ?_⟩
  · intro i hi'
    have := h3 i (by rw [List.length_map]; exact hi')
    unfold elemAt
    rw [← Nat.add_assoc, this]
    congr 1
    rw [List.getD_eq_getElem?_getD, List.getElem?_map, List.getD_eq_getElem?_getD, List.getElem?_eq_getElem hi']
    rfl
  · intro lo n hlo
    apply h4
    rw [List.length_map]
    exact hlo

/-! ## slice onto the SAME buffer (species constructor returned a view of the source's buffer) -/

/-- the model's forward live byte copy within one buffer is `copyUp` on its bytes -/
theorem copyFwd_same_data (b : Nat) : ∀ (n : Nat) (s : State) (slo dlo : Nat) (d : List UInt8), s.data? b = some d →
    (copyFwd s b slo b dlo n).data? b = some (copyUp (0 : UInt8) id d slo dlo n) ∧
    ∀ b', b' ≠ b → (copyFwd s b slo b dlo n).data? b' = s.data? b' := by
  intro n
  induction n with
  | zero => intro s slo dlo d h; exact ⟨h, fun _ _ => rfl⟩
  | succ n ih =>
    intro s slo dlo d h
    simp only [copyFwd, copyUp, id]
    have hrv : (s.readByte b slo).1 = d.getD slo 0 := by simp [State.readByte, h]
    have hw : ∀ b', ((s.readByte b slo).2.writeByte b dlo (s.readByte b slo).1).data? b' =
        if b' = b then some (d.set dlo (d.getD slo 0)) else s.data? b' := by
      intro b'
      rw [data?_writeByte, hrv]
      by_cases hb : b' = b
      · subst hb; simp only [if_true]; show (s.data? b').map _ = _; rw [h]; rfl
      · simp only [hb, if_false]; rfl
    obtain ⟨a, c⟩ := ih _ (slo + 1) (dlo + 1) _ (by rw [hw, if_pos rfl])
    exact ⟨a, fun b' hb' => by rw [c b' hb', hw, if_neg hb']⟩

/-- goja's same-type slice (builtin_typedarrays.go:1107-1114): `copy` (memmove) when the target starts at or before the
source or after its end, otherwise an explicit forward byte loop -/
def sliceMech (d : List UInt8) (srcLo dstLo n : Nat) : List UInt8 :=
  if dstLo ≤ srcLo ∨ dstLo ≥ srcLo + n then splice d dstLo (window d srcLo n) else copyUp (0 : UInt8) id d srcLo dstLo n

/-- **slice, same element type**: goja's mechanism equals ECMA-262's forward byte-by-byte copy with live reads (which is
what the model's `copyFwd` performs) for every relative position of source and target on the buffer. -/
theorem sliceMech_eq_spec (d : List UInt8) (srcLo dstLo n : Nat) (h : dstLo + n ≤ d.length) :
    sliceMech d srcLo dstLo n = copyUp (0 : UInt8) id d srcLo dstLo n := by
  unfold sliceMech
  split
  · rename_i hc
    have key := (overlapDir_eq_clone (0 : UInt8) id d srcLo dstLo n h).1 (by omega)
    rw [key]
    unfold cloneWrite
    rw [List.map_id, splice_eq_gsplice, window_eq_gwindow]
  · rfl

end GojaModel.C17
