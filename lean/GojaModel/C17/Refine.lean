/-
  C17 — byte-level refinement lemmas: what the memory primitives of the model do to the BYTES of a buffer, as pure
  functions on `List UInt8` (`splice`, `window`), and the pointwise characterisation used by the `bytes_eq_spec`
  theorems of Props.lean.
-/
import GojaModel.C17.Specs

namespace GojaModel.C17

/-! ## pure byte-array operations -/

/-- overwrite `d[lo .. lo+|xs|)` with `xs` (positions beyond the end are ignored) -/
def splice (d : List UInt8) (lo : Nat) : List UInt8 → List UInt8
  | [] => d
  | x :: xs => splice (d.set lo x) (lo + 1) xs

/-- `d[lo .. lo+n)` (0 beyond the end) -/
def window (d : List UInt8) (lo : Nat) : Nat → List UInt8
  | 0 => []
  | n + 1 => d.getD lo 0 :: window d (lo + 1) n

theorem splice_length (d : List UInt8) (lo : Nat) (xs : List UInt8) : (splice d lo xs).length = d.length := by
  induction xs generalizing d lo with
  | nil => rfl
  | cons x xs ih => simp [splice, ih]

theorem window_length (d : List UInt8) (lo n : Nat) : (window d lo n).length = n := by
  induction n generalizing lo with
  | zero => rfl
  | succ n ih => simp [window, ih]

theorem window_getD (d : List UInt8) (lo n i : Nat) (h : i < n) : (window d lo n).getD i 0 = d.getD (lo + i) 0 := by
  induction n generalizing lo i with
  | zero => omega
  | succ n ih =>
    cases i with
    | zero => simp [window]
    | succ i =>
      simp only [window, List.getD_cons_succ]
      rw [ih (lo + 1) i (by omega)]
      congr 1; omega

theorem getD_set (d : List UInt8) (i j : Nat) (x : UInt8) :
    (d.set i x).getD j 0 = if i = j ∧ j < d.length then x else d.getD j 0 := by
  simp only [List.getD_eq_getElem?_getD, List.getElem?_set]
  by_cases h : i = j
  · subst h
    by_cases h2 : i < d.length
    · simp [h2]
    · simp [h2, List.getElem?_eq_none (Nat.le_of_not_lt h2)]
  · simp [h]

/-- pointwise meaning of `splice` -/
theorem splice_getD (d : List UInt8) (lo : Nat) (xs : List UInt8) (j : Nat) :
    (splice d lo xs).getD j 0 =
      if lo ≤ j ∧ j < lo + xs.length ∧ j < d.length then xs.getD (j - lo) 0 else d.getD j 0 := by
  induction xs generalizing d lo with
  | nil =>
    have : ¬ (lo ≤ j ∧ j < lo + ([] : List UInt8).length ∧ j < d.length) := by simp; omega
    rw [if_neg this]; rfl
  | cons x xs ih =>
    simp only [splice, ih, List.length_cons, List.length_set, getD_set]
    by_cases h1 : lo = j
    · subst h1
      by_cases h2 : lo < d.length
      · have : ¬ (lo + 1 ≤ lo) := by omega
        simp [this, h2]
      · have : ¬ (lo + 1 ≤ lo) := by omega
        simp [this, h2]
    · by_cases h3 : lo + 1 ≤ j ∧ j < lo + 1 + xs.length ∧ j < d.length
      · have h4 : lo ≤ j ∧ j < lo + (xs.length + 1) ∧ j < d.length := by omega
        rw [if_pos h3, if_pos h4]
        have : j - lo = (j - (lo + 1)) + 1 := by omega
        rw [this, List.getD_cons_succ]
      · have h4 : ¬ (lo ≤ j ∧ j < lo + (xs.length + 1) ∧ j < d.length) := by omega
        rw [if_neg h3, if_neg h4]
        simp [h1]

/-! ## the state-level primitives in terms of `splice` / `window` -/

theorem data?_writeByte (s : State) (b i : Nat) (x : UInt8) (b' : Nat) :
    (s.writeByte b i x).data? b' = if b' = b then (s.data? b).map (fun d => d.set i x) else s.data? b' := by
  unfold State.writeByte
  cases h : s.data? b with
  | none =>
    show s.data? b' = _
    by_cases hb : b' = b
    · subst hb; simp [h]
    · simp [hb]
  | some d =>
    show (s.bufs.set b (some (d.set i x))).getD b' none = _
    rw [data?_set]
    have hlt : b < s.bufs.length := by
      unfold State.data? at h
      rw [List.getD_eq_getElem?_getD] at h
      by_cases hh : b < s.bufs.length
      · exact hh
      · rw [List.getElem?_eq_none (Nat.le_of_not_lt hh)] at h; simp at h
    by_cases hb : b' = b
    · subst hb; simp [hlt]
    · have : ¬ (b = b' ∧ b < s.bufs.length) := by intro hh; exact hb hh.1.symm
      rw [if_neg this, if_neg hb]; rfl

theorem data?_writeRange (b : Nat) : ∀ (xs : List UInt8) (s : State) (lo b' : Nat),
    (s.writeRange b lo xs).data? b' = if b' = b then (s.data? b).map (fun d => splice d lo xs) else s.data? b' := by
  intro xs
  induction xs with
  | nil => intro s lo b'; by_cases h : b' = b <;> simp [State.writeRange, splice, h]
  | cons x xs ih =>
    intro s lo b'
    simp only [State.writeRange]
    rw [ih, data?_writeByte, data?_writeByte]
    by_cases h : b' = b
    · subst h
      simp only [if_true]
      cases s.data? b' <;> simp [splice]
    · simp [h]

theorem data?_readByte (s : State) (b i b' : Nat) : (s.readByte b i).2.data? b' = s.data? b' := rfl

theorem readRange_data (b : Nat) : ∀ (n : Nat) (s : State) (lo b' : Nat), (s.readRange b lo n).2.data? b' = s.data? b' := by
  intro n
  induction n with
  | zero => intro s lo b'; rfl
  | succ n ih => intro s lo b'; simp only [State.readRange]; rw [ih]; rfl

/-- what a range read returns: the current bytes -/
theorem readRange_value (b : Nat) (d : List UInt8) : ∀ (n : Nat) (s : State) (lo : Nat), s.data? b = some d →
    (s.readRange b lo n).1 = window d lo n := by
  intro n
  induction n with
  | zero => intro s lo _; rfl
  | succ n ih =>
    intro s lo h
    simp only [State.readRange, window]
    rw [ih (s.readByte b lo).2 (lo + 1) (by rw [data?_readByte]; exact h)]
    simp [State.readByte, h]

/-! ## fill -/

/-- bytes after filling elements `[k, k+n)` of a view whose first byte is at `base` (element size `es`) with `raw` -/
theorem fillLoop_data {v : View} {raw : List UInt8} : ∀ (n : Nat) (s : State) (k : Nat) (d : List UInt8),
    s.data? v.buf = some d →
    ∃ d', (fillLoop s v raw k n).data? v.buf = some d' ∧ d'.length = d.length ∧
      (∀ b', b' ≠ v.buf → (fillLoop s v raw k n).data? b' = s.data? b') ∧
      ∀ j, d'.getD j 0 =
        if (v.offset + k) * v.kind.size ≤ j ∧ j < (v.offset + k + n) * v.kind.size ∧ j < d.length then
          (fit v.kind.size raw).getD ((j - (v.offset + k) * v.kind.size) % v.kind.size) 0
        else d.getD j 0 := by
  intro n
  induction n with
  | zero =>
    intro s k d h
    refine ⟨d, h, rfl, fun _ _ => rfl, fun j => ?_⟩
    have : ¬ ((v.offset + k) * v.kind.size ≤ j ∧ j < (v.offset + k + 0) * v.kind.size ∧ j < d.length) := by
      simp only [Nat.add_zero]; omega
    rw [if_neg this]
  | succ n ih =>
    intro s k d h
    have hes := Kind.size_pos v.kind
    -- first element
    have h1 : (s.writeElem v k raw).data? v.buf = some (splice d ((v.offset + k) * v.kind.size) (fit v.kind.size raw)) := by
      unfold State.writeElem; rw [data?_writeRange]; simp [h]
    obtain ⟨d', hd', hl, hother, hpt⟩ := ih (s.writeElem v k raw) (k + 1) _ h1
    refine ⟨d', hd', by rw [hl, splice_length], ?_, fun j => ?_⟩
    · intro b' hb'
      show (fillLoop (s.writeElem v k raw) v raw (k + 1) n).data? b' = _
      rw [hother b' hb']
      unfold State.writeElem; rw [data?_writeRange]; simp [hb']
    · rw [hpt j, splice_length, splice_getD, fit_length]
      have e1 : (v.offset + (k + 1)) * v.kind.size = (v.offset + k) * v.kind.size + v.kind.size := by
        rw [← Nat.add_assoc, Nat.add_mul, Nat.one_mul]
      have e2 : (v.offset + (k + 1) + n) * v.kind.size = (v.offset + k) * v.kind.size + v.kind.size + n * v.kind.size := by
        rw [Nat.add_mul, e1]
      have e3 : (v.offset + k + (n + 1)) * v.kind.size = (v.offset + k) * v.kind.size + v.kind.size + n * v.kind.size := by
        rw [Nat.add_mul (v.offset + k) (n + 1), Nat.add_mul n 1, Nat.one_mul]; omega
      rw [e1, e2, e3]
      generalize (v.offset + k) * v.kind.size = lo
      generalize n * v.kind.size = m
      generalize v.kind.size = es at hes
      by_cases c1 : lo + es ≤ j ∧ j < lo + es + m ∧ j < d.length
      · have c2 : lo ≤ j ∧ j < lo + es + m ∧ j < d.length := by omega
        rw [if_pos c1, if_pos c2]
        have : j - lo = (j - (lo + es)) + es := by omega
        rw [this, Nat.add_mod_right]
      · rw [if_neg c1]
        by_cases c3 : lo ≤ j ∧ j < lo + es ∧ j < d.length
        · have c2 : lo ≤ j ∧ j < lo + es + m ∧ j < d.length := by omega
          rw [if_pos c3, if_pos c2, Nat.mod_eq_of_lt (by omega)]
        · have c2 : ¬ (lo ≤ j ∧ j < lo + es + m ∧ j < d.length) := by omega
          rw [if_neg c3, if_neg c2]

/-! ## memmove -/

/-- bytes after `copy(dst[dlo:], src[slo:slo+n])` (read everything, then write): buffer `db` gets the OLD bytes of
`sb` spliced in; every other buffer is unchanged. -/
theorem move_data (s : State) (sb db slo dlo n : Nat) (ds : List UInt8) (hs : s.data? sb = some ds) (b' : Nat) :
    ((s.readRange sb slo n).2.writeRange db dlo (s.readRange sb slo n).1).data? b' =
      if b' = db then (s.data? db).map (fun d => splice d dlo (window ds slo n)) else s.data? b' := by
  rw [data?_writeRange, readRange_data, readRange_data, readRange_value sb ds n s slo hs]

/-! ## overlapping copies: the direction rule, for arbitrary units and an arbitrary per-unit conversion -/

section Direction
variable {α : Type} (dflt : α)

/-- overwrite `a[lo ..)` with `xs` -/
def gsplice (a : List α) (lo : Nat) : List α → List α
  | [] => a
  | x :: xs => gsplice (a.set lo x) (lo + 1) xs

def gwindow (a : List α) (lo : Nat) : Nat → List α
  | 0 => []
  | n + 1 => a.getD lo dflt :: gwindow a (lo + 1) n

/-- ascending live copy: `a[dst+i] := f a[src+i]` for i = 0, 1, … (ECMA-262 copyWithin direction +1 / goja's forward loops) -/
def copyUp (f : α → α) (a : List α) (src dst : Nat) : Nat → List α
  | 0 => a
  | n + 1 => copyUp f (a.set dst (f (a.getD src dflt))) (src + 1) (dst + 1) n

/-- descending live copy: i = n-1, …, 0 (ECMA-262 copyWithin direction −1 / goja's backward loops) -/
def copyDown (f : α → α) (a : List α) (src dst : Nat) : Nat → List α
  | 0 => a
  | n + 1 => copyDown f (a.set (dst + n) (f (a.getD (src + n) dflt))) src dst n

theorem ggetD_set (a : List α) (i j : Nat) (x : α) :
    (a.set i x).getD j dflt = if i = j ∧ j < a.length then x else a.getD j dflt := by
  simp only [List.getD_eq_getElem?_getD, List.getElem?_set]
  by_cases h : i = j
  · subst h
    by_cases h2 : i < a.length
    · simp [h2]
    · simp [h2, List.getElem?_eq_none (Nat.le_of_not_lt h2)]
  · simp [h]

theorem copyUp_length (f : α → α) (a : List α) (src dst n : Nat) : (copyUp dflt f a src dst n).length = a.length := by
  induction n generalizing a src dst with
  | zero => rfl
  | succ n ih => simp [copyUp, ih]

theorem copyDown_length (f : α → α) (a : List α) (src dst n : Nat) : (copyDown dflt f a src dst n).length = a.length := by
  induction n generalizing a with
  | zero => rfl
  | succ n ih => simp [copyDown, ih]

/-- ascending copy is a copy from a snapshot when the destination does not run ahead into unread source units -/
theorem copyUp_getD (f : α → α) : ∀ (n : Nat) (a : List α) (src dst : Nat), (dst ≤ src ∨ src + n ≤ dst) →
    dst + n ≤ a.length → ∀ j,
    (copyUp dflt f a src dst n).getD j dflt =
      if dst ≤ j ∧ j < dst + n then f (a.getD (src + (j - dst)) dflt) else a.getD j dflt := by
  intro n
  induction n with
  | zero => intro a src dst _ _ j; have : ¬ (dst ≤ j ∧ j < dst + 0) := by omega
            rw [if_neg this]; rfl
  | succ n ih =>
    intro a src dst hdir hlen j
    simp only [copyUp]
    rw [ih _ (src + 1) (dst + 1) (by omega) (by simp; omega) j]
    by_cases c1 : dst + 1 ≤ j ∧ j < dst + 1 + n
    · have c2 : dst ≤ j ∧ j < dst + (n + 1) := by omega
      rw [if_pos c1, if_pos c2, ggetD_set]
      have : ¬ (dst = src + 1 + (j - (dst + 1)) ∧ src + 1 + (j - (dst + 1)) < a.length) := by omega
      rw [if_neg this]
      congr 2; omega
    · rw [if_neg c1, ggetD_set]
      by_cases c3 : dst = j
      · subst c3
        have c2 : dst ≤ dst ∧ dst < dst + (n + 1) := by omega
        rw [if_pos c2, if_pos ⟨rfl, by omega⟩]; simp
      · have c2 : ¬ (dst ≤ j ∧ j < dst + (n + 1)) := by omega
        rw [if_neg c2, if_neg (by omega)]

/-- descending copy is a copy from a snapshot when the source starts before the destination -/
theorem copyDown_getD (f : α → α) : ∀ (n : Nat) (a : List α) (src dst : Nat), src < dst →
    dst + n ≤ a.length → ∀ j,
    (copyDown dflt f a src dst n).getD j dflt =
      if dst ≤ j ∧ j < dst + n then f (a.getD (src + (j - dst)) dflt) else a.getD j dflt := by
  intro n
  induction n with
  | zero => intro a src dst _ _ j; have : ¬ (dst ≤ j ∧ j < dst + 0) := by omega
            rw [if_neg this]; rfl
  | succ n ih =>
    intro a src dst hdir hlen j
    simp only [copyDown]
    rw [ih _ src dst hdir (by simp; omega) j]
    by_cases c1 : dst ≤ j ∧ j < dst + n
    · have c2 : dst ≤ j ∧ j < dst + (n + 1) := by omega
      rw [if_pos c1, if_pos c2, ggetD_set]
      have : ¬ (dst + n = src + (j - dst) ∧ src + (j - dst) < a.length) := by omega
      rw [if_neg this]
    · rw [if_neg c1, ggetD_set]
      by_cases c3 : dst + n = j
      · subst c3
        have c2 : dst ≤ dst + n ∧ dst + n < dst + (n + 1) := by omega
        rw [if_pos c2, if_pos ⟨rfl, by omega⟩]
        congr 2; omega
      · have c2 : ¬ (dst ≤ j ∧ j < dst + (n + 1)) := by omega
        rw [if_neg c2, if_neg (by omega)]

theorem gsplice_length (a : List α) (lo : Nat) (xs : List α) : (gsplice a lo xs).length = a.length := by
  induction xs generalizing a lo with
  | nil => rfl
  | cons x xs ih => simp [gsplice, ih]

theorem gwindow_length (a : List α) (lo n : Nat) : (gwindow dflt a lo n).length = n := by
  induction n generalizing lo with
  | zero => rfl
  | succ n ih => simp [gwindow, ih]

theorem gwindow_getD (a : List α) (lo n i : Nat) (h : i < n) : (gwindow dflt a lo n).getD i dflt = a.getD (lo + i) dflt := by
  induction n generalizing lo i with
  | zero => omega
  | succ n ih =>
    cases i with
    | zero => simp [gwindow]
    | succ i =>
      simp only [gwindow, List.getD_cons_succ]
      rw [ih (lo + 1) i (by omega)]
      congr 1; omega

theorem gsplice_getD (a : List α) (lo : Nat) (xs : List α) (j : Nat) :
    (gsplice a lo xs).getD j dflt =
      if lo ≤ j ∧ j < lo + xs.length ∧ j < a.length then xs.getD (j - lo) dflt else a.getD j dflt := by
  induction xs generalizing a lo with
  | nil =>
    have : ¬ (lo ≤ j ∧ j < lo + ([] : List α).length ∧ j < a.length) := by simp; omega
    rw [if_neg this]; rfl
  | cons x xs ih =>
    simp only [gsplice, ih, List.length_cons, List.length_set, ggetD_set]
    by_cases h1 : lo = j
    · subst h1
      by_cases h2 : lo < a.length
      · have : ¬ (lo + 1 ≤ lo) := by omega
        simp [this, h2]
      · have : ¬ (lo + 1 ≤ lo) := by omega
        simp [this, h2]
    · by_cases h3 : lo + 1 ≤ j ∧ j < lo + 1 + xs.length ∧ j < a.length
      · have h4 : lo ≤ j ∧ j < lo + (xs.length + 1) ∧ j < a.length := by omega
        rw [if_pos h3, if_pos h4]
        have : j - lo = (j - (lo + 1)) + 1 := by omega
        rw [this, List.getD_cons_succ]
      · have h4 : ¬ (lo ≤ j ∧ j < lo + (xs.length + 1) ∧ j < a.length) := by omega
        rw [if_neg h3, if_neg h4]
        simp [h1]

theorem ext_getD {a b : List α} (hl : a.length = b.length) (h : ∀ j, a.getD j dflt = b.getD j dflt) : a = b := by
  apply List.ext_getElem hl
  intro i h1 h2
  have := h i
  simp only [List.getD_eq_getElem?_getD, List.getElem?_eq_getElem h1, List.getElem?_eq_getElem h2, Option.getD_some] at this
  exact this

/-- clone-then-write: the result ECMA-262 prescribes when source and target share a buffer
(SetTypedArrayFromTypedArray clones the source; copyWithin's direction rule has the same effect) -/
def cloneWrite (f : α → α) (a : List α) (src dst n : Nat) : List α :=
  gsplice a dst ((gwindow dflt a src n).map f)

theorem cloneWrite_getD (f : α → α) (a : List α) (src dst n : Nat) (hlen : dst + n ≤ a.length) (j : Nat) :
    (cloneWrite dflt f a src dst n).getD j dflt =
      if dst ≤ j ∧ j < dst + n then f (a.getD (src + (j - dst)) dflt) else a.getD j dflt := by
  unfold cloneWrite
  rw [gsplice_getD, List.length_map, gwindow_length]
  by_cases c : dst ≤ j ∧ j < dst + n
  · rw [if_pos ⟨c.1, c.2, by omega⟩, if_pos c]
    rw [List.getD_eq_getElem?_getD, List.getElem?_map]
    have hw := gwindow_getD dflt a src n (j - dst) (by omega)
    rw [List.getD_eq_getElem?_getD] at hw
    have hlt : j - dst < (gwindow dflt a src n).length := by rw [gwindow_length]; omega
    rw [List.getElem?_eq_getElem hlt] at hw ⊢
    simp only [Option.map_some, Option.getD_some] at hw ⊢
    rw [hw]
  · rw [if_neg c, if_neg (by omega)]

/-- **direction rule** (goja's `curDst <= curSrc || curDst >= endSrc` test in `set`, ECMA-262's direction in
copyWithin): ascending live copy equals clone-then-write when the target starts at or before the source or after
its end; descending live copy equals it when the source starts before the target. -/
theorem overlapDir_eq_clone (f : α → α) (a : List α) (src dst n : Nat) (hlen : dst + n ≤ a.length) :
    ((dst ≤ src ∨ src + n ≤ dst) → copyUp dflt f a src dst n = cloneWrite dflt f a src dst n) ∧
    (src < dst → copyDown dflt f a src dst n = cloneWrite dflt f a src dst n) := by
  constructor
  · intro h
    apply ext_getD dflt
    · rw [copyUp_length]; unfold cloneWrite; rw [gsplice_length]
    · intro j; rw [copyUp_getD dflt f n a src dst h hlen j, cloneWrite_getD dflt f a src dst n hlen j]
  · intro h
    apply ext_getD dflt
    · rw [copyDown_length]; unfold cloneWrite; rw [gsplice_length]
    · intro j; rw [copyDown_getD dflt f n a src dst h hlen j, cloneWrite_getD dflt f a src dst n hlen j]

end Direction

/-- ECMA-262 %TypedArray%.prototype.copyWithin step 17 on the byte array: byte-by-byte, descending when
`fromByteIndex < toByteIndex < fromByteIndex + countBytes`, ascending otherwise -/
def specCopyWithinBytes (d : List UInt8) (fromB toB countB : Nat) : List UInt8 :=
  if fromB < toB ∧ toB < fromB + countB then copyDown (0 : UInt8) id d fromB toB countB
  else copyUp (0 : UInt8) id d fromB toB countB

theorem splice_eq_gsplice (d : List UInt8) (lo : Nat) (xs : List UInt8) : splice d lo xs = gsplice d lo xs := by
  induction xs generalizing d lo with
  | nil => rfl
  | cons x xs ih => simp [splice, gsplice, ih]

theorem window_eq_gwindow (d : List UInt8) (lo n : Nat) : window d lo n = gwindow (0 : UInt8) d lo n := by
  induction n generalizing lo with
  | zero => rfl
  | succ n ih => simp [window, gwindow, ih]

/-- memmove (what Go's `copy` does, and what the model's read-all-then-write does) is the ECMA-262 byte loop -/
theorem memmove_eq_specCopyWithin (d : List UInt8) (fromB toB countB : Nat) (h : toB + countB ≤ d.length) :
    splice d toB (window d fromB countB) = specCopyWithinBytes d fromB toB countB := by
  have key := overlapDir_eq_clone (0 : UInt8) id d fromB toB countB h
  unfold specCopyWithinBytes
  have hc : cloneWrite (0 : UInt8) id d fromB toB countB = splice d toB (window d fromB countB) := by
    unfold cloneWrite; rw [List.map_id, splice_eq_gsplice, window_eq_gwindow]
  split
  · rename_i c; rw [key.2 c.1, hc]
  · rename_i c; rw [key.1 (by omega), hc]

end GojaModel.C17
