/-
C17 — the hypotheses of the adversarial byte-result theorems are satisfiable: concrete runs (kernel-evaluated) in which
the adversary detaches OTHER buffers / the receiver and the results are as the theorems say.
-/
import GojaModel.C17.FreshBytes

namespace GojaModel.C17

def Res.isView (r : Res) (lo n : Nat) : Bool :=
  match r with
  | .view a b => a == lo && b == n
  | _ => false

/-- an INCONSISTENT comparator (call sequence that no sorting algorithm would need) still leaves a permutation:
`sort_any_comparator_perm` applies, the adversary detaches buffer 1 inside the first comparison. -/
theorem sort_any_comparator_witness :
    let s0 : State := { bufs := [some [7, 3, 1, 2, 9], some [5]], views := [⟨0, 1, 3, .u8⟩] }
    let v : View := ⟨0, 1, 3, .u8⟩
    let r := sortCalls s0 v {} [.less 0 1 [1], .swap 0 1, .swap 1 2, .less 2 0 [], .swap 2 0]
    r.1.data? 0 = some [7, 3, 2, 1, 9] ∧ r.1.data? 1 = none := by decide

/-- `%TypedArray%.of` with a user constructor that detaches buffer 1 and returns view 0; the second value's conversion
detaches buffer 2: the target (buffer 0) survives and holds the encoded values (`of_user_bytes_eq_spec`). -/
theorem of_user_witness :
    let s0 : State := { bufs := [some [9, 9, 9, 9], some [5], some [6]], views := [⟨0, 1, 3, .u8⟩] }
    let r := opOf s0 (.user 0 [1]) [⟨.int 258, []⟩, ⟨.int (-1), [2]⟩]
    r.1.isView 1 3 = true ∧ r.2.data? 0 = some [9, 2, 255, 9] ∧ r.2.data? 1 = none ∧ r.2.data? 2 = none := by decide

/-- `filter`: the callback for element 1 detaches the receiver's buffer; element 1 itself is still captured live,
element 2 is captured as zero bytes (`filter_captured`). -/
theorem filter_captured_witness :
    let s0 : State := { bufs := [some [4, 5, 6]], views := [⟨0, 0, 3, .u8⟩] }
    (filterLoop s0 ⟨0, 0, 3, .u8⟩ [true, true, true] 1 [0] 0 3 []).2 = [[4], [5], [0]] := by decide

/-- `map` into a species result that is a view of the receiver's own buffer, with a callback result conversion that
detaches another buffer (`map_species_bytes_eq_spec`). -/
theorem map_species_witness :
    let s0 : State := { bufs := [some [1, 2, 3, 4], some [5]], views := [⟨0, 0, 2, .u8⟩, ⟨0, 1, 3, .u8⟩] }
    let r := opMap s0 0 (some (1, [])) [⟨.int 10, [1]⟩, ⟨.int 20, []⟩]
    r.1.isView 1 3 = true ∧ r.2.data? 0 = some [1, 10, 20, 4] ∧ r.2.data? 1 = none := by decide

end GojaModel.C17
