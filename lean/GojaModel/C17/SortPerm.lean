/-
C17 — user-comparator sort: whatever the comparator answers, the view keeps a permutation of its elements.

`sort.Stable` drives `typedArraySortCtx` through `Less` / `Swap` (Model.lean `sortCalls`). `Sort.lean` proves the
calls are memory safe under a detaching adversary (`sort_protocol_safe`). This file proves the byte-level result
for the SAME machine: for ANY sequence of in-range `Less` / `Swap` calls (hence for any sorting algorithm and any
comparator, consistent or not) and any adversary, if the sorted buffer is still attached afterwards then the
raw elements of the view are a permutation of the original ones, the buffer keeps its length, and every byte
outside the view is unchanged.
-/
import GojaModel.C17.Bytes

namespace GojaModel.C17

theorem elemsOf_length (d : List UInt8) (v : View) : (elemsOf d v).length = v.length := by simp [elemsOf]

theorem elemsOf_getElem? (d : List UInt8) (v : View) (i : Nat) (h : i < v.length) :
    (elemsOf d v)[i]? = some (elemAt d v i) := by
  unfold elemsOf elemAt
  rw [List.getElem?_map, List.getElem?_range' h]
  simp

theorem elemsOf_getElem (d : List UInt8) (v : View) (i : Nat) (h : i < (elemsOf d v).length) :
    (elemsOf d v)[i] = elemAt d v i := by
  have := elemsOf_getElem? d v i (by rw [elemsOf_length] at h; exact h)
  rw [List.getElem?_eq_getElem h] at this
  exact Option.some.inj this

/-- one element store: the element list of the view changes in exactly that slot -/
theorem elemsOf_splice (d : List UInt8) (v : View) (k : Nat) (x : List UInt8) (hk : k < v.length)
    (hx : x.length = v.kind.size) (hb : v.hi ≤ d.length) :
    elemsOf (splice d ((v.offset + k) * v.kind.size) x) v = (elemsOf d v).set k x := by
  have hsz : ∀ m, (v.offset + (m + 1)) * v.kind.size = (v.offset + m) * v.kind.size + v.kind.size := by
    intro m; rw [← Nat.add_assoc, Nat.add_mul, Nat.one_mul]
  have hkb : (v.offset + k) * v.kind.size + v.kind.size ≤ d.length := by
    rw [← hsz]
    exact Nat.le_trans (Nat.mul_le_mul_right _ (by omega)) hb
  apply List.ext_getElem
  · simp [elemsOf_length]
  · intro m h1 h2
    have hm : m < v.length := by rw [elemsOf_length] at h1; exact h1
    rw [List.getElem_set, elemsOf_getElem, elemsOf_getElem]
    unfold elemAt
    by_cases hkm : k = m
    · subst hkm
      rw [if_pos rfl]
      have := window_splice_same d ((v.offset + k) * v.kind.size) x (by rw [hx]; exact hkb)
      rw [hx] at this
      exact this
    · rw [if_neg hkm]
      apply window_splice_outside
      rw [hx]
      by_cases hlt : m < k
      · left
        rw [← hsz]
        exact Nat.mul_le_mul_right _ (by omega)
      · right
        rw [← hsz]
        exact Nat.mul_le_mul_right _ (by omega)

/-- what the sort may have done to the view's buffer: nothing observable (detached), or a permutation of the
elements with everything outside the view untouched -/
def PermOf (d : List UInt8) (v : View) (s : State) : Prop :=
  s.data? v.buf = none ∨
  ∃ d', s.data? v.buf = some d' ∧ d'.length = d.length ∧ (elemsOf d' v).Perm (elemsOf d v) ∧
    ∀ lo n, (lo + n ≤ v.lo ∨ v.hi ≤ lo) → window d' lo n = window d lo n

theorem data?_detach_cases (s : State) (b b' : Nat) :
    (s.detach b).data? b' = none ∨ (s.detach b).data? b' = s.data? b' := by
  unfold State.detach State.data?
  rw [data?_set]
  split
  · left; rfl
  · right; rfl

theorem data?_applyDet_cases (det : List Nat) : ∀ (s : State) (b' : Nat),
    (s.applyDet det).data? b' = none ∨ (s.applyDet det).data? b' = s.data? b' := by
  unfold State.applyDet
  induction det with
  | nil => intro s b'; right; rfl
  | cons x xs ih =>
    intro s b'
    simp only [List.foldl_cons]
    rcases ih (s.detach x) b' with h | h
    · left; exact h
    · rcases data?_detach_cases s x b' with h' | h'
      · left; rw [h, h']
      · right; rw [h, h']

theorem PermOf.applyDet {d : List UInt8} {v : View} {s : State} (h : PermOf d v s) (det : List Nat) :
    PermOf d v (s.applyDet det) := by
  rcases data?_applyDet_cases det s v.buf with h' | h'
  · left; exact h'
  · unfold PermOf; rw [h']; exact h

theorem PermOf.of_data {d : List UInt8} {v : View} {s s' : State} (h : PermOf d v s)
    (e : s'.data? v.buf = s.data? v.buf) : PermOf d v s' := by
  unfold PermOf; rw [e]; exact h

theorem readElem_data (s : State) (v : View) (k b' : Nat) : (s.readElem v k).2.data? b' = s.data? b' :=
  readRange_data v.buf _ s _ b'

theorem writeElem_data (s : State) (v : View) (k : Nat) (x : List UInt8) :
    (s.writeElem v k x).data? v.buf =
      (s.data? v.buf).map (fun d => splice d ((v.offset + k) * v.kind.size) (fit v.kind.size x)) := by
  unfold State.writeElem
  rw [data?_writeRange, if_pos rfl]

theorem elem_range (v : View) (k : Nat) (hk : k < v.length) :
    v.lo ≤ (v.offset + k) * v.kind.size ∧ (v.offset + k) * v.kind.size + v.kind.size ≤ v.hi := by
  unfold View.lo View.hi
  have e : (v.offset + k) * v.kind.size + v.kind.size = (v.offset + (k + 1)) * v.kind.size := by
    rw [← Nat.add_assoc, Nat.add_mul (v.offset + k), Nat.one_mul]
  rw [e]
  exact ⟨Nat.mul_le_mul_right _ (by omega), Nat.mul_le_mul_right _ (by omega)⟩

/-- `Swap(i, j)` on the buffer: a transposition of two elements (or nothing observable when detached) -/
theorem swap_permOf (d : List UInt8) (v : View) (s : State) (i j : Nat) (hb : v.hi ≤ d.length)
    (hi : i < v.length) (hj : j < v.length) (h : PermOf d v s) :
    PermOf d v ((((s.readElem v i).2.readElem v j).2.writeElem v i ((s.readElem v i).2.readElem v j).1).writeElem v j
      (s.readElem v i).1) := by
  have hdata : ((s.readElem v i).2.readElem v j).2.data? v.buf = s.data? v.buf := by
    rw [readElem_data, readElem_data]
  rcases h with h | ⟨d', hd', hl, hp, hout⟩
  · left
    rw [writeElem_data, writeElem_data, hdata, h]; rfl
  · right
    have r1 : (s.readElem v i).1 = elemAt d' v i := (readElem_value s v d' i hd').1
    have r2 : ((s.readElem v i).2.readElem v j).1 = elemAt d' v j :=
      (readElem_value _ v d' j (by rw [readElem_data]; exact hd')).1
    have l1 : (elemAt d' v i).length = v.kind.size := window_length _ _ _
    have l2 : (elemAt d' v j).length = v.kind.size := window_length _ _ _
    have hb' : v.hi ≤ d'.length := by rw [hl]; exact hb
    refine ⟨splice (splice d' ((v.offset + i) * v.kind.size) (elemAt d' v j)) ((v.offset + j) * v.kind.size) (elemAt d' v i),
      ?_, ?_, ?_, ?_⟩
    · rw [writeElem_data, writeElem_data, hdata, hd', r1, r2, fit_eq_self _ _ l1, fit_eq_self _ _ l2]; rfl
    · rw [splice_length, splice_length, hl]
    · rw [elemsOf_splice _ v j _ hj l1 (by rw [splice_length]; exact hb'), elemsOf_splice _ v i _ hi l2 hb']
      have hi' : i < (elemsOf d' v).length := by rw [elemsOf_length]; exact hi
      have hj' : j < (elemsOf d' v).length := by rw [elemsOf_length]; exact hj
      rw [← elemsOf_getElem d' v i hi', ← elemsOf_getElem d' v j hj']
      exact (List.set_set_perm hi' hj').trans hp
    · intro lo n hlo
      have ei := elem_range v i hi
      have ej := elem_range v j hj
      rw [window_splice_outside _ _ _ _ _ (by rw [l1]; omega), window_splice_outside _ _ _ _ _ (by rw [l2]; omega)]
      exact hout lo n hlo

theorem sortCall_permOf (d : List UInt8) (v : View) (s : State) (c : SortCtx) (x : SortCall) (hb : v.hi ≤ d.length)
    (hx : x.inRange v.length) (h : PermOf d v s) : PermOf d v (sortCall s v c x).1 := by
  cases x with
  | less i j det =>
    unfold sortCall; dsimp only
    split
    · exact h
    · apply PermOf.applyDet
      apply h.of_data
      rw [readElem_data, readElem_data]
  | swap i j =>
    unfold sortCall; dsimp only
    split
    · exact h
    · exact swap_permOf d v s i j hb hx.1 hx.2 h

theorem sortCalls_permOf (d : List UInt8) (v : View) (hb : v.hi ≤ d.length) : ∀ (xs : List SortCall) (s : State) (c : SortCtx),
    (∀ x ∈ xs, x.inRange v.length) → PermOf d v s → PermOf d v (sortCalls s v c xs).1 := by
  intro xs
  induction xs with
  | nil => intro s c _ h; exact h
  | cons x xs ih =>
    intro s c hx h
    exact ih _ _ (fun y hy => hx y (List.mem_cons_of_mem _ hy))
      (sortCall_permOf d v s c x hb (hx x (List.mem_cons_self ..)) h)

/-- **user-comparator sort keeps a permutation**: for ANY sequence of in-range `Less` / `Swap` calls (any sorting
algorithm, any comparator answers, consistent or not) and any adversary detaching buffers inside the comparator: if the
sorted buffer is still attached afterwards, the view holds a permutation of its original raw elements, the buffer
keeps its length and every byte range outside the view is unchanged. -/
theorem sort_any_comparator_perm (s : State) (vi : Nat) (v : View) (calls : List SortCall) (d : List UInt8) (hi : Inv s)
    (hv : s.views[vi]? = some v) (hd : s.data? v.buf = some d) (hx : ∀ x ∈ calls, x.inRange v.length)
    (d' : List UInt8) (hd' : (sortCalls s v {} calls).1.data? v.buf = some d') :
    d'.length = d.length ∧ (elemsOf d' v).Perm (elemsOf d v) ∧
      ∀ lo n, (lo + n ≤ v.lo ∨ v.hi ≤ lo) → window d' lo n = window d lo n := by
  have hatt : s.attached v.buf = true := by unfold State.attached; rw [hd]; rfl
  have hb : v.hi ≤ d.length := by
    have := (hi.views v (List.mem_of_getElem? hv)).2 hatt
    unfold State.blen at this; rw [hd] at this; exact this
  have := sortCalls_permOf d v hb calls s {} hx (Or.inr ⟨d, hd, rfl, List.Perm.refl _, fun _ _ _ => rfl⟩)
  rcases this with h | ⟨d'', h1, h2, h3, h4⟩
  · rw [h] at hd'; cases hd'
  · rw [h1] at hd'; cases hd'
    exact ⟨h2, h3, h4⟩

/-! ## a consistent user comparator: the spec result is a sorted permutation -/

/-- writing a full element list into the view: the view then holds exactly that list -/
theorem writeElems_all (v : View) (s : State) (d : List UInt8) (S : List (List UInt8)) (hd : s.data? v.buf = some d)
    (hb : v.hi ≤ d.length) (hlen : S.length = v.length) (hmem : ∀ x ∈ S, x.length = v.kind.size) :
    ∃ d', (writeElems s v 0 S).data? v.buf = some d' ∧ d'.length = d.length ∧ elemsOf d' v = S ∧
      ∀ lo n, (lo + n ≤ v.lo ∨ v.hi ≤ lo) → window d' lo n = window d lo n := by
  obtain ⟨d', hd', hl, hel, hout⟩ := writeElems_elems v S s 0 d hd (by rw [hlen, Nat.add_zero]; exact hb)
  refine ⟨d', hd', hl, ?_, ?_⟩
  · apply List.ext_getElem
    · rw [elemsOf_length, hlen]
    · intro i h1 h2
      rw [elemsOf_getElem]
      have := hel i h2
      rw [Nat.add_zero] at this
      unfold elemAt
      rw [this]
      rw [List.getD_eq_getElem?_getD, List.getElem?_eq_getElem h2, Option.getD_some]
      exact fit_eq_self _ _ (hmem _ (List.getElem_mem _))
  · intro lo n hlo
    apply hout
    rw [hlen, Nat.add_zero]
    exact hlo

/-- the generator's consistent user comparator: descending by the default numeric order -/
def elemGreater (k : Kind) (a b : List UInt8) : Bool := numLess (decode k b) (decode k a)

theorem elemGreater_sorted_perm (k : Kind) (elems : List (List UInt8)) :
    (stableSort (elemGreater k) elems).Perm elems ∧ Sorted (elemGreater k) (stableSort (elemGreater k) elems) :=
  ⟨stableSort_perm _ _,
   stableSort_sorted (elemGreater k) (fun a b => numLess_asymm (decode k b) (decode k a))
     (fun a b c h1 h2 => numLess_trans (decode k c) (decode k b) (decode k a) h2 h1) elems⟩

/-- **sort with a consistent user comparator under a detaching adversary**: when the comparator (descending numeric
order; its first call detaches `det`) leaves the sorted buffer attached, the view afterwards holds the stable sort of
its raw elements by that comparator — a permutation, pairwise ordered by the comparator — the buffer keeps its length
and every byte range outside the view is unchanged. (When the comparator detaches the sorted buffer there are no bytes
left to speak of: `sort_protocol_safe`.) -/
theorem sort_cmp_bytes_sorted_perm (s : State) (vi : Nat) (v : View) (det : List Nat) (d : List UInt8) (hi : Inv s)
    (hv : s.views[vi]? = some v) (hd : s.data? v.buf = some d)
    (d' : List UInt8) (hd' : (opSort s vi (some det)).2.data? v.buf = some d') :
    d'.length = d.length ∧
      (elemsOf d' v).Perm (elemsOf d v) ∧
      (2 ≤ v.length → elemsOf d' v = stableSort (elemGreater v.kind) (elemsOf d v) ∧ Sorted (elemGreater v.kind) (elemsOf d' v)) ∧
      (∀ lo n, (lo + n ≤ v.lo ∨ v.hi ≤ lo) → window d' lo n = window d lo n) := by
  have hatt : s.attached v.buf = true := by unfold State.attached; rw [hd]; rfl
  have hb : v.hi ≤ d.length := by
    have := (hi.views v (List.mem_of_getElem? hv)).2 hatt
    unfold State.blen at this; rw [hd] at this; exact this
  unfold opSort at hd'; rw [hv] at hd'; dsimp only at hd'
  rw [if_neg (by rw [hatt]; decide)] at hd'
  by_cases hlen : v.length < 2
  · rw [if_pos hlen, hd] at hd'
    cases hd'
    exact ⟨rfl, List.Perm.refl _, fun h => by omega, fun _ _ _ => rfl⟩
  · rw [if_neg hlen] at hd'
    obtain ⟨rv, rd⟩ := readElems_eq v d v.length s 0 hd
    have hre : (readElems s v 0 v.length).1 = elemsOf d v := rv
    by_cases ha : (!((readElems s v 0 v.length).2.applyDet det).attached v.buf) = true
    · rw [if_pos ha] at hd'
      have : ((readElems s v 0 v.length).2.applyDet det).attached v.buf = true := by
        unfold State.attached; rw [hd']; rfl
      rw [this] at ha; cases ha
    · rw [if_neg ha] at hd'
      have hatt2 : ((readElems s v 0 v.length).2.applyDet det).attached v.buf = true := by simpa using ha
      have hd2 : ((readElems s v 0 v.length).2.applyDet det).data? v.buf = some d := by
        rcases data?_applyDet_cases det (readElems s v 0 v.length).2 v.buf with h | h
        · unfold State.attached at hatt2; rw [h] at hatt2; cases hatt2
        · rw [h, rd]; exact hd
      rw [hre] at hd'
      have hsp := elemGreater_sorted_perm v.kind (elemsOf d v)
      have hmem0 : ∀ x ∈ elemsOf d v, x.length = v.kind.size := by
        intro x hx
        unfold elemsOf at hx
        rw [List.mem_map] at hx
        obtain ⟨_, _, rfl⟩ := hx
        exact window_length _ _ _
      obtain ⟨d2, h1, h2, h3, h4⟩ := writeElems_all v _ d (stableSort (elemGreater v.kind) (elemsOf d v)) hd2 hb
        (by rw [stableSort_length, elemsOf_length]) (fun x hx => hmem0 x (hsp.1.mem_iff.mp hx))
      have e : d' = d2 := by
        have : some d' = some d2 := by rw [← hd', ← h1]; rfl
        exact Option.some.inj this
      subst e
      refine ⟨h2, by rw [h3]; exact hsp.1, fun _ => ⟨h3, by rw [h3]; exact hsp.2⟩, h4⟩

end GojaModel.C17
