/-
C17 — byte results of `filter` / `map` / `%TypedArray%.of` with the DEFAULT constructor under a detaching adversary:
the freshly allocated typed array holds exactly the captured elements (filter) / the encoded callback results (map) /
the encoded values (of, from), whatever the callbacks detached.
-/
import GojaModel.C17.FilterBytes

namespace GojaModel.C17

theorem getD_append_left' (a b : List UInt8) (j : Nat) (h : j < a.length) : (a ++ b).getD j 0 = a.getD j 0 := by
  rw [List.getD_eq_getElem?_getD, List.getD_eq_getElem?_getD, List.getElem?_append_left h]

theorem getD_append_right' (a b : List UInt8) (j : Nat) : (a ++ b).getD (a.length + j) 0 = b.getD j 0 := by
  rw [List.getD_eq_getElem?_getD, List.getD_eq_getElem?_getD, List.getElem?_append_right (by omega)]
  congr 2; omega

theorem window_append_left (a b : List UInt8) : window (a ++ b) 0 a.length = a := by
  apply ext_getD (0 : UInt8)
  · rw [window_length]
  · intro j
    by_cases hj : j < a.length
    · rw [window_getD _ _ _ _ hj, Nat.zero_add, getD_append_left' _ _ _ hj]
    · rw [getD_beyond _ _ (by rw [window_length]; omega), getD_beyond _ _ (by omega)]

theorem window_append_right (a b : List UInt8) (lo n : Nat) : window (a ++ b) (a.length + lo) n = window b lo n := by
  apply ext_getD (0 : UInt8)
  · rw [window_length, window_length]
  · intro j
    by_cases hj : j < n
    · rw [window_getD _ _ _ _ hj, window_getD _ _ _ _ hj, Nat.add_assoc, getD_append_right']
    · rw [getD_beyond _ _ (by rw [window_length]; omega), getD_beyond _ _ (by rw [window_length]; omega)]

/-- element `i` of a freshly laid out buffer -/
theorem freshBytes_window (sz : Nat) : ∀ (elems : List (List UInt8)) (i : Nat), i < elems.length →
    window (freshBytes sz elems) (i * sz) sz = fit sz (elems.getD i []) := by
  intro elems
  induction elems with
  | nil => intro i h; simp at h
  | cons x xs ih =>
    intro i h
    cases i with
    | zero =>
      simp only [freshBytes, Nat.zero_mul, List.getD_cons_zero]
      have := window_append_left (fit sz x) (freshBytes sz xs)
      rw [fit_length] at this
      exact this
    | succ i =>
      simp only [freshBytes, List.getD_cons_succ]
      have e : (i + 1) * sz = (fit sz x).length + i * sz := by rw [fit_length, Nat.succ_mul]; omega
      rw [e, window_append_right]
      exact ih i (by simpa using h)

/-- the elements of a typed array allocated by the default constructor -/
theorem elemsOf_freshBytes (kind : Kind) (elems : List (List UInt8)) (nb : Nat) :
    elemsOf (freshBytes kind.size elems) ⟨nb, 0, elems.length, kind⟩ = elems.map (fit kind.size) := by
  apply List.ext_getElem
  · rw [elemsOf_length, List.length_map]
  · intro i h1 h2
    have hi : i < elems.length := by rw [List.length_map] at h2; exact h2
    rw [elemsOf_getElem]
    unfold elemAt
    dsimp only
    rw [Nat.zero_add, freshBytes_window _ _ _ hi, List.getElem_map,
      List.getD_eq_getElem?_getD, List.getElem?_eq_getElem hi, Option.getD_some]

/-- what `pushFresh` adds: a new buffer with the laid out elements and a view over all of it -/
theorem pushFresh_result (s : State) (kind : Kind) (elems : List (List UInt8)) :
    (pushFresh s kind elems).data? s.bufs.length = some (freshBytes kind.size elems) ∧
      (pushFresh s kind elems).views = s.views ++ [⟨s.bufs.length, 0, elems.length, kind⟩] ∧
      ∀ b, b < s.bufs.length → (pushFresh s kind elems).data? b = s.data? b := by
  have e : ∀ b, (pushFresh s kind elems).data? b =
      ({ s with bufs := s.bufs ++ [some (freshBytes kind.size elems)] } : State).data? b := fun _ => rfl
  refine ⟨?_, rfl, ?_⟩
  · rw [e, data?_pushBuf, if_neg (Nat.lt_irrefl _), if_pos rfl]
  · intro b hb
    rw [e, data?_pushBuf, if_pos hb]

/-- **`filter`, default constructor, under an adversary**: the result is a new typed array over a new buffer whose
elements are exactly the captured elements of `filter_captured`; every existing buffer is as the callbacks left it. -/
theorem filter_fresh_bytes_eq_spec (s : State) (vi : Nat) (keep : List Bool) (detAt : Nat) (det : List Nat)
    (v : View) (d : List UInt8) (hv : s.views[vi]? = some v) (hd : s.data? v.buf = some d) :
    let kept := ((List.range' 0 v.length).filter (fun i => keep.getD i false)).map (captured d v detAt det)
    let r := opFilter s vi keep detAt det none
    ∃ nb, r.1 = .view 0 kept.length ∧ r.2.views.getLast? = some ⟨nb, 0, kept.length, v.kind⟩ ∧
      r.2.data? nb = some (freshBytes v.kind.size kept) ∧
      elemsOf (freshBytes v.kind.size kept) ⟨nb, 0, kept.length, v.kind⟩ = kept.map (fit v.kind.size) := by
  intro kept r
  have ha : s.attached v.buf = true := by unfold State.attached; rw [hd]; rfl
  have hcap := filter_captured s v keep detAt det d hd
  have hr : r = (.view 0 kept.length, pushFresh (filterLoop s v keep detAt det 0 v.length []).1 v.kind kept) := by
    show opFilter s vi keep detAt det none = _
    unfold opFilter; rw [hv]; dsimp only
    have c0 : speciesBad s none = false := rfl
    rw [c0, ha]
    simp only [Bool.false_eq_true, if_false, Bool.not_true]
    rw [hcap]
  obtain ⟨p1, p2, _⟩ := pushFresh_result (filterLoop s v keep detAt det 0 v.length []).1 v.kind kept
  refine ⟨(filterLoop s v keep detAt det 0 v.length []).1.bufs.length, ?_, ?_, ?_, elemsOf_freshBytes _ _ _⟩
  · rw [hr]
  · rw [hr]; dsimp only; rw [p2]; simp
  · rw [hr]; exact p1

theorem convVals_acc (kind : Kind) : ∀ (vals : List VArg) (s : State) (acc : List (List UInt8)),
    (convVals s kind vals acc).1 = .ok → (convVals s kind vals acc).2.2 = acc ++ vals.map (encRaw kind) := by
  intro vals
  induction vals with
  | nil => intro s acc _; simp [convVals]
  | cons a as ih =>
    intro s acc hok
    unfold convVals at hok ⊢; dsimp only at hok ⊢
    cases henc : encode kind a.num with
    | none => rw [henc] at hok; dsimp only at hok; cases hok
    | some raw =>
      rw [henc] at hok; dsimp only at hok ⊢
      rw [ih _ _ hok]
      simp [encRaw, henc]

/-- **`%TypedArray%.of` / `.from`, built-in constructor, under an adversary**: when every value converts, the result is a
new typed array over a new buffer whose elements are exactly the encoded values — whatever the conversions detached. -/
theorem of_builtin_bytes_eq_spec (s : State) (kind : Kind) (vals : List VArg)
    (hok : (convVals s kind vals []).1 = .ok) :
    let raws := vals.map (encRaw kind)
    let r := opOf s (.builtin kind) vals
    ∃ nb, r.1 = .view 0 vals.length ∧ r.2.views.getLast? = some ⟨nb, 0, raws.length, kind⟩ ∧
      r.2.data? nb = some (freshBytes kind.size raws) ∧
      elemsOf (freshBytes kind.size raws) ⟨nb, 0, raws.length, kind⟩ = raws.map (fit kind.size) := by
  intro raws r
  have hacc := convVals_acc kind vals s [] hok
  rw [List.nil_append] at hacc
  have hr : r = (.view 0 vals.length, pushFresh (convVals s kind vals []).2.1 kind raws) := by
    show opOf s (.builtin kind) vals = _
    unfold opOf; dsimp only
    rw [hok]
    simp only [Res.isOk, if_true]
    rw [hacc]
  obtain ⟨p1, p2, _⟩ := pushFresh_result (convVals s kind vals []).2.1 kind raws
  refine ⟨(convVals s kind vals []).2.1.bufs.length, ?_, ?_, ?_, elemsOf_freshBytes _ _ _⟩
  · rw [hr]
  · rw [hr]; dsimp only; rw [p2]; simp
  · rw [hr]; exact p1

theorem mapLoopFresh_acc (v : View) (vals : List VArg) : ∀ (n : Nat) (s : State) (k : Nat) (acc : List (List UInt8)),
    (mapLoopFresh s v vals k n acc).1 = .ok →
    (mapLoopFresh s v vals k n acc).2.2 = acc ++ (List.range' k n).map (fun i => encRaw v.kind (valAt vals i)) := by
  intro n
  induction n with
  | zero => intro s k acc _; simp [mapLoopFresh]
  | succ n ih =>
    intro s k acc hok
    unfold mapLoopFresh at hok ⊢; dsimp only at hok ⊢
    cases henc : encode v.kind (valAt vals k).num with
    | none => rw [henc] at hok; dsimp only at hok; cases hok
    | some raw =>
      rw [henc] at hok; dsimp only at hok ⊢
      rw [ih _ _ _ hok]
      simp [List.range'_succ, encRaw, henc]

/-- **`map`, default constructor, under an adversary**: when every callback result converts, the result is a new typed
array over a new buffer whose elements are exactly the encoded callback results — whatever the callbacks detached
(including the receiver's own buffer). -/
theorem map_fresh_bytes_eq_spec (s : State) (vi : Nat) (v : View) (vals : List VArg) (hv : s.views[vi]? = some v)
    (ha : s.attached v.buf = true) (hok : (mapLoopFresh s v vals 0 v.length []).1 = .ok) :
    let raws := (List.range' 0 v.length).map (fun i => encRaw v.kind (valAt vals i))
    let r := opMap s vi none vals
    ∃ nb, r.1 = .view 0 v.length ∧ r.2.views.getLast? = some ⟨nb, 0, raws.length, v.kind⟩ ∧
      r.2.data? nb = some (freshBytes v.kind.size raws) ∧
      elemsOf (freshBytes v.kind.size raws) ⟨nb, 0, raws.length, v.kind⟩ = raws.map (fit v.kind.size) := by
  intro raws r
  have hacc := mapLoopFresh_acc v vals v.length s 0 [] hok
  rw [List.nil_append] at hacc
  have hr : r = (.view 0 v.length, pushFresh (mapLoopFresh s v vals 0 v.length []).2.1 v.kind raws) := by
    show opMap s vi none vals = _
    unfold opMap; rw [hv]; dsimp only
    have c0 : speciesBad s none = false := rfl
    rw [c0, ha, hok]
    simp only [Bool.false_eq_true, if_false, Bool.not_true, Res.isOk, if_true]
    rw [hacc]
  obtain ⟨p1, p2, _⟩ := pushFresh_result (mapLoopFresh s v vals 0 v.length []).2.1 v.kind raws
  refine ⟨(mapLoopFresh s v vals 0 v.length []).2.1.bufs.length, ?_, ?_, ?_, elemsOf_freshBytes _ _ _⟩
  · rw [hr]
  · rw [hr]; dsimp only; rw [p2]; simp
  · rw [hr]; exact p1

end GojaModel.C17
