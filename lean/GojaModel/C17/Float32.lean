/-
  C17 — Float32Array stores: `f64ToF32` rounds to the NEAREST float32, ties to even.
    * `rneShift_nearest`      the rounding primitive: |q·2^k − sig| ≤ 2^(k−1), ties give an even q
    * `f32_store_load_normal` for a double in float32's normal range, storing it and loading it back gives the double
                              whose significand is exactly the rounded one (so the stored float32 IS q·2^(e−1075+29))
    * `f64ToF32_subnormal`, `f64ToF32_overflow`  closed forms in float32's subnormal range / on overflow
-/
import GojaModel.C17.Model

namespace GojaModel.C17

/-- **round to nearest, ties to even**: with `q = rneShift sig k` (k ≥ 1): `2·|q·2^k − sig| ≤ 2^k`, and in the two tie cases
`q` is even. -/
theorem rneShift_nearest (sig k : Nat) (hk : 1 ≤ k) :
    2 * (rneShift sig k * 2 ^ k) ≤ 2 * sig + 2 ^ k ∧ 2 * sig ≤ 2 * (rneShift sig k * 2 ^ k) + 2 ^ k ∧
    ((2 * (rneShift sig k * 2 ^ k) = 2 * sig + 2 ^ k ∨ 2 * sig = 2 * (rneShift sig k * 2 ^ k) + 2 ^ k) → rneShift sig k % 2 = 0) ∧
    sig / 2 ^ k ≤ rneShift sig k ∧ rneShift sig k ≤ sig / 2 ^ k + 1 := by
  have hk0 : ¬ (k == 0) = true := by simp; omega
  have hr : rneShift sig k = (if sig % 2 ^ k > 2 ^ (k - 1) || (sig % 2 ^ k == 2 ^ (k - 1) && sig / 2 ^ k % 2 == 1)
      then sig / 2 ^ k + 1 else sig / 2 ^ k) := by
    unfold rneShift; rw [if_neg hk0]
  have hP : 2 ^ k = 2 * 2 ^ (k - 1) := by
    have : k = (k - 1) + 1 := by omega
    rw [this, Nat.pow_succ]; simp; omega
  have hdm := Nat.div_add_mod sig (2 ^ k)
  have hlt := Nat.mod_lt sig (Nat.pow_pos (n := k) (by decide : 0 < 2))
  have hsucc : (sig / 2 ^ k + 1) * 2 ^ k = sig / 2 ^ k * 2 ^ k + 2 ^ k := Nat.succ_mul _ _
  rw [Nat.mul_comm] at hdm
  rw [hr]
  generalize sig / 2 ^ k = q at *
  generalize sig % 2 ^ k = rem at *
  generalize 2 ^ (k - 1) = half at *
  generalize 2 ^ k = P at *
  generalize hX : q * P = X at *
  have hmod2 : q % 2 = 0 ∨ q % 2 = 1 := by omega
  by_cases c : (decide (rem > half) || (rem == half && q % 2 == 1)) = true
  · rw [if_pos c, hsucc]
    simp only [Bool.or_eq_true, decide_eq_true_eq, Bool.and_eq_true, beq_iff_eq] at c
    refine ⟨by omega, by omega, fun h => by omega, by omega, by omega⟩
  · rw [if_neg c, hX]
    simp only [Bool.or_eq_true, decide_eq_true_eq, Bool.and_eq_true, beq_iff_eq, not_or, not_and] at c
    refine ⟨by omega, by omega, fun h => by omega, by omega, by omega⟩

/-- a double from its fields -/
def mkF64 (s : Bool) (e m : Nat) : Nat := (if s then 2 ^ 63 else 0) + e * 2 ^ 52 + m

theorem f64_fields (s : Bool) (e m : Nat) (he : e < 2048) (hm : m < 2 ^ 52) :
    f64Sign (mkF64 s e m) = s ∧ f64Exp (mkF64 s e m) = e ∧ f64Man (mkF64 s e m) = m := by
  simp only [Nat.reducePow] at hm
  cases s <;> simp only [f64Sign, f64Exp, f64Man, mkF64, Nat.reducePow, Bool.false_eq_true, if_false, if_true] <;>
    refine ⟨?_, ?_, ?_⟩ <;> first | omega | (simp; omega)

theorem rneShift29_bounds (m : Nat) (hm : m < 2 ^ 52) :
    2 ^ 23 ≤ rneShift (m + 2 ^ 52) 29 ∧ rneShift (m + 2 ^ 52) 29 ≤ 2 ^ 24 := by
  obtain ⟨_, _, _, h4, h5⟩ := rneShift_nearest (m + 2 ^ 52) 29 (by decide)
  simp only [Nat.reducePow] at *
  omega

/-- closed form of the conversion in float32's normal range (no overflow) -/
theorem f64ToF32_normal (s : Bool) (e m : Nat) (he1 : 896 < e) (he2 : e < 2047) (hm : m < 2 ^ 52)
    (hno : (e - 897) * 2 ^ 23 + rneShift (m + 2 ^ 52) 29 < 0x7f800000) :
    f64ToF32 (mkF64 s e m) = (if s then 2 ^ 31 else 0) + ((e - 897) * 2 ^ 23 + rneShift (m + 2 ^ 52) 29) := by
  obtain ⟨f1, f2, f3⟩ := f64_fields s e m (by omega) hm
  unfold f64ToF32
  simp only [f1, f2, f3]
  have c1 : ¬ (e == 2047) = true := by simp; omega
  have c2 : ¬ (e == 0) = true := by simp; omega
  have c3 : e > 896 := he1
  have c4 : ¬ ((e - 897) * 2 ^ 23 + rneShift (m + 2 ^ 52) 29 ≥ 0x7f800000) := by omega
  rw [if_neg c1, if_neg c2, if_pos c3, if_neg c4]

/-- on overflow the result is ±∞ -/
theorem f64ToF32_overflow (s : Bool) (e m : Nat) (he1 : 896 < e) (he2 : e < 2047) (hm : m < 2 ^ 52)
    (hov : (e - 897) * 2 ^ 23 + rneShift (m + 2 ^ 52) 29 ≥ 0x7f800000) :
    f64ToF32 (mkF64 s e m) = (if s then 2 ^ 31 else 0) + 0x7f800000 := by
  obtain ⟨f1, f2, f3⟩ := f64_fields s e m (by omega) hm
  unfold f64ToF32
  simp only [f1, f2, f3]
  have c1 : ¬ (e == 2047) = true := by simp; omega
  have c2 : ¬ (e == 0) = true := by simp; omega
  rw [if_neg c1, if_neg c2, if_pos he1, if_pos hov]

/-- in float32's subnormal range the result is the rounded multiple of 2^−149 (`k = 926 − e ≥ 30`) -/
theorem f64ToF32_subnormal (s : Bool) (e m : Nat) (he1 : 0 < e) (he2 : e ≤ 896) (hm : m < 2 ^ 52) :
    f64ToF32 (mkF64 s e m) = (if s then 2 ^ 31 else 0) + rneShift (m + 2 ^ 52) (926 - e) := by
  obtain ⟨f1, f2, f3⟩ := f64_fields s e m (by omega) hm
  unfold f64ToF32
  simp only [f1, f2, f3]
  have c1 : ¬ (e == 2047) = true := by simp; omega
  have c2 : ¬ (e == 0) = true := by simp; omega
  have c3 : ¬ e > 896 := by omega
  rw [if_neg c1, if_neg c2, if_neg c3]

/-- widening a normal float32 -/
theorem f32ToF64_normal (s : Bool) (e32 m32 : Nat) (h1 : 0 < e32) (h2 : e32 < 255) (hm : m32 < 2 ^ 23) :
    f32ToF64 ((if s then 2 ^ 31 else 0) + e32 * 2 ^ 23 + m32) = mkF64 s (e32 + 896) (m32 * 2 ^ 29) := by
  simp only [Nat.reducePow] at hm
  unfold f32ToF64 mkF64
  cases s <;> simp only [Nat.reducePow, Bool.false_eq_true, if_false, if_true]
  · have e1 : (0 + e32 * 8388608 + m32) / 2147483648 % 2 = 0 := by omega
    have e2 : (0 + e32 * 8388608 + m32) / 8388608 % 256 = e32 := by omega
    have e3 : (0 + e32 * 8388608 + m32) % 8388608 = m32 := by omega
    simp only [e1, e2, e3]
    have c1 : ¬ (e32 == 255) = true := by simp; omega
    have c2 : ¬ (e32 == 0) = true := by simp; omega
    simp [c1, c2]
  · have e1 : (2147483648 + e32 * 8388608 + m32) / 2147483648 % 2 = 1 := by omega
    have e2 : (2147483648 + e32 * 8388608 + m32) / 8388608 % 256 = e32 := by omega
    have e3 : (2147483648 + e32 * 8388608 + m32) % 8388608 = m32 := by omega
    simp only [e1, e2, e3]
    have c1 : ¬ (e32 == 255) = true := by simp; omega
    have c2 : ¬ (e32 == 0) = true := by simp; omega
    simp [c1, c2]

/-- **Float32Array store/load in the normal range**: with `q = rneShift sig 29` (nearest-even by `rneShift_nearest`), the
float32 stored for the double `(s, e, m)` widens back to the double whose significand is exactly `q·2^29` at the same
exponent (or `2^52` at exponent `e+1` when rounding carried): the stored value is `q·2^(e−1075+29)`, the float32 nearest to
`sig·2^(e−1075)`. -/
theorem f32_store_load_normal (s : Bool) (e m q : Nat) (he1 : 896 < e) (he2 : e < 2047) (hm : m < 2 ^ 52)
    (hq : q = rneShift (m + 2 ^ 52) 29) (hno : (e - 897) * 2 ^ 23 + q < 0x7f800000) :
    (q < 2 ^ 24 → f32ToF64 (f64ToF32 (mkF64 s e m)) = mkF64 s e ((q - 2 ^ 23) * 2 ^ 29)) ∧
    (q = 2 ^ 24 → f32ToF64 (f64ToF32 (mkF64 s e m)) = mkF64 s (e + 1) 0) := by
  have hb := rneShift29_bounds m hm
  rw [← hq] at hb
  have h32 := f64ToF32_normal s e m he1 he2 hm (by rw [← hq]; exact hno)
  rw [← hq] at h32
  simp only [Nat.reducePow] at hb hno
  constructor
  · intro hlt
    simp only [Nat.reducePow] at hlt
    have hw := f32ToF64_normal s (e - 896) (q - 8388608) (by omega) (by omega) (by simp only [Nat.reducePow]; omega)
    have hform : (if s = true then 2 ^ 31 else 0) + ((e - 897) * 2 ^ 23 + q) =
        (if s = true then 2 ^ 31 else 0) + (e - 896) * 2 ^ 23 + (q - 8388608) := by
      simp only [Nat.reducePow]; omega
    have he : e - 896 + 896 = e := by omega
    rw [h32, hform, hw, he]
  · intro heq
    simp only [Nat.reducePow] at heq
    have hw := f32ToF64_normal s (e - 895) 0 (by omega) (by omega) (Nat.pow_pos (by decide))
    have hform : (if s = true then 2 ^ 31 else 0) + ((e - 897) * 2 ^ 23 + q) =
        (if s = true then 2 ^ 31 else 0) + (e - 895) * 2 ^ 23 + 0 := by
      simp only [Nat.reducePow]; omega
    have he : e - 895 + 896 = e + 1 := by omega
    rw [h32, hform, hw, he, Nat.zero_mul]

/-- widening a SUBNORMAL float32 `m·2^−149` (`0 < m < 2^23`, `p = ⌊log2 m⌋`): the double has exponent field `p + 874` and
significand `m·2^(52−p)`, i.e. exactly the value `m·2^(52−p)·2^(p+874−1075) = m·2^−149`. -/
theorem f32ToF64_subnormal (s : Bool) (m : Nat) (h0 : 0 < m) (hm : m < 2 ^ 23) :
    f32ToF64 ((if s then 2 ^ 31 else 0) + m) = mkF64 s (Nat.log2 m + 874) ((m - 2 ^ Nat.log2 m) * 2 ^ (52 - Nat.log2 m)) ∧
    (m - 2 ^ Nat.log2 m) * 2 ^ (52 - Nat.log2 m) + 2 ^ 52 = m * 2 ^ (52 - Nat.log2 m) ∧
    (m - 2 ^ Nat.log2 m) * 2 ^ (52 - Nat.log2 m) < 2 ^ 52 := by
  have hne : m ≠ 0 := by omega
  have hlo := Nat.log2_self_le hne
  have hhi := Nat.lt_log2_self (n := m)
  have hp : Nat.log2 m < 23 := (Nat.log2_lt hne).mpr hm
  generalize hpdef : Nat.log2 m = p at *
  have hpow : 2 ^ p * 2 ^ (52 - p) = 2 ^ 52 := by rw [← Nat.pow_add]; congr 1; omega
  have hsplit : (m - 2 ^ p) * 2 ^ (52 - p) + 2 ^ p * 2 ^ (52 - p) = m * 2 ^ (52 - p) := by
    rw [← Nat.add_mul]; congr 1; omega
  have hlt : (m - 2 ^ p) * 2 ^ (52 - p) < 2 ^ p * 2 ^ (52 - p) :=
    Nat.mul_lt_mul_of_pos_right (by rw [Nat.pow_succ] at hhi; omega) (Nat.pow_pos (by decide))
  refine ⟨?_, by rw [← hpow]; exact hsplit, by rw [← hpow]; exact hlt⟩
  simp only [Nat.reducePow] at hm
  unfold f32ToF64 mkF64
  cases s <;> simp only [Nat.reducePow, Bool.false_eq_true, if_false, if_true]
  · have e1 : (0 + m) / 2147483648 % 2 = 0 := by omega
    have e2 : (0 + m) / 8388608 % 256 = 0 := by omega
    have e3 : (0 + m) % 8388608 = m := by omega
    simp only [e1, e2, e3]
    have c2 : ¬ (m == 0) = true := by simp; omega
    simp [c2, hpdef]
  · have e1 : (2147483648 + m) / 2147483648 % 2 = 1 := by omega
    have e2 : (2147483648 + m) / 8388608 % 256 = 0 := by omega
    have e3 : (2147483648 + m) % 8388608 = m := by omega
    simp only [e1, e2, e3]
    have c2 : ¬ (m == 0) = true := by simp; omega
    simp [c2, hpdef]

end GojaModel.C17
