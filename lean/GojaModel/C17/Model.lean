/-
  C17 — typed arrays / DataViews never leave their buffer; bytes match spec.

  Executable model (core Lean only).  A buffer is `Option (List UInt8)` (`none` = detached); a view is
  `(buf, offset, length, kind)` with offset/length in ELEMENTS exactly as `typedArrayObject` stores them
  (typedarrays.go:72); a DataView is `(buf, byteOffset, byteLen)` (typedarrays.go:41).  Every byte the model
  reads or writes goes through `State.readByte` / `State.writeByte`, which append a `Touch` to the log with
  `ok := buffer attached ∧ idx < |buf|` evaluated AT THE TIME of the touch.  Callback points (argument
  coercions `valueOf`, species constructors, sort comparators) are the places where `applyDet` runs: the
  adversary detaches any set of buffers there.

  Mechanism-level parts (same checks, same order as the Go source; file:line cited) are the index / range
  decisions; the byte semantics are the ECMA-262 algorithms on the byte array.
-/
namespace GojaModel.C17

/-! ## element kinds -/

inductive Kind
  | u8 | u8c | i8 | u16 | i16 | u32 | i32 | f32 | f64 | bi64 | bu64
  deriving DecidableEq, Repr, Inhabited

/-- `elemSize` (typedarrays.go:1008-1051). -/
def Kind.size : Kind → Nat
  | .u8 | .u8c | .i8 => 1
  | .u16 | .i16 => 2
  | .u32 | .i32 | .f32 => 4
  | .f64 | .bi64 | .bu64 => 8

def Kind.isBig : Kind → Bool
  | .bi64 | .bu64 => true
  | _ => false

/-! ## numbers (only what the codecs need; independent of C05's model) -/

/-- A JS numeric value as the typed-array code sees it. `int` = the result of reading an integer element,
`dbl` = IEEE-754 binary64 bit pattern, `big` = BigInt. -/
inductive Num
  | int (i : Int)
  | dbl (bits : Nat)
  | big (i : Int)
  /-- `undefined` (what a callback returns when the generator supplied no value): ToNumber ↦ NaN, ToBigInt ↦ TypeError -/
  | undef
  deriving DecidableEq, Repr, Inhabited

def f64Sign (b : Nat) : Bool := b / 2 ^ 63 % 2 == 1
def f64Exp (b : Nat) : Nat := b / 2 ^ 52 % 2048
def f64Man (b : Nat) : Nat := b % 2 ^ 52
def f64IsNaN (b : Nat) : Bool := f64Exp b == 2047 && f64Man b != 0

/-- goja's NaN (`_NaN = valueFloat(math.NaN())`, value.go:36): every NaN that passes through a `Value`
is this bit pattern (floatToValue, vm.go:416).  ECMA-262 leaves the NaN encoding implementation-chosen. -/
def nanBits : Nat := 0x7ff8000000000001

/-- |trunc(x)| for a finite double. -/
def f64TruncMag (b : Nat) : Nat :=
  let e := f64Exp b
  if e == 0 then 0 else
  let sig := f64Man b + 2 ^ 52
  if e ≥ 1075 then sig * 2 ^ (e - 1075) else sig / 2 ^ (1075 - e)

/-- ECMA-262 ToUint8/16/32 (7.1.6 ff.): truncate, then modulo 2^n; NaN and ±∞ ↦ 0.  Result as the
unsigned n-bit pattern (ToIntN has the same bit pattern). -/
def f64ToUintN (n : Nat) (b : Nat) : Nat :=
  if f64Exp b == 2047 then 0 else
  let mag := f64TruncMag b % 2 ^ n
  if f64Sign b then (2 ^ n - mag) % 2 ^ n else mag

/-- ECMA-262 ToUint8Clamp (7.1.12): clamp to [0,255], round half to even. -/
def f64ToU8Clamp (b : Nat) : Nat :=
  if f64IsNaN b then 0 else
  if f64Sign b then 0 else
  let e := f64Exp b
  if e == 2047 then 255 else
  if e == 0 then 0 else
  let sig := f64Man b + 2 ^ 52
  if e ≥ 1075 then 255 else
  let k := 1075 - e
  let fl := sig / 2 ^ k
  let rem := sig % 2 ^ k
  let half := 2 ^ (k - 1)
  if fl ≥ 255 then 255
  else if rem > half then fl + 1
  else if rem < half then fl
  else if fl % 2 == 1 then fl + 1 else fl

def intClampU8 (i : Int) : Nat := if i < 0 then 0 else if i > 255 then 255 else i.toNat

/-- round-to-nearest-even helper: `q = sig / 2^k` rounded using the dropped bits. -/
def rneShift (sig k : Nat) : Nat :=
  if k == 0 then sig else
  let q := sig / 2 ^ k
  let r := sig % 2 ^ k
  let half := 2 ^ (k - 1)
  if r > half || (r == half && q % 2 == 1) then q + 1 else q

/-- binary64 → binary32, round to nearest even (ECMA-262 NumericToRawBytes for Float32; Go `float32(x)`). -/
def f64ToF32 (b : Nat) : Nat :=
  let s := if f64Sign b then 2 ^ 31 else 0
  let e := f64Exp b
  let m := f64Man b
  if e == 2047 then
    if m == 0 then s + 0x7f800000 else s + 0x7fc00000 + m / 2 ^ 29 % 2 ^ 22
  else if e == 0 then s
  else
    let sig := m + 2 ^ 52
    if e > 896 then
      let bits := (e - 897) * 2 ^ 23 + rneShift sig 29
      if bits ≥ 0x7f800000 then s + 0x7f800000 else s + bits
    else
      s + rneShift sig (926 - e)

/-- binary32 → binary64 (exact). NaN ↦ goja's NaN (the value passes through `floatToValue`). -/
def f32ToF64 (b : Nat) : Nat :=
  let s := if b / 2 ^ 31 % 2 == 1 then 2 ^ 63 else 0
  let e := b / 2 ^ 23 % 256
  let m := b % 2 ^ 23
  if e == 255 then (if m == 0 then s + 0x7ff0000000000000 else nanBits)
  else if e == 0 then
    if m == 0 then s else
    let p := Nat.log2 m
    s + (p + 874) * 2 ^ 52 + (m - 2 ^ p) * 2 ^ (52 - p)
  else s + (e + 896) * 2 ^ 52 + m * 2 ^ 29

/-- exact Int → binary64 for |i| < 2^53 (all integer element kinds fit). -/
def intToF64 (i : Int) : Nat :=
  let s := if i < 0 then 2 ^ 63 else 0
  let a := i.natAbs
  if a == 0 then 0 else
  let p := Nat.log2 a
  s + (1023 + p) * 2 ^ 52 + (a - 2 ^ p) * 2 ^ (52 - p)

/-- little-endian bytes of the low `n` bytes of `x`. -/
def leBytes : Nat → Nat → List UInt8
  | 0, _ => []
  | n + 1, x => UInt8.ofNat (x % 256) :: leBytes n (x / 256)

def leNat : List UInt8 → Nat
  | [] => 0
  | b :: bs => b.toNat + 256 * leNat bs

theorem leBytes_length (n x : Nat) : (leBytes n x).length = n := by
  induction n generalizing x with
  | zero => rfl
  | succ n ih => simp [leBytes, ih]

def intModN (bits : Nat) (i : Int) : Nat := (i % (2 ^ bits : Int)).toNat

def signedOfNat (bits : Nat) (x : Nat) : Int :=
  if x ≥ 2 ^ (bits - 1) then (x : Int) - (2 ^ bits : Int) else (x : Int)

/-- unsigned bit pattern (`8*size` bits) written for `num` into an element of kind `k`
(ECMA-262 NumericToRawBytes, little-endian afterwards); `none` = TypeError (BigInt / Number mix). -/
def encodeNat (k : Kind) (num : Num) : Option Nat :=
  match k, num with
  | .bi64, .big i | .bu64, .big i => some (intModN 64 i)
  | .bi64, _ | .bu64, _ => none
  | _, .big _ => none
  | .u8c, .int i => some (intClampU8 i)
  | .u8c, .dbl b => some (f64ToU8Clamp b)
  | .f64, .int i => some (intToF64 i)
  | .f64, .dbl b => some (if f64IsNaN b then nanBits else b)
  | .f32, .int i => some (f64ToF32 (intToF64 i))
  | .f32, .dbl b => some (f64ToF32 (if f64IsNaN b then nanBits else b))
  | .u8c, .undef => some 0
  | .f64, .undef => some nanBits
  | .f32, .undef => some (f64ToF32 nanBits)
  | k, .int i => some (intModN (8 * k.size) i)
  | k, .dbl b => some (f64ToUintN (8 * k.size) b)
  | _, .undef => some 0

def encode (k : Kind) (num : Num) : Option (List UInt8) :=
  (encodeNat k num).map (leBytes k.size)

/-- ECMA-262 RawBytesToNumeric on little-endian bytes. -/
def decode (k : Kind) (bs : List UInt8) : Num :=
  let x := leNat bs
  match k with
  | .u8 | .u8c | .u16 | .u32 => .int x
  | .i8 => .int (signedOfNat 8 x)
  | .i16 => .int (signedOfNat 16 x)
  | .i32 => .int (signedOfNat 32 x)
  | .f32 => .dbl (f32ToF64 x)
  | .f64 => .dbl (if f64IsNaN x then nanBits else x)
  | .bi64 => .big (signedOfNat 64 x)
  | .bu64 => .big x

/-! ## memory with a touch log -/

structure Touch where
  buf : Nat
  idx : Nat
  /-- buffer attached and `idx < |buf|` at the time of the touch -/
  ok : Bool
  write : Bool
  deriving DecidableEq, Repr

structure View where
  buf : Nat
  offset : Nat
  length : Nat
  kind : Kind
  deriving DecidableEq, Repr, Inhabited

structure DView where
  buf : Nat
  byteOffset : Nat
  byteLen : Nat
  deriving DecidableEq, Repr, Inhabited

structure State where
  bufs : List (Option (List UInt8)) := []
  views : List View := []
  dvs : List DView := []
  log : List Touch := []
  deriving Repr, Inhabited

def View.lo (v : View) : Nat := v.offset * v.kind.size
def View.hi (v : View) : Nat := (v.offset + v.length) * v.kind.size

/-- `arrayBufferObject.data` (nil after detach, typedarrays.go:1242). -/
def State.data? (s : State) (b : Nat) : Option (List UInt8) := s.bufs.getD b none

def State.attached (s : State) (b : Nat) : Bool := (s.data? b).isSome

def State.blen (s : State) (b : Nat) : Nat :=
  match s.data? b with
  | some d => d.length
  | none => 0

def State.touchOk (s : State) (b i : Nat) : Bool :=
  match s.data? b with
  | some d => decide (i < d.length)
  | none => false

def State.readByte (s : State) (b i : Nat) : UInt8 × State :=
  let x := match s.data? b with
    | some d => d.getD i 0
    | none => 0
  (x, { s with log := ⟨b, i, s.touchOk b i, false⟩ :: s.log })

def State.writeByte (s : State) (b i : Nat) (x : UInt8) : State :=
  { s with
    bufs := match s.data? b with
      | some d => s.bufs.set b (some (d.set i x))
      | none => s.bufs
    log := ⟨b, i, s.touchOk b i, true⟩ :: s.log }

/-- `ArrayBuffer.Detach` / `arrayBufferObject.detach` (typedarrays.go:103, 1242). -/
def State.detach (s : State) (b : Nat) : State := { s with bufs := s.bufs.set b none }

/-- the adversary's move at a callback point -/
def State.applyDet (s : State) (det : List Nat) : State := det.foldl State.detach s

def State.readRange (s : State) (b lo : Nat) : Nat → List UInt8 × State
  | 0 => ([], s)
  | n + 1 =>
    let r := s.readByte b lo
    let rs := State.readRange r.2 b (lo + 1) n
    (r.1 :: rs.1, rs.2)

def State.writeRange (s : State) (b lo : Nat) : List UInt8 → State
  | [] => s
  | x :: xs => State.writeRange (s.writeByte b lo x) b (lo + 1) xs

/-- exactly `n` bytes (codec output always has the element size; this makes it syntactic). -/
def fit (n : Nat) (bs : List UInt8) : List UInt8 := (List.range n).map (fun j => bs.getD j 0)

/-- `typedArray.get(offset+k)` raw bytes: unsafe.Add(ptr, (offset+k)*elemSize) (typedarrays.go:134…669). -/
def State.readElem (s : State) (v : View) (k : Nat) : List UInt8 × State :=
  s.readRange v.buf ((v.offset + k) * v.kind.size) v.kind.size

def State.writeElem (s : State) (v : View) (k : Nat) (raw : List UInt8) : State :=
  s.writeRange v.buf ((v.offset + k) * v.kind.size) (fit v.kind.size raw)

/-! ## arguments, results -/

/-- An argument coerced with ToInteger / ToIndex: `val` is the integer the coercion returns and `det` the
buffers the adversary detaches while it runs (`valueOf`). -/
structure IArg where
  val : Int
  det : List Nat := []
  deriving Repr, Inhabited

/-- An element-value argument (coerced with ToNumber / ToBigInt). -/
structure VArg where
  num : Num
  det : List Nat := []
  deriving Repr, Inhabited

def oVal (a : Option IArg) (dflt : Int) : Int :=
  match a with
  | some x => x.val
  | none => dflt

def oDet (a : Option IArg) : List Nat :=
  match a with
  | some x => x.det
  | none => []

inductive Err | type | range
  deriving DecidableEq, Repr

inductive Res
  | ok
  | bad                       -- malformed op (unknown id); never produced by the generator
  | err (e : Err)
  | undef
  | val (n : Num)
  | view (byteOffset length : Nat)
  | bool (b : Bool)
  /-- a sequence of element values handed out (to a callback, an iterator, or joined into a string); `none` = undefined -/
  | vals (xs : List (Option Num))
  deriving Repr

def Res.isOk : Res → Bool
  | .ok => true
  | _ => false

/-- how a returned typed array reports itself: the `byteOffset` / `length` getters answer 0 once its buffer is detached
(builtin_typedarrays.go:437-455) -/
def viewRes (attached : Bool) (lo len : Nat) : Res := if attached then .view lo len else .view 0 0

/-- `relToIdx` (builtin_array.go:61). -/
def relToIdx (rel l : Int) : Int :=
  if rel ≥ 0 then min rel l else max (l + rel) 0

/-- `maxInt` (vm.go:17). -/
def maxInt : Int := 2 ^ 53

/-- `Runtime.toIndex` range test (runtime.go:1276): `num >= 0 && num < maxInt`. -/
def toIndexOk (num : Int) : Bool := decide (num ≥ 0) && decide (num < maxInt)

/-- `typedArrayObject.isValidIntegerIndex` (typedarrays.go:779). -/
def isValidIntegerIndex (attached : Bool) (length : Nat) (idx : Int) : Bool :=
  attached && (decide (idx ≥ 0) && decide (idx < (length : Int)))

/-- `dataViewObject.getIdxAndByteOrder` range test (typedarrays.go:1056): `getIdx+size > o.byteLen` ⇒ RangeError. -/
def dvRangeOk (getIdx size byteLen : Int) : Bool := !decide (getIdx + size > byteLen)

/-! ## constructors -/

/-- Go's integer division (truncates toward zero) for a positive divisor. -/
def goQuot (a b : Int) : Int := if a ≥ 0 then a / b else -((-a) / b)

/-- `_newTypedArrayFromArrayBuffer` (builtin_typedarrays.go:1454). -/
def opNewView (s : State) (kind : Kind) (b : Nat) (off len : Option IArg) : Res × State :=
  if b ≥ s.bufs.length then (.bad, s) else
  let es : Int := kind.size
  -- 1457: byteOffset = toIndex(args[1])  (callback point)
  let s := s.applyDet (oDet off)
  let byteOffset : Int := oVal off 0
  if !toIndexOk byteOffset then (.err .range, s) else
  -- 1459: byteOffset % elemSize != 0
  if byteOffset % es != 0 then (.err .range, s) else
  match len with
  | some la =>
    -- 1465: length = toIndex(args[2])  (callback point)
    let s := s.applyDet la.det
    if !toIndexOk la.val then (.err .range, s) else
    -- 1466: ensureNotDetached(true)
    if !s.attached b then (.err .type, s) else
    -- 1467: byteOffset+length*elemSize > len(ab.data)
    if byteOffset + la.val * es > (s.blen b : Int) then (.err .range, s) else
    let v : View := ⟨b, (byteOffset / es).toNat, la.val.toNat, kind⟩
    (.view byteOffset.toNat la.val.toNat, { s with views := s.views ++ [v] })
  | none =>
    -- 1471: ensureNotDetached(true)
    if !s.attached b then (.err .type, s) else
    let n : Int := s.blen b
    -- 1472: len(ab.data) % elemSize != 0
    if n % es != 0 then (.err .range, s) else
    -- 1475: length = (len(ab.data) - byteOffset) / elemSize   (Go division truncates toward zero)
    let length := goQuot (n - byteOffset) es
    -- 1476: length < 0
    if length < 0 then (.err .range, s) else
    let v : View := ⟨b, (byteOffset / es).toNat, length.toNat, kind⟩
    (.view byteOffset.toNat length.toNat, { s with views := s.views ++ [v] })

/-- builtin_typedarrays.go:183: `byteLen = r.toIndex(args[2])` range test when a length is passed -/
def dvLenOk (len : Option IArg) : Bool :=
  match len with
  | some la => toIndexOk la.val
  | none => true

/-- builtin_typedarrays.go:183/188: explicit length, or `len(buffer.data) - byteOffset` -/
def dvByteLen (len : Option IArg) (n byteOffset : Int) : Int :=
  match len with
  | some la => la.val
  | none => n - byteOffset

/-- `newDataView` (builtin_typedarrays.go:156). -/
def opNewDV (s : State) (b : Nat) (off len : Option IArg) (pdet : List Nat := []) : Res × State :=
  if b ≥ s.bufs.length then (.bad, s) else
  -- 174-181: if len(args) > 1 { byteOffset = toIndex; ensureNotDetached; byteOffset > len(data) }
  let s := s.applyDet (oDet off)
  let byteOffset : Int := oVal off 0
  if !toIndexOk byteOffset then (.err .range, s) else
  -- `len(args) > 1` holds whenever an offset OR a length argument is passed (an `undefined` offset is ToIndex'd to 0)
  let has1 := off.isSome || len.isSome
  if has1 && !s.attached b then (.err .type, s) else
  if has1 && byteOffset > (s.blen b : Int) then (.err .range, s) else
  -- 182-189
  let s := s.applyDet (oDet len)
  if !dvLenOk len then (.err .range, s) else
  let byteLen : Int := dvByteLen len (s.blen b) byteOffset
  if len.isSome && byteOffset + byteLen > (s.blen b : Int) then (.err .range, s) else
  -- 190: getPrototypeFromCtor(newTarget, …) reads newTarget.prototype (callback point)
  let s := s.applyDet pdet
  -- 191-197: final checks
  if !s.attached b then (.err .type, s) else
  if byteOffset > (s.blen b : Int) then (.err .range, s) else
  if byteOffset + byteLen > (s.blen b : Int) then (.err .range, s) else
  if byteLen < 0 then (.err .range, s) else   -- unreachable in Go (byteLen ≥ 0 by the checks above); keeps the model total
  let d : DView := ⟨b, byteOffset.toNat, byteLen.toNat⟩
  (.view byteOffset.toNat byteLen.toNat, { s with dvs := s.dvs ++ [d] })

/-! ## element get / put -/

/-- `_getIdx` (typedarrays.go:721). -/
def opGet (s : State) (vi : Nat) (idx : Int) : Res × State :=
  match s.views[vi]? with
  | none => (.bad, s)
  | some v =>
    if 0 ≤ idx && idx < (v.length : Int) then
      if !s.attached v.buf then (.undef, s) else
      let r := s.readElem v idx.toNat
      (.val (decode v.kind r.1), r.2)
    else (.undef, s)

/-- `_putIdx` (typedarrays.go:788): convert first (callback point), then `isValidIntegerIndex`, then write. -/
def opPut (s : State) (vi : Nat) (idx : Int) (a : VArg) : Res × State :=
  match s.views[vi]? with
  | none => (.bad, s)
  | some v =>
    let s := s.applyDet a.det
    match encode v.kind a.num with
    | none => (.err .type, s)
    | some raw =>
      if isValidIntegerIndex (s.attached v.buf) v.length idx then
        (.ok, s.writeElem v idx.toNat raw)
      else (.ok, s)

/-! ## fill -/

def fillLoop (s : State) (v : View) (raw : List UInt8) (k : Nat) : Nat → State
  | 0 => s
  | n + 1 => fillLoop (s.writeElem v k raw) v raw (k + 1) n

/-- `typedArrayProto_fill` (builtin_typedarrays.go:519). -/
def opFill (s : State) (vi : Nat) (a : VArg) (start fin : Option IArg) : Res × State :=
  match s.views[vi]? with
  | none => (.bad, s)
  | some v =>
    -- 521
    if !s.attached v.buf then (.err .type, s) else
    let l : Int := v.length
    -- 523
    let s := s.applyDet (oDet start)
    let k := relToIdx (oVal start 0) l
    -- 525-530
    let s := s.applyDet (oDet fin)
    let final := relToIdx (oVal fin l) l
    -- 531: toRaw (callback point; TypeError on BigInt mix)
    let s := s.applyDet a.det
    match encode v.kind a.num with
    | none => (.err .type, s)
    | some raw =>
      -- 532
      if !s.attached v.buf then (.err .type, s) else
      (.ok, fillLoop s v raw k.toNat (final.toNat - k.toNat))

/-! ## copyWithin -/

/-- builtin_typedarrays.go:473-476: `count := final - from; if c := l - to; c < count { count = c }`
(the clamp added by commit b85e9cc). -/
def cwCount (l to' from' final : Int) : Int :=
  if l - to' < final - from' then l - to' else final - from'

/-- `typedArrayProto_copyWithin` (builtin_typedarrays.go:457). -/
def opCopyWithin (s : State) (vi : Nat) (to from_ : IArg) (fin : Option IArg) : Res × State :=
  match s.views[vi]? with
  | none => (.bad, s)
  | some v =>
    if !s.attached v.buf then (.err .type, s) else
    let l : Int := v.length
    let s := s.applyDet to.det
    let to' := relToIdx to.val l
    let s := s.applyDet from_.det
    let from' := relToIdx from_.val l
    let s := s.applyDet (oDet fin)
    let final := relToIdx (oVal fin l) l
    -- 473-476: count := final - from; if c := l - to; c < count { count = c }
    let count := cwCount l to' from' final
    if count > 0 then
      -- 478
      if !s.attached v.buf then (.err .type, s) else
      let es := v.kind.size
      -- 479: copy(data[(offset+to)*es:], data[(offset+from)*es:(offset+from+count)*es])
      --      Go's copy moves min(len(dst), len(src)) bytes with memmove semantics
      let srcLo := (v.offset + from'.toNat) * es
      let dstLo := (v.offset + to'.toNat) * es
      let n := min (count.toNat * es) (s.blen v.buf - dstLo)
      let r := s.readRange v.buf srcLo n
      (.ok, r.2.writeRange v.buf dstLo r.1)
    else (.ok, s)

/-! ## set -/

def readElems (s : State) (v : View) (k : Nat) : Nat → List (List UInt8) × State
  | 0 => ([], s)
  | n + 1 =>
    let r := s.readElem v k
    let rs := readElems r.2 v (k + 1) n
    (r.1 :: rs.1, rs.2)

def writeElems (s : State) (v : View) (k : Nat) : List (List UInt8) → State
  | [] => s
  | x :: xs => writeElems (s.writeElem v k x) v (k + 1) xs

/-- re-encode a list of raw source elements for the destination kind; `none` = TypeError. -/
def convElems (src dst : Kind) : List (List UInt8) → Option (List (List UInt8))
  | [] => some []
  | x :: xs =>
    match encode dst (decode src x), convElems src dst xs with
    | some y, some ys => some (y :: ys)
    | _, _ => none

/-- `typedArrayProto_set`, typed-array source (builtin_typedarrays.go:1002-1060).
Bytes: ECMA-262 SetTypedArrayFromTypedArray (source cloned when the buffers are the same). -/
def opSetTA (s : State) (vi si : Nat) (off : Option IArg) : Res × State :=
  match s.views[vi]?, s.views[si]? with
  | some v, some src =>
    -- 1005: targetOffset = ToInteger(arg1)  (callback point)
    let s := s.applyDet (oDet off)
    let targetOffset := oVal off 0
    if targetOffset < 0 then (.err .range, s) else
    -- 1009, 1012
    if !s.attached v.buf then (.err .type, s) else
    if !s.attached src.buf then (.err .type, s) else
    -- 1014
    if (src.length : Int) + targetOffset > (v.length : Int) then (.err .range, s) else
    if src.kind == v.kind then
      -- 1018: copy(dst[(ta.offset+targetOffset)*es:], src[src.offset*es:(src.offset+srcLen)*es])
      let es := v.kind.size
      let dstLo := (v.offset + targetOffset.toNat) * es
      let n := min (src.length * es) (s.blen v.buf - dstLo)
      let r := s.readRange src.buf (src.offset * es) n
      (.ok, r.2.writeRange v.buf dstLo r.1)
    else
      -- 1021: checkTypedArrayMixBigInt: only "source Big, target not Big" is rejected up front
      if src.kind.isBig && !v.kind.isBig then (.err .type, s) else
      let r := readElems s src 0 src.length
      match convElems src.kind v.kind r.1 with
      | none => (.err .type, r.2)     -- per-element ToBigInt(Number) throws at the first element
      | some ys => (.ok, writeElems r.2 v targetOffset.toNat ys)
  | _, _ => (.bad, s)

/-- array-like source loop: per element ToNumber (callback point), then IsValidIntegerIndex, then write
(ECMA-262 SetTypedArrayFromArrayLike → TypedArraySetElement). -/
def setArrLoop (s : State) (v : View) (k : Nat) : List VArg → Res × State
  | [] => (.ok, s)
  | a :: as =>
    let s := s.applyDet a.det
    match encode v.kind a.num with
    | none => (.err .type, s)
    | some raw =>
      let s := if isValidIntegerIndex (s.attached v.buf) v.length (k : Int) then s.writeElem v k raw else s
      setArrLoop s v (k + 1) as

/-- `typedArrayProto_set`, array-like source (builtin_typedarrays.go:1061-1073). -/
def opSetArr (s : State) (vi : Nat) (off : Option IArg) (vals : List VArg) : Res × State :=
  match s.views[vi]? with
  | none => (.bad, s)
  | some v =>
    let s := s.applyDet (oDet off)
    let targetOffset := oVal off 0
    if targetOffset < 0 then (.err .range, s) else
    if !s.attached v.buf then (.err .type, s) else
    if (vals.length : Int) + targetOffset > (v.length : Int) then (.err .range, s) else
    setArrLoop s v targetOffset.toNat vals

/-! ## slice / subarray -/

/-- what the species constructor does: `none` = default constructor; `some (vid, det)` = a user constructor
that detaches `det` and returns the existing typed array `vid`. -/
abbrev Species := Option (Nat × List Nat)

/-- forward byte-by-byte copy with live reads (ECMA-262 %TypedArray%.prototype.slice step 14.g;
builtin_typedarrays.go:1107-1114). -/
def copyFwd (s : State) (sb slo db dlo : Nat) : Nat → State
  | 0 => s
  | n + 1 =>
    let r := s.readByte sb slo
    copyFwd (r.2.writeByte db dlo r.1) sb (slo + 1) db (dlo + 1) n

/-- the species constructor result must name an existing view (generator hygiene, not goja behaviour) -/
def speciesBad (s : State) (sp : Species) : Bool :=
  match sp with
  | some (di, _) => (s.views[di]?).isNone
  | none => false

/-- element-wise forward conversion loop with live reads (builtin_typedarrays.go:1117-1120). -/
def sliceConvLoop (s : State) (src dst : View) (sk dk : Nat) : Nat → Res × State
  | 0 => (.ok, s)
  | n + 1 =>
    -- 1118
    if !s.attached src.buf then (.err .type, s) else
    let r := s.readElem src sk
    match encode dst.kind (decode src.kind r.1) with
    | none => (.err .type, r.2)
    | some raw => sliceConvLoop (r.2.writeElem dst dk raw) src dst (sk + 1) (dk + 1) n

/-- `typedArrayProto_slice` (builtin_typedarrays.go:1079).  A view/buffer allocated by the default
constructor becomes part of the state only when the call returns it (on a throw it is unreachable). -/
def opSlice (s : State) (vi : Nat) (start fin : Option IArg) (sp : Species) : Res × State :=
  match s.views[vi]? with
  | none => (.bad, s)
  | some v =>
    if speciesBad s sp then (.bad, s) else
    -- 1081
    if !s.attached v.buf then (.err .type, s) else
    let l : Int := v.length
    let s := s.applyDet (oDet start)
    let st := relToIdx (oVal start 0) l
    let s := s.applyDet (oDet fin)
    let en := relToIdx (oVal fin l) l
    let count := (en - st).toNat      -- 1092-1095
    let es := v.kind.size
    -- 1096: typedArraySpeciesCreate(ta, [count]) → typedArrayCreate validation (1389-1403)
    match sp with
    | none =>
      -- default constructor: allocateTypedArray (1376): fresh zeroed buffer
      let dst : View := ⟨s.bufs.length, 0, count, v.kind⟩
      let s1 := { s with bufs := s.bufs ++ [some (List.replicate (count * es) 0)] }
      if count > 0 then
        -- 1099
        if !s.attached v.buf then (.err .type, s) else
        let s2 := copyFwd s1 v.buf ((v.offset + st.toNat) * es) dst.buf (dst.offset * es) (count * es)
        (.view 0 count, { s2 with views := s2.views ++ [dst] })
      else (.view 0 count, { s1 with views := s1.views ++ [dst] })
    | some (di, det) =>
      match s.views[di]? with
      | none => (.bad, s)
      | some dst =>
        let s := s.applyDet det
        -- 1392: ensureNotDetached(true); 1395: ta.length < l ⇒ TypeError
        if !s.attached dst.buf then (.err .type, s) else
        if dst.length < count then (.err .type, s) else
        if dst.kind == v.kind then
          if count > 0 then
            if !s.attached v.buf then (.err .type, s) else
            let s2 := copyFwd s v.buf ((v.offset + st.toNat) * es) dst.buf (dst.offset * es) (count * es)
            (viewRes (s2.attached dst.buf) dst.lo dst.length, { s2 with views := s2.views ++ [dst] })
          else (viewRes (s.attached dst.buf) dst.lo dst.length, { s with views := s.views ++ [dst] })
        else
          match sliceConvLoop s v dst st.toNat 0 count with
          | (.ok, s2) => (viewRes (s2.attached dst.buf) dst.lo dst.length, { s2 with views := s2.views ++ [dst] })
          | r => r

/-- `typedArrayProto_subarray` (builtin_typedarrays.go:1171). No detach check of its own; the default
constructor path re-validates everything in `_newTypedArrayFromArrayBuffer`. -/
def opSubarray (s : State) (vi : Nat) (start fin : Option IArg) (sp : Species) : Res × State :=
  match s.views[vi]? with
  | none => (.bad, s)
  | some v =>
    if speciesBad s sp then (.bad, s) else
    let l : Int := v.length
    let s := s.applyDet (oDet start)
    let b := relToIdx (oVal start 0) l
    let s := s.applyDet (oDet fin)
    let e := relToIdx (oVal fin l) l
    let newLen := max (e - b) 0
    match sp with
    | none =>
      opNewView s v.kind v.buf (some ⟨((v.offset : Int) + b) * (v.kind.size : Int), []⟩) (some ⟨newLen, []⟩)
    | some (di, det) =>
      match s.views[di]? with
      | none => (.bad, s)
      | some dst =>
        let s := s.applyDet det
        if !s.attached dst.buf then (.err .type, s) else
        (viewRes (s.attached dst.buf) dst.lo dst.length, { s with views := s.views ++ [dst] })

/-! ## sort / reverse -/

/-- default `%TypedArray%.prototype.sort` order on decoded elements (ECMA-262 TypedArray SortCompare;
typedarrays.go `less` methods and `typedFloatLess`:508): numbers ascending, −0 before +0, NaN last. -/
def numLess (x y : Num) : Bool :=
  match x, y with
  | .int a, .int b => a < b
  | .big a, .big b => a < b
  | .dbl a, .dbl b =>
    let an := f64IsNaN a
    let bn := f64IsNaN b
    if bn then !an else if an then false else
    let am := a % 2 ^ 63
    let bm := b % 2 ^ 63
    match f64Sign a, f64Sign b with
    | true, false => true          -- includes −0 < +0
    | false, true => false
    | false, false => am < bm
    | true, true => bm < am
  | _, _ => false

/-- stable insertion (insert after all elements that are not greater). -/
def insertBy (lt : α → α → Bool) (x : α) : List α → List α
  | [] => [x]
  | y :: ys => if lt x y then x :: y :: ys else y :: insertBy lt x ys

def stableSort (lt : α → α → Bool) (xs : List α) : List α :=
  xs.foldl (fun acc x => insertBy lt x acc) []

/-- comparator used by the generator: `none` = default order; `some det` = a consistent user comparator
(descending by the default order) whose FIRST call detaches `det` (it is called iff length ≥ 2). -/
abbrev Cmp := Option (List Nat)

/-- `typedArrayProto_sort` (builtin_typedarrays.go:1151) + `typedArraySortCtx`. When the sorted buffer itself
is detached by the comparator the remaining Less/Swap calls are no-ops (checkDetached, line 27); the bytes
of a detached buffer are not part of the state, so the model only records the detach. -/
def opSort (s : State) (vi : Nat) (cmp : Cmp) : Res × State :=
  match s.views[vi]? with
  | none => (.bad, s)
  | some v =>
    if !s.attached v.buf then (.err .type, s) else
    match cmp with
    | none =>
      let r := readElems s v 0 v.length
      let sorted := stableSort (fun a b => numLess (decode v.kind a) (decode v.kind b)) r.1
      (.ok, writeElems r.2 v 0 sorted)
    | some det =>
      if v.length < 2 then (.ok, s) else
      -- sort.Stable reads elements 1 and 0 for the first Less call, then the comparator runs
      let r := readElems s v 0 v.length
      let s := r.2.applyDet det
      if !s.attached v.buf then (.ok, s) else
      let sorted := stableSort (fun a b => numLess (decode v.kind b) (decode v.kind a)) r.1
      (.ok, writeElems s v 0 sorted)

/-! ### the comparator protocol of `typedArraySortCtx` (builtin_typedarrays.go:16-74)

`sort.Stable` drives the sort through `Less(i, j)` / `Swap(i, j)` with `i, j < Len()`.  Which calls it makes depends
on the comparator's answers; the model therefore takes an ARBITRARY sequence of calls. -/

/-- `typedArraySortCtx.{needValidate, detached}` -/
structure SortCtx where
  needValidate : Bool := false
  detached : Bool := false
  deriving Repr, Inhabited

inductive SortCall
  /-- `Less(i, j)` with a user comparator whose call detaches `det` -/
  | less (i j : Nat) (det : List Nat)
  | swap (i j : Nat)
  deriving Repr

/-- `checkDetached` (builtin_typedarrays.go:27): re-read the buffer state only after a comparator call -/
def checkDetached (s : State) (v : View) (c : SortCtx) : SortCtx :=
  if !c.detached && c.needValidate then { detached := !s.attached v.buf, needValidate := false } else c

/-- `Less` (line 34, comparator present) and `Swap` (line 67) -/
def sortCall (s : State) (v : View) (c : SortCtx) : SortCall → State × SortCtx
  | .less i j det =>
    let c := checkDetached s v c
    if c.detached then (s, c) else
    let r1 := s.readElem v i
    let r2 := r1.2.readElem v j
    -- the comparator runs (callback point), then `needValidate = true`
    (r2.2.applyDet det, { c with needValidate := true })
  | .swap i j =>
    let c := checkDetached s v c
    if c.detached then (s, c) else
    let r1 := s.readElem v i
    let r2 := r1.2.readElem v j
    ((r2.2.writeElem v i r2.1).writeElem v j r1.1, c)

def sortCalls (s : State) (v : View) (c : SortCtx) : List SortCall → State × SortCtx
  | [] => (s, c)
  | x :: xs => let r := sortCall s v c x; sortCalls r.1 v r.2 xs

/-- seeded mutation C17-m2: `Swap` without `ctx.checkDetached()` -/
def swapNoRecheck (s : State) (v : View) (c : SortCtx) (i j : Nat) : State :=
  if c.detached then s else
  let r1 := s.readElem v i
  let r2 := r1.2.readElem v j
  (r2.2.writeElem v i r2.1).writeElem v j r1.1

/-- `typedArrayProto_reverse` (builtin_typedarrays.go:987). -/
def opReverse (s : State) (vi : Nat) : Res × State :=
  match s.views[vi]? with
  | none => (.bad, s)
  | some v =>
    if !s.attached v.buf then (.err .type, s) else
    let r := readElems s v 0 v.length
    (.ok, writeElems r.2 v 0 r.1.reverse)

/-! ## DataView -/

/-- `dataViewProto_get*` (builtin_typedarrays.go:238-308) + `getIdxAndByteOrder` (typedarrays.go:1054). -/
def opDVGet (s : State) (di : Nat) (k : Kind) (idx : IArg) (le : Bool) : Res × State :=
  match s.dvs[di]? with
  | none => (.bad, s)
  | some d =>
    let s := s.applyDet idx.det
    if !toIndexOk idx.val then (.err .range, s) else
    if !s.attached d.buf then (.err .type, s) else
    if !dvRangeOk idx.val k.size d.byteLen then (.err .range, s) else
    let r := s.readRange d.buf (idx.val.toNat + d.byteOffset) k.size
    let bs := if le then r.1 else r.1.reverse
    (.val (decode k bs), r.2)

/-- `dataViewProto_set*` (builtin_typedarrays.go:310-418): ToIndex, value conversion, then detach/range test. -/
def opDVSet (s : State) (di : Nat) (k : Kind) (idx : IArg) (a : VArg) (le : Bool) : Res × State :=
  match s.dvs[di]? with
  | none => (.bad, s)
  | some d =>
    let s := s.applyDet idx.det
    if !toIndexOk idx.val then (.err .range, s) else
    let s := s.applyDet a.det
    match encode k a.num with
    | none => (.err .type, s)
    | some raw =>
      if !s.attached d.buf then (.err .type, s) else
      if !dvRangeOk idx.val k.size d.byteLen then (.err .range, s) else
      let bs := fit k.size raw
      (.ok, s.writeRange d.buf (idx.val.toNat + d.byteOffset) (if le then bs else bs.reverse))

/-! ## operations that return a freshly allocated typed array -/

def zeros (n : Nat) : List UInt8 := List.replicate n 0

/-- bytes of a fresh typed array whose elements are `elems` (each exactly `es` bytes) -/
def freshBytes (es : Nat) : List (List UInt8) → List UInt8
  | [] => []
  | x :: xs => fit es x ++ freshBytes es xs

/-- a typed array allocated by the default constructor (allocateTypedArray, builtin_typedarrays.go:1376) becomes
part of the state when the call returns it; until then no user code can reach it. -/
def pushFresh (s : State) (kind : Kind) (elems : List (List UInt8)) : State :=
  { s with bufs := s.bufs ++ [some (freshBytes kind.size elems)],
           views := s.views ++ [⟨s.bufs.length, 0, elems.length, kind⟩] }

/-- `typedArrayProto_toReversed` (builtin_typedarrays.go:1261). -/
def opToReversed (s : State) (vi : Nat) : Res × State :=
  match s.views[vi]? with
  | none => (.bad, s)
  | some v =>
    if !s.attached v.buf then (.err .type, s) else
    let r := readElems s v 0 v.length
    -- 1272-1276: element-wise get → set through a Value (a NaN is re-encoded as goja's NaN)
    (.view 0 v.length, pushFresh r.2 v.kind (r.1.reverse.map (fun x => (encode v.kind (decode v.kind x)).getD x)))

/-- `typedArrayProto_toSorted` (builtin_typedarrays.go:1281): the copy is sorted, so a comparator that detaches
the receiver's buffer does not change the result. -/
def opToSorted (s : State) (vi : Nat) (cmp : Cmp) : Res × State :=
  match s.views[vi]? with
  | none => (.bad, s)
  | some v =>
    if !s.attached v.buf then (.err .type, s) else
    let r := readElems s v 0 v.length
    match cmp with
    | none =>
      (.view 0 v.length, pushFresh r.2 v.kind (stableSort (fun a b => numLess (decode v.kind a) (decode v.kind b)) r.1))
    | some det =>
      let s2 := if v.length < 2 then r.2 else r.2.applyDet det
      (.view 0 v.length, pushFresh s2 v.kind (stableSort (fun a b => numLess (decode v.kind b) (decode v.kind a)) r.1))

/-- builtin_typedarrays.go:1237-1241: `actualIndex` of `with` -/
def withIndex (rel len : Int) : Int := if rel ≥ 0 then rel else len + rel

/-- `typedArrayProto_with` (builtin_typedarrays.go:1226). -/
def opWith (s : State) (vi : Nat) (idx : IArg) (a : VArg) : Res × State :=
  match s.views[vi]? with
  | none => (.bad, s)
  | some v =>
    if !s.attached v.buf then (.err .type, s) else
    -- 1234-1241
    let s := s.applyDet idx.det
    let actual : Int := withIndex idx.val v.length
    -- 1243-1249
    let s := s.applyDet a.det
    match encode v.kind a.num with
    | none => (.err .type, s)
    | some raw =>
      -- 1251
      if !isValidIntegerIndex (s.attached v.buf) v.length actual then (.err .range, s) else
      let r := readElems s v 0 v.length
      (.view 0 v.length, pushFresh r.2 v.kind (r.1.set actual.toNat raw))

/-- builtin_typedarrays.go:554-563: raw bytes of element `k`, or zeros once the buffer is detached -/
def filterRead (s : State) (v : View) (k : Nat) : List UInt8 × State :=
  if s.attached v.buf then s.readElem v k else (zeros v.kind.size, s)

/-- `typedArrayProto_filter` loop (builtin_typedarrays.go:553-569): the element is captured before the callback
runs; once the buffer is detached the remaining elements are `undefined` / zero bytes. `detAt` = the call during
which the adversary detaches. -/
def filterLoop (s : State) (v : View) (keep : List Bool) (detAt : Nat) (det : List Nat) (k : Nat) :
    Nat → List (List UInt8) → State × List (List UInt8)
  | 0, acc => (s, acc)
  | n + 1, acc =>
    let r := filterRead s v k
    let s := if k == detAt then r.2.applyDet det else r.2
    filterLoop s v keep detAt det (k + 1) n (if keep.getD k false then acc ++ [r.1] else acc)

/-- `typedArrayProto_filter` (builtin_typedarrays.go:541). With a user species constructor (570-583) the kept elements
are first collected in a private array of the receiver's type and then moved, value by value, into the typed array the
constructor returned (validated by typedArrayCreate: attached, long enough; no user code runs after that). -/
def opFilter (s : State) (vi : Nat) (keep : List Bool) (detAt : Nat) (det : List Nat) (sp : Species := none) : Res × State :=
  match s.views[vi]? with
  | none => (.bad, s)
  | some v =>
    if speciesBad s sp then (.bad, s) else
    if !s.attached v.buf then (.err .type, s) else
    let r := filterLoop s v keep detAt det 0 v.length []
    match sp with
    | none => (.view 0 r.2.length, pushFresh r.1 v.kind r.2)
    | some (di, sdet) =>
      match s.views[di]? with
      | none => (.bad, s)
      | some dst =>
        let s2 := r.1.applyDet sdet
        -- typedArrayCreate (1389-1403)
        if !s2.attached dst.buf then (.err .type, s2) else
        if dst.length < r.2.length then (.err .type, s2) else
        match convElems v.kind dst.kind r.2 with
        | none => (.err .type, s2)
        | some ys =>
          let s3 := writeElems s2 dst 0 ys
          (viewRes (s3.attached dst.buf) dst.lo dst.length, { s3 with views := s3.views ++ [dst] })

/-- what the callback of `map` / the element list of `of` / `from` yields at position `k` -/
def valAt (vals : List VArg) (k : Nat) : VArg := vals.getD k ⟨.undef, []⟩

/-- builtin_typedarrays.go:904: the source element of `map` is read only while it is a valid index -/
def mapRead (s : State) (v : View) (k : Nat) : State :=
  if s.attached v.buf then (s.readElem v k).2 else s

/-- ECMA-262 TypedArraySetElement after the conversion: write iff IsValidIntegerIndex -/
def putValid (s : State) (dst : View) (k : Nat) (raw : List UInt8) : State :=
  if isValidIntegerIndex (s.attached dst.buf) dst.length (k : Int) then s.writeElem dst k raw else s

/-- `map` with the default constructor: ECMA-262 %TypedArray%.prototype.map steps 7-8 (Get, Call, Set) where the
target is private: each callback result is converted (callback point) and stored. -/
def mapLoopFresh (s : State) (v : View) (vals : List VArg) (k : Nat) :
    Nat → List (List UInt8) → Res × State × List (List UInt8)
  | 0, acc => (.ok, s, acc)
  | n + 1, acc =>
    -- 904: the source element is read only while it is a valid index
    let s := mapRead s v k
    let s := s.applyDet (valAt vals k).det
    match encode v.kind (valAt vals k).num with
    | none => (.err .type, s, acc)
    | some raw => mapLoopFresh s v vals (k + 1) n (acc ++ [raw])

/-- `map` into a typed array returned by a user species constructor: ECMA-262 TypedArraySetElement — convert
(callback point), then IsValidIntegerIndex on the TARGET, then write. -/
def mapLoopDst (s : State) (v dst : View) (vals : List VArg) (k : Nat) : Nat → Res × State
  | 0 => (.ok, s)
  | n + 1 =>
    let s := mapRead s v k
    let s := s.applyDet (valAt vals k).det
    match encode dst.kind (valAt vals k).num with
    | none => (.err .type, s)
    | some raw => mapLoopDst (putValid s dst k raw) v dst vals (k + 1) n

/-- `typedArrayProto_map` (builtin_typedarrays.go:894). -/
def opMap (s : State) (vi : Nat) (sp : Species) (vals : List VArg) : Res × State :=
  match s.views[vi]? with
  | none => (.bad, s)
  | some v =>
    if speciesBad s sp then (.bad, s) else
    -- 896
    if !s.attached v.buf then (.err .type, s) else
    match sp with
    | none =>
      let r := mapLoopFresh s v vals 0 v.length []
      if r.1.isOk then (.view 0 v.length, pushFresh r.2.1 v.kind r.2.2) else (r.1, r.2.1)
    | some (di, det) =>
      match s.views[di]? with
      | none => (.bad, s)
      | some dst =>
        -- 902: typedArraySpeciesCreate(ta, [length]) → typedArrayCreate validation (1389-1403)
        let s := s.applyDet det
        if !s.attached dst.buf then (.err .type, s) else
        if dst.length < v.length then (.err .type, s) else
        match mapLoopDst s v dst vals 0 v.length with
        | (.ok, s2) => (viewRes (s2.attached dst.buf) dst.lo dst.length, { s2 with views := s2.views ++ [dst] })
        | r => r

/-- convert a list of values in order (callback point each); `none` result = TypeError -/
def convVals (s : State) (kind : Kind) : List VArg → List (List UInt8) → Res × State × List (List UInt8)
  | [], acc => (.ok, s, acc)
  | a :: as, acc =>
    let s := s.applyDet a.det
    match encode kind a.num with
    | none => (.err .type, s, acc)
    | some raw => convVals s kind as (acc ++ [raw])

/-- the constructor `%TypedArray%.of` / `.from` is applied to: a built-in typed array constructor, or a user
function that detaches and returns an existing typed array. -/
inductive Ctor
  | builtin (k : Kind)
  | user (vid : Nat) (det : List Nat)

/-- `typedArray_of` / `typedArray_from` (builtin_typedarrays.go:1319, 1368): TypedArrayCreate(C, len), then
Set(newObj, k, value) for every value — TypedArraySetElement: convert, validate the index, write at VIEW index k. -/
def opOf (s : State) (c : Ctor) (vals : List VArg) : Res × State :=
  match c with
  | .builtin kind =>
    let r := convVals s kind vals []
    if r.1.isOk then (.view 0 vals.length, pushFresh r.2.1 kind r.2.2) else (r.1, r.2.1)
  | .user di det =>
    match s.views[di]? with
    | none => (.bad, s)
    | some dst =>
      let s := s.applyDet det
      -- typedArrayCreate (1389-1403)
      if !s.attached dst.buf then (.err .type, s) else
      if dst.length < vals.length then (.err .type, s) else
      match setArrLoop s dst 0 vals with
      | (.ok, s2) => (viewRes (s2.attached dst.buf) dst.lo dst.length, { s2 with views := s2.views ++ [dst] })
      | r => r

/-- what `ArrayBuffer.prototype.slice`'s species constructor does: `none` = %ArrayBuffer%; `some (b, det)` = a user
constructor that detaches `det` and returns the existing buffer `b` -/
abbrev BufSpecies := Option (Nat × List Nat)

/-- `arrayBufferProto_slice` (builtin_typedarrays.go:111).  Follows goja in two places where ECMA-262 throws a TypeError
without touching memory: an already detached receiver behaves as an empty buffer, and a receiver detached by an argument
coercion is only rejected when `newLen > 0`. -/
def opABSlice (s : State) (b : Nat) (start fin : Option IArg) (sp : BufSpecies := none) : Res × State :=
  if b ≥ s.bufs.length then (.bad, s) else
  let l : Int := s.blen b
  let s := s.applyDet (oDet start)
  let st := relToIdx (oVal start 0) l
  let s := s.applyDet (oDet fin)
  let en := relToIdx (oVal fin l) l
  let newLen := (en - st).toNat
  match sp with
  | none =>
    if newLen > 0 then
      -- 127
      if !s.attached b then (.err .type, s) else
      let r := s.readRange b st.toNat newLen
      (.view 0 newLen, { r.2 with bufs := r.2.bufs ++ [some r.1] })
    else (.view 0 0, { s with bufs := s.bufs ++ [some []] })
  | some (nb, sdet) =>
    if nb ≥ s.bufs.length then (.bad, s) else
    -- 124: the species constructor runs (callback point) and returns buffer `nb`
    let s := s.applyDet sdet
    if newLen > 0 then
      -- 127-134
      if !s.attached b then (.err .type, s) else
      if nb == b then (.err .type, s) else
      if s.blen nb < newLen then (.err .type, s) else
      -- 135: copy(ab.data, b.data[start:stop])
      let r := s.readRange b st.toNat newLen
      let s2 := r.2.writeRange nb 0 r.1
      (.view 0 (s2.blen nb), s2)
    else (.view 0 (s.blen nb), s)

/-! ## reading methods: every element they look at must lie inside the view -/

inductive SearchMode | indexOf | lastIndexOf | includes
  deriving DecidableEq, Repr

def toDbl? : Num → Option Nat
  | .int i => some (intToF64 i)
  | .dbl b => some b
  | _ => none

def numIsNaN : Num → Bool
  | .dbl b => f64IsNaN b
  | _ => false

/-- ECMA-262 IsStrictlyEqual (`svz = false`: indexOf, lastIndexOf) / SameValueZero (`svz = true`: includes) between a
decoded element and the search value: ±0 are equal, NaN equals NaN only under SameValueZero, BigInt ≠ Number. -/
def numEq (svz : Bool) (x y : Num) : Bool :=
  match x, y with
  | .big a, .big b => a == b
  | .big _, _ => false
  | _, .big _ => false
  | _, _ =>
    match toDbl? x, toDbl? y with
    | some a, some b =>
      if f64IsNaN a || f64IsNaN b then svz && f64IsNaN a && f64IsNaN b
      else if a % 2 ^ 63 == 0 && b % 2 ^ 63 == 0 then true
      else a == b
    | _, _ => false

/-- ascending scan of elements `k, k+1, …` (n of them) -/
def scanUp (s : State) (v : View) (svz : Bool) (se : Num) (k : Nat) : Nat → Option Nat × State
  | 0 => (none, s)
  | n + 1 =>
    let r := s.readElem v k
    if numEq svz (decode v.kind r.1) se then (some k, r.2) else scanUp r.2 v svz se (k + 1) n

/-- descending scan of elements `n-1, …, 0` -/
def scanDown (s : State) (v : View) (se : Num) : Nat → Option Nat × State
  | 0 => (none, s)
  | n + 1 =>
    let r := s.readElem v n
    if numEq false (decode v.kind r.1) se then (some n, r.2) else scanDown r.2 v se n

/-- builtin_typedarrays.go:774-781 / 714-721: start index of indexOf / includes (`n < length` already known) -/
def firstFrom (n l : Int) : Int := if n < 0 then max (l + n) 0 else n

/-- builtin_typedarrays.go:860-872: start index of lastIndexOf: `length-1` without a second argument, otherwise
`min(fromIndex, length-1)` for fromIndex ≥ 0 and `fromIndex + length` (or −1) for a negative one. -/
def lastFrom (from_ : Option IArg) (l : Int) : Int :=
  match from_ with
  | none => l - 1
  | some a => if a.val ≥ 0 then min a.val (l - 1) else (if a.val + l < 0 then -1 else a.val + l)

def notFound (mode : SearchMode) : Res :=
  match mode with
  | .includes => .bool false
  | _ => .val (.int (-1))

def foundRes (mode : SearchMode) (r : Option Nat) : Res :=
  match mode, r with
  | .includes, some _ => .bool true
  | .includes, none => .bool false
  | _, some k => .val (.int k)
  | _, none => .val (.int (-1))

def typeOk (k : Kind) (se : Num) : Bool :=
  match se with
  | .big _ => k.isBig
  | .undef => false
  | _ => !k.isBig

/-- `typedArrayProto_indexOf` / `_lastIndexOf` / `_includes` (builtin_typedarrays.go:706, 766, 850). -/
def opSearch (s : State) (vi : Nat) (mode : SearchMode) (se : Num) (from_ : Option IArg) : Res × State :=
  match s.views[vi]? with
  | none => (.bad, s)
  | some v =>
    if !s.attached v.buf then (.err .type, s) else
    let l : Int := v.length
    if l == 0 then (notFound mode, s) else
    let s := s.applyDet (oDet from_)
    if mode == .lastIndexOf then
      let fi := lastFrom from_ l
      if !s.attached v.buf || numIsNaN se || !typeOk v.kind se then (notFound mode, s) else
      let r := scanDown s v se (fi + 1).toNat
      (foundRes mode r.1, r.2)
    else
      let n := oVal from_ 0
      if n ≥ l then (notFound mode, s) else
      let n' := firstFrom n l
      if !s.attached v.buf || (mode == .indexOf && numIsNaN se) || !typeOk v.kind se then (notFound mode, s) else
      let r := scanUp s v (mode == .includes) se n'.toNat (l - n').toNat
      (foundRes mode r.1, r.2)

/-- builtin_typedarrays.go:752-757: index of `at` -/
def atIndex (idx l : Int) : Int := if idx < 0 then l + idx else idx

/-- `typedArrayProto_at` (builtin_typedarrays.go:747). -/
def opAt (s : State) (vi : Nat) (idx : IArg) : Res × State :=
  match s.views[vi]? with
  | none => (.bad, s)
  | some v =>
    if !s.attached v.buf then (.err .type, s) else
    let s := s.applyDet idx.det
    let i := atIndex idx.val v.length
    if i ≥ (v.length : Int) || i < 0 then (.undef, s) else
    if !s.attached v.buf then (.undef, s) else
    let r := s.readElem v i.toNat
    (.val (decode v.kind r.1), r.2)

/-- what a callback / iterator step sees at index `k`: the element while `isValidIntegerIndex(k)`, else undefined -/
def visitRead (s : State) (v : View) (k : Nat) : Option Num × State :=
  if s.attached v.buf then
    let r := s.readElem v k
    (some (decode v.kind r.1), r.2)
  else (none, s)

/-- every / some / find* / forEach / reduce* / values() / entries(): visit the indices in ascending (`bwd = false`) or
descending order; call number `detAt` detaches `det`. `i` = number of calls made so far. -/
def visitLoop (s : State) (v : View) (bwd : Bool) (detAt : Nat) (det : List Nat) (i : Nat) :
    Nat → List (Option Num) → State × List (Option Num)
  | 0, acc => (s, acc)
  | n + 1, acc =>
    let r := visitRead s v (if bwd then n else i)
    let s := if i == detAt then r.2.applyDet det else r.2
    visitLoop s v bwd detAt det (i + 1) n (acc ++ [r.1])

/-- `arrayIterObject.next` on a typed array (array.go:20): TypeError once the buffer is detached (checked before the
length test, as long as the iterator is not exhausted), otherwise the element at the next index. `i` = index, fuel =
remaining steps including the final "done" step; after yielding element `detAt` the adversary detaches. -/
def iterLoop (s : State) (v : View) (detAt : Nat) (det : List Nat) (i : Nat) :
    Nat → List (Option Num) → Res × State
  | 0, acc => (.vals acc, s)
  | n + 1, acc =>
    if !s.attached v.buf then (.err .type, s) else
    if n == 0 then (.vals acc, s) else      -- index = length: done
    let r := s.readElem v i
    let s := if i == detAt then r.2.applyDet det else r.2
    iterLoop s v detAt det (i + 1) n (acc ++ [some (decode v.kind r.1)])

/-- `values()` / `entries()` driven to exhaustion -/
def opIterate (s : State) (vi : Nat) (detAt : Nat) (det : List Nat) : Res × State :=
  match s.views[vi]? with
  | none => (.bad, s)
  | some v =>
    -- typedArrayProto_values (1208): ensureNotDetached(true)
    if !s.attached v.buf then (.err .type, s) else
    iterLoop s v detAt det 0 (v.length + 1) []

def opVisit (s : State) (vi : Nat) (bwd : Bool) (detAt : Nat) (det : List Nat) : Res × State :=
  match s.views[vi]? with
  | none => (.bad, s)
  | some v =>
    if !s.attached v.buf then (.err .type, s) else
    let r := visitLoop s v bwd detAt det 0 v.length []
    (.vals r.2, r.1)

def joinLoop (s : State) (v : View) (k : Nat) : Nat → List (Option Num) → State × List (Option Num)
  | 0, acc => (s, acc)
  | n + 1, acc =>
    let r := visitRead s v k
    joinLoop r.2 v (k + 1) n (acc ++ [r.1])

/-- `typedArrayProto_join` (builtin_typedarrays.go:802) / toString / toLocaleString: the separator is converted first
(callback point), then every element that is still a valid index is read. -/
def opJoin (s : State) (vi : Nat) (det : List Nat) (perElem : Bool := false) : Res × State :=
  match s.views[vi]? with
  | none => (.bad, s)
  | some v =>
    -- join (804) validates on entry; toLocaleString (1196) only inside its loop, so an empty detached array passes
    if !s.attached v.buf && !(perElem && v.length == 0) then (.err .type, s) else
    let s := s.applyDet det
    let r := joinLoop s v 0 v.length []
    (.vals r.2, r.1)

/-- any prototype method that does not write to its receiver (indexOf, join, map, every, …; run on the
implementation side only): the adversary's callback / coercion runs iff the receiver passes the method's entry
check (`needAttached`) and is long enough for the callback to be invoked (`minLen`). -/
def opOther (s : State) (vi : Nat) (needAttached : Bool) (minLen : Nat) (det : List Nat) : Res × State :=
  match s.views[vi]? with
  | none => (.bad, s)
  | some v =>
    if (!needAttached || s.attached v.buf) && decide (minLen ≤ v.length) then (.ok, s.applyDet det) else (.ok, s)

/-! ## operations and histories -/

inductive Op
  | newBuf (bytes : List UInt8)
  | detach (b : Nat)
  /-- `pdet`: buffers detached by the `prototype` getter of newTarget (getPrototypeFromCtor) -/
  | newView (k : Kind) (b : Nat) (off len : Option IArg) (pdet : List Nat)
  | newDV (b : Nat) (off len : Option IArg) (pdet : List Nat)
  | get (v : Nat) (idx : Int)
  | put (v : Nat) (idx : Int) (a : VArg)
  | fill (v : Nat) (a : VArg) (start fin : Option IArg)
  | copyWithin (v : Nat) (to from_ : IArg) (fin : Option IArg)
  | setTA (v src : Nat) (off : Option IArg)
  | setArr (v : Nat) (off : Option IArg) (vals : List VArg)
  | slice (v : Nat) (start fin : Option IArg) (sp : Species)
  | subarray (v : Nat) (start fin : Option IArg) (sp : Species)
  | sort (v : Nat) (cmp : Cmp)
  | reverse (v : Nat)
  | dvGet (d : Nat) (k : Kind) (idx : IArg) (le : Bool)
  | dvSet (d : Nat) (k : Kind) (idx : IArg) (a : VArg) (le : Bool)
  | toReversed (v : Nat)
  | toSorted (v : Nat) (cmp : Cmp)
  | with_ (v : Nat) (idx : IArg) (a : VArg)
  | filter (v : Nat) (keep : List Bool) (detAt : Nat) (det : List Nat) (sp : Species)
  | map (v : Nat) (sp : Species) (vals : List VArg)
  | of_ (c : Ctor) (vals : List VArg)
  | abSlice (b : Nat) (start fin : Option IArg) (sp : BufSpecies)
  | iterate (v : Nat) (detAt : Nat) (det : List Nat)
  | search (v : Nat) (mode : SearchMode) (se : Num) (from_ : Option IArg)
  | at_ (v : Nat) (idx : IArg)
  | visit (v : Nat) (bwd : Bool) (detAt : Nat) (det : List Nat)
  | join (v : Nat) (det : List Nat) (perElem : Bool)
  /-- any read-only prototype method run only on the implementation side (indexOf, join, map, …): the model
  records just the adversary's detaches -/
  | other (v : Nat) (needAttached : Bool) (minLen : Nat) (det : List Nat)

def step (s : State) : Op → Res × State
  | .newBuf bytes => (.ok, { s with bufs := s.bufs ++ [some bytes] })
  | .detach b => (.ok, s.detach b)
  -- builtin_typedarrays.go:1455: getPrototypeFromCtor runs before any argument is looked at
  | .newView k b off len pdet => opNewView (s.applyDet pdet) k b off len
  | .newDV b off len pdet => opNewDV s b off len pdet
  | .get v idx => opGet s v idx
  | .put v idx a => opPut s v idx a
  | .fill v a st fi => opFill s v a st fi
  | .copyWithin v t f e => opCopyWithin s v t f e
  | .setTA v src off => opSetTA s v src off
  | .setArr v off vals => opSetArr s v off vals
  | .slice v st fi sp => opSlice s v st fi sp
  | .subarray v st fi sp => opSubarray s v st fi sp
  | .sort v c => opSort s v c
  | .reverse v => opReverse s v
  | .dvGet d k i le => opDVGet s d k i le
  | .dvSet d k i a le => opDVSet s d k i a le
  | .toReversed v => opToReversed s v
  | .toSorted v c => opToSorted s v c
  | .with_ v i a => opWith s v i a
  | .filter v keep detAt det sp => opFilter s v keep detAt det sp
  | .map v sp vals => opMap s v sp vals
  | .of_ c vals => opOf s c vals
  | .abSlice b st fi sp => opABSlice s b st fi sp
  | .iterate v k det => opIterate s v k det
  | .search v m se fr => opSearch s v m se fr
  | .at_ v i => opAt s v i
  | .visit v bwd k det => opVisit s v bwd k det
  | .join v det pe => opJoin s v det pe
  | .other v needAttached minLen det => opOther s v needAttached minLen det

def run (s : State) : List Op → State
  | [] => s
  | op :: ops => run (step s op).2 ops

end GojaModel.C17
