/-
C17 — `filter` under a detaching adversary: which elements are captured, and the bytes of a user-species result.

goja captures each element BEFORE its callback runs; once the receiver's buffer is detached the remaining elements are
`undefined` (zero bytes after conversion).  `filter_captured` characterises the captured list exactly; with a user species
constructor `filter_species_bytes_eq_spec` says what the returned typed array holds.
-/
import GojaModel.C17.SpeciesBytes

namespace GojaModel.C17

theorem data?_lt (s : State) (b : Nat) (d : List UInt8) (h : s.data? b = some d) : b < s.bufs.length := by
  unfold State.data? at h
  apply Classical.byContradiction
  intro hn
  rw [List.getD_eq_getElem?_getD, List.getElem?_eq_none (by omega)] at h
  cases h

/-- the adversary's move, seen from one attached buffer: it is gone iff it was named -/
theorem data?_applyDet_mem (det : List Nat) : ∀ (s : State) (b : Nat) (d : List UInt8), s.data? b = some d →
    (s.applyDet det).data? b = if b ∈ det then none else some d := by
  induction det with
  | nil => intro s b d h; simpa [State.applyDet] using h
  | cons x xs ih =>
    intro s b d h
    have hstep : (s.applyDet (x :: xs)) = (s.detach x).applyDet xs := rfl
    rw [hstep]
    by_cases hx : x = b
    · subst hx
      have hn : (s.detach x).data? x = none := by
        unfold State.detach State.data?
        rw [data?_set, if_pos ⟨rfl, data?_lt s x d h⟩]
      rw [data?_applyDet_none _ _ _ hn, if_pos (List.mem_cons_self ..)]
    · have hs : (s.detach x).data? b = some d := by
        unfold State.detach State.data?
        rw [data?_set, if_neg (by intro hh; exact hx hh.1)]
        exact h
      rw [ih _ b d hs]
      have : (b ∈ x :: xs) ↔ b ∈ xs := by
        rw [List.mem_cons]
        constructor
        · intro h'; rcases h' with h' | h'
          · exact absurd h'.symm hx
          · exact h'
        · intro h'; exact Or.inr h'
      simp only [this]

/-- what `filter` hands to callback `k` / captures for the result: the live element up to and including the call that
detaches, afterwards the live element only if the receiver's buffer was not among the detached ones -/
def captured (d : List UInt8) (v : View) (detAt : Nat) (det : List Nat) (k : Nat) : List UInt8 :=
  if k ≤ detAt ∨ v.buf ∉ det then elemAt d v k else zeros v.kind.size

/-- the receiver's buffer as the loop sees it before call `k` -/
def filterData (d : List UInt8) (v : View) (detAt : Nat) (det : List Nat) (k : Nat) : Option (List UInt8) :=
  if k ≤ detAt ∨ v.buf ∉ det then some d else none

theorem filterRead_data (s : State) (v : View) (k b : Nat) : (filterRead s v k).2.data? b = s.data? b := by
  unfold filterRead
  split
  · exact readElem_data s v k b
  · rfl

theorem filterLoop_captured (d : List UInt8) (v : View) (keep : List Bool) (detAt : Nat) (det : List Nat) :
    ∀ (n : Nat) (s : State) (k : Nat) (acc : List (List UInt8)), s.data? v.buf = filterData d v detAt det k →
      (filterLoop s v keep detAt det k n acc).2 =
        acc ++ ((List.range' k n).filter (fun i => keep.getD i false)).map (captured d v detAt det) := by
  intro n
  induction n with
  | zero => intro s k acc _; simp [filterLoop]
  | succ n ih =>
    intro s k acc h
    unfold filterLoop; dsimp only
    have hval : (filterRead s v k).1 = captured d v detAt det k := by
      unfold filterRead captured
      unfold filterData at h
      by_cases c : k ≤ detAt ∨ v.buf ∉ det
      · rw [if_pos c] at h ⊢
        have ha : s.attached v.buf = true := by unfold State.attached; rw [h]; rfl
        rw [if_pos ha]
        exact (readElem_value s v d k h).1
      · rw [if_neg c] at h ⊢
        have ha : ¬ s.attached v.buf = true := by unfold State.attached; rw [h]; simp
        rw [if_neg ha]
    have hnext : (if (k == detAt) = true then (filterRead s v k).2.applyDet det else (filterRead s v k).2).data? v.buf =
        filterData d v detAt det (k + 1) := by
      have h0 : (filterRead s v k).2.data? v.buf = filterData d v detAt det k := by rw [filterRead_data]; exact h
      by_cases hk : k = detAt
      · have : (k == detAt) = true := by simp [hk]
        rw [if_pos this]
        have h1 : (filterRead s v k).2.data? v.buf = some d := by
          rw [h0]; unfold filterData; rw [if_pos (Or.inl (by omega))]
        rw [data?_applyDet_mem det _ _ d h1]
        unfold filterData
        by_cases hm : v.buf ∈ det
        · rw [if_pos hm, if_neg (fun hh => hh.elim (fun h' => by omega) (fun h' => h' hm))]
        · rw [if_neg hm, if_pos (Or.inr hm)]
      · have : ¬ (k == detAt) = true := by simp [hk]
        rw [if_neg this, h0]
        unfold filterData
        by_cases c : k ≤ detAt ∨ v.buf ∉ det
        · rw [if_pos c, if_pos (c.elim (fun h' => Or.inl (by omega)) (fun h' => Or.inr h'))]
        · rw [if_neg c, if_neg (fun hh => c (hh.elim (fun h' => Or.inl (by omega)) (fun h' => Or.inr h')))]
    rw [ih _ (k + 1) _ hnext, hval]
    simp only [List.range'_succ, List.filter_cons]
    by_cases hkeep : keep.getD k false = true
    · rw [if_pos hkeep, if_pos hkeep, List.map_cons, List.append_assoc]; rfl
    · rw [if_neg hkeep, if_neg hkeep]

/-- **`filter` under an adversary: the captured elements** — for a receiver with content `d`, the list of raw elements
that `filter` keeps is exactly: for every index the callback accepted, the live element if the receiver's buffer was still
attached at that call (the detaching call itself still sees the live element), zero bytes afterwards. -/
theorem filter_captured (s : State) (v : View) (keep : List Bool) (detAt : Nat) (det : List Nat) (d : List UInt8)
    (hd : s.data? v.buf = some d) :
    (filterLoop s v keep detAt det 0 v.length []).2 =
      ((List.range' 0 v.length).filter (fun i => keep.getD i false)).map (captured d v detAt det) := by
  have := filterLoop_captured d v keep detAt det v.length s 0 [] (by
    rw [hd]; unfold filterData; rw [if_pos (Or.inl (Nat.zero_le _))])
  rw [this, List.nil_append]

theorem filterLoop_data_cases (v : View) (keep : List Bool) (detAt : Nat) (det : List Nat) (b : Nat) :
    ∀ (n : Nat) (s : State) (k : Nat) (acc : List (List UInt8)),
      (filterLoop s v keep detAt det k n acc).1.data? b = none ∨ (filterLoop s v keep detAt det k n acc).1.data? b = s.data? b := by
  intro n
  induction n with
  | zero => intro s k acc; right; rfl
  | succ n ih =>
    intro s k acc
    unfold filterLoop; dsimp only
    rcases ih (if (k == detAt) = true then (filterRead s v k).2.applyDet det else (filterRead s v k).2) (k + 1)
      (if keep.getD k false = true then acc ++ [(filterRead s v k).1] else acc) with h | h
    · left; exact h
    · rw [h]
      split
      · rcases data?_applyDet_cases det (filterRead s v k).2 b with h' | h'
        · left; exact h'
        · right; rw [h', filterRead_data]
      · right; exact filterRead_data s v k b

/-- **`filter` with a user species constructor under an adversary**: the callbacks may detach (`detAt`, `det`), the
constructor detaches `sdet` and returns the existing typed array `dst`. If the call returns a typed array and `dst`'s
buffer is attached afterwards, then the first `m` elements of `dst` (`m` = number of kept elements) hold the kept captured
elements converted to `dst`'s kind, the buffer keeps its length, and every byte range outside them is unchanged. -/
theorem filter_species_bytes_eq_spec (s : State) (vi di : Nat) (keep : List Bool) (detAt : Nat) (det sdet : List Nat)
    (v dst : View) (d : List UInt8) (hi : Inv s) (hv : s.views[vi]? = some v) (hdv : s.views[di]? = some dst)
    (hd : s.data? dst.buf = some d)
    (lo n : Nat) (hres : (opFilter s vi keep detAt det (some (di, sdet))).1 = .view lo n)
    (d' : List UInt8) (hd' : (opFilter s vi keep detAt det (some (di, sdet))).2.data? dst.buf = some d') :
    ∃ ys, convElems v.kind dst.kind (filterLoop s v keep detAt det 0 v.length []).2 = some ys ∧ ys.length ≤ dst.length ∧
      d'.length = d.length ∧
      (∀ i, i < ys.length → elemAt d' dst i = fit dst.kind.size (ys.getD i [])) ∧
      (∀ lo n, (lo + n ≤ dst.lo ∨ (dst.offset + ys.length) * dst.kind.size ≤ lo) → window d' lo n = window d lo n) := by
  have ha : s.attached dst.buf = true := by unfold State.attached; rw [hd]; rfl
  have hb : dst.hi ≤ d.length := by
    have := (hi.views dst (List.mem_of_getElem? hdv)).2 ha
    unfold State.blen at this; rw [hd] at this; exact this
  unfold opFilter at hres hd'; rw [hv] at hres hd'; dsimp only at hres hd'
  by_cases c0 : speciesBad s (some (di, sdet)) = true
  · rw [if_pos c0] at hres; cases hres
  · rw [if_neg c0] at hres hd'
    by_cases c00 : (!s.attached v.buf) = true
    · rw [if_pos c00] at hres; cases hres
    · rw [if_neg c00, hdv] at hres hd'; dsimp only at hres hd'
      generalize hr : filterLoop s v keep detAt det 0 v.length [] = r at hres hd'
      have hcases := filterLoop_data_cases v keep detAt det dst.buf v.length s 0 []
      rw [hr] at hcases
      by_cases c1 : (!(r.1.applyDet sdet).attached dst.buf) = true
      · rw [if_pos c1] at hres; cases hres
      · rw [if_neg c1] at hres hd'
        by_cases c2 : dst.length < r.2.length
        · rw [if_pos c2] at hres; cases hres
        · rw [if_neg c2] at hres hd'
          have hd0 : (r.1.applyDet sdet).data? dst.buf = some d := by
            rcases data?_applyDet_cases sdet r.1 dst.buf with h | h
            · exfalso; apply c1; unfold State.attached; rw [h]; rfl
            · rcases hcases with h' | h'
              · exfalso; apply c1; unfold State.attached; rw [h, h']; rfl
              · rw [h, h', hd]
          cases hconv : convElems v.kind dst.kind r.2 with
          | none => rw [hconv] at hres; dsimp only at hres; cases hres
          | some ys =>
            rw [hconv] at hres hd'; dsimp only at hres hd'
            have hlen : ys.length = r.2.length := by
              rw [convElems_eq_map v.kind dst.kind r.2 ys hconv, List.length_map]
            have hbound : (dst.offset + 0 + ys.length) * dst.kind.size ≤ d.length :=
              Nat.le_trans (Nat.mul_le_mul_right _ (by omega : dst.offset + 0 + ys.length ≤ dst.offset + dst.length)) hb
            obtain ⟨d2, h1, h2, h3, h4⟩ := writeElems_elems dst ys (r.1.applyDet sdet) 0 d hd0 hbound
            have e : d' = d2 := by
              have : some d' = some d2 := by rw [← hd', ← h1]; rfl
              exact Option.some.inj this
            subst e
            refine ⟨ys, rfl, by omega, h2, ?_, ?_⟩
            · intro i hi'
              have := h3 i hi'
              rw [Nat.add_zero] at this
              exact this
            · intro lo n hlo
              apply h4
              rw [Nat.add_zero]
              exact hlo

end GojaModel.C17
