/-
  C17 helper lemmas: frame properties of the memory primitives, the touch-log predicate, the view invariant.
-/
import GojaModel.C17.Model

namespace GojaModel.C17

/-! ## sizes -/

theorem Kind.size_pos (k : Kind) : 0 < k.size := by cases k <;> decide

theorem fit_length (n : Nat) (bs : List UInt8) : (fit n bs).length = n := by simp [fit]

/-! ## shape: the part of the state that decides whether a touch is in bounds -/

def State.blen? (s : State) (b : Nat) : Option Nat := (s.data? b).map List.length

theorem attached_eq (s : State) (b : Nat) : s.attached b = (s.blen? b).isSome := by
  simp [State.attached, State.blen?]

theorem blen_eq (s : State) (b : Nat) : s.blen b = (s.blen? b).getD 0 := by
  unfold State.blen State.blen?; cases s.data? b <;> simp

theorem touchOk_eq (s : State) (b i : Nat) :
    s.touchOk b i = (match s.blen? b with | some n => decide (i < n) | none => false) := by
  unfold State.touchOk State.blen?; cases s.data? b <;> simp

/-- `t` has the same buffers (up to contents), views and DataViews as `s`. -/
structure SameShape (s t : State) : Prop where
  blen : ∀ b, t.blen? b = s.blen? b
  nbufs : t.bufs.length = s.bufs.length
  views : t.views = s.views
  dvs : t.dvs = s.dvs

theorem SameShape.refl (s : State) : SameShape s s := ⟨fun _ => rfl, rfl, rfl, rfl⟩

theorem SameShape.trans {s t u : State} (h1 : SameShape s t) (h2 : SameShape t u) : SameShape s u :=
  ⟨fun b => (h2.blen b).trans (h1.blen b), h2.nbufs.trans h1.nbufs, h2.views.trans h1.views, h2.dvs.trans h1.dvs⟩

theorem SameShape.attached {s t : State} (h : SameShape s t) (b : Nat) : t.attached b = s.attached b := by
  rw [attached_eq, attached_eq, h.blen]

theorem SameShape.blen' {s t : State} (h : SameShape s t) (b : Nat) : t.blen b = s.blen b := by
  rw [blen_eq, blen_eq, h.blen]

theorem SameShape.touchOk {s t : State} (h : SameShape s t) (b i : Nat) : t.touchOk b i = s.touchOk b i := by
  rw [touchOk_eq, touchOk_eq, h.blen]

theorem sameShape_readByte (s : State) (b i : Nat) : SameShape s (s.readByte b i).2 :=
  ⟨fun _ => rfl, rfl, rfl, rfl⟩

theorem data?_set (l : List (Option (List UInt8))) (b b' : Nat) (x : Option (List UInt8)) :
    (l.set b x).getD b' none = if b = b' ∧ b < l.length then x else l.getD b' none := by
  simp only [List.getD_eq_getElem?_getD, List.getElem?_set]
  by_cases h : b = b'
  · subst h
    by_cases h2 : b < l.length
    · simp [h2]
    · simp [h2, List.getElem?_eq_none (Nat.le_of_not_lt h2)]
  · simp [h]

theorem sameShape_writeByte (s : State) (b i : Nat) (x : UInt8) : SameShape s (s.writeByte b i x) := by
  refine ⟨?_, ?_, rfl, rfl⟩
  · intro b'
    show ((s.writeByte b i x).data? b').map List.length = (s.data? b').map List.length
    unfold State.writeByte
    cases h : s.data? b with
    | none => rfl
    | some d =>
      unfold State.data? at h ⊢
      show ((s.bufs.set b (some (d.set i x))).getD b' none).map List.length = _
      rw [data?_set]
      by_cases hb : b = b' ∧ b < s.bufs.length
      · rw [if_pos hb]
        obtain ⟨rfl, _⟩ := hb
        rw [h]; simp
      · rw [if_neg hb]
  · unfold State.writeByte
    cases h : s.data? b <;> simp

/-! ## the touch log -/

def LogAll (P : Touch → Prop) (s : State) : Prop := ∀ t ∈ s.log, P t

/-- `P` accepts every in-bounds touch of `[lo, hi)` of buffer `b`. -/
def PRange (P : Touch → Prop) (b lo hi : Nat) : Prop := ∀ i w, lo ≤ i → i < hi → P ⟨b, i, true, w⟩

/-- buffer `b` is attached and at least `hi` bytes long -/
def RangeOK (s : State) (b hi : Nat) : Prop := s.attached b = true ∧ hi ≤ s.blen b

theorem RangeOK.touchOk {s : State} {b hi i : Nat} (h : RangeOK s b hi) (hi' : i < hi) : s.touchOk b i = true := by
  obtain ⟨ha, hl⟩ := h
  rw [touchOk_eq]
  rw [attached_eq] at ha
  rw [blen_eq] at hl
  cases hb : s.blen? b with
  | none => simp [hb] at ha
  | some n => simp [hb] at hl ⊢; omega

theorem RangeOK.of_sameShape {s t : State} {b hi : Nat} (h : SameShape s t) (hr : RangeOK s b hi) : RangeOK t b hi :=
  ⟨by rw [h.attached]; exact hr.1, by rw [h.blen']; exact hr.2⟩

theorem RangeOK.mono {s : State} {b hi hi' : Nat} (hr : RangeOK s b hi) (h : hi' ≤ hi) : RangeOK s b hi' :=
  ⟨hr.1, Nat.le_trans h hr.2⟩

theorem logAll_readByte {P : Touch → Prop} {s : State} {b i lo hi : Nat} (hlog : LogAll P s)
    (hr : RangeOK s b hi) (hP : PRange P b lo hi) (h1 : lo ≤ i) (h2 : i < hi) :
    LogAll P (s.readByte b i).2 := by
  intro t ht
  simp only [State.readByte, List.mem_cons] at ht
  rcases ht with rfl | ht
  · rw [hr.touchOk h2]; exact hP i false h1 h2
  · exact hlog t ht

theorem logAll_writeByte {P : Touch → Prop} {s : State} {b i lo hi : Nat} {x : UInt8} (hlog : LogAll P s)
    (hr : RangeOK s b hi) (hP : PRange P b lo hi) (h1 : lo ≤ i) (h2 : i < hi) :
    LogAll P (s.writeByte b i x) := by
  intro t ht
  simp only [State.writeByte, List.mem_cons] at ht
  rcases ht with rfl | ht
  · rw [hr.touchOk h2]; exact hP i true h1 h2
  · exact hlog t ht

theorem readRange_spec {P : Touch → Prop} {b lo hi : Nat} (hP : PRange P b lo hi) :
    ∀ (n : Nat) (s : State) (i : Nat), LogAll P s → RangeOK s b hi → lo ≤ i → i + n ≤ hi →
      LogAll P (s.readRange b i n).2 ∧ SameShape s (s.readRange b i n).2 ∧ (s.readRange b i n).1.length = n := by
  intro n
  induction n with
  | zero => intro s i hlog _ _ _; exact ⟨hlog, SameShape.refl s, rfl⟩
  | succ n ih =>
    intro s i hlog hr h1 h2
    have hl := logAll_readByte (i := i) hlog hr hP h1 (by omega)
    have hs := sameShape_readByte s b i
    obtain ⟨a, c, d⟩ := ih (s.readByte b i).2 (i + 1) hl (hr.of_sameShape hs) (by omega) (by omega)
    exact ⟨a, hs.trans c, by simp [State.readRange, d]⟩

theorem writeRange_spec {P : Touch → Prop} {b lo hi : Nat} (hP : PRange P b lo hi) :
    ∀ (xs : List UInt8) (s : State) (i : Nat), LogAll P s → RangeOK s b hi → lo ≤ i → i + xs.length ≤ hi →
      LogAll P (s.writeRange b i xs) ∧ SameShape s (s.writeRange b i xs) := by
  intro xs
  induction xs with
  | nil => intro s i hlog _ _ _; exact ⟨hlog, SameShape.refl s⟩
  | cons x xs ih =>
    intro s i hlog hr h1 h2
    simp only [List.length_cons] at h2
    have hl := logAll_writeByte (i := i) (x := x) hlog hr hP h1 (by omega)
    have hs := sameShape_writeByte s b i x
    obtain ⟨a, c⟩ := ih (s.writeByte b i x) (i + 1) hl (hr.of_sameShape hs) (by omega) (by omega)
    exact ⟨a, hs.trans c⟩

/-! ## views -/

theorem elem_lo (v : View) (k : Nat) : v.lo ≤ (v.offset + k) * v.kind.size :=
  Nat.mul_le_mul_right _ (Nat.le_add_right _ _)

theorem elem_hi (v : View) (k n : Nat) (h : k + n ≤ v.length) :
    (v.offset + k) * v.kind.size + n * v.kind.size ≤ v.hi := by
  rw [← Nat.add_mul]
  exact Nat.mul_le_mul_right _ (by omega)

theorem elem_hi1 (v : View) (k : Nat) (h : k < v.length) :
    (v.offset + k) * v.kind.size + v.kind.size ≤ v.hi := by
  have := elem_hi v k 1 (by omega)
  simpa using this

theorem readElem_spec {P : Touch → Prop} {s : State} {v : View} {k : Nat} (hlog : LogAll P s)
    (hr : RangeOK s v.buf v.hi) (hP : PRange P v.buf v.lo v.hi) (hk : k < v.length) :
    LogAll P (s.readElem v k).2 ∧ SameShape s (s.readElem v k).2 := by
  obtain ⟨a, b, _⟩ := readRange_spec hP v.kind.size s ((v.offset + k) * v.kind.size) hlog hr (elem_lo v k) (elem_hi1 v k hk)
  exact ⟨a, b⟩

theorem writeElem_spec {P : Touch → Prop} {s : State} {v : View} {k : Nat} (raw : List UInt8) (hlog : LogAll P s)
    (hr : RangeOK s v.buf v.hi) (hP : PRange P v.buf v.lo v.hi) (hk : k < v.length) :
    LogAll P (s.writeElem v k raw) ∧ SameShape s (s.writeElem v k raw) :=
  writeRange_spec hP (fit v.kind.size raw) s ((v.offset + k) * v.kind.size) hlog hr (elem_lo v k)
    (by rw [fit_length]; exact elem_hi1 v k hk)

theorem fillLoop_spec {P : Touch → Prop} {v : View} {raw : List UInt8} (hP : PRange P v.buf v.lo v.hi) :
    ∀ (n : Nat) (s : State) (k : Nat), LogAll P s → RangeOK s v.buf v.hi → k + n ≤ v.length →
      LogAll P (fillLoop s v raw k n) ∧ SameShape s (fillLoop s v raw k n) := by
  intro n
  induction n with
  | zero => intro s k hlog _ _; exact ⟨hlog, SameShape.refl s⟩
  | succ n ih =>
    intro s k hlog hr h
    obtain ⟨a, b⟩ := writeElem_spec raw hlog hr hP (by omega : k < v.length)
    obtain ⟨c, d⟩ := ih (s.writeElem v k raw) (k + 1) a (hr.of_sameShape b) (by omega)
    exact ⟨c, b.trans d⟩

theorem readElems_spec {P : Touch → Prop} {v : View} (hP : PRange P v.buf v.lo v.hi) :
    ∀ (n : Nat) (s : State) (k : Nat), LogAll P s → RangeOK s v.buf v.hi → k + n ≤ v.length →
      LogAll P (readElems s v k n).2 ∧ SameShape s (readElems s v k n).2 ∧ (readElems s v k n).1.length = n := by
  intro n
  induction n with
  | zero => intro s k hlog _ _; exact ⟨hlog, SameShape.refl s, rfl⟩
  | succ n ih =>
    intro s k hlog hr h
    obtain ⟨a, b⟩ := readElem_spec hlog hr hP (by omega : k < v.length)
    obtain ⟨c, d, e⟩ := ih (s.readElem v k).2 (k + 1) a (hr.of_sameShape b) (by omega)
    exact ⟨c, b.trans d, by simp [readElems, e]⟩

theorem writeElems_spec {P : Touch → Prop} {v : View} (hP : PRange P v.buf v.lo v.hi) :
    ∀ (xs : List (List UInt8)) (s : State) (k : Nat), LogAll P s → RangeOK s v.buf v.hi → k + xs.length ≤ v.length →
      LogAll P (writeElems s v k xs) ∧ SameShape s (writeElems s v k xs) := by
  intro xs
  induction xs with
  | nil => intro s k hlog _ _; exact ⟨hlog, SameShape.refl s⟩
  | cons x xs ih =>
    intro s k hlog hr h
    simp only [List.length_cons] at h
    obtain ⟨a, b⟩ := writeElem_spec x hlog hr hP (by omega : k < v.length)
    obtain ⟨c, d⟩ := ih (s.writeElem v k x) (k + 1) a (hr.of_sameShape b) (by omega)
    exact ⟨c, b.trans d⟩

theorem convElems_length {src dst : Kind} : ∀ (xs ys : List (List UInt8)), convElems src dst xs = some ys → ys.length = xs.length := by
  intro xs
  induction xs with
  | nil => intro ys h; simp [convElems] at h; subst h; rfl
  | cons x xs ih =>
    intro ys h
    simp only [convElems] at h
    split at h
    · rename_i y ys' _ h2
      simp at h; subst h
      simp [ih ys' h2]
    · simp at h

/-! ## the invariant -/

/-- `view_inv`: every view (and DataView) refers to an existing buffer and, while that buffer is attached,
lies inside it. -/
structure Inv (s : State) : Prop where
  views : ∀ v ∈ s.views, v.buf < s.bufs.length ∧ (s.attached v.buf = true → v.hi ≤ s.blen v.buf)
  dvs : ∀ d ∈ s.dvs, d.buf < s.bufs.length ∧ (s.attached d.buf = true → d.byteOffset + d.byteLen ≤ s.blen d.buf)

theorem Inv.of_sameShape {s t : State} (h : SameShape s t) (hi : Inv s) : Inv t := by
  constructor
  · intro v hv
    rw [h.views] at hv
    rw [h.nbufs, h.attached, h.blen']
    exact hi.views v hv
  · intro d hd
    rw [h.dvs] at hd
    rw [h.nbufs, h.attached, h.blen']
    exact hi.dvs d hd

theorem Inv.withLog {s : State} (hi : Inv s) (l : List Touch) : Inv { s with log := l } :=
  Inv.of_sameShape (s := s) (t := { s with log := l }) ⟨fun _ => rfl, rfl, rfl, rfl⟩ hi

theorem Inv.rangeOK {s : State} (hi : Inv s) {v : View} (hv : v ∈ s.views) (ha : s.attached v.buf = true) :
    RangeOK s v.buf v.hi := ⟨ha, (hi.views v hv).2 ha⟩

theorem Inv.dvRangeOK {s : State} (hi : Inv s) {d : DView} (hd : d ∈ s.dvs) (ha : s.attached d.buf = true) :
    RangeOK s d.buf (d.byteOffset + d.byteLen) := ⟨ha, (hi.dvs d hd).2 ha⟩

/-- detaching only removes obligations -/
theorem blen?_detach (s : State) (b b' : Nat) :
    (s.detach b).blen? b' = if b = b' ∧ b < s.bufs.length then none else s.blen? b' := by
  unfold State.detach State.blen? State.data?
  simp only [data?_set]
  split <;> simp

theorem inv_detach {s : State} (hi : Inv s) (b : Nat) : Inv (s.detach b) := by
  have hlen : (s.detach b).bufs.length = s.bufs.length := by simp [State.detach]
  have key : ∀ b', (s.detach b).attached b' = true → s.attached b' = true ∧ (s.detach b).blen b' = s.blen b' := by
    intro b' h
    rw [attached_eq, blen?_detach] at h
    rw [attached_eq, blen_eq, blen_eq, blen?_detach]
    split at h
    · simp at h
    · rename_i hne; rw [if_neg hne]; exact ⟨h, rfl⟩
  constructor
  · intro v hv
    have := hi.views v (by simpa [State.detach] using hv)
    refine ⟨by rw [hlen]; exact this.1, fun ha => ?_⟩
    obtain ⟨h1, h2⟩ := key v.buf ha
    rw [h2]; exact this.2 h1
  · intro d hd
    have := hi.dvs d (by simpa [State.detach] using hd)
    refine ⟨by rw [hlen]; exact this.1, fun ha => ?_⟩
    obtain ⟨h1, h2⟩ := key d.buf ha
    rw [h2]; exact this.2 h1

theorem detach_attached {s : State} {b b' : Nat} (h : (s.detach b).attached b' = true) :
    s.attached b' = true ∧ (s.detach b).blen b' = s.blen b' := by
  rw [attached_eq, blen?_detach] at h
  rw [attached_eq, blen_eq, blen_eq, blen?_detach]
  split at h
  · simp at h
  · rename_i hne; rw [if_neg hne]; exact ⟨h, rfl⟩

/-- a buffer that is still attached after the adversary's move was attached before and has kept its length -/
theorem applyDet_attached (det : List Nat) : ∀ (s : State) (b' : Nat), (s.applyDet det).attached b' = true →
    s.attached b' = true ∧ (s.applyDet det).blen b' = s.blen b' := by
  unfold State.applyDet
  induction det with
  | nil => intro s b' h; exact ⟨h, rfl⟩
  | cons d ds ih =>
    intro s b' h
    simp only [List.foldl_cons] at h ⊢
    obtain ⟨h1, h2⟩ := ih (s.detach d) b' h
    obtain ⟨h3, h4⟩ := detach_attached h1
    exact ⟨h3, h2.trans h4⟩

theorem attached_of_applyDet (s : State) (det : List Nat) (b : Nat) (h : (s.applyDet det).attached b = true) :
    s.attached b = true := (applyDet_attached det s b h).1

theorem blen_applyDet_of_attached (s : State) (det : List Nat) (b : Nat) (h : (s.applyDet det).attached b = true) :
    s.blen b ≤ (s.applyDet det).blen b := Nat.le_of_eq (applyDet_attached det s b h).2.symm

theorem applyDet_views (s : State) (det : List Nat) : (s.applyDet det).views = s.views := by
  unfold State.applyDet
  induction det generalizing s with
  | nil => rfl
  | cons d ds ih => simp only [List.foldl_cons]; rw [ih]; rfl

theorem applyDet_dvs (s : State) (det : List Nat) : (s.applyDet det).dvs = s.dvs := by
  unfold State.applyDet
  induction det generalizing s with
  | nil => rfl
  | cons d ds ih => simp only [List.foldl_cons]; rw [ih]; rfl

theorem applyDet_log (s : State) (det : List Nat) : (s.applyDet det).log = s.log := by
  unfold State.applyDet
  induction det generalizing s with
  | nil => rfl
  | cons d ds ih => simp only [List.foldl_cons]; rw [ih]; rfl

theorem applyDet_nbufs (s : State) (det : List Nat) : (s.applyDet det).bufs.length = s.bufs.length := by
  unfold State.applyDet
  induction det generalizing s with
  | nil => rfl
  | cons d ds ih => simp only [List.foldl_cons]; rw [ih]; simp [State.detach]

theorem inv_applyDet {s : State} (hi : Inv s) (det : List Nat) : Inv (s.applyDet det) := by
  unfold State.applyDet
  induction det generalizing s with
  | nil => exact hi
  | cons d ds ih => simp only [List.foldl_cons]; exact ih (inv_detach hi d)

theorem logAll_applyDet {P : Touch → Prop} {s : State} (h : LogAll P s) (det : List Nat) : LogAll P (s.applyDet det) := by
  intro t ht; rw [applyDet_log] at ht; exact h t ht

theorem mem_of_getElem? {α} {l : List α} {i : Nat} {a : α} (h : l[i]? = some a) : a ∈ l :=
  List.mem_of_getElem? h

/-- adding a view that satisfies the invariant -/
theorem inv_pushView {s : State} (hi : Inv s) (v : View) (hb : v.buf < s.bufs.length)
    (hv : s.attached v.buf = true → v.hi ≤ s.blen v.buf) : Inv { s with views := s.views ++ [v] } := by
  constructor
  · intro w hw
    simp only [List.mem_append, List.mem_singleton] at hw
    rcases hw with hw | rfl
    · exact hi.views w hw
    · exact ⟨hb, hv⟩
  · exact hi.dvs

theorem inv_pushDV {s : State} (hi : Inv s) (d : DView) (hb : d.buf < s.bufs.length)
    (hd : s.attached d.buf = true → d.byteOffset + d.byteLen ≤ s.blen d.buf) : Inv { s with dvs := s.dvs ++ [d] } := by
  constructor
  · exact hi.views
  · intro w hw
    simp only [List.mem_append, List.mem_singleton] at hw
    rcases hw with hw | rfl
    · exact hi.dvs w hw
    · exact ⟨hb, hd⟩

/-- appending a fresh buffer -/
theorem blen?_pushBuf (s : State) (x : List UInt8) (b : Nat) (hb : b < s.bufs.length) :
    ({ s with bufs := s.bufs ++ [some x] } : State).blen? b = s.blen? b := by
  unfold State.blen? State.data?
  simp [List.getD_eq_getElem?_getD, List.getElem?_append_left hb]

theorem blen?_pushBuf_new (s : State) (x : List UInt8) :
    ({ s with bufs := s.bufs ++ [some x] } : State).blen? s.bufs.length = some x.length := by
  unfold State.blen? State.data?
  simp [List.getD_eq_getElem?_getD]

theorem inv_pushBuf {s : State} (hi : Inv s) (x : List UInt8) : Inv { s with bufs := s.bufs ++ [some x] } := by
  constructor
  · intro v hv
    have := hi.views v hv
    refine ⟨by simp; omega, ?_⟩
    rw [attached_eq, blen_eq, blen?_pushBuf s x v.buf this.1, ← attached_eq, ← blen_eq]
    exact this.2
  · intro d hd
    have := hi.dvs d hd
    refine ⟨by simp; omega, ?_⟩
    rw [attached_eq, blen_eq, blen?_pushBuf s x d.buf this.1, ← attached_eq, ← blen_eq]
    exact this.2

/-! ## index arithmetic -/

theorem relToIdx_nonneg (rel l : Int) (hl : 0 ≤ l) : 0 ≤ relToIdx rel l := by
  unfold relToIdx; split <;> omega

theorem relToIdx_le (rel l : Int) (hl : 0 ≤ l) : relToIdx rel l ≤ l := by
  unfold relToIdx; split <;> omega

end GojaModel.C17
