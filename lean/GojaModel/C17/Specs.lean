/-
  C17 per-operation lemmas (`*_spec`): for an ARBITRARY predicate `P` on touches that accepts the in-bounds touches of
  the operated view(s), the operation keeps `LogAll P` and the view invariant `Inv` — for all arguments and every
  adversary (detach lists at every callback point).  The property theorems in Props.lean are instances of these.
-/
import GojaModel.C17.Lemmas

namespace GojaModel.C17


/-- the facts that survive a callback point -/
structure Ctx (P : Touch → Prop) (s : State) : Prop where
  inv : Inv s
  log : LogAll P s

theorem Ctx.applyDet {P : Touch → Prop} {s : State} (c : Ctx P s) (det : List Nat) : Ctx P (s.applyDet det) :=
  ⟨inv_applyDet c.inv det, logAll_applyDet c.log det⟩

theorem mem_applyDet {s : State} {v : View} (h : v ∈ s.views) (det : List Nat) : v ∈ (s.applyDet det).views := by
  rw [applyDet_views]; exact h

theorem memDV_applyDet {s : State} {d : DView} (h : d ∈ s.dvs) (det : List Nat) : d ∈ (s.applyDet det).dvs := by
  rw [applyDet_dvs]; exact h

theorem not_not_attached {s : State} {b : Nat} (h : ¬(!s.attached b) = true) : s.attached b = true := by
  simpa using h

/-- memmove: read `n` bytes of one in-bounds range, then write them to another in-bounds range -/
theorem move_ctx {P : Touch → Prop} {s : State} {sb db slo dlo n sLo sHi dLo dHi : Nat} (c : Ctx P s)
    (hrs : RangeOK s sb sHi) (hPs : PRange P sb sLo sHi) (h1 : sLo ≤ slo) (h2 : slo + n ≤ sHi)
    (hrd : RangeOK s db dHi) (hPd : PRange P db dLo dHi) (h3 : dLo ≤ dlo) (h4 : dlo + n ≤ dHi) :
    Ctx P ((s.readRange sb slo n).2.writeRange db dlo (s.readRange sb slo n).1) := by
  obtain ⟨r1, r2, r3⟩ := readRange_spec hPs n s slo c.log hrs h1 h2
  obtain ⟨w1, w2⟩ := writeRange_spec hPd (s.readRange sb slo n).1 _ dlo r1 (hrd.of_sameShape r2) h3 (by rw [r3]; exact h4)
  exact ⟨c.inv.of_sameShape (r2.trans w2), w1⟩

/-! ## element get / put -/

theorem opGet_spec {P : Touch → Prop} {s : State} {vi : Nat} {v : View} (idx : Int)
    (hv : s.views[vi]? = some v) (c : Ctx P s) (hP : PRange P v.buf v.lo v.hi) :
    Ctx P (opGet s vi idx).2 := by
  unfold opGet; rw [hv]; dsimp only
  split
  · rename_i h1
    split
    · exact c
    · rename_i h2
      have hk : idx.toNat < v.length := by simp at h1; omega
      obtain ⟨a, b⟩ := readElem_spec c.log (c.inv.rangeOK (mem_of_getElem? hv) (not_not_attached h2)) hP hk
      exact ⟨c.inv.of_sameShape b, a⟩
  · exact c

theorem opPut_spec {P : Touch → Prop} {s : State} {vi : Nat} {v : View} (idx : Int) (a : VArg)
    (hv : s.views[vi]? = some v) (c : Ctx P s) (hP : PRange P v.buf v.lo v.hi) :
    Ctx P (opPut s vi idx a).2 := by
  unfold opPut; rw [hv]; dsimp only
  have c1 := c.applyDet a.det
  have m1 := mem_applyDet (mem_of_getElem? hv) a.det
  split
  · exact c1
  · split
    · rename_i h
      simp only [isValidIntegerIndex, Bool.and_eq_true, decide_eq_true_eq] at h
      obtain ⟨b, d⟩ := writeElem_spec _ c1.log (c1.inv.rangeOK m1 h.1) hP (by omega : idx.toNat < v.length)
      exact ⟨c1.inv.of_sameShape d, b⟩
    · exact c1

/-! ## fill -/

theorem fill_bounds (l x y : Int) (hl : 0 ≤ l) (hx : 0 ≤ x ∧ x ≤ l) (hy : 0 ≤ y ∧ y ≤ l) :
    x.toNat + (y.toNat - x.toNat) ≤ l.toNat := by omega

theorem opFill_spec {P : Touch → Prop} {s : State} {vi : Nat} {v : View} (a : VArg) (st fi : Option IArg)
    (hv : s.views[vi]? = some v) (c : Ctx P s) (hP : PRange P v.buf v.lo v.hi) :
    Ctx P (opFill s vi a st fi).2 := by
  unfold opFill; rw [hv]; dsimp only
  have hl : (0 : Int) ≤ (v.length : Int) := Int.natCast_nonneg _
  have c3 := ((c.applyDet (oDet st)).applyDet (oDet fi)).applyDet a.det
  have m3 := mem_applyDet (mem_applyDet (mem_applyDet (mem_of_getElem? hv) (oDet st)) (oDet fi)) a.det
  split
  · exact c
  · split
    · exact c3
    · split
      · exact c3
      · rename_i h
        have hb := fill_bounds v.length (relToIdx (oVal st 0) v.length) (relToIdx (oVal fi v.length) v.length) hl
          ⟨relToIdx_nonneg _ _ hl, relToIdx_le _ _ hl⟩ ⟨relToIdx_nonneg _ _ hl, relToIdx_le _ _ hl⟩
        obtain ⟨b, d⟩ := fillLoop_spec (raw := _) hP _ _ _ c3.log (c3.inv.rangeOK m3 (not_not_attached h)) (by simpa using hb)
        exact ⟨c3.inv.of_sameShape d, b⟩

/-! ## copyWithin -/

theorem cw_bounds (l t f e : Int) (ht : 0 ≤ t ∧ t ≤ l) (hf : 0 ≤ f ∧ f ≤ l) (he : 0 ≤ e ∧ e ≤ l)
    (hpos : cwCount l t f e > 0) :
    f.toNat + (cwCount l t f e).toNat ≤ l.toNat ∧ t.toNat + (cwCount l t f e).toNat ≤ l.toNat := by
  unfold cwCount at hpos ⊢
  split at hpos <;> rename_i h <;> simp only [h, if_true, if_false] <;> omega

theorem opCopyWithin_spec {P : Touch → Prop} {s : State} {vi : Nat} {v : View} (to from_ : IArg) (fi : Option IArg)
    (hv : s.views[vi]? = some v) (c : Ctx P s) (hP : PRange P v.buf v.lo v.hi) :
    Ctx P (opCopyWithin s vi to from_ fi).2 := by
  unfold opCopyWithin; rw [hv]; dsimp only
  have hl : (0 : Int) ≤ (v.length : Int) := Int.natCast_nonneg _
  have c3 := ((c.applyDet to.det).applyDet from_.det).applyDet (oDet fi)
  have m3 := mem_applyDet (mem_applyDet (mem_applyDet (mem_of_getElem? hv) to.det) from_.det) (oDet fi)
  split
  · exact c
  · split
    · rename_i hpos
      split
      · exact c3
      · rename_i h
        have hr := c3.inv.rangeOK m3 (not_not_attached h)
        obtain ⟨hb1, hb2⟩ := cw_bounds v.length (relToIdx to.val v.length) (relToIdx from_.val v.length)
          (relToIdx (oVal fi v.length) v.length)
          ⟨relToIdx_nonneg _ _ hl, relToIdx_le _ _ hl⟩ ⟨relToIdx_nonneg _ _ hl, relToIdx_le _ _ hl⟩
          ⟨relToIdx_nonneg _ _ hl, relToIdx_le _ _ hl⟩ hpos
        simp only [Int.toNat_natCast] at hb1 hb2
        refine move_ctx c3 hr hP (elem_lo v _) ?_ hr hP (elem_lo v _) ?_
        · exact Nat.le_trans (Nat.add_le_add_left (Nat.min_le_left _ _) _) (elem_hi v _ _ hb1)
        · exact Nat.le_trans (Nat.add_le_add_left (Nat.min_le_left _ _) _) (elem_hi v _ _ hb2)
    · exact c3

/-! ## set -/

theorem opSetTA_spec {P : Touch → Prop} {s : State} {vi si : Nat} {v src : View} (off : Option IArg)
    (hv : s.views[vi]? = some v) (hs : s.views[si]? = some src) (c : Ctx P s)
    (hP : PRange P v.buf v.lo v.hi) (hPs : PRange P src.buf src.lo src.hi) :
    Ctx P (opSetTA s vi si off).2 := by
  unfold opSetTA; rw [hv, hs]; dsimp only
  have c1 := c.applyDet (oDet off)
  have m1 := mem_applyDet (mem_of_getElem? hv) (oDet off)
  have ms1 := mem_applyDet (mem_of_getElem? hs) (oDet off)
  split
  · exact c1
  · rename_i hoff
    split
    · exact c1
    · rename_i ha
      split
      · exact c1
      · rename_i has
        split
        · exact c1
        · rename_i hfit
          have hr := c1.inv.rangeOK m1 (not_not_attached ha)
          have hrs := c1.inv.rangeOK ms1 (not_not_attached has)
          have hfit' : (oVal off 0).toNat + src.length ≤ v.length := by omega
          split
          · rename_i hk
            have hk' : src.kind = v.kind := by simpa using hk
            have e1 : src.offset * v.kind.size = src.lo := by simp [View.lo, hk']
            have e2 : src.lo + src.length * v.kind.size = src.hi := by simp [View.lo, View.hi, hk', Nat.add_mul]
            refine move_ctx c1 hrs hPs (Nat.le_of_eq e1.symm) ?_ hr hP (elem_lo v _) ?_
            · rw [e1]; exact Nat.le_trans (Nat.add_le_add_left (Nat.min_le_left _ _) _) (Nat.le_of_eq e2)
            · exact Nat.le_trans (Nat.add_le_add_left (Nat.min_le_left _ _) _) (elem_hi v _ _ hfit')
          · split
            · exact c1
            · obtain ⟨r1, r2, r3⟩ := readElems_spec hPs src.length _ 0 c1.log hrs (by omega)
              split
              · exact ⟨c1.inv.of_sameShape r2, r1⟩
              · rename_i ys hys
                have hlen := convElems_length _ _ hys
                obtain ⟨w1, w2⟩ := writeElems_spec hP ys _ (oVal off 0).toNat r1 (hr.of_sameShape r2) (by rw [hlen, r3]; exact hfit')
                exact ⟨c1.inv.of_sameShape (r2.trans w2), w1⟩

theorem setArrLoop_spec {P : Touch → Prop} {v : View} (hP : PRange P v.buf v.lo v.hi) :
    ∀ (vals : List VArg) (s : State) (k : Nat), Ctx P s → v ∈ s.views → Ctx P (setArrLoop s v k vals).2 := by
  intro vals
  induction vals with
  | nil => intro s k c _; exact c
  | cons a as ih =>
    intro s k c m
    unfold setArrLoop; dsimp only
    have c1 := c.applyDet a.det
    have m1 := mem_applyDet m a.det
    split
    · exact c1
    · apply ih
      · split
        · rename_i h
          simp only [isValidIntegerIndex, Bool.and_eq_true, decide_eq_true_eq] at h
          obtain ⟨b, d⟩ := writeElem_spec _ c1.log (c1.inv.rangeOK m1 h.1) hP (by omega : k < v.length)
          exact ⟨c1.inv.of_sameShape d, b⟩
        · exact c1
      · split
        · rename_i h
          simp only [isValidIntegerIndex, Bool.and_eq_true, decide_eq_true_eq] at h
          obtain ⟨_, d⟩ := writeElem_spec (P := fun _ => True) _ (fun _ _ => trivial) (c1.inv.rangeOK m1 h.1)
            (fun _ _ _ _ => trivial) (by omega : k < v.length)
          rw [d.views]; exact m1
        · exact m1

theorem opSetArr_spec {P : Touch → Prop} {s : State} {vi : Nat} {v : View} (off : Option IArg) (vals : List VArg)
    (hv : s.views[vi]? = some v) (c : Ctx P s) (hP : PRange P v.buf v.lo v.hi) :
    Ctx P (opSetArr s vi off vals).2 := by
  unfold opSetArr; rw [hv]; dsimp only
  have c1 := c.applyDet (oDet off)
  have m1 := mem_applyDet (mem_of_getElem? hv) (oDet off)
  split
  · exact c1
  · split
    · exact c1
    · split
      · exact c1
      · exact setArrLoop_spec hP vals _ _ c1 m1

/-! ## sort / reverse -/

theorem insertBy_length {α} (lt : α → α → Bool) (x : α) (l : List α) : (insertBy lt x l).length = l.length + 1 := by
  induction l with
  | nil => rfl
  | cons y ys ih => simp only [insertBy]; split <;> simp [ih]

theorem stableSort_length {α} (lt : α → α → Bool) (l : List α) : (stableSort lt l).length = l.length := by
  unfold stableSort
  suffices ∀ acc : List α, (l.foldl (fun acc x => insertBy lt x acc) acc).length = acc.length + l.length by simpa using this []
  induction l with
  | nil => intro acc; rfl
  | cons x xs ih => intro acc; simp only [List.foldl_cons, ih, insertBy_length, List.length_cons]; omega

theorem opSort_spec {P : Touch → Prop} {s : State} {vi : Nat} {v : View} (cmp : Cmp)
    (hv : s.views[vi]? = some v) (c : Ctx P s) (hP : PRange P v.buf v.lo v.hi) :
    Ctx P (opSort s vi cmp).2 := by
  unfold opSort; rw [hv]; dsimp only
  have m := mem_of_getElem? hv
  split
  · exact c
  · rename_i ha
    have hr := c.inv.rangeOK m (not_not_attached ha)
    obtain ⟨r1, r2, r3⟩ := readElems_spec hP v.length s 0 c.log hr (by omega)
    split
    · obtain ⟨w1, w2⟩ := writeElems_spec hP (stableSort (fun a b => numLess (decode v.kind a) (decode v.kind b)) (readElems s v 0 v.length).1) _ 0 r1 (hr.of_sameShape r2)
        (by rw [stableSort_length, r3]; omega)
      exact ⟨c.inv.of_sameShape (r2.trans w2), w1⟩
    · rename_i det
      split
      · exact c
      · have c2 : Ctx P (readElems s v 0 v.length).2 := ⟨c.inv.of_sameShape r2, r1⟩
        have c3 := c2.applyDet det
        have m3 : v ∈ ((readElems s v 0 v.length).2.applyDet det).views := mem_applyDet (by rw [r2.views]; exact m) det
        split
        · exact c3
        · rename_i ha2
          obtain ⟨w1, w2⟩ := writeElems_spec hP (stableSort (fun a b => numLess (decode v.kind b) (decode v.kind a)) (readElems s v 0 v.length).1) _ 0 c3.log
            (c3.inv.rangeOK m3 (not_not_attached ha2)) (by rw [stableSort_length, r3]; omega)
          exact ⟨c3.inv.of_sameShape w2, w1⟩

theorem opReverse_spec {P : Touch → Prop} {s : State} {vi : Nat} {v : View}
    (hv : s.views[vi]? = some v) (c : Ctx P s) (hP : PRange P v.buf v.lo v.hi) :
    Ctx P (opReverse s vi).2 := by
  unfold opReverse; rw [hv]; dsimp only
  split
  · exact c
  · rename_i ha
    have hr := c.inv.rangeOK (mem_of_getElem? hv) (not_not_attached ha)
    obtain ⟨r1, r2, r3⟩ := readElems_spec hP v.length s 0 c.log hr (by omega)
    obtain ⟨w1, w2⟩ := writeElems_spec hP (readElems s v 0 v.length).1.reverse _ 0 r1 (hr.of_sameShape r2)
      (by rw [List.length_reverse, r3]; omega)
    exact ⟨c.inv.of_sameShape (r2.trans w2), w1⟩

/-! ## DataView -/

theorem dv_bounds (idx size byteLen : Int) (h0 : toIndexOk idx = true) (h : dvRangeOk idx size byteLen = true) :
    0 ≤ idx ∧ idx + size ≤ byteLen := by
  simp [toIndexOk, dvRangeOk] at h0 h
  omega

theorem opDVGet_spec {P : Touch → Prop} {s : State} {di : Nat} {d : DView} (k : Kind) (idx : IArg) (le : Bool)
    (hd : s.dvs[di]? = some d) (c : Ctx P s) (hP : PRange P d.buf d.byteOffset (d.byteOffset + d.byteLen)) :
    Ctx P (opDVGet s di k idx le).2 := by
  unfold opDVGet; rw [hd]; dsimp only
  have c1 := c.applyDet idx.det
  have m1 := memDV_applyDet (List.mem_of_getElem? hd) idx.det
  split
  · exact c1
  · rename_i h0
    split
    · exact c1
    · rename_i ha
      split
      · exact c1
      · rename_i hr
        obtain ⟨b1, b2⟩ := dv_bounds idx.val k.size d.byteLen (by simpa using h0) (by simpa using hr)
        obtain ⟨r1, r2, _⟩ := readRange_spec hP k.size _ (idx.val.toNat + d.byteOffset) c1.log
          (c1.inv.dvRangeOK m1 (not_not_attached ha)) (by omega) (by omega)
        exact ⟨c1.inv.of_sameShape r2, r1⟩

theorem opDVSet_spec {P : Touch → Prop} {s : State} {di : Nat} {d : DView} (k : Kind) (idx : IArg) (a : VArg) (le : Bool)
    (hd : s.dvs[di]? = some d) (c : Ctx P s) (hP : PRange P d.buf d.byteOffset (d.byteOffset + d.byteLen)) :
    Ctx P (opDVSet s di k idx a le).2 := by
  unfold opDVSet; rw [hd]; dsimp only
  have c1 := c.applyDet idx.det
  have c2 := c1.applyDet a.det
  have m2 := memDV_applyDet (memDV_applyDet (List.mem_of_getElem? hd) idx.det) a.det
  split
  · exact c1
  · rename_i h0
    split
    · exact c2
    · split
      · exact c2
      · rename_i ha
        split
        · exact c2
        · rename_i hr
          obtain ⟨b1, b2⟩ := dv_bounds idx.val k.size d.byteLen (by simpa using h0) (by simpa using hr)
          obtain ⟨w1, w2⟩ := writeRange_spec hP (if le = true then fit k.size _ else (fit k.size _).reverse) _
            (idx.val.toNat + d.byteOffset) c2.log (c2.inv.dvRangeOK m2 (not_not_attached ha)) (by omega)
            (by split <;> simp [fit_length] <;> omega)
          exact ⟨c2.inv.of_sameShape w2, w1⟩

/-! ## constructors: `view_inv` is established -/

theorem view_bound_len (k : Kind) (bo len n : Int) (h0 : 0 ≤ bo) (hm : bo % (k.size : Int) = 0) (hl : 0 ≤ len)
    (hn : 0 ≤ n) (h : bo + len * (k.size : Int) ≤ n) :
    ((bo / (k.size : Int)).toNat + len.toNat) * k.size ≤ n.toNat := by
  cases k <;> simp only [Kind.size] at * <;> omega

theorem view_bound_default (k : Kind) (bo n : Int) (h0 : 0 ≤ bo) (hm : bo % (k.size : Int) = 0)
    (hn : 0 ≤ n) (hnm : n % (k.size : Int) = 0) (h : ¬ goQuot (n - bo) (k.size : Int) < 0) :
    ((bo / (k.size : Int)).toNat + (goQuot (n - bo) (k.size : Int)).toNat) * k.size ≤ n.toNat := by
  unfold goQuot at h ⊢
  cases k <;> simp only [Kind.size] at * <;> split at h <;> rename_i hd <;> simp only [hd, if_true, if_false] <;> omega

theorem ne_false_of_bne {a b : Int} (h : ¬ (a != b) = true) : a = b := by simpa using h

theorem opNewView_spec {P : Touch → Prop} {s : State} (kind : Kind) (b : Nat) (off len : Option IArg) (c : Ctx P s) :
    Ctx P (opNewView s kind b off len).2 := by
  unfold opNewView; dsimp only
  split
  · exact c
  · rename_i hb
    have c1 := c.applyDet (oDet off)
    split
    · exact c1
    · rename_i h0
      split
      · exact c1
      · rename_i hm
        have h0' : 0 ≤ oVal off 0 := by simp [toIndexOk] at h0; omega
        have hm' := ne_false_of_bne hm
        split
        · rename_i la
          have c2 := c1.applyDet la.det
          split
          · exact c2
          · rename_i hl0
            split
            · exact c2
            · rename_i ha
              split
              · exact c2
              · rename_i hfit
                have hl0' : 0 ≤ la.val := by simp [toIndexOk] at hl0; omega
                refine ⟨inv_pushView c2.inv _ (by show b < _; rw [applyDet_nbufs, applyDet_nbufs]; omega) (fun _ => ?_), c2.log⟩
                have := view_bound_len kind (oVal off 0) la.val ((((s.applyDet (oDet off)).applyDet la.det).blen b : Nat) : Int)
                  h0' hm' hl0' (Int.natCast_nonneg _) (by omega)
                simpa [View.hi] using this
        · split
          · exact c1
          · split
            · exact c1
            · rename_i hnm
              split
              · exact c1
              · rename_i hneg
                refine ⟨inv_pushView c1.inv _ (by show b < _; rw [applyDet_nbufs]; omega) (fun _ => ?_), c1.log⟩
                have := view_bound_default kind (oVal off 0) _ h0' hm' (Int.natCast_nonneg _) (ne_false_of_bne hnm) hneg
                simpa [View.hi] using this

theorem opNewDV_spec {P : Touch → Prop} {s : State} (b : Nat) (off len : Option IArg) (pdet : List Nat) (c : Ctx P s) :
    Ctx P (opNewDV s b off len pdet).2 := by
  unfold opNewDV; dsimp only
  have c1 := c.applyDet (oDet off)
  have c2 := c1.applyDet (oDet len)
  have c3 := c2.applyDet pdet
  split
  · exact c
  · rename_i hb
    split
    · exact c1
    · rename_i h0
      split
      · exact c1
      · split
        · exact c1
        · split
          · exact c2
          · split
            · exact c2
            · split
              · exact c3
              · split
                · exact c3
                · split
                  · exact c3
                  · rename_i hfit
                    split
                    · exact c3
                    · rename_i hneg
                      have h0' : 0 ≤ oVal off 0 := by simp [toIndexOk] at h0; omega
                      refine ⟨inv_pushDV c3.inv _ (by show b < _; rw [applyDet_nbufs, applyDet_nbufs, applyDet_nbufs]; omega) (fun _ => ?_), c3.log⟩
                      dsimp only
                      omega

/-! ## slice / subarray -/

theorem copyFwd_spec {P : Touch → Prop} {sb db sLo sHi dLo dHi : Nat} (hPs : PRange P sb sLo sHi) (hPd : PRange P db dLo dHi) :
    ∀ (n : Nat) (s : State) (slo dlo : Nat), LogAll P s → RangeOK s sb sHi → RangeOK s db dHi →
      sLo ≤ slo → slo + n ≤ sHi → dLo ≤ dlo → dlo + n ≤ dHi →
      LogAll P (copyFwd s sb slo db dlo n) ∧ SameShape s (copyFwd s sb slo db dlo n) := by
  intro n
  induction n with
  | zero => intro s _ _ hlog _ _ _ _ _ _; exact ⟨hlog, SameShape.refl s⟩
  | succ n ih =>
    intro s slo dlo hlog hrs hrd h1 h2 h3 h4
    have a := logAll_readByte (i := slo) hlog hrs hPs h1 (by omega)
    have sa := sameShape_readByte s sb slo
    have b := logAll_writeByte (i := dlo) (x := (s.readByte sb slo).1) a (hrd.of_sameShape sa) hPd h3 (by omega)
    have sb' := sameShape_writeByte (s.readByte sb slo).2 db dlo (s.readByte sb slo).1
    have st := sa.trans sb'
    obtain ⟨x, y⟩ := ih _ (slo + 1) (dlo + 1) b (hrs.of_sameShape st) (hrd.of_sameShape st) (by omega) (by omega) (by omega) (by omega)
    exact ⟨x, st.trans y⟩

theorem sliceConvLoop_spec {P : Touch → Prop} {src dst : View} (hPs : PRange P src.buf src.lo src.hi)
    (hPd : PRange P dst.buf dst.lo dst.hi) :
    ∀ (n : Nat) (s : State) (sk dk : Nat), LogAll P s → RangeOK s dst.buf dst.hi →
      (s.attached src.buf = true → src.hi ≤ s.blen src.buf) →
      sk + n ≤ src.length → dk + n ≤ dst.length →
      LogAll P (sliceConvLoop s src dst sk dk n).2 ∧ SameShape s (sliceConvLoop s src dst sk dk n).2 := by
  intro n
  induction n with
  | zero => intro s _ _ hlog _ _ _ _; exact ⟨hlog, SameShape.refl s⟩
  | succ n ih =>
    intro s sk dk hlog hrd hsrc h1 h2
    unfold sliceConvLoop; dsimp only
    split
    · exact ⟨hlog, SameShape.refl s⟩
    · rename_i ha
      have hrs : RangeOK s src.buf src.hi := ⟨not_not_attached ha, hsrc (not_not_attached ha)⟩
      obtain ⟨r1, r2⟩ := readElem_spec hlog hrs hPs (by omega : sk < src.length)
      split
      · exact ⟨r1, r2⟩
      · rename_i raw _
        obtain ⟨w1, w2⟩ := writeElem_spec raw r1 (hrd.of_sameShape r2) hPd (by omega : dk < dst.length)
        have st := r2.trans w2
        obtain ⟨x, y⟩ := ih _ (sk + 1) (dk + 1) w1 (hrd.of_sameShape st)
          (by rw [st.attached, st.blen']; exact hsrc) (by omega) (by omega)
        exact ⟨x, st.trans y⟩

theorem slice_count (l a b : Int) (ha : 0 ≤ a ∧ a ≤ l) (hb : 0 ≤ b ∧ b ≤ l) : a.toNat + (b - a).toNat ≤ l.toNat := by omega

theorem rangeOK_pushBuf {s : State} {b hi : Nat} (x : List UInt8) (hb : b < s.bufs.length) (h : RangeOK s b hi) :
    RangeOK ({ s with bufs := s.bufs ++ [some x] } : State) b hi := by
  unfold RangeOK at *
  rw [attached_eq, blen_eq, blen?_pushBuf s x b hb, ← attached_eq, ← blen_eq]
  exact h

theorem rangeOK_newBuf (s : State) (x : List UInt8) :
    RangeOK ({ s with bufs := s.bufs ++ [some x] } : State) s.bufs.length x.length := by
  unfold RangeOK
  rw [attached_eq, blen_eq, blen?_pushBuf_new]
  simp

theorem slice_default_ctx {P : Touch → Prop} {s2 : State} {v : View} (c2 : Ctx P s2) (m2 : v ∈ s2.views)
    (ha : s2.attached v.buf = true) (hP : PRange P v.buf v.lo v.hi) (hPnew : ∀ hi, PRange P s2.bufs.length 0 hi)
    (k cnt : Nat) (hcnt : k + cnt ≤ v.length) :
    Ctx P { copyFwd { s2 with bufs := s2.bufs ++ [some (List.replicate (cnt * v.kind.size) 0)] } v.buf
              ((v.offset + k) * v.kind.size) s2.bufs.length (0 * v.kind.size) (cnt * v.kind.size) with
            views := (copyFwd { s2 with bufs := s2.bufs ++ [some (List.replicate (cnt * v.kind.size) 0)] } v.buf
              ((v.offset + k) * v.kind.size) s2.bufs.length (0 * v.kind.size) (cnt * v.kind.size)).views ++
                [⟨s2.bufs.length, 0, cnt, v.kind⟩] } := by
  have hvb := (c2.inv.views v m2).1
  have hr := c2.inv.rangeOK m2 ha
  have hnew := rangeOK_newBuf s2 (List.replicate (cnt * v.kind.size) 0)
  rw [List.length_replicate] at hnew
  obtain ⟨x, y⟩ := copyFwd_spec (P := P) hP (hPnew (cnt * v.kind.size)) (cnt * v.kind.size)
    { s2 with bufs := s2.bufs ++ [some (List.replicate (cnt * v.kind.size) 0)] }
    ((v.offset + k) * v.kind.size) (0 * v.kind.size) c2.log
    (rangeOK_pushBuf _ hvb hr) hnew (elem_lo v _) (elem_hi v _ _ hcnt) (Nat.zero_le _) (by omega)
  refine ⟨?_, x⟩
  have i1 := (inv_pushBuf c2.inv (List.replicate (cnt * v.kind.size) 0)).of_sameShape y
  refine inv_pushView i1 _ (by show s2.bufs.length < _; rw [y.nbufs]; simp) (fun _ => ?_)
  show (0 + cnt) * v.kind.size ≤ _
  rw [y.blen']
  simpa using hnew.2

theorem opSlice_spec {P : Touch → Prop} {s : State} {vi : Nat} {v : View} (st fi : Option IArg) (sp : Species)
    (hv : s.views[vi]? = some v) (c : Ctx P s) (hP : PRange P v.buf v.lo v.hi)
    (hPnew : ∀ hi, PRange P s.bufs.length 0 hi)
    (hPd : ∀ di det dst, sp = some (di, det) → s.views[di]? = some dst → PRange P dst.buf dst.lo dst.hi) :
    Ctx P (opSlice s vi st fi sp).2 := by
  unfold opSlice; rw [hv]; dsimp only
  have hl : (0 : Int) ≤ (v.length : Int) := Int.natCast_nonneg _
  have m := mem_of_getElem? hv
  split
  · exact c
  · split
    · exact c
    · have c2 := (c.applyDet (oDet st)).applyDet (oDet fi)
      have m2 := mem_applyDet (mem_applyDet m (oDet st)) (oDet fi)
      have hcnt := slice_count v.length (relToIdx (oVal st 0) v.length) (relToIdx (oVal fi v.length) v.length)
        ⟨relToIdx_nonneg _ _ hl, relToIdx_le _ _ hl⟩ ⟨relToIdx_nonneg _ _ hl, relToIdx_le _ _ hl⟩
      simp only [Int.toNat_natCast] at hcnt
      have hnb : ((s.applyDet (oDet st)).applyDet (oDet fi)).bufs.length = s.bufs.length := by
        rw [applyDet_nbufs, applyDet_nbufs]
      split
      · -- default constructor
        split
        · split
          · exact c2
          · rename_i ha
            exact slice_default_ctx c2 m2 (not_not_attached ha) hP (by rw [hnb]; exact hPnew) _ _ hcnt
        · rename_i hc0
          have hc0' : (relToIdx (oVal fi v.length) v.length - relToIdx (oVal st 0) v.length).toNat = 0 := by omega
          refine ⟨?_, c2.log⟩
          refine inv_pushView (inv_pushBuf c2.inv _) _ (by simp) (fun _ => ?_)
          simp [View.hi, hc0']
      · -- species constructor returns an existing view
        rename_i di det _
        split
        · exact c2
        · rename_i dst hdst
          have hdst0 : s.views[di]? = some dst := by
            rw [applyDet_views, applyDet_views] at hdst; exact hdst
          have hPd' := hPd di det dst rfl hdst0
          have c3 := c2.applyDet det
          have m3 := mem_applyDet m2 det
          have md3 : dst ∈ (((s.applyDet (oDet st)).applyDet (oDet fi)).applyDet det).views :=
            mem_applyDet (mem_of_getElem? hdst) det
          split
          · exact c3
          · rename_i had
            have hrd := c3.inv.rangeOK md3 (not_not_attached had)
            split
            · exact c3
            · rename_i hlen
              split
              · rename_i hk
                have hk' : dst.kind = v.kind := by simpa using hk
                split
                · split
                  · exact c3
                  · rename_i ha
                    have hr := c3.inv.rangeOK m3 (not_not_attached ha)
                    have e1 : dst.offset * v.kind.size = dst.lo := by simp [View.lo, hk']
                    obtain ⟨x, y⟩ := copyFwd_spec hP hPd' _ _ _ (dst.offset * v.kind.size) c3.log hr hrd
                      (elem_lo v _) (elem_hi v _ _ hcnt) (Nat.le_of_eq e1.symm)
                      (by
                        rw [e1, ← hk']
                        have := elem_hi dst 0 _ (by omega : 0 + (relToIdx (oVal fi v.length) v.length - relToIdx (oVal st 0) v.length).toNat ≤ dst.length)
                        simpa [View.lo] using this)
                    refine ⟨?_, x⟩
                    have i1 := c3.inv.of_sameShape y
                    have := i1.views dst (by rw [y.views]; exact md3)
                    exact inv_pushView i1 dst this.1 this.2
                · have := c3.inv.views dst md3
                  exact ⟨inv_pushView c3.inv dst this.1 this.2, c3.log⟩
              · obtain ⟨x, y⟩ := sliceConvLoop_spec hP hPd' _ _ (relToIdx (oVal st 0) v.length).toNat 0 c3.log hrd
                  (c3.inv.views v m3).2 hcnt (by omega)
                split
                · rename_i s2 heq
                  rw [heq] at x y
                  refine ⟨?_, x⟩
                  have i1 := c3.inv.of_sameShape y
                  have := i1.views dst (by rw [y.views]; exact md3)
                  exact inv_pushView i1 dst this.1 this.2
                · exact ⟨c3.inv.of_sameShape y, x⟩

theorem opSubarray_spec {P : Touch → Prop} {s : State} {vi : Nat} {v : View} (st fi : Option IArg) (sp : Species)
    (hv : s.views[vi]? = some v) (c : Ctx P s) : Ctx P (opSubarray s vi st fi sp).2 := by
  unfold opSubarray; rw [hv]; dsimp only
  split
  · exact c
  · have c2 := (c.applyDet (oDet st)).applyDet (oDet fi)
    split
    · exact opNewView_spec _ _ _ _ c2
    · rename_i di det _
      split
      · exact c2
      · rename_i dst hdst
        have c3 := c2.applyDet det
        have md3 : dst ∈ (((s.applyDet (oDet st)).applyDet (oDet fi)).applyDet det).views :=
          mem_applyDet (mem_of_getElem? hdst) det
        split
        · exact c3
        · have := c3.inv.views dst md3
          exact ⟨inv_pushView c3.inv dst this.1 this.2, c3.log⟩

theorem inv_init : Inv ({} : State) := ⟨fun _ h => by simp at h, fun _ h => by simp at h⟩

theorem ctx0 {P : Touch → Prop} {s : State} (hi : Inv s) : Ctx P { s with log := [] } :=
  ⟨hi.withLog [], fun _ h => by simp at h⟩

/-! ## operations returning a fresh typed array -/

theorem freshBytes_length (es : Nat) (elems : List (List UInt8)) : (freshBytes es elems).length = elems.length * es := by
  induction elems with
  | nil => simp [freshBytes]
  | cons x xs ih => simp [freshBytes, fit_length, ih, Nat.add_mul]; omega

theorem ctx_pushFresh {P : Touch → Prop} {s : State} (c : Ctx P s) (kind : Kind) (elems : List (List UInt8)) :
    Ctx P (pushFresh s kind elems) := by
  refine ⟨?_, c.log⟩
  unfold pushFresh
  refine inv_pushView (inv_pushBuf c.inv _) _ (by simp) (fun _ => ?_)
  have := (rangeOK_newBuf s (freshBytes kind.size elems)).2
  rw [freshBytes_length] at this
  simpa [View.hi] using this

theorem ctx_pushAlias {P : Touch → Prop} {s : State} (c : Ctx P s) {dst : View} (hm : dst ∈ s.views) :
    Ctx P { s with views := s.views ++ [dst] } := by
  have := c.inv.views dst hm
  exact ⟨inv_pushView c.inv dst this.1 this.2, c.log⟩

theorem opToReversed_spec {P : Touch → Prop} {s : State} {vi : Nat} {v : View}
    (hv : s.views[vi]? = some v) (c : Ctx P s) (hP : PRange P v.buf v.lo v.hi) :
    Ctx P (opToReversed s vi).2 := by
  unfold opToReversed; rw [hv]; dsimp only
  split
  · exact c
  · rename_i ha
    have hr := c.inv.rangeOK (mem_of_getElem? hv) (not_not_attached ha)
    obtain ⟨r1, r2, _⟩ := readElems_spec hP v.length s 0 c.log hr (by omega)
    exact ctx_pushFresh ⟨c.inv.of_sameShape r2, r1⟩ _ _

theorem opToSorted_spec {P : Touch → Prop} {s : State} {vi : Nat} {v : View} (cmp : Cmp)
    (hv : s.views[vi]? = some v) (c : Ctx P s) (hP : PRange P v.buf v.lo v.hi) :
    Ctx P (opToSorted s vi cmp).2 := by
  unfold opToSorted; rw [hv]; dsimp only
  split
  · exact c
  · rename_i ha
    have hr := c.inv.rangeOK (mem_of_getElem? hv) (not_not_attached ha)
    obtain ⟨r1, r2, _⟩ := readElems_spec hP v.length s 0 c.log hr (by omega)
    have c2 : Ctx P (readElems s v 0 v.length).2 := ⟨c.inv.of_sameShape r2, r1⟩
    split
    · exact ctx_pushFresh c2 _ _
    · rename_i det
      apply ctx_pushFresh
      split
      · exact c2
      · exact c2.applyDet det

theorem opWith_spec {P : Touch → Prop} {s : State} {vi : Nat} {v : View} (idx : IArg) (a : VArg)
    (hv : s.views[vi]? = some v) (c : Ctx P s) (hP : PRange P v.buf v.lo v.hi) :
    Ctx P (opWith s vi idx a).2 := by
  unfold opWith; rw [hv]; dsimp only
  have c2 := (c.applyDet idx.det).applyDet a.det
  have m2 := mem_applyDet (mem_applyDet (mem_of_getElem? hv) idx.det) a.det
  split
  · exact c
  · split
    · exact c2
    · split
      · exact c2
      · rename_i h
        have ha : ((s.applyDet idx.det).applyDet a.det).attached v.buf = true := by
          simp only [isValidIntegerIndex, Bool.not_eq_true', Bool.and_eq_false_iff] at h
          cases hh : ((s.applyDet idx.det).applyDet a.det).attached v.buf with
          | true => rfl
          | false => simp [isValidIntegerIndex, hh] at h
        obtain ⟨r1, r2, _⟩ := readElems_spec hP v.length _ 0 c2.log (c2.inv.rangeOK m2 ha) (by omega)
        exact ctx_pushFresh ⟨c2.inv.of_sameShape r2, r1⟩ _ _

theorem filterRead_spec {P : Touch → Prop} {s : State} {v : View} {k : Nat} (c : Ctx P s) (m : v ∈ s.views)
    (hP : PRange P v.buf v.lo v.hi) (hk : k < v.length) :
    Ctx P (filterRead s v k).2 ∧ (filterRead s v k).2.views = s.views := by
  unfold filterRead
  split
  · rename_i ha
    obtain ⟨r1, r2⟩ := readElem_spec c.log (c.inv.rangeOK m ha) hP hk
    exact ⟨⟨c.inv.of_sameShape r2, r1⟩, r2.views⟩
  · exact ⟨c, rfl⟩

theorem filterLoop_spec {P : Touch → Prop} {v : View} (keep : List Bool) (detAt : Nat) (det : List Nat)
    (hP : PRange P v.buf v.lo v.hi) :
    ∀ (n : Nat) (s : State) (k : Nat) (acc : List (List UInt8)), Ctx P s → v ∈ s.views → k + n ≤ v.length →
      Ctx P (filterLoop s v keep detAt det k n acc).1 := by
  intro n
  induction n with
  | zero => intro s k acc c _ _; exact c
  | succ n ih =>
    intro s k acc c m h
    unfold filterLoop; dsimp only
    obtain ⟨c1, v1⟩ := filterRead_spec c m hP (by omega : k < v.length)
    apply ih
    · split
      · exact c1.applyDet det
      · exact c1
    · split
      · rw [applyDet_views, v1]; exact m
      · rw [v1]; exact m
    · omega

theorem filterLoop_views {v : View} (keep : List Bool) (detAt : Nat) (det : List Nat) :
    ∀ (n : Nat) (s : State) (k : Nat) (acc : List (List UInt8)), (filterLoop s v keep detAt det k n acc).1.views = s.views := by
  intro n
  induction n with
  | zero => intro s k acc; rfl
  | succ n ih =>
    intro s k acc
    unfold filterLoop; dsimp only
    rw [ih]
    have hr : (filterRead s v k).2.views = s.views := by
      unfold filterRead
      split
      · unfold State.readElem
        have : ∀ (m : Nat) (t : State) (lo : Nat), (t.readRange v.buf lo m).2.views = t.views := by
          intro m
          induction m with
          | zero => intro t lo; rfl
          | succ m ihm => intro t lo; simp only [State.readRange]; rw [ihm]; rfl
        exact this _ _ _
      · rfl
    split
    · rw [applyDet_views, hr]
    · exact hr

theorem opFilter_spec {P : Touch → Prop} {s : State} {vi : Nat} {v : View} (keep : List Bool) (detAt : Nat) (det : List Nat)
    (sp : Species) (hv : s.views[vi]? = some v) (c : Ctx P s) (hP : PRange P v.buf v.lo v.hi)
    (hPd : ∀ di sdet dst, sp = some (di, sdet) → s.views[di]? = some dst → PRange P dst.buf dst.lo dst.hi) :
    Ctx P (opFilter s vi keep detAt det sp).2 := by
  unfold opFilter; rw [hv]; dsimp only
  split
  · exact c
  · split
    · exact c
    · have cl := filterLoop_spec keep detAt det hP v.length s 0 [] c (mem_of_getElem? hv) (by omega)
      have vl := filterLoop_views (v := v) keep detAt det v.length s 0 []
      split
      · exact ctx_pushFresh cl _ _
      · rename_i di sdet _
        split
        · exact c
        · rename_i dst hdst
          have hPd' := hPd di sdet dst rfl hdst
          have c2 := cl.applyDet sdet
          have md : dst ∈ ((filterLoop s v keep detAt det 0 v.length []).1.applyDet sdet).views := by
            rw [applyDet_views, vl]; exact mem_of_getElem? hdst
          split
          · exact c2
          · rename_i had
            split
            · exact c2
            · rename_i hlen
              split
              · exact c2
              · rename_i ys hys
                have hl := convElems_length _ _ hys
                obtain ⟨w1, w2⟩ := writeElems_spec hPd' ys _ 0 c2.log (c2.inv.rangeOK md (not_not_attached had)) (by omega)
                exact ctx_pushAlias ⟨c2.inv.of_sameShape w2, w1⟩ (by rw [w2.views]; exact md)

/-- reading the source element of `map` when (and only when) its buffer is attached -/
theorem mapRead_spec {P : Touch → Prop} {s : State} {v : View} {k : Nat} (c : Ctx P s) (m : v ∈ s.views)
    (hP : PRange P v.buf v.lo v.hi) (hk : k < v.length) :
    Ctx P (mapRead s v k) ∧ (mapRead s v k).views = s.views := by
  unfold mapRead
  split
  · rename_i ha
    obtain ⟨r1, r2⟩ := readElem_spec c.log (c.inv.rangeOK m ha) hP hk
    exact ⟨⟨c.inv.of_sameShape r2, r1⟩, r2.views⟩
  · exact ⟨c, rfl⟩

theorem putValid_spec {P : Touch → Prop} {s : State} {dst : View} {k : Nat} (raw : List UInt8) (c : Ctx P s)
    (md : dst ∈ s.views) (hPd : PRange P dst.buf dst.lo dst.hi) :
    Ctx P (putValid s dst k raw) ∧ (putValid s dst k raw).views = s.views := by
  unfold putValid
  split
  · rename_i hvalid
    simp only [isValidIntegerIndex, Bool.and_eq_true, decide_eq_true_eq] at hvalid
    obtain ⟨w1, w2⟩ := writeElem_spec raw c.log (c.inv.rangeOK md hvalid.1) hPd (by omega : k < dst.length)
    exact ⟨⟨c.inv.of_sameShape w2, w1⟩, w2.views⟩
  · exact ⟨c, rfl⟩

theorem mapLoopFresh_spec {P : Touch → Prop} {v : View} (vals : List VArg) (hP : PRange P v.buf v.lo v.hi) :
    ∀ (n : Nat) (s : State) (k : Nat) (acc : List (List UInt8)), Ctx P s → v ∈ s.views → k + n ≤ v.length →
      Ctx P (mapLoopFresh s v vals k n acc).2.1 := by
  intro n
  induction n with
  | zero => intro s k acc c _ _; exact c
  | succ n ih =>
    intro s k acc c m h
    unfold mapLoopFresh; dsimp only
    obtain ⟨c1, v1⟩ := mapRead_spec c m hP (by omega : k < v.length)
    have c2 := c1.applyDet (valAt vals k).det
    have m2 : v ∈ ((mapRead s v k).applyDet (valAt vals k).det).views := by
      rw [applyDet_views, v1]; exact m
    split
    · exact c2
    · exact ih _ _ _ c2 m2 (by omega)

theorem mapLoopDst_spec {P : Touch → Prop} {v dst : View} (vals : List VArg) (hP : PRange P v.buf v.lo v.hi)
    (hPd : PRange P dst.buf dst.lo dst.hi) :
    ∀ (n : Nat) (s : State) (k : Nat), Ctx P s → v ∈ s.views → dst ∈ s.views → k + n ≤ v.length →
      Ctx P (mapLoopDst s v dst vals k n).2 ∧ dst ∈ (mapLoopDst s v dst vals k n).2.views := by
  intro n
  induction n with
  | zero => intro s k c _ md _; exact ⟨c, md⟩
  | succ n ih =>
    intro s k c m md h
    unfold mapLoopDst; dsimp only
    obtain ⟨c1, v1⟩ := mapRead_spec c m hP (by omega : k < v.length)
    have c2 := c1.applyDet (valAt vals k).det
    have hv2 : ((mapRead s v k).applyDet (valAt vals k).det).views = s.views := by
      rw [applyDet_views, v1]
    split
    · exact ⟨c2, by rw [hv2]; exact md⟩
    · rename_i raw _
      obtain ⟨c3, v3⟩ := putValid_spec (k := k) raw c2 (by rw [hv2]; exact md) hPd
      exact ih _ _ c3 (by rw [v3, hv2]; exact m) (by rw [v3, hv2]; exact md) (by omega)

theorem opMap_spec {P : Touch → Prop} {s : State} {vi : Nat} {v : View} (sp : Species) (vals : List VArg)
    (hv : s.views[vi]? = some v) (c : Ctx P s) (hP : PRange P v.buf v.lo v.hi)
    (hPd : ∀ di det dst, sp = some (di, det) → s.views[di]? = some dst → PRange P dst.buf dst.lo dst.hi) :
    Ctx P (opMap s vi sp vals).2 := by
  unfold opMap; rw [hv]; dsimp only
  have m := mem_of_getElem? hv
  split
  · exact c
  · split
    · exact c
    · split
      · have := mapLoopFresh_spec vals hP v.length s 0 [] c m (by omega)
        split
        · exact ctx_pushFresh this _ _
        · exact this
      · rename_i di det _
        split
        · exact c
        · rename_i dst hdst
          have hPd' := hPd di det dst rfl hdst
          have c1 := c.applyDet det
          split
          · exact c1
          · split
            · exact c1
            · obtain ⟨x, y⟩ := mapLoopDst_spec vals hP hPd' v.length _ 0 c1 (mem_applyDet m det)
                (mem_applyDet (mem_of_getElem? hdst) det) (by omega)
              split
              · rename_i s2 heq
                rw [heq] at x y
                exact ctx_pushAlias x y
              · exact x

theorem convVals_spec {P : Touch → Prop} (kind : Kind) :
    ∀ (vals : List VArg) (s : State) (acc : List (List UInt8)), Ctx P s → Ctx P (convVals s kind vals acc).2.1 := by
  intro vals
  induction vals with
  | nil => intro s acc c; exact c
  | cons a as ih =>
    intro s acc c
    unfold convVals; dsimp only
    split
    · exact c.applyDet a.det
    · exact ih _ _ (c.applyDet a.det)

theorem setArrLoop_views {v : View} : ∀ (vals : List VArg) (s : State) (k : Nat),
    (setArrLoop s v k vals).2.views = s.views := by
  intro vals
  induction vals with
  | nil => intro s k; rfl
  | cons a as ih =>
    intro s k
    unfold setArrLoop; dsimp only
    split
    · exact applyDet_views _ _
    · rw [ih]
      split
      · unfold State.writeElem
        have : ∀ (xs : List UInt8) (t : State) (i : Nat), (t.writeRange v.buf i xs).views = t.views := by
          intro xs
          induction xs with
          | nil => intro t i; rfl
          | cons x xs ihx => intro t i; simp only [State.writeRange]; rw [ihx]; rfl
        rw [this, applyDet_views]
      · exact applyDet_views _ _

theorem opOf_spec {P : Touch → Prop} {s : State} (ct : Ctor) (vals : List VArg) (c : Ctx P s)
    (hPd : ∀ di det dst, ct = .user di det → s.views[di]? = some dst → PRange P dst.buf dst.lo dst.hi) :
    Ctx P (opOf s ct vals).2 := by
  unfold opOf
  split
  · rename_i kind
    have := convVals_spec (P := P) kind vals s [] c
    dsimp only
    split
    · exact ctx_pushFresh this _ _
    · exact this
  · rename_i di det
    dsimp only
    split
    · exact c
    · rename_i dst hdst
      have hPd' := hPd di det dst rfl hdst
      have c1 := c.applyDet det
      have md := mem_applyDet (mem_of_getElem? hdst) det
      split
      · exact c1
      · split
        · exact c1
        · have x := setArrLoop_spec hPd' vals _ 0 c1 md
          have y := setArrLoop_views (v := dst) vals (s.applyDet det) 0
          split
          · rename_i s2 heq
            rw [heq] at x y
            exact ctx_pushAlias x (by rw [y]; exact md)
          · exact x

theorem attached_of_blen_pos {s : State} {b : Nat} (h : 0 < s.blen b) : s.attached b = true := by
  unfold State.blen at h
  unfold State.attached
  cases hd : s.data? b with
  | none => simp [hd] at h
  | some d => rfl

theorem opABSlice_spec {P : Touch → Prop} {s : State} (b : Nat) (st fi : Option IArg) (sp : BufSpecies) (c : Ctx P s)
    (hP : ∀ hi, PRange P b 0 hi) (hPn : ∀ nb sdet hi, sp = some (nb, sdet) → PRange P nb 0 hi) :
    Ctx P (opABSlice s b st fi sp).2 := by
  unfold opABSlice; dsimp only
  have hl : (0 : Int) ≤ (s.blen b : Int) := Int.natCast_nonneg _
  have c2 := (c.applyDet (oDet st)).applyDet (oDet fi)
  have hcnt := slice_count (s.blen b) (relToIdx (oVal st 0) (s.blen b)) (relToIdx (oVal fi (s.blen b)) (s.blen b))
    ⟨relToIdx_nonneg _ _ hl, relToIdx_le _ _ hl⟩ ⟨relToIdx_nonneg _ _ hl, relToIdx_le _ _ hl⟩
  simp only [Int.toNat_natCast] at hcnt
  split
  · exact c
  · split
    · split
      · split
        · exact c2
        · rename_i ha
          have ha' := not_not_attached ha
          have hlen : s.blen b ≤ ((s.applyDet (oDet st)).applyDet (oDet fi)).blen b :=
            Nat.le_trans (blen_applyDet_of_attached _ _ _ (attached_of_applyDet _ _ _ ha')) (blen_applyDet_of_attached _ _ _ ha')
          obtain ⟨r1, r2, _⟩ := readRange_spec (hP (s.blen b)) _ _ (relToIdx (oVal st 0) (s.blen b)).toNat c2.log
            ⟨ha', hlen⟩ (Nat.zero_le _) hcnt
          exact ⟨inv_pushBuf (c2.inv.of_sameShape r2) _, r1⟩
      · exact ⟨inv_pushBuf c2.inv _, c2.log⟩
    · rename_i nb sdet
      have c3 := c2.applyDet sdet
      split
      · exact c2
      · split
        · split
          · exact c3
          · rename_i ha
            split
            · exact c3
            · split
              · exact c3
              · rename_i hbl
                have ha' := not_not_attached ha
                have hlen : s.blen b ≤ (((s.applyDet (oDet st)).applyDet (oDet fi)).applyDet sdet).blen b :=
                  Nat.le_trans (Nat.le_trans
                    (blen_applyDet_of_attached _ _ _ (attached_of_applyDet _ _ _ (attached_of_applyDet _ _ _ ha')))
                    (blen_applyDet_of_attached _ _ _ (attached_of_applyDet _ _ _ ha')))
                    (blen_applyDet_of_attached _ _ _ ha')
                have hnb : (((s.applyDet (oDet st)).applyDet (oDet fi)).applyDet sdet).attached nb = true :=
                  attached_of_blen_pos (by omega)
                exact move_ctx c3 ⟨ha', hlen⟩ (hP (s.blen b)) (Nat.zero_le _) hcnt
                  ⟨hnb, Nat.le_refl _⟩ (hPn nb sdet _ rfl) (Nat.zero_le _) (by omega)
        · exact c3

/-! ## reading methods -/

theorem scanUp_spec {P : Touch → Prop} {v : View} (svz : Bool) (se : Num) (hP : PRange P v.buf v.lo v.hi) :
    ∀ (n : Nat) (s : State) (k : Nat), LogAll P s → RangeOK s v.buf v.hi → k + n ≤ v.length →
      LogAll P (scanUp s v svz se k n).2 ∧ SameShape s (scanUp s v svz se k n).2 := by
  intro n
  induction n with
  | zero => intro s k hlog _ _; exact ⟨hlog, SameShape.refl s⟩
  | succ n ih =>
    intro s k hlog hr h
    unfold scanUp; dsimp only
    obtain ⟨a, b⟩ := readElem_spec hlog hr hP (by omega : k < v.length)
    split
    · exact ⟨a, b⟩
    · obtain ⟨c, d⟩ := ih (s.readElem v k).2 (k + 1) a (hr.of_sameShape b) (by omega)
      exact ⟨c, b.trans d⟩

theorem scanDown_spec {P : Touch → Prop} {v : View} (se : Num) (hP : PRange P v.buf v.lo v.hi) :
    ∀ (n : Nat) (s : State), LogAll P s → RangeOK s v.buf v.hi → n ≤ v.length →
      LogAll P (scanDown s v se n).2 ∧ SameShape s (scanDown s v se n).2 := by
  intro n
  induction n with
  | zero => intro s hlog _ _; exact ⟨hlog, SameShape.refl s⟩
  | succ n ih =>
    intro s hlog hr h
    unfold scanDown; dsimp only
    obtain ⟨a, b⟩ := readElem_spec hlog hr hP (by omega : n < v.length)
    split
    · exact ⟨a, b⟩
    · obtain ⟨c, d⟩ := ih (s.readElem v n).2 a (hr.of_sameShape b) (by omega)
      exact ⟨c, b.trans d⟩

/-- the start index of lastIndexOf never exceeds `length - 1` — the bound seeded mutation C17-m1 breaks -/
theorem lastFrom_bound (from_ : Option IArg) (l : Int) (hl : 0 < l) : (lastFrom from_ l + 1).toNat ≤ l.toNat := by
  unfold lastFrom
  split
  · omega
  · split
    · omega
    · split <;> omega

theorem firstFrom_bound (n l : Int) (h : n < l) (hl : 0 < l) :
    (firstFrom n l).toNat + (l - firstFrom n l).toNat ≤ l.toNat := by
  unfold firstFrom
  split <;> omega

theorem attached_of_not_or {a : Bool} {b : Bool} (h : ¬ (!a || b) = true) : a = true := by
  cases a <;> simp at h ⊢

theorem opSearch_spec {P : Touch → Prop} {s : State} {vi : Nat} {v : View} (mode : SearchMode) (se : Num)
    (from_ : Option IArg) (hv : s.views[vi]? = some v) (c : Ctx P s) (hP : PRange P v.buf v.lo v.hi) :
    Ctx P (opSearch s vi mode se from_).2 := by
  unfold opSearch; rw [hv]; dsimp only
  have c1 := c.applyDet (oDet from_)
  have m1 := mem_applyDet (mem_of_getElem? hv) (oDet from_)
  split
  · exact c
  · split
    · exact c
    · rename_i hl0
      have hl : (0 : Int) < (v.length : Int) := by
        have : ¬ ((v.length : Int) = 0) := by simpa using hl0
        omega
      split
      · split
        · exact c1
        · rename_i h
          have ha : (s.applyDet (oDet from_)).attached v.buf = true := by
            cases hh : (s.applyDet (oDet from_)).attached v.buf with
            | true => rfl
            | false => simp [hh] at h
          have hb := lastFrom_bound from_ v.length hl
          simp only [Int.toNat_natCast] at hb
          obtain ⟨a, b⟩ := scanDown_spec se hP _ _ c1.log (c1.inv.rangeOK m1 ha) hb
          exact ⟨c1.inv.of_sameShape b, a⟩
      · split
        · exact c1
        · rename_i hn
          split
          · exact c1
          · rename_i h
            have ha : (s.applyDet (oDet from_)).attached v.buf = true := by
              cases hh : (s.applyDet (oDet from_)).attached v.buf with
              | true => rfl
              | false => simp [hh] at h
            have hb := firstFrom_bound (oVal from_ 0) v.length (by omega) hl
            simp only [Int.toNat_natCast] at hb
            obtain ⟨a, b⟩ := scanUp_spec (mode == .includes) se hP _ _ _ c1.log (c1.inv.rangeOK m1 ha) hb
            exact ⟨c1.inv.of_sameShape b, a⟩

theorem opAt_spec {P : Touch → Prop} {s : State} {vi : Nat} {v : View} (idx : IArg)
    (hv : s.views[vi]? = some v) (c : Ctx P s) (hP : PRange P v.buf v.lo v.hi) :
    Ctx P (opAt s vi idx).2 := by
  unfold opAt; rw [hv]; dsimp only
  have c1 := c.applyDet idx.det
  have m1 := mem_applyDet (mem_of_getElem? hv) idx.det
  split
  · exact c
  · split
    · exact c1
    · rename_i hi
      split
      · exact c1
      · rename_i ha
        have hk : (atIndex idx.val v.length).toNat < v.length := by
          simp only [Bool.or_eq_true, decide_eq_true_eq, not_or] at hi
          omega
        obtain ⟨a, b⟩ := readElem_spec c1.log (c1.inv.rangeOK m1 (not_not_attached ha)) hP hk
        exact ⟨c1.inv.of_sameShape b, a⟩

theorem visitRead_spec {P : Touch → Prop} {s : State} {v : View} {k : Nat} (c : Ctx P s) (m : v ∈ s.views)
    (hP : PRange P v.buf v.lo v.hi) (hk : k < v.length) :
    Ctx P (visitRead s v k).2 ∧ (visitRead s v k).2.views = s.views := by
  unfold visitRead
  split
  · rename_i ha
    obtain ⟨r1, r2⟩ := readElem_spec c.log (c.inv.rangeOK m ha) hP hk
    exact ⟨⟨c.inv.of_sameShape r2, r1⟩, r2.views⟩
  · exact ⟨c, rfl⟩

theorem visitLoop_spec {P : Touch → Prop} {v : View} (bwd : Bool) (detAt : Nat) (det : List Nat)
    (hP : PRange P v.buf v.lo v.hi) :
    ∀ (n : Nat) (s : State) (i : Nat) (acc : List (Option Num)), Ctx P s → v ∈ s.views → i + n ≤ v.length →
      Ctx P (visitLoop s v bwd detAt det i n acc).1 := by
  intro n
  induction n with
  | zero => intro s i acc c _ _; exact c
  | succ n ih =>
    intro s i acc c m h
    unfold visitLoop; dsimp only
    have hk : (if bwd = true then n else i) < v.length := by split <;> omega
    obtain ⟨c1, v1⟩ := visitRead_spec c m hP hk
    apply ih
    · split
      · exact c1.applyDet det
      · exact c1
    · split
      · rw [applyDet_views, v1]; exact m
      · rw [v1]; exact m
    · omega

theorem opVisit_spec {P : Touch → Prop} {s : State} {vi : Nat} {v : View} (bwd : Bool) (detAt : Nat) (det : List Nat)
    (hv : s.views[vi]? = some v) (c : Ctx P s) (hP : PRange P v.buf v.lo v.hi) :
    Ctx P (opVisit s vi bwd detAt det).2 := by
  unfold opVisit; rw [hv]; dsimp only
  split
  · exact c
  · exact visitLoop_spec bwd detAt det hP v.length s 0 [] c (mem_of_getElem? hv) (by omega)

theorem joinLoop_spec {P : Touch → Prop} {v : View} (hP : PRange P v.buf v.lo v.hi) :
    ∀ (n : Nat) (s : State) (k : Nat) (acc : List (Option Num)), Ctx P s → v ∈ s.views → k + n ≤ v.length →
      Ctx P (joinLoop s v k n acc).1 := by
  intro n
  induction n with
  | zero => intro s k acc c _ _; exact c
  | succ n ih =>
    intro s k acc c m h
    unfold joinLoop; dsimp only
    obtain ⟨c1, v1⟩ := visitRead_spec c m hP (by omega : k < v.length)
    exact ih _ _ _ c1 (by rw [v1]; exact m) (by omega)

theorem opJoin_spec {P : Touch → Prop} {s : State} {vi : Nat} {v : View} (det : List Nat) (pe : Bool)
    (hv : s.views[vi]? = some v) (c : Ctx P s) (hP : PRange P v.buf v.lo v.hi) :
    Ctx P (opJoin s vi det pe).2 := by
  unfold opJoin; rw [hv]; dsimp only
  split
  · exact c
  · exact joinLoop_spec hP v.length _ 0 [] (c.applyDet det) (mem_applyDet (mem_of_getElem? hv) det) (by omega)

theorem iterLoop_spec {P : Touch → Prop} {v : View} (detAt : Nat) (det : List Nat) (hP : PRange P v.buf v.lo v.hi) :
    ∀ (n : Nat) (s : State) (i : Nat) (acc : List (Option Num)), Ctx P s → v ∈ s.views → i + n ≤ v.length + 1 →
      Ctx P (iterLoop s v detAt det i n acc).2 := by
  intro n
  induction n with
  | zero => intro s i acc c _ _; exact c
  | succ n ih =>
    intro s i acc c m h
    unfold iterLoop; dsimp only
    split
    · exact c
    · rename_i ha
      split
      · exact c
      · rename_i hn
        have hn' : n ≠ 0 := by simpa using hn
        obtain ⟨r1, r2⟩ := readElem_spec c.log (c.inv.rangeOK m (not_not_attached ha)) hP (by omega : i < v.length)
        have c1 : Ctx P (s.readElem v i).2 := ⟨c.inv.of_sameShape r2, r1⟩
        apply ih
        · split
          · exact c1.applyDet det
          · exact c1
        · split
          · rw [applyDet_views, r2.views]; exact m
          · rw [r2.views]; exact m
        · omega

theorem opIterate_spec {P : Touch → Prop} {s : State} {vi : Nat} {v : View} (detAt : Nat) (det : List Nat)
    (hv : s.views[vi]? = some v) (c : Ctx P s) (hP : PRange P v.buf v.lo v.hi) :
    Ctx P (opIterate s vi detAt det).2 := by
  unfold opIterate; rw [hv]; dsimp only
  split
  · exact c
  · exact iterLoop_spec detAt det hP _ s 0 [] c (mem_of_getElem? hv) (by omega)

end GojaModel.C17
