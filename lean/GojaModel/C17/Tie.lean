/-
  C17 tie: the index / range decision functions regenerated from /repo by extract/c17.go
  (lean/GojaModel/Generated/C17_Index.lean, rewritten on every run) equal the ones the model and its
  theorems use.  A change of the Go logic changes the generated defs and breaks one of these equalities.
-/
import GojaModel.C17.Model
import GojaModel.Generated.C17_Index

namespace GojaModel.C17.Tie
open GojaModel.C17

/-- builtin_array.go `relToIdx` -/
theorem relToIdx_tie : Generated.C17.relToIdx = relToIdx := by
  funext rel l
  simp [Generated.C17.relToIdx, relToIdx]

/-- vm.go `maxInt` -/
theorem maxInt_tie : Generated.C17.maxInt = maxInt := by
  simp [Generated.C17.maxInt, maxInt]

/-- runtime.go `toIndex` accepting condition -/
theorem toIndexOk_tie : Generated.C17.toIndexOk = toIndexOk := by
  funext n
  simp [Generated.C17.toIndexOk, toIndexOk, maxInt_tie]

/-- typedarrays.go `isValidIntegerIndex` -/
theorem isValidIntegerIndex_tie (att : Bool) (len : Nat) (idx : Int) :
    Generated.C17.isValidIntegerIndex att len idx = isValidIntegerIndex att len idx := by
  simp [Generated.C17.isValidIntegerIndex, isValidIntegerIndex]

/-- typedarrays.go `getIdxAndByteOrder`: detach check first (shape enforced by the extractor), then this range test -/
theorem dvRange_tie (g s b : Int) : Generated.C17.dvOutOfRange g s b = !dvRangeOk g s b := by
  simp [Generated.C17.dvOutOfRange, dvRangeOk]

theorem dvAbsIdx_tie (g o : Nat) : Generated.C17.dvAbsIdx g o = ((g + o : Nat) : Int) := by
  simp [Generated.C17.dvAbsIdx]

/-- builtin_typedarrays.go `copyWithin`: the element count including the clamp `l - to` of commit b85e9cc -/
theorem cwCount_tie : Generated.C17.cwCount = cwCount := by
  funext l t f e
  simp [Generated.C17.cwCount, cwCount]

/-- builtin_typedarrays.go `copyWithin`: the operands of `copy` are `data[(offset+to)*es:]` and
`data[(offset+from)*es : (offset+from+count)*es]`, i.e. `count*es` bytes from the source element. -/
theorem cwCopy_tie (offset to from_ count es : Nat) :
    Generated.C17.cwDstLo offset to es = (((offset + to) * es : Nat) : Int) ∧
    Generated.C17.cwSrcLo offset from_ es = (((offset + from_) * es : Nat) : Int) ∧
    Generated.C17.cwSrcHi offset from_ count es - Generated.C17.cwSrcLo offset from_ es = ((count * es : Nat) : Int) := by
  simp only [Generated.C17.cwDstLo, Generated.C17.cwSrcLo, Generated.C17.cwSrcHi]
  refine ⟨by simp, by simp, ?_⟩
  simp only [Int.natCast_mul, Int.add_mul]
  omega

end GojaModel.C17.Tie
