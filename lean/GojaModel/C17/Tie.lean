/-
  C17 tie: the index / range decision functions regenerated from /repo by extract/c17.go
  (lean/GojaModel/Generated/C17_Index.lean, rewritten on every run) equal the ones the model and its
  theorems use.  A change of the Go logic changes the generated defs and breaks one of these equalities.
-/
import GojaModel.C17.Bytes
import GojaModel.Generated.C17_Index

namespace GojaModel.C17.Tie
open GojaModel.C17

/-- builtin_array.go `relToIdx` -/
theorem relToIdx_tie : Generated.C17.relToIdx = relToIdx := by
  funext rel l
  simp [Generated.C17.relToIdx, relToIdx]

/-- vm.go `maxInt` -/
theorem maxInt_tie : Generated.C17.maxInt = maxInt := by
  simp [Generated.C17.maxInt, maxInt]

/-- runtime.go `toIndex` accepting condition -/
theorem toIndexOk_tie : Generated.C17.toIndexOk = toIndexOk := by
  funext n
  simp [Generated.C17.toIndexOk, toIndexOk, maxInt_tie]

/-- typedarrays.go `isValidIntegerIndex` -/
theorem isValidIntegerIndex_tie (att : Bool) (len : Nat) (idx : Int) :
    Generated.C17.isValidIntegerIndex att len idx = isValidIntegerIndex att len idx := by
  simp [Generated.C17.isValidIntegerIndex, isValidIntegerIndex]

/-- typedarrays.go `getIdxAndByteOrder`: detach check first (shape enforced by the extractor), then this range test -/
theorem dvRange_tie (g s b : Int) : Generated.C17.dvOutOfRange g s b = !dvRangeOk g s b := by
  simp [Generated.C17.dvOutOfRange, dvRangeOk]

theorem dvAbsIdx_tie (g o : Nat) : Generated.C17.dvAbsIdx g o = ((g + o : Nat) : Int) := by
  simp [Generated.C17.dvAbsIdx]

/-- builtin_typedarrays.go `copyWithin`: the element count including the clamp `l - to` of commit b85e9cc -/
theorem cwCount_tie : Generated.C17.cwCount = cwCount := by
  funext l t f e
  simp [Generated.C17.cwCount, cwCount]

/-- builtin_typedarrays.go `copyWithin`: the operands of `copy` are `data[(offset+to)*es:]` and
`data[(offset+from)*es : (offset+from+count)*es]`, i.e. `count*es` bytes from the source element. -/
theorem cwCopy_tie (offset to from_ count es : Nat) :
    Generated.C17.cwDstLo offset to es = (((offset + to) * es : Nat) : Int) ∧
    Generated.C17.cwSrcLo offset from_ es = (((offset + from_) * es : Nat) : Int) ∧
    Generated.C17.cwSrcHi offset from_ count es - Generated.C17.cwSrcLo offset from_ es = ((count * es : Nat) : Int) := by
  simp only [Generated.C17.cwDstLo, Generated.C17.cwSrcLo, Generated.C17.cwSrcHi]
  refine ⟨by simp, by simp, ?_⟩
  simp only [Int.natCast_mul, Int.add_mul]
  omega

/-! ### `set` between typed arrays of different element types: pointer positions, direction test, split index, loops -/

/-- the byte positions the pointer comparison works on are the ones `setTA_diffKind_bytes_eq_goja` uses:
source element 0 at `src.offset*srcES`, target element 0 at `(ta.offset+targetOffset)*taES` (seeded mutation C17-m4
drops `targetOffset` here), source end `srcLen*srcES` further. -/
theorem setPositions_tie (srcOffset srcES taOffset targetOffset taES srcLen : Nat) :
    Generated.C17.setCurSrcIdx srcOffset srcES = ((srcOffset * srcES : Nat) : Int) ∧
    Generated.C17.setCurDstIdx taOffset targetOffset taES = (((taOffset + targetOffset) * taES : Nat) : Int) ∧
    Generated.C17.setSrcBytes srcLen srcES = ((srcLen * srcES : Nat) : Int) := by
  simp [Generated.C17.setCurSrcIdx, Generated.C17.setCurDstIdx, Generated.C17.setSrcBytes]

/-- same element size: goja loops ascending exactly when `setOrderSame` does -/
theorem setFwdSame_tie (srcLo dstLo n es : Nat) :
    (Generated.C17.setFwdSame dstLo srcLo ((srcLo : Int) + ((n * es : Nat) : Int)) = true) ↔
      (dstLo ≤ srcLo ∨ dstLo ≥ srcLo + n * es) := by
  simp only [Generated.C17.setFwdSame, Bool.or_eq_true, decide_eq_true_eq]
  omega

/-- different element sizes: goja's split index is `splitIndex` (truncating quotient of these two numbers, clamped) -/
theorem setSplit_tie (srcLo dstLo sES dES n : Nat) :
    splitIndex srcLo dstLo sES dES n =
      (let q := Int.tdiv (Generated.C17.setSplitNum dstLo srcLo) (Generated.C17.setSplitDen sES dES)
       if q < 0 then 0 else if q > (n : Int) then n else q.toNat) ∧
    Generated.C17.setSplitClamp = "if x < 0 { x = 0 } else if x > srcLen { x = srcLen }" := by
  exact ⟨rfl, by decide⟩

/-- the six loops: ascending / descending for equal sizes (`setOrderSame`), `[x, n)` ascending then `[0, x)` descending for a
smaller target, `[0, x)` ascending then `[x, n)` descending for a larger one (`setOrderDiff`) -/
theorem setLoops_tie : Generated.C17.setLoops =
    ["i := 0; i < srcLen; i++", "i := srcLen - 1; i >= 0; i--",
     "i := x; i < srcLen; i++", "i := x - 1; i >= 0; i--",
     "i := 0; i < x; i++", "i := srcLen - 1; i >= x; i--"] := by decide

/-! ### `typedArraySortCtx`: the protocol `sortCall` models -/

theorem sortCtx_tie :
    Generated.C17.sortCheckCond = "!ctx.detached && ctx.needValidate" ∧
    Generated.C17.sortCheckBody = ["ctx.detached = !ctx.ta.viewedArrayBuf.ensureNotDetached(false)", "ctx.needValidate = false"] ∧
    Generated.C17.sortLessPrologue = ["ctx.checkDetached()", "if ctx.detached { return false }"] ∧
    Generated.C17.sortSwapPrologue = ["ctx.checkDetached()", "if ctx.detached { return }"] ∧
    Generated.C17.sortLessRevalidatesAfterCompare = true := by decide

/-! ### start indices of the reading methods (regenerated from the assignment trees of the Go methods) -/

/-- indexOf / includes: "beyond the end" test and start index -/
theorem firstFrom_tie :
    Generated.C17.indexOfFrom = firstFrom ∧ Generated.C17.includesFrom = firstFrom ∧
    (∀ n l : Int, Generated.C17.indexOfBeyond n l = decide (n ≥ l)) ∧
    (∀ n l : Int, Generated.C17.includesBeyond n l = decide (n ≥ l)) := by
  refine ⟨?_, ?_, fun _ _ => rfl, fun _ _ => rfl⟩
  · funext n l; simp [Generated.C17.indexOfFrom, firstFrom]
  · funext n l; simp [Generated.C17.includesFrom, firstFrom]

/-- lastIndexOf: `length-1` without a second argument, otherwise `min(fromIndex, length-1)` / `fromIndex + length` / −1 —
seeded mutation C17-m1 (`min(fromIndex, length)`) changes the regenerated definition and breaks this equality -/
theorem lastFrom_tie (l : Int) (a : IArg) :
    lastFrom none l = Generated.C17.lastIndexOfFromNoArg l ∧
    lastFrom (some a) l = Generated.C17.lastIndexOfFromArg a.val l := by
  constructor
  · simp [lastFrom, Generated.C17.lastIndexOfFromNoArg]
  · simp [lastFrom, Generated.C17.lastIndexOfFromArg]

/-- at: relative index and range test -/
theorem atIndex_tie :
    Generated.C17.atIdx = atIndex ∧
    (∀ i l : Int, Generated.C17.atOutOfRange i l = (decide (i ≥ l) || decide (i < 0))) := by
  refine ⟨?_, fun _ _ => rfl⟩
  funext i l; simp [Generated.C17.atIdx, atIndex]

/-- slice between views of the same element type: goja uses `copy` exactly when `sliceMech` does, and otherwise the forward
byte loop (`sliceMech_eq_spec` shows both equal ECMA-262's forward copy) -/
theorem sliceMech_tie (srcLo dstLo n : Nat) :
    ((Generated.C17.sliceMemmoveOk dstLo srcLo n = true) ↔ (dstLo ≤ srcLo ∨ dstLo ≥ srcLo + n)) ∧
    Generated.C17.sliceByteLoop = ["i := 0; i < byteCount; i++", "dstBuf[i] = srcBuf[i]"] := by
  refine ⟨?_, by decide⟩
  simp only [Generated.C17.sliceMemmoveOk, Bool.or_eq_true, decide_eq_true_eq]
  omega

/-! ### order of callback points (`cb:`), detach / index checks (`check:`) and element touches (`touch:`)

Regenerated per method from the Go AST (call expressions in evaluation order).  These sequences are what the model's
operations transcribe: e.g. `fill` = entry check, three coercions (start, end, value), a second check, then the writes —
mutation M4 of the first round (dropping the second check) changes the sequence.  `putIdx` stands for a call of `_putIdx`
(convert, validate the index, write), whose own sequence is the second entry. -/

theorem guardEvents_tie :
    Generated.C17.events_getIdx = ["check:ensureNotDetached", "touch:get"] ∧
    Generated.C17.events_putIdx = ["cb:toBigInt", "cb:ToNumber", "check:isValidIntegerIndex", "touch:set"] ∧
    Generated.C17.events_typedArrayProto_fill = ["check:ensureNotDetached", "cb:ToInteger", "cb:ToInteger", "cb:toRaw", "check:ensureNotDetached", "touch:setRaw"] ∧
    Generated.C17.events_typedArrayProto_copyWithin = ["check:ensureNotDetached", "cb:ToInteger", "cb:ToInteger", "cb:ToInteger", "check:ensureNotDetached", "touch:copy"] ∧
    Generated.C17.events_typedArrayProto_set = ["cb:ToObject", "cb:ToInteger", "check:ensureNotDetached", "check:ensureNotDetached", "touch:copy", "touch:get", "touch:set", "touch:get", "touch:set", "touch:get", "touch:set", "touch:get", "touch:set", "touch:get", "touch:set", "touch:get", "touch:set", "cb:getStr", "cb:getIdx", "putIdx"] ∧
    Generated.C17.events_typedArrayProto_slice = ["check:ensureNotDetached", "cb:ToInteger", "cb:ToInteger", "cb:typedArraySpeciesCreate", "check:ensureNotDetached", "touch:copy", "check:ensureNotDetached", "touch:get", "touch:set"] ∧
    Generated.C17.events_typedArrayProto_with = ["cb:ToObject", "check:ensureNotDetached", "cb:ToInteger", "cb:toBigInt", "cb:ToNumber", "check:isValidIntegerIndex", "cb:typedArrayCreate", "touch:copy", "touch:set"] ∧
    Generated.C17.events_typedArrayProto_at = ["check:ensureNotDetached", "cb:ToInteger", "check:ensureNotDetached", "touch:get"] ∧
    Generated.C17.events_typedArrayProto_indexOf = ["check:ensureNotDetached", "cb:ToInteger", "check:ensureNotDetached", "cb:toRaw", "touch:getRaw"] ∧
    Generated.C17.events_typedArrayProto_lastIndexOf = ["check:ensureNotDetached", "cb:ToInteger", "check:ensureNotDetached", "cb:toRaw", "touch:getRaw"] ∧
    Generated.C17.events_typedArrayProto_includes = ["check:ensureNotDetached", "cb:ToInteger", "check:ensureNotDetached", "cb:toRaw", "touch:getRaw"] ∧
    Generated.C17.events_typedArrayProto_map = ["check:ensureNotDetached", "cb:typedArraySpeciesCreate", "check:isValidIntegerIndex", "touch:get", "cb:callbackFn", "putIdx"] ∧
    Generated.C17.events_typedArray_of = ["cb:typedArrayCreate", "putIdx"] ∧
    Generated.C17.events_typedArrayProto_reverse = ["check:ensureNotDetached", "touch:swap"] ∧
    Generated.C17.events_getIdxAndByteOrder = ["check:ensureNotDetached"] ∧
    Generated.C17.events_Less = ["check:checkDetached", "touch:get", "touch:get", "cb:compare", "cb:ToNumber", "touch:less"] ∧
    Generated.C17.events_Swap = ["check:checkDetached", "touch:swap"] := by decide

end GojaModel.C17.Tie
