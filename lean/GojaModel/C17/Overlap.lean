/-
  C17 — `set` between typed arrays of DIFFERENT element types on ONE buffer: goja converts element by element with
  LIVE reads, choosing the visiting order so that no source element is overwritten before it has been read
  (builtin_typedarrays.go:1022-1059); ECMA-262 clones the source first.  This file proves that the two agree:

    * `live_eq_clone`     a visiting order that never writes a target element over a not-yet-read source element gives
                          the clone-then-write result (bytes of a buffer chunked into elements of size `sES` / `dES`);
    * `cloneRun_perm`     the clone-then-write result does not depend on the order;
    * `setOrder_safe_*`   goja's orders are such orders: same element size (forward / backward by the pointer test) and
                          different element sizes (the split index `x = (curDst-curSrc)/(srcES-dstES)` clamped to
                          [0, srcLen], forward on one side of it and backward on the other).
-/
import GojaModel.C17.Refine

namespace GojaModel.C17

/-! ## live and cloned element transfers on a byte array -/

/-- parameters of one `set`: per-element conversion, element sizes, byte position of source / target element 0 -/
structure Xfer where
  f : List UInt8 → List UInt8
  sES : Nat
  dES : Nat
  srcLo : Nat
  dstLo : Nat

/-- store the conversion of source element `i` (taken from `from_`) into target element `i` of `d` -/
def Xfer.step (x : Xfer) (from_ d : List UInt8) (i : Nat) : List UInt8 :=
  splice d (x.dstLo + i * x.dES) (fit x.dES (x.f (window from_ (x.srcLo + i * x.sES) x.sES)))

/-- goja: every element is read from the CURRENT bytes -/
def Xfer.live (x : Xfer) (d : List UInt8) : List Nat → List UInt8
  | [] => d
  | i :: is => x.live (x.step d d i) is

/-- ECMA-262: every element is read from the bytes as they were before (`d0`, the cloned source) -/
def Xfer.clone (x : Xfer) (d0 d : List UInt8) : List Nat → List UInt8
  | [] => d
  | i :: is => x.clone d0 (x.step d0 d i) is

/-- target element `j` and source element `i` do not share a byte -/
def Xfer.disj (x : Xfer) (j i : Nat) : Prop :=
  x.dstLo + j * x.dES + x.dES ≤ x.srcLo + i * x.sES ∨ x.srcLo + i * x.sES + x.sES ≤ x.dstLo + j * x.dES

/-- `order` never stores a target element over a source element that is still to be read (`done` = already stored) -/
def Xfer.Safe (x : Xfer) : List Nat → List Nat → Prop
  | _, [] => True
  | done, i :: is => (∀ j ∈ done, x.disj j i) ∧ x.Safe (i :: done) is

theorem window_congr (d d' : List UInt8) (lo n : Nat) (h : ∀ p, lo ≤ p → p < lo + n → d.getD p 0 = d'.getD p 0) :
    window d lo n = window d' lo n := by
  induction n generalizing lo with
  | zero => rfl
  | succ n ih =>
    simp only [window]
    rw [h lo (Nat.le_refl _) (by omega), ih (lo + 1) (fun p h1 h2 => h p (by omega) (by omega))]

theorem step_length (x : Xfer) (from_ d : List UInt8) (i : Nat) : (x.step from_ d i).length = d.length := by
  unfold Xfer.step; rw [splice_length]

theorem live_length (x : Xfer) : ∀ (order : List Nat) (d : List UInt8), (x.live d order).length = d.length := by
  intro order
  induction order with
  | nil => intro d; rfl
  | cons i is ih => intro d; simp only [Xfer.live]; rw [ih, step_length]

theorem clone_length (x : Xfer) (d0 : List UInt8) : ∀ (order : List Nat) (d : List UInt8), (x.clone d0 d order).length = d.length := by
  intro order
  induction order with
  | nil => intro d; rfl
  | cons i is ih => intro d; simp only [Xfer.clone]; rw [ih, step_length]

/-- bytes outside target element `i` are untouched by step `i` -/
theorem step_getD_outside (x : Xfer) (from_ d : List UInt8) (i p : Nat)
    (h : p < x.dstLo + i * x.dES ∨ x.dstLo + i * x.dES + x.dES ≤ p) : (x.step from_ d i).getD p 0 = d.getD p 0 := by
  unfold Xfer.step
  rw [splice_getD, fit_length]
  have : ¬ (x.dstLo + i * x.dES ≤ p ∧ p < x.dstLo + i * x.dES + x.dES ∧ p < d.length) := by omega
  rw [if_neg this]

/-- **live = clone for a safe order.** Invariant: outside the target elements already stored, the current bytes are
the original ones. -/
theorem live_eq_clone (x : Xfer) (d0 : List UInt8) :
    ∀ (order done : List Nat) (d : List UInt8),
      (∀ p, (∀ j ∈ done, p < x.dstLo + j * x.dES ∨ x.dstLo + j * x.dES + x.dES ≤ p) → d.getD p 0 = d0.getD p 0) →
      x.Safe done order → x.live d order = x.clone d0 d order := by
  intro order
  induction order with
  | nil => intro done d _ _; rfl
  | cons i is ih =>
    intro done d hinv hsafe
    simp only [Xfer.live, Xfer.clone]
    obtain ⟨hdisj, hrest⟩ := hsafe
    -- the source element read now still holds the original bytes
    have hw : window d (x.srcLo + i * x.sES) x.sES = window d0 (x.srcLo + i * x.sES) x.sES := by
      apply window_congr
      intro p h1 h2
      apply hinv
      intro j hj
      have := hdisj j hj
      unfold Xfer.disj at this
      omega
    have hstep : x.step d d i = x.step d0 d i := by unfold Xfer.step; rw [hw]
    rw [hstep]
    apply ih (i :: done)
    · intro p hp
      rw [step_getD_outside x d0 d i p (hp i (List.mem_cons_self ..))]
      exact hinv p (fun j hj => hp j (List.mem_cons_of_mem _ hj))
    · exact hrest

/-! ## the clone-then-write result does not depend on the order -/

theorem splice_comm (d : List UInt8) (a b : Nat) (xs ys : List UInt8)
    (h : a + xs.length ≤ b ∨ b + ys.length ≤ a) :
    splice (splice d a xs) b ys = splice (splice d b ys) a xs := by
  apply ext_getD (0 : UInt8)
  · simp [splice_length]
  · intro p
    simp only [splice_getD, splice_length]
    by_cases c1 : a ≤ p ∧ p < a + xs.length ∧ p < d.length
    · have c2 : ¬ (b ≤ p ∧ p < b + ys.length ∧ p < d.length) := by omega
      rw [if_neg c2, if_pos c1, if_pos c1]
    · by_cases c2 : b ≤ p ∧ p < b + ys.length ∧ p < d.length
      · rw [if_pos c2, if_neg c1, if_pos c2]
      · rw [if_neg c2, if_neg c1, if_neg c1, if_neg c2]

theorem step_comm (x : Xfer) (d0 d : List UInt8) (i j : Nat) :
    x.step d0 (x.step d0 d i) j = x.step d0 (x.step d0 d j) i := by
  by_cases hij : i = j
  · subst hij; rfl
  · unfold Xfer.step
    apply splice_comm
    rw [fit_length, fit_length]
    -- distinct target elements are disjoint
    rcases Nat.lt_or_gt_of_ne hij with h | h
    · left
      have := Nat.mul_le_mul_right x.dES (Nat.succ_le_of_lt h)
      rw [Nat.succ_mul] at this
      omega
    · right
      have := Nat.mul_le_mul_right x.dES (Nat.succ_le_of_lt h)
      rw [Nat.succ_mul] at this
      omega

theorem cloneRun_perm (x : Xfer) (d0 : List UInt8) {o1 o2 : List Nat} (hp : o1.Perm o2) :
    ∀ d, x.clone d0 d o1 = x.clone d0 d o2 := by
  induction hp with
  | nil => intro d; rfl
  | cons i _ ih => intro d; simp only [Xfer.clone]; exact ih _
  | swap i j l => intro d; simp only [Xfer.clone]; rw [step_comm]
  | trans _ _ ih1 ih2 => intro d; rw [ih1, ih2]

/-- goja's live transfer in a safe order that visits every element once = ECMA-262's clone-then-write in
ascending order. -/
theorem live_eq_cloneAscending (x : Xfer) (d : List UInt8) (n : Nat) (order : List Nat)
    (hperm : order.Perm (List.range n)) (hsafe : x.Safe [] order) :
    x.live d order = x.clone d d (List.range n) := by
  rw [live_eq_clone x d order [] d (fun _ _ => rfl) hsafe]
  exact cloneRun_perm x d hperm d

/-! ## goja's visiting orders -/

theorem safe_of_pairwise (x : Xfer) : ∀ (order done : List Nat), (∀ j ∈ done, ∀ i ∈ order, x.disj j i) →
    List.Pairwise (fun j i => x.disj j i) order → x.Safe done order := by
  intro order
  induction order with
  | nil => intro _ _ _; trivial
  | cons i is ih =>
    intro done hd hp
    rw [List.pairwise_cons] at hp
    refine ⟨fun j hj => hd j hj i (List.mem_cons_self ..), ih (i :: done) ?_ hp.2⟩
    intro j hj k hk
    rcases List.mem_cons.mp hj with rfl | hj
    · exact hp.1 k hk
    · exact hd j hj k (List.mem_cons_of_mem _ hk)

/-- ascending: `R j i` for `j < i` -/
theorem pairwise_range'_of_lt {R : Nat → Nat → Prop} (s n : Nat) (h : ∀ j i, s ≤ j → j < i → i < s + n → R j i) :
    List.Pairwise R (List.range' s n) := by
  apply List.Pairwise.imp_of_mem _ (List.pairwise_lt_range' (s := s) (n := n) 1)
  intro a b ha hb hab
  rw [List.mem_range'] at ha hb
  obtain ⟨i1, h1, rfl⟩ := ha
  obtain ⟨i2, h2, rfl⟩ := hb
  exact h _ _ (by omega) hab (by omega)

/-- descending: `R j i` for `j > i` -/
theorem pairwise_range'_reverse_of_gt {R : Nat → Nat → Prop} (s n : Nat) (h : ∀ j i, s ≤ i → i < j → j < s + n → R j i) :
    List.Pairwise R (List.range' s n).reverse := by
  rw [List.pairwise_reverse]
  exact pairwise_range'_of_lt s n (fun j i h1 h2 h3 => h i j h1 h2 h3)

/-! ### same element size (builtin_typedarrays.go:1027-1036) -/

/-- `curDst <= curSrc || curDst >= endSrc` ⇒ ascending, otherwise descending -/
def setOrderSame (srcLo dstLo n es : Nat) : List Nat :=
  if dstLo ≤ srcLo ∨ dstLo ≥ srcLo + n * es then List.range n else (List.range n).reverse

theorem setOrderSame_perm (srcLo dstLo n es : Nat) : (setOrderSame srcLo dstLo n es).Perm (List.range n) := by
  unfold setOrderSame; split
  · exact List.Perm.refl _
  · exact List.reverse_perm _

theorem setOrderSame_safe (f : List UInt8 → List UInt8) (srcLo dstLo n es : Nat) :
    (Xfer.mk f es es srcLo dstLo).Safe [] (setOrderSame srcLo dstLo n es) := by
  apply safe_of_pairwise _ _ [] (fun _ h => by simp at h)
  unfold setOrderSame
  split
  · rename_i hc
    rw [List.range_eq_range']
    apply pairwise_range'_of_lt
    intro j i _ hji hin
    have h1 := Nat.mul_le_mul_right es (Nat.succ_le_of_lt hji)
    have h2 := Nat.mul_le_mul_right es (by omega : i + 1 ≤ n)
    rw [Nat.succ_mul] at h1
    rw [Nat.succ_mul] at h2
    show dstLo + j * es + es ≤ srcLo + i * es ∨ srcLo + i * es + es ≤ dstLo + j * es
    omega
  · rename_i hc
    rw [List.range_eq_range']
    apply pairwise_range'_reverse_of_gt
    intro j i _ hij _
    have h1 := Nat.mul_le_mul_right es (Nat.succ_le_of_lt hij)
    rw [Nat.succ_mul] at h1
    show dstLo + j * es + es ≤ srcLo + i * es ∨ srcLo + i * es + es ≤ dstLo + j * es
    omega

/-- **set between different kinds of the SAME element size**: goja's live loop = ECMA-262 clone-then-write. -/
theorem set_sameSize_live_eq_clone (f : List UInt8 → List UInt8) (d : List UInt8) (srcLo dstLo n es : Nat) :
    (Xfer.mk f es es srcLo dstLo).live d (setOrderSame srcLo dstLo n es) =
    (Xfer.mk f es es srcLo dstLo).clone d d (List.range n) :=
  live_eq_cloneAscending _ d n _ (setOrderSame_perm srcLo dstLo n es) (setOrderSame_safe f srcLo dstLo n es)

/-! ### different element sizes (builtin_typedarrays.go:1037-1058) -/

/-- `x := int(curDst-curSrc) / (src.elemSize - ta.elemSize)` (Go division truncates toward zero), clamped to [0, srcLen] -/
def splitIndex (srcLo dstLo sES dES n : Nat) : Nat :=
  let q := Int.tdiv ((dstLo : Int) - (srcLo : Int)) ((sES : Int) - (dES : Int))
  if q < 0 then 0 else if q > (n : Int) then n else q.toNat

/-- target elements smaller: `for i := x; i < srcLen; i++` then `for i := x-1; i >= 0; i--`;
target elements larger: `for i := 0; i < x; i++` then `for i := srcLen-1; i >= x; i--` -/
def setOrderDiff (srcLo dstLo sES dES n : Nat) : List Nat :=
  let x := splitIndex srcLo dstLo sES dES n
  if dES < sES then List.range' x (n - x) ++ (List.range x).reverse
  else List.range x ++ (List.range' x (n - x)).reverse

theorem splitIndex_le (srcLo dstLo sES dES n : Nat) : splitIndex srcLo dstLo sES dES n ≤ n := by
  unfold splitIndex; dsimp only
  split
  · omega
  · split
    · omega
    · omega

theorem setOrderDiff_perm (srcLo dstLo sES dES n : Nat) : (setOrderDiff srcLo dstLo sES dES n).Perm (List.range n) := by
  unfold setOrderDiff; dsimp only
  have hx := splitIndex_le srcLo dstLo sES dES n
  generalize splitIndex srcLo dstLo sES dES n = x at hx
  have hsplit : List.range n = List.range x ++ List.range' x (n - x) := by
    rw [List.range_eq_range', List.range_eq_range']
    have := List.range'_append_1 (s := 0) (m := x) (n := n - x)
    rw [Nat.zero_add] at this
    rw [this]; congr 1; omega
  rw [hsplit]
  split
  · exact List.Perm.trans List.perm_append_comm (List.Perm.append (List.reverse_perm _) (List.Perm.refl _))
  · exact List.Perm.append (List.Perm.refl _) (List.reverse_perm _)

/-- what the clamped quotient means when the target elements are SMALLER (`c = sES - dES`) -/
theorem splitIndex_small (srcLo dstLo sES dES n : Nat) (h : dES < sES) :
    (dstLo ≤ srcLo → splitIndex srcLo dstLo sES dES n = 0) ∧
    (srcLo < dstLo → splitIndex srcLo dstLo sES dES n * (sES - dES) ≤ dstLo - srcLo ∧
      (splitIndex srcLo dstLo sES dES n < n → dstLo - srcLo < (splitIndex srcLo dstLo sES dES n + 1) * (sES - dES))) := by
  have hc : ((sES : Int) - (dES : Int)) = ((sES - dES : Nat) : Int) := by omega
  constructor
  · intro hle
    unfold splitIndex; dsimp only
    have hneg : (dstLo : Int) - (srcLo : Int) = -(((srcLo - dstLo : Nat)) : Int) := by omega
    rw [hneg, hc, Int.neg_tdiv, ← Int.ofNat_tdiv]
    generalize (srcLo - dstLo) / (sES - dES) = q
    split
    · rfl
    · split
      · omega
      · omega
  · intro hlt
    unfold splitIndex; dsimp only
    have hpos : (dstLo : Int) - (srcLo : Int) = (((dstLo - srcLo : Nat)) : Int) := by omega
    rw [hpos, hc, ← Int.ofNat_tdiv]
    generalize hD : dstLo - srcLo = D
    generalize hcc : sES - dES = c
    have hcpos : 0 < c := by omega
    have h1 := Nat.div_mul_le_self D c
    have h2 := Nat.lt_mul_div_succ D hcpos
    rw [Nat.mul_comm] at h2
    generalize hq : D / c = q at *
    have hnn : ¬ ((q : Int) < 0) := by omega
    rw [if_neg hnn]
    split
    · rename_i hgt
      have hgt' : n < q := by omega
      refine ⟨Nat.le_trans (Nat.mul_le_mul_right c (Nat.le_of_lt hgt')) h1, fun hh => by omega⟩
    · simp only [Int.toNat_natCast]
      exact ⟨h1, fun _ => h2⟩

/-- … and when they are LARGER (`c = dES - sES`) -/
theorem splitIndex_large (srcLo dstLo sES dES n : Nat) (h : sES < dES) :
    (srcLo ≤ dstLo → splitIndex srcLo dstLo sES dES n = 0) ∧
    (dstLo < srcLo → splitIndex srcLo dstLo sES dES n * (dES - sES) ≤ srcLo - dstLo ∧
      (splitIndex srcLo dstLo sES dES n < n → srcLo - dstLo < (splitIndex srcLo dstLo sES dES n + 1) * (dES - sES))) := by
  have hc : ((sES : Int) - (dES : Int)) = -((dES - sES : Nat) : Int) := by omega
  constructor
  · intro hle
    unfold splitIndex; dsimp only
    have hpos : (dstLo : Int) - (srcLo : Int) = (((dstLo - srcLo : Nat)) : Int) := by omega
    rw [hpos, hc, Int.tdiv_neg, ← Int.ofNat_tdiv]
    generalize (dstLo - srcLo) / (dES - sES) = q
    split
    · rfl
    · split
      · omega
      · omega
  · intro hlt
    unfold splitIndex; dsimp only
    have hneg : (dstLo : Int) - (srcLo : Int) = -(((srcLo - dstLo : Nat)) : Int) := by omega
    rw [hneg, hc, Int.tdiv_neg, Int.neg_tdiv, Int.neg_neg, ← Int.ofNat_tdiv]
    generalize hD : srcLo - dstLo = D
    generalize hcc : dES - sES = c
    have hcpos : 0 < c := by omega
    have h1 := Nat.div_mul_le_self D c
    have h2 := Nat.lt_mul_div_succ D hcpos
    rw [Nat.mul_comm] at h2
    generalize hq : D / c = q at *
    have hnn : ¬ ((q : Int) < 0) := by omega
    rw [if_neg hnn]
    split
    · rename_i hgt
      have hgt' : n < q := by omega
      refine ⟨Nat.le_trans (Nat.mul_le_mul_right c (Nat.le_of_lt hgt')) h1, fun hh => by omega⟩
    · simp only [Int.toNat_natCast]
      exact ⟨h1, fun _ => h2⟩

/-! arithmetic of the four situations (`c` = difference of the element sizes) -/

theorem small_left (srcLo dstLo dES c j i : Nat) (hji : j < i)
    (h : dstLo ≤ srcLo ∨ (srcLo < dstLo ∧ dstLo - srcLo < i * c)) :
    dstLo + j * dES + dES ≤ srcLo + i * (dES + c) := by
  have h1 := Nat.mul_le_mul_right dES (Nat.succ_le_of_lt hji)
  rw [Nat.succ_mul] at h1
  rw [Nat.mul_add]
  omega

theorem small_right (srcLo dstLo dES c j i : Nat) (hij : i + 1 ≤ j) (hlt : srcLo < dstLo)
    (h : (i + 1) * c ≤ dstLo - srcLo) :
    srcLo + i * (dES + c) + (dES + c) ≤ dstLo + j * dES := by
  have h1 := Nat.mul_le_mul_right dES hij
  rw [Nat.succ_mul] at h1 h
  rw [Nat.mul_add]
  omega

theorem large_left (srcLo dstLo sES c j i : Nat) (hji : j + 1 ≤ i) (hlt : dstLo < srcLo)
    (h : (j + 1) * c ≤ srcLo - dstLo) :
    dstLo + j * (sES + c) + (sES + c) ≤ srcLo + i * sES := by
  have h1 := Nat.mul_le_mul_right sES hji
  rw [Nat.succ_mul] at h1 h
  rw [Nat.mul_add]
  omega

theorem large_right (srcLo dstLo sES c j i : Nat) (hij : i < j)
    (h : srcLo ≤ dstLo ∨ (dstLo < srcLo ∧ srcLo - dstLo < j * c)) :
    srcLo + i * sES + sES ≤ dstLo + j * (sES + c) := by
  have h1 := Nat.mul_le_mul_right sES (Nat.succ_le_of_lt hij)
  rw [Nat.succ_mul] at h1
  rw [Nat.mul_add]
  omega

theorem setOrderDiff_safe (f : List UInt8 → List UInt8) (srcLo dstLo sES dES n : Nat) (hne : sES ≠ dES) :
    (Xfer.mk f sES dES srcLo dstLo).Safe [] (setOrderDiff srcLo dstLo sES dES n) := by
  apply safe_of_pairwise _ _ [] (fun _ h => by simp at h)
  unfold setOrderDiff; dsimp only
  have hxn := splitIndex_le srcLo dstLo sES dES n
  by_cases hsm : dES < sES
  · rw [if_pos hsm]
    obtain ⟨h0, hpos⟩ := splitIndex_small srcLo dstLo sES dES n hsm
    generalize splitIndex srcLo dstLo sES dES n = x at *
    obtain ⟨c, rfl⟩ : ∃ c, sES = dES + c := ⟨sES - dES, by omega⟩
    rw [Nat.add_sub_cancel_left] at hpos
    rw [List.pairwise_append]
    refine ⟨?_, ?_, ?_⟩
    · apply pairwise_range'_of_lt
      intro j i hxj hji hin
      left
      show dstLo + j * dES + dES ≤ srcLo + i * (dES + c)
      apply small_left _ _ _ _ _ _ hji
      by_cases hle : dstLo ≤ srcLo
      · exact Or.inl hle
      · right
        have hlt : srcLo < dstLo := by omega
        have := (hpos hlt).2 (by omega)
        have h2 := Nat.mul_le_mul_right c (by omega : x + 1 ≤ i)
        exact ⟨hlt, by omega⟩
    · rw [List.range_eq_range']
      apply pairwise_range'_reverse_of_gt
      intro j i _ hij hjx
      right
      show srcLo + i * (dES + c) + (dES + c) ≤ dstLo + j * dES
      have hlt : srcLo < dstLo := by
        by_cases hle : dstLo ≤ srcLo
        · have := h0 hle; omega
        · omega
      have h2 := Nat.mul_le_mul_right c (by omega : i + 1 ≤ x)
      exact small_right _ _ _ _ _ _ (by omega) hlt (Nat.le_trans h2 (hpos hlt).1)
    · intro a ha b hb
      rw [List.mem_range'] at ha
      rw [List.mem_reverse, List.mem_range] at hb
      obtain ⟨k, _, rfl⟩ := ha
      right
      show srcLo + b * (dES + c) + (dES + c) ≤ dstLo + (x + 1 * k) * dES
      have hlt : srcLo < dstLo := by
        by_cases hle : dstLo ≤ srcLo
        · have := h0 hle; omega
        · omega
      have h2 := Nat.mul_le_mul_right c (by omega : b + 1 ≤ x)
      exact small_right _ _ _ _ _ _ (by omega) hlt (Nat.le_trans h2 (hpos hlt).1)
  · rw [if_neg hsm]
    have hlg : sES < dES := by omega
    obtain ⟨h0, hpos⟩ := splitIndex_large srcLo dstLo sES dES n hlg
    generalize splitIndex srcLo dstLo sES dES n = x at *
    obtain ⟨c, rfl⟩ : ∃ c, dES = sES + c := ⟨dES - sES, by omega⟩
    rw [Nat.add_sub_cancel_left] at hpos
    rw [List.pairwise_append]
    refine ⟨?_, ?_, ?_⟩
    · rw [List.range_eq_range']
      apply pairwise_range'_of_lt
      intro j i _ hji hix
      left
      show dstLo + j * (sES + c) + (sES + c) ≤ srcLo + i * sES
      have hlt : dstLo < srcLo := by
        by_cases hle : srcLo ≤ dstLo
        · have := h0 hle; omega
        · omega
      have h2 := Nat.mul_le_mul_right c (by omega : j + 1 ≤ x)
      exact large_left _ _ _ _ _ _ (by omega) hlt (Nat.le_trans h2 (hpos hlt).1)
    · apply pairwise_range'_reverse_of_gt
      intro j i hxi hij hjn
      right
      show srcLo + i * sES + sES ≤ dstLo + j * (sES + c)
      apply large_right _ _ _ _ _ _ hij
      by_cases hle : srcLo ≤ dstLo
      · exact Or.inl hle
      · right
        have hlt : dstLo < srcLo := by omega
        have := (hpos hlt).2 (by omega)
        have h2 := Nat.mul_le_mul_right c (by omega : x + 1 ≤ j)
        exact ⟨hlt, by omega⟩
    · intro a ha b hb
      rw [List.mem_range] at ha
      rw [List.mem_reverse, List.mem_range'] at hb
      obtain ⟨k, _, rfl⟩ := hb
      left
      show dstLo + a * (sES + c) + (sES + c) ≤ srcLo + (x + 1 * k) * sES
      have hlt : dstLo < srcLo := by
        by_cases hle : srcLo ≤ dstLo
        · have := h0 hle; omega
        · omega
      have h2 := Nat.mul_le_mul_right c (by omega : a + 1 ≤ x)
      exact large_left _ _ _ _ _ _ (by omega) hlt (Nat.le_trans h2 (hpos hlt).1)

/-- **set between kinds of DIFFERENT element size on one buffer**: goja's split-and-direction loop (live reads) gives
exactly ECMA-262's clone-then-write result, for every position of the two views, every length and every conversion. -/
theorem set_diffSize_live_eq_clone (f : List UInt8 → List UInt8) (d : List UInt8) (srcLo dstLo sES dES n : Nat) (hne : sES ≠ dES) :
    (Xfer.mk f sES dES srcLo dstLo).live d (setOrderDiff srcLo dstLo sES dES n) =
    (Xfer.mk f sES dES srcLo dstLo).clone d d (List.range n) :=
  live_eq_cloneAscending _ d n _ (setOrderDiff_perm srcLo dstLo sES dES n) (setOrderDiff_safe f srcLo dstLo sES dES n hne)

/-! ## connection with the model's `set` (readElems / convElems / writeElems) -/

theorem readElems_eq (v : View) (d : List UInt8) : ∀ (n : Nat) (s : State) (k : Nat), s.data? v.buf = some d →
    (readElems s v k n).1 = (List.range' k n).map (fun i => window d ((v.offset + i) * v.kind.size) v.kind.size) ∧
    ∀ b', (readElems s v k n).2.data? b' = s.data? b' := by
  intro n
  induction n with
  | zero => intro s k _; exact ⟨rfl, fun _ => rfl⟩
  | succ n ih =>
    intro s k h
    simp only [readElems, List.range'_succ, List.map_cons]
    have hval : (s.readElem v k).1 = window d ((v.offset + k) * v.kind.size) v.kind.size := by
      unfold State.readElem; exact readRange_value v.buf d _ s _ h
    have hdat : ∀ b', (s.readElem v k).2.data? b' = s.data? b' := by
      intro b'; unfold State.readElem; exact readRange_data v.buf _ s _ b'
    obtain ⟨a, b⟩ := ih (s.readElem v k).2 (k + 1) (by rw [hdat]; exact h)
    exact ⟨by rw [hval, a], fun b' => by rw [b, hdat]⟩

/-- the per-element conversion of `set` between two kinds (ECMA-262 RawBytesToNumeric then NumericToRawBytes) -/
def convBytes (sk dk : Kind) (w : List UInt8) : List UInt8 := (encode dk (decode sk w)).getD []

theorem convElems_eq_map (sk dk : Kind) : ∀ (xs ys : List (List UInt8)), convElems sk dk xs = some ys →
    ys = xs.map (convBytes sk dk) := by
  intro xs
  induction xs with
  | nil => intro ys h; simp [convElems] at h; subst h; rfl
  | cons x xs ih =>
    intro ys h
    simp only [convElems] at h
    split at h
    · rename_i y ys' h1 h2
      simp at h; subst h
      simp [convBytes, h1, ih ys' h2]
    · simp at h

/-- writing the converted clone, element by element in ascending order, is `Xfer.clone` -/
theorem writeElems_clone (v : View) (x : Xfer) (d0 : List UInt8) (t : Nat)
    (hd : x.dstLo = (v.offset + t) * v.kind.size) (hes : x.dES = v.kind.size) :
    ∀ (n a : Nat) (s : State) (cur : List UInt8), s.data? v.buf = some cur →
      (writeElems s v (t + a) ((List.range' a n).map (fun i => x.f (window d0 (x.srcLo + i * x.sES) x.sES)))).data? v.buf =
        some (x.clone d0 cur (List.range' a n)) := by
  intro n
  induction n with
  | zero => intro a s cur h; exact h
  | succ n ih =>
    intro a s cur h
    simp only [List.range'_succ, List.map_cons, writeElems, Xfer.clone]
    have h1 : (s.writeElem v (t + a) (x.f (window d0 (x.srcLo + a * x.sES) x.sES))).data? v.buf =
        some (x.step d0 cur a) := by
      unfold State.writeElem Xfer.step
      rw [data?_writeRange, if_pos rfl, h, hd, hes]
      simp only [Option.map_some]
      congr 2
      rw [← Nat.add_assoc, Nat.add_mul]
    have := ih (a + 1) _ _ h1
    rw [← Nat.add_assoc] at this
    exact this

end GojaModel.C17
