/-
  C17 tie for the Uint8Array hex methods: the byte window of `getUint8ArrayBytes` and the parity test / truncation of
  `fromHexInto`, regenerated from /repo by extract/c17.go, equal what Hex.lean transcribes.
-/
import GojaModel.C17.Hex
import GojaModel.Generated.C17_Index

namespace GojaModel.C17.TieHex
open GojaModel.C17

/-- `data[ta.offset : ta.offset+ta.length]` — the range `opToHex` reads and `opSetFromHex` writes into -/
theorem u8Bytes_tie (offset length : Nat) :
    Generated.C17.u8BytesLo offset length = (offset : Int) ∧
    Generated.C17.u8BytesHi offset length = ((offset + length : Nat) : Int) := by
  simp [Generated.C17.u8BytesLo, Generated.C17.u8BytesHi]

/-- `fromHexInto`: odd length ⇒ nothing decoded; longer than `2·maxLength` ⇒ keep the first `2·maxLength` characters -/
theorem fromHexInto_tie (cs : List Char) (maxLength : Nat) :
    (Generated.C17.hexOddLength cs.length = (cs.length % 2 != 0)) ∧
    hexTruncate cs maxLength =
      (if Generated.C17.hexTooLong cs.length maxLength = true then cs.take (Generated.C17.hexKeep maxLength).toNat else cs) := by
  constructor
  · simp only [Generated.C17.hexOddLength]
    by_cases h : cs.length % 2 = 0
    · have : ((cs.length : Int) % 2) = 0 := by omega
      simp [h, this]
    · have : ¬ ((cs.length : Int) % 2) = 0 := by omega
      simp [h, this]
      omega
  · unfold hexTruncate
    simp only [Generated.C17.hexTooLong, Generated.C17.hexKeep, decide_eq_true_eq]
    by_cases h : cs.length > maxLength * 2
    · have h' : (cs.length : Int) > (maxLength : Int) * 2 := by omega
      have e : ((maxLength : Int) * 2).toNat = maxLength * 2 := by omega
      rw [if_pos h, if_pos h', e]
    · have h' : ¬ (cs.length : Int) > (maxLength : Int) * 2 := by omega
      rw [if_neg h, if_neg h']

end GojaModel.C17.TieHex
