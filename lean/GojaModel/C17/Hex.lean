/-
  C17 — Uint8Array hex methods (builtin_typedarrays.go:1601-1636, 2056-2100): `Uint8Array.fromHex`,
  `Uint8Array.prototype.toHex`, `Uint8Array.prototype.setFromHex`.  No callback points (the argument must be a
  String primitive).  Mechanism transcribed: receiver validation (`validateUint8Array`: exactly Uint8Array, attached),
  the byte window `data[offset : offset+length]` (`getUint8ArrayBytes`), `fromHexInto`'s even-length test and
  truncation to `maxLength*2` characters, encoding/hex's pairwise decode that stops at the first invalid pair and leaves
  what was decoded before it in place.  Core Lean only (imported by the driver).
-/
import GojaModel.C17.Model

namespace GojaModel.C17

inductive HexRes
  | bad
  | errType
  | errSyntax
  | str (hex : List Char)
  | rw (read written : Nat)
  | view (length : Nat)
  deriving Repr, DecidableEq

def hexVal? (c : Char) : Option Nat :=
  if '0' ≤ c ∧ c ≤ '9' then some (c.toNat - '0'.toNat)
  else if 'a' ≤ c ∧ c ≤ 'f' then some (c.toNat - 'a'.toNat + 10)
  else if 'A' ≤ c ∧ c ≤ 'F' then some (c.toNat - 'A'.toNat + 10)
  else none

def hexChar (d : Nat) : Char :=
  if d < 10 then Char.ofNat ('0'.toNat + d) else Char.ofNat ('a'.toNat + d - 10)

def hexOfBytes : List UInt8 → List Char
  | [] => []
  | b :: bs => hexChar (b.toNat / 16) :: hexChar (b.toNat % 16) :: hexOfBytes bs

/-- `validateUint8Array` (2056): the receiver must be a Uint8Array (not Uint8ClampedArray) over an attached buffer -/
def hexReceiver (s : State) (vi : Nat) : Except HexRes View :=
  match s.views[vi]? with
  | none => .error .bad
  | some v =>
    if v.kind != .u8 then .error .errType
    else if !s.attached v.buf then .error .errType
    else .ok v

/-- `uint8ArrayProto_toHex` (1613): hex of `data[offset : offset+length]` -/
def opToHex (s : State) (vi : Nat) : HexRes × State :=
  match hexReceiver s vi with
  | .error e => (e, s)
  | .ok v =>
    let r := s.readRange v.buf v.offset v.length
    (.str (hexOfBytes r.1), r.2)

/-- encoding/hex.Decode into `dst = data[lo:]`: pair by pair, stop at the first invalid pair; `n` bytes written so far -/
def hexWrite (s : State) (b lo : Nat) : List Char → Nat → HexRes × State
  | c1 :: c2 :: rest, n =>
    match hexVal? c1, hexVal? c2 with
    | some hi, some lo' => hexWrite (s.writeByte b (lo + n) (UInt8.ofNat (hi * 16 + lo'))) b lo rest (n + 1)
    | _, _ => (.errSyntax, s)
  | [_], _ => (.errSyntax, s)
  | [], n => (.rw (2 * n) n, s)

/-- `fromHexInto` (2087): truncation to `maxLength*2` characters -/
def hexTruncate (cs : List Char) (maxLength : Nat) : List Char :=
  if cs.length > maxLength * 2 then cs.take (maxLength * 2) else cs

/-- `uint8ArrayProto_setFromHex` (1619) -/
def opSetFromHex (s : State) (vi : Nat) (cs : List Char) : HexRes × State :=
  match hexReceiver s vi with
  | .error e => (e, s)
  | .ok v =>
    -- 2090: odd length ⇒ SyntaxError before anything is written
    if cs.length % 2 != 0 then (.errSyntax, s) else
    hexWrite s v.buf v.offset (hexTruncate cs v.length) 0

/-- encoding/hex.DecodeString: all pairs must be valid -/
def hexDecodeAll : List Char → Option (List UInt8)
  | c1 :: c2 :: rest =>
    match hexVal? c1, hexVal? c2, hexDecodeAll rest with
    | some hi, some lo, some bs => some (UInt8.ofNat (hi * 16 + lo) :: bs)
    | _, _, _ => none
  | [_] => none
  | [] => some []

/-- `uint8Array_fromHex` (1601): a fresh Uint8Array over the decoded bytes -/
def opFromHex (s : State) (cs : List Char) : HexRes × State :=
  match hexDecodeAll cs with
  | none => (.errSyntax, s)
  | some bs =>
    (.view bs.length, { s with bufs := s.bufs ++ [some bs], views := s.views ++ [⟨s.bufs.length, 0, bs.length, .u8⟩] })

end GojaModel.C17
