/-
  C03 — the try statement obeys the run-loop discipline.
-/
import GojaModel.C03.Lemmas4

namespace GojaModel.C03

/-- `sX` is `s` with the statement's own frame `tf` on top of the try stack -/
structure AtFrame (s sX : Vm) (tf : TryFrame) : Prop where
  sp : sX.sp = s.sp
  regs : sX.regs = s.regs
  stash : sX.stash = s.stash
  privEnv : sX.privEnv = s.privEnv
  cs : sX.callStack = s.callStack
  is : sX.iterStack = s.iterStack
  rs : sX.refStack = s.refStack
  ts : sX.tryStack = tf :: s.tryStack

theorem AtFrame.inv {s sX : Vm} {tf : TryFrame} (h : AtFrame s sX tf) (hI : Inv s) : Inv sX :=
  inv_of_eq h.regs h.cs hI

theorem ext_through_frame {s sX s' : Vm} {tf : TryFrame} {c : Bool} (hA : AtFrame s sX tf)
    (hjs : tf.catchPos ≠ tryPanicMarker) (hc : c = true → isConsumed tf = true) (h : Ext c sX s') :
    Ext c s s' := by
  obtain ⟨e1, he1, hr1⟩ := h.cs
  obtain ⟨e2, he2⟩ := h.is
  obtain ⟨e3, he3⟩ := h.rs
  obtain ⟨e4, he4, hf4⟩ := h.ts
  refine ⟨⟨e1, by rw [he1, hA.cs], by rw [hr1, hA.regs]⟩, ⟨e2, by rw [he2, hA.is]⟩, ⟨e3, by rw [he3, hA.rs]⟩,
    ⟨e4 ++ [tf], by rw [he4, hA.ts]; simp, ?_⟩⟩
  intro f hm
  rcases List.mem_append.mp hm with h | h
  · exact hf4 f h
  · simp at h; subst h; exact ⟨hjs, hc⟩

theorem same_of_atFrame_pop {s sX t : Vm} {tf : TryFrame} (hA : AtFrame s sX tf) (hs : Same sX t) :
    Same s { t with tryStack := s.tryStack } :=
  ⟨hs.sp.trans hA.sp, by simpa [Vm.regs] using hs.regs.trans hA.regs, hs.stash.trans hA.stash,
   hs.privEnv.trans hA.privEnv, hs.cs.trans hA.cs, rfl, hs.is.trans hA.is, hs.rs.trans hA.rs⟩

theorem exitThrough_good {s : Vm} {q : Bool} (e : ExitKind) (r : Res)
    (h : GoodCtl s r ∧ (r.1 ≠ .fatal → r.2.interrupted = q)) :
    GoodCtl s (exitThrough e r) ∧ ((exitThrough e r).1 ≠ .fatal → (exitThrough e r).2.interrupted = q) := by
  obtain ⟨o, s1⟩ := r
  unfold exitThrough
  cases o with
  | normal => exact ⟨by simpa [GoodCtl] using h.1, fun _ => h.2 (by simp)⟩
  | thrown => exact h
  | fatal => exact h
  | stuck => exact h
  | exit e2 => exact h
  | yielded => exact h

/-- the `finally` block with the (consumed) frame on top, then leaveFinally -/
theorem finPhase_good {runF : RunF} (HG : HypG runF) (fin : Beh) (s sX : Vm) (tf : TryFrame) (hI : Inv s)
    (hA : AtFrame s sX tf) (hjs : tf.catchPos ≠ tryPanicMarker) (hcons : isConsumed tf = true) :
    GoodCtl s (finPhase runF fin sX) ∧
    ((finPhase runF fin sX).1 ≠ .fatal → (finPhase runF fin sX).2.interrupted = sX.interrupted) := by
  unfold finPhase
  have hg := HG fin sX (hA.inv hI)
  generalize runF fin sX = r at hg
  obtain ⟨o, s1⟩ := r
  obtain ⟨hc, hq⟩ := hg
  cases o with
  | normal =>
    simp only [GoodCtl] at hc
    have hts : s1.tryStack = tf :: s.tryStack := hc.ts.trans hA.ts
    simp only [hts]
    have hsame := same_of_atFrame_pop hA hc
    split
    · exact ⟨by simpa [GoodCtl] using hsame.toExt true, fun _ => hq (by simp)⟩
    · exact ⟨by simpa [GoodCtl] using hsame, fun _ => hq (by simp)⟩
  | thrown =>
    simp only [GoodCtl] at hc
    exact ⟨by simpa [GoodCtl] using ext_through_frame hA hjs (fun _ => hcons) hc, fun _ => hq (by simp)⟩
  | fatal =>
    simp only [GoodCtl] at hc
    exact ⟨by simpa [GoodCtl] using ext_through_frame hA hjs (by simp) hc, by simp⟩
  | stuck => simp [GoodCtl] at hc
  | exit e =>
    simp only [GoodCtl] at hc
    have hts : s1.tryStack = tf :: s.tryStack := hc.ts.trans hA.ts
    simp only [hts]
    exact ⟨by simpa [GoodCtl] using same_of_atFrame_pop hA hc, fun _ => hq (by simp)⟩
  | yielded =>
    simp only [GoodCtl] at hc
    obtain ⟨e, he, _⟩ := hc.1.ts
    have hne : ∃ tf' rest', s1.tryStack = tf' :: rest' := by
      rw [he, hA.ts]
      cases e with
      | nil => exact ⟨_, _, rfl⟩
      | cons x xs => exact ⟨_, _, rfl⟩
    obtain ⟨tf', rest', hts⟩ := hne
    simp only [hts]
    have hext := ext_through_frame hA hjs (by simp) hc.1
    have hts' := hext.ts
    rw [hts] at hts'
    exact ⟨by simp only [GoodCtl]; exact ⟨⟨hext.cs, hext.is, hext.rs, hts'⟩, hc.2.trans hA.cs⟩, fun _ => hq (by simp)⟩

/-- end of the protected region / of the handler -/
theorem leaveTry_good {runF : RunF} (HG : HypG runF) (fin : Beh) (s sX : Vm) (tf : TryFrame) (hI : Inv s)
    (hA : AtFrame s sX tf) (hsp : tf.sp = s.sp) (hst : tf.stash = s.stash)
    (hjs : tf.catchPos ≠ tryPanicMarker) :
    GoodCtl s (leaveTry runF fin sX) ∧
    ((leaveTry runF fin sX).1 ≠ .fatal → (leaveTry runF fin sX).2.interrupted = sX.interrupted) := by
  unfold leaveTry
  simp only [hA.ts]
  split
  · have hA' : AtFrame s
        { sX with tryStack := { tf with finallyRet := sX.pc + 1, finallyPos := -1, catchPos := -1 } :: s.tryStack,
                  sp := tf.sp, stash := tf.stash, pc := tf.finallyPos }
        { tf with finallyRet := sX.pc + 1, finallyPos := -1, catchPos := -1 } :=
      ⟨hsp, by simpa [Vm.regs] using hA.regs, hst, hA.privEnv, hA.cs, hA.is, hA.rs, rfl⟩
    exact finPhase_good HG fin s _ _ hI hA' (by simp [tryPanicMarker]) (by simp [isConsumed])
  · have : Same s { sX with tryStack := s.tryStack } :=
      ⟨hA.sp, by simpa [Vm.regs] using hA.regs, hA.stash, hA.privEnv, hA.cs, rfl, hA.is, hA.rs⟩
    exact ⟨by simpa [GoodCtl] using this, fun _ => rfl⟩

/-- a throw that reaches the statement while its frame still has a live `finally` -/
theorem throwToFinally_good {runF : RunF} (HG : HypG runF) (HA : HypA runF) (fin : Beh) (s sX s1 : Vm)
    (tf : TryFrame) (hI : Inv s) (hA : AtFrame s sX tf) (hF : FrameOf s tf) (hcp : tf.catchPos = -1)
    (hfp : tf.finallyPos ≥ 0) (hext : Ext true sX s1) :
    GoodCtl s (throwToFinally runF fin s.tryStack.length s1) ∧
    ((throwToFinally runF fin s.tryStack.length s1).1 ≠ .fatal →
      (throwToFinally runF fin s.tryStack.length s1).2.interrupted = s1.interrupted) := by
  obtain ⟨e, he, hfr⟩ := hext.ts
  obtain ⟨ec, hec, hregs⟩ := hext.cs
  obtain ⟨ei, hei⟩ := hext.is
  obtain ⟨er, her⟩ := hext.rs
  have hlive : skipped true tf = false := by
    have : tf.finallyPos ≠ -1 := by omega
    simp [skipped, isConsumed, this]
  have hs := handleThrowLoop_spec HA true s hI tf s.tryStack hF hlive (Or.inr (Or.inr hfp)) e s1
    (fun f hm => by simp [skipped, (hfr f hm).2 rfl])
    ⟨ec, by rw [hec, hA.cs], by rw [hregs, hA.regs]⟩ ⟨ei, by rw [hei, hA.is]⟩ ⟨er, by rw [her, hA.rs]⟩
    (handleThrow runF true s1) (by unfold handleThrow; rw [he, hA.ts])
  unfold throwToFinally
  generalize handleThrow runF true s1 = h at hs
  obtain ⟨ht, s2⟩ := h
  obtain ⟨a1, a2, a3, a4, a5, a6, a8, aq, a9, a10, a11, a12⟩ := hs
  simp only at a1 a2 a3 a4 a5 a6 a8 aq a9 a10 a11 a12
  cases ht with
  | fin =>
    obtain ⟨_, _, b3, b4⟩ := a12 rfl
    simp only [b4, List.length_cons, if_true]
    have hA2 : AtFrame s s2 { tf with exception := some 1, finallyPos := -1, finallyRet := -1 } :=
      ⟨b3, a1, a2, a3, a4, a5, a6, b4⟩
    have := finPhase_good HG fin s s2 _ hI hA2 (by simp [hcp, tryPanicMarker]) (by simp [isConsumed, hcp])
    exact ⟨this.1, fun hn => (this.2 hn).trans (aq (by simp))⟩
  | aborted =>
    obtain ⟨b2, b3⟩ := a9 rfl
    have : Ext false s s2 :=
      ⟨⟨[], by simp [a4, levelRegs, a1]⟩, ⟨[], by simp [a5]⟩, ⟨[], by simp [a6]⟩,
       ⟨[tf], by simp [b3], by intro f hm; simp at hm; subst hm; exact ⟨by simp [hcp, tryPanicMarker], by simp⟩⟩⟩
    exact ⟨by simpa [GoodCtl] using this, by simp⟩
  | caught =>
    obtain ⟨b1, _, _⟩ := a11 rfl
    rw [hcp] at b1; simp at b1
  | atMarker =>
    obtain ⟨b1, _, _⟩ := a10 rfl
    rw [hcp] at b1; simp [tryPanicMarker] at b1
  | empty => exact absurd rfl a8

theorem afterHandler_good {runF : RunF} (HG : HypG runF) (HA : HypA runF) (hasFin : Bool) (fin : Beh)
    (s sH : Vm) (tf : TryFrame) (r : Res) (hI : Inv s) (hA : AtFrame s sH tf) (hF : FrameOf s tf)
    (hcp : tf.catchPos = -1) (hfp : tf.finallyPos = if hasFin then 20 else -1)
    (hg : Good sH r) :
    GoodCtl s (afterHandler runF hasFin fin s.tryStack.length r) ∧
    ((afterHandler runF hasFin fin s.tryStack.length r).1 ≠ .fatal →
      (afterHandler runF hasFin fin s.tryStack.length r).2.interrupted = sH.interrupted) := by
  obtain ⟨o, s1⟩ := r
  obtain ⟨hc, hq⟩ := hg
  unfold afterHandler
  cases o with
  | normal =>
    simp only [GoodCtl] at hc
    have hA1 : AtFrame s s1 tf :=
      ⟨hc.sp.trans hA.sp, hc.regs.trans hA.regs, hc.stash.trans hA.stash, hc.privEnv.trans hA.privEnv,
       hc.cs.trans hA.cs, hc.is.trans hA.is, hc.rs.trans hA.rs, hc.ts.trans hA.ts⟩
    have := leaveTry_good HG fin s s1 tf hI hA1 hF.sp hF.stash (by simp [hcp, tryPanicMarker])
    exact ⟨this.1, fun hn => (this.2 hn).trans (hq (by simp))⟩
  | thrown =>
    simp only [GoodCtl] at hc
    cases hasFin with
    | true =>
      simp only [if_true]
      have := throwToFinally_good HG HA fin s sH s1 tf hI hA hF hcp (by simp [hfp]) hc
      exact ⟨this.1, fun hn => (this.2 hn).trans (hq (by simp))⟩
    | false =>
      simp only [Bool.false_eq_true, if_false]
      have hcons : isConsumed tf = true := by simp [isConsumed, hcp, hfp]
      exact ⟨by simpa [GoodCtl] using ext_through_frame hA (by simp [hcp, tryPanicMarker]) (fun _ => hcons) hc,
        fun _ => hq (by simp)⟩
  | fatal =>
    simp only [GoodCtl] at hc
    exact ⟨by simpa [GoodCtl] using ext_through_frame hA (by simp [hcp, tryPanicMarker]) (by simp) hc, by simp⟩
  | stuck => simp [GoodCtl] at hc
  | exit e =>
    simp only [GoodCtl] at hc
    have hA1 : AtFrame s s1 tf :=
      ⟨hc.sp.trans hA.sp, hc.regs.trans hA.regs, hc.stash.trans hA.stash, hc.privEnv.trans hA.privEnv,
       hc.cs.trans hA.cs, hc.is.trans hA.is, hc.rs.trans hA.rs, hc.ts.trans hA.ts⟩
    have := leaveTry_good HG fin s s1 tf hI hA1 hF.sp hF.stash (by simp [hcp, tryPanicMarker])
    have := exitThrough_good (q := s1.interrupted) e _ this
    exact ⟨this.1, fun hn => (this.2 hn).trans (hq (by simp))⟩
  | yielded =>
    simp only [GoodCtl] at hc
    have hext := ext_through_frame hA (by simp [hcp, tryPanicMarker]) (by simp) hc.1
    exact ⟨by simp only [GoodCtl]; exact ⟨⟨hext.cs, hext.is, hext.rs, hext.ts⟩, hc.2.trans hA.cs⟩, fun _ => hq (by simp)⟩

/-- **the try statement obeys the discipline** and handleThrow always lands on the statement's own frame
(`stuck` is unreachable) -/
theorem tryStmt_good {runF : RunF} (HG : HypG runF) (HA : HypA runF) (hc hf : Bool) (hcf : (hc || hf) = true)
    (body handler fin : Beh) (s : Vm) (hI : Inv s) : Good s (tryStmt runF hc hf body handler fin s) := by
  unfold tryStmt
  obtain ⟨tf, htf, hF, hcat, hfinp, _⟩ := pushTryFrame_frameOf (if hc then 10 else -1) (if hf then 20 else -1) s
  obtain ⟨p1, p2, p3, p4, p5, p6, p7, p8⟩ := pushTryFrame_same (if hc then 10 else -1) (if hf then 20 else -1) s
  have hA0 : AtFrame s (pushTryFrame (if hc then 10 else -1) (if hf then 20 else -1) s) tf :=
    ⟨p1, p2, p3, p4, p5, p6, p7, htf⟩
  have hjs : tf.catchPos ≠ tryPanicMarker := by rw [hcat]; split <;> simp [tryPanicMarker]
  have hg := HG body _ (hA0.inv hI)
  simp only
  generalize runF body (pushTryFrame (if hc then 10 else -1) (if hf then 20 else -1) s) = r1 at hg
  obtain ⟨o, s1⟩ := r1
  obtain ⟨hctl, hq⟩ := hg
  cases o with
  | normal =>
    simp only [GoodCtl] at hctl
    have hA1 : AtFrame s s1 tf :=
      ⟨hctl.sp.trans p1, hctl.regs.trans p2, hctl.stash.trans p3, hctl.privEnv.trans p4,
       hctl.cs.trans p5, hctl.is.trans p6, hctl.rs.trans p7, hctl.ts.trans htf⟩
    have := leaveTry_good HG fin s s1 tf hI hA1 hF.sp hF.stash hjs
    exact ⟨this.1, fun hn => ((this.2 hn).trans (hq (by simp))).trans p8⟩
  | stuck => simp [GoodCtl] at hctl
  | exit e =>
    simp only [GoodCtl] at hctl
    have hA1 : AtFrame s s1 tf :=
      ⟨hctl.sp.trans p1, hctl.regs.trans p2, hctl.stash.trans p3, hctl.privEnv.trans p4,
       hctl.cs.trans p5, hctl.is.trans p6, hctl.rs.trans p7, hctl.ts.trans htf⟩
    have := leaveTry_good HG fin s s1 tf hI hA1 hF.sp hF.stash hjs
    have := exitThrough_good (q := s1.interrupted) e _ this
    exact ⟨this.1, fun hn => ((this.2 hn).trans (hq (by simp))).trans p8⟩
  | fatal =>
    simp only [GoodCtl] at hctl
    exact ⟨by simpa [GoodCtl] using ext_through_frame hA0 hjs (by simp) hctl, by simp [Quiet]⟩
  | yielded =>
    simp only [GoodCtl] at hctl
    have hext := ext_through_frame hA0 hjs (by simp) hctl.1
    exact ⟨by simp only [GoodCtl]; exact ⟨⟨hext.cs, hext.is, hext.rs, hext.ts⟩, hctl.2.trans p5⟩,
      fun _ => (hq (by simp)).trans p8⟩
  | thrown =>
    simp only [GoodCtl] at hctl
    have hq1 : s1.interrupted = s.interrupted := (hq (by simp)).trans p8
    cases hc with
    | false =>
      have hf' : hf = true := by simpa using hcf
      subst hf'
      simp only [Bool.false_eq_true, if_false, if_true]
      have := throwToFinally_good HG HA fin s _ s1 tf hI hA0 hF (by simpa using hcat) (by simp [hfinp]) hctl
      exact ⟨this.1, fun hn => (this.2 hn).trans hq1⟩
    | true =>
      simp only [if_true]
      -- handleThrow lands on the own frame, whose catch is live
      obtain ⟨e, he, hfr⟩ := hctl.ts
      obtain ⟨ec, hec, hregs⟩ := hctl.cs
      obtain ⟨ei, hei⟩ := hctl.is
      obtain ⟨er, her⟩ := hctl.rs
      have hcat' : tf.catchPos = 10 := by simpa using hcat
      have hlive : skipped true tf = false := by simp [skipped, isConsumed, hcat']
      have hs := handleThrowLoop_spec HA true s hI tf s.tryStack hF hlive (Or.inr (Or.inl (by simp [hcat']))) e s1
        (fun f hm => by simp [skipped, (hfr f hm).2 rfl])
        ⟨ec, by rw [hec, p5], by rw [hregs, p2]⟩ ⟨ei, by rw [hei, p6]⟩ ⟨er, by rw [her, p7]⟩
        (handleThrow runF true s1) (by unfold handleThrow; rw [he, htf])
      generalize handleThrow runF true s1 = h at hs
      obtain ⟨ht, s2⟩ := h
      obtain ⟨a1, a2, a3, a4, a5, a6, a8, aq, a9, a10, a11, a12⟩ := hs
      simp only at a1 a2 a3 a4 a5 a6 a8 aq a9 a10 a11 a12
      cases ht with
      | caught =>
        obtain ⟨_, b2, b3⟩ := a11 rfl
        have hlen : s2.tryStack.length = s.tryStack.length + 1 := by rw [b3]; simp
        simp only
        rw [if_pos hlen]
        have hAH : AtFrame s { s2 with sp := s2.sp - 1 } { tf with catchPos := -1 } :=
          ⟨by simp [b2], by simpa [Vm.regs] using a1, a2, a3, a4, a5, a6, b3⟩
        have hFH : FrameOf s { tf with catchPos := -1 } := ⟨hF.cs, hF.is, hF.rs, hF.sp, hF.stash, hF.privEnv⟩
        have hgh := HG handler { s2 with sp := s2.sp - 1 } (hAH.inv hI)
        have := afterHandler_good HG HA hf fin s _ _ _ hI hAH hFH rfl (by simpa using hfinp) hgh
        exact ⟨this.1, fun hn => ((this.2 hn).trans (aq (by simp))).trans hq1⟩
      | aborted =>
        obtain ⟨b2, b3⟩ := a9 rfl
        have : Ext false s s2 :=
          ⟨⟨[], by simp [a4, levelRegs, a1]⟩, ⟨[], by simp [a5]⟩, ⟨[], by simp [a6]⟩,
           ⟨[tf], by simp [b3], by intro f hm; simp at hm; subst hm; exact ⟨hjs, by simp⟩⟩⟩
        exact ⟨by simpa [GoodCtl] using this, by simp [Quiet]⟩
      | fin =>
        obtain ⟨_, b2, _, _⟩ := a12 rfl
        rw [hcat'] at b2; simp at b2
      | atMarker =>
        obtain ⟨b1, _, _⟩ := a10 rfl
        exact absurd b1 hjs
      | empty => exact absurd rfl a8

/-- resuming inside a catch handler / inside a finally block -/
theorem tryResumeH_good {runF : RunF} (HG : HypG runF) (HA : HypA runF) (hf : Bool) (cur fin : Beh) (s : Vm)
    (hI : Inv s) : Good s (tryResumeH runF hf cur fin s) := by
  unfold tryResumeH
  obtain ⟨tf, htf, hF, hcat, hfinp, _⟩ := pushTryFrame_frameOf (-1) (if hf then 20 else -1) s
  obtain ⟨p1, p2, p3, p4, p5, p6, p7, p8⟩ := pushTryFrame_same (-1) (if hf then 20 else -1) s
  have hA0 : AtFrame s (pushTryFrame (-1) (if hf then 20 else -1) s) tf := ⟨p1, p2, p3, p4, p5, p6, p7, htf⟩
  have hg := HG cur _ (hA0.inv hI)
  have := afterHandler_good HG HA hf fin s _ tf _ hI hA0 hF hcat hfinp hg
  exact ⟨this.1, fun hn => (this.2 hn).trans p8⟩

theorem tryResumeF_good {runF : RunF} (HG : HypG runF) (pending : Bool) (cur : Beh) (s : Vm) (hI : Inv s) :
    Good s (tryResumeF runF pending cur s) := by
  unfold tryResumeF
  obtain ⟨tf, htf, hF, hcat, hfinp, _⟩ := pushTryFrame_frameOf (-1) (-1) s
  simp only [htf]
  have hA : AtFrame s ({ s with tryStack := { tf with exception := if pending then some 1 else none } :: s.tryStack } : Vm)
      { tf with exception := if pending then some 1 else none } := ⟨rfl, rfl, rfl, rfl, rfl, rfl, rfl, rfl⟩
  have := finPhase_good HG cur s _ _ hI hA (by simp [hcat, tryPanicMarker]) (by simp [isConsumed, hcat, hfinp])
  exact ⟨this.1, fun hn => this.2 hn⟩

end GojaModel.C03
