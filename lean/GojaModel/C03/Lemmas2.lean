/-
  C03 — boundaries: what the deferred recover of a Go-side wrapper restores.
-/
import GojaModel.C03.Lemmas

namespace GojaModel.C03

theorem skipped_marker (c : Bool) (tf : TryFrame) (h : tf.catchPos = tryPanicMarker) :
    skipped c tf = false := by
  simp [skipped, isConsumed, h, tryPanicMarker]

/-- the raw statement about `unwindAtMarker`: with a boundary marker `tf` (snapshot of `sF`) below only
skippable frames, everything is put back to `sF` and the marker is popped -/
theorem unwind_raw {runF : RunF} (HA : HypA runF) (o : Outcome)
    (sF : Vm) (hI : Inv sF) (tf : TryFrame) (base : List TryFrame) (hF : FrameOf sF tf)
    (hm : tf.catchPos = tryPanicMarker) (e : List TryFrame) (s1 : Vm)
    (hts : s1.tryStack = e ++ tf :: base)
    (hsk : ∀ f ∈ e, skipped (o == .thrown) f = true)
    (hcs : ∃ ec, s1.callStack = sF.callStack ++ ec ∧ levelRegs ec s1 = sF.regs)
    (his : ∃ ei, s1.iterStack = sF.iterStack ++ ei) (hrs : ∃ er, s1.refStack = sF.refStack ++ er)
    (r : Res) (hr : r = unwindAtMarker runF o s1) :
    r.1 ≠ .stuck ∧ r.1 ≠ .normal ∧ (r.1 = .thrown → o = .thrown) ∧
    r.2.sp = sF.sp ∧ r.2.regs = sF.regs ∧ r.2.stash = sF.stash ∧
    r.2.privEnv = sF.privEnv ∧ r.2.callStack = sF.callStack ∧ r.2.tryStack = base ∧
    r.2.iterStack = sF.iterStack ∧ r.2.refStack = sF.refStack ∧
    (r.1 ≠ .fatal → r.2.interrupted = s1.interrupted) := by
  have hs := handleThrowLoop_spec HA (o == .thrown) sF hI tf base hF (skipped_marker _ tf hm)
    (Or.inl hm) e s1 hsk hcs his hrs (handleThrow runF (o == .thrown) s1)
    (by unfold handleThrow; rw [hts])
  unfold unwindAtMarker at hr
  generalize handleThrow runF (o == .thrown) s1 = h at hs hr
  obtain ⟨ht, s2⟩ := h
  obtain ⟨a1, a2, a3, a4, a5, a6, a8, aq, a9, a10, a11, a12⟩ := hs
  simp only at a1 a2 a3 a4 a5 a6 a8 aq a9 a10 a11 a12
  cases ht with
  | atMarker =>
    obtain ⟨_, b2, b3⟩ := a10 rfl
    subst hr
    refine ⟨?_, ?_, ?_, ?_, ?_, a2, a3, a4, ?_, a5, a6, ?_⟩
    · simp only; split <;> simp
    · simp only; split <;> simp
    · simp only; intro h; split at h <;> simp_all
    · simpa [popTryFrame] using b2
    · simpa [popTryFrame, Vm.regs] using a1
    · simp [popTryFrame, b3]
    · intro _; simpa [popTryFrame] using aq (by simp)
  | aborted =>
    obtain ⟨b2, b3⟩ := a9 rfl
    subst hr
    refine ⟨by simp, by simp, by simp, ?_, ?_, a2, a3, a4, ?_, a5, a6, by simp⟩
    · simpa [popTryFrame] using b2
    · simpa [popTryFrame, Vm.regs] using a1
    · simp [popTryFrame, b3]
  | caught =>
    obtain ⟨b1, _, _⟩ := a11 rfl
    rw [hm] at b1
    simp [tryPanicMarker] at b1
  | fin =>
    obtain ⟨b1, _, _, _⟩ := a12 rfl
    exact absurd hm b1
  | empty => exact absurd rfl a8

theorem pushTryFrame_frameOf (cp fp : Int) (s : Vm) :
    ∃ tf, (pushTryFrame cp fp s).tryStack = tf :: s.tryStack ∧ FrameOf s tf ∧ tf.catchPos = cp ∧
      tf.finallyPos = fp ∧ tf.exception = none := by
  refine ⟨_, rfl, ⟨rfl, rfl, rfl, rfl, rfl, rfl⟩, rfl, rfl, rfl⟩

theorem pushTryFrame_same (cp fp : Int) (s : Vm) :
    (pushTryFrame cp fp s).sp = s.sp ∧ (pushTryFrame cp fp s).regs = s.regs ∧
    (pushTryFrame cp fp s).stash = s.stash ∧ (pushTryFrame cp fp s).privEnv = s.privEnv ∧
    (pushTryFrame cp fp s).callStack = s.callStack ∧ (pushTryFrame cp fp s).iterStack = s.iterStack ∧
    (pushTryFrame cp fp s).refStack = s.refStack ∧ (pushTryFrame cp fp s).interrupted = s.interrupted := by
  simp [pushTryFrame, Vm.regs]

theorem pushTryFrame_inv (cp fp : Int) {s : Vm} (h : Inv s) : Inv (pushTryFrame cp fp s) :=
  inv_of_eq (pushTryFrame_same cp fp s).2.1 (pushTryFrame_same cp fp s).2.2.2.2.1 h

/-- frames that `Ext` allows above a marker are skipped by handleThrow -/
theorem ext_frames_skipped {c : Bool} {o : Outcome} (hc : o = .thrown → c = true)
    {e : List TryFrame}
    (hf : ∀ f ∈ e, f.catchPos ≠ tryPanicMarker ∧ (c = true → isConsumed f = true)) :
    ∀ f ∈ e, skipped (o == .thrown) f = true := by
  intro f hm
  obtain ⟨h1, h2⟩ := hf f hm
  unfold skipped
  by_cases ho : o = .thrown
  · simp [h2 (hc ho)]
  · have : (o == Outcome.thrown) = false := by simpa using ho
    simp [this, h1]

/-- a boundary whose marker was pushed in state `sF` and whose body started in a state `sB` that
extends `sF` (e.g. after __call's pushCtx), ending abruptly in `s1`: everything is back to `sF` -/
theorem unwind_after_body {runF : RunF} (HA : HypA runF) (o : Outcome) (c : Bool)
    (hc : o = .thrown → c = true)
    (sF sB s1 : Vm) (hI : Inv sF)
    (hB : Ext false (pushTryFrame tryPanicMarker (-1) sF) sB)
    (hBts : sB.tryStack = (pushTryFrame tryPanicMarker (-1) sF).tryStack)
    (hext : Ext c sB s1) (r : Res) (hr : r = unwindAtMarker runF o s1) :
    r.1 ≠ .stuck ∧ r.1 ≠ .normal ∧ (r.1 = .thrown → o = .thrown) ∧
    r.2.sp = sF.sp ∧ r.2.regs = sF.regs ∧ r.2.stash = sF.stash ∧
    r.2.privEnv = sF.privEnv ∧ r.2.callStack = sF.callStack ∧ r.2.tryStack = sF.tryStack ∧
    r.2.iterStack = sF.iterStack ∧ r.2.refStack = sF.refStack ∧
    (r.1 ≠ .fatal → r.2.interrupted = s1.interrupted) := by
  obtain ⟨tf, htf, hF, hcat, _, _⟩ := pushTryFrame_frameOf tryPanicMarker (-1) sF
  obtain ⟨p1, p2, p3, p4, p5, p6, p7, _⟩ := pushTryFrame_same tryPanicMarker (-1) sF
  have hall := (hB.weaken).trans (hext.weaken)
  obtain ⟨e, he, hfr⟩ := hext.ts
  obtain ⟨ec, hec, hregs⟩ := hall.cs
  obtain ⟨ei, hei⟩ := hall.is
  obtain ⟨er, her⟩ := hall.rs
  exact unwind_raw HA o sF hI tf sF.tryStack hF hcat e s1
    (by rw [he, hBts, htf]) (ext_frames_skipped hc hfr)
    ⟨ec, by rw [hec, p5], by rw [hregs, p2]⟩ ⟨ei, by rw [hei, p6]⟩ ⟨er, by rw [her, p7]⟩ r hr

end GojaModel.C03
