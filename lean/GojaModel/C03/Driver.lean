/-
  C03 model driver.  One history per line:

     <maxDepth|-1> <ncalls> ( <api> <k> <kind> <beh> )*

  api: RP | CA n | CO n | TR | TG | ER.   k: 0 = no fault, else the k-th probe of this call faults; kind: t | i.
  beh (prefix form): K | S a b | P id | T | BR | RT | I | Ft n b | Fc n b | Fn n b | Fo b | FO ret b | Fr b | Fb b | Fp b
                   | Y hc hf body handler fin | G n b | At b | Aw b | Ap b | Aq b | Bq b | Bt b | Bw b | Bp b | J b | YD | YT a b | AC n body | GC slot n body | GN slot | GT slot | GR slot
  Answer: per call  <outcome>|<trace>|<state>  joined by " ; ", where trace = "id:c,t,i,r,a …" (a = vm.curAsyncRunner != nil at the probe) and
  state = sp,sb,prgNil,stashGlobal,privNil,callLen,tryLen,iterLen,refLen,jobs,interrupted,privDepth,
  curAsyncRunnerNil (Vm.curAsync, negated),newTargetNil,args.
-/
import GojaModel.Base.Proto
import GojaModel.C03.Model

namespace GojaModel.C03.Driver
open GojaModel.C03

def theFn : FnInfo := ⟨1, [5, 0], []⟩

def natOf (s : String) : Nat := s.toNat?.getD 0

/-- parse one behaviour; fuel bounds the recursion (token count suffices) -/
def parseBeh : Nat → List String → Option (Beh × List String)
  | 0, _ => none
  | fuel + 1, toks =>
    match toks with
    | "K" :: r => some (.skip, r)
    | "T" :: r => some (.throw_, r)
    | "BR" :: r => some (.break_, r)
    | "RT" :: r => some (.return_, r)
    | "I" :: r => some (.intr, r)
    | "P" :: id :: r => some (.probe (natOf id), r)
    | "S" :: r => do
      let (a, r1) ← parseBeh fuel r
      let (b, r2) ← parseBeh fuel r1
      pure (.seq a b, r2)
    | "Ft" :: n :: r => do
      let (b, r1) ← parseBeh fuel r
      pure (.frame (.tmp (natOf n)) .skip b, r1)
    | "Fc" :: n :: r => do
      let (b, r1) ← parseBeh fuel r
      pure (.frame (.call (natOf n) theFn) .skip b, r1)
    | "Fn" :: n :: r => do
      let (b, r1) ← parseBeh fuel r
      pure (.frame (.native (natOf n)) .skip b, r1)
    | "Fo" :: r => do
      let (b, r1) ← parseBeh fuel r
      pure (.frame (.forOf false) .skip b, r1)
    | "FO" :: r => do
      let (rt, r1) ← parseBeh fuel r
      let (b, r2) ← parseBeh fuel r1
      pure (.frame (.forOf true) rt b, r2)
    | "Fr" :: r => do
      let (b, r1) ← parseBeh fuel r
      pure (.frame .ref .skip b, r1)
    | "Fp" :: r => do
      let (b, r1) ← parseBeh fuel r
      pure (.frame .priv .skip b, r1)
    | "Fb" :: r => do
      let (b, r1) ← parseBeh fuel r
      pure (.frame .block .skip b, r1)
    | "Y" :: hc :: hf :: r => do
      let (b, r1) ← parseBeh fuel r
      let (h, r2) ← parseBeh fuel r1
      let (f, r3) ← parseBeh fuel r2
      pure (.try_ (hc == "1") (hf == "1") b h f, r3)
    | "G" :: n :: r => do
      let (b, r1) ← parseBeh fuel r
      pure (.goCall (natOf n) theFn b, r1)
    | "At" :: r => do
      let (b, r1) ← parseBeh fuel r
      pure (.api .try_ b, r1)
    | "Aw" :: r => do
      let (b, r1) ← parseBeh fuel r
      pure (.api .runWrapped b, r1)
    | "Ap" :: r => do
      let (b, r1) ← parseBeh fuel r
      pure (.api .runProgramRec b, r1)
    | "Aq" :: r => do
      let (b, r1) ← parseBeh fuel r
      pure (.api .runProgram b, r1)
    | "Bq" :: r => do
      let (b, r1) ← parseBeh fuel r
      pure (.swallow .runProgram b, r1)
    | "Bt" :: r => do
      let (b, r1) ← parseBeh fuel r
      pure (.swallow .try_ b, r1)
    | "Bw" :: r => do
      let (b, r1) ← parseBeh fuel r
      pure (.swallow .runWrapped b, r1)
    | "Bp" :: r => do
      let (b, r1) ← parseBeh fuel r
      pure (.swallow .runProgramRec b, r1)
    | "YD" :: r => some (.yield_, r)
    | "YT" :: r => do
      let (a, r1) ← parseBeh fuel r
      let (b, r2) ← parseBeh fuel r1
      pure (.yieldThen a b, r2)
    | "GC" :: slot :: n :: r => do
      let (b, r1) ← parseBeh fuel r
      pure (.genNew (natOf slot) (natOf n) theFn b, r1)
    | "AC" :: n :: r => do
      let (b, r1) ← parseBeh fuel r
      pure (.asyncNew (natOf n) theFn b, r1)
    | "GN" :: slot :: r => some (.genNext (natOf slot), r)
    | "GT" :: slot :: r => some (.genThrow (natOf slot), r)
    | "GR" :: slot :: r => some (.genReturn (natOf slot), r)
    | "J" :: r => do
      let (b, r1) ← parseBeh fuel r
      pure (.job b, r1)
    | _ => none

def parseApi : List String → Option (TopApi × List String)
  | "RP" :: r => some (.runProgram, r)
  | "CA" :: n :: r => some (.callable (natOf n) theFn, r)
  | "CO" :: n :: r => some (.constructor (natOf n) theFn, r)
  | "TR" :: r => some (.try_, r)
  | "TG" :: r => some (.tryGet theFn, r)
  -- Exception.Error(): valueString = vm.try(obj.String()) → __call toString; an uncatchable is swallowed after
  -- leaveAbrupt at depth 0 (5151c81) — the control path of `tryGet`; the host always gets a string back
  | "ER" :: r => some (.tryGet theFn, r)
  | _ => none

def showOutcome : Outcome → String
  | .normal => "ok" | .thrown => "ex" | .fatal => "fatal" | .stuck => "STUCK" | .exit _ => "EXIT" | .yielded => "YIELDED"

def b01 (b : Bool) : String := if b then "1" else "0"

def showState (s : Vm) : String :=
  ",".intercalate [toString s.sp, toString s.sb, b01 s.prg.isNone, b01 (s.stash == globalStash),
    b01 s.privEnv.isEmpty, toString s.callStack.length, toString s.tryStack.length,
    toString s.iterStack.length, toString s.refStack.length, toString s.jobQueue.length,
    b01 s.interrupted, toString s.privEnv.length, b01 (!s.curAsync), b01 (s.newTarget == 0), toString s.args]

def showTrace (t : List Obs) : String :=
  " ".intercalate (t.map fun o => s!"{o.id}:{o.callLen},{o.tryLen},{o.iterLen},{o.refLen},{b01 o.ca}")

def modelFuel : Nat := 400

/-- run the calls of one history in sequence on one model state -/
def runCalls : Nat → List String → Vm → List String → Option (List String)
  | 0, _, _, acc => some acc.reverse
  | n + 1, toks, s, acc => do
    let (api, r1) ← parseApi toks
    match r1 with
    | k :: kind :: r2 =>
      let (b, r3) ← parseBeh (r2.length + 1) r2
      let fk : FaultKind := if kind == "i" then .intr else .throw_
      let kk := natOf k
      let s0 : Vm := { s with probeCount := 0, trace := [], faultAt := if kk = 0 then none else some (kk, fk) }
      let (o, s1) := apiCall modelFuel api b s0
      let shown := if toks.head? == some "ER" && o != .stuck then "ok" else showOutcome o
      let out := s!"{shown}|{showTrace s1.trace}|{showState s1}"
      runCalls n r3 s1 (out :: acc)
    | _ => none

def handle (line : String) : String :=
  match Proto.words line with
  | mx :: n :: rest =>
    let maxDepth : Nat := if mx == "-1" then 2147483647 else natOf mx
    match runCalls (natOf n) rest (Vm.fresh maxDepth) [] with
    | some outs => " ; ".intercalate outs
    | none => "PARSE-ERROR"
  | _ => "PARSE-ERROR"

def main : IO Unit := Proto.lineMap handle

end GojaModel.C03.Driver
