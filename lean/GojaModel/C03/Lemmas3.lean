/-
  C03 — the Go-side boundaries are balanced (relative to well-behaved sub-interpreters, `HypG`/`HypA`).
-/
import GojaModel.C03.Lemmas2

namespace GojaModel.C03

theorem mkApiGood {s : Vm} {r : Res}
    (h : r.1 ≠ .stuck ∧ r.1 ≠ .normal ∧ (r.1 = .thrown → True) ∧
      r.2.sp = s.sp ∧ r.2.regs = s.regs ∧ r.2.stash = s.stash ∧
      r.2.privEnv = s.privEnv ∧ r.2.callStack = s.callStack ∧ r.2.tryStack = s.tryStack ∧
      (∃ x, r.2.iterStack = s.iterStack ++ x) ∧ (∃ x, r.2.refStack = s.refStack ++ x) ∧
      (r.1 ≠ .wrecked → r.2.iterStack = s.iterStack ∧ r.2.refStack = s.refStack)) : ApiGood s r := by
  obtain ⟨a1, _, _, a4, a5, a6, a7, a8, a9, a10, a11, a12⟩ := h
  exact ⟨a1, ⟨a4, a5, a6, a7, a8, a9, a10, a11⟩,
    fun hw => ⟨a4, a5, a6, a7, a8, a9, (a12 hw).1, (a12 hw).2⟩⟩

/-- **vm.try is balanced** (vm.go:854): for every behaviour of the callback — normal, thrown, uncatchable. -/
theorem tryB_spec {runF : RunF} (cfg : Cfg) (HG : HypG runF) (HA : HypA runF) (b : Beh) (s : Vm) :
    ApiGood s (tryB runF cfg b s) := by
  unfold tryB
  have hg := HG b (pushTryFrame tryPanicMarker (-1) s)
  generalize runF b (pushTryFrame tryPanicMarker (-1) s) = r at hg
  obtain ⟨o, s1⟩ := r
  obtain ⟨p1, p2, p3, p4, p5, p6, p7⟩ := pushTryFrame_same tryPanicMarker (-1) s
  have key : ∀ (c : Bool), (o = .thrown → c = true) → o ≠ .normal → o ≠ .stuck →
      Ext c (pushTryFrame tryPanicMarker (-1) s) s1 →
      ApiGood s (unwindAtMarker runF cfg o s1) := by
    intro c hc _ _ hext
    have := unwind_after_body cfg HA o c hc s (pushTryFrame tryPanicMarker (-1) s) s1 tryPanicMarker rfl
      ((Same.refl _).toExt false) rfl hext _ rfl
    obtain ⟨a1, a2, _, rest⟩ := this
    exact mkApiGood ⟨a1, a2, fun _ => trivial, rest⟩
  cases o with
  | normal =>
    simp only [Good] at hg
    refine ⟨by simp, ?_, fun _ => ?_⟩
    · exact (Same.toUpTo ⟨by simp [popTryFrame, hg.sp, p1], by simpa [popTryFrame, Vm.regs] using hg.regs.trans p2,
        by simp [popTryFrame, hg.stash, p3], by simp [popTryFrame, hg.privEnv, p4], by simp [popTryFrame, hg.cs, p5],
        by simp [popTryFrame, hg.ts, pushTryFrame], by simp [popTryFrame, hg.is, p6], by simp [popTryFrame, hg.rs, p7]⟩)
    · exact ⟨by simp [popTryFrame, hg.sp, p1], by simpa [popTryFrame, Vm.regs] using hg.regs.trans p2,
        by simp [popTryFrame, hg.stash, p3], by simp [popTryFrame, hg.privEnv, p4], by simp [popTryFrame, hg.cs, p5],
        by simp [popTryFrame, hg.ts, pushTryFrame], by simp [popTryFrame, hg.is, p6], by simp [popTryFrame, hg.rs, p7]⟩
  | stuck => simp [Good] at hg
  | thrown => exact key true (fun _ => rfl) (by simp) (by simp) hg
  | fatal => exact key false (by simp) (by simp) (by simp) hg
  | wrecked => exact key false (by simp) (by simp) (by simp) hg

/-- leave (runtime.go:2836) drains the queue whenever it returns normally -/
theorem leaveLoop_drains (runF : RunF) : ∀ (lf : Nat) (s : Vm),
    (leaveLoop runF lf s).1 = .normal → (leaveLoop runF lf s).2.jobQueue = [] := by
  intro lf
  induction lf with
  | zero => intro s h; simp [leaveLoop] at h
  | succ n ih =>
    intro s h
    unfold leaveLoop at h ⊢
    split at h
    · rename_i hq; simpa using hq
    · rename_i hq
      simp only at h ⊢
      generalize runJobs runF s.jobQueue { s with jobQueue := [] } = r at h ⊢
      obtain ⟨o, s1⟩ := r
      cases o <;> simp_all

end GojaModel.C03
