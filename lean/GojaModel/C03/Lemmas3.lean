/-
  C03 — per-node lemmas: bracketing frame operations, the probe, vm.try.
-/
import GojaModel.C03.Lemmas2

namespace GojaModel.C03

theorem ApiGood.toGood {s : Vm} {r : Res} (h : ApiGood s r) : Good s r := by
  obtain ⟨h1, h2, h3⟩ := h
  refine ⟨?_, h3⟩
  unfold GoodCtl
  cases hr : r.1 with
  | normal => simpa using h2
  | thrown => simpa using h2.toExt true
  | fatal => simpa using h2.toExt false
  | stuck => exact absurd hr h1.1
  | exit e => exact absurd hr (h1.2.1 e)
  | yielded => exact absurd hr h1.2.2

theorem popCtx_snoc (s : Vm) (l : List Ctx) (c : Ctx) (h : s.callStack = l ++ [c]) :
    popCtx s = { restoreCtx c s with callStack := l } := by
  simp [popCtx, h]

theorem pushCtx_some {s t : Vm} (h : pushCtx s = some t) :
    t = { s with callStack := s.callStack ++ [saveCtx s] } := by
  unfold pushCtx at h
  split at h
  · simp at h
  · simp at h; exact h.symm

theorem same_pop_of_push {cp fp : Int} {s s1 : Vm} (h : Same (pushTryFrame cp fp s) s1) :
    Same s (popTryFrame s1) := by
  obtain ⟨p1, p2, p3, p4, p5, p6, p7, _⟩ := pushTryFrame_same cp fp s
  exact ⟨by simp [popTryFrame, h.sp, p1], by simpa [popTryFrame, Vm.regs] using h.regs.trans p2,
    by simp [popTryFrame, h.stash, p3], by simp [popTryFrame, h.privEnv, p4], by simp [popTryFrame, h.cs, p5],
    by simp [popTryFrame, h.ts, pushTryFrame], by simp [popTryFrame, h.is, p6], by simp [popTryFrame, h.rs, p7]⟩

/-! ### frames -/

theorem pre_spec (k : FrameKind) (ret : Beh) (s s1 : Vm) (h : k.pre ret s = some s1) :
    Ext true s s1 ∧ s1.tryStack = s.tryStack ∧ s1.interrupted = s.interrupted ∧ (Inv s → Inv s1) := by
  cases k with
  | tmp n =>
    simp only [FrameKind.pre, Option.some.injEq] at h; subst h
    exact ⟨(Same.toExt true ⟨rfl, rfl, rfl, rfl, rfl, rfl, rfl, rfl⟩ : Ext true s s) |> fun x =>
      ⟨x.cs, x.is, x.rs, x.ts⟩, rfl, rfl, fun hi => inv_of_eq rfl rfl hi⟩
  | call n f =>
    simp only [FrameKind.pre, Option.map_eq_some_iff] at h
    obtain ⟨t, ht, rfl⟩ := h
    have := pushCtx_some ht; subst this
    refine ⟨⟨⟨[_], rfl, by simp [levelRegs, Ctx.regs, saveCtx, Vm.regs]⟩, ⟨[], by simp⟩, ⟨[], by simp⟩, ⟨[], by simp⟩⟩,
      rfl, rfl, fun _ => inv_of_ne (by simp)⟩
  | native n =>
    simp only [FrameKind.pre, Option.map_eq_some_iff] at h
    obtain ⟨t, ht, rfl⟩ := h
    have := pushCtx_some ht; subst this
    refine ⟨⟨⟨[_], rfl, by simp [levelRegs, Ctx.regs, saveCtx, Vm.regs]⟩, ⟨[], by simp⟩, ⟨[], by simp⟩, ⟨[], by simp⟩⟩,
      rfl, rfl, fun _ => inv_of_ne (by simp)⟩
  | forOf c =>
    simp only [FrameKind.pre, Option.some.injEq] at h; subst h
    exact ⟨⟨⟨[], by simp [levelRegs, Vm.regs]⟩, ⟨[_], rfl⟩, ⟨[], by simp⟩, ⟨[], by simp⟩⟩, rfl, rfl,
      fun hi => inv_of_eq rfl rfl hi⟩
  | ref =>
    simp only [FrameKind.pre, Option.some.injEq] at h; subst h
    exact ⟨⟨⟨[], by simp [levelRegs, Vm.regs]⟩, ⟨[], by simp⟩, ⟨[_], rfl⟩, ⟨[], by simp⟩⟩, rfl, rfl,
      fun hi => inv_of_eq rfl rfl hi⟩
  | block =>
    simp only [FrameKind.pre, Option.some.injEq] at h; subst h
    exact ⟨⟨⟨[], by simp [levelRegs, Vm.regs]⟩, ⟨[], by simp⟩, ⟨[], by simp⟩, ⟨[], by simp⟩⟩, rfl, rfl,
      fun hi => inv_of_eq rfl rfl hi⟩
  | priv =>
    simp only [FrameKind.pre, Option.some.injEq] at h; subst h
    exact ⟨⟨⟨[], by simp [levelRegs, Vm.regs]⟩, ⟨[], by simp⟩, ⟨[], by simp⟩, ⟨[], by simp⟩⟩, rfl, rfl,
      fun hi => inv_of_eq rfl rfl hi⟩

theorem post_spec (k : FrameKind) (ret : Beh) (s s1 s2 : Vm) (h : k.pre ret s = some s1)
    (hs : Same s1 s2) : Same s (k.post s2) ∧ (k.post s2).interrupted = s2.interrupted := by
  have hr := hs.regs
  simp only [Vm.regs, Regs.mk.injEq] at hr
  cases k with
  | tmp n =>
    simp only [FrameKind.pre, Option.some.injEq] at h; subst h
    refine ⟨⟨?_, ?_, hs.stash, hs.privEnv, hs.cs, hs.ts, hs.is, hs.rs⟩, rfl⟩
    · have := hs.sp; simp only [FrameKind.post] at this ⊢; omega
    · simpa [FrameKind.post, Vm.regs] using hr
  | call n f =>
    simp only [FrameKind.pre, Option.map_eq_some_iff] at h
    obtain ⟨t, ht, rfl⟩ := h
    have := pushCtx_some ht; subst this
    have hcs := hs.cs
    simp only at hcs
    simp only [FrameKind.post]
    rw [popCtx_snoc _ s.callStack _ (by simpa using hcs)]
    refine ⟨⟨?_, ?_, ?_, ?_, rfl, hs.ts, hs.is, hs.rs⟩, rfl⟩
    · have := hr.2.1; simp only [restoreCtx] at this ⊢; omega
    · simp [restoreCtx, saveCtx, Vm.regs]
    · simp [restoreCtx, saveCtx]
    · simp [restoreCtx, saveCtx]
  | native n =>
    simp only [FrameKind.pre, Option.map_eq_some_iff] at h
    obtain ⟨t, ht, rfl⟩ := h
    have := pushCtx_some ht; subst this
    have hcs := hs.cs
    simp only at hcs
    simp only [FrameKind.post]
    rw [popCtx_snoc _ s.callStack _ (by simpa using hcs)]
    refine ⟨⟨?_, ?_, ?_, ?_, rfl, hs.ts, hs.is, hs.rs⟩, rfl⟩
    · have := hs.sp; simp only [restoreCtx] at this ⊢; omega
    · simp [restoreCtx, saveCtx, Vm.regs]
    · simp [restoreCtx, saveCtx]
    · simp [restoreCtx, saveCtx]
  | forOf c =>
    simp only [FrameKind.pre, Option.some.injEq] at h; subst h
    refine ⟨⟨hs.sp, ?_, hs.stash, hs.privEnv, hs.cs, hs.ts, ?_, hs.rs⟩, rfl⟩
    · simpa [FrameKind.post, Vm.regs] using hr
    · have := hs.is; simp only [FrameKind.post] at this ⊢; simp [this]
  | ref =>
    simp only [FrameKind.pre, Option.some.injEq] at h; subst h
    refine ⟨⟨hs.sp, ?_, hs.stash, hs.privEnv, hs.cs, hs.ts, hs.is, ?_⟩, rfl⟩
    · simpa [FrameKind.post, Vm.regs] using hr
    · have := hs.rs; simp only [FrameKind.post] at this ⊢; simp [this]
  | block =>
    simp only [FrameKind.pre, Option.some.injEq] at h; subst h
    refine ⟨⟨hs.sp, ?_, ?_, hs.privEnv, hs.cs, hs.ts, hs.is, hs.rs⟩, rfl⟩
    · simpa [FrameKind.post, Vm.regs] using hr
    · have := hs.stash; simp only [FrameKind.post] at this ⊢; simp [this]
  | priv =>
    simp only [FrameKind.pre, Option.some.injEq] at h; subst h
    refine ⟨⟨hs.sp, ?_, hs.stash, ?_, hs.cs, hs.ts, hs.is, hs.rs⟩, rfl⟩
    · simpa [FrameKind.post, Vm.regs] using hr
    · have := hs.privEnv; simp only [FrameKind.post] at this ⊢; simp [this]

theorem pre_cs (k : FrameKind) (ret : Beh) (s s1 : Vm) (h : k.pre ret s = some s1)
    (hk : (∀ n f, k ≠ .call n f) ∧ ∀ n, k ≠ .native n) : s1.callStack = s.callStack := by
  cases k with
  | call n f => exact absurd rfl (hk.1 n f)
  | native n => exact absurd rfl (hk.2 n)
  | tmp n => simp only [FrameKind.pre, Option.some.injEq] at h; subst h; rfl
  | forOf c => simp only [FrameKind.pre, Option.some.injEq] at h; subst h; rfl
  | ref => simp only [FrameKind.pre, Option.some.injEq] at h; subst h; rfl
  | block => simp only [FrameKind.pre, Option.some.injEq] at h; subst h; rfl
  | priv => simp only [FrameKind.pre, Option.some.injEq] at h; subst h; rfl

/-- a bracketing frame operation around a sub-behaviour obeys the discipline -/
theorem frame_good {runF : RunF} (HG : HypG runF) (lf : Nat) (k : FrameKind) (ret body : Beh) (s : Vm)
    (hI : Inv s) : Good s (step lf runF (.frame k ret body) s) := by
  simp only [step]
  cases hp : k.pre ret s with
  | none => exact ⟨by simpa [GoodCtl] using (Same.refl s).toExt false, by simp [Quiet]⟩
  | some s1 =>
    obtain ⟨hext, hts, hq, hinv⟩ := pre_spec k ret s s1 hp
    have hg := HG body s1 (hinv hI)
    simp only
    generalize runF body s1 = r at hg
    obtain ⟨o, s2⟩ := r
    obtain ⟨hc, hqq⟩ := hg
    cases o with
    | normal =>
      simp only [GoodCtl] at hc
      obtain ⟨hsame, hpq⟩ := post_spec k ret s s1 s2 hp hc
      exact ⟨by simpa [GoodCtl] using hsame, fun _ => by simpa [hpq] using (hqq (by simp)).trans hq⟩
    | thrown =>
      simp only [GoodCtl] at hc
      exact ⟨by simpa [GoodCtl] using hext.trans hc, fun _ => (hqq (by simp)).trans hq⟩
    | fatal =>
      simp only [GoodCtl] at hc
      exact ⟨by simpa [GoodCtl] using hext.weaken.trans hc, by simp [Quiet]⟩
    | stuck => simp [GoodCtl] at hc
    | yielded =>
      simp only [GoodCtl] at hc
      have hq2 : s2.interrupted = s.interrupted := (hqq (by simp)).trans hq
      have hfat : Good s (Outcome.fatal, s2) := ⟨by simpa [GoodCtl] using hext.weaken.trans hc.1, by simp [Quiet]⟩
      have hy : s1.callStack = s.callStack → Good s (Outcome.yielded, ({ s2 with resid := .frame k ret s2.resid } : Vm)) := by
        intro hcs
        have he := hext.weaken.trans hc.1
        exact ⟨by simp only [GoodCtl]; exact ⟨⟨he.cs, he.is, he.rs, he.ts⟩, hc.2.trans hcs⟩, fun _ => hq2⟩
      cases k with
      | call n f => exact hfat
      | native n => exact hfat
      | tmp n => exact hy (pre_cs _ ret s s1 hp ⟨by simp, by simp⟩)
      | forOf c => exact hy (pre_cs _ ret s s1 hp ⟨by simp, by simp⟩)
      | ref => exact hy (pre_cs _ ret s s1 hp ⟨by simp, by simp⟩)
      | block => exact hy (pre_cs _ ret s s1 hp ⟨by simp, by simp⟩)
      | priv => exact hy (pre_cs _ ret s s1 hp ⟨by simp, by simp⟩)
    | exit e =>
      simp only [GoodCtl] at hc
      obtain ⟨hsame, hpq⟩ := post_spec k ret s s1 s2 hp hc
      have hq2 : s2.interrupted = s.interrupted := (hqq (by simp)).trans hq
      -- everything but a for-of: the frame's own clean-up, then the exit goes on (or ends at a function)
      have other : ∀ o' : Outcome, (o' = .normal ∨ o' = .exit e) → Good s (o', k.post s2) := by
        intro o' ho
        rcases ho with rfl | rfl
        · exact ⟨by simpa [GoodCtl] using hsame, fun _ => hpq.trans hq2⟩
        · exact ⟨by simpa [GoodCtl] using hsame, fun _ => hpq.trans hq2⟩
      cases k with
      | tmp n => exact other _ (Or.inr rfl)
      | call n f => exact other _ (Or.inl rfl)
      | native n => exact other _ (Or.inl rfl)
      | ref => exact other _ (Or.inr rfl)
      | block => exact other _ (Or.inr rfl)
      | priv => exact other _ (Or.inr rfl)
      | forOf c =>
        simp only [frameExit]
        have hI3 : Inv (FrameKind.post (.forOf c) s2) := hsame.inv hI
        cases c with
        | false =>
          simp only [Bool.false_eq_true, if_false]
          cases e with
          | brk => exact ⟨by simpa [GoodCtl] using hsame, fun _ => hpq.trans hq2⟩
          | ret => exact ⟨by simpa [GoodCtl] using hsame, fun _ => hpq.trans hq2⟩
        | true =>
          simp only [if_true]
          have hg3 := HG ret _ hI3
          generalize runF ret (FrameKind.post (.forOf true) s2) = r3 at hg3
          obtain ⟨o3, s3⟩ := r3
          obtain ⟨hc3, hq3⟩ := hg3
          have hq4 : o3 ≠ .fatal → s3.interrupted = s.interrupted := fun h => ((hq3 h).trans hpq).trans hq2
          cases o3 with
          | normal =>
            simp only [GoodCtl] at hc3
            cases e with
            | brk => exact ⟨by simpa [GoodCtl] using hsame.trans hc3, fun _ => hq4 (by simp)⟩
            | ret => exact ⟨by simpa [GoodCtl] using hsame.trans hc3, fun _ => hq4 (by simp)⟩
          | exit e3 =>
            simp only [GoodCtl] at hc3
            cases e with
            | brk => exact ⟨by simpa [GoodCtl] using hsame.trans hc3, fun _ => hq4 (by simp)⟩
            | ret => exact ⟨by simpa [GoodCtl] using hsame.trans hc3, fun _ => hq4 (by simp)⟩
          | thrown =>
            simp only [GoodCtl] at hc3
            exact ⟨by simpa [GoodCtl] using hsame.ext_left hc3, fun _ => hq4 (by simp)⟩
          | fatal =>
            simp only [GoodCtl] at hc3
            exact ⟨by simpa [GoodCtl] using hsame.ext_left hc3, by simp [Quiet]⟩
          | stuck => simp [GoodCtl] at hc3
          | yielded =>
            simp only [GoodCtl] at hc3
            exact ⟨by simp only [GoodCtl]; exact ⟨hsame.ext_left hc3.1, hc3.2.trans hsame.cs⟩, fun _ => hq4 (by simp)⟩

/-- the native probe (a native call that may overflow, throw a catchable payload, or raise Interrupt) -/
theorem probe_good (id : Nat) (s : Vm) : Good s (probe id s) := by
  unfold probe
  cases hp : FrameKind.pre (.native 1) .skip s with
  | none =>
    have : Ext false s { s with sp := s.sp + 3 } :=
      ⟨⟨[], by simp [levelRegs, Vm.regs]⟩, ⟨[], by simp⟩, ⟨[], by simp⟩, ⟨[], by simp⟩⟩
    exact ⟨by simpa [GoodCtl] using this, by simp [Quiet]⟩
  | some s1 =>
    obtain ⟨hext, hts, hq, _⟩ := pre_spec (.native 1) .skip s s1 hp
    have hobs : Same s1 (observe id s1) := ⟨rfl, rfl, rfl, rfl, rfl, rfl, rfl, rfl⟩
    obtain ⟨hsame, hpq⟩ := post_spec (.native 1) .skip s s1 (observe id s1) hp hobs
    have hoq : (observe id s1).interrupted = s.interrupted := hq
    simp only
    split
    · split
      · split
        · exact ⟨by simpa [GoodCtl] using hext.trans (hobs.toExt true), fun _ => hoq⟩
        · refine ⟨?_, by simp [Quiet]⟩
          have : Same s { FrameKind.post (.native 1) (observe id s1) with interrupted := true } :=
            ⟨hsame.sp, hsame.regs, hsame.stash, hsame.privEnv, hsame.cs, hsame.ts, hsame.is, hsame.rs⟩
          simpa [GoodCtl] using this.toExt false
      · exact ⟨by simpa [GoodCtl] using hsame, fun _ => hpq.trans hoq⟩
    · exact ⟨by simpa [GoodCtl] using hsame, fun _ => hpq.trans hoq⟩

/-! ### vm.try -/

theorem mkSame {s t : Vm}
    (h : t.sp = s.sp ∧ t.regs = s.regs ∧ t.stash = s.stash ∧ t.privEnv = s.privEnv ∧
      t.callStack = s.callStack ∧ t.tryStack = s.tryStack ∧ t.iterStack = s.iterStack ∧
      t.refStack = s.refStack) : Same s t :=
  ⟨h.1, h.2.1, h.2.2.1, h.2.2.2.1, h.2.2.2.2.1, h.2.2.2.2.2.1, h.2.2.2.2.2.2.1, h.2.2.2.2.2.2.2⟩

/-- the deferred recover of a boundary never answers with a local exit -/
theorem unwind_no_exit (runF : RunF) (o : Outcome) (s : Vm) :
    (∀ e, (unwindAtMarker runF o s).1 ≠ .exit e) ∧ (unwindAtMarker runF o s).1 ≠ .yielded := by
  unfold unwindAtMarker
  simp only
  refine ⟨fun e => ?_, ?_⟩
  · split
    · split <;> simp
    · simp
    · simp
  · split
    · split <;> simp
    · simp
    · simp

/-- **vm.try is balanced** (vm.go `try`): for every behaviour of the callback and every ending. -/
theorem tryB_spec {runF : RunF} (HG : HypG runF) (HA : HypA runF) (b : Beh) (s : Vm) (hI : Inv s) :
    ApiGood s (tryB runF b s) := by
  unfold tryB
  have hg := HG b (pushTryFrame tryPanicMarker (-1) s) (pushTryFrame_inv _ _ hI)
  generalize runF b (pushTryFrame tryPanicMarker (-1) s) = r at hg
  obtain ⟨o, s1⟩ := r
  obtain ⟨hc, hq⟩ := hg
  have hpq : (pushTryFrame tryPanicMarker (-1) s).interrupted = s.interrupted := rfl
  have key : ∀ (o' : Outcome) (c : Bool), (o' = .thrown → c = true) →
      Ext c (pushTryFrame tryPanicMarker (-1) s) s1 → (o' ≠ .fatal → s1.interrupted = s.interrupted) →
      ApiGood s (unwindAtMarker runF o' s1) := by
    intro o' c hcc hext hq1
    have := unwind_after_body HA o' c hcc s (pushTryFrame tryPanicMarker (-1) s) s1 hI
      ((Same.refl _).toExt false) rfl hext _ rfl
    obtain ⟨a1, a2, a3, a4, a5, a6, a7, a8, a9, a10, a11, a12⟩ := this
    have hne := unwind_no_exit runF o' s1
    refine ⟨⟨a1, hne.1, hne.2⟩, mkSame ⟨a4, a5, a6, a7, a8, a9, a10, a11⟩, fun hnf => ?_⟩
    have ho : o' = .thrown := by
      cases hu : (unwindAtMarker runF o' s1).1 with
      | thrown => exact a3 hu
      | fatal => exact absurd hu hnf
      | normal => exact absurd hu a2
      | stuck => exact absurd hu a1
      | exit e => exact absurd hu (hne.1 e)
      | yielded => exact absurd hu hne.2
    exact (a12 hnf).trans (hq1 (by simp [ho]))
  cases o with
  | normal =>
    simp only [GoodCtl] at hc
    exact ⟨by simp, same_pop_of_push hc, fun _ => by simpa [popTryFrame] using (hq (by simp)).trans hpq⟩
  | exit e =>
    simp only [GoodCtl] at hc
    exact ⟨by simp, same_pop_of_push hc, fun _ => by simpa [popTryFrame] using (hq (by simp)).trans hpq⟩
  | stuck => simp [GoodCtl] at hc
  | thrown => exact key .thrown true (fun _ => rfl) hc (fun _ => (hq (by simp)).trans hpq)
  | fatal => exact key .fatal false (by simp) hc (by simp)
  | yielded => simp only [GoodCtl] at hc; exact key .fatal false (by simp) hc.1 (by simp)

end GojaModel.C03
