/-
  C03 — generators: create / next / throw / return obey the run-loop discipline.
-/
import GojaModel.C03.Lemmas5

namespace GojaModel.C03

/-! ### the generator heap is not control state -/

@[simp] theorem setGen_sp (s : Vm) (k : Nat) (g : GenObj) : (setGen s k g).sp = s.sp := rfl
@[simp] theorem setGen_regs (s : Vm) (k : Nat) (g : GenObj) : (setGen s k g).regs = s.regs := rfl
@[simp] theorem setGen_stash (s : Vm) (k : Nat) (g : GenObj) : (setGen s k g).stash = s.stash := rfl
@[simp] theorem setGen_privEnv (s : Vm) (k : Nat) (g : GenObj) : (setGen s k g).privEnv = s.privEnv := rfl
@[simp] theorem setGen_cs (s : Vm) (k : Nat) (g : GenObj) : (setGen s k g).callStack = s.callStack := rfl
@[simp] theorem setGen_ts (s : Vm) (k : Nat) (g : GenObj) : (setGen s k g).tryStack = s.tryStack := rfl
@[simp] theorem setGen_is (s : Vm) (k : Nat) (g : GenObj) : (setGen s k g).iterStack = s.iterStack := rfl
@[simp] theorem setGen_rs (s : Vm) (k : Nat) (g : GenObj) : (setGen s k g).refStack = s.refStack := rfl
@[simp] theorem setGen_intr (s : Vm) (k : Nat) (g : GenObj) : (setGen s k g).interrupted = s.interrupted := rfl
@[simp] theorem setGen_sb (s : Vm) (k : Nat) (g : GenObj) : (setGen s k g).sb = s.sb := rfl

theorem Same.withGen {s t : Vm} (h : Same s t) (k : Nat) (g : GenObj) : Same s (setGen t k g) :=
  ⟨h.sp, h.regs, h.stash, h.privEnv, h.cs, h.ts, h.is, h.rs⟩

theorem Same.dropGen {s t : Vm} (k : Nat) (g : GenObj) (h : Same (setGen s k g) t) : Same s t :=
  ⟨h.sp, h.regs, h.stash, h.privEnv, h.cs, h.ts, h.is, h.rs⟩

theorem Ext.withGen {c : Bool} {s t : Vm} (h : Ext c s t) (k : Nat) (g : GenObj) : Ext c s (setGen t k g) := by
  obtain ⟨e1, h1, h1'⟩ := h.cs
  exact ⟨⟨e1, h1, by cases e1 <;> simpa [levelRegs] using h1'⟩, h.is, h.rs, h.ts⟩

theorem Ext.dropGen {c : Bool} {s t : Vm} (k : Nat) (g : GenObj) (h : Ext c (setGen s k g) t) : Ext c s t :=
  ⟨h.cs, h.is, h.rs, h.ts⟩

/-! ### enterNext / resume, and the two ways back -/

/-- the state in which enterNext's marker is pushed, with the registers the halt frame will give back -/
def markerState (s : Vm) : Vm :=
  { s with callStack := s.callStack ++ [saveCtx s], prg := none, sb := 0, args := 0, newTarget := 0 }

theorem genEnterNext_spec (g : GenObj) (s s4 : Vm) (h : genEnterNext g s = some s4) :
    s4.callStack = s.callStack ++ [saveCtx s, ctxHalt] ∧
    s4.tryStack = (pushTryFrame tryPanicMarker (-1) (markerState s)).tryStack ∧
    s4.iterStack = s.iterStack ∧ s4.refStack = s.refStack ∧ s4.interrupted = s.interrupted ∧
    s4.sb = s.sp + 1 ∧ (markerState s).sp = s.sp ∧ (markerState s).stash = s.stash ∧
    (markerState s).privEnv = s.privEnv ∧ (markerState s).tryStack = s.tryStack ∧
    (markerState s).iterStack = s.iterStack ∧ (markerState s).refStack = s.refStack := by
  unfold genEnterNext at h
  simp only [Option.map_eq_some_iff] at h
  obtain ⟨s1, hp, rfl⟩ := h
  have := pushCtx_some hp; subst this
  simp [restoreCtx, pushTryFrame, markerState]

theorem drop_len_append {α : Type} (e l : List α) : (e ++ l).drop ((e ++ l).length - l.length) = l := by
  have : (e ++ l).length - l.length = e.length := by simp
  rw [this]; simp

/-- a state in which the activation may be suspended: call stack and registers as at the resume, the other stacks
only extended (the live records of the constructs the `yield` sits in) -/
theorem suspendable {s4 s5 : Vm} (h : Ext false s4 s5) (hcs : s5.callStack = s4.callStack) :
    s5.regs = s4.regs ∧ (∃ e, s5.tryStack = e ++ s4.tryStack) ∧ (∃ e, s5.iterStack = s4.iterStack ++ e) ∧
    (∃ e, s5.refStack = s4.refStack ++ e) := by
  obtain ⟨e1, he1, hr1⟩ := h.cs
  have : e1 = [] := by
    have := he1.symm.trans hcs
    simpa using this
  subst this
  obtain ⟨e4, he4, _⟩ := h.ts
  exact ⟨by simpa [levelRegs] using hr1, ⟨e4, he4⟩, h.is, h.rs⟩

/-- back to the caller after a `yield` (vm.suspend cuts the three stacks back to the lengths stored by enterNext) -/
theorem genLeave_spec (s s5 : Vm) (c : Ctx) (tf : TryFrame) (e1 : List TryFrame) (e2 : List IterItem) (e3 : List Nat)
    (hcs : s5.callStack = s.callStack ++ [saveCtx s, c]) (hts : s5.tryStack = e1 ++ tf :: s.tryStack)
    (his : s5.iterStack = s.iterStack ++ e2) (hrs : s5.refStack = s.refStack ++ e3) (hsb : s5.sb = s.sp + 1) :
    Same s (genLeave (tf :: s.tryStack).length s.iterStack.length s.refStack.length s5) ∧
    (genLeave (tf :: s.tryStack).length s.iterStack.length s.refStack.length s5).interrupted = s5.interrupted := by
  unfold genLeave
  have d1 : s5.tryStack.drop (s5.tryStack.length - (tf :: s.tryStack).length) = tf :: s.tryStack := by
    rw [hts]; exact drop_len_append e1 (tf :: s.tryStack)
  have e1' : (popTryFrame { s5 with
      sp := s5.sb - 1
      callStack := s5.callStack.dropLast
      tryStack := s5.tryStack.drop (s5.tryStack.length - (tf :: s.tryStack).length)
      iterStack := s5.iterStack.take s.iterStack.length
      refStack := s5.refStack.take s.refStack.length }).callStack
      = s.callStack ++ [saveCtx s] := by
    simp [popTryFrame, hcs, List.dropLast_append_cons]
  rw [popCtx_snoc _ _ _ e1']
  refine ⟨⟨?_, ?_, ?_, ?_, rfl, ?_, ?_, ?_⟩, ?_⟩
  · simp [restoreCtx, popTryFrame, hsb]
  · simp [restoreCtx, saveCtx, Vm.regs]
  · simp [restoreCtx, saveCtx]
  · simp [restoreCtx, saveCtx]
  · simp only [restoreCtx, popTryFrame]; rw [d1]; rfl
  · simp [restoreCtx, popTryFrame, his]
  · simp [restoreCtx, popTryFrame, hrs]
  · simp [restoreCtx, popTryFrame]

/-- back to the caller after the generator body returned -/
theorem genFinish_spec (s s5 : Vm) (c : Ctx) (tf : TryFrame)
    (hcs : s5.callStack = s.callStack ++ [saveCtx s, c]) (hts : s5.tryStack = tf :: s.tryStack)
    (his : s5.iterStack = s.iterStack) (hrs : s5.refStack = s.refStack) (hsb : s5.sb = s.sp + 1) :
    Same s (genFinish s5) ∧ (genFinish s5).interrupted = s5.interrupted := by
  unfold genFinish
  have e0 : ({ s5 with sp := s5.sb } : Vm).callStack = (s.callStack ++ [saveCtx s]) ++ [c] := by simp [hcs]
  rw [popCtx_snoc _ _ _ e0]
  simp only
  rw [popCtx_snoc _ s.callStack (saveCtx s) (by simp [popTryFrame])]
  refine ⟨⟨?_, ?_, ?_, ?_, rfl, ?_, ?_, ?_⟩, ?_⟩
  · (simp [restoreCtx, popTryFrame, hsb] <;> omega)
  · simp [restoreCtx, saveCtx, Vm.regs]
  · simp [restoreCtx, saveCtx]
  · simp [restoreCtx, saveCtx]
  · simp [restoreCtx, popTryFrame, hts]
  · simp [restoreCtx, popTryFrame, his]
  · simp [restoreCtx, popTryFrame, hrs]
  · simp [restoreCtx, popTryFrame]

/-! ### the four operations -/

theorem genNew_good (slot n : Nat) (f : FnInfo) (body : Beh) (s : Vm) : Good s (genNew slot n f body s) := by
  unfold genNew
  simp only
  cases h1 : pushCtx { s with sp := s.sp + 2 + n } with
  | none =>
    have : Ext false s { s with sp := s.sp + 2 + n } :=
      ⟨⟨[], by simp [levelRegs, Vm.regs]⟩, ⟨[], by simp⟩, ⟨[], by simp⟩, ⟨[], by simp⟩⟩
    exact ⟨by simpa [GoodCtl] using this, by simp [Quiet]⟩
  | some s2 =>
    have := pushCtx_some h1; subst this
    simp only
    split
    · have : Ext false s ({ ({ pushTryFrame tryPanicMarker (-1) ({ ({ s with sp := s.sp + 2 + n } : Vm) with
          callStack := s.callStack ++ [saveCtx { s with sp := s.sp + 2 + n }] } : Vm) with prg := none, sb := -1, pc := -2 } : Vm) with
          tryStack := s.tryStack } : Vm) :=
        ⟨⟨[_], rfl, by simp [levelRegs, Ctx.regs, saveCtx, Vm.regs]⟩, ⟨[], by simp [pushTryFrame]⟩,
         ⟨[], by simp [pushTryFrame]⟩, ⟨[], by simp⟩⟩
      exact ⟨by simpa [GoodCtl, pushTryFrame] using this, by simp [Quiet]⟩
    · refine ⟨?_, fun _ => ?_⟩
      · simp only [GoodCtl]
        apply Same.withGen
        rw [popCtx_snoc _ s.callStack (saveCtx { s with sp := s.sp + 2 + n }) (by simp [popTryFrame, pushTryFrame])]
        exact ⟨by simp, by simp [restoreCtx, saveCtx, Vm.regs], by simp [restoreCtx, saveCtx],
          by simp [restoreCtx, saveCtx], by simp, by simp [restoreCtx, popTryFrame, pushTryFrame],
          by simp [restoreCtx, popTryFrame, pushTryFrame], by simp [restoreCtx, popTryFrame, pushTryFrame]⟩
      · rw [popCtx_snoc _ s.callStack (saveCtx { s with sp := s.sp + 2 + n }) (by simp [popTryFrame, pushTryFrame])]
        simp [restoreCtx, popTryFrame, pushTryFrame]

/-- the marker of enterNext restores to `markerState s`; the caller's context is the last entry of its call stack -/
theorem unwind_gen {runF : RunF} (HA : HypA runF) (o : Outcome) (c : Bool) (hc : o = .thrown → c = true)
    (g : GenObj) (s s4 s5 : Vm) (he : genEnterNext g s = some s4) (hext : Ext c s4 s5) (r : Res)
    (hr : r = unwindAtMarker runF o s5) :
    r.1 ≠ .stuck ∧ r.1 ≠ .normal ∧ (r.1 = .thrown → o = .thrown) ∧ ((∀ e, r.1 ≠ .exit e) ∧ r.1 ≠ .yielded) ∧
    Ext false s r.2 ∧ Same s (popCtx r.2) ∧ (popCtx r.2).interrupted = r.2.interrupted ∧
    (r.1 ≠ .fatal → r.2.interrupted = s5.interrupted) := by
  obtain ⟨a1, a2, a3, a4, a5, a6, m1, m2, m3, m4, m5, m6⟩ := genEnterNext_spec g s s4 he
  have hIm : Inv (markerState s) := inv_of_ne (by simp [markerState])
  have hB : Ext false (pushTryFrame tryPanicMarker (-1) (markerState s)) s4 :=
    ⟨⟨[ctxHalt], by simp [a1, pushTryFrame, markerState], by simp [levelRegs, Ctx.regs, ctxHalt, Vm.regs, pushTryFrame, markerState]⟩,
     ⟨[], by simp [a3, pushTryFrame, markerState]⟩, ⟨[], by simp [a4, pushTryFrame, markerState]⟩, ⟨[], by simp [a2]⟩⟩
  have := unwind_after_body HA o c hc (markerState s) s4 s5 hIm hB a2 hext r hr
  obtain ⟨b1, b2, b3, b4, b5, b6, b7, b8, b9, b10, b11, b12⟩ := this
  have hne : (∀ e, r.1 ≠ .exit e) ∧ r.1 ≠ .yielded := by rw [hr]; exact unwind_no_exit runF o s5
  have hcs : r.2.callStack = s.callStack ++ [saveCtx s] := by rw [b8]; simp [markerState]
  refine ⟨b1, b2, b3, hne, ?_, ?_, ?_, b12⟩
  · exact ⟨⟨[saveCtx s], hcs, by simp [levelRegs, Ctx.regs, saveCtx, Vm.regs]⟩, ⟨[], by simp [b10, m5]⟩,
      ⟨[], by simp [b11, m6]⟩, ⟨[], by simp [b9, m4]⟩⟩
  · rw [popCtx_snoc _ _ _ hcs]
    exact ⟨by simp [restoreCtx, b4, m1], by simp [restoreCtx, saveCtx, Vm.regs], by simp [restoreCtx, saveCtx],
      by simp [restoreCtx, saveCtx], rfl, by simp [restoreCtx, b9, m4], by simp [restoreCtx, b10, m5],
      by simp [restoreCtx, b11, m6]⟩
  · rw [popCtx_snoc _ _ _ hcs]; simp [restoreCtx]

theorem genResume_good {runF : RunF} (HG : HypG runF) (HA : HypA runF) (slot : Nat) (what : Option Beh)
    (isThrow : Bool) (s : Vm) : Good s (genResume runF slot what isThrow s) := by
  unfold genResume
  have same : Good s (.normal, s) := ⟨by simpa [GoodCtl] using Same.refl s, fun _ => rfl⟩
  have thr : Good s (.thrown, s) := ⟨by simpa [GoodCtl] using (Same.refl s).toExt true, fun _ => rfl⟩
  have either : Good s (if isThrow then (Outcome.thrown, s) else (Outcome.normal, s)) := by
    cases isThrow <;> simp [same, thr]
  cases hg : getGen s slot with
  | none => exact either
  | some g =>
    simp only
    cases g.state with
    | completed => exact either
    | executing => exact thr
    | suspended =>
      simp only
      split
      · cases isThrow with
        | true => exact ⟨by simpa [GoodCtl] using ((Same.refl s).withGen slot _).toExt true, fun _ => rfl⟩
        | false => exact ⟨by simpa [GoodCtl] using (Same.refl s).withGen slot _, fun _ => rfl⟩
      · cases he : genEnterNext g s with
        | none => exact ⟨by simpa [GoodCtl] using ((Same.refl s).withGen slot _).toExt false, by simp [Quiet]⟩
        | some s4' =>
          obtain ⟨a1, a2, a3, a4, a5, a6, _⟩ := genEnterNext_spec g s s4' he
          simp only
          generalize hs4 : setGen s4' slot { g with state := .executing, started := true } = s4
          have hI4 : Inv s4 := inv_of_ne (by rw [← hs4]; simp [a1])
          have q4 : s4.interrupted = s.interrupted := by rw [← hs4]; simpa using a5
          obtain ⟨tfm, htfm, _⟩ := pushTryFrame_frameOf tryPanicMarker (-1) (markerState s)
          have ts4 : s4'.tryStack = tfm :: s.tryStack := by rw [a2, htfm]; simp [markerState]
          have c4 : s4.callStack = s.callStack ++ [saveCtx s, ctxHalt] := by rw [← hs4]; simpa using a1
          have t4 : s4.tryStack = tfm :: s.tryStack := by rw [← hs4]; simpa using ts4
          have i4 : s4.iterStack = s.iterStack := by rw [← hs4]; simpa using a3
          have r4 : s4.refStack = s.refStack := by rw [← hs4]; simpa using a4
          have b4 : s4.sb = s.sp + 1 := by rw [← hs4]; simpa using a6
          -- the normal way back (the body returned)
          have fin : ∀ s5 : Vm, Same s4 s5 → Same s (genFinish s5) ∧ (genFinish s5).interrupted = s5.interrupted := by
            intro s5 h5
            have hr5 := h5.regs
            simp only [Vm.regs, Regs.mk.injEq] at hr5
            exact genFinish_spec s s5 _ tfm (by rw [h5.cs, c4]) (by rw [h5.ts, t4]) (by rw [h5.is, i4]) (by rw [h5.rs, r4])
              (by rw [hr5.2.1, b4])
          have unwind : ∀ (o : Outcome) (c : Bool) (s5 : Vm), (o = .thrown → c = true) → Ext c s4 s5 →
              (o ≠ .fatal → s5.interrupted = s4.interrupted) →
              Good s (match (unwindAtMarker runF o s5).1 with
                | .thrown => (Outcome.thrown, setGen (popCtx (unwindAtMarker runF o s5).2) slot (genDone g))
                | _ => unwindAtMarker runF o s5) := by
            intro o c s5 hcc hext hq5
            have hext' : Ext c s4' s5 := by rw [← hs4] at hext; exact Ext.dropGen _ _ hext
            obtain ⟨b1, b2, b3, b4', b5, b6, b7, b8⟩ := unwind_gen HA o c hcc g s s4' s5 he hext' _ rfl
            generalize unwindAtMarker runF o s5 = u at b1 b2 b3 b4' b5 b6 b7 b8
            obtain ⟨ou, su⟩ := u
            cases ou with
            | normal => exact absurd rfl b2
            | stuck => exact absurd rfl b1
            | exit e => exact absurd rfl (b4'.1 e)
            | yielded => exact absurd rfl b4'.2
            | thrown =>
              have ho : o = .thrown := b3 rfl
              exact ⟨by simpa [GoodCtl] using (b6.withGen slot _).toExt true,
                fun _ => by simp only [setGen_intr]; rw [b7, b8 (by simp), hq5 (by simp [ho]), q4]⟩
            | fatal => exact ⟨by simpa [GoodCtl] using b5, by simp [Quiet]⟩
          by_cases hint : s4.interrupted = true
          · simp only [hint, if_true]
            exact unwind .fatal false s4 (by simp) ((Same.refl s4).toExt false) (by simp)
          · simp only [hint, Bool.false_eq_true, if_false]
            generalize resumeBody what g.rest = body
            have hgood := HG body s4 hI4
            rcases hrr : runF body s4 with ⟨o, s5⟩
            rw [hrr] at hgood
            obtain ⟨hc, hq⟩ := hgood
            cases o with
            | yielded =>
              simp only [GoodCtl] at hc
              obtain ⟨y1, ⟨e1, y2⟩, ⟨e2, y3⟩, ⟨e3, y4⟩⟩ := suspendable hc.1 hc.2
              have hr5 := y1
              simp only [Vm.regs, Regs.mk.injEq] at hr5
              have hq5 : s5.interrupted = s.interrupted := (hq (by simp)).trans q4
              have hl := genLeave_spec s s5 ctxHalt tfm e1 e2 e3 (by rw [hc.2, c4]) (by rw [y2, t4]) (by rw [y3, i4])
                (by rw [y4, r4]) (by rw [hr5.2.1, b4])
              have hlen : s4.tryStack.length = (tfm :: s.tryStack).length := by rw [t4]
              simp only [hlen, i4, r4]
              exact ⟨by simpa [GoodCtl] using hl.1.withGen slot _, fun _ => by simp only [setGen_intr]; rw [hl.2, hq5]⟩
            | normal =>
              simp only [GoodCtl] at hc
              obtain ⟨f1, f2⟩ := fin s5 hc
              have hq5 : s5.interrupted = s.interrupted := (hq (by simp)).trans q4
              exact ⟨by simpa [GoodCtl] using f1.withGen slot _, fun _ => by simp only [setGen_intr]; rw [f2, hq5]⟩
            | exit e =>
              simp only [GoodCtl] at hc
              obtain ⟨f1, f2⟩ := fin s5 hc
              have hq5 : s5.interrupted = s.interrupted := (hq (by simp)).trans q4
              exact ⟨by simpa [GoodCtl] using f1.withGen slot _, fun _ => by simp only [setGen_intr]; rw [f2, hq5]⟩
            | stuck => simp [GoodCtl] at hc
            | thrown => exact unwind .thrown true s5 (fun _ => rfl) hc hq
            | fatal => exact unwind .fatal false s5 (by simp) hc (by simp)

/-! ### async functions -/

theorem asyncResume_good {runF : RunF} (HG : HypG runF) (HA : HypA runF) (id : Nat) (s : Vm) :
    Good s (asyncResume runF id s) := by
  unfold asyncResume
  have same : Good s (.normal, s) := ⟨by simpa [GoodCtl] using Same.refl s, fun _ => rfl⟩
  cases hg : getGen s id with
  | none => exact same
  | some g =>
    simp only
    cases he : genEnterNext g s with
    | none => exact ⟨by simpa [GoodCtl] using (Same.refl s).toExt false, by simp [Quiet]⟩
    | some s4 =>
      obtain ⟨c4, a2, i4, r4, q4, b4, _⟩ := genEnterNext_spec g s s4 he
      simp only
      have hI4 : Inv s4 := inv_of_ne (by simp [c4])
      obtain ⟨tfm, htfm, _⟩ := pushTryFrame_frameOf tryPanicMarker (-1) (markerState s)
      have t4 : s4.tryStack = tfm :: s.tryStack := by rw [a2, htfm]; simp [markerState]
      have fin : ∀ s5 : Vm, Same s4 s5 → Same s (genFinish s5) ∧ (genFinish s5).interrupted = s5.interrupted := by
        intro s5 h5
        have hr5 := h5.regs
        simp only [Vm.regs, Regs.mk.injEq] at hr5
        exact genFinish_spec s s5 _ tfm (by rw [h5.cs, c4]) (by rw [h5.ts, t4]) (by rw [h5.is, i4]) (by rw [h5.rs, r4])
          (by rw [hr5.2.1, b4])
      have unwind : ∀ (o : Outcome) (c : Bool) (s5 : Vm), (o = .thrown → c = true) → Ext c s4 s5 →
          (o ≠ .fatal → s5.interrupted = s4.interrupted) →
          Good s (match (unwindAtMarker runF o s5).1 with
            | .thrown => (Outcome.normal, setGen (popCtx (unwindAtMarker runF o s5).2) id (genDone g))
            | _ => unwindAtMarker runF o s5) := by
        intro o c s5 hcc hext hq5
        obtain ⟨b1, b2, b3, b4', b5, b6, b7, b8⟩ := unwind_gen HA o c hcc g s s4 s5 he hext _ rfl
        generalize unwindAtMarker runF o s5 = u at b1 b2 b3 b4' b5 b6 b7 b8
        obtain ⟨ou, su⟩ := u
        cases ou with
        | normal => exact absurd rfl b2
        | stuck => exact absurd rfl b1
        | exit e => exact absurd rfl (b4'.1 e)
        | yielded => exact absurd rfl b4'.2
        | thrown =>
          have ho : o = .thrown := b3 rfl
          exact ⟨by simpa [GoodCtl] using b6.withGen id _,
            fun _ => by simp only [setGen_intr]; rw [b7, b8 (by simp), hq5 (by simp [ho]), q4]⟩
        | fatal => exact ⟨by simpa [GoodCtl] using b5, by simp [Quiet]⟩
      by_cases hint : s4.interrupted = true
      · simp only [hint, if_true]
        exact unwind .fatal false s4 (by simp) ((Same.refl s4).toExt false) (by simp)
      · simp only [hint, Bool.false_eq_true, if_false]
        have hgood := HG g.rest s4 hI4
        rcases hrr : runF g.rest s4 with ⟨o, s5⟩
        rw [hrr] at hgood
        obtain ⟨hc, hq⟩ := hgood
        cases o with
        | yielded =>
          simp only [GoodCtl] at hc
          obtain ⟨y1, ⟨e1, y2⟩, ⟨e2, y3⟩, ⟨e3, y4⟩⟩ := suspendable hc.1 hc.2
          have hr5 := y1
          simp only [Vm.regs, Regs.mk.injEq] at hr5
          have hq5 : s5.interrupted = s.interrupted := (hq (by simp)).trans q4
          have hl := genLeave_spec s s5 ctxHalt tfm e1 e2 e3 (by rw [hc.2, c4]) (by rw [y2, t4]) (by rw [y3, i4])
            (by rw [y4, r4]) (by rw [hr5.2.1, b4])
          have hlen : s4.tryStack.length = (tfm :: s.tryStack).length := by rw [t4]
          simp only [hlen, i4, r4]
          have hs := hl.1.withGen id { rest := s5.resid, ctx := saveCtx s5, stackLen := (s5.sp - s5.sb + 1).toNat, state := .suspended, started := true }
          exact ⟨by simp only [GoodCtl]; exact ⟨hs.sp, hs.regs, hs.stash, hs.privEnv, hs.cs, hs.ts, hs.is, hs.rs⟩,
            fun _ => by simp only [setGen_intr]; rw [hl.2, hq5]⟩
        | normal =>
          simp only [GoodCtl] at hc
          obtain ⟨f1, f2⟩ := fin s5 hc
          have hq5 : s5.interrupted = s.interrupted := (hq (by simp)).trans q4
          exact ⟨by simpa [GoodCtl] using f1.withGen id _, fun _ => by simp only [setGen_intr]; rw [f2, hq5]⟩
        | exit e =>
          simp only [GoodCtl] at hc
          obtain ⟨f1, f2⟩ := fin s5 hc
          have hq5 : s5.interrupted = s.interrupted := (hq (by simp)).trans q4
          exact ⟨by simpa [GoodCtl] using f1.withGen id _, fun _ => by simp only [setGen_intr]; rw [f2, hq5]⟩
        | stuck => simp [GoodCtl] at hc
        | thrown => exact unwind .thrown true s5 (fun _ => rfl) hc hq
        | fatal => exact unwind .fatal false s5 (by simp) hc (by simp)

/-- the state in which enter()'s marker is pushed, with the registers the callee's saved context gives back -/
def enterState (n : Nat) (s : Vm) : Vm :=
  { s with sp := s.sp + 2 + n, callStack := s.callStack ++ [saveCtx { s with sp := s.sp + 2 + n }], prg := none, sb := -1 }

theorem actEnter_spec (n : Nat) (s s3 : Vm) (h : actEnter n s = some s3) :
    s3.callStack = s.callStack ++ [saveCtx { s with sp := s.sp + 2 + n }] ∧
    s3.tryStack = (pushTryFrame tryPanicMarker (-1) (enterState n s)).tryStack ∧
    s3.iterStack = s.iterStack ∧ s3.refStack = s.refStack ∧ s3.interrupted = s.interrupted ∧
    s3.regs = (enterState n s).regs := by
  unfold actEnter at h
  simp only [Option.map_eq_some_iff] at h
  obtain ⟨s2, hp, rfl⟩ := h
  have := pushCtx_some hp; subst this
  simp [pushTryFrame, enterState, Vm.regs]

theorem actCall_spec (n : Nat) (f : FnInfo) (s3 s5 : Vm) (h : actCall n f s3 = some s5) :
    s5.callStack = s3.callStack ++ [saveCtx s3] ∧ s5.tryStack = s3.tryStack ∧ s5.iterStack = s3.iterStack ∧
    s5.refStack = s3.refStack ∧ s5.interrupted = s3.interrupted := by
  unfold actCall at h
  simp only [Option.map_eq_some_iff] at h
  obtain ⟨s4, hp, rfl⟩ := h
  have := pushCtx_some hp; subst this
  simp

/-- back in asyncRunner.start: the caller's context (saved by enter() with the call's operands pushed) is restored
and the operands are gone -/
theorem actBack_spec (n : Nat) (s t : Vm)
    (hcs : t.callStack = s.callStack ++ [saveCtx { s with sp := s.sp + 2 + n }]) (hts : t.tryStack = s.tryStack)
    (his : t.iterStack = s.iterStack) (hrs : t.refStack = s.refStack) :
    Same s (actBack s t) ∧ (actBack s t).interrupted = t.interrupted := by
  unfold actBack
  rw [popCtx_snoc _ _ _ hcs]
  refine ⟨⟨rfl, ?_, ?_, ?_, rfl, ?_, ?_, ?_⟩, ?_⟩
  · simp [restoreCtx, saveCtx, Vm.regs]
  · simp [restoreCtx, saveCtx]
  · simp [restoreCtx, saveCtx]
  · simp [restoreCtx, hts]
  · simp [restoreCtx, his]
  · simp [restoreCtx, hrs]
  · simp [restoreCtx]

theorem asyncNew_good {runF : RunF} (HG : HypG runF) (HA : HypA runF) (n : Nat) (f : FnInfo) (body : Beh) (s : Vm) :
    Good s (asyncNew runF n f body s) := by
  unfold asyncNew
  cases h1 : actEnter n s with
  | none =>
    have : Ext false s { s with sp := s.sp + 2 + n } :=
      ⟨⟨[], by simp [levelRegs, Vm.regs]⟩, ⟨[], by simp⟩, ⟨[], by simp⟩, ⟨[], by simp⟩⟩
    exact ⟨by simpa [GoodCtl] using this, by simp [Quiet]⟩
  | some s3 =>
    obtain ⟨cs3, ts3, is3, rs3, q3, rg3⟩ := actEnter_spec n s s3 h1
    have hIF : Inv (enterState n s) := inv_of_ne (by simp [enterState])
    obtain ⟨tfm, htfm, _⟩ := pushTryFrame_frameOf tryPanicMarker (-1) (enterState n s)
    have ts3' : s3.tryStack = tfm :: s.tryStack := by rw [ts3, htfm]; simp [enterState]
    simp only
    cases h2 : actCall n f s3 with
    | none =>
      have : Ext false s (popTryFrame s3) :=
        ⟨⟨[saveCtx { s with sp := s.sp + 2 + n }], by simp [popTryFrame, cs3], by simp [levelRegs, Ctx.regs, saveCtx, Vm.regs]⟩,
         ⟨[], by simp [popTryFrame, is3]⟩, ⟨[], by simp [popTryFrame, rs3]⟩, ⟨[], by simp [popTryFrame, ts3']⟩⟩
      exact ⟨by simpa [GoodCtl] using this, by simp [Quiet]⟩
    | some s5 =>
      obtain ⟨cs5, ts5, is5, rs5, q5⟩ := actCall_spec n f s3 s5 h2
      have hI5 : Inv s5 := inv_of_ne (by simp [cs5])
      have hB : Ext false (pushTryFrame tryPanicMarker (-1) (enterState n s)) s5 := by
        refine ⟨⟨[saveCtx s3], ?_, ?_⟩, ⟨[], ?_⟩, ⟨[], ?_⟩, ⟨[], by simp [ts5, ts3]⟩⟩
        · rw [cs5, cs3]; simp [pushTryFrame, enterState]
        · have : (saveCtx s3).regs = s3.regs := by simp [saveCtx, Ctx.regs, Vm.regs]
          simp only [levelRegs]; rw [this, rg3]; simp [pushTryFrame, Vm.regs]
        · rw [is5, is3]; simp [pushTryFrame, enterState]
        · rw [rs5, rs3]; simp [pushTryFrame, enterState]
      simp only
      -- uncaught endings
      have unwind : ∀ (o : Outcome) (c : Bool) (s6 : Vm), (o = .thrown → c = true) → Ext c s5 s6 →
          (o ≠ .fatal → s6.interrupted = s5.interrupted) →
          Good s (match (unwindAtMarker runF o s6).1 with
            | .thrown => (Outcome.normal, actBack s (unwindAtMarker runF o s6).2)
            | _ => unwindAtMarker runF o s6) := by
        intro o c s6 hcc hext hq6
        have := unwind_after_body HA o c hcc (enterState n s) s5 s6 hIF hB (by rw [ts5, ts3]) hext _ rfl
        obtain ⟨b1, b2, b3, b4, b5, b6, b7, b8, b9, b10, b11, b12⟩ := this
        have hne := unwind_no_exit runF o s6
        generalize unwindAtMarker runF o s6 = u at b1 b2 b3 b4 b5 b6 b7 b8 b9 b10 b11 b12 hne
        obtain ⟨ou, su⟩ := u
        have csu : su.callStack = s.callStack ++ [saveCtx { s with sp := s.sp + 2 + n }] := by rw [b8]; simp [enterState]
        have tsu : su.tryStack = s.tryStack := by rw [b9]; simp [enterState]
        have isu : su.iterStack = s.iterStack := by rw [b10]; simp [enterState]
        have rsu : su.refStack = s.refStack := by rw [b11]; simp [enterState]
        cases ou with
        | normal => exact absurd rfl b2
        | stuck => exact absurd rfl b1
        | exit e => exact absurd rfl (hne.1 e)
        | yielded => exact absurd rfl hne.2
        | thrown =>
          have ho : o = .thrown := b3 rfl
          obtain ⟨z1, z2⟩ := actBack_spec n s su csu tsu isu rsu
          exact ⟨by simpa [GoodCtl] using z1, fun _ => by simp only; rw [z2, b12 (by simp), hq6 (by simp [ho]), q5, q3]⟩
        | fatal =>
          have : Ext false s su :=
            ⟨⟨[saveCtx { s with sp := s.sp + 2 + n }], csu, by simp [levelRegs, Ctx.regs, saveCtx, Vm.regs]⟩, ⟨[], by simp [isu]⟩,
             ⟨[], by simp [rsu]⟩, ⟨[], by simp [tsu]⟩⟩
          exact ⟨by simpa [GoodCtl] using this, by simp [Quiet]⟩
      -- the `ret` way back
      have retBack : ∀ s6 : Vm, Same s5 s6 → s6.interrupted = s.interrupted →
          Good s (Outcome.normal, actBack s (popTryFrame (popCtx { s6 with sp := s6.sb }))) := by
        intro s6 h6 hq6
        have c6 : ({ s6 with sp := s6.sb } : Vm).callStack = s3.callStack ++ [saveCtx s3] := by simp [h6.cs, cs5]
        have hp := popCtx_snoc _ _ _ c6
        obtain ⟨z1, z2⟩ := actBack_spec n s (popTryFrame (popCtx { s6 with sp := s6.sb }))
          (by rw [hp]; simp [popTryFrame, cs3]) (by rw [hp]; simp [popTryFrame, restoreCtx, h6.ts, ts5, ts3'])
          (by rw [hp]; simp [popTryFrame, restoreCtx, h6.is, is5, is3]) (by rw [hp]; simp [popTryFrame, restoreCtx, h6.rs, rs5, rs3])
        exact ⟨by simpa [GoodCtl] using z1, fun _ => by simp only; rw [z2, hp]; simpa [popTryFrame, restoreCtx] using hq6⟩
      by_cases hint : s5.interrupted = true
      · simp only [hint, if_true]
        exact unwind .fatal false s5 (by simp) ((Same.refl s5).toExt false) (by simp)
      · simp only [hint, Bool.false_eq_true, if_false]
        have hgood := HG body s5 hI5
        rcases hrr : runF body s5 with ⟨o, s6⟩
        rw [hrr] at hgood
        obtain ⟨hc, hq⟩ := hgood
        cases o with
        | yielded =>
          -- await: suspend (cut the stacks back to the lengths at entry), queue the continuation, pop marker and caller
          simp only [GoodCtl] at hc
          obtain ⟨y1, ⟨e1, y2⟩, ⟨e2, y3⟩, ⟨e3, y4⟩⟩ := suspendable hc.1 hc.2
          have hq6 : s6.interrupted = s.interrupted := ((hq (by simp)).trans q5).trans q3
          have d1 : s6.tryStack.drop (s6.tryStack.length - s5.tryStack.length) = s5.tryStack := by
            rw [y2]; exact drop_len_append e1 s5.tryStack
          apply (fun (h : Same s _ ∧ _) => (⟨by simpa [GoodCtl] using h.1, fun _ => h.2⟩ : Good s (Outcome.normal, _)))
          have key := actBack_spec n s
            (popTryFrame { (setGen ({ s6 with
                sp := s6.sb - 1
                callStack := s6.callStack.dropLast
                tryStack := s6.tryStack.drop (s6.tryStack.length - s5.tryStack.length)
                iterStack := s6.iterStack.take s5.iterStack.length
                refStack := s6.refStack.take s5.refStack.length } : Vm) (1000 + s6.gens.length)
                { rest := s6.resid, ctx := saveCtx s6, stackLen := (s6.sp - s6.sb + 1).toNat, state := .suspended, started := true }) with
              jobQueue := (setGen ({ s6 with
                sp := s6.sb - 1
                callStack := s6.callStack.dropLast
                tryStack := s6.tryStack.drop (s6.tryStack.length - s5.tryStack.length)
                iterStack := s6.iterStack.take s5.iterStack.length
                refStack := s6.refStack.take s5.refStack.length } : Vm) (1000 + s6.gens.length)
                { rest := s6.resid, ctx := saveCtx s6, stackLen := (s6.sp - s6.sb + 1).toNat, state := .suspended, started := true }).jobQueue
                ++ [.asyncResume (1000 + s6.gens.length)] })
            (by simp [popTryFrame, hc.2, cs5, cs3, List.dropLast_append_cons])
            (by simp only [popTryFrame, setGen_ts]; rw [d1, ts5, ts3']; rfl)
            (by simp [popTryFrame, y3, is5, is3])
            (by simp [popTryFrame, y4, rs5, rs3])
          exact ⟨key.1, by rw [key.2]; simpa [popTryFrame] using hq6⟩
        | normal =>
          simp only [GoodCtl] at hc
          exact retBack s6 hc (((hq (by simp)).trans q5).trans q3)
        | exit e =>
          simp only [GoodCtl] at hc
          exact retBack s6 hc (((hq (by simp)).trans q5).trans q3)
        | stuck => simp [GoodCtl] at hc
        | thrown => exact unwind .thrown true s6 (fun _ => rfl) hc hq
        | fatal => exact unwind .fatal false s6 (by simp) hc (by simp)

end GojaModel.C03
