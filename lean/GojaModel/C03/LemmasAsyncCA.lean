/-
  C03 — vm.curAsyncRunner is not control state: the discipline is insensitive to it.
-/
import GojaModel.C03.LemmasGen

namespace GojaModel.C03

theorem Same.caL {s t : Vm} (b : Bool) (h : Same ({ s with curAsync := b } : Vm) t) : Same s t :=
  ⟨h.sp, h.regs, h.stash, h.privEnv, h.cs, h.ts, h.is, h.rs⟩

theorem Same.caR {s t : Vm} (b : Bool) (h : Same s t) : Same s ({ t with curAsync := b } : Vm) :=
  ⟨h.sp, h.regs, h.stash, h.privEnv, h.cs, h.ts, h.is, h.rs⟩

theorem Ext.caL {c : Bool} {s t : Vm} (b : Bool) (h : Ext c ({ s with curAsync := b } : Vm) t) : Ext c s t :=
  ⟨h.cs, h.is, h.rs, h.ts⟩

theorem Ext.caR {c : Bool} {s t : Vm} (b : Bool) (h : Ext c s t) : Ext c s ({ t with curAsync := b } : Vm) := by
  obtain ⟨e1, h1, h1'⟩ := h.cs
  exact ⟨⟨e1, h1, by cases e1 <;> simpa [levelRegs, Vm.regs] using h1'⟩, h.is, h.rs, h.ts⟩

/-- onFulfilled's bracket around the continuation keeps the discipline -/
theorem asyncResumeCA_good {runF : RunF} (HG : HypG runF) (HA : HypA runF) (id : Nat) (s : Vm) :
    Good s (asyncResumeCA runF id s) := by
  unfold asyncResumeCA
  have h := asyncResume_good HG HA id ({ s with curAsync := true } : Vm)
  generalize asyncResume runF id ({ s with curAsync := true } : Vm) = r at h
  obtain ⟨o, s1⟩ := r
  obtain ⟨hc, hq⟩ := h
  refine ⟨?_, fun hn => hq hn⟩
  cases o with
  | normal => simp only [GoodCtl] at hc ⊢; exact (hc.caL true).caR false
  | thrown => simp only [GoodCtl] at hc ⊢; exact (hc.caL true).caR false
  | fatal => simp only [GoodCtl] at hc ⊢; exact (hc.caL true).caR false
  | stuck => simp [GoodCtl] at hc
  | exit e => simp only [GoodCtl] at hc ⊢; exact (hc.caL true).caR false
  | yielded => simp only [GoodCtl] at hc ⊢; exact ⟨(hc.1.caL true).caR false, hc.2⟩

end GojaModel.C03
