/-
  C03 — invariants of the VM control state model and their preservation (helper lemmas).
-/
import GojaModel.C03.Model

namespace GojaModel.C03

/-- the per-level registers that a call saves and handleThrow restores from the saved context -/
structure Regs where
  prg : Option Nat
  sb : Int
  args : Nat
  newTarget : Nat
deriving DecidableEq

def Vm.regs (s : Vm) : Regs := ⟨s.prg, s.sb, s.args, s.newTarget⟩
def Ctx.regs (c : Ctx) : Regs := ⟨c.prg, c.sb, c.args, c.newTarget⟩

/-- registers of the level that owned `s.callStack` before `e` was appended -/
def levelRegs (e : List Ctx) (s : Vm) : Regs :=
  match e with
  | [] => s.regs
  | c :: _ => c.regs

/-- control is outside every activation ⇒ no current program (true in every reachable state: the outermost
RunProgram keeps an empty context on the call stack while it runs, `__call` from idle pushes one) -/
def Inv (s : Vm) : Prop := s.callStack = [] → s.prg = none ∧ s.sb = -1

/-- nothing of the control state changed (pc, result, job queue, interrupt flag, ghost fields may) -/
structure Same (s s' : Vm) : Prop where
  sp : s'.sp = s.sp
  regs : s'.regs = s.regs
  stash : s'.stash = s.stash
  privEnv : s'.privEnv = s.privEnv
  cs : s'.callStack = s.callStack
  ts : s'.tryStack = s.tryStack
  is : s'.iterStack = s.iterStack
  rs : s'.refStack = s.refStack

/-- an abrupt ending inside one run loop only *extends* the stacks; the extra try frames are JS
frames (never a boundary marker) and, for a catchable throw, already consumed -/
structure Ext (cons : Bool) (s s' : Vm) : Prop where
  cs : ∃ e, s'.callStack = s.callStack ++ e ∧ levelRegs e s' = s.regs
  is : ∃ e, s'.iterStack = s.iterStack ++ e
  rs : ∃ e, s'.refStack = s.refStack ++ e
  ts : ∃ e, s'.tryStack = e ++ s.tryStack ∧
        ∀ f ∈ e, f.catchPos ≠ tryPanicMarker ∧ (cons = true → isConsumed f = true)

/-- only an uncatchable ending may have changed the interrupt flag -/
def Quiet (s : Vm) (r : Res) : Prop := r.1 ≠ .fatal → r.2.interrupted = s.interrupted

def GoodCtl (s : Vm) (r : Res) : Prop :=
  match r.1 with
  | .normal => Same s r.2
  | .thrown => Ext true s r.2
  | .fatal => Ext false s r.2
  | .stuck => False
  | .exit _ => Same s r.2
  | .yielded => Ext false s r.2 ∧ r.2.callStack = s.callStack

/-- the run-loop discipline of a behaviour started in `s` -/
def Good (s : Vm) (r : Res) : Prop := GoodCtl s r ∧ Quiet s r

/-- what a Go-side boundary guarantees, for every ending -/
def ApiGood (s : Vm) (r : Res) : Prop :=
  (r.1 ≠ .stuck ∧ (∀ e, r.1 ≠ .exit e) ∧ r.1 ≠ .yielded) ∧ Same s r.2 ∧ Quiet s r

theorem Same.refl (s : Vm) : Same s s := ⟨rfl, rfl, rfl, rfl, rfl, rfl, rfl, rfl⟩

theorem Same.trans {a b c : Vm} (h1 : Same a b) (h2 : Same b c) : Same a c :=
  ⟨h2.sp.trans h1.sp, h2.regs.trans h1.regs, h2.stash.trans h1.stash, h2.privEnv.trans h1.privEnv,
   h2.cs.trans h1.cs, h2.ts.trans h1.ts, h2.is.trans h1.is, h2.rs.trans h1.rs⟩

theorem Same.inv {a b : Vm} (h : Same a b) (hi : Inv a) : Inv b := by
  intro hc
  have hr := h.regs
  simp only [Vm.regs, Regs.mk.injEq] at hr
  have := hi (by rw [← h.cs]; exact hc)
  exact ⟨hr.1.trans this.1, hr.2.1.trans this.2⟩

theorem inv_of_eq {a b : Vm} (hr : b.regs = a.regs) (hc : b.callStack = a.callStack) (hi : Inv a) : Inv b := by
  intro h
  simp only [Vm.regs, Regs.mk.injEq] at hr
  have := hi (by rw [← hc]; exact h)
  exact ⟨hr.1.trans this.1, hr.2.1.trans this.2⟩

theorem inv_of_ne {b : Vm} (h : b.callStack ≠ []) : Inv b := fun hc => absurd hc h

theorem Same.toExt {a b : Vm} (c : Bool) (h : Same a b) : Ext c a b :=
  ⟨⟨[], by simp [h.cs, levelRegs, h.regs]⟩, ⟨[], by simp [h.is]⟩, ⟨[], by simp [h.rs]⟩,
   ⟨[], by simp [h.ts]⟩⟩

theorem Ext.weaken {a b : Vm} {c : Bool} (h : Ext c a b) : Ext false a b :=
  ⟨h.cs, h.is, h.rs, by
    obtain ⟨e, he, hf⟩ := h.ts
    exact ⟨e, he, fun f hm => ⟨(hf f hm).1, by simp⟩⟩⟩

theorem levelRegs_append {e1 e2 : List Ctx} {b c : Vm}
    (h1 : levelRegs e2 c = b.regs) : levelRegs (e1 ++ e2) c = levelRegs e1 b := by
  cases e1 with
  | nil => simpa [levelRegs] using h1
  | cons x xs => simp [levelRegs]

theorem Ext.trans {a b c : Vm} {k : Bool} (h1 : Ext k a b) (h2 : Ext k b c) : Ext k a c := by
  obtain ⟨e1, he1, hr1⟩ := h1.cs
  obtain ⟨e2, he2, hr2⟩ := h2.cs
  obtain ⟨i1, hi1⟩ := h1.is
  obtain ⟨i2, hi2⟩ := h2.is
  obtain ⟨r1, hr1'⟩ := h1.rs
  obtain ⟨r2, hr2'⟩ := h2.rs
  obtain ⟨t1, ht1, hf1⟩ := h1.ts
  obtain ⟨t2, ht2, hf2⟩ := h2.ts
  refine ⟨⟨e1 ++ e2, by simp [he2, he1], ?_⟩, ⟨i1 ++ i2, by simp [hi2, hi1]⟩,
    ⟨r1 ++ r2, by simp [hr2', hr1']⟩, ⟨t2 ++ t1, by simp [ht2, ht1], ?_⟩⟩
  · rw [levelRegs_append hr2]; exact hr1
  · intro f hm
    rcases List.mem_append.mp hm with h | h
    · exact hf2 f h
    · exact hf1 f h

theorem Same.ext_left {a b c : Vm} {k : Bool} (h1 : Same a b) (h2 : Ext k b c) : Ext k a c :=
  (h1.toExt k).trans h2

/-! ### hypotheses on the interpreter for sub-behaviours (open recursion) -/

def HypG (runF : RunF) : Prop := ∀ b s, Inv s → Good s (runF b s)
def HypA (runF : RunF) : Prop := ∀ b s, Inv s → ApiGood s (runF (.api .try_ b) s)

/-- the iterator-close loop: every close is a balanced vm.try; the flag tells whether an uncatchable left -/
theorem closeIters_spec {runF : RunF} (HA : HypA runF) : ∀ (items : List IterItem) (s : Vm), Inv s →
    Same s (closeIters runF items s).2 ∧
    ((closeIters runF items s).1 = false → (closeIters runF items s).2.interrupted = s.interrupted) := by
  intro items
  induction items with
  | nil => intro s _; exact ⟨Same.refl s, fun _ => rfl⟩
  | cons it rest ih =>
    intro s hI
    unfold closeIters
    split
    · have ha := HA it.ret s hI
      generalize runF (.api .try_ it.ret) s = r at ha
      obtain ⟨o, s1⟩ := r
      obtain ⟨_, hsame, hq⟩ := ha
      have hI1 := hsame.inv hI
      cases o <;> simp only
      · have hq' : s1.interrupted = s.interrupted := hq (by simp)
        exact ⟨hsame.trans (ih s1 hI1).1, fun h => ((ih s1 hI1).2 h).trans hq'⟩
      · have hq' : s1.interrupted = s.interrupted := hq (by simp)
        exact ⟨hsame.trans (ih s1 hI1).1, fun h => ((ih s1 hI1).2 h).trans hq'⟩
      · exact ⟨hsame, by simp⟩
      · exact ⟨hsame, by simp⟩
      · exact ⟨hsame, by simp⟩
      · exact ⟨hsame, by simp⟩
    · exact ih s hI

/-- `_restoreStacks` (vm.go): everything but the iterator/reference stacks is untouched, and those two
are cut back to the snapshot — also when an iterator close was aborted by an uncatchable. -/
theorem restoreStacks_spec {runF : RunF} (HA : HypA runF) (doClose : Bool) (s1 : Vm) (hI : Inv s1)
    (bi ei : List IterItem) (br er : List Nat)
    (hi : s1.iterStack = bi ++ ei) (hr : s1.refStack = br ++ er)
    (r : Bool × Vm) (hdef : r = restoreStacks runF doClose bi.length br.length s1) :
    r.2.sp = s1.sp ∧ r.2.regs = s1.regs ∧ r.2.stash = s1.stash ∧ r.2.privEnv = s1.privEnv ∧
    r.2.callStack = s1.callStack ∧ r.2.tryStack = s1.tryStack ∧
    r.2.iterStack = bi ∧ r.2.refStack = br ∧
    (r.1 = false → r.2.interrupted = s1.interrupted) := by
  subst hdef
  unfold restoreStacks
  cases doClose with
  | false => simp [hi, hr, Vm.regs]
  | true =>
    have hc := closeIters_spec HA (s1.iterStack.drop bi.length).reverse s1 hI
    simp only [if_true]
    generalize closeIters runF (s1.iterStack.drop bi.length).reverse s1 = cl at hc ⊢
    obtain ⟨hsame, hq⟩ := hc
    refine ⟨hsame.sp, ?_, hsame.stash, hsame.privEnv, hsame.cs, hsame.ts, ?_, ?_, hq⟩
    · have := hsame.regs; simpa [Vm.regs] using this
    · simp [hsame.is, hi]
    · simp [hsame.rs, hr]

/-- `tf` is (a later state of) the frame that `pushTryFrame` created in state `s0` -/
structure FrameOf (s0 : Vm) (tf : TryFrame) : Prop where
  cs : tf.callStackLen = s0.callStack.length
  is : tf.iterLen = s0.iterStack.length
  rs : tf.refLen = s0.refStack.length
  sp : tf.sp = s0.sp
  stash : tf.stash = s0.stash
  privEnv : tf.privEnv = s0.privEnv

/-- handleThrow skips this frame (vm.go handleThrow, first `if`) -/
def skipped (catchable : Bool) (tf : TryFrame) : Bool :=
  isConsumed tf || (!catchable && tf.catchPos != tryPanicMarker)

theorem restoreFrame_spec (s0 s1 : Vm) (tf : TryFrame) (hF : FrameOf s0 tf) (ec : List Ctx)
    (hcs : s1.callStack = s0.callStack ++ ec) (hregs : levelRegs ec s1 = s0.regs) :
    (restoreFrame tf s1).sp = s0.sp ∧ (restoreFrame tf s1).regs = s0.regs ∧
    (restoreFrame tf s1).stash = s0.stash ∧ (restoreFrame tf s1).privEnv = s0.privEnv ∧
    (restoreFrame tf s1).callStack = s0.callStack ∧ (restoreFrame tf s1).tryStack = s1.tryStack ∧
    (restoreFrame tf s1).iterStack = s1.iterStack ∧ (restoreFrame tf s1).refStack = s1.refStack ∧
    (restoreFrame tf s1).interrupted = s1.interrupted := by
  unfold restoreFrame
  cases ec with
  | nil =>
    have h0 : s1.callStack[tf.callStackLen]? = none := by simp [hcs, hF.cs]
    simp only [h0]
    simp [levelRegs] at hregs
    simp_all [Vm.regs, hF.sp, hF.stash, hF.privEnv]
  | cons c rest =>
    have h0 : s1.callStack[tf.callStackLen]? = some c := by simp [hcs, hF.cs]
    simp only [h0]
    simp [levelRegs, Ctx.regs] at hregs
    simp_all [Vm.regs, hF.sp, hF.stash, hF.privEnv, hF.cs]

/-- **handleThrow lands on the innermost live frame and restores its snapshot** (vm.go handleThrow). -/
theorem handleThrowLoop_spec {runF : RunF} (HA : HypA runF) (catchable : Bool)
    (s0 : Vm) (hI : Inv s0) (tf : TryFrame) (base : List TryFrame) (hF : FrameOf s0 tf)
    (hlive : skipped catchable tf = false)
    (hwf : tf.catchPos = tryPanicMarker ∨ tf.catchPos ≥ 0 ∨ tf.finallyPos ≥ 0) :
    ∀ (e : List TryFrame) (s1 : Vm),
      (∀ f ∈ e, skipped catchable f = true) →
      (∃ ec, s1.callStack = s0.callStack ++ ec ∧ levelRegs ec s1 = s0.regs) →
      (∃ ei, s1.iterStack = s0.iterStack ++ ei) → (∃ er, s1.refStack = s0.refStack ++ er) →
      ∀ r, r = handleThrowLoop runF catchable (e ++ tf :: base) s1 →
      r.2.regs = s0.regs ∧ r.2.stash = s0.stash ∧ r.2.privEnv = s0.privEnv ∧
      r.2.callStack = s0.callStack ∧ r.2.iterStack = s0.iterStack ∧ r.2.refStack = s0.refStack ∧
      r.1 ≠ .empty ∧ (r.1 ≠ .aborted → r.2.interrupted = s1.interrupted) ∧
      (r.1 = .aborted → r.2.sp = s0.sp ∧ r.2.tryStack = tf :: base) ∧
      (r.1 = .atMarker → tf.catchPos = tryPanicMarker ∧ r.2.sp = s0.sp ∧ r.2.tryStack = tf :: base) ∧
      (r.1 = .caught → tf.catchPos ≥ 0 ∧ r.2.sp = s0.sp + 1 ∧
          r.2.tryStack = { tf with catchPos := -1 } :: base) ∧
      (r.1 = .fin → tf.catchPos ≠ tryPanicMarker ∧ ¬ tf.catchPos ≥ 0 ∧ r.2.sp = s0.sp ∧
          r.2.tryStack = { tf with exception := some 1, finallyPos := -1, finallyRet := -1 } :: base) := by
  intro e
  induction e with
  | cons f rest ih =>
    intro s1 hsk hcs his hrs r hr
    have hf : skipped catchable f = true := hsk f (by simp)
    simp only [List.cons_append, handleThrowLoop] at hr
    unfold skipped at hf
    simp only [hf, if_true] at hr
    exact ih { s1 with tryStack := rest ++ tf :: base } (fun g hg => hsk g (by simp [hg])) hcs his hrs r hr
  | nil =>
    intro s1 _ hcs his hrs r hr
    obtain ⟨ec, hec, hregs⟩ := hcs
    obtain ⟨ei, hei⟩ := his
    obtain ⟨er, her⟩ := hrs
    simp only [List.nil_append, handleThrowLoop] at hr
    have hl : (isConsumed tf || (!catchable && tf.catchPos != tryPanicMarker)) = false := hlive
    simp only [hl] at hr
    have hrf := restoreFrame_spec s0 { s1 with tryStack := tf :: base } tf hF ec hec
      (by simpa [levelRegs, Vm.regs] using hregs)
    generalize restoreFrame tf { s1 with tryStack := tf :: base } = s2 at hrf hr
    obtain ⟨h1, h2, h3, h4, h5, h6, h7, h8, h9⟩ := hrf
    have hI2 : Inv s2 := inv_of_eq h2 h5 hI
    have hrs := restoreStacks_spec HA catchable s2 hI2 s0.iterStack ei s0.refStack er (by simp [h7, hei]) (by simp [h8, her])
      (restoreStacks runF catchable tf.iterLen tf.refLen s2) (by rw [hF.is, hF.rs])
    generalize restoreStacks runF catchable tf.iterLen tf.refLen s2 = rs at hrs hr
    obtain ⟨g1, g2, g3, g4, g5, g6, g7, g8, g9⟩ := hrs
    simp only [Bool.false_eq_true, if_false] at hr
    by_cases hab : rs.1 = true
    · simp only [hab, if_true] at hr
      subst hr
      refine ⟨g2.trans h2, g3.trans h3, g4.trans h4, g5.trans h5, g7, g8, by simp, by simp, ?_, by simp, by simp, by simp⟩
      intro _
      exact ⟨g1.trans h1, by simp [g6, h6]⟩
    · have hab' : rs.1 = false := by simpa using hab
      have hq : rs.2.interrupted = s1.interrupted := (g9 hab').trans (by simpa using h9)
      simp only [hab', Bool.false_eq_true, if_false] at hr
      by_cases hm : (tf.catchPos == tryPanicMarker) = true
      · simp only [hm, if_true] at hr
        subst hr
        refine ⟨g2.trans h2, g3.trans h3, g4.trans h4, g5.trans h5, g7, g8, by simp, fun _ => hq, by simp, ?_, by simp, by simp⟩
        intro _
        exact ⟨by simpa using hm, g1.trans h1, by simp [g6, h6]⟩
      · simp only [hm, Bool.false_eq_true, if_false] at hr
        by_cases hc : tf.catchPos ≥ 0
        · simp only [hc, if_true] at hr
          subst hr
          refine ⟨?_, g3.trans h3, g4.trans h4, g5.trans h5, g7, g8, by simp, fun _ => hq, by simp, by simp, ?_, by simp⟩
          · have := g2.trans h2; simpa [Vm.regs] using this
          · intro _
            exact ⟨hc, by simp [g1, h1], rfl⟩
        · simp only [hc, if_false] at hr
          have hfin : tf.finallyPos ≥ 0 := by
            rcases hwf with h | h | h
            · simp [h] at hm
            · exact absurd h hc
            · exact h
          simp only [hfin, if_true] at hr
          subst hr
          refine ⟨?_, g3.trans h3, g4.trans h4, g5.trans h5, g7, g8, by simp, fun _ => hq, by simp, by simp, by simp, ?_⟩
          · have := g2.trans h2; simpa [Vm.regs] using this
          · intro _
            exact ⟨by simpa using hm, hc, by simp [g1, h1], rfl⟩

end GojaModel.C03
