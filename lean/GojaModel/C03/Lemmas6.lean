/-
  C03 — closing induction over the behaviour tree, and the outermost API calls.
-/
import GojaModel.C03.LemmasAsyncCA

namespace GojaModel.C03

/-! ### the outermost calls -/

theorem runWrapped_exit {runF : RunF} (HG : HypG runF) (HA : HypA runF) (lf : Nat) (b : Beh) (s : Vm)
    (hI : Inv s) (h0 : s.callStack = []) :
    (runWrapped runF lf b s).2.jobQueue = [] ∧
    ((runWrapped runF lf b s).1 = .fatal → (runWrapped runF lf b s).2.interrupted = false) := by
  unfold runWrapped
  have ha := tryB_spec HG HA b s hI
  generalize tryB runF b s = r at ha
  obtain ⟨o, s1⟩ := r
  obtain ⟨h1, h2, _⟩ := ha
  have hl0 : s1.callStack.length = 0 := by rw [h2.cs, h0]; rfl
  have tail : ∀ oo : Outcome, oo ≠ .fatal →
      (leaveOrClear runF lf oo s1).2.jobQueue = [] ∧
      ((leaveOrClear runF lf oo s1).1 = .fatal → (leaveOrClear runF lf oo s1).2.interrupted = false) := by
    intro oo hoo
    unfold leaveOrClear
    simp only [hl0, if_true]
    obtain ⟨l1, l2, _, _, l5⟩ := leaveLoop_spec HA lf s1 (h2.inv hI)
    generalize leaveLoop runF lf s1 = l at l1 l2 l5
    obtain ⟨ol, sl⟩ := l
    cases ol with
    | normal => exact ⟨l5 rfl, fun h => absurd h hoo⟩
    | stuck => exact absurd rfl l1.1
    | exit e => exact absurd rfl (l1.2.1 e)
    | yielded => exact absurd rfl l1.2.2
    | thrown => exact absurd rfl l2
    | fatal => exact ⟨by simp [leaveAbrupt], fun _ => by simp [leaveAbrupt]⟩
  cases o with
  | normal => exact tail .normal (by simp)
  | thrown => exact tail .thrown (by simp)
  | stuck => exact absurd rfl h1.1
  | exit e => exact absurd rfl (h1.2.1 e)
  | yielded => exact absurd rfl h1.2.2
  | fatal => simp [hl0, leaveAbrupt]

/-- **RunProgram (outermost) is balanced** and leaves the queue empty -/
theorem runProgramOuter_spec {runF : RunF} (HG : HypG runF) (HA : HypA runF) (lf p : Nat) (b : Beh)
    (s : Vm) (hI : Inv s) (h0 : s.callStack = []) :
    ApiGood s (runProgramOuter runF lf p b s) ∧ (runProgramOuter runF lf p b s).2.jobQueue = [] ∧
    ((runProgramOuter runF lf p b s).1 = .fatal → (runProgramOuter runF lf p b s).2.interrupted = false) := by
  obtain ⟨hprg, hsb⟩ := hI h0
  unfold runProgramOuter
  have hIE : Inv (outerEnter p s) := inv_of_ne (by simp [outerEnter])
  have ha := runTryB_spec HG HA b _ hIE
  generalize runTryB runF b (outerEnter p s) = r at ha
  obtain ⟨o, s4⟩ := r
  obtain ⟨h1, h2, h3⟩ := ha
  have hr := h2.regs
  simp only [Vm.regs, Regs.mk.injEq, outerEnter] at hr
  have hcs4 : s4.callStack = [⟨none, [], [], 0, 0, 0, 0, 0⟩] := by simpa [outerEnter, h0] using h2.cs
  -- after the deferred pop the state is `s` again, whatever happened to prg/sb in between
  have fin1 : ∀ t : Vm, t.sp = s4.sp → t.stash = s4.stash → t.privEnv = s4.privEnv → t.callStack = s4.callStack →
      t.tryStack = s4.tryStack → t.iterStack = s4.iterStack → t.refStack = s4.refStack →
      t.prg = none → t.sb = -1 → t.args = s4.args → t.newTarget = s4.newTarget → Same s (outerPop t) := by
    intro t e1 e2 e3 e4 e5 e6 e7 e8 e9 e10 e11
    refine ⟨?_, ?_, ?_, ?_, ?_, ?_, ?_, ?_⟩
    · simpa [outerPop, e1, outerEnter] using h2.sp
    · simp [outerPop, Vm.regs, e8, e9, e10, e11, hprg, hsb, hr.2.2.1, hr.2.2.2]
    · simpa [outerPop, e2, outerEnter] using h2.stash
    · simpa [outerPop, e3, outerEnter] using h2.privEnv
    · simp [outerPop, e4, hcs4, h0]
    · simpa [outerPop, e5, outerEnter] using h2.ts
    · simpa [outerPop, e6, outerEnter] using h2.is
    · simpa [outerPop, e7, outerEnter] using h2.rs
  have tail : ∀ oo : Outcome, oo ≠ .fatal → (oo ≠ .stuck ∧ (∀ e, oo ≠ .exit e) ∧ oo ≠ .yielded) → s4.interrupted = s.interrupted →
      let l := leaveLoop runF lf { s4 with prg := none, sb := -1 }
      let res : Res := (match l.1 with
        | .normal => (oo, outerPop l.2)
        | .stuck => (.stuck, l.2)
        | o => (o, if (outerPop l.2).callStack.length = 0 then leaveAbrupt (outerPop l.2) else outerPop l.2))
      ApiGood s res ∧ res.2.jobQueue = [] ∧ (res.1 = .fatal → res.2.interrupted = false) := by
    intro oo hnf hns hq4
    have hI5 : Inv ({ s4 with prg := none, sb := -1 } : Vm) := inv_of_ne (by simp [hcs4])
    obtain ⟨l1, l2, l3, l4, l5⟩ := leaveLoop_spec HA lf _ hI5
    simp only
    generalize leaveLoop runF lf { s4 with prg := none, sb := -1 } = l at l1 l2 l3 l4 l5
    obtain ⟨ol, sl⟩ := l
    have lr := l3.regs
    simp only [Vm.regs, Regs.mk.injEq] at lr
    have hsame : Same s (outerPop sl) :=
      fin1 sl l3.sp l3.stash l3.privEnv l3.cs l3.ts l3.is l3.rs lr.1 lr.2.1 lr.2.2.1 lr.2.2.2
    cases ol with
    | normal =>
      exact ⟨⟨hns, hsame, fun _ => by simpa [outerPop] using (l4 (by simp)).trans hq4⟩,
        by simpa [outerPop] using l5 rfl, fun h => absurd h hnf⟩
    | stuck => exact absurd rfl l1.1
    | exit e => exact absurd rfl (l1.2.1 e)
    | yielded => exact absurd rfl l1.2.2
    | thrown => exact absurd rfl l2
    | fatal =>
      have hl0 : (outerPop sl).callStack.length = 0 := by rw [hsame.cs, h0]; rfl
      simp only [hl0, if_true]
      exact ⟨⟨⟨by simp, by simp, by simp⟩, hsame.trans (leaveAbrupt_same (hsame.inv (fun _ => ⟨hprg, hsb⟩)) hl0), by simp [Quiet]⟩,
        by simp [leaveAbrupt], fun _ => by simp [leaveAbrupt]⟩
  cases o with
  | normal => exact tail .normal (by simp) ⟨by simp, by simp, by simp⟩ (by simpa [outerEnter] using h3 (by simp))
  | thrown => exact tail .thrown (by simp) ⟨by simp, by simp, by simp⟩ (by simpa [outerEnter] using h3 (by simp))
  | stuck => exact absurd rfl h1.1
  | exit e => exact absurd rfl (h1.2.1 e)
  | yielded => exact absurd rfl h1.2.2
  | fatal =>
    simp only
    have hl0 : (outerPop s4).callStack.length = 0 := by simp [outerPop, hcs4]
    simp only [hl0, if_true]
    have hsame : Same s (leaveAbrupt (outerPop s4)) :=
      fin1 { s4 with jobQueue := [], interrupted := false, prg := none, sb := -1 } rfl rfl rfl rfl rfl rfl rfl rfl rfl rfl rfl
    exact ⟨⟨⟨by simp, by simp, by simp⟩, hsame, by simp [Quiet]⟩, by simp [leaveAbrupt, outerPop], fun _ => by simp [leaveAbrupt, outerPop]⟩


theorem apiNode_spec {runF : RunF} (HG : HypG runF) (HA : HypA runF) (lf : Nat) (k : Boundary) (b : Beh)
    (s : Vm) (hI : Inv s) : ApiGood s (apiNode lf runF k b s) := by
  cases k with
  | try_ => exact tryB_spec HG HA b s hI
  | runWrapped => exact runWrapped_spec HG HA lf b s hI
  | runProgramRec => exact runProgramRec_spec HG HA 7 b s hI
  | runProgram =>
    simp only [apiNode]
    split
    · exact runProgramRec_spec HG HA 7 b s hI
    · rename_i h
      have h0 : s.callStack = [] := by
        cases hc : s.callStack with
        | nil => rfl
        | cons a l => simp [hc] at h
      exact (runProgramOuter_spec HG HA lf 7 b s hI h0).1

theorem seq_good {runF : RunF} (HG : HypG runF) (a b : Beh) (s : Vm) (hI : Inv s) :
    Good s (seqRes runF a b s) := by
  unfold seqRes
  simp only
  have hg := HG a s hI
  generalize runF a s = r at hg
  obtain ⟨o, s1⟩ := r
  obtain ⟨hc, hq⟩ := hg
  cases o with
  | normal =>
    simp only [GoodCtl] at hc
    have hg2 := HG b s1 (hc.inv hI)
    simp only
    generalize runF b s1 = r2 at hg2
    obtain ⟨o2, s2⟩ := r2
    obtain ⟨hc2, hq2⟩ := hg2
    refine ⟨?_, fun hn => (hq2 hn).trans (hq (by simp))⟩
    cases o2 with
    | normal => simp only [GoodCtl] at hc2 ⊢; exact hc.trans hc2
    | thrown => simp only [GoodCtl] at hc2 ⊢; exact hc.ext_left hc2
    | fatal => simp only [GoodCtl] at hc2 ⊢; exact hc.ext_left hc2
    | stuck => simp [GoodCtl] at hc2
    | exit e => simp only [GoodCtl] at hc2 ⊢; exact hc.trans hc2
    | yielded => simp only [GoodCtl] at hc2 ⊢; exact ⟨hc.ext_left hc2.1, hc2.2.trans hc.cs⟩
  | thrown => exact ⟨by simpa [GoodCtl] using hc, fun _ => hq (by simp)⟩
  | fatal => exact ⟨by simpa [GoodCtl] using hc, by simp [Quiet]⟩
  | stuck => simp [GoodCtl] at hc
  | exit e => exact ⟨by simpa [GoodCtl] using hc, fun _ => hq (by simp)⟩
  | yielded =>
    simp only [GoodCtl] at hc
    exact ⟨by simp only [GoodCtl]; exact ⟨⟨hc.1.cs, hc.1.is, hc.1.rs, hc.1.ts⟩, hc.2⟩, fun _ => hq (by simp)⟩

theorem yieldThen_good {runF : RunF} (HG : HypG runF) (a b : Beh) (s : Vm) (hI : Inv s) :
    Good s (yieldThenRes runF a b s) := by
  unfold yieldThenRes
  simp only
  have hg := HG a s hI
  generalize runF a s = r at hg
  obtain ⟨o, s1⟩ := r
  obtain ⟨hc, hq⟩ := hg
  cases o with
  | normal =>
    simp only [GoodCtl] at hc
    have he := hc.toExt false
    exact ⟨by simp only [GoodCtl]; exact ⟨⟨he.cs, he.is, he.rs, he.ts⟩, hc.cs⟩, fun _ => hq (by simp)⟩
  | yielded =>
    simp only [GoodCtl] at hc
    exact ⟨by simp only [GoodCtl]; exact ⟨⟨hc.1.cs, hc.1.is, hc.1.rs, hc.1.ts⟩, hc.2⟩, fun _ => hq (by simp)⟩
  | thrown => exact ⟨by simpa [GoodCtl] using hc, fun _ => hq (by simp)⟩
  | fatal => exact ⟨by simpa [GoodCtl] using hc, by simp [Quiet]⟩
  | stuck => simp [GoodCtl] at hc
  | exit e => exact ⟨by simpa [GoodCtl] using hc, fun _ => hq (by simp)⟩

/-- one layer of the interpreter preserves the discipline for EVERY node kind -/
theorem step_good {runF : RunF} (HG : HypG runF) (HA : HypA runF) (lf : Nat) :
    ∀ (b : Beh) (s : Vm), Inv s → Good s (step lf runF b s) := by
  intro b s hI
  cases b with
  | skip => exact ⟨by simpa [step, GoodCtl] using Same.refl s, fun _ => rfl⟩
  | seq a b => simpa [step] using seq_good HG a b s hI
  | yieldThen a b => simpa [step] using yieldThen_good HG a b s hI
  | yield_ =>
    have he := (Same.refl s).toExt false
    exact ⟨by simp only [step, GoodCtl]; exact ⟨⟨he.cs, he.is, he.rs, he.ts⟩, trivial⟩, fun _ => rfl⟩
  | resumePoint => exact ⟨by simpa [step, GoodCtl] using Same.refl s, fun _ => rfl⟩
  | tryH hf cur fin => simpa [step] using tryResumeH_good HG HA hf cur fin s hI
  | tryF p cur => simpa [step] using tryResumeF_good HG p cur s hI
  | genNew slot n f body => simpa [step] using genNew_good slot n f body s
  | genNext slot => simpa [step] using genResume_good HG HA slot none false s
  | genThrow slot => simpa [step] using genResume_good HG HA slot (some .throw_) true s
  | genReturn slot => simpa [step] using genResume_good HG HA slot (some .return_) false s
  | asyncNew n f body => simpa [step] using asyncNew_good HG HA n f body s
  | asyncResume id => simpa [step] using asyncResumeCA_good HG HA id s
  | probe id => simpa [step] using probe_good id s
  | throw_ => exact ⟨by simpa [step, GoodCtl] using (Same.refl s).toExt true, fun _ => rfl⟩
  | break_ => exact ⟨by simpa [step, GoodCtl] using Same.refl s, fun _ => rfl⟩
  | return_ => exact ⟨by simpa [step, GoodCtl] using Same.refl s, fun _ => rfl⟩
  | intr =>
    have : Same s { s with interrupted := true } := ⟨rfl, rfl, rfl, rfl, rfl, rfl, rfl, rfl⟩
    exact ⟨by simpa [step, GoodCtl] using this.toExt false, by simp [step, Quiet]⟩
  | frame k ret body => exact frame_good HG lf k ret body s hI
  | try_ hc hf body handler fin =>
    simp only [step]
    split
    · rename_i h; exact tryStmt_good HG HA hc hf h body handler fin s hI
    · exact HG body s hI
  | goCall n f b => simpa [step] using goCall_good HG HA n f b s hI
  | api k b => simpa [step] using (apiNode_spec HG HA lf k b s hI).toGood
  | swallow k b =>
    simp only [step]
    have ha := apiNode_spec HG HA lf k b s hI
    generalize apiNode lf runF k b s = r at ha
    obtain ⟨o, s1⟩ := r
    obtain ⟨h1, h2, h3⟩ := ha
    unfold swallowRes
    cases o with
    | normal => exact ⟨by simpa [GoodCtl] using h2, fun _ => h3 (by simp)⟩
    | thrown => exact ⟨by simpa [GoodCtl] using h2, fun _ => h3 (by simp)⟩
    | stuck => exact absurd rfl h1.1
    | exit e => exact absurd rfl (h1.2.1 e)
    | yielded => exact absurd rfl h1.2.2
    | fatal =>
      simp only
      split
      · rename_i hc
        simp only [Bool.and_eq_true, beq_iff_eq] at hc
        exact ⟨by simpa [GoodCtl] using h2, fun _ => hc.2⟩
      · exact ⟨by simpa [GoodCtl] using h2.toExt false, by simp [Quiet]⟩
  | job b =>
    have : Same s { s with jobQueue := s.jobQueue ++ [b] } := ⟨rfl, rfl, rfl, rfl, rfl, rfl, rfl, rfl⟩
    exact ⟨by simpa [step, GoodCtl] using this, fun _ => rfl⟩

/-- **closing induction**: the interpreter obeys the discipline for every fuel, behaviour and state -/
theorem run_good : ∀ (fuel : Nat), HypG (run fuel) ∧ HypA (run fuel) := by
  intro fuel
  induction fuel with
  | zero =>
    refine ⟨fun b s _ => ?_, fun b s _ => ?_⟩
    · exact ⟨by simpa [run, GoodCtl] using (Same.refl s).toExt false, by simp [run, Quiet]⟩
    · exact ⟨⟨by simp [run], by simp [run]⟩, by simpa [run] using Same.refl s, by simp [run, Quiet]⟩
  | succ n ih =>
    refine ⟨fun b s hI => ?_, fun b s hI => ?_⟩
    · exact step_good ih.1 ih.2 n b s hI
    · simpa [run, step, apiNode] using tryB_spec ih.1 ih.2 b s hI

theorem runtimeTry_spec (fuel : Nat) (b : Beh) (s : Vm) (hI : Inv s) :
    ApiGood s (runtimeTry fuel b s) ∧
    ((runtimeTry fuel b s).1 = .fatal → s.callStack = [] →
      (runtimeTry fuel b s).2.jobQueue = [] ∧ (runtimeTry fuel b s).2.interrupted = false) := by
  unfold runtimeTry
  have ha := tryB_spec (run_good fuel).1 (run_good fuel).2 b s hI
  generalize tryB (run fuel) b s = r at ha
  obtain ⟨o, s1⟩ := r
  obtain ⟨h1, h2, h3⟩ := ha
  cases o with
  | normal => exact ⟨⟨h1, h2, h3⟩, by simp⟩
  | thrown => exact ⟨⟨h1, h2, h3⟩, by simp⟩
  | stuck => exact absurd rfl h1.1
  | exit e => exact absurd rfl (h1.2.1 e)
  | yielded => exact absurd rfl h1.2.2
  | fatal =>
    simp only
    refine ⟨⟨⟨by simp, by simp, by simp⟩, ?_, by simp [Quiet]⟩, fun _ h0 => ?_⟩
    · split
      · rename_i hl; exact h2.trans (leaveAbrupt_same (h2.inv hI) hl)
      · exact h2
    · have hl : s1.callStack.length = 0 := by rw [h2.cs, h0]; rfl
      simp [hl, leaveAbrupt]

/-- every API call of the host is balanced (for states in which "no frame ⇒ no current program" holds) -/
theorem apiCall_spec (fuel : Nat) (k : TopApi) (b : Beh) (s : Vm) (hI : Inv s) :
    ApiGood s (apiCall fuel k b s) := by
  have HG := (run_good fuel).1
  have HA := (run_good fuel).2
  cases k with
  | runProgram =>
    simp only [apiCall]
    split
    · exact runProgramRec_spec HG HA 7 b s hI
    · rename_i h
      have h0 : s.callStack = [] := by
        cases hc : s.callStack with
        | nil => rfl
        | cons a l => simp [hc] at h
      exact (runProgramOuter_spec HG HA fuel 7 b s hI h0).1
  | callable n f => exact runWrapped_spec HG HA fuel _ s hI
  | constructor n f => exact runWrapped_spec HG HA fuel _ s hI
  | try_ => exact (runtimeTry_spec fuel b s hI).1
  | tryGet f => exact (runtimeTry_spec fuel _ s hI).1

/-- at depth 0: what is left in the job queue / interrupt flag when the call returns -/
theorem apiCall_exit (fuel : Nat) (k : TopApi) (b : Beh) (s : Vm) (hI : Inv s) (h0 : s.callStack = []) :
    ((apiCall fuel k b s).1 = .fatal →
        (apiCall fuel k b s).2.jobQueue = [] ∧ (apiCall fuel k b s).2.interrupted = false) ∧
    ((k matches .runProgram | .callable .. | .constructor ..) → (apiCall fuel k b s).2.jobQueue = []) := by
  have HG := (run_good fuel).1
  have HA := (run_good fuel).2
  cases k with
  | runProgram =>
    have hl : ¬ s.callStack.length > 0 := by simp [h0]
    simp only [apiCall, hl, if_false]
    obtain ⟨_, e2, e3⟩ := runProgramOuter_spec HG HA fuel 7 b s hI h0
    exact ⟨fun h => ⟨e2, e3 h⟩, fun _ => e2⟩
  | callable n f =>
    obtain ⟨e2, e3⟩ := runWrapped_exit HG HA fuel (.goCall n f b) s hI h0
    exact ⟨fun h => ⟨e2, e3 h⟩, fun _ => e2⟩
  | constructor n f =>
    obtain ⟨e2, e3⟩ := runWrapped_exit HG HA fuel (.goCall n f b) s hI h0
    exact ⟨fun h => ⟨e2, e3 h⟩, fun _ => e2⟩
  | try_ => exact ⟨fun h => (runtimeTry_spec fuel b s hI).2 h h0, by simp⟩
  | tryGet f => exact ⟨fun h => (runtimeTry_spec fuel _ s hI).2 h h0, by simp⟩

end GojaModel.C03
