/-
  C03 — VM control state (`VmCtl`) of goja and the Go-boundary wrappers, as an executable model.
  CORE LEAN ONLY (linked into model_c03).

  Mechanism-level transcription of (line numbers of /repo at the time of writing):
    vm.go:37 context, :47 tryFrame, :359 vm, :759 pushTryFrame, :773 popTryFrame, :777 restoreStacks,
    :800 handleThrow, :854 try, :868 runTry, :880 runTryInner, :906 saveCtx, :911 pushCtx, :927 popCtx,
    :4760 try.exec, :4778 leaveTry, :4794 enterFinally, :4802 leaveFinally, :3896 _ret,
    func.go:397 __call, :566 nativeFuncObject.vmCall, :481 baseJsFuncObject.vmCall,
    runtime.go:1434 RunProgram, :2504 runWrapped, :2607 Runtime.Try, :2836 leave, :2849 leaveAbrupt,
    builtin_promise.go:199 newPromiseReactionJob.

  Stacks `callStack/iterStack/refStack` are kept in Go order (index 0 = oldest, push = append,
  truncate = `take`), because try frames address them by length.  `tryStack` is kept top-first.

  The model transcribes the code AFTER the re-sync round (fix commits 195a32b e71ffae eae3f2a 9e5aa04
  570c7df 379f30d 5d979ec in /repo): leaveAbrupt resets prg/sb, Runtime.Try runs leaveAbrupt at depth 0,
  _restoreStacks truncates in a deferred function and closes iterators only for catchable throws,
  RunProgram pops only a context it pushed, enterFinally clears catchPos.

  The interpreter is written in open-recursion style: every definition takes `runF : RunF`, the
  interpreter for sub-behaviours; `run (fuel+1) = step (run fuel)` and `run 0` answers `fatal` —
  running out of fuel is indistinguishable from being interrupted at that point, so every theorem
  holds for every fuel without side conditions.
-/
namespace GojaModel.C03

/-- vm.go:37 -/
structure Ctx where
  prg : Option Nat
  stash : List Nat
  privEnv : List Nat
  newTarget : Nat
  result : Nat
  pc : Int
  sb : Int
  args : Nat
deriving DecidableEq, Repr, Inhabited

def tryPanicMarker : Int := -2

/-- vm.go:47 -/
structure TryFrame where
  exception : Option Nat
  callStackLen : Nat
  iterLen : Nat
  refLen : Nat
  sp : Int
  stash : List Nat
  privEnv : List Nat
  catchPos : Int
  finallyPos : Int
  finallyRet : Int
deriving DecidableEq, Repr, Inhabited

/-- A JS function as far as control state is concerned (funcObject.prg/stash/privEnv). -/
structure FnInfo where
  prg : Nat
  stash : List Nat
  privEnv : List Nat
deriving DecidableEq, Repr, Inhabited

/-- Boundaries that can be entered re-entrantly from a native frame. -/
inductive Boundary
  | try_          -- vm.try (Runtime.Try, builtins, promise jobs, iterator close)
  | runWrapped    -- Callable / Constructor / ExportTo'd func (runtime.go:2504)
  | runProgramRec -- RunProgram with len(callStack) > 0
  | runProgram    -- RunProgram choosing its branch by len(callStack) (outermost e.g. directly under a depth-0 Try)
deriving DecidableEq, Repr

/-- Frame operations that bracket a sub-behaviour within one run loop. -/
inductive FrameKind
  | tmp (n : Nat)              -- n operands live across the body (sp += n … sp -= n)
  | call (n : Nat) (f : FnInfo) -- JS→JS call: push callee/this/args, pushCtx, …, ret, pop result
  | native (n : Nat)           -- JS→native call (func.go:566)
  | forOf (closable : Bool)    -- iterate/iterateP … enumPop
  | ref                        -- a reference record live across the body
  | block                      -- enterBlock with a stash … leaveBlock
  | priv                       -- class body with private names: the private environment is pushed in the SAME call frame
deriving DecidableEq, Repr

/-- Inner behaviours: a tree of frame operations which may end normally, with a catchable throw or
with an uncatchable one at any node. -/
inductive Beh
  | skip
  | seq (a b : Beh)
  | probe (id : Nat)                 -- native probe function (fault injection point)
  | break_                           -- `break` out of the nearest enclosing for-of of the same function
  | return_                          -- `return` out of the nearest enclosing function
  | throw_                           -- catchable: JS throw / Go panic with Value or *Exception / Go error
  | intr                             -- Interrupt() from inside a native, noticed by the run loop
  | frame (k : FrameKind) (ret : Beh) (body : Beh)   -- `ret`: iterator `return` behaviour (forOf only)
  | try_ (hasCatch hasFin : Bool) (body handler fin : Beh)
  | goCall (n : Nat) (f : FnInfo) (body : Beh)       -- func.go:397 __call (from a native / boundary)
  | api (k : Boundary) (body : Beh)
  | swallow (k : Boundary) (body : Beh)  -- a native that ignores the error / exception returned by a nested call
  | job (body : Beh)                 -- enqueue a promise reaction job
  -- generators (func.go generator / generatorObject, vm.go suspend / resume); yields at the top level of the body
  | yieldThen (a b : Beh)            -- body of a generator: run `a`, `yield`, and after the next resume `b`
  | resumePoint                      -- (residuals only) where a suspended activation continues; a no-op
  | yield_                           -- `yield` / `await` anywhere in the generator's own frame (inside try / for-of / block …)
  -- the rest of a try statement that was suspended in its catch handler / in its finally block (only as residuals)
  | tryH (hasFin : Bool) (cur fin : Beh)
  | tryF (pending : Bool) (cur : Beh)
  | genNew (slot n : Nat) (f : FnInfo) (body : Beh)   -- `g<slot> = (function*(){ body })(args)`
  | genNext (slot : Nat)             -- generatorObject.next  (the native frame around it is a `frame native`)
  | genThrow (slot : Nat)            -- generatorObject.throw
  | genReturn (slot : Nat)           -- generatorObject._return
  -- async functions (func.go asyncRunner): an `await` of a settled value at the top level of the body
  | asyncNew (n : Nat) (f : FnInfo) (body : Beh)   -- `(async function(){ a; await 0; b … })(args)`: asyncRunner.start
  | asyncResume (id : Nat)           -- promise reaction job: asyncRunner.onFulfilled → generator.next → asyncRunner.step
deriving Repr, Inhabited

inductive GenState | suspended | executing | completed
deriving DecidableEq, Repr, Inhabited

/-- a generator object: the rest of its body, the saved execCtx (context + operand-stack size; no try / iterator /
reference records are live at a top-level yield) and generatorObject.state -/
structure GenObj where
  rest : Beh
  ctx : Ctx
  stackLen : Nat
  state : GenState
  started : Bool          -- false = genStateSuspendedStart
deriving Repr, Inhabited

structure IterItem where
  hasIter : Bool
  ret : Beh
deriving Repr, Inhabited

/-- One probe observation (ghost; compared with VerifC03VMState read inside the real probe). -/
structure Obs where
  id : Nat
  callLen : Nat
  tryLen : Nat
  iterLen : Nat
  refLen : Nat
  /-- vm.curAsyncRunner != nil at the probe -/
  ca : Bool := false
deriving DecidableEq, Repr

inductive FaultKind | throw_ | intr
deriving DecidableEq, Repr

structure Vm where
  prg : Option Nat
  pc : Int
  sp : Int
  sb : Int
  args : Nat
  stash : List Nat
  privEnv : List Nat
  callStack : List Ctx
  iterStack : List IterItem
  refStack : List Nat
  tryStack : List TryFrame
  newTarget : Nat
  result : Nat
  maxCallStackSize : Nat
  stashAllocs : Nat
  interrupted : Bool
  jobQueue : List Beh
  gens : List (Nat × GenObj)       -- heap: generator objects by slot (global variables g<slot>)
  resid : Beh                      -- when the outcome is `yielded`: the rest of the generator body (what resume continues with)
  -- ghost state for the correspondence
  probeCount : Nat
  faultAt : Option (Nat × FaultKind)
  trace : List Obs
  /-- vm.curAsyncRunner != nil: set by asyncRunner.onFulfilled / onRejected for the time the continuation runs and reset
  by their deferred function on every exit (normal, rejected, uncatchable); vm.captureStack reads it -/
  curAsync : Bool := false
deriving Repr, Inhabited

/-- local exits: `break` out of the nearest for-of, `return` out of the nearest function — they run the
block-exit code of every construct they cross (leaveTry with its `finally`, enumPopClose, leaveBlock …) -/
inductive ExitKind | brk | ret
deriving DecidableEq, Repr, Inhabited

/-- `fatal`: uncatchable (interrupt, stack overflow, fuel exhaustion).
`stuck`: a model assertion failed (proved unreachable: `run_good`). -/
inductive Outcome | normal | thrown | fatal | stuck | exit (k : ExitKind)
  | yielded        -- a `yield` / `await` of the running generator activation was reached; `Vm.resid` is the rest of its body
deriving DecidableEq, Repr, Inhabited

abbrev Res := Outcome × Vm
abbrev RunF := Beh → Vm → Res

def globalStash : List Nat := [0]

/-- vm.init (vm.go:602) on a fresh Runtime. -/
def Vm.fresh (maxDepth : Nat) : Vm :=
  { prg := none, pc := 0, sp := 0, sb := -1, args := 0, stash := globalStash, privEnv := [],
    callStack := [], iterStack := [], refStack := [], tryStack := [], newTarget := 0, result := 0,
    maxCallStackSize := maxDepth, stashAllocs := 0, interrupted := false, jobQueue := [], gens := [], resid := .skip,
    probeCount := 0, faultAt := none, trace := [] }

/-! ### contexts (vm.go:906-937) -/

def saveCtx (s : Vm) : Ctx :=
  ⟨s.prg, s.stash, s.privEnv, s.newTarget, s.result, s.pc, s.sb, s.args⟩

/-- vm.go:911; `none` = StackOverflowError panic. -/
def pushCtx (s : Vm) : Option Vm :=
  if s.callStack.length > s.maxCallStackSize then none
  else some { s with callStack := s.callStack ++ [saveCtx s] }

def restoreCtx (c : Ctx) (s : Vm) : Vm :=
  { s with prg := c.prg, stash := c.stash, privEnv := c.privEnv, newTarget := c.newTarget,
           result := c.result, pc := c.pc, sb := c.sb, args := c.args }

/-- vm.go:927 (Go would panic on an empty callStack; the model leaves the state alone). -/
def popCtx (s : Vm) : Vm :=
  match s.callStack.getLast? with
  | none => s
  | some c => { restoreCtx c s with callStack := s.callStack.dropLast }

/-! ### try frames (vm.go:759-775) -/

def pushTryFrame (catchPos finallyPos : Int) (s : Vm) : Vm :=
  { s with tryStack :=
      { exception := none, callStackLen := s.callStack.length, iterLen := s.iterStack.length,
        refLen := s.refStack.length, sp := s.sp, stash := s.stash, privEnv := s.privEnv,
        catchPos := catchPos, finallyPos := finallyPos, finallyRet := -1 } :: s.tryStack }

def popTryFrame (s : Vm) : Vm := { s with tryStack := s.tryStack.tail }

def isConsumed (tf : TryFrame) : Bool := tf.catchPos == -1 && tf.finallyPos == -1

/-- vm.go:809-817: what handleThrow restores from the frame it stops at. -/
def restoreFrame (tf : TryFrame) (s : Vm) : Vm :=
  let s1 : Vm := match s.callStack[tf.callStackLen]? with
    | some ctx => { s with prg := ctx.prg, newTarget := ctx.newTarget, result := ctx.result,
                           pc := ctx.pc, sb := ctx.sb, args := ctx.args,
                           callStack := s.callStack.take tf.callStackLen }
    | none => s
  { s1 with sp := tf.sp, stash := tf.stash, privEnv := tf.privEnv }

/-- The iterator-close loop of restoreStacks (vm.go:780-790), items given top-first.
Returns `true` if an uncatchable escaped from an iterator's `return` (the Go panic leaves
restoreStacks before the truncation). -/
def closeIters (runF : RunF) : List IterItem → Vm → Bool × Vm
  | [], s => (false, s)
  | it :: rest, s =>
    if it.hasIter then
      let r := runF (.api .try_ it.ret) s       -- ex1 := vm.try(func(){ iter.returnIter() })
      match r.1 with
      | .normal | .thrown => closeIters runF rest r.2   -- ex1 is ignored by handleThrow
      | _ => (true, r.2)
    else closeIters runF rest s

/-- vm.go `_restoreStacks(iterLen, refLen, closeIters)`: iterators are closed only when unwinding for a
catchable throw; the truncation of both stacks sits in a deferred function, so it happens even when an
iterator's return() leaves with an uncatchable (first component `true`). -/
def restoreStacks (runF : RunF) (doClose : Bool) (iterLen refLen : Nat) (s : Vm) : Bool × Vm :=
  let r := if doClose then closeIters runF (s.iterStack.drop iterLen).reverse s else (false, s)
  (r.1, { r.2 with iterStack := r.2.iterStack.take iterLen, refStack := r.2.refStack.take refLen })

inductive HT | caught | fin | atMarker | empty | aborted
deriving DecidableEq, Repr

/-- The loop of handleThrow (vm.go:802-839) over the try stack (top first).  `catchable = false`
is `ex == nil` (payload not convertible by exceptionFromValue: interrupt, stack overflow). -/
def handleThrowLoop (runF : RunF) (catchable : Bool) : List TryFrame → Vm → HT × Vm
  | [], s => (.empty, { s with tryStack := [] })
  | tf :: rest, s =>
    if isConsumed tf || (!catchable && tf.catchPos != tryPanicMarker) then
      handleThrowLoop runF catchable rest { s with tryStack := rest }
    else
      let s1 := restoreFrame tf { s with tryStack := tf :: rest }
      let r := restoreStacks runF catchable tf.iterLen tf.refLen s1    -- closeIters = (ex != nil)
      if r.1 then (.aborted, r.2)
      else if tf.catchPos == tryPanicMarker then (.atMarker, r.2)
      else if tf.catchPos ≥ 0 then
        (.caught, { r.2 with sp := r.2.sp + 1, pc := tf.catchPos,
                             tryStack := { tf with catchPos := -1 } :: rest })
      else if tf.finallyPos ≥ 0 then
        (.fin, { r.2 with pc := tf.finallyPos,
                          tryStack := { tf with exception := some 1, finallyPos := -1, finallyRet := -1 } :: rest })
      else (.empty, r.2)

def handleThrow (runF : RunF) (catchable : Bool) (s : Vm) : HT × Vm :=
  handleThrowLoop runF catchable s.tryStack s

/-! ### bracketing frame operations -/

def FrameKind.pre (k : FrameKind) (ret : Beh) (s : Vm) : Option Vm :=
  match k with
  | .tmp n => some { s with sp := s.sp + n }
  | .call n f =>
    -- push callee, this, n args; vmCall: pushCtx; enterFunc: sb := sp - n - 1
    (pushCtx { s with sp := s.sp + 2 + n }).map fun t =>
      { t with args := n, prg := some f.prg, stash := f.stash, privEnv := f.privEnv, pc := 0,
               sb := t.sp - n - 1 }
  | .native n =>
    (pushCtx { s with sp := s.sp + 2 + n }).map fun t => { t with prg := none, sb := t.sp - n }
  | .forOf closable =>
    some { s with iterStack := s.iterStack ++ [⟨true, if closable then ret else .skip⟩] }
  | .ref => some { s with refStack := s.refStack ++ [0] }
  | .block => some { s with stash := (s.stashAllocs + 1) :: s.stash, stashAllocs := s.stashAllocs + 1 }
  | .priv => some { s with privEnv := (s.stashAllocs + 1) :: s.privEnv, stashAllocs := s.stashAllocs + 1 }

def FrameKind.post (k : FrameKind) (s : Vm) : Vm :=
  match k with
  | .tmp n => { s with sp := s.sp - n }
  | .call _ _ =>
    -- ret: sp := sb; popCtx; the caller then drops the result
    let t := popCtx { s with sp := s.sb }
    { t with sp := t.sp - 1 }
  | .native n =>
    -- vm.popCtx(); vm.sp -= n + 1; the caller then drops the result
    let t := popCtx s
    { t with sp := t.sp - (n + 1) - 1 }
  | .forOf _ => { s with iterStack := s.iterStack.dropLast }
  | .ref => { s with refStack := s.refStack.dropLast }
  | .block => { s with stash := s.stash.tail }
  | .priv => { s with privEnv := s.privEnv.tail }

/-! ### the native probe -/

def observe (id : Nat) (s : Vm) : Vm :=
  { s with probeCount := s.probeCount + 1,
           trace := s.trace ++ [⟨id, s.callStack.length, s.tryStack.length, s.iterStack.length, s.refStack.length, s.curAsync⟩] }

/-- `P(id)`: a native call (pushCtx may overflow); at the faultAt-th invocation the probe injects a
fault: a Go panic with a Value (no popCtx happens) or Interrupt() (the native returns, the run loop
then raises InterruptedError). -/
def probe (id : Nat) (s : Vm) : Res :=
  match FrameKind.pre (.native 1) .skip s with
  | none => (.fatal, { s with sp := s.sp + 3 })
  | some s1 =>
    let s2 := observe id s1
    match s2.faultAt with
    | some (k, fk) =>
      if s2.probeCount = k then
        match fk with
        | .throw_ => (.thrown, s2)
        | .intr => (.fatal, { FrameKind.post (.native 1) s2 with interrupted := true })
      else (.normal, FrameKind.post (.native 1) s2)
    | none => (.normal, FrameKind.post (.native 1) s2)

/-! ### try statement (vm.go:4760-4817) -/

/-- the `finally` block and leaveFinally; entered with the frame on top, finallyPos = -1 -/
def finPhase (runF : RunF) (fin : Beh) (s : Vm) : Res :=
  let r := runF fin s
  match r.1 with
  | .normal =>
    match r.2.tryStack with
    | tf :: rest =>
      let s2 := { r.2 with tryStack := rest }
      if tf.exception.isSome then (.thrown, s2) else (.normal, s2)
    | [] => (.stuck, r.2)
  | .exit e =>
    -- a break / return out of the finally block itself: its exit code drops the frame
    match r.2.tryStack with
    | _ :: rest => (.exit e, { r.2 with tryStack := rest })
    | [] => (.stuck, r.2)
  | .yielded =>
    -- suspended inside the finally block: the (consumed) frame stays; resume continues in `tryF`
    match r.2.tryStack with
    | tf :: _ => (.yielded, { r.2 with resid := .tryF tf.exception.isSome r.2.resid })
    | [] => (.stuck, r.2)
  | o => (o, r.2)

/-- End of the protected region.  Without `finally`: leaveTry (pop).  With `finally`: the compiler emits a
jump to enterFinally, which clears finallyPos AND catchPos (fix 379f30d); the block-exit form of leaveTry
(break/continue/return through the statement) does the same and also resets sp/stash from the frame. -/
def leaveTry (runF : RunF) (fin : Beh) (s : Vm) : Res :=
  match s.tryStack with
  | tf :: rest =>
    if tf.finallyPos ≥ 0 then
      finPhase runF fin
        { s with tryStack := { tf with finallyRet := s.pc + 1, finallyPos := -1, catchPos := -1 } :: rest,
                 sp := tf.sp, stash := tf.stash, pc := tf.finallyPos }
    else (.normal, { s with tryStack := rest })
  | [] => (.stuck, s)

/-- a throw reaching this try statement whose frame still has a live `finally` -/
def throwToFinally (runF : RunF) (fin : Beh) (depth : Nat) (s : Vm) : Res :=
  let r := handleThrow runF true s
  match r.1 with
  | .fin => if r.2.tryStack.length = depth + 1 then finPhase runF fin r.2 else (.stuck, r.2)
  | .aborted => (.fatal, r.2)
  | _ => (.stuck, r.2)

/-- a break / return crossing the statement: `leaveTry` is emitted at the exit site (with a live `finally` it runs
first, `finallyRet` leading back to the rest of the exit sequence), then the exit goes on -/
def exitThrough (e : ExitKind) (r : Res) : Res :=
  match r.1 with
  | .normal => (.exit e, r.2)
  | _ => r

def afterHandler (runF : RunF) (hasFin : Bool) (fin : Beh) (depth : Nat) (r : Res) : Res :=
  match r.1 with
  | .normal => leaveTry runF fin r.2
  | .exit e => exitThrough e (leaveTry runF fin r.2)
  | .yielded => (.yielded, { r.2 with resid := .tryH hasFin r.2.resid fin })
  | .thrown => if hasFin then throwToFinally runF fin depth r.2 else (.thrown, r.2)
  | o => (o, r.2)

def tryStmt (runF : RunF) (hasCatch hasFin : Bool) (body handler fin : Beh) (s : Vm) : Res :=
  let depth := s.tryStack.length
  let s0 := pushTryFrame (if hasCatch then 10 else -1) (if hasFin then 20 else -1) s
  let r1 := runF body s0
  match r1.1 with
  | .normal => leaveTry runF fin r1.2
  | .exit e => exitThrough e (leaveTry runF fin r1.2)
  | .yielded => (.yielded, { r1.2 with resid := .try_ hasCatch hasFin r1.2.resid handler fin })
  | .thrown =>
    if hasCatch then
      let h := handleThrow runF true r1.2
      match h.1 with
      | .caught =>
        if h.2.tryStack.length = depth + 1 then
          -- the handler binds the exception value (sp - 1) and runs
          afterHandler runF hasFin fin depth (runF handler { h.2 with sp := h.2.sp - 1 })
        else (.stuck, h.2)
      | .aborted => (.fatal, h.2)
      | _ => (.stuck, h.2)
    else if hasFin then throwToFinally runF fin depth r1.2
    else (.stuck, r1.2)          -- `try` without catch and finally does not parse
  | o => (o, r1.2)

/-- Resuming a generator that was suspended inside the catch handler of a try statement.  vm.resume reinstalls the
saved frame rebased to the new activation (callStackLen, iterLen, refLen, sp); the model states the SPEC of that
rebasing: the frame is the one `pushTryFrame` creates in the resumed state, with the catch already consumed
(`rebase_frameOf` in Props.lean proves the arithmetic of suspend/resume meets this spec). -/
def tryResumeH (runF : RunF) (hasFin : Bool) (cur fin : Beh) (s : Vm) : Res :=
  let depth := s.tryStack.length
  let s0 := pushTryFrame (-1) (if hasFin then 20 else -1) s
  afterHandler runF hasFin fin depth (runF cur s0)

/-- … suspended inside the finally block: the frame is consumed; a pending exception is rethrown by leaveFinally -/
def tryResumeF (runF : RunF) (pending : Bool) (cur : Beh) (s : Vm) : Res :=
  match (pushTryFrame (-1) (-1) s).tryStack with
  | tf :: rest =>
    finPhase runF cur { s with tryStack := { tf with exception := if pending then some 1 else none } :: rest }
  | [] => (.stuck, s)

/-! ### Go-side boundaries -/

/-- what the deferred recover of a boundary does with a non-normal outcome of its body:
handleThrow, then the deferred popTryFrame -/
def unwindAtMarker (runF : RunF) (o : Outcome) (s : Vm) : Res :=
  let h := handleThrow runF (o == .thrown) s
  let s3 := popTryFrame h.2
  match h.1 with
  | .atMarker => (if o == .thrown then .thrown else .fatal, s3)
  | .aborted => (.fatal, s3)
  | _ => (.stuck, s3)

/-- vm.try (vm.go:854) -/
def tryB (runF : RunF) (b : Beh) (s : Vm) : Res :=
  let r := runF b (pushTryFrame tryPanicMarker (-1) s)
  match r.1 with
  | .normal => (.normal, popTryFrame r.2)
  | .exit _ => (.normal, popTryFrame r.2)     -- a Go callback has no break/return to propagate: plain return
  | .stuck => (.stuck, r.2)
  | .yielded => unwindAtMarker runF .fatal r.2      -- (a yield cannot cross a function: SyntaxError in JS)
  | o => unwindAtMarker runF o r.2

/-- the run loop under a boundary marker: `runTry` (vm.go) / the `for { runTryInner }` loop of `__call`; the loop
looks at the interrupt flag before its first instruction -/
def runTryB (runF : RunF) (b : Beh) (s : Vm) : Res :=
  if s.interrupted then unwindAtMarker runF .fatal (pushTryFrame tryPanicMarker (-1) s)
  else tryB runF b s

/-- func.go `__call`, after the marker was pushed (state `s1`): save the caller's context (two shapes) and
set the callee's registers; `none` = StackOverflowError from pushCtx -/
def goCallEnter (n : Nat) (f : FnInfo) (s1 : Vm) : Option (Vm × Bool) :=
  let pushed : Option (Vm × Bool) :=
    if s1.prg.isSome then
      (pushCtx s1).map fun t => ({ t with callStack := t.callStack ++ [⟨none, [], [], 0, 0, -2, 0, 0⟩] }, true)
    else (pushCtx { s1 with pc := -2 }).map fun t => (t, false)
  pushed.map fun (s2, needPop) =>
    ({ s2 with args := n, prg := some f.prg, stash := f.stash, privEnv := f.privEnv,
               newTarget := 0, pc := 0, sb := s2.sp - n - 1 }, needPop)

/-- `ret` of the callee, `if needPop { popCtx }`, `vm.pop()`, deferred popTryFrame -/
def goCallRet (needPop : Bool) (s4 : Vm) : Vm :=
  let s5 := popCtx { s4 with sp := s4.sb }
  let s6 := if needPop then popCtx s5 else s5
  popTryFrame { s6 with sp := s6.sp - 1 }

/-- func.go `__call` -/
def goCall (runF : RunF) (n : Nat) (f : FnInfo) (b : Beh) (s : Vm) : Res :=
  let s1 := pushTryFrame tryPanicMarker (-1) { s with sp := s.sp + 2 + n }
  match goCallEnter n f s1 with
  | none => (.fatal, popTryFrame s1)     -- StackOverflowError raised outside runTryInner: only the deferred pop runs
  | some (s3, needPop) =>
    let r := if s3.interrupted then (Outcome.fatal, s3) else runF b s3
    match r.1 with
    | .normal => (.normal, goCallRet needPop r.2)
    | .exit _ => (.normal, goCallRet needPop r.2)     -- `return`: the same `ret` instruction
    | .stuck => (.stuck, r.2)
    | .yielded => unwindAtMarker runF .fatal r.2
    | o => unwindAtMarker runF o r.2

def runJobs (runF : RunF) : List Beh → Vm → Res
  | [], s => (.normal, s)
  | j :: js, s =>
    let r := runF (.api .try_ j) s
    match r.1 with
    | .normal | .thrown => runJobs runF js r.2
    | o => (o, r.2)

/-- runtime.go:2836 leave; the outer `for len(jobQueue) > 0` is bounded by `lf` (exhaustion = interrupt) -/
def leaveLoop (runF : RunF) : Nat → Vm → Res
  | 0, s => (.fatal, s)
  | lf + 1, s =>
    match s.jobQueue with
    | [] => (.normal, s)
    | jobs =>
      let r := runJobs runF jobs { s with jobQueue := [] }
      match r.1 with
      | .normal => leaveLoop runF lf r.2
      | o => (o, r.2)

/-- runtime.go leaveAbrupt (with fix e71ffae: prg/sb reset) -/
def leaveAbrupt (s : Vm) : Vm :=
  { s with jobQueue := [], interrupted := false, prg := none, sb := -1 }

/-- the tail of runWrapped after a normal / thrown `vm.try`: `leave()` at depth 0 (a job that ends with an
uncatchable reaches the deferred recover: leaveAbrupt), else clearStack -/
def leaveOrClear (runF : RunF) (lf : Nat) (o : Outcome) (s1 : Vm) : Res :=
  if s1.callStack.length = 0 then
    let l := leaveLoop runF lf s1
    match l.1 with
    | .normal => (o, l.2)
    | .stuck => (.stuck, l.2)
    | o2 => (o2, leaveAbrupt l.2)
  else (o, s1)

/-- runtime.go runWrapped -/
def runWrapped (runF : RunF) (lf : Nat) (b : Beh) (s : Vm) : Res :=
  let r := tryB runF b s
  match r.1 with
  | .normal | .thrown => leaveOrClear runF lf r.1 r.2
  | .stuck => r
  | o => (o, if r.2.callStack.length = 0 then leaveAbrupt r.2 else r.2)

/-- RunProgram, `recursive` branch: registers of the nested global code -/
def recEnter (p : Nat) (s1 : Vm) : Vm :=
  { s1 with stash := globalStash, privEnv := [], newTarget := 0, args := 0,
            sb := s1.sp + 1, sp := s1.sp + 2, prg := some p, pc := 0, result := 0 }

/-- deferred: `vm.sp -= 2; vm.popCtx()` (only when the context was pushed, fix 195a32b) -/
def recExit (t : Vm) : Vm := popCtx { t with sp := t.sp - 2 }

/-- runtime.go RunProgram, `recursive` branch -/
def runProgramRec (runF : RunF) (p : Nat) (b : Beh) (s : Vm) : Res :=
  match pushCtx s with
  | none => (.fatal, s)     -- pushCtx panics before `pushed = true`: the deferred function pops nothing
  | some s1 =>
    let r := runTryB runF b (recEnter p s1)
    (r.1, recExit r.2)

def outerEnter (p : Nat) (s : Vm) : Vm :=
  { s with callStack := s.callStack ++ [⟨none, [], [], 0, 0, 0, 0, 0⟩], prg := some p, pc := 0, result := 0 }

def outerPop (t : Vm) : Vm := { t with callStack := t.callStack.dropLast }

/-- runtime.go RunProgram, outermost branch (len(callStack) = 0) -/
def runProgramOuter (runF : RunF) (lf : Nat) (p : Nat) (b : Beh) (s : Vm) : Res :=
  let r' := runTryB runF b (outerEnter p s)
  match r'.1 with
  | .normal | .thrown =>
    -- vm.prg = nil; vm.sb = -1; r.leave(); deferred: callStack = callStack[:len-1]
    let l := leaveLoop runF lf { r'.2 with prg := none, sb := -1 }
    (match l.1 with
     | .normal => (r'.1, outerPop l.2)
     | .stuck => (.stuck, l.2)
     | o => let t := outerPop l.2; (o, if t.callStack.length = 0 then leaveAbrupt t else t))
  | .stuck => r'
  | o =>
    let t := outerPop r'.2
    (o, if t.callStack.length = 0 then leaveAbrupt t else t)

/-! ### generators (func.go: generator.enter / enterNext / step / next / nextThrow, generatorObject.init / next /
throw / _return; vm.go: suspend / resume) -/

/-! #### vm.suspend / vm.resume on the records of the activation (mechanism level)

The interpreter above uses the SPEC of suspend/resume: a resumed activation finds, for every construct it was
suspended in, the record that entering the construct afresh in the resumed state would create (`tryResumeH`,
`tryResumeF`, re-entered `frame`s).  The two functions below transcribe what vm.go actually does to a saved try frame;
`rebase_meets_spec` (Props.lean) proves that it yields exactly that record. -/

/-- vm.suspend (vm.go): a try frame moved into the generator object is made relative to the stored lengths and to
the activation's stack base `sb - 1` -/
def suspendFrame (iterStackLen refStackLen : Nat) (sb : Int) (tf : TryFrame) : TryFrame :=
  { tf with iterLen := tf.iterLen - iterStackLen, refLen := tf.refLen - refStackLen, sp := tf.sp - (sb - 1) }

/-- vm.resume (vm.go): … and rebased onto the resuming activation (`sp` = vm.sp before the saved operands are pushed) -/
def resumeFrame (callLen iterLen refLen : Nat) (sp : Int) (tf : TryFrame) : TryFrame :=
  { tf with callStackLen := callLen, iterLen := tf.iterLen + iterLen, refLen := tf.refLen + refLen, sp := tf.sp + sp }

/-- generator.throw(v) / generator.return(v): the suspended activation continues with a `throw` / `return` AT the point
where it was suspended (`resumePoint`, found along the spine of the residual); a body that has not started yet gets
it in front. -/
def inject (what : Beh) : Beh → Beh
  | .resumePoint => what
  | .seq a b => .seq (inject what a) b
  | .frame k ret c => .frame k ret (inject what c)
  | .try_ hc hf c h f => .try_ hc hf (inject what c) h f
  | .tryH hf c f => .tryH hf (inject what c) f
  | .tryF p c => .tryF p (inject what c)
  | b => .seq what b

def resumeBody (what : Option Beh) (rest : Beh) : Beh :=
  match what with
  | none => rest
  | some w => inject w rest

def getGen (s : Vm) (slot : Nat) : Option GenObj := (s.gens.find? (·.1 == slot)).map (·.2)

def setGen (s : Vm) (slot : Nat) (g : GenObj) : Vm :=
  { s with gens := (slot, g) :: s.gens.filter (·.1 != slot) }

/-- the extra frame `context{pc: -2}` that makes the run loop halt after the generator's `ret` -/
def ctxHalt : Ctx := ⟨none, [], [], 0, 0, -2, 0, 0⟩

/-- generator.enterNext + vm.resume: save the caller (pushCtx, may overflow), push the marker, push the halt frame,
reinstall the generator's context and operand stack on top of the caller's -/
def genEnterNext (g : GenObj) (s : Vm) : Option Vm :=
  (pushCtx s).map fun s1 =>
    let s2 := pushTryFrame tryPanicMarker (-1) s1
    let s3 : Vm := { s2 with callStack := s2.callStack ++ [ctxHalt] }
    { restoreCtx g.ctx s3 with sb := s3.sp + 1, sp := s3.sp + g.stackLen }

/-- a `yield` reached: step1 suspends (`vm.sp = vm.sb - 1`, the halt frame is dropped), then generator.next pops the
marker and the caller's context -/
def genLeave (tl il rl : Nat) (s5 : Vm) : Vm :=
  -- vm.suspend moves the records above the stored lengths into the generator object (here: they are implied by the residual)
  popCtx (popTryFrame { s5 with sp := s5.sb - 1, callStack := s5.callStack.dropLast,
                                tryStack := s5.tryStack.drop (s5.tryStack.length - tl),
                                iterStack := s5.iterStack.take il, refStack := s5.refStack.take rl })

/-- the body returned: `ret` (sp := sb; popCtx = the halt frame), `vm.pop()`, then as above -/
def genFinish (s5 : Vm) : Vm :=
  let t := popCtx { s5 with sp := s5.sb }
  popCtx (popTryFrame { t with sp := t.sp - 1 })

def genDone (g : GenObj) : GenObj := { g with state := .completed }

/-- calling a generator function (generatorVmCall → generatorCall → generatorObject.init): enter() saves the caller
and pushes the marker; vmCall pushes the callee's context; the prologue yields at once, so step() suspends: the
callee's frame is dropped again, init pops marker and caller context; the object is pushed and dropped by the
statement.  Either pushCtx may overflow (the second one with the marker already pushed: dropMarkerOnPanic). -/
def genNew (slot n : Nat) (f : FnInfo) (body : Beh) (s : Vm) : Res :=
  let s1 : Vm := { s with sp := s.sp + 2 + n }
  match pushCtx s1 with
  | none => (.fatal, s1)
  | some s2 =>
    let s3 : Vm := { pushTryFrame tryPanicMarker (-1) s2 with prg := none, sb := -1, pc := -2 }
    match pushCtx s3 with
    | none => (.fatal, { s3 with tryStack := s3.tryStack.tail })
    | some _ =>
      let g : GenObj := { rest := body, ctx := ⟨some f.prg, f.stash, f.privEnv, s3.newTarget, s3.result, 1, 0, n⟩,
                          stackLen := n + 2, state := .suspended, started := false }
      let t := popCtx (popTryFrame s3)
      (.normal, setGen { t with sp := s.sp } slot g)

/-- generatorObject.next / throw / _return → generator.next / nextThrow → step.  `what = none`: next(); `some throw_` /
`some return_`: the activation continues with that statement at its suspension point (for a generator suspended with
`finally` blocks live this runs them, as generator._return's enterNextFinallyFrame does). -/
def genResume (runF : RunF) (slot : Nat) (what : Option Beh) (isThrow : Bool) (s : Vm) : Res :=
  match getGen s slot with
  | none => if isThrow then (.thrown, s) else (.normal, s)
  | some g =>
    match g.state with
    | .completed => if isThrow then (.thrown, s) else (.normal, s)
    | .executing => (.thrown, s)                      -- validate(): TypeError "Illegal generator state"
    | .suspended =>
      if what.isSome && !g.started then
        (if isThrow then .thrown else .normal, setGen s slot (genDone g))      -- genStateSuspendedStart → completed
      else
        match genEnterNext g s with
        | none => (.fatal, setGen s slot { g with state := .executing })
        | some s4' =>
          let s4 := setGen s4' slot { g with state := .executing, started := true }
          let body : Beh := resumeBody what g.rest
          let r := if s4.interrupted then (Outcome.fatal, s4) else runF body s4
          match r.1 with
          | .yielded =>
            (.normal, setGen (genLeave s4.tryStack.length s4.iterStack.length s4.refStack.length r.2) slot
               { rest := r.2.resid, ctx := saveCtx r.2, stackLen := (r.2.sp - r.2.sb + 1).toNat, state := .suspended, started := true })
          | .normal => (.normal, setGen (genFinish r.2) slot (genDone g))
          | .exit _ => (.normal, setGen (genFinish r.2) slot (genDone g))     -- `return` inside the generator
          | .stuck => r
          | o =>
            -- uncaught in the generator: handleThrow stops at enterNext's marker; thrown: next() pops marker and caller
            -- context, generatorObject.step marks it completed and re-panics; uncatchable: step's deferred function drops the
            -- marker, the state stays `executing`
            let u := unwindAtMarker runF o r.2
            (match u.1 with
             | .thrown => (.thrown, setGen (popCtx u.2) slot (genDone g))
             | _ => u)

/-- asyncRunner.start: enter() (caller saved, marker), vmCall (callee context, its saved pc = -2 makes `ret` halt), step()
runs the first segment.  `await`: suspend, the continuation is queued as a promise reaction job (the awaited value is
settled), marker and caller popped.  End of the body / `return`: `ret`, promise resolved.  Uncaught throw: handleThrow
stops at the marker, the promise is rejected, `vm.sp = sp - nArgs - 2`, and the call returns NORMALLY with the promise.
Uncatchable: step's deferred function drops the marker and the panic goes on. -/
def actEnter (n : Nat) (s : Vm) : Option Vm :=
  -- the caller pushed callee, this and n arguments; generator.enter(): pushCtx, marker, `prg, sb, pc = nil, -1, -2`
  (pushCtx { s with sp := s.sp + 2 + n }).map fun s2 =>
    { pushTryFrame tryPanicMarker (-1) s2 with prg := none, sb := -1, pc := -2 }

def actCall (n : Nat) (f : FnInfo) (s3 : Vm) : Option Vm :=
  -- baseJsFuncObject.vmCall + the function prologue
  (pushCtx s3).map fun s4 =>
    { s4 with args := n, prg := some f.prg, stash := f.stash, privEnv := f.privEnv, pc := 0, sb := s4.sp - n - 1 }

/-- back in asyncRunner.start(): `popCtx` (the marker is already gone); the promise is pushed and dropped by the statement -/
def actBack (s : Vm) (t : Vm) : Vm := let u := popCtx t; { u with sp := s.sp }

def asyncNew (runF : RunF) (n : Nat) (f : FnInfo) (body : Beh) (s : Vm) : Res :=
  match actEnter n s with
  | none => (.fatal, { s with sp := s.sp + 2 + n })
  | some s3 =>
    match actCall n f s3 with
    | none => (.fatal, popTryFrame s3)                 -- dropMarkerOnPanic
    | some s5 =>
      let r := if s5.interrupted then (Outcome.fatal, s5) else runF body s5
      match r.1 with
      | .yielded =>
        -- `await`: suspend (records above the stored lengths go into the runner), queue the continuation
        let id := 1000 + r.2.gens.length
        let g : GenObj := { rest := r.2.resid, ctx := saveCtx r.2, stackLen := (r.2.sp - r.2.sb + 1).toNat, state := .suspended, started := true }
        let t : Vm := { r.2 with sp := r.2.sb - 1, callStack := r.2.callStack.dropLast,
                                 tryStack := r.2.tryStack.drop (r.2.tryStack.length - s5.tryStack.length),
                                 iterStack := r.2.iterStack.take s5.iterStack.length, refStack := r.2.refStack.take s5.refStack.length }
        let t := setGen t id g
        (.normal, actBack s (popTryFrame { t with jobQueue := t.jobQueue ++ [.asyncResume id] }))
      | .normal => (.normal, actBack s (popTryFrame (popCtx { r.2 with sp := r.2.sb })))           -- `ret`
      | .exit _ => (.normal, actBack s (popTryFrame (popCtx { r.2 with sp := r.2.sb })))
      | .stuck => r
      | o =>
        -- uncaught: handleThrow stops at enter()'s marker.  Thrown: the promise is rejected, `vm.sp = sp - nArgs - 2`,
        -- marker and caller popped, NORMAL return.  Uncatchable: step's deferred function drops the marker; the panic goes on.
        let u := unwindAtMarker runF o r.2
        (match u.1 with
         | .thrown => (.normal, actBack s u.2)
         | _ => u)

/-- the continuation of an async function, run as a promise reaction job (inside the job's vm.try):
onFulfilled → generator.next → step → asyncRunner.step.  An uncaught throw rejects the promise: normal return. -/
def asyncResume (runF : RunF) (id : Nat) (s : Vm) : Res :=
  match getGen s id with
  | none => (.normal, s)
  | some g =>
    match genEnterNext g s with
    | none => (.fatal, s)
    | some s4 =>
      let r := if s4.interrupted then (Outcome.fatal, s4) else runF g.rest s4
      match r.1 with
      | .yielded =>
        let g' : GenObj := { rest := r.2.resid, ctx := saveCtx r.2, stackLen := (r.2.sp - r.2.sb + 1).toNat, state := .suspended, started := true }
        let t := setGen (genLeave s4.tryStack.length s4.iterStack.length s4.refStack.length r.2) id g'
        (.normal, { t with jobQueue := t.jobQueue ++ [.asyncResume id] })
      | .normal => (.normal, setGen (genFinish r.2) id (genDone g))
      | .exit _ => (.normal, setGen (genFinish r.2) id (genDone g))
      | .stuck => r
      | o =>
        let u := unwindAtMarker runF o r.2
        (match u.1 with
         | .thrown => (.normal, setGen (popCtx u.2) id (genDone g))      -- promiseCap.reject
         | _ => u)

/-- asyncRunner.onFulfilled around the continuation: `vm.curAsyncRunner = ar; defer func() { vm.curAsyncRunner = nil }()` -/
def asyncResumeCA (runF : RunF) (id : Nat) (s : Vm) : Res :=
  let r := asyncResume runF id { s with curAsync := true }
  (r.1, { r.2 with curAsync := false })

/-! ### one layer of the interpreter -/

def seqRes (runF : RunF) (a b : Beh) (s : Vm) : Res :=
  let r := runF a s
  match r.1 with
  | .normal => runF b r.2
  | .yielded => (.yielded, { r.2 with resid := .seq r.2.resid b })
  | o => (o, r.2)

/-- `a; yield; b` -/
def yieldThenRes (runF : RunF) (a b : Beh) (s : Vm) : Res :=
  let r := runF a s
  match r.1 with
  | .normal => (.yielded, { r.2 with resid := .seq .resumePoint b })
  | .yielded => (.yielded, { r.2 with resid := .seq r.2.resid (.yieldThen .skip b) })
  | o => (o, r.2)

/-- a suspension inside a bracketing frame: its records stay on the stacks (vm.suspend moves them into the generator
object), resume re-enters the frame; a yield cannot cross a function -/
def frameYield (k : FrameKind) (ret : Beh) (s2 : Vm) : Res :=
  match k with
  | .call _ _ => (.fatal, s2)
  | .native _ => (.fatal, s2)
  | _ => (.yielded, { s2 with resid := .frame k ret s2.resid })

/-- block-exit code of a bracketing frame crossed by a break / return (`s2` = state after the body) -/
def frameExit (runF : RunF) (k : FrameKind) (ret : Beh) (e : ExitKind) (s2 : Vm) : Res :=
  match k with
  | .forOf closable =>
    -- enumPopClose (vm.go): pop the record, then iter.returnIter() — NOT shielded by vm.try
    let s3 := k.post s2
    let r := if closable then runF ret s3 else (Outcome.normal, s3)
    (match r.1 with
     | .normal | .exit _ => (match e with | .brk => (.normal, r.2) | .ret => (.exit .ret, r.2))
     | o => (o, r.2))
  | .call _ _ => (.normal, k.post s2)      -- `return` ends the function (`ret` instruction); a break cannot cross it
  | .native _ => (.normal, k.post s2)
  | _ => (.exit e, k.post s2)              -- leaveBlock / operand and reference clean-up, then go on

/-- A native ignores what a nested API call returned: a returned *Exception or StackOverflowError is dropped and
the native goes on.  An InterruptedError cannot be ignored in effect — the flag is still set (only the outermost
call clears it), so the caller's run loop raises it again; and an uncatchable passing through `Runtime.Try` is
a Go panic, not a return value. -/
def swallowRes (k : Boundary) (s : Vm) (r : Res) : Res :=
  match r.1 with
  | .thrown => (.normal, r.2)
  | .fatal => if k != .try_ && r.2.interrupted == s.interrupted then (.normal, r.2) else r
  | _ => r

def apiNode (lf : Nat) (runF : RunF) (k : Boundary) (b : Beh) (s : Vm) : Res :=
  match k with
  | .try_ => tryB runF b s
  | .runWrapped => runWrapped runF lf b s
  | .runProgramRec => runProgramRec runF 7 b s
  | .runProgram => if s.callStack.length > 0 then runProgramRec runF 7 b s else runProgramOuter runF lf 7 b s

def step (lf : Nat) (runF : RunF) : Beh → Vm → Res
  | .skip, s => (.normal, s)
  | .seq a b, s => seqRes runF a b s
  | .probe id, s => probe id s
  | .break_, s => (.exit .brk, s)
  | .return_, s => (.exit .ret, s)
  | .throw_, s => (.thrown, s)
  | .intr, s => (.fatal, { s with interrupted := true })
  | .frame k ret body, s =>
    match k.pre ret s with
    | none => (.fatal, s)
    | some s1 =>
      let r := runF body s1
      match r.1 with
      | .normal => (.normal, k.post r.2)
      | .exit e => frameExit runF k ret e r.2
      | .yielded => frameYield k ret r.2
      | o => (o, r.2)
  | .try_ hc hf body handler fin, s =>
    if hc || hf then tryStmt runF hc hf body handler fin s else runF body s
  | .goCall n f b, s => goCall runF n f b s
  | .api k b, s => apiNode lf runF k b s
  | .swallow k b, s => swallowRes k s (apiNode lf runF k b s)
  | .job b, s => (.normal, { s with jobQueue := s.jobQueue ++ [b] })
  | .yieldThen a b, s => yieldThenRes runF a b s
  | .yield_, s => (.yielded, { s with resid := .resumePoint })
  | .resumePoint, s => (.normal, s)
  | .tryH hf cur fin, s => tryResumeH runF hf cur fin s
  | .tryF p cur, s => tryResumeF runF p cur s
  | .genNew slot n f body, s => genNew slot n f body s
  | .genNext slot, s => genResume runF slot none false s
  | .genThrow slot, s => genResume runF slot (some .throw_) true s
  | .genReturn slot, s => genResume runF slot (some .return_) false s
  | .asyncNew n f body, s => asyncNew runF n f body s
  | .asyncResume id, s => asyncResumeCA runF id s

def run : Nat → RunF
  | 0 => fun _ s => (.fatal, s)
  | fuel + 1 => step fuel (run fuel)

/-! ### API calls made by the host between which the runtime must be idle -/

inductive TopApi
  | runProgram      -- Runtime.RunProgram (outermost or recursive by len(callStack))
  | callable (n : Nat) (f : FnInfo)      -- AssertFunction(v)(this, args…) / ExportTo'd func
  | constructor (n : Nat) (f : FnInfo)   -- AssertConstructor(v)(newTarget, args…)
  | try_            -- Runtime.Try(func(){ … }) around Go-side operations
  | tryGet (f : FnInfo)   -- Runtime.Try(func(){ obj.Get("x") }) with a JS getter
deriving Repr

/-- Runtime.Try (with fix 9e5aa04: leaveAbrupt when an uncatchable passes at depth 0) -/
def runtimeTry (fuel : Nat) (b : Beh) (s : Vm) : Res :=
  let r := tryB (run fuel) b s
  match r.1 with
  | .fatal => (.fatal, if r.2.callStack.length = 0 then leaveAbrupt r.2 else r.2)
  | _ => r

def apiCall (fuel : Nat) (k : TopApi) (b : Beh) (s : Vm) : Res :=
  match k with
  | .runProgram =>
    if s.callStack.length > 0 then runProgramRec (run fuel) 7 b s
    else runProgramOuter (run fuel) fuel 7 b s
  | .callable n f => runWrapped (run fuel) fuel (.goCall n f b) s
  | .constructor n f => runWrapped (run fuel) fuel (.goCall n f b) s
  | .try_ => runtimeTry fuel b s
  | .tryGet f => runtimeTry fuel (.goCall 0 f b) s

/-! ### what must hold between API calls -/

/-- The control state that no call may leak (the fields of VerifC03VMState that are compared). -/
structure CtlState where
  sp : Int
  sb : Int
  prg : Option Nat
  stash : List Nat
  privEnv : List Nat
  callStack : List Ctx
  tryLen : Nat
  iterLen : Nat
  refLen : Nat
  args : Nat
  newTarget : Nat
deriving DecidableEq, Repr

def ctlState (s : Vm) : CtlState :=
  ⟨s.sp, s.sb, s.prg, s.stash, s.privEnv, s.callStack, s.tryStack.length, s.iterStack.length,
   s.refStack.length, s.args, s.newTarget⟩

/-- Control is outside the runtime. -/
def Idle (s : Vm) : Prop :=
  s.sp = 0 ∧ s.sb = -1 ∧ s.prg = none ∧ s.stash = globalStash ∧ s.privEnv = [] ∧
  s.callStack = [] ∧ s.tryStack = [] ∧ s.iterStack = [] ∧ s.refStack = [] ∧
  s.jobQueue = [] ∧ s.interrupted = false

instance (s : Vm) : Decidable (Idle s) := by
  unfold Idle
  have : Decidable (s.jobQueue = []) := by
    cases h : s.jobQueue with
    | nil => exact isTrue rfl
    | cons a b => exact isFalse (by simp)
  have : Decidable (s.iterStack = []) := by
    cases h : s.iterStack with
    | nil => exact isTrue rfl
    | cons a b => exact isFalse (by simp)
  infer_instance

end GojaModel.C03
