/-
  C03 — Tie: the statement / decision skeleton of every Go function the model transcribes, REGENERATED from
  /repo's current source on every run (extract/c03.go → GojaModel/Generated/C03_Skeleton.lean), must equal
  the skeleton the model was written against (`Expected`, below; each list names the model definition that
  transcribes it).  Only statements touching control state are part of a skeleton (see extract/c03.go).
  Maintained with `python3 run/c03.py --write-tie` after a reviewed change.
-/
import GojaModel.Generated.C03_Skeleton

namespace GojaModel.C03.Expected

/-- model: `saveCtx` -/
def saveCtx : List (Nat × String) := [
  (0, "ctx.prg, ctx.stash, ctx.privEnv, ctx.newTarget, ctx.result, ctx.pc, ctx.sb, ctx.args = vm.prg, vm.stash, vm.privEnv, vm.newTarget, vm.result, vm.pc, vm.sb, vm.args")]

/-- model: `pushCtx (depth limit `>`; overflow = none)` -/
def pushCtx : List (Nat × String) := [
  (0, "if len(vm.callStack) > vm.maxCallStackSize"),
  (1, "panic(ex)"),
  (0, "vm.callStack = append(vm.callStack, context{})"),
  (0, "ctx := &vm.callStack[len(vm.callStack)-1]"),
  (0, "vm.saveCtx(ctx)")]

/-- model: `restoreCtx` -/
def restoreCtx : List (Nat × String) := [
  (0, "vm.prg, vm.stash, vm.privEnv, vm.newTarget, vm.result, vm.pc, vm.sb, vm.args = ctx.prg, ctx.stash, ctx.privEnv, ctx.newTarget, ctx.result, ctx.pc, ctx.sb, ctx.args")]

/-- model: `popCtx` -/
def popCtx : List (Nat × String) := [
  (0, "l := len(vm.callStack) - 1"),
  (0, "ctx := &vm.callStack[l]"),
  (0, "vm.restoreCtx(ctx)"),
  (0, "if ctx.prg != nil"),
  (0, "vm.callStack = vm.callStack[:l]")]

/-- model: `pushTryFrame` -/
def pushTryFrame : List (Nat × String) := [
  (0, "vm.tryStack = append(vm.tryStack, tryFrame{ callStackLen: uint32(len(vm.callStack)), iterLen: uint32(len(vm.iterStack)), refLen: uint32(len(vm.refStack)), sp: int32(vm.sp), stash: vm.stash, privEnv: vm.privEnv, catchPos: catchPos, finallyPos: finallyPos, finallyRet: -1, })")]

/-- model: `popTryFrame` -/
def popTryFrame : List (Nat × String) := [
  (0, "vm.tryStack = vm.tryStack[:len(vm.tryStack)-1]")]

/-- model: `restoreStacks … true` -/
def restoreStacks : List (Nat × String) := [
  (0, "return vm._restoreStacks(iterLen, refLen, true)")]

/-- model: `restoreStacks / closeIters (deferred truncation, close only if closeIters)` -/
def restoreStacks' : List (Nat × String) := [
  (0, "defer func()"),
  (1, "if int(iterLen) < len(vm.iterStack)"),
  (2, "tail := vm.iterStack[iterLen:]"),
  (2, "range tail key i"),
  (3, "tail[i] = iterStackItem{}"),
  (2, "vm.iterStack = vm.iterStack[:iterLen]"),
  (1, "if int(refLen) < len(vm.refStack)"),
  (2, "tail := vm.refStack[refLen:]"),
  (2, "range tail key i"),
  (2, "vm.refStack = vm.refStack[:refLen]"),
  (0, "iterTail := vm.iterStack[iterLen:]"),
  (0, "for init i := len(iterTail) - 1; i >= 0; post i--"),
  (1, "init iter := iterTail[i].iter"),
  (1, "if iter != nil && closeIters"),
  (2, "ex1 := vm.try(func)"),
  (3, "iter.returnIter()"),
  (2, "if ex1 != nil && ex == nil"),
  (1, "iterTail[i] = iterStackItem{}"),
  (0, "vm.iterStack = vm.iterStack[:iterLen]"),
  (0, "refTail := vm.refStack[refLen:]"),
  (0, "range refTail key i"),
  (0, "vm.refStack = vm.refStack[:refLen]"),
  (0, "return")]

/-- model: `handleThrowLoop / restoreFrame / handleThrow; the deferred recover = an aborted handleThrow is followed by the uncatchable unwinding at the same boundary (unwindAtMarker on `fatal`)` -/
def handleThrow : List (Nat × String) := [
  (0, "ex := vm.exceptionFromValue(arg)"),
  (0, "if ex != nil"),
  (1, "defer func()"),
  (2, "init x := recover()"),
  (2, "if x != nil"),
  (3, "ret = vm.handleThrow(x)"),
  (0, "for len(vm.tryStack) > 0"),
  (1, "tf := &vm.tryStack[len(vm.tryStack)-1]"),
  (1, "if tf.catchPos == -1 && tf.finallyPos == -1 || ex == nil && tf.catchPos != tryPanicMarker"),
  (2, "tf.exception = nil"),
  (2, "vm.popTryFrame()"),
  (2, "continue"),
  (1, "if int(tf.callStackLen) < len(vm.callStack)"),
  (2, "ctx := &vm.callStack[tf.callStackLen]"),
  (2, "vm.prg, vm.newTarget, vm.result, vm.pc, vm.sb, vm.args = ctx.prg, ctx.newTarget, ctx.result, ctx.pc, ctx.sb, ctx.args"),
  (2, "vm.callStack = vm.callStack[:tf.callStackLen]"),
  (1, "vm.sp = int(tf.sp)"),
  (1, "vm.stash = tf.stash"),
  (1, "vm.privEnv = tf.privEnv"),
  (1, "_ = vm._restoreStacks(tf.iterLen, tf.refLen, ex != nil)"),
  (1, "tf = &vm.tryStack[len(vm.tryStack)-1]"),
  (1, "if tf.catchPos == tryPanicMarker"),
  (2, "break"),
  (1, "if tf.catchPos >= 0"),
  (2, "vm.push(ex.val)"),
  (2, "vm.pc = int(tf.catchPos)"),
  (2, "tf.catchPos = -1"),
  (2, "return nil"),
  (1, "if tf.finallyPos >= 0"),
  (2, "tf.exception = ex"),
  (2, "vm.pc = int(tf.finallyPos)"),
  (2, "tf.finallyPos = -1"),
  (2, "tf.finallyRet = -1"),
  (2, "return nil"),
  (0, "if ex == nil"),
  (1, "panic(arg)"),
  (0, "return ex")]

/-- model: ``thrown` outcome (in-loop handleThrow)` -/
def throw : List (Nat × String) := [
  (0, "init ex := vm.handleThrow(v)"),
  (0, "if ex != nil"),
  (1, "panic(ex)")]

/-- model: `tryB / unwindAtMarker` -/
def vmTry : List (Nat × String) := [
  (0, "vm.pushTryFrame(tryPanicMarker, -1)"),
  (0, "defer vm.popTryFrame()"),
  (0, "defer func()"),
  (1, "init x := recover()"),
  (1, "if x != nil"),
  (2, "ex = vm.handleThrow(x)"),
  (0, "f()"),
  (0, "return")]

/-- model: `runTryB` -/
def runTry : List (Nat × String) := [
  (0, "vm.pushTryFrame(tryPanicMarker, -1)"),
  (0, "defer vm.popTryFrame()"),
  (0, "for"),
  (1, "ex = vm.runTryInner()"),
  (1, "if ex != nil || vm.halted()"),
  (2, "return")]

/-- model: `unwindAtMarker` -/
def runTryInner : List (Nat × String) := [
  (0, "defer func()"),
  (1, "init x := recover()"),
  (1, "if x != nil"),
  (2, "ex = vm.handleThrow(x)"),
  (0, "vm.run()"),
  (0, "return")]

/-- model: `tryStmt (pushTryFrame catchPos finallyPos)` -/
def tryExec : List (Nat × String) := [
  (0, "var catchPos, finallyPos int32"),
  (0, "if t.catchOffset > 0"),
  (1, "catchPos = int32(vm.pc) + t.catchOffset"),
  (0, "else"),
  (1, "catchPos = -1"),
  (0, "if t.finallyOffset > 0"),
  (1, "finallyPos = int32(vm.pc) + t.finallyOffset"),
  (0, "else"),
  (1, "finallyPos = -1"),
  (0, "vm.pushTryFrame(catchPos, finallyPos)"),
  (0, "vm.pc++")]

/-- model: `leaveTry / exitThrough` -/
def leaveTryExec : List (Nat × String) := [
  (0, "tf := &vm.tryStack[len(vm.tryStack)-1]"),
  (0, "if tf.finallyPos >= 0"),
  (1, "tf.finallyRet = int32(vm.pc + 1)"),
  (1, "vm.pc = int(tf.finallyPos)"),
  (1, "tf.finallyPos = -1"),
  (1, "tf.catchPos = -1"),
  (1, "vm.sp, vm.stash = int(tf.sp), tf.stash"),
  (0, "else"),
  (1, "vm.popTryFrame()"),
  (1, "vm.pc++")]

/-- model: `leaveTry (finally branch: both positions cleared)` -/
def enterFinallyExec : List (Nat × String) := [
  (0, "tf := &vm.tryStack[len(vm.tryStack)-1]"),
  (0, "tf.finallyPos = -1"),
  (0, "tf.catchPos = -1"),
  (0, "vm.pc++")]

/-- model: `finPhase` -/
def leaveFinallyExec : List (Nat × String) := [
  (0, "tf := &vm.tryStack[len(vm.tryStack)-1]"),
  (0, "ex, ret, res := tf.exception, tf.finallyRet, tf.result"),
  (0, "tf.exception = nil"),
  (0, "vm.popTryFrame()"),
  (0, "if ex != nil"),
  (1, "vm.throw(ex)"),
  (1, "return"),
  (0, "else"),
  (1, "if ret != -1"),
  (2, "if ret >= 0"),
  (2, "vm.pc = int(ret)"),
  (1, "else"),
  (2, "vm.pc++")]

/-- model: `FrameKind.post (.call) / goCallRet / genFinish` -/
def retExec : List (Nat × String) := [
  (0, "vm.stack[vm.sb-1] = vm.stack[vm.sp-1]"),
  (0, "vm.sp = vm.sb"),
  (0, "vm.popCtx()"),
  (0, "vm.pc++")]

/-- model: `frameExit (.forOf)` -/
def enumPopCloseExec : List (Nat × String) := [
  (0, "l := len(vm.iterStack) - 1"),
  (0, "item := vm.iterStack[l]"),
  (0, "vm.iterStack[l] = iterStackItem{}"),
  (0, "vm.iterStack = vm.iterStack[:l]"),
  (0, "init iter := item.iter"),
  (0, "if iter != nil"),
  (1, "iter.returnIter()"),
  (0, "vm.pc++")]

/-- model: `FrameKind.post (.forOf)` -/
def enumPopExec : List (Nat × String) := [
  (0, "l := len(vm.iterStack) - 1"),
  (0, "vm.iterStack[l] = iterStackItem{}"),
  (0, "vm.iterStack = vm.iterStack[:l]"),
  (0, "vm.pc++")]

/-- model: `goCallEnter / goCall / goCallRet` -/
def jsCall : List (Nat × String) := [
  (0, "vm.stack.expand(vm.sp + len(args) + 1)"),
  (0, "vm.stack[vm.sp] = f.val"),
  (0, "vm.sp++"),
  (0, "vm.stack[vm.sp] = this"),
  (0, "vm.sp++"),
  (0, "range args key _ value arg"),
  (1, "if arg != nil"),
  (2, "vm.stack[vm.sp] = arg"),
  (1, "else"),
  (2, "vm.stack[vm.sp] = _undefined"),
  (1, "vm.sp++"),
  (0, "vm.pushTryFrame(tryPanicMarker, -1)"),
  (0, "defer vm.popTryFrame()"),
  (0, "var needPop bool"),
  (0, "if vm.prg != nil"),
  (1, "vm.pushCtx()"),
  (1, "vm.callStack = append(vm.callStack, context{pc: -2})"),
  (1, "needPop = true"),
  (0, "else"),
  (1, "vm.pc = -2"),
  (1, "vm.pushCtx()"),
  (0, "vm.args = len(args)"),
  (0, "vm.prg = f.prg"),
  (0, "vm.stash = f.stash"),
  (0, "vm.privEnv = f.privEnv"),
  (0, "vm.newTarget = newTarget"),
  (0, "vm.pc = 0"),
  (0, "for"),
  (1, "ex := vm.runTryInner()"),
  (1, "if ex != nil"),
  (2, "return nil, ex"),
  (1, "if vm.halted()"),
  (2, "break"),
  (0, "if needPop"),
  (1, "vm.popCtx()"),
  (0, "return vm.pop(), nil")]

/-- model: `FrameKind.pre (.call)` -/
def jsVmCall : List (Nat × String) := [
  (0, "vm.pushCtx()"),
  (0, "vm.args = n"),
  (0, "vm.prg = f.prg"),
  (0, "vm.stash = f.stash"),
  (0, "vm.privEnv = f.privEnv"),
  (0, "vm.pc = 0"),
  (0, "vm.stack[vm.sp-n-1], vm.stack[vm.sp-n-2] = vm.stack[vm.sp-n-2], vm.stack[vm.sp-n-1]")]

/-- model: `FrameKind.pre/post (.native)` -/
def nativeVmCall : List (Nat × String) := [
  (0, "if f.f != nil"),
  (1, "vm.pushCtx()"),
  (1, "vm.prg = nil"),
  (1, "vm.sb = vm.sp - n"),
  (1, "ret := f.f(FunctionCall{ Arguments: vm.stack[vm.sp-n : vm.sp], This: vm.stack[vm.sp-n-2], })"),
  (1, "if ret == nil"),
  (1, "vm.stack[vm.sp-n-2] = ret"),
  (1, "vm.popCtx()"),
  (0, "else"),
  (1, "vm.stack[vm.sp-n-2] = _undefined"),
  (0, "vm.sp -= n + 1"),
  (0, "vm.pc++")]

/-- model: `runProgramRec / runProgramOuter / recEnter / recExit / outerEnter / outerPop` -/
def runProgram : List (Nat × String) := [
  (0, "recursive := len(vm.callStack) > 0"),
  (0, "pushed := false"),
  (0, "defer func()"),
  (1, "if recursive"),
  (2, "if pushed"),
  (3, "vm.sp -= 2"),
  (3, "vm.popCtx()"),
  (1, "else"),
  (2, "vm.callStack = vm.callStack[:len(vm.callStack)-1]"),
  (1, "init x := recover()"),
  (1, "if x != nil"),
  (2, "init ex := asUncatchableException(x)"),
  (2, "if ex != nil"),
  (3, "if len(vm.callStack) == 0"),
  (4, "r.leaveAbrupt()"),
  (2, "else"),
  (3, "panic(x)"),
  (0, "if recursive"),
  (1, "vm.pushCtx()"),
  (1, "pushed = true"),
  (1, "vm.stash = &r.global.stash"),
  (1, "vm.privEnv = nil"),
  (1, "vm.newTarget = nil"),
  (1, "vm.args = 0"),
  (1, "sp := vm.sp"),
  (1, "vm.stack.expand(sp + 1)"),
  (1, "vm.sb = sp + 1"),
  (1, "vm.sp = sp + 2"),
  (0, "else"),
  (1, "vm.callStack = append(vm.callStack, context{})"),
  (0, "vm.prg = p"),
  (0, "vm.pc = 0"),
  (0, "ex := vm.runTry()"),
  (0, "if ex == nil"),
  (0, "else"),
  (0, "if recursive"),
  (1, "vm.clearStack()"),
  (0, "else"),
  (1, "vm.prg = nil"),
  (1, "vm.sb = -1"),
  (1, "r.leave()"),
  (0, "return")]

/-- model: `runWrapped / leaveOrClear` -/
def runWrapped : List (Nat × String) := [
  (0, "defer func()"),
  (1, "init x := recover()"),
  (1, "if x != nil"),
  (2, "init ex := asUncatchableException(x)"),
  (2, "if ex != nil"),
  (3, "if len(r.vm.callStack) == 0"),
  (4, "r.leaveAbrupt()"),
  (2, "else"),
  (3, "panic(x)"),
  (0, "ex := r.vm.try(f)"),
  (0, "if ex != nil"),
  (0, "if len(r.vm.callStack) == 0"),
  (1, "r.leave()"),
  (0, "else"),
  (1, "r.vm.clearStack()"),
  (0, "return")]

/-- model: `runtimeTry` -/
def runtimeTry : List (Nat × String) := [
  (0, "defer func()"),
  (1, "init x := recover()"),
  (1, "if x != nil"),
  (2, "if len(r.vm.callStack) == 0 && asUncatchableException(x) != nil"),
  (3, "r.leaveAbrupt()"),
  (2, "panic(x)"),
  (0, "return r.vm.try(f)")]

/-- model: `leaveLoop / runJobs` -/
def leave : List (Nat × String) := [
  (0, "for len(r.jobQueue) > 0"),
  (1, "jobs, r.jobQueue = r.jobQueue, jobs[:0]"),
  (1, "range jobs key _ value job"),
  (2, "job()"),
  (0, "r.jobQueue = nil")]

/-- model: `leaveAbrupt` -/
def leaveAbrupt : List (Nat × String) := [
  (0, "r.jobQueue = nil"),
  (0, "r.ClearInterrupt()"),
  (0, "r.vm.prg = nil"),
  (0, "r.vm.sb = -1")]

/-- model: `API kind ER (= tryGet path)` -/
def valueString : List (Nat × String) := [
  (0, "if !ok"),
  (1, "return e.val.String()"),
  (0, "defer func()"),
  (1, "init x := recover()"),
  (1, "if x != nil"),
  (2, "init r := obj.runtime"),
  (2, "if len(r.vm.callStack) == 0 && asUncatchableException(x) != nil"),
  (3, "r.leaveAbrupt()"),
  (0, "init ex := obj.runtime.vm.try(func)"),
  (0, "if ex != nil"),
  (0, "return")]

/-- model: `genNew` -/
def genEnter : List (Nat × String) := [
  (0, "g.vm.pushCtx()"),
  (0, "g.vm.pushTryFrame(tryPanicMarker, -1)"),
  (0, "g.vm.prg, g.vm.sb, g.vm.pc = nil, -1, -2"),
  (0, "g.storeLengths()")]

/-- model: `genEnterNext` -/
def genEnterNext : List (Nat × String) := [
  (0, "g.vm.pushCtx()"),
  (0, "g.vm.pushTryFrame(tryPanicMarker, -1)"),
  (0, "g.vm.callStack = append(g.vm.callStack, context{pc: -2})"),
  (0, "g.storeLengths()"),
  (0, "g.vm.resume(&g.ctx)")]

/-- model: `genEnterNext (lengths = the marker's position)` -/
def genStoreLengths : List (Nat × String) := [
  (0, "g.tryStackLen, g.iterStackLen, g.refStackLen = uint32(len(g.vm.tryStack)), uint32(len(g.vm.iterStack)), uint32(len(g.vm.refStack))")]

/-- model: `genNext (uncatchable: marker dropped by the deferred function = unwindAtMarker's pop)` -/
def genStep : List (Nat × String) := [
  (0, "completed := false"),
  (0, "defer func()"),
  (1, "if !completed"),
  (2, "init l := int(g.tryStackLen) - 1"),
  (2, "if l >= 0 && l < len(g.vm.tryStack)"),
  (3, "g.vm.tryStack = g.vm.tryStack[:l]"),
  (0, "res, resultType, ex = g.step1()"),
  (0, "completed = true"),
  (0, "return")]

/-- model: `genNext / genLeave / genFinish (the `returning` branch is outside the model)` -/
def genStep1 : List (Nat × String) := [
  (0, "if g.returning == nil"),
  (1, "for"),
  (2, "ex = vm.runTryInner()"),
  (2, "if ex != nil"),
  (3, "return"),
  (2, "if vm.halted()"),
  (3, "break"),
  (1, "res = vm.pop()"),
  (0, "else"),
  (1, "for"),
  (2, "ex = vm.runTryInner()"),
  (2, "if ex != nil"),
  (3, "return"),
  (2, "if !vm.halted()"),
  (3, "continue"),
  (2, "if vm.prg != nil && vm.pc == -2"),
  (3, "init canContinue, ex1 := g.enterNextFinallyFrame()"),
  (3, "if ex1 != nil"),
  (4, "return"),
  (3, "else"),
  (4, "if canContinue"),
  (5, "continue"),
  (3, "res, g.returning = g.returning, nil"),
  (3, "ex = vm.restoreStacks(g.iterStackLen, g.refStackLen)"),
  (3, "vm.sp = vm.sb - 1"),
  (3, "vm.callStack = vm.callStack[:len(vm.callStack)-1]"),
  (3, "if ex != nil"),
  (3, "return"),
  (2, "res = vm.pop()"),
  (2, "if vm.prg == nil"),
  (3, "return"),
  (2, "break"),
  (0, "init ym, ok := res.(*yieldMarker)"),
  (0, "if ok"),
  (1, "g.ctx = execCtx{}"),
  (1, "vm.pc = -vm.pc + 1"),
  (1, "if res != yieldEmpty"),
  (2, "res = vm.pop()"),
  (1, "else"),
  (1, "vm.suspend(&g.ctx, g.tryStackLen, g.iterStackLen, g.refStackLen)"),
  (1, "vm.sp = vm.sb - 1"),
  (1, "vm.callStack = vm.callStack[:len(vm.callStack)-1]"),
  (0, "return")]

/-- model: `genNext / genLeave / genFinish` -/
def genNext : List (Nat × String) := [
  (0, "g.enterNext()"),
  (0, "if v != nil"),
  (1, "g.vm.push(v)"),
  (0, "res, done, ex := g.step()"),
  (0, "g.vm.popTryFrame()"),
  (0, "g.vm.popCtx()"),
  (0, "return res, done, ex")]

/-- model: `genThrow` -/
def genNextThrow : List (Nat × String) := [
  (0, "g.enterNext()"),
  (0, "ex := g.vm.handleThrow(v)"),
  (0, "if ex != nil"),
  (1, "g.vm.popTryFrame()"),
  (1, "g.vm.popCtx()"),
  (1, "return nil, resultNormal, ex"),
  (0, "res, resType, ex := g.step()"),
  (0, "g.vm.popTryFrame()"),
  (0, "g.vm.popCtx()"),
  (0, "return res, resType, ex")]

/-- model: `genNew (second pushCtx overflow)` -/
def genDropMarkerOnPanic : List (Nat × String) := [
  (0, "if !*entered"),
  (1, "init l := int(g.tryStackLen) - 1"),
  (1, "if l >= 0 && l < len(g.vm.tryStack)"),
  (2, "g.vm.tryStack = g.vm.tryStack[:l]")]

/-- model: `genLeave (no live records at a top-level yield)` -/
def vmSuspend : List (Nat × String) := [
  (0, "vm.saveCtx(&ectx.context)"),
  (0, "ectx.stack = append(ectx.stack[:0], vm.stack[vm.sb-1 : vm.sp])"),
  (0, "if len(vm.tryStack) > int(tryStackLen)"),
  (1, "ectx.tryStack = append(ectx.tryStack[:0], vm.tryStack[tryStackLen:])"),
  (1, "vm.tryStack = vm.tryStack[:tryStackLen]"),
  (1, "sp := int32(vm.sb - 1)"),
  (1, "range ectx.tryStack key i"),
  (2, "tf := &ectx.tryStack[i]"),
  (2, "tf.iterLen -= iterStackLen"),
  (2, "tf.refLen -= refStackLen"),
  (2, "tf.sp -= sp"),
  (0, "if len(vm.iterStack) > int(iterStackLen)"),
  (1, "ectx.iterStack = append(ectx.iterStack[:0], vm.iterStack[iterStackLen:])"),
  (1, "vm.iterStack = vm.iterStack[:iterStackLen]"),
  (0, "if len(vm.refStack) > int(refStackLen)"),
  (1, "ectx.refStack = append(ectx.refStack[:0], vm.refStack[refStackLen:])"),
  (1, "vm.refStack = vm.refStack[:refStackLen]")]

/-- model: `genEnterNext` -/
def vmResume : List (Nat × String) := [
  (0, "vm.restoreCtx(&ctx.context)"),
  (0, "sp := vm.sp"),
  (0, "vm.sb = sp + 1"),
  (0, "vm.stack.expand(sp + len(ctx.stack))"),
  (0, "copy(vm.stack[sp:], ctx.stack)"),
  (0, "vm.sp += len(ctx.stack)"),
  (0, "range ctx.tryStack key i"),
  (1, "tf := &ctx.tryStack[i]"),
  (1, "tf.callStackLen = uint32(len(vm.callStack))"),
  (1, "tf.iterLen += uint32(len(vm.iterStack))"),
  (1, "tf.refLen += uint32(len(vm.refStack))"),
  (1, "tf.sp += int32(sp)"),
  (0, "vm.tryStack = append(vm.tryStack, ctx.tryStack)"),
  (0, "vm.iterStack = append(vm.iterStack, ctx.iterStack)"),
  (0, "vm.refStack = append(vm.refStack, ctx.refStack)")]

/-- model: `genNew` -/
def genObjInit : List (Nat × String) := [
  (0, "g.gen.enter()"),
  (0, "entered := false"),
  (0, "defer g.gen.dropMarkerOnPanic(&entered)"),
  (0, "vmCall(vm, nArgs)"),
  (0, "_, _, ex := g.gen.step()"),
  (0, "entered = true"),
  (0, "vm.popTryFrame()"),
  (0, "if ex != nil"),
  (1, "panic(ex)"),
  (0, "g.state = genStateSuspendedStart"),
  (0, "vm.popCtx()")]

/-- model: `genNext (state machine)` -/
def genObjNext : List (Nat × String) := [
  (0, "g.validate()"),
  (0, "if g.state == genStateCompleted"),
  (1, "return g.val.runtime.createIterResultObject(_undefined, true)"),
  (0, "if g.delegated != nil"),
  (2, "return g.callDelegated(g.delegated.next, v)"),
  (1, "if !done"),
  (2, "return res"),
  (1, "else"),
  (0, "if g.state != genStateSuspendedYieldRes"),
  (0, "g.state = genStateExecuting"),
  (0, "return g.step(g.gen.next(v))")]

/-- model: `genThrow` -/
def genObjThrow : List (Nat × String) := [
  (0, "g.validate()"),
  (0, "if g.state == genStateSuspendedStart"),
  (1, "g.state = genStateCompleted"),
  (0, "if g.state == genStateCompleted"),
  (1, "panic(v)"),
  (0, "init d := g.delegated"),
  (0, "if d != nil"),
  (2, "if method != nil"),
  (3, "return g.callDelegated(method, v)"),
  (2, "d.returnIter()"),
  (2, "panic(g.val.runtime.NewTypeError(\"The iterator does not provide a 'throw' method\"))"),
  (1, "if !done"),
  (2, "return res"),
  (1, "if g.state != genStateSuspendedYieldRes"),
  (1, "g.state = genStateExecuting"),
  (1, "return g.step(g.gen.next(res))"),
  (0, "g.state = genStateExecuting"),
  (0, "return g.step(g.gen.nextThrow(v))")]

/-- model: `genReturn` -/
def genObjReturn : List (Nat × String) := [
  (0, "g.validate()"),
  (0, "if g.state == genStateSuspendedStart"),
  (1, "g.state = genStateCompleted"),
  (0, "if g.state == genStateCompleted"),
  (1, "return g.val.runtime.createIterResultObject(v, true)"),
  (0, "init d := g.delegated"),
  (0, "if d != nil"),
  (2, "if method != nil"),
  (3, "return g.callDelegated(method, v)"),
  (2, "return v, true"),
  (1, "if !done"),
  (2, "return res"),
  (1, "else"),
  (0, "g.gen.returning = v"),
  (0, "g.state = genStateExecuting"),
  (0, "g.gen.enterNext()"),
  (0, "canContinue, uncaught := g.gen.enterNextFinallyFrame()"),
  (0, "if uncaught != nil"),
  (1, "g.gen.returning = nil"),
  (1, "vm.popTryFrame()"),
  (1, "vm.popCtx()"),
  (1, "return g.step(nil, resultNormal, uncaught)"),
  (0, "if !canContinue"),
  (1, "g.state = genStateCompleted"),
  (1, "g.gen.returning = nil"),
  (1, "vm.popTryFrame()"),
  (1, "ex := vm.restoreStacks(g.gen.iterStackLen, g.gen.refStackLen)"),
  (1, "vm.callStack = vm.callStack[:len(vm.callStack)-1]"),
  (1, "vm.sp = vm.sb - 1"),
  (1, "vm.popCtx()"),
  (1, "if ex != nil"),
  (2, "panic(ex)"),
  (1, "return g.val.runtime.createIterResultObject(v, true)"),
  (0, "res, done, ex := g.gen.step()"),
  (0, "vm.popTryFrame()"),
  (0, "vm.popCtx()"),
  (0, "return g.step(res, done, ex)")]

/-- model: `asyncResumeCA (Vm.curAsync set; the deferred clear) around asyncResume` -/
def asyncOnFulfilled : List (Nat × String) := [
  (0, "ar.gen.vm.curAsyncRunner = ar"),
  (0, "defer func()"),
  (1, "ar.gen.vm.curAsyncRunner = nil"),
  (0, "res, resType, ex := ar.gen.next(arg)"),
  (0, "ar.step(res, resType == resultNormal, ex)"),
  (0, "return _undefined")]

/-- model: `asyncResumeCA around asyncResume whose resume point is followed by throw_ (await of a rejected promise)` -/
def asyncOnRejected : List (Nat × String) := [
  (0, "ar.gen.vm.curAsyncRunner = ar"),
  (0, "defer func()"),
  (1, "ar.gen.vm.curAsyncRunner = nil"),
  (0, "res, resType, ex := ar.gen.nextThrow(reason)"),
  (0, "ar.step(res, resType == resultNormal, ex)"),
  (0, "return _undefined")]

/-- model: `asyncNew / actEnter / actCall / actBack (`entered = true` after ar.step since 917efcc: dropMarkerOnPanic also covers user code reached from ar.step; the model's awaits run no user code in ar.step)` -/
def asyncStart : List (Nat × String) := [
  (0, "sp := r.vm.sp"),
  (0, "ar.gen.enter()"),
  (0, "entered := false"),
  (0, "defer ar.gen.dropMarkerOnPanic(&entered)"),
  (0, "ar.vmCall(r.vm, nArgs)"),
  (0, "res, resType, ex := ar.gen.step()"),
  (0, "ar.step(res, resType == resultNormal, ex)"),
  (0, "entered = true"),
  (0, "if ex != nil"),
  (1, "r.vm.sp = sp - nArgs - 2"),
  (0, "r.vm.popTryFrame()"),
  (0, "r.vm.popCtx()")]

/-- model: `asyncNew / asyncResume (await = queue the continuation; done / ex = settle the promise)` -/
def asyncStep : List (Nat × String) := [
  (0, "if done || ex != nil"),
  (1, "if ex == nil"),
  (2, "ar.promiseCap.resolve(res)"),
  (1, "else"),
  (2, "ar.promiseCap.reject(ex.val)"),
  (1, "return"),
  (0, "promise.self.(*Promise).addReactions(&promiseReaction{ typ: promiseReactionFulfill, handler: &jobCallback{callback: ar.onFulfilled}, asyncRunner: ar, }, &promiseReaction{ typ: promiseReactionReject, handler: &jobCallback{callback: ar.onRejected}, asyncRunner: ar, })")]

end GojaModel.C03.Expected

namespace GojaModel.C03.Tie
open GojaModel

theorem saveCtx_tie : Generated.C03.saveCtx = C03.Expected.saveCtx := rfl

theorem pushCtx_tie : Generated.C03.pushCtx = C03.Expected.pushCtx := rfl

theorem restoreCtx_tie : Generated.C03.restoreCtx = C03.Expected.restoreCtx := rfl

theorem popCtx_tie : Generated.C03.popCtx = C03.Expected.popCtx := rfl

theorem pushTryFrame_tie : Generated.C03.pushTryFrame = C03.Expected.pushTryFrame := rfl

theorem popTryFrame_tie : Generated.C03.popTryFrame = C03.Expected.popTryFrame := rfl

theorem restoreStacks_tie : Generated.C03.restoreStacks = C03.Expected.restoreStacks := rfl

theorem restoreStacks__tie : Generated.C03.restoreStacks' = C03.Expected.restoreStacks' := rfl

theorem handleThrow_tie : Generated.C03.handleThrow = C03.Expected.handleThrow := rfl

theorem throw_tie : Generated.C03.throw = C03.Expected.throw := rfl

theorem vmTry_tie : Generated.C03.vmTry = C03.Expected.vmTry := rfl

theorem runTry_tie : Generated.C03.runTry = C03.Expected.runTry := rfl

theorem runTryInner_tie : Generated.C03.runTryInner = C03.Expected.runTryInner := rfl

theorem tryExec_tie : Generated.C03.tryExec = C03.Expected.tryExec := rfl

theorem leaveTryExec_tie : Generated.C03.leaveTryExec = C03.Expected.leaveTryExec := rfl

theorem enterFinallyExec_tie : Generated.C03.enterFinallyExec = C03.Expected.enterFinallyExec := rfl

theorem leaveFinallyExec_tie : Generated.C03.leaveFinallyExec = C03.Expected.leaveFinallyExec := rfl

theorem retExec_tie : Generated.C03.retExec = C03.Expected.retExec := rfl

theorem enumPopCloseExec_tie : Generated.C03.enumPopCloseExec = C03.Expected.enumPopCloseExec := rfl

theorem enumPopExec_tie : Generated.C03.enumPopExec = C03.Expected.enumPopExec := rfl

theorem jsCall_tie : Generated.C03.jsCall = C03.Expected.jsCall := rfl

theorem jsVmCall_tie : Generated.C03.jsVmCall = C03.Expected.jsVmCall := rfl

theorem nativeVmCall_tie : Generated.C03.nativeVmCall = C03.Expected.nativeVmCall := rfl

theorem runProgram_tie : Generated.C03.runProgram = C03.Expected.runProgram := rfl

theorem runWrapped_tie : Generated.C03.runWrapped = C03.Expected.runWrapped := rfl

theorem runtimeTry_tie : Generated.C03.runtimeTry = C03.Expected.runtimeTry := rfl

theorem leave_tie : Generated.C03.leave = C03.Expected.leave := rfl

theorem leaveAbrupt_tie : Generated.C03.leaveAbrupt = C03.Expected.leaveAbrupt := rfl

theorem valueString_tie : Generated.C03.valueString = C03.Expected.valueString := rfl

theorem genEnter_tie : Generated.C03.genEnter = C03.Expected.genEnter := rfl

theorem genEnterNext_tie : Generated.C03.genEnterNext = C03.Expected.genEnterNext := rfl

theorem genStoreLengths_tie : Generated.C03.genStoreLengths = C03.Expected.genStoreLengths := rfl

theorem genStep_tie : Generated.C03.genStep = C03.Expected.genStep := rfl

theorem genStep1_tie : Generated.C03.genStep1 = C03.Expected.genStep1 := rfl

theorem genNext_tie : Generated.C03.genNext = C03.Expected.genNext := rfl

theorem genNextThrow_tie : Generated.C03.genNextThrow = C03.Expected.genNextThrow := rfl

theorem genDropMarkerOnPanic_tie : Generated.C03.genDropMarkerOnPanic = C03.Expected.genDropMarkerOnPanic := rfl

theorem vmSuspend_tie : Generated.C03.vmSuspend = C03.Expected.vmSuspend := rfl

theorem vmResume_tie : Generated.C03.vmResume = C03.Expected.vmResume := rfl

theorem genObjInit_tie : Generated.C03.genObjInit = C03.Expected.genObjInit := rfl

theorem genObjNext_tie : Generated.C03.genObjNext = C03.Expected.genObjNext := rfl

theorem genObjThrow_tie : Generated.C03.genObjThrow = C03.Expected.genObjThrow := rfl

theorem genObjReturn_tie : Generated.C03.genObjReturn = C03.Expected.genObjReturn := rfl

theorem asyncOnFulfilled_tie : Generated.C03.asyncOnFulfilled = C03.Expected.asyncOnFulfilled := rfl

theorem asyncOnRejected_tie : Generated.C03.asyncOnRejected = C03.Expected.asyncOnRejected := rfl

theorem asyncStart_tie : Generated.C03.asyncStart = C03.Expected.asyncStart := rfl

theorem asyncStep_tie : Generated.C03.asyncStep = C03.Expected.asyncStep := rfl

end GojaModel.C03.Tie
