/-
  C03 — property theorems.  Every `theorem` here is one audited proof obligation.
  The model (`Model.lean`) transcribes /repo after the re-sync fix commits; all statements are full strength
  and hold for every fuel, every inner behaviour (unbounded nesting) and every ending.
-/
import GojaModel.C03.Lemmas6
import GojaModel.C03.AsyncField

namespace GojaModel.C03

/-! ## handleThrow -/

/-- `handleThrow_restores`, the register part (vm.go handleThrow): at the frame where handleThrow stops,
`sp`, `stash`, `privEnv` equal the snapshot; if the call stack grew since the snapshot
(`callStackLen < |callStack|`) it is cut back to the snapshot length and `prg, pc, sb, args, newTarget,
result` come from the saved context at that index; otherwise registers and call stack are untouched. -/
theorem handleThrow_restores_frame (tf : TryFrame) (s : Vm) :
    (restoreFrame tf s).sp = tf.sp ∧ (restoreFrame tf s).stash = tf.stash ∧
    (restoreFrame tf s).privEnv = tf.privEnv ∧
    (∀ ctx, s.callStack[tf.callStackLen]? = some ctx →
        (restoreFrame tf s).callStack.length = tf.callStackLen ∧
        (restoreFrame tf s).prg = ctx.prg ∧ (restoreFrame tf s).pc = ctx.pc ∧
        (restoreFrame tf s).sb = ctx.sb ∧ (restoreFrame tf s).args = ctx.args ∧
        (restoreFrame tf s).newTarget = ctx.newTarget ∧ (restoreFrame tf s).result = ctx.result) ∧
    (s.callStack.length ≤ tf.callStackLen →
        (restoreFrame tf s).callStack = s.callStack ∧ (restoreFrame tf s).prg = s.prg ∧
        (restoreFrame tf s).sb = s.sb) := by
  refine ⟨by simp [restoreFrame], by simp [restoreFrame], by simp [restoreFrame], ?_, ?_⟩
  · intro ctx h
    have hlt : tf.callStackLen < s.callStack.length := by
      have := List.getElem?_eq_some_iff.mp h
      exact this.1
    simp [restoreFrame, h, List.length_take, Nat.min_eq_left (Nat.le_of_lt hlt)]
  · intro h
    have : s.callStack[tf.callStackLen]? = none := by simp [h]
    simp [restoreFrame, this]

/-- `handleThrow_restores`, complete (for the real interpreter `run fuel`, any fuel): whatever number of
skippable frames lie above it, handleThrow lands on the innermost live frame `tf` (snapshot of `s0`) and
`prg sb args newTarget`, `stash`, `privEnv`, the whole call stack, the iterator and reference stacks equal
the snapshot — the last two even when an iterator's `return()` aborted the unwinding; `sp` is the snapshot
(+1 for the pushed exception value when caught); the loop never falls through (`≠ empty`) and the try
stack is cut to the landing frame. -/
theorem handleThrow_restores (fuel : Nat) (catchable : Bool)
    (s0 : Vm) (hI : Inv s0) (tf : TryFrame) (base e : List TryFrame) (s1 : Vm) (hF : FrameOf s0 tf)
    (hlive : skipped catchable tf = false)
    (hwf : tf.catchPos = tryPanicMarker ∨ tf.catchPos ≥ 0 ∨ tf.finallyPos ≥ 0)
    (hts : s1.tryStack = e ++ tf :: base) (hsk : ∀ f ∈ e, skipped catchable f = true)
    (hcs : ∃ ec, s1.callStack = s0.callStack ++ ec ∧ levelRegs ec s1 = s0.regs)
    (his : ∃ ei, s1.iterStack = s0.iterStack ++ ei) (hrs : ∃ er, s1.refStack = s0.refStack ++ er) :
    (handleThrow (run fuel) catchable s1).2.regs = s0.regs ∧
    (handleThrow (run fuel) catchable s1).2.stash = s0.stash ∧
    (handleThrow (run fuel) catchable s1).2.privEnv = s0.privEnv ∧
    (handleThrow (run fuel) catchable s1).2.callStack = s0.callStack ∧
    (handleThrow (run fuel) catchable s1).2.iterStack = s0.iterStack ∧
    (handleThrow (run fuel) catchable s1).2.refStack = s0.refStack ∧
    (handleThrow (run fuel) catchable s1).1 ≠ .empty ∧
    ((handleThrow (run fuel) catchable s1).1 = .caught → (handleThrow (run fuel) catchable s1).2.sp = s0.sp + 1) ∧
    ((handleThrow (run fuel) catchable s1).1 ≠ .caught → (handleThrow (run fuel) catchable s1).2.sp = s0.sp) ∧
    (handleThrow (run fuel) catchable s1).2.tryStack.length = base.length + 1 := by
  have h := handleThrowLoop_spec (run_good fuel).2 catchable s0 hI tf base hF hlive hwf e s1 hsk hcs his hrs
    (handleThrow (run fuel) catchable s1) (by unfold handleThrow; rw [hts])
  generalize handleThrow (run fuel) catchable s1 = r at h
  obtain ⟨a1, a2, a3, a4, a5, a6, a8, _, a9, a10, a11, a12⟩ := h
  refine ⟨a1, a2, a3, a4, a5, a6, a8, fun hc => (a11 hc).2.1, ?_, ?_⟩
  · intro hc
    cases hr : r.1 with
    | caught => exact absurd hr hc
    | fin => exact (a12 hr).2.2.1
    | atMarker => exact (a10 hr).2.1
    | aborted => exact (a9 hr).1
    | empty => exact absurd hr a8
  · cases hr : r.1 with
    | caught => simp [(a11 hr).2.2]
    | fin => simp [(a12 hr).2.2.2]
    | atMarker => simp [(a10 hr).2.2]
    | aborted => simp [(a9 hr).2]
    | empty => exact absurd hr a8

/-- uncatchables close no iterator (fix 5d979ec): unwinding for an interrupt / stack overflow is a pure
truncation and runs no script code, whatever the interpreter -/
theorem uncatchable_closes_no_iterator (runF : RunF) (il rl : Nat) (s : Vm) :
    restoreStacks runF false il rl s =
      (false, { s with iterStack := s.iterStack.take il, refStack := s.refStack.take rl }) := by
  simp [restoreStacks]

/-- `_restoreStacks` cuts both stacks back even when an iterator close leaves it with an uncatchable
(fix 570c7df), for every interpreter and iterator behaviour -/
theorem restoreStacks_truncates_always (runF : RunF) (doClose : Bool) (il rl : Nat) (s : Vm) :
    (restoreStacks runF doClose il rl s).2.iterStack.length ≤ il ∧
    (restoreStacks runF doClose il rl s).2.refStack.length ≤ rl := by
  simp [restoreStacks, List.length_take]
  exact ⟨Nat.min_le_left _ _, Nat.min_le_left _ _⟩

/-! ## the run-loop discipline (closing induction) -/

/-- every behaviour, at every fuel, from every state satisfying `Inv`: normal ending ⇒ control state
unchanged; throw ⇒ the stacks only grew, extra try frames are consumed JS frames; uncatchable ⇒ the stacks
only grew, no boundary marker was left behind; `stuck` (handleThrow landing on a foreign frame) never
happens; a non-uncatchable ending leaves the interrupt flag alone. -/
theorem run_obeys_discipline (fuel : Nat) (b : Beh) (s : Vm) (hI : Inv s) : Good s (run fuel b s) :=
  (run_good fuel).1 b s hI

theorem never_stuck (fuel : Nat) (b : Beh) (s : Vm) (hI : Inv s) : (run fuel b s).1 ≠ .stuck := by
  have h := (run_good fuel).1 b s hI
  intro hs
  have := h.1
  simp [GoodCtl, hs] at this

/-! ## boundaries -/

theorem ctl_of_same {s t : Vm} (h : Same s t) : ctlState t = ctlState s := by
  have hr := h.regs
  simp only [Vm.regs, Regs.mk.injEq] at hr
  simp [ctlState, h.sp, h.stash, h.privEnv, h.cs, h.ts, h.is, h.rs, hr.1, hr.2.1, hr.2.2.1, hr.2.2.2]

/-- **boundary_balanced, vm.try** (Runtime.Try, builtins shielding a callback, promise reaction jobs,
iterator close): ∀ inner behaviour, ∀ ending — normal, caught or uncaught throw, interrupt, stack overflow —
the control state after equals the control state before. -/
theorem boundary_balanced_try (fuel : Nat) (b : Beh) (s : Vm) (hI : Inv s) :
    (tryB (run fuel) b s).1 ≠ .stuck ∧ ctlState (tryB (run fuel) b s).2 = ctlState s :=
  have h := tryB_spec (run_good fuel).1 (run_good fuel).2 b s hI
  ⟨h.1.1, ctl_of_same h.2.1⟩

/-- **boundary_balanced, runWrapped** (at any depth: nested from a native frame or outermost) -/
theorem boundary_balanced_runWrapped (fuel lf : Nat) (b : Beh) (s : Vm) (hI : Inv s) :
    (runWrapped (run fuel) lf b s).1 ≠ .stuck ∧ ctlState (runWrapped (run fuel) lf b s).2 = ctlState s :=
  have h := runWrapped_spec (run_good fuel).1 (run_good fuel).2 lf b s hI
  ⟨h.1.1, ctl_of_same h.2.1⟩

/-- **boundary_balanced, Callable** (`AssertFunction(v)(this, args…)`, ExportTo'd functions) -/
theorem boundary_balanced_callable (fuel : Nat) (n : Nat) (f : FnInfo) (b : Beh) (s : Vm) (hI : Inv s) :
    (apiCall fuel (.callable n f) b s).1 ≠ .stuck ∧
    ctlState (apiCall fuel (.callable n f) b s).2 = ctlState s :=
  have h := apiCall_spec fuel (.callable n f) b s hI
  ⟨h.1.1, ctl_of_same h.2.1⟩

/-- **boundary_balanced, Constructor** (`AssertConstructor(v)(newTarget, args…)`) -/
theorem boundary_balanced_constructor (fuel : Nat) (n : Nat) (f : FnInfo) (b : Beh) (s : Vm) (hI : Inv s) :
    (apiCall fuel (.constructor n f) b s).1 ≠ .stuck ∧
    ctlState (apiCall fuel (.constructor n f) b s).2 = ctlState s :=
  have h := apiCall_spec fuel (.constructor n f) b s hI
  ⟨h.1.1, ctl_of_same h.2.1⟩

/-- **boundary_balanced, RunProgram recursive** (from a native frame), including the overflow of its own
pushCtx at the depth limit (fix 195a32b) -/
theorem boundary_balanced_runProgram_recursive (fuel p : Nat) (b : Beh) (s : Vm) (hI : Inv s) :
    (runProgramRec (run fuel) p b s).1 ≠ .stuck ∧ ctlState (runProgramRec (run fuel) p b s).2 = ctlState s :=
  have h := runProgramRec_spec (run_good fuel).1 (run_good fuel).2 p b s hI
  ⟨h.1.1, ctl_of_same h.2.1⟩

/-- **boundary_balanced, RunProgram outermost**: also `prg` and `sb` are back (fix e71ffae), for every ending -/
theorem boundary_balanced_runProgram_outermost (fuel lf p : Nat) (b : Beh) (s : Vm) (hI : Inv s)
    (h0 : s.callStack = []) :
    (runProgramOuter (run fuel) lf p b s).1 ≠ .stuck ∧
    ctlState (runProgramOuter (run fuel) lf p b s).2 = ctlState s :=
  have h := (runProgramOuter_spec (run_good fuel).1 (run_good fuel).2 lf p b s hI h0).1
  ⟨h.1.1, ctl_of_same h.2.1⟩

/-- **boundary_balanced**, all host API calls at once (RunProgram picks its branch by the call-stack length;
`try_`/`tryGet` are Runtime.Try around Go-side operations / a getter) -/
theorem boundary_balanced (fuel : Nat) (k : TopApi) (b : Beh) (s : Vm) (hI : Inv s) :
    (apiCall fuel k b s).1 ≠ .stuck ∧ ctlState (apiCall fuel k b s).2 = ctlState s :=
  have h := apiCall_spec fuel k b s hI
  ⟨h.1.1, ctl_of_same h.2.1⟩

/-! ## leave / leaveAbrupt -/

theorem leave_drains (runF : RunF) (HA : HypA runF) (lf : Nat) (s : Vm) (hI : Inv s) :
    (leaveLoop runF lf s).1 = .normal → (leaveLoop runF lf s).2.jobQueue = [] :=
  (leaveLoop_spec HA lf s hI).2.2.2.2

theorem leaveAbrupt_clears (s : Vm) :
    (leaveAbrupt s).jobQueue = [] ∧ (leaveAbrupt s).interrupted = false ∧
    (leaveAbrupt s).prg = none ∧ (leaveAbrupt s).sb = -1 := by
  simp [leaveAbrupt]

/-! ## call-depth limit -/

/-- `depth_limit_uniform`: pushCtx refuses exactly when the call stack is longer than the limit,
whatever else the state contains … -/
theorem depth_limit_uniform (s : Vm) :
    (pushCtx s = none ↔ s.callStack.length > s.maxCallStackSize) ∧
    (∀ t, pushCtx s = some t → t.callStack = s.callStack ++ [saveCtx s] ∧ t.sp = s.sp ∧
        t.tryStack = s.tryStack ∧ t.iterStack = s.iterStack ∧ t.refStack = s.refStack) := by
  unfold pushCtx
  constructor
  · split <;> simp_all
  · intro t h
    split at h
    · simp at h
    · simp at h; subst h; simp

/-- … at every JS→JS / JS→native call, at any depth and any limit, the overflow is an *uncatchable* ending of
that node that changed no stack — so it is an instance of `boundary_balanced` … -/
theorem depth_limit_is_uncatchable (lf : Nat) (runF : RunF) (k : FrameKind) (ret body : Beh)
    (s : Vm) (h : k.pre ret s = none) :
    step lf runF (.frame k ret body) s = (.fatal, s) := by
  simp [step, h]

/-- … and so is the overflow of a re-entrant RunProgram's own pushCtx (fix 195a32b). -/
theorem runProgramRec_overflow_noop (runF : RunF) (p : Nat) (b : Beh) (s : Vm) (h : pushCtx s = none) :
    runProgramRec runF p b s = (.fatal, s) := by
  simp [runProgramRec, h]

/-! ## Idle -/

/-- Idle without the job-queue clause: Runtime.Try does not call leave(), jobs queued under it wait for the
next leave (that is C10's concern) -/
def IdleCtl (s : Vm) : Prop :=
  s.sp = 0 ∧ s.sb = -1 ∧ s.prg = none ∧ s.stash = globalStash ∧ s.privEnv = [] ∧
  s.callStack = [] ∧ s.tryStack = [] ∧ s.iterStack = [] ∧ s.refStack = [] ∧ s.interrupted = false

theorem fresh_idle (m : Nat) : Idle (Vm.fresh m) := by
  simp [Idle, Vm.fresh, globalStash]

theorem idle_iff (s : Vm) : Idle s ↔ IdleCtl s ∧ s.jobQueue = [] := by
  unfold Idle IdleCtl
  constructor
  · rintro ⟨a, b, c, d, e, f, g, h, i, j, k⟩; exact ⟨⟨a, b, c, d, e, f, g, h, i, k⟩, j⟩
  · rintro ⟨⟨a, b, c, d, e, f, g, h, i, k⟩, j⟩; exact ⟨a, b, c, d, e, f, g, h, i, j, k⟩

/-- **idle_after_any_api_call**: from an idle runtime (jobs possibly pending from an earlier Try), after ANY
API call with ANY inner behaviour and ANY ending the runtime is idle again: no frame, no try / iterator /
reference record, global scope, no current program, interrupt flag clear; and the job queue is empty after
every call that leaves (RunProgram, Callable, Constructor) and after every uncatchable ending. -/
theorem idle_after_any_api_call (fuel : Nat) (k : TopApi) (b : Beh) (s : Vm) (hs : IdleCtl s) :
    (apiCall fuel k b s).1 ≠ .stuck ∧ IdleCtl (apiCall fuel k b s).2 ∧
    ((apiCall fuel k b s).1 = .fatal → (apiCall fuel k b s).2.jobQueue = []) ∧
    ((k matches .runProgram | .callable .. | .constructor ..) → (apiCall fuel k b s).2.jobQueue = []) := by
  obtain ⟨a, b1, c, d, e, f, g, h, i, j⟩ := hs
  have hI : Inv s := fun _ => ⟨c, b1⟩
  obtain ⟨h1, h2, h3⟩ := apiCall_spec fuel k b s hI
  obtain ⟨x1, x2⟩ := apiCall_exit fuel k b s hI f
  have hr := h2.regs
  simp only [Vm.regs, Regs.mk.injEq] at hr
  refine ⟨h1.1, ⟨h2.sp.trans a, hr.2.1.trans b1, hr.1.trans c, h2.stash.trans d, h2.privEnv.trans e,
    h2.cs.trans f, h2.ts.trans g, h2.is.trans h, h2.rs.trans i, ?_⟩, fun hf => (x1 hf).1, x2⟩
  by_cases hf : (apiCall fuel k b s).1 = .fatal
  · exact (x1 hf).2
  · exact (h3 hf).trans j

/-- a whole history of API calls from a fresh runtime -/
def runHistory (fuel : Nat) : List (TopApi × Beh) → Vm → Vm
  | [], s => s
  | (k, b) :: rest, s => runHistory fuel rest (apiCall fuel k b s).2

/-- after any history of any length, with any behaviours and endings, the runtime is idle -/
theorem idle_after_any_history (fuel : Nat) (h : List (TopApi × Beh)) (m : Nat) :
    IdleCtl (runHistory fuel h (Vm.fresh m)) := by
  have hfresh : IdleCtl (Vm.fresh m) := ((idle_iff _).mp (fresh_idle m)).1
  generalize Vm.fresh m = s at hfresh
  induction h generalizing s with
  | nil => exact hfresh
  | cons c rest ih =>
    obtain ⟨k, b⟩ := c
    exact ih _ (idle_after_any_api_call fuel k b s hfresh).2.1

/-! ## vm.curAsyncRunner -/

/-- Idle including `vm.curAsyncRunner == nil` (the field the async stack-trace capture reads at depth 0) -/
def IdleAll (s : Vm) : Prop := IdleCtl s ∧ s.curAsync = false

theorem fresh_idleAll (m : Nat) : IdleAll (Vm.fresh m) :=
  ⟨((idle_iff _).mp (fresh_idle m)).1, rfl⟩

/-- the continuation of an async function runs with the field set, and the deferred function of
asyncRunner.onFulfilled / onRejected clears it however the continuation ends — for any interpreter -/
theorem asyncResume_sets_then_clears (runF : RunF) (id : Nat) (s : Vm) :
    asyncResumeCA runF id s =
      ((asyncResume runF id { s with curAsync := true }).1,
       { (asyncResume runF id { s with curAsync := true }).2 with curAsync := false }) := rfl

/-- **curAsyncRunner_clear_after_any_api_call**: with the field clear before, it is clear after ANY API call with
ANY inner behaviour (async continuations run from the job queue, nested API calls from inside a continuation,
interrupts, stack overflows, uncatchable endings inside a continuation) -/
theorem curAsyncRunner_clear_after_any_api_call (fuel : Nat) (k : TopApi) (b : Beh) (s : Vm)
    (h : s.curAsync = false) : (apiCall fuel k b s).2.curAsync = false :=
  apiCall_ca fuel k b s h

/-- … and the same at every node inside a call, at every fuel -/
theorem curAsyncRunner_clear_after_any_node (fuel : Nat) (b : Beh) (s : Vm) (h : s.curAsync = false) :
    (run fuel b s).2.curAsync = false :=
  run_ca fuel b s h

/-- the idle theorem with the field included -/
theorem idleAll_after_any_api_call (fuel : Nat) (k : TopApi) (b : Beh) (s : Vm) (hs : IdleAll s) :
    IdleAll (apiCall fuel k b s).2 :=
  ⟨(idle_after_any_api_call fuel k b s hs.1).2.1, apiCall_ca fuel k b s hs.2⟩

theorem idleAll_after_any_history (fuel : Nat) (h : List (TopApi × Beh)) (m : Nat) :
    IdleAll (runHistory fuel h (Vm.fresh m)) := by
  have hfresh := fresh_idleAll m
  generalize Vm.fresh m = s at hfresh
  induction h generalizing s with
  | nil => exact hfresh
  | cons c rest ih =>
    obtain ⟨k, b⟩ := c
    exact ih _ (idleAll_after_any_api_call fuel k b s hfresh)

/-! ## generators: suspend / resume -/

/-- **rebasing meets its spec** (vm.go suspend / resume): a try frame pushed in state `sA` of a generator activation,
moved into the generator object by vm.suspend (lengths stored by enterNext: `il`, `rl`; stack base `sb - 1`) and
reinstalled by vm.resume in a later activation, is exactly the frame `pushTryFrame` would create in the corresponding
state `sB` of the new activation (same scope, call stack of the new activation, iterator / reference / operand
stacks shifted to the new bases) — with the handler positions and the pending exception carried over.  This is the
record the model's resumed constructs (`tryResumeH`, `tryResumeF`, a re-entered `try_`) work with. -/
theorem rebase_meets_spec (sA sB : Vm) (tf : TryFrame) (il rl il' rl' : Nat) (sb sp' : Int)
    (hF : FrameOf sA tf) (_hil : il ≤ sA.iterStack.length) (_hrl : rl ≤ sA.refStack.length)  -- (uint32 subtraction in Go)
    (hi : sB.iterStack.length = il' + (sA.iterStack.length - il))
    (hr : sB.refStack.length = rl' + (sA.refStack.length - rl))
    (hsp : sB.sp = sp' + (sA.sp - (sb - 1))) (hst : sB.stash = sA.stash) (hpe : sB.privEnv = sA.privEnv) :
    resumeFrame sB.callStack.length il' rl' sp' (suspendFrame il rl sb tf) =
      { exception := tf.exception, callStackLen := sB.callStack.length, iterLen := sB.iterStack.length,
        refLen := sB.refStack.length, sp := sB.sp, stash := sB.stash, privEnv := sB.privEnv,
        catchPos := tf.catchPos, finallyPos := tf.finallyPos, finallyRet := tf.finallyRet } ∧
    FrameOf sB (resumeFrame sB.callStack.length il' rl' sp' (suspendFrame il rl sb tf)) := by
  have e1 : tf.iterLen - il + il' = sB.iterStack.length := by rw [hF.is, hi]; omega
  have e2 : tf.refLen - rl + rl' = sB.refStack.length := by rw [hF.rs, hr]; omega
  have e3 : tf.sp - (sb - 1) + sp' = sB.sp := by rw [hF.sp, hsp]; omega
  refine ⟨?_, ⟨rfl, ?_, ?_, ?_, ?_, ?_⟩⟩
  · simp only [resumeFrame, suspendFrame]
    rw [e1, e2, e3, hst, hpe, hF.stash, hF.privEnv]
  · simpa [resumeFrame, suspendFrame] using e1
  · simpa [resumeFrame, suspendFrame] using e2
  · simpa [resumeFrame, suspendFrame] using e3
  · simp [resumeFrame, suspendFrame, hF.stash, hst]
  · simp [resumeFrame, suspendFrame, hF.privEnv, hpe]

/-- the iterator / reference records above the stored length are moved out and back unchanged -/
theorem suspend_resume_records {α : Type} (base e base' : List α) :
    (base ++ e).take base.length = base ∧ base' ++ (base ++ e).drop base.length = base' ++ e := by
  simp

/-! ## regression lemmas about the repaired steps -/

/-- Runtime.Try at depth 0 clears flag and queue when an uncatchable passes (fix 9e5aa04) -/
theorem runtimeTry_fatal_clears (fuel : Nat) (b : Beh) (s : Vm) (hI : Inv s) (h0 : s.callStack = [])
    (h : (runtimeTry fuel b s).1 = .fatal) :
    (runtimeTry fuel b s).2.jobQueue = [] ∧ (runtimeTry fuel b s).2.interrupted = false :=
  (runtimeTry_spec fuel b s hI).2 h h0

/-- regression lemma about the mechanism BEFORE fix 404e270 (`defect:unwind-abort-in-recover`, design/C03.md): handleThrow reports
`aborted` with the JS frame `tf` it stopped at still on the try stack, above the boundary's marker `m` (this is what
`handleThrow_restores` says about `aborted`).  The model then unwinds for the uncatchable at the same boundary
(`unwindAtMarker`), which pops both — as the code does since 404e270 (deferred recover in handleThrow).  Before, this
happened only when the first handleThrow ran inside the run loop; when it ran inside a `recover()` the boundary merely
ran its deferred `popTryFrame()` — and that leaves the boundary's own marker behind: -/
theorem unwind_abort_in_recover_prefix_witness (tf m : TryFrame) (rest : List TryFrame) (s : Vm)
    (h : s.tryStack = tf :: m :: rest) :
    (popTryFrame s).tryStack = m :: rest ∧ (popTryFrame s).tryStack ≠ rest := by
  have h1 : (popTryFrame s).tryStack = m :: rest := by simp [popTryFrame, h]
  refine ⟨h1, ?_⟩
  rw [h1]
  intro hc
  have := congrArg List.length hc
  simp at this

/-! ## non-vacuity -/

/-- the hypotheses of the boundary theorems are satisfiable by non-trivial states: any state with a
non-empty call stack satisfies `Inv`, so does every idle state -/
example (s : Vm) (h : s.callStack ≠ []) : Inv s := inv_of_ne h
example (m : Nat) : Inv (Vm.fresh m) := fun _ => ⟨rfl, rfl⟩

end GojaModel.C03
