/-
  C03 — property theorems.  Every `theorem` here is one audited proof obligation.
  Names ending in `_partial` are weaker than the property demands; the comment says what is missing.
  Names ending in `_witness` are proved counter-examples on the model of the code as it is today
  (`Cfg.asCoded`): the corresponding full-strength statement is false for /repo and is stated (and
  proved, where marked) only for the repaired configuration.
-/
import GojaModel.C03.Lemmas3

namespace GojaModel.C03

/-! ## handleThrow -/

/-- `handleThrow_restores`, part 1 (vm.go:809-817): at the frame where handleThrow stops, `sp`, `stash`,
`privEnv` equal the snapshot; if the call stack grew since the snapshot (`callStackLen < |callStack|`)
it is cut back to the snapshot length and `prg, pc, sb, args, newTarget, result` come from the saved
context at that index; otherwise registers and call stack are untouched. -/
theorem handleThrow_restores_frame (tf : TryFrame) (s : Vm) :
    (restoreFrame tf s).sp = tf.sp ∧ (restoreFrame tf s).stash = tf.stash ∧
    (restoreFrame tf s).privEnv = tf.privEnv ∧
    (∀ ctx, s.callStack[tf.callStackLen]? = some ctx →
        (restoreFrame tf s).callStack.length = tf.callStackLen ∧
        (restoreFrame tf s).prg = ctx.prg ∧ (restoreFrame tf s).pc = ctx.pc ∧
        (restoreFrame tf s).sb = ctx.sb ∧ (restoreFrame tf s).args = ctx.args ∧
        (restoreFrame tf s).newTarget = ctx.newTarget ∧ (restoreFrame tf s).result = ctx.result) ∧
    (s.callStack.length ≤ tf.callStackLen →
        (restoreFrame tf s).callStack = s.callStack ∧ (restoreFrame tf s).prg = s.prg ∧
        (restoreFrame tf s).sb = s.sb) := by
  refine ⟨by simp [restoreFrame], by simp [restoreFrame], by simp [restoreFrame], ?_, ?_⟩
  · intro ctx h
    have hlt : tf.callStackLen < s.callStack.length := by
      have := List.getElem?_eq_some_iff.mp h
      exact this.1
    simp [restoreFrame, h, List.length_take, Nat.min_eq_left (Nat.le_of_lt hlt)]
  · intro h
    have : s.callStack[tf.callStackLen]? = none := by simp [h]
    simp [restoreFrame, this]

/-- `handleThrow_restores`, complete statement (vm.go:800-839), for every number of skipped frames above
the landing frame and every iterator-close behaviour: handleThrow lands on the innermost live frame
`tf` (snapshot of `s0`), and `regs (prg, sb, args, newTarget)`, `stash`, `privEnv`, the whole `callStack`
equal the snapshot; `sp` is the snapshot (+1 for the pushed exception value when caught); iterator and
reference stacks equal the snapshot unless an iterator close was itself aborted by an uncatchable
(`aborted`) — in which case they only extend it (see `unwind_abort_leaks_iter_witness`). -/
theorem handleThrow_restores {runF : RunF} (cfg : Cfg) (HA : HypA runF) (catchable : Bool)
    (s0 : Vm) (tf : TryFrame) (base e : List TryFrame) (s1 : Vm) (hF : FrameOf s0 tf)
    (hlive : skipped catchable tf = false)
    (hwf : tf.catchPos = tryPanicMarker ∨ tf.catchPos ≥ 0 ∨ tf.finallyPos ≥ 0)
    (hts : s1.tryStack = e ++ tf :: base) (hsk : ∀ f ∈ e, skipped catchable f = true)
    (hcs : ∃ ec, s1.callStack = s0.callStack ++ ec ∧ levelRegs ec s1 = s0.regs)
    (his : ∃ ei, s1.iterStack = s0.iterStack ++ ei) (hrs : ∃ er, s1.refStack = s0.refStack ++ er) :
    let r := handleThrow runF cfg catchable s1
    r.2.regs = s0.regs ∧ r.2.stash = s0.stash ∧ r.2.privEnv = s0.privEnv ∧
    r.2.callStack = s0.callStack ∧
    (r.1 ≠ .aborted ∨ cfg.fixUnwindAbort = true →
        r.2.iterStack = s0.iterStack ∧ r.2.refStack = s0.refStack) ∧
    r.1 ≠ .empty ∧
    (r.1 = .caught → r.2.sp = s0.sp + 1) ∧ (r.1 ≠ .caught → r.2.sp = s0.sp) ∧
    r.2.tryStack.length = base.length + 1 := by
  intro r
  have h := handleThrowLoop_spec cfg HA catchable s0 tf base hF hlive hwf e s1 hsk hcs his hrs r
    (by show handleThrow runF cfg catchable s1 = _; unfold handleThrow; rw [hts])
  obtain ⟨a1, a2, a3, a4, _, _, a7, a8, a9, a10, a11, a12⟩ := h
  refine ⟨a1, a2, a3, a4, a7, a8, fun hc => (a11 hc).2.1, ?_, ?_⟩
  · intro hc
    cases hr : r.1 with
    | caught => exact absurd hr hc
    | fin => exact (a12 hr).2.2.1
    | atMarker => exact (a10 hr).2.1
    | aborted => exact (a9 hr).1
    | empty => exact absurd hr a8
  · cases hr : r.1 with
    | caught => simp [(a11 hr).2.2]
    | fin => simp [(a12 hr).2.2.2]
    | atMarker => simp [(a10 hr).2.2]
    | aborted => simp [(a9 hr).2]
    | empty => exact absurd hr a8

/-! ## boundaries -/

/-- `boundary_balanced` for `vm.try` (Runtime.Try, every builtin that shields a callback, promise
reaction jobs, iterator close): for EVERY inner behaviour and EVERY ending (normal, caught/uncaught
throw, interrupt, stack overflow) the control state after the call equals the state before it —
except that an ending `wrecked` (an uncatchable raised by an iterator's `return` *during the unwinding
of this very boundary*) may leave iterator/reference records behind.
`_partial`: relative to `HypG`/`HypA` — the inner behaviours satisfy the run-loop discipline `Good` and
nested vm.try boundaries are balanced; the closing induction over the behaviour tree (`step` preserves
`Good` for every node kind) is not machine-checked yet; it is validated by the per-probe stack-length
correspondence with the real VM. -/
theorem boundary_balanced_try_partial {runF : RunF} (cfg : Cfg) (HG : HypG runF) (HA : HypA runF)
    (b : Beh) (s : Vm) :
    (tryB runF cfg b s).1 ≠ .stuck ∧
    ((tryB runF cfg b s).1 ≠ .wrecked → ctlState (tryB runF cfg b s).2 = ctlState s) := by
  have h := tryB_spec cfg HG HA b s
  refine ⟨h.1, fun hw => ?_⟩
  have hs := h.2.2 hw
  have hr := hs.regs
  simp only [Vm.regs, Regs.mk.injEq] at hr
  simp [ctlState, hs.sp, hs.stash, hs.privEnv, hs.cs, hs.ts, hs.is, hs.rs, hr.1, hr.2.1, hr.2.2.1, hr.2.2.2]

/-- with fixes/C03-unwind-abort.diff the exception disappears: no ending is `wrecked` -/
theorem abortOutcome_fixed (cfg : Cfg) (h : cfg.fixUnwindAbort = true) : abortOutcome cfg = .fatal := by
  simp [abortOutcome, h]

/-! ## leave / leaveAbrupt -/

theorem leave_drains (runF : RunF) (lf : Nat) (s : Vm) :
    (leaveLoop runF lf s).1 = .normal → (leaveLoop runF lf s).2.jobQueue = [] :=
  leaveLoop_drains runF lf s

theorem leaveAbrupt_clears (cfg : Cfg) (s : Vm) :
    (leaveAbrupt cfg s).jobQueue = [] ∧ (leaveAbrupt cfg s).interrupted = false := by
  unfold leaveAbrupt
  split <;> simp

/-- leaveAbrupt touches nothing else of the control state (as coded) -/
theorem leaveAbrupt_ctl (s : Vm) : ctlState (leaveAbrupt Cfg.asCoded s) = ctlState s := by
  simp [leaveAbrupt, Cfg.asCoded, ctlState]

/-! ## call-depth limit -/

/-- `depth_limit_uniform`: pushCtx refuses exactly when the call stack is longer than the limit,
whatever else the state contains (vm.go:911) … -/
theorem depth_limit_uniform (s : Vm) :
    (pushCtx s = none ↔ s.callStack.length > s.maxCallStackSize) ∧
    (∀ t, pushCtx s = some t → t.callStack = s.callStack ++ [saveCtx s] ∧ t.sp = s.sp ∧
        t.tryStack = s.tryStack ∧ t.iterStack = s.iterStack ∧ t.refStack = s.refStack) := by
  unfold pushCtx
  constructor
  · split <;> simp_all
  · intro t h
    split at h
    · simp at h
    · simp at h; subst h; simp

/-- … and at every JS→JS / JS→native call, at any depth and any limit, the overflow is an *uncatchable*
ending of that node that has changed no stack (so it is an instance of `boundary_balanced`). -/
theorem depth_limit_is_uncatchable (cfg : Cfg) (lf : Nat) (runF : RunF) (k : FrameKind) (ret body : Beh)
    (s : Vm) (h : k.pre ret s = none) :
    step cfg lf runF (.frame k ret body) s = (.fatal, s) := by
  simp [step, h]

/-! ## Idle -/

/-- a fresh runtime is idle, for every limit -/
theorem fresh_idle (m : Nat) : Idle (Vm.fresh m) := by
  simp [Idle, Vm.fresh, globalStash]

/-! ## defects of the code as it is: witnesses on the model of `Cfg.asCoded`, and the repaired statements

The end-to-end instances (whole API calls) are executed by the model driver on every run and compared
with the real runtime (`sentinels()` in run/c03.py); kernel evaluation of whole calls is too slow for
`decide`, so the theorems below pin the responsible step. -/

/-- F1 (fixes/C03-stale-prg.diff): leaveAbrupt — all that RunProgram's deferred recover does at depth 0 —
does not reset `vm.prg`, so "idle ⇒ prg = nil" fails after an uncatchable ending … -/
theorem leaveAbrupt_keeps_prg_witness : ¬ ∀ s : Vm, (leaveAbrupt Cfg.asCoded s).prg = none := by
  intro h
  have := h { Vm.fresh 0 with prg := some 1 }
  simp [leaveAbrupt, Cfg.asCoded, Vm.fresh] at this

/-- … and with the repair it does, for every state. -/
theorem leaveAbrupt_resets_prg_fixed (s : Vm) :
    (leaveAbrupt Cfg.allFixed s).prg = none ∧ (leaveAbrupt Cfg.allFixed s).sb = -1 := by
  simp [leaveAbrupt, Cfg.allFixed]

/-- F2 (fixes/C03-try-leave.diff): as coded, Runtime.Try is exactly vm.try — no leaveAbrupt on any ending,
so an interrupt flag raised inside stays set (`tryB` never clears it) -/
theorem runtimeTry_asCoded_is_tryB (fuel : Nat) (b : Beh) (s : Vm) :
    runtimeTry Cfg.asCoded fuel b s = tryB (run Cfg.asCoded fuel) Cfg.asCoded b s := by
  unfold runtimeTry
  generalize tryB (run Cfg.asCoded fuel) Cfg.asCoded b s = r
  obtain ⟨o, s1⟩ := r
  cases o <;> simp [Cfg.asCoded]

/-- repaired: an uncatchable ending at depth 0 clears flag and queue -/
theorem runtimeTry_fixed_clears (fuel : Nat) (b : Beh) (s : Vm)
    (h : (tryB (run Cfg.allFixed fuel) Cfg.allFixed b s).1 = .fatal)
    (h0 : (tryB (run Cfg.allFixed fuel) Cfg.allFixed b s).2.callStack.length = 0) :
    (runtimeTry Cfg.allFixed fuel b s).2.interrupted = false ∧
    (runtimeTry Cfg.allFixed fuel b s).2.jobQueue = [] := by
  unfold runtimeTry
  generalize tryB (run Cfg.allFixed fuel) Cfg.allFixed b s = r at h h0
  obtain ⟨o, s1⟩ := r
  simp only at h h0
  subst h
  simp [Cfg.allFixed, h0, leaveAbrupt]

/-- F3 (fixes/C03-unwind-abort.diff): if closing an iterator ends with an uncatchable, restoreStacks as
coded leaves the iterator record on the stack (here: one record, snapshot length 0) … -/
theorem restoreStacks_abort_leaks_witness :
    (restoreStacks (fun _ s => (.fatal, s)) Cfg.asCoded 0 0
        { Vm.fresh 0 with iterStack := [⟨true, .skip⟩] }).2.iterStack.length = 1 := by
  simp [restoreStacks, closeIters, Cfg.asCoded, Vm.fresh]

/-- … the repaired one cuts both stacks back whatever the iterator close did. -/
theorem restoreStacks_fixed_truncates (runF : RunF) (cfg : Cfg) (h : cfg.fixUnwindAbort = true)
    (il rl : Nat) (s : Vm)
    (hk : (closeIters runF (s.iterStack.drop il).reverse s).2.iterStack.length ≥ il) :
    (restoreStacks runF cfg il rl s).2.iterStack.length = il := by
  simp [restoreStacks, h, List.length_take]
  omega

/-- F4 (fixes/C03-recursive-overflow.diff): RunProgram entered re-entrantly exactly at the depth limit
(its own pushCtx overflows) still runs `vm.sp -= 2; vm.popCtx()` in its deferred function: the caller
loses a context it owns … -/
theorem runProgramRec_overflow_pops_witness (runF : RunF) (p : Nat) (b : Beh) (s : Vm)
    (h : pushCtx s = none) (h2 : s.callStack.length ≥ 2) :
    (runProgramRec runF Cfg.asCoded p b s).2.callStack.length = s.callStack.length - 1 := by
  unfold runProgramRec
  simp only [h, Cfg.asCoded]
  have hne : s.callStack ≠ [] := by intro h0; simp [h0] at h2
  obtain ⟨c, hc⟩ : ∃ c, s.callStack.getLast? = some c := by
    cases hh : s.callStack.getLast? with
    | none => simp [List.getLast?_eq_none_iff] at hh; exact absurd hh hne
    | some c => exact ⟨c, rfl⟩
  have hlen : (popCtx { s with sp := s.sp - 2 }).callStack.length = s.callStack.length - 1 := by
    simp [popCtx, hc, restoreCtx]
  have hnz : ¬ (popCtx { s with sp := s.sp - 2 }).callStack.length = 0 := by rw [hlen]; omega
  simp only [Bool.false_eq_true, if_false, hnz]
  exact hlen

/-- … the repaired one leaves the state alone. -/
theorem runProgramRec_overflow_fixed (runF : RunF) (p : Nat) (b : Beh) (s : Vm) (h : pushCtx s = none) :
    runProgramRec runF Cfg.allFixed p b s = (.fatal, s) := by
  simp [runProgramRec, h, Cfg.allFixed]

end GojaModel.C03
