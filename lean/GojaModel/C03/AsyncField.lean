/-
  C03 — vm.curAsyncRunner (`Vm.curAsync`): only asyncRunner.onFulfilled / onRejected set it, and their deferred
  function clears it on every exit; nothing else touches it.  Hence: clear before ⇒ clear after, for every behaviour,
  every ending, every API call.
-/
import GojaModel.C03.Model

namespace GojaModel.C03

/-- the sub-interpreter keeps a cleared curAsyncRunner cleared -/
def CAok (runF : RunF) : Prop := ∀ b s, s.curAsync = false → (runF b s).2.curAsync = false

/-! ### state helpers do not touch the field -/

theorem pushCtx_ca {s t : Vm} (h : pushCtx s = some t) : t.curAsync = s.curAsync := by
  unfold pushCtx at h
  split at h
  · simp at h
  · simp at h; subst h; rfl

@[simp] theorem restoreCtx_ca (c : Ctx) (s : Vm) : (restoreCtx c s).curAsync = s.curAsync := rfl

@[simp] theorem popCtx_ca (s : Vm) : (popCtx s).curAsync = s.curAsync := by
  unfold popCtx
  split <;> simp

@[simp] theorem pushTryFrame_ca (a b : Int) (s : Vm) : (pushTryFrame a b s).curAsync = s.curAsync := rfl
@[simp] theorem popTryFrame_ca (s : Vm) : (popTryFrame s).curAsync = s.curAsync := rfl

@[simp] theorem restoreFrame_ca (tf : TryFrame) (s : Vm) : (restoreFrame tf s).curAsync = s.curAsync := by
  unfold restoreFrame
  split <;> simp

@[simp] theorem leaveAbrupt_ca (s : Vm) : (leaveAbrupt s).curAsync = s.curAsync := rfl
@[simp] theorem setGen_ca (s : Vm) (k : Nat) (g : GenObj) : (setGen s k g).curAsync = s.curAsync := rfl
@[simp] theorem observe_ca (id : Nat) (s : Vm) : (observe id s).curAsync = s.curAsync := rfl
@[simp] theorem recEnter_ca (p : Nat) (s : Vm) : (recEnter p s).curAsync = s.curAsync := rfl
@[simp] theorem recExit_ca (s : Vm) : (recExit s).curAsync = s.curAsync := by simp [recExit]
@[simp] theorem outerEnter_ca (p : Nat) (s : Vm) : (outerEnter p s).curAsync = s.curAsync := rfl
@[simp] theorem outerPop_ca (s : Vm) : (outerPop s).curAsync = s.curAsync := rfl
@[simp] theorem goCallRet_ca (b : Bool) (s : Vm) : (goCallRet b s).curAsync = s.curAsync := by
  unfold goCallRet
  cases b <;> simp
@[simp] theorem genLeave_ca (a b c : Nat) (s : Vm) : (genLeave a b c s).curAsync = s.curAsync := by simp [genLeave]
@[simp] theorem genFinish_ca (s : Vm) : (genFinish s).curAsync = s.curAsync := by simp [genFinish]
@[simp] theorem actBack_ca (s t : Vm) : (actBack s t).curAsync = t.curAsync := by simp [actBack]

theorem pre_ca {k : FrameKind} {ret : Beh} {s t : Vm} (h : k.pre ret s = some t) : t.curAsync = s.curAsync := by
  cases k with
  | tmp n => simp only [FrameKind.pre, Option.some.injEq] at h; subst h; rfl
  | call n f =>
    simp only [FrameKind.pre, Option.map_eq_some_iff] at h
    obtain ⟨u, hu, rfl⟩ := h
    simpa using pushCtx_ca hu
  | native n =>
    simp only [FrameKind.pre, Option.map_eq_some_iff] at h
    obtain ⟨u, hu, rfl⟩ := h
    simpa using pushCtx_ca hu
  | forOf c => simp only [FrameKind.pre, Option.some.injEq] at h; subst h; rfl
  | ref => simp only [FrameKind.pre, Option.some.injEq] at h; subst h; rfl
  | block => simp only [FrameKind.pre, Option.some.injEq] at h; subst h; rfl
  | priv => simp only [FrameKind.pre, Option.some.injEq] at h; subst h; rfl

@[simp] theorem post_ca (k : FrameKind) (s : Vm) : (k.post s).curAsync = s.curAsync := by
  cases k <;> simp [FrameKind.post]

theorem genEnterNext_ca {g : GenObj} {s t : Vm} (h : genEnterNext g s = some t) : t.curAsync = s.curAsync := by
  unfold genEnterNext at h
  simp only [Option.map_eq_some_iff] at h
  obtain ⟨u, hu, rfl⟩ := h
  simpa using pushCtx_ca hu

theorem actEnter_ca {n : Nat} {s t : Vm} (h : actEnter n s = some t) : t.curAsync = s.curAsync := by
  unfold actEnter at h
  simp only [Option.map_eq_some_iff] at h
  obtain ⟨u, hu, rfl⟩ := h
  simpa using pushCtx_ca hu

theorem actCall_ca {n : Nat} {f : FnInfo} {s t : Vm} (h : actCall n f s = some t) : t.curAsync = s.curAsync := by
  unfold actCall at h
  simp only [Option.map_eq_some_iff] at h
  obtain ⟨u, hu, rfl⟩ := h
  simpa using pushCtx_ca hu

theorem goCallEnter_ca {n : Nat} {f : FnInfo} {s t : Vm} {b : Bool} (h : goCallEnter n f s = some (t, b)) :
    t.curAsync = s.curAsync := by
  unfold goCallEnter at h
  simp only [Option.map_eq_some_iff] at h
  obtain ⟨⟨u, b2⟩, hp, heq⟩ := h
  simp only [Prod.mk.injEq] at heq
  obtain ⟨rfl, rfl⟩ := heq
  split at hp
  · simp only [Option.map_eq_some_iff, Prod.mk.injEq] at hp
    obtain ⟨v, hv, rfl, rfl⟩ := hp
    simpa using pushCtx_ca hv
  · simp only [Option.map_eq_some_iff, Prod.mk.injEq] at hp
    obtain ⟨v, hv, rfl, rfl⟩ := hp
    simpa using pushCtx_ca hv

theorem probe_ca (id : Nat) (s : Vm) (h : s.curAsync = false) : (probe id s).2.curAsync = false := by
  unfold probe
  cases hp : FrameKind.pre (.native 1) .skip s with
  | none => simpa using h
  | some s1 =>
    have h1 := (pre_ca hp).trans h
    simp only
    split
    · split
      · split <;> simp [h1]
      · simp [h1]
    · simp [h1]


/-! ### unwinding -/

theorem closeIters_ca {runF : RunF} (H : CAok runF) : ∀ (items : List IterItem) (s : Vm),
    s.curAsync = false → (closeIters runF items s).2.curAsync = false := by
  intro items
  induction items with
  | nil => intro s h; simpa [closeIters] using h
  | cons it rest ih =>
    intro s h
    unfold closeIters
    split
    · have h1 := H (.api .try_ it.ret) s h
      generalize runF (.api .try_ it.ret) s = r at h1 ⊢
      obtain ⟨o, s1⟩ := r
      cases o <;> simp only <;> first | exact ih s1 h1 | exact h1
    · exact ih s h

theorem restoreStacks_ca {runF : RunF} (H : CAok runF) (d : Bool) (a b : Nat) (s : Vm) (h : s.curAsync = false) :
    (restoreStacks runF d a b s).2.curAsync = false := by
  unfold restoreStacks
  cases d with
  | false => simpa using h
  | true => simpa using closeIters_ca H _ s h

theorem handleThrowLoop_ca {runF : RunF} (H : CAok runF) (c : Bool) : ∀ (fs : List TryFrame) (s : Vm),
    s.curAsync = false → (handleThrowLoop runF c fs s).2.curAsync = false := by
  intro fs
  induction fs with
  | nil => intro s h; simpa [handleThrowLoop] using h
  | cons tf rest ih =>
    intro s h
    unfold handleThrowLoop
    split
    · exact ih _ (by simpa using h)
    · have h2 := restoreStacks_ca H c tf.iterLen tf.refLen (restoreFrame tf { s with tryStack := tf :: rest }) (by simpa using h)
      simp only
      split
      · exact h2
      · split
        · exact h2
        · split
          · simpa using h2
          · split
            · simpa using h2
            · exact h2

theorem handleThrow_ca {runF : RunF} (H : CAok runF) (c : Bool) (s : Vm) (h : s.curAsync = false) :
    (handleThrow runF c s).2.curAsync = false := handleThrowLoop_ca H c _ s h

theorem unwindAtMarker_ca {runF : RunF} (H : CAok runF) (o : Outcome) (s : Vm) (h : s.curAsync = false) :
    (unwindAtMarker runF o s).2.curAsync = false := by
  unfold unwindAtMarker
  have h1 := handleThrow_ca H (o == .thrown) s h
  generalize handleThrow runF (o == .thrown) s = r at h1 ⊢
  simp only
  split <;> simpa using h1

/-! ### the try statement -/

theorem finPhase_ca {runF : RunF} (H : CAok runF) (fin : Beh) (s : Vm) (h : s.curAsync = false) :
    (finPhase runF fin s).2.curAsync = false := by
  unfold finPhase
  have h1 := H fin s h
  generalize runF fin s = r at h1 ⊢
  obtain ⟨o, s1⟩ := r
  simp only at h1
  cases o <;> simp only
  · split
    · split <;> simpa using h1
    · exact h1
  · exact h1
  · exact h1
  · exact h1
  · split
    · simpa using h1
    · exact h1
  · split
    · simpa using h1
    · exact h1

theorem leaveTry_ca {runF : RunF} (H : CAok runF) (fin : Beh) (s : Vm) (h : s.curAsync = false) :
    (leaveTry runF fin s).2.curAsync = false := by
  unfold leaveTry
  split
  · split
    · exact finPhase_ca H fin _ (by simpa using h)
    · simpa using h
  · exact h

theorem throwToFinally_ca {runF : RunF} (H : CAok runF) (fin : Beh) (d : Nat) (s : Vm) (h : s.curAsync = false) :
    (throwToFinally runF fin d s).2.curAsync = false := by
  unfold throwToFinally
  have h1 := handleThrow_ca H true s h
  generalize handleThrow runF true s = r at h1 ⊢
  simp only
  split
  · split
    · exact finPhase_ca H fin _ h1
    · exact h1
  · exact h1
  · exact h1

theorem exitThrough_ca (e : ExitKind) (r : Res) (h : r.2.curAsync = false) : (exitThrough e r).2.curAsync = false := by
  unfold exitThrough
  split <;> exact h

theorem afterHandler_ca {runF : RunF} (H : CAok runF) (hf : Bool) (fin : Beh) (d : Nat) (r : Res)
    (h : r.2.curAsync = false) : (afterHandler runF hf fin d r).2.curAsync = false := by
  unfold afterHandler
  split
  · exact leaveTry_ca H fin _ h
  · exact exitThrough_ca _ _ (leaveTry_ca H fin _ h)
  · simpa using h
  · split
    · exact throwToFinally_ca H fin d _ h
    · exact h
  · exact h

theorem tryStmt_ca {runF : RunF} (H : CAok runF) (hc hf : Bool) (body handler fin : Beh) (s : Vm)
    (h : s.curAsync = false) : (tryStmt runF hc hf body handler fin s).2.curAsync = false := by
  have h1 : ∀ a b : Int, (runF body (pushTryFrame a b s)).2.curAsync = false :=
    fun a b => H body _ (by simpa using h)
  have h2 : ∀ a b : Int, (handleThrow runF true (runF body (pushTryFrame a b s)).2).2.curAsync = false :=
    fun a b => handleThrow_ca H true _ (h1 a b)
  cases hc <;> cases hf <;>
  · unfold tryStmt
    simp only [if_true, Bool.false_eq_true, if_false]
    repeat' split
    all_goals first
      | exact h1 _ _
      | exact h2 _ _
      | exact leaveTry_ca H fin _ (h1 _ _)
      | exact exitThrough_ca _ _ (leaveTry_ca H fin _ (h1 _ _))
      | exact throwToFinally_ca H fin _ _ (h1 _ _)
      | exact afterHandler_ca H _ fin _ _ (H handler _ (by simpa using h2 _ _))
      | simpa using h1 _ _
      | simpa using h2 _ _

theorem tryResumeH_ca {runF : RunF} (H : CAok runF) (hf : Bool) (cur fin : Beh) (s : Vm) (h : s.curAsync = false) :
    (tryResumeH runF hf cur fin s).2.curAsync = false := by
  unfold tryResumeH
  exact afterHandler_ca H hf fin _ _ (H cur _ (by simpa using h))

theorem tryResumeF_ca {runF : RunF} (H : CAok runF) (p : Bool) (cur : Beh) (s : Vm) (h : s.curAsync = false) :
    (tryResumeF runF p cur s).2.curAsync = false := by
  unfold tryResumeF
  split
  · exact finPhase_ca H cur _ (by simpa using h)
  · exact h


/-! ### boundaries -/

theorem tryB_ca {runF : RunF} (H : CAok runF) (b : Beh) (s : Vm) (h : s.curAsync = false) :
    (tryB runF b s).2.curAsync = false := by
  unfold tryB
  have h1 := H b (pushTryFrame tryPanicMarker (-1) s) (by simpa using h)
  have h2 : ∀ o, (unwindAtMarker runF o (runF b (pushTryFrame tryPanicMarker (-1) s)).2).2.curAsync = false :=
    fun o => unwindAtMarker_ca H o _ h1
  simp only
  repeat' split
  all_goals first | exact h1 | exact h2 _ | simpa using h1

theorem runTryB_ca {runF : RunF} (H : CAok runF) (b : Beh) (s : Vm) (h : s.curAsync = false) :
    (runTryB runF b s).2.curAsync = false := by
  unfold runTryB
  split
  · exact unwindAtMarker_ca H _ _ (by simpa using h)
  · exact tryB_ca H b s h

theorem goCall_ca {runF : RunF} (H : CAok runF) (n : Nat) (f : FnInfo) (b : Beh) (s : Vm) (h : s.curAsync = false) :
    (goCall runF n f b s).2.curAsync = false := by
  unfold goCall
  simp only
  cases he : goCallEnter n f (pushTryFrame tryPanicMarker (-1) { s with sp := s.sp + 2 + n }) with
  | none => simpa using h
  | some pr =>
    obtain ⟨s3, np⟩ := pr
    have h3 : s3.curAsync = false := (goCallEnter_ca he).trans (by simpa using h)
    have h4 := H b s3 h3
    have h5 : ∀ o, (unwindAtMarker runF o (runF b s3).2).2.curAsync = false := fun o => unwindAtMarker_ca H o _ h4
    have h6 : ∀ o, (unwindAtMarker runF o s3).2.curAsync = false := fun o => unwindAtMarker_ca H o _ h3
    simp only
    by_cases hi : s3.interrupted = true
    · simp only [hi, if_true]
      exact h6 _
    · simp only [hi, Bool.false_eq_true, if_false]
      repeat' split
      all_goals first | exact h4 | exact h5 _ | simpa using h4

theorem runJobs_ca {runF : RunF} (H : CAok runF) : ∀ (jobs : List Beh) (s : Vm),
    s.curAsync = false → (runJobs runF jobs s).2.curAsync = false := by
  intro jobs
  induction jobs with
  | nil => intro s h; simpa [runJobs] using h
  | cons j js ih =>
    intro s h
    unfold runJobs
    have h1 := H (.api .try_ j) s h
    simp only
    repeat' split
    all_goals first | exact ih _ h1 | exact h1

theorem leaveLoop_ca {runF : RunF} (H : CAok runF) : ∀ (lf : Nat) (s : Vm),
    s.curAsync = false → (leaveLoop runF lf s).2.curAsync = false := by
  intro lf
  induction lf with
  | zero => intro s h; simpa [leaveLoop] using h
  | succ n ih =>
    intro s h
    unfold leaveLoop
    split
    · exact h
    · have h1 := runJobs_ca H s.jobQueue { s with jobQueue := [] } (by simpa using h)
      simp only
      repeat' split
      all_goals first | exact ih _ h1 | exact h1

theorem leaveOrClear_ca {runF : RunF} (H : CAok runF) (lf : Nat) (o : Outcome) (s : Vm) (h : s.curAsync = false) :
    (leaveOrClear runF lf o s).2.curAsync = false := by
  unfold leaveOrClear
  have h1 := leaveLoop_ca H lf s h
  split
  · simp only
    generalize leaveLoop runF lf s = l at h1 ⊢
    obtain ⟨ol, sl⟩ := l
    cases ol <;> simpa using h1
  · exact h

theorem runWrapped_ca {runF : RunF} (H : CAok runF) (lf : Nat) (b : Beh) (s : Vm) (h : s.curAsync = false) :
    (runWrapped runF lf b s).2.curAsync = false := by
  unfold runWrapped
  have h1 := tryB_ca H b s h
  have h2 : ∀ o, (leaveOrClear runF lf o (tryB runF b s).2).2.curAsync = false := fun o => leaveOrClear_ca H lf o _ h1
  simp only
  repeat' split
  all_goals first | exact h1 | exact h2 _ | simpa using h1

theorem runProgramRec_ca {runF : RunF} (H : CAok runF) (p : Nat) (b : Beh) (s : Vm) (h : s.curAsync = false) :
    (runProgramRec runF p b s).2.curAsync = false := by
  unfold runProgramRec
  cases hp : pushCtx s with
  | none => exact h
  | some s1 =>
    have h1 : s1.curAsync = false := (pushCtx_ca hp).trans h
    simpa using runTryB_ca H b (recEnter p s1) (by simpa using h1)

theorem runProgramOuter_ca {runF : RunF} (H : CAok runF) (lf p : Nat) (b : Beh) (s : Vm) (h : s.curAsync = false) :
    (runProgramOuter runF lf p b s).2.curAsync = false := by
  unfold runProgramOuter
  have h1 := runTryB_ca H b (outerEnter p s) (by simpa using h)
  have h2 := leaveLoop_ca H lf { (runTryB runF b (outerEnter p s)).2 with prg := none, sb := -1 } (by simpa using h1)
  simp only
  repeat' split
  all_goals first | exact h1 | exact h2 | simpa using h1 | simpa using h2


/-! ### generators and async functions -/

theorem genNew_ca (slot n : Nat) (f : FnInfo) (body : Beh) (s : Vm) (h : s.curAsync = false) :
    (genNew slot n f body s).2.curAsync = false := by
  unfold genNew
  simp only
  cases h1 : pushCtx { s with sp := s.sp + 2 + n } with
  | none => simpa using h
  | some s2 =>
    have c2 : s2.curAsync = false := (pushCtx_ca h1).trans (by simpa using h)
    simp only
    split <;> simpa using c2

theorem genResume_ca {runF : RunF} (H : CAok runF) (slot : Nat) (what : Option Beh) (isThrow : Bool) (s : Vm)
    (h : s.curAsync = false) : (genResume runF slot what isThrow s).2.curAsync = false := by
  unfold genResume
  cases hg : getGen s slot with
  | none => simp only; split <;> exact h
  | some g =>
    simp only
    cases g.state with
    | completed => simp only; split <;> exact h
    | executing => exact h
    | suspended =>
      simp only
      split
      · simpa using h
      · cases he : genEnterNext g s with
        | none => simpa using h
        | some s4' =>
          have c4 : (setGen s4' slot { g with state := .executing, started := true }).curAsync = false := by
            simpa using (genEnterNext_ca he).trans h
          simp only
          generalize setGen s4' slot { g with state := .executing, started := true } = s4 at c4 ⊢
          have h5 := H (resumeBody what g.rest) s4 c4
          have h6 : ∀ o, (unwindAtMarker runF o (runF (resumeBody what g.rest) s4).2).2.curAsync = false :=
            fun o => unwindAtMarker_ca H o _ h5
          have h7 : ∀ o, (unwindAtMarker runF o s4).2.curAsync = false := fun o => unwindAtMarker_ca H o _ c4
          by_cases hi : s4.interrupted = true
          · simp only [hi, if_true]
            repeat' split
            all_goals first | exact h7 _ | simpa using h7 _
          · simp only [hi, Bool.false_eq_true, if_false]
            repeat' split
            all_goals first | exact h5 | exact h6 _ | simpa using h5 | simpa using h6 _

theorem asyncNew_ca {runF : RunF} (H : CAok runF) (n : Nat) (f : FnInfo) (body : Beh) (s : Vm)
    (h : s.curAsync = false) : (asyncNew runF n f body s).2.curAsync = false := by
  unfold asyncNew
  cases h1 : actEnter n s with
  | none => simpa using h
  | some s3 =>
    have c3 : s3.curAsync = false := (actEnter_ca h1).trans h
    simp only
    cases h2 : actCall n f s3 with
    | none => simpa using c3
    | some s5 =>
      have c5 : s5.curAsync = false := (actCall_ca h2).trans c3
      have h5 := H body s5 c5
      have h6 : ∀ o, (unwindAtMarker runF o (runF body s5).2).2.curAsync = false := fun o => unwindAtMarker_ca H o _ h5
      have h7 : ∀ o, (unwindAtMarker runF o s5).2.curAsync = false := fun o => unwindAtMarker_ca H o _ c5
      simp only
      by_cases hi : s5.interrupted = true
      · simp only [hi, if_true]
        repeat' split
        all_goals first | exact h7 _ | simpa using h7 _
      · simp only [hi, Bool.false_eq_true, if_false]
        repeat' split
        all_goals first | exact h5 | exact h6 _ | simpa using h5 | simpa using h6 _

/-- the deferred function of onFulfilled / onRejected clears the field on EVERY exit -/
theorem asyncResumeCA_clears (runF : RunF) (id : Nat) (s : Vm) : (asyncResumeCA runF id s).2.curAsync = false := rfl

/-! ### one layer, all fuels, the API -/

theorem seqRes_ca {runF : RunF} (H : CAok runF) (a b : Beh) (s : Vm) (h : s.curAsync = false) :
    (seqRes runF a b s).2.curAsync = false := by
  unfold seqRes
  have h1 := H a s h
  have h2 := H b _ h1
  simp only
  repeat' split
  all_goals first | exact h2 | exact h1 | simpa using h1

theorem yieldThenRes_ca {runF : RunF} (H : CAok runF) (a b : Beh) (s : Vm) (h : s.curAsync = false) :
    (yieldThenRes runF a b s).2.curAsync = false := by
  unfold yieldThenRes
  have h1 := H a s h
  simp only
  repeat' split
  all_goals first | exact h1 | simpa using h1

theorem frameExit_ca {runF : RunF} (H : CAok runF) (k : FrameKind) (ret : Beh) (e : ExitKind) (s : Vm)
    (h : s.curAsync = false) : (frameExit runF k ret e s).2.curAsync = false := by
  have h1 : (k.post s).curAsync = false := by simpa using h
  have h2 := H ret _ h1
  cases k <;> simp only [frameExit] <;> (try (repeat' split)) <;>
    first | exact h1 | exact h2 | simpa using h | simpa using h1 | simpa using h2

theorem frameYield_ca (k : FrameKind) (ret : Beh) (s : Vm) (h : s.curAsync = false) :
    (frameYield k ret s).2.curAsync = false := by
  cases k <;> simpa [frameYield] using h

theorem swallowRes_ca (k : Boundary) (s : Vm) (r : Res) (h : r.2.curAsync = false) :
    (swallowRes k s r).2.curAsync = false := by
  unfold swallowRes
  repeat' split
  all_goals first | exact h | simpa using h

theorem apiNode_ca {runF : RunF} (H : CAok runF) (lf : Nat) (k : Boundary) (b : Beh) (s : Vm) (h : s.curAsync = false) :
    (apiNode lf runF k b s).2.curAsync = false := by
  cases k with
  | try_ => exact tryB_ca H b s h
  | runWrapped => exact runWrapped_ca H lf b s h
  | runProgramRec => exact runProgramRec_ca H 7 b s h
  | runProgram =>
    simp only [apiNode]
    split
    · exact runProgramRec_ca H 7 b s h
    · exact runProgramOuter_ca H lf 7 b s h

theorem step_ca {runF : RunF} (H : CAok runF) (lf : Nat) : CAok (step lf runF) := by
  intro b s h
  cases b with
  | skip => exact h
  | seq a b => simpa [step] using seqRes_ca H a b s h
  | probe id => simpa [step] using probe_ca id s h
  | break_ => exact h
  | return_ => exact h
  | throw_ => exact h
  | intr => simpa [step] using h
  | frame k ret body =>
    simp only [step]
    cases hp : k.pre ret s with
    | none => exact h
    | some s1 =>
      have c1 : s1.curAsync = false := (pre_ca hp).trans h
      have h1 := H body s1 c1
      have h2 : ∀ e, (frameExit runF k ret e (runF body s1).2).2.curAsync = false := fun e => frameExit_ca H k ret e _ h1
      have h3 := frameYield_ca k ret _ h1
      simp only
      repeat' split
      all_goals first | exact h1 | exact h2 _ | exact h3 | simpa using h1
  | try_ hc hf body handler fin =>
    simp only [step]
    split
    · exact tryStmt_ca H hc hf body handler fin s h
    · exact H body s h
  | goCall n f b => simpa [step] using goCall_ca H n f b s h
  | api k b => simpa [step] using apiNode_ca H lf k b s h
  | swallow k b => simpa [step] using swallowRes_ca k s _ (apiNode_ca H lf k b s h)
  | job b => simpa [step] using h
  | yieldThen a b => simpa [step] using yieldThenRes_ca H a b s h
  | resumePoint => exact h
  | yield_ => simpa [step] using h
  | tryH hf cur fin => simpa [step] using tryResumeH_ca H hf cur fin s h
  | tryF p cur => simpa [step] using tryResumeF_ca H p cur s h
  | genNew slot n f body => simpa [step] using genNew_ca slot n f body s h
  | genNext slot => simpa [step] using genResume_ca H slot none false s h
  | genThrow slot => simpa [step] using genResume_ca H slot (some .throw_) true s h
  | genReturn slot => simpa [step] using genResume_ca H slot (some .return_) false s h
  | asyncNew n f body => simpa [step] using asyncNew_ca H n f body s h
  | asyncResume id => simp [step, asyncResumeCA]

theorem run_ca : ∀ fuel, CAok (run fuel) := by
  intro fuel
  induction fuel with
  | zero => intro b s h; simpa [run] using h
  | succ n ih => exact step_ca ih n

theorem runtimeTry_ca (fuel : Nat) (b : Beh) (s : Vm) (h : s.curAsync = false) :
    (runtimeTry fuel b s).2.curAsync = false := by
  unfold runtimeTry
  have h1 := tryB_ca (run_ca fuel) b s h
  simp only
  repeat' split
  all_goals first | exact h1 | simpa using h1

/-- **no API call leaves vm.curAsyncRunner set** — whatever runs inside (async continuations from the job queue
included) and however it ends (normal, thrown, interrupt, stack overflow in the continuation) -/
theorem apiCall_ca (fuel : Nat) (k : TopApi) (b : Beh) (s : Vm) (h : s.curAsync = false) :
    (apiCall fuel k b s).2.curAsync = false := by
  have H := run_ca fuel
  cases k with
  | runProgram =>
    simp only [apiCall]
    split
    · exact runProgramRec_ca H 7 b s h
    · exact runProgramOuter_ca H fuel 7 b s h
  | callable n f => exact runWrapped_ca H fuel _ s h
  | constructor n f => exact runWrapped_ca H fuel _ s h
  | try_ => exact runtimeTry_ca fuel b s h
  | tryGet f => exact runtimeTry_ca fuel _ s h

end GojaModel.C03
