/-
  C03 — per-node lemmas: the run loop under a marker, __call, RunProgram (recursive), leave, runWrapped.
-/
import GojaModel.C03.Lemmas3

namespace GojaModel.C03

/-- `runTry` / the run loop of a boundary is balanced, also when the interrupt flag is already set -/
theorem runTryB_spec {runF : RunF} (HG : HypG runF) (HA : HypA runF) (b : Beh) (s : Vm) (hI : Inv s) :
    ApiGood s (runTryB runF b s) := by
  unfold runTryB
  split
  · have := unwind_after_body HA .fatal false (by simp) s (pushTryFrame tryPanicMarker (-1) s)
      (pushTryFrame tryPanicMarker (-1) s) hI ((Same.refl _).toExt false) rfl ((Same.refl _).toExt false) _ rfl
    obtain ⟨a1, a2, a3, a4, a5, a6, a7, a8, a9, a10, a11, a12⟩ := this
    have hne := unwind_no_exit runF .fatal (pushTryFrame tryPanicMarker (-1) s)
    refine ⟨⟨a1, hne.1, hne.2⟩, mkSame ⟨a4, a5, a6, a7, a8, a9, a10, a11⟩, fun hnf => ?_⟩
    cases hu : (unwindAtMarker runF .fatal (pushTryFrame tryPanicMarker (-1) s)).1 with
    | thrown => have := a3 hu; simp at this
    | fatal => exact absurd hu hnf
    | normal => exact absurd hu a2
    | stuck => exact absurd hu a1
    | exit e => exact absurd hu (hne.1 e)
    | yielded => exact absurd hu hne.2
  · exact tryB_spec HG HA b s hI

/-! ### __call -/

theorem goCallEnter_spec (n : Nat) (f : FnInfo) (s1 s3 : Vm) (np : Bool)
    (h : goCallEnter n f s1 = some (s3, np)) :
    ∃ c1 : Ctx, c1.regs = s1.regs ∧ c1.stash = s1.stash ∧ c1.privEnv = s1.privEnv ∧
      s3.callStack = (if np then s1.callStack ++ [c1, ⟨none, [], [], 0, 0, -2, 0, 0⟩] else s1.callStack ++ [c1]) ∧
      s3.tryStack = s1.tryStack ∧ s3.iterStack = s1.iterStack ∧ s3.refStack = s1.refStack ∧
      s3.interrupted = s1.interrupted ∧ s3.sb = s1.sp - n - 1 ∧ s3.sp = s1.sp := by
  unfold goCallEnter at h
  simp only [Option.map_eq_some_iff] at h
  obtain ⟨⟨s2, np2⟩, hp, heq⟩ := h
  simp only [Prod.mk.injEq] at heq
  obtain ⟨rfl, rfl⟩ := heq
  split at hp
  · simp only [Option.map_eq_some_iff, Prod.mk.injEq] at hp
    obtain ⟨t, ht, rfl, rfl⟩ := hp
    have := pushCtx_some ht; subst this
    exact ⟨saveCtx s1, by simp [saveCtx, Ctx.regs, Vm.regs], rfl, rfl, by simp, rfl, rfl, rfl, rfl, rfl, rfl⟩
  · simp only [Option.map_eq_some_iff, Prod.mk.injEq] at hp
    obtain ⟨t, ht, rfl, rfl⟩ := hp
    have := pushCtx_some ht; subst this
    exact ⟨saveCtx { s1 with pc := -2 }, by simp [saveCtx, Ctx.regs, Vm.regs], rfl, rfl, by simp, rfl, rfl, rfl, rfl, rfl, rfl⟩

/-- the normal return path of __call puts everything back, result popped -/
theorem goCallRet_spec (n : Nat) (s sF s1 s3 s4 : Vm) (np : Bool) (c1 : Ctx)
    (hsF : sF = { s with sp := s.sp + 2 + n }) (hs1 : s1 = pushTryFrame tryPanicMarker (-1) sF)
    (hc1 : c1.regs = s1.regs) (hst : c1.stash = s1.stash) (hpe : c1.privEnv = s1.privEnv)
    (hcs : s3.callStack = (if np then s1.callStack ++ [c1, ⟨none, [], [], 0, 0, -2, 0, 0⟩] else s1.callStack ++ [c1]))
    (hts : s3.tryStack = s1.tryStack) (his : s3.iterStack = s1.iterStack) (hrs : s3.refStack = s1.refStack)
    (hsb : s3.sb = s1.sp - n - 1) (h4 : Same s3 s4) :
    Same s (goCallRet np s4) ∧ (goCallRet np s4).interrupted = s4.interrupted := by
  have hr := h4.regs
  simp only [Vm.regs, Regs.mk.injEq] at hr
  have hsb4 : s4.sb = s.sp + 1 := by rw [hr.2.1, hsb, hs1, hsF]; simp [pushTryFrame]; omega
  have hc1' := hc1
  simp only [Ctx.regs, Vm.regs, Regs.mk.injEq] at hc1'
  subst hs1 hsF
  unfold goCallRet
  cases np with
  | true =>
    simp only [if_true] at hcs ⊢
    have e1 : ({ s4 with sp := s4.sb } : Vm).callStack = (s.callStack ++ [c1]) ++ [⟨none, [], [], 0, 0, -2, 0, 0⟩] := by
      simp [h4.cs, hcs, pushTryFrame]
    rw [popCtx_snoc _ _ _ e1]
    rw [popCtx_snoc _ s.callStack c1 (by simp)]
    refine ⟨⟨?_, ?_, ?_, ?_, ?_, ?_, ?_, ?_⟩, ?_⟩
    · simp [popTryFrame, restoreCtx]; omega
    · simp [popTryFrame, restoreCtx, Vm.regs, hc1'.1, hc1'.2.1, hc1'.2.2.1, hc1'.2.2.2, pushTryFrame]
    · simp [popTryFrame, restoreCtx, hst, pushTryFrame]
    · simp [popTryFrame, restoreCtx, hpe, pushTryFrame]
    · simp [popTryFrame, restoreCtx]
    · simp [popTryFrame, restoreCtx, h4.ts, hts, pushTryFrame]
    · simp [popTryFrame, restoreCtx, h4.is, his, pushTryFrame]
    · simp [popTryFrame, restoreCtx, h4.rs, hrs, pushTryFrame]
    · simp [popTryFrame, restoreCtx]
  | false =>
    simp only [Bool.false_eq_true, if_false] at hcs ⊢
    have e1 : ({ s4 with sp := s4.sb } : Vm).callStack = s.callStack ++ [c1] := by
      simp [h4.cs, hcs, pushTryFrame]
    rw [popCtx_snoc _ _ _ e1]
    refine ⟨⟨?_, ?_, ?_, ?_, ?_, ?_, ?_, ?_⟩, ?_⟩
    · simp [popTryFrame, restoreCtx]; omega
    · simp [popTryFrame, restoreCtx, Vm.regs, hc1'.1, hc1'.2.1, hc1'.2.2.1, hc1'.2.2.2, pushTryFrame]
    · simp [popTryFrame, restoreCtx, hst, pushTryFrame]
    · simp [popTryFrame, restoreCtx, hpe, pushTryFrame]
    · simp [popTryFrame, restoreCtx]
    · simp [popTryFrame, restoreCtx, h4.ts, hts, pushTryFrame]
    · simp [popTryFrame, restoreCtx, h4.is, his, pushTryFrame]
    · simp [popTryFrame, restoreCtx, h4.rs, hrs, pushTryFrame]
    · simp [popTryFrame, restoreCtx]

/-- `__call` obeys the discipline: normal ⇒ everything back; throw / uncatchable ⇒ everything back except
`sp` (the pushed callee/this/args stay until the enclosing frame restores its snapshot) -/
theorem goCall_good {runF : RunF} (HG : HypG runF) (HA : HypA runF) (n : Nat) (f : FnInfo) (b : Beh)
    (s : Vm) (hI : Inv s) : Good s (goCall runF n f b s) := by
  unfold goCall
  have hIF : Inv ({ s with sp := s.sp + 2 + n } : Vm) := inv_of_eq rfl rfl hI
  obtain ⟨p1, p2, p3, p4, p5, p6, p7, p8⟩ := pushTryFrame_same tryPanicMarker (-1) ({ s with sp := s.sp + 2 + n } : Vm)
  simp only
  generalize hs1 : pushTryFrame tryPanicMarker (-1) ({ s with sp := s.sp + 2 + n } : Vm) = s1 at p1 p2 p3 p4 p5 p6 p7 p8 ⊢
  cases he : goCallEnter n f s1 with
  | none =>
    simp only
    have : Ext false s (popTryFrame s1) :=
      ⟨⟨[], by simp [popTryFrame, p5, levelRegs]; simpa [Vm.regs, popTryFrame] using p2⟩,
       ⟨[], by simp [popTryFrame, p6]⟩, ⟨[], by simp [popTryFrame, p7]⟩,
       ⟨[], by simp [popTryFrame, ← hs1, pushTryFrame]⟩⟩
    exact ⟨by simpa [GoodCtl] using this, by simp [Quiet]⟩
  | some pr =>
    obtain ⟨s3, np⟩ := pr
    obtain ⟨c1, hc1, hst, hpe, hcs, hts, his, hrs, hq3, hsb, hsp3⟩ := goCallEnter_spec n f s1 s3 np he
    have hI3 : Inv s3 := inv_of_ne (by rw [hcs]; split <;> simp)
    -- the body starts in an extension of the marker state
    have hB : Ext false s1 s3 := by
      refine ⟨⟨(if np then [c1, ⟨none, [], [], 0, 0, -2, 0, 0⟩] else [c1]), ?_, ?_⟩, ⟨[], by simp [his]⟩,
        ⟨[], by simp [hrs]⟩, ⟨[], by simp [hts]⟩⟩
      · rw [hcs]; split <;> simp
      · split <;> simpa [levelRegs] using hc1
    have unwind : ∀ (o : Outcome) (c : Bool) (s4 : Vm), (o = .thrown → c = true) → Ext c s3 s4 →
        (o ≠ .fatal → s4.interrupted = s3.interrupted) →
        Good s (unwindAtMarker runF o s4) := by
      intro o c s4 hcc hext hq4
      have := unwind_after_body HA o c hcc ({ s with sp := s.sp + 2 + n } : Vm) s3 s4 hIF
        (by rw [hs1]; exact hB) (by rw [hs1]; exact hts) hext _ rfl
      obtain ⟨a1, a2, a3, a4, a5, a6, a7, a8, a9, a10, a11, a12⟩ := this
      have hext' : ∀ k, Ext k s (unwindAtMarker runF o s4).2 :=
        fun k => ⟨⟨[], by simp [a8, levelRegs]; simpa [Vm.regs] using a5⟩, ⟨[], by simp [a10]⟩,
          ⟨[], by simp [a11]⟩, ⟨[], by simp [a9]⟩⟩
      refine ⟨?_, fun hnf => ?_⟩
      · unfold GoodCtl
        cases hu : (unwindAtMarker runF o s4).1 with
        | normal => exact absurd hu a2
        | stuck => exact absurd hu a1
        | thrown => simpa using hext' true
        | fatal => simpa using hext' false
        | exit e => exact absurd hu ((unwind_no_exit runF o s4).1 e)
        | yielded => exact absurd hu (unwind_no_exit runF o s4).2
      · have ho : o = .thrown := by
          cases hu : (unwindAtMarker runF o s4).1 with
          | thrown => exact a3 hu
          | fatal => exact absurd hu hnf
          | normal => exact absurd hu a2
          | stuck => exact absurd hu a1
          | exit e => exact absurd hu ((unwind_no_exit runF o s4).1 e)
          | yielded => exact absurd hu (unwind_no_exit runF o s4).2
        rw [a12 hnf, hq4 (by simp [ho]), hq3, p8]
    simp only
    by_cases hint : s3.interrupted = true
    · simp only [hint, if_true]
      exact unwind .fatal false s3 (by simp) ((Same.refl s3).toExt false) (by simp)
    · simp only [hint, Bool.false_eq_true, if_false]
      have hg := HG b s3 hI3
      generalize runF b s3 = r at hg
      obtain ⟨o, s4⟩ := r
      obtain ⟨hc, hq⟩ := hg
      cases o with
      | normal =>
        simp only [GoodCtl] at hc
        obtain ⟨hsame, hqq⟩ := goCallRet_spec n s _ s1 s3 s4 np c1 rfl hs1.symm hc1 hst hpe hcs hts his hrs hsb hc
        exact ⟨by simpa [GoodCtl] using hsame,
          fun _ => by simp only; rw [hqq, hq (by simp), hq3, p8]⟩
      | exit e =>
        simp only [GoodCtl] at hc
        obtain ⟨hsame, hqq⟩ := goCallRet_spec n s _ s1 s3 s4 np c1 rfl hs1.symm hc1 hst hpe hcs hts his hrs hsb hc
        exact ⟨by simpa [GoodCtl] using hsame,
          fun _ => by simp only; rw [hqq, hq (by simp), hq3, p8]⟩
      | stuck => simp [GoodCtl] at hc
      | thrown => exact unwind .thrown true s4 (fun _ => rfl) hc hq
      | fatal => exact unwind .fatal false s4 (by simp) hc (by simp)
      | yielded => simp only [GoodCtl] at hc; exact unwind .fatal false s4 (by simp) hc.1 (by simp)

/-! ### RunProgram, recursive -/

theorem runProgramRec_spec {runF : RunF} (HG : HypG runF) (HA : HypA runF) (p : Nat) (b : Beh)
    (s : Vm) (_hI : Inv s) : ApiGood s (runProgramRec runF p b s) := by
  unfold runProgramRec
  cases hp : pushCtx s with
  | none => exact ⟨⟨by simp, by simp, by simp⟩, Same.refl s, fun _ => rfl⟩
  | some s1 =>
    have := pushCtx_some hp; subst this
    simp only
    have hI2 : Inv (recEnter p { s with callStack := s.callStack ++ [saveCtx s] }) :=
      inv_of_ne (by simp [recEnter])
    have ha := runTryB_spec HG HA b _ hI2
    generalize runTryB runF b (recEnter p { s with callStack := s.callStack ++ [saveCtx s] }) = r at ha
    obtain ⟨o, s4⟩ := r
    obtain ⟨h1, h2, h3⟩ := ha
    refine ⟨h1, ?_, fun hnf => ?_⟩
    · have hcs : ({ s4 with sp := s4.sp - 2 } : Vm).callStack = s.callStack ++ [saveCtx s] := by
        simpa [recEnter] using h2.cs
      unfold recExit
      rw [popCtx_snoc _ _ _ hcs]
      refine ⟨?_, ?_, ?_, ?_, rfl, ?_, ?_, ?_⟩
      · have := h2.sp; simp [recEnter] at this; simp [restoreCtx]; omega
      · simp [restoreCtx, saveCtx, Vm.regs]
      · simp [restoreCtx, saveCtx]
      · simp [restoreCtx, saveCtx]
      · simpa [restoreCtx, recEnter] using h2.ts
      · simpa [restoreCtx, recEnter] using h2.is
      · simpa [restoreCtx, recEnter] using h2.rs
    · have hcs : ({ s4 with sp := s4.sp - 2 } : Vm).callStack = s.callStack ++ [saveCtx s] := by
        simpa [recEnter] using h2.cs
      unfold recExit
      rw [popCtx_snoc _ _ _ hcs]
      have := h3 hnf
      simpa [restoreCtx, recEnter] using this

/-! ### leave / runWrapped -/

theorem runJobs_spec {runF : RunF} (HA : HypA runF) : ∀ (jobs : List Beh) (s : Vm), Inv s →
    ((runJobs runF jobs s).1 ≠ .stuck ∧ (∀ e, (runJobs runF jobs s).1 ≠ .exit e) ∧ (runJobs runF jobs s).1 ≠ .yielded) ∧ (runJobs runF jobs s).1 ≠ .thrown ∧ Same s (runJobs runF jobs s).2 ∧
    Quiet s (runJobs runF jobs s) := by
  intro jobs
  induction jobs with
  | nil => intro s _; exact ⟨⟨by simp [runJobs], by simp [runJobs], by simp [runJobs]⟩, by simp [runJobs], Same.refl s, fun _ => rfl⟩
  | cons j js ih =>
    intro s hI
    unfold runJobs
    have ha := HA j s hI
    generalize runF (.api .try_ j) s = r at ha
    obtain ⟨o, s1⟩ := r
    obtain ⟨h1, h2, h3⟩ := ha
    have ih1 := ih s1 (h2.inv hI)
    cases o <;> simp only
    · exact ⟨ih1.1, ih1.2.1, h2.trans ih1.2.2.1, fun hn => (ih1.2.2.2 hn).trans (h3 (by simp))⟩
    · exact ⟨ih1.1, ih1.2.1, h2.trans ih1.2.2.1, fun hn => (ih1.2.2.2 hn).trans (h3 (by simp))⟩
    · exact ⟨⟨by simp, by simp, by simp⟩, by simp, h2, by simp [Quiet]⟩
    · exact absurd rfl h1.1
    · rename_i e; exact absurd rfl (h1.2.1 e)
    · exact absurd rfl h1.2.2

/-- leave (runtime.go): whatever the jobs do, the control state is untouched; a normal return means the
queue is empty -/
theorem leaveLoop_spec {runF : RunF} (HA : HypA runF) : ∀ (lf : Nat) (s : Vm), Inv s →
    ((leaveLoop runF lf s).1 ≠ .stuck ∧ (∀ e, (leaveLoop runF lf s).1 ≠ .exit e) ∧ (leaveLoop runF lf s).1 ≠ .yielded) ∧ (leaveLoop runF lf s).1 ≠ .thrown ∧ Same s (leaveLoop runF lf s).2 ∧
    Quiet s (leaveLoop runF lf s) ∧
    ((leaveLoop runF lf s).1 = .normal → (leaveLoop runF lf s).2.jobQueue = []) := by
  intro lf
  induction lf with
  | zero => intro s _; exact ⟨⟨by simp [leaveLoop], by simp [leaveLoop], by simp [leaveLoop]⟩, by simp [leaveLoop], Same.refl s, by simp [Quiet, leaveLoop], by simp [leaveLoop]⟩
  | succ n ih =>
    intro s hI
    unfold leaveLoop
    split
    · rename_i hq
      exact ⟨⟨by simp, by simp, by simp⟩, by simp, Same.refl s, fun _ => rfl, fun _ => hq⟩
    · have hI0 : Inv ({ s with jobQueue := [] } : Vm) := inv_of_eq rfl rfl hI
      have hj := runJobs_spec HA s.jobQueue { s with jobQueue := [] } hI0
      simp only
      generalize runJobs runF s.jobQueue { s with jobQueue := [] } = r at hj
      obtain ⟨o, s1⟩ := r
      obtain ⟨j1, j2, j3, j4⟩ := hj
      have j3' : Same s s1 := ⟨j3.sp, j3.regs, j3.stash, j3.privEnv, j3.cs, j3.ts, j3.is, j3.rs⟩
      cases o with
      | normal =>
        simp only
        have ih1 := ih s1 (j3'.inv hI)
        exact ⟨ih1.1, ih1.2.1, j3'.trans ih1.2.2.1, fun hn => (ih1.2.2.2.1 hn).trans (j4 (by simp)), ih1.2.2.2.2⟩
      | thrown => exact absurd rfl j2
      | fatal => exact ⟨⟨by simp, by simp, by simp⟩, by simp, j3', by simp [Quiet], by simp⟩
      | stuck => exact absurd rfl j1.1
      | exit e => exact absurd rfl (j1.2.1 e)
      | yielded => exact absurd rfl j1.2.2

theorem leaveAbrupt_same {s : Vm} (hI : Inv s) (h0 : s.callStack.length = 0) : Same s (leaveAbrupt s) := by
  have hc : s.callStack = [] := List.length_eq_zero_iff.mp h0
  obtain ⟨hp, hb⟩ := hI hc
  exact ⟨rfl, by simp [leaveAbrupt, Vm.regs, hp, hb], rfl, rfl, rfl, rfl, rfl, rfl⟩

/-- **runWrapped is balanced** (Callable / Constructor / ExportTo'd functions) -/
theorem runWrapped_spec {runF : RunF} (HG : HypG runF) (HA : HypA runF) (lf : Nat) (b : Beh) (s : Vm)
    (hI : Inv s) : ApiGood s (runWrapped runF lf b s) := by
  unfold runWrapped
  have ha := tryB_spec HG HA b s hI
  generalize tryB runF b s = r at ha
  obtain ⟨o, s1⟩ := r
  obtain ⟨h1, h2, h3⟩ := ha
  have hI1 := h2.inv hI
  have tail : ∀ (oo : Outcome), oo ≠ .fatal → (oo ≠ .stuck ∧ (∀ e, oo ≠ .exit e) ∧ oo ≠ .yielded) → s1.interrupted = s.interrupted →
      ApiGood s (leaveOrClear runF lf oo s1) := by
    intro oo hnf hns hq1
    unfold leaveOrClear
    split
    · rename_i h0
      obtain ⟨l1, l2, l3, l4, _⟩ := leaveLoop_spec HA lf s1 hI1
      simp only
      generalize leaveLoop runF lf s1 = l at l1 l2 l3 l4
      obtain ⟨ol, sl⟩ := l
      cases ol with
      | normal => exact ⟨hns, h2.trans l3, fun _ => (l4 (by simp)).trans hq1⟩
      | stuck => exact absurd rfl l1.1
      | exit e => exact absurd rfl (l1.2.1 e)
      | yielded => exact absurd rfl l1.2.2
      | thrown => exact absurd rfl l2
      | fatal =>
        refine ⟨⟨by simp, by simp, by simp⟩, (h2.trans l3).trans (leaveAbrupt_same (l3.inv hI1) ?_), by simp [Quiet]⟩
        rw [l3.cs]; exact h0
    · exact ⟨hns, h2, fun _ => hq1⟩
  cases o with
  | normal => exact tail .normal (by simp) ⟨by simp, by simp, by simp⟩ (h3 (by simp))
  | thrown => exact tail .thrown (by simp) ⟨by simp, by simp, by simp⟩ (h3 (by simp))
  | stuck => exact absurd rfl h1.1
  | exit e => exact absurd rfl (h1.2.1 e)
  | yielded => exact absurd rfl h1.2.2
  | fatal =>
    simp only
    refine ⟨⟨by simp, by simp, by simp⟩, ?_, by simp [Quiet]⟩
    split
    · rename_i h0; exact h2.trans (leaveAbrupt_same hI1 h0)
    · exact h2

end GojaModel.C03
