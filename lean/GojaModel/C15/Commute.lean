/-
  C15 — commutation in the interleaving model.  A state factors into SHARED CELLS (flag, value, lock, interrupter
  program counters, history) and RUNNER CONTROL (runner pc, depth, queue, counters, result).  The four actions of an
  Interrupt call read and write only the cells; the runner's local actions (everything except its poll, its
  lock/read/unlock and the outermost recover) read and write only the control part.  Hence they commute, and any placement
  of the four actions among poll-free runner actions has the same result as the canonical placement the sequential
  interpreter emits: all four together, immediately before the next poll.
-/
import GojaModel.C15.Lemmas

namespace GojaModel.C15.Conc

structure Cells where
  flag : Bool
  val : Nat
  lock : Option Nat
  ipc : Nat → IPc
  hist : List Nat

structure Ctl where
  rpc : RPc
  depth : Nat
  inLeave : Bool
  queue : Nat
  execs : Nat
  result : Option Nat

def cells (s : S) : Cells := ⟨s.flag, s.val, s.lock, s.ipc, s.hist⟩
def ctl (s : S) : Ctl := ⟨s.rpc, s.depth, s.inLeave, s.queue, s.execs, s.result⟩
def mk (c : Cells) (k : Ctl) : S :=
  { flag := c.flag, val := c.val, lock := c.lock, ipc := c.ipc, hist := c.hist,
    rpc := k.rpc, depth := k.depth, inLeave := k.inLeave, queue := k.queue, execs := k.execs, result := k.result }

theorem mk_cells_ctl (s : S) : mk (cells s) (ctl s) = s := rfl
theorem cells_mk (c : Cells) (k : Ctl) : cells (mk c k) = c := rfl
theorem ctl_mk (c : Cells) (k : Ctl) : ctl (mk c k) = k := rfl

/-- the actions of an interrupting goroutine, on the cells alone -/
def istep (c : Cells) : Label → Option Cells
  | .iLock t v => if c.ipc t = .idle ∧ c.lock = none then some { c with lock := some (t + 1), ipc := setI c.ipc t (.locked v) } else none
  | .iWrite t => match c.ipc t with
    | .locked v => some { c with val := v, hist := c.hist ++ [v], ipc := setI c.ipc t (.wrote v) }
    | _ => none
  | .iStore t => match c.ipc t with
    | .wrote _ => some { c with flag := true, ipc := setI c.ipc t .stored }
    | _ => none
  | .iUnlock t => match c.ipc t with
    | .stored => some { c with lock := none, ipc := setI c.ipc t .idle }
    | _ => none
  | _ => none

def isI : Label → Bool
  | .iLock _ _ => true
  | .iWrite _ => true
  | .iStore _ => true
  | .iUnlock _ => true
  | _ => false

theorem step_isI (s : S) (a : Label) (ha : isI a = true) :
    step s a = (istep (cells s) a).map (fun c' => mk c' (ctl s)) := by
  cases a <;> simp [isI] at ha
  case iLock t v =>
    simp only [step, istep, cells]
    by_cases h : s.ipc t = .idle ∧ s.lock = none <;> simp [h, mk, ctl]
  all_goals (simp only [step, istep, cells] <;> (repeat' split) <;> simp_all [mk, ctl])

/-- the runner's local actions, on the control part alone -/
def rstep (k : Ctl) : Label → Option Ctl
  | .rCall => if k.rpc = .idle then some { k with rpc := .poll, depth := 0, inLeave := false, result := none } else none
  | .rInstr enq => if k.rpc = .exec then some { k with rpc := .poll, execs := k.execs + 1, queue := if enq then k.queue + 1 else k.queue } else none
  | .rInstrEnter => if k.rpc = .exec then some { k with rpc := .poll, execs := k.execs + 1, depth := k.depth + 1 } else none
  | .rHalt =>
    if k.rpc = .exec then
      if k.depth = 0 then some { k with rpc := .leaving, inLeave := true } else some { k with rpc := .native }
    else none
  | .rReenter => if k.rpc = .native then some { k with rpc := .poll } else none
  | .rNativeRet =>
    if k.rpc = .native ∧ 0 < k.depth then
      if k.inLeave ∧ k.depth = 1 then some { k with rpc := .leaving, depth := 0 }
      else some { k with rpc := .poll, depth := k.depth - 1 }
    else none
  | .rJob => if k.rpc = .leaving ∧ 0 < k.queue then some { k with rpc := .poll, depth := 1, queue := k.queue - 1 } else none
  | .rLeaveDone => if k.rpc = .leaving ∧ k.queue = 0 then some { k with rpc := .idle, inLeave := false } else none
  | .rUnwind =>
    match k.rpc with
    | .raised v => if 0 < k.depth then some { k with rpc := .raised v, depth := k.depth - 1 } else none
    | _ => none
  | .rSwallow =>
    match k.rpc with
    | .raised _ => if 0 < k.depth then some { k with rpc := .native } else none
    | _ => none
  | .rCtl =>
    match k.rpc with
    | .poll => some { k with rpc := .poll }
    | .exec => some { k with rpc := .poll }
    | .native => some { k with rpc := .poll }
    | .raised _ => some { k with rpc := .poll }
    | _ => none
  | .rExit => if k.rpc = .poll then some { k with rpc := .idle } else none
  | _ => none

/-- runner actions that read or write no shared cell -/
def runnerLocal : Label → Bool
  | .rCall => true
  | .rInstr _ => true
  | .rInstrEnter => true
  | .rHalt => true
  | .rReenter => true
  | .rNativeRet => true
  | .rJob => true
  | .rLeaveDone => true
  | .rUnwind => true
  | .rSwallow => true
  | .rCtl => true
  | .rExit => true
  | _ => false

theorem step_runnerLocal (s : S) (b : Label) (hb : runnerLocal b = true) :
    step s b = (rstep (ctl s) b).map (fun k' => mk (cells s) k') := by
  cases b <;> simp [runnerLocal] at hb
  case rNativeRet =>
    simp only [step, rstep, ctl]
    by_cases h : s.rpc = .native ∧ 0 < s.depth
    · by_cases h2 : s.inLeave = true ∧ s.depth = 1 <;> simp [h, h2, mk, cells]
    · simp [h]
  case rJob =>
    simp only [step, rstep, ctl]
    by_cases h : s.rpc = .leaving ∧ 0 < s.queue <;> simp [h, mk, cells]
  case rLeaveDone =>
    simp only [step, rstep, ctl]
    by_cases h : s.rpc = .leaving ∧ s.queue = 0 <;> simp [h, mk, cells]
  all_goals (simp only [step, rstep, ctl] <;> (repeat' split) <;> simp_all [mk, cells])

def isStoreL : Label → Bool
  | .iStore _ => true
  | _ => false

/-- an interrupter action and a runner-local action commute -/
theorem comm_i_r (s : S) (a b : Label) (ha : isI a = true) (hb : runnerLocal b = true) :
    run s [a, b] = run s [b, a] := by
  simp only [run, step_isI _ a ha, step_runnerLocal _ b hb]
  cases hi : istep (cells s) a <;> cases hr : rstep (ctl s) b <;>
    simp [cells_mk, ctl_mk, hi, hr]

theorem run_cons (s : S) (l : Label) (ls : List Label) : run s (l :: ls) = (step s l).bind (fun s' => run s' ls) := by
  simp only [run]; cases step s l <;> rfl

theorem run_pair (s : S) (a b : Label) (ls : List Label) :
    run s (a :: b :: ls) = (run s [a, b]).bind (fun s' => run s' ls) := by
  have := run_append s [a, b] ls
  simpa using this

/-- an interrupter action moves to the right past any list of runner-local actions -/
theorem bubble_right (a : Label) (ha : isI a = true) (bs : List Label) (hbs : ∀ b ∈ bs, runnerLocal b = true) :
    ∀ s : S, run s (a :: bs) = run s (bs ++ [a]) := by
  induction bs with
  | nil => intro s; rfl
  | cons b bs ih =>
    intro s
    have hb : runnerLocal b = true := hbs b (by simp)
    rw [run_pair, comm_i_r s a b ha hb, ← run_pair]
    simp only [List.cons_append]
    rw [run_cons s b (a :: bs), run_cons s b (bs ++ [a])]
    cases step s b with
    | none => rfl
    | some s1 => exact ih (fun x hx => hbs x (by simp [hx])) s1

/-- THE CANONICAL FORM within a poll-free stretch: wherever the four actions of Interrupt(v) by goroutine t fall among
    runner actions that touch no shared cell, the result is the same as when all four are taken together at the end of
    the stretch, i.e. immediately before the runner's next poll — the placement the sequential interpreter emits for
    `Cfg.ext`.  (`rest` = whatever follows, starting with that poll.) -/
theorem interrupt_actions_commute_to_next_poll (s : S) (t v : Nat) (b1 b2 b3 b4 rest : List Label)
    (h1 : ∀ b ∈ b1, runnerLocal b = true) (h2 : ∀ b ∈ b2, runnerLocal b = true)
    (h3 : ∀ b ∈ b3, runnerLocal b = true) (h4 : ∀ b ∈ b4, runnerLocal b = true) :
    run s (Label.iLock t v :: b1 ++ Label.iWrite t :: b2 ++ Label.iStore t :: b3 ++ Label.iUnlock t :: b4 ++ rest) =
    run s (b1 ++ b2 ++ b3 ++ b4 ++ [Label.iLock t v, Label.iWrite t, Label.iStore t, Label.iUnlock t] ++ rest) := by
  -- generic step: move one interrupter action right past one runner-local block, under arbitrary context
  have mv : ∀ (s : S) (pre : List Label) (a : Label) (bs post : List Label), isI a = true →
      (∀ b ∈ bs, runnerLocal b = true) → run s (pre ++ a :: bs ++ post) = run s (pre ++ bs ++ a :: post) := by
    intro s pre a bs post ha hbs
    have e1 : pre ++ a :: bs ++ post = pre ++ ((a :: bs) ++ post) := by simp
    have e2 : pre ++ bs ++ a :: post = pre ++ ((bs ++ [a]) ++ post) := by simp
    rw [e1, e2, run_append, run_append s pre]
    cases run s pre with
    | none => rfl
    | some s1 =>
      simp only [Option.bind_some]
      rw [run_append, run_append s1 (bs ++ [a]), bubble_right a ha bs hbs s1]
  -- iUnlock past b4
  have s1 := mv s (Label.iLock t v :: b1 ++ Label.iWrite t :: b2 ++ Label.iStore t :: b3) (Label.iUnlock t) b4 rest rfl h4
  -- iStore past b3 ++ b4
  have s2 := mv s (Label.iLock t v :: b1 ++ Label.iWrite t :: b2) (Label.iStore t) (b3 ++ b4) (Label.iUnlock t :: rest) rfl
    (by intro b hb; rcases List.mem_append.mp hb with h | h; exact h3 b h; exact h4 b h)
  -- iWrite past b2 ++ b3 ++ b4
  have s3 := mv s (Label.iLock t v :: b1) (Label.iWrite t) (b2 ++ b3 ++ b4) (Label.iStore t :: Label.iUnlock t :: rest) rfl
    (by intro b hb; simp only [List.mem_append] at hb; rcases hb with (h | h) | h; exact h2 b h; exact h3 b h; exact h4 b h)
  -- iLock past b1 ++ b2 ++ b3 ++ b4
  have s4 := mv s [] (Label.iLock t v) (b1 ++ b2 ++ b3 ++ b4) (Label.iWrite t :: Label.iStore t :: Label.iUnlock t :: rest) rfl
    (by intro b hb; simp only [List.mem_append] at hb; rcases hb with ((h | h) | h) | h; exact h1 b h; exact h2 b h; exact h3 b h; exact h4 b h)
  simp only [List.append_assoc, List.cons_append, List.nil_append] at s1 s2 s3 s4 ⊢
  rw [s1, s2, s3, s4]

/-- the poll as a step on the control part, given the flag it reads -/
def pstep (f : Bool) (k : Ctl) : Option Ctl :=
  if k.rpc = .poll then some { k with rpc := if f then .wantLock else .exec } else none

theorem step_poll (s : S) : step s .rPoll = (pstep (cells s).flag (ctl s)).map (fun k' => mk (cells s) k') := by
  simp only [step, pstep, cells, ctl]
  split <;> simp_all [mk] <;> (try rfl)

theorem istep_keeps_flag (c c' : Cells) (a : Label) (hns : isStoreL a = false) (h : istep c a = some c') :
    c'.flag = c.flag := by
  cases a <;> simp [isStoreL] at hns <;> simp only [istep] at h <;> (repeat' split at h) <;> simp at h <;>
    (try subst h) <;> rfl

/-- the runner's poll only reads the flag, which of the four actions only the store writes: the other three commute
    with the poll as well (so the lock may be taken before an earlier poll, and released after a later one) -/
theorem comm_i_poll (s : S) (a : Label) (ha : isI a = true) (hns : isStoreL a = false) :
    run s [a, .rPoll] = run s [.rPoll, a] := by
  simp only [run, step_isI _ a ha, step_poll]
  cases hi : istep (cells s) a with
  | none => cases hp : pstep (cells s).flag (ctl s) <;> simp [cells_mk, ctl_mk, hi, hp] <;> (try rfl)
  | some c' =>
    have hf := istep_keeps_flag _ _ a hns hi
    cases hp : pstep (cells s).flag (ctl s) <;> simp [cells_mk, ctl_mk, hi, hp, hf] <;> (try rfl)

end GojaModel.C15.Conc
