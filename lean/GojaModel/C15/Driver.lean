/-
  C15 model driver.  Input lines (same as harness/cmd/c15):
      case <api> <k> <v> <mode> <pre> <w> | <program>
  Output: res=<ok|exc|intr:V> log=<events> st=<flag>/<jobs>/<call>/<try>/<asyncRunner> after=<..> log2=<..> st2=<..>
  `soak` lines are implementation-only (the model's statement about them is theorem `prompt`); answered "soak".
-/
import GojaModel.Base.Proto
import GojaModel.C15.Model

namespace GojaModel.C15.Driver
open GojaModel.C15

mutual
def parseBlockItems : Nat → List String → Option (List Stmt × List String)
  | 0, _ => none
  | _ + 1, [] => none
  | _ + 1, ")" :: rest => some ([], rest)
  | fuel + 1, toks =>
    match parseStmt fuel toks with
    | some (s, rest) =>
      match parseBlockItems fuel rest with
      | some (ss, rest') => some (s :: ss, rest')
      | none => none
    | none => none

def parseBlock : Nat → List String → Option (List Stmt × List String)
  | 0, _ => none
  | fuel + 1, "(" :: rest => parseBlockItems fuel rest
  | _ + 1, _ => none

def parseStmt : Nat → List String → Option (Stmt × List String)
  | 0, _ => none
  | _ + 1, "L" :: n :: rest => n.toNat?.map fun k => (Stmt.log k, rest)
  | _ + 1, "P" :: rest => some (Stmt.probe, rest)
  | _ + 1, "T" :: rest => some (Stmt.throw, rest)
  | fuel + 1, "W" :: n :: rest =>
    match n.toNat?, parseBlock fuel rest with
    | some k, some (b, rest') => some (Stmt.loop k b, rest')
    | _, _ => none
  | fuel + 1, "Y" :: c :: f :: rest =>
    match parseBlock fuel rest with
    | some (b1, r1) =>
      match parseBlock fuel r1 with
      | some (b2, r2) =>
        match parseBlock fuel r2 with
        | some (b3, r3) =>
          -- the renderer emits `finally` whenever there is no catch (a bare `try{}` is not JavaScript)
          let hc := c != "0"
          some (Stmt.tryc hc (f != "0" || !hc) b1 b2 b3, r3)
        | none => none
      | none => none
    | none => none
  | fuel + 1, "N" :: kind :: reps :: rest =>
    match kind.toNat?, reps.toNat?, parseBlock fuel rest with
    | some k, some r, some (b, rest') =>
      let a := kindAttrs k
      -- kinds whose native calls the body exactly once whatever `reps` says
      let r' := if k % nKinds == 1 then r else 1
      some (Stmt.native a.1 a.2.1 a.2.2 r' b, rest')
    | _, _, _ => none
  | fuel + 1, "Q" :: rest =>
    match parseBlock fuel rest with
    | some (b, rest') => some (Stmt.enqueue b, rest')
    | none => none
  | fuel + 1, "H" :: rest =>
    -- Promise.resolve({then(r){ BODY; r() }}): one job (newPromiseResolveThenableJob) whose body is the user's then()
    match parseBlock fuel rest with
    | some (b, rest') => some (Stmt.enqueue b, rest')
    | none => none
  | fuel + 1, "A" :: rest =>
    -- (async function(){ PRE; await 1; POST })():  body up to the await runs in a generator frame (asyncRunner.start),
    -- the continuation is a promise job that re-enters through generator.next (generator frame again)
    match parseBlock fuel rest with
    | some (pre, r1) =>
      match parseBlock fuel r1 with
      | some (post, r2) =>
        some (Stmt.native true false true 1 (pre ++ [Stmt.enqueue [Stmt.asyncResume post]]), r2)
      | none => none
    | none => none
  | fuel + 1, "B" :: rest =>
    -- (async function outer(){ await (async function inner(){ PRE; await 1; POST })(); POST2 })()
    -- inner's continuation J1 is queued at `await 1`; outer's continuation is queued when inner's promise settles:
    -- J2 (runs POST2) at the end of J1, or a continuation that only re-throws (no events) if PRE or POST threw.
    match parseBlock fuel rest with
    | some (pre, r1) =>
      match parseBlock fuel r1 with
      | some (post, r2) =>
        match parseBlock fuel r2 with
        | some (post2, r3) =>
          let gen (b : List Stmt) : Stmt := Stmt.native true false true 1 b
          -- continuations run through asyncRunner.onFulfilled / onRejected (vm.curAsyncRunner set, reset deferred)
          let jFail : List Stmt := [Stmt.asyncResume [Stmt.throw]]
          let j2 : List Stmt := [Stmt.asyncResume post2]
          let j1 : List Stmt := [Stmt.asyncResume [Stmt.tryc true false (post ++ [Stmt.enqueue j2]) [Stmt.enqueue jFail] []]]
          let inner : Stmt := gen [Stmt.tryc true false (pre ++ [Stmt.enqueue j1]) [Stmt.enqueue jFail] []]
          some (gen [inner], r3)
        | none => none
      | none => none
    | none => none
  | fuel + 1, "F" :: n :: brk :: rest =>
    match n.toNat?, parseBlock fuel rest with
    | some k, some (b1, r1) =>
      match parseBlock fuel r1 with
      | some (b2, r2) =>
        match parseBlock fuel r2 with
        | some (b3, r3) => some (Stmt.forOf k (brk != "0") b1 b2 b3, r3)
        | none => none
      | none => none
    | _, _ => none
  | _ + 1, _ => none
end

def evStr : Ev → String
  | .n k => toString k
  | .p => "P"

def logStr (l : List Ev) : String := ",".intercalate (l.map evStr)

def outStr : Outcome → String
  | .normal => "ok"
  | .thrown => "exc"
  | .intr v => s!"intr:{v}"
  | .oof => "OOF"

def stStr (st : St) : String :=
  s!"{if st.flag then 1 else 0}/{st.queue.length}/{st.cs}/{st.ts.length}/{if st.car then 1 else 0}"

def modelFuel : Nat := 1000000

def runCase (hdr : List String) (prog : List Stmt) : String :=
  match hdr with
  | [api, k, v, _mode, pre, w] =>
    match k.toNat?, v.toNat?, w.toNat? with
    | some k, some v, some w =>
      let st0 : St := {}
      let st0 := if pre == "intr" then { st0 with flag := true, val := w }
                 else if pre == "intrclear" then { st0 with flag := false, val := w }   -- Interrupt(w); ClearInterrupt()
                 else st0
      let fmt (res : String) (st1 : St) : String :=
        let (o2, st2) := apiCall modelFuel { k := 0, v := 0 } [Stmt.log 999] { st1 with log := [] }
        s!"res={res} log={logStr st1.log} st={stStr st1} after={outStr o2} log2={logStr st2.log} st2={stStr st2}"
      if api == "errstr" then
        -- RunString("throw {toString(){PROG}}"), then the host calls err.Error() while idle: valueString runs the
        -- toString under vm.try, swallows an uncatchable and (depth 0) calls leaveAbrupt; leave() is not called
        let (o0, s0) := apiCall modelFuel { k := k, v := v } [Stmt.throw] st0
        match o0 with
        | .thrown =>
          let (o1, s1) := apiCallJ false modelFuel { k := k, v := v } prog s0
          match o1 with
          | .normal => fmt "errstr:boom" s1
          | .oof => fmt "OOF" s1
          | _ => fmt "errstr:placeholder" s1
        | o => fmt (outStr o) s0
      else
        -- api `try` = Runtime.Try: same frames, but leave() is not called (queued jobs wait for the next call)
        let (o1, st1) := apiCallJ (api != "try") modelFuel { k := k, v := v } prog st0
        fmt (outStr o1) st1
    | _, _, _ => "ERR bad numbers"
  | _ => "ERR bad case header"

def handle (line : String) : String :=
  let line := line.trimAscii.toString
  if line == "profile on" || line == "profile off" then line   -- which of the two run loops executes is invisible to the model
  else if line.startsWith "soak " then "soak (implementation only; the model's statement is theorem prompt_partial)"
  else if line.startsWith "tickcase " then "tickcase (implementation only; judged against the spec: no tick after the n-th, clean state)"
  else if line.startsWith "case " then
    match (line.drop 5).toString.splitOn "|" with
    | [h, p] =>
      let toks := GojaModel.Proto.words p
      match parseBlock (toks.length + 2) toks with
      | some (prog, []) => runCase (GojaModel.Proto.words h) prog
      | _ => "ERR parse"
    | _ => "ERR no program"
  else "ERR unknown line"

def main : IO Unit := GojaModel.Proto.lineMap handle

end GojaModel.C15.Driver
