/-
  C15 — stack balance of the sequential interpreter (simultaneous induction on fuel over all mutually recursive functions).
-/
import GojaModel.C15.Lemmas

namespace GojaModel.C15

/-! ### stack balance: every construct leaves the try stack and the call stack as it found them, also when an
    uncatchable error passes through (then only script-level handler frames may remain above, for the enclosing
    handleThrow to skip, and contexts for it to truncate) -/

def Bal (st : St) (r : Outcome × St) : Prop :=
  ((r.1 = .normal ∨ r.1 = .thrown) → r.2.ts = st.ts ∧ r.2.cs = st.cs) ∧
  (∀ v, r.1 = .intr v → ∃ hs, allHandlers hs ∧ r.2.ts = hs ++ st.ts ∧ st.cs ≤ r.2.cs)

/-- frames whose marker is popped in a `defer` (and generator frames inside them) restore exactly -/
def BalStrong (st : St) (r : Outcome × St) : Prop :=
  r.1 ≠ .oof → r.2.ts = st.ts ∧ r.2.cs = st.cs

theorem allHandlers_nil : allHandlers [] := by intro tf h; cases h

theorem BalStrong.toBal {st : St} {r : Outcome × St} (h : BalStrong st r) : Bal st r := by
  constructor
  · intro ho; apply h; rcases ho with ho | ho <;> simp [ho]
  · intro v hv
    have := h (by simp [hv])
    exact ⟨[], allHandlers_nil, by simp [this.1], by omega⟩

theorem Bal.of_eq {st st0 : St} {r : Outcome × St} (hts : st.ts = st0.ts) (hcs : st.cs = st0.cs) (h : Bal st r) :
    Bal st0 r := by
  unfold Bal at *; rw [hts, hcs] at h; exact h

theorem Bal.intr_self (st : St) (v : Nat) : Bal st (.intr v, st) := by
  constructor
  · intro h; simp at h
  · intro _ _; exact ⟨[], allHandlers_nil, by simp, Nat.le_refl _⟩

theorem Bal.oof (st st' : St) : Bal st (.oof, st') := by
  constructor
  · intro h; rcases h with h | h <;> simp at h
  · intro v h; simp at h

theorem Bal.same {st st' : St} (o : Outcome) (hts : st'.ts = st.ts) (hcs : st'.cs = st.cs) : Bal st (o, st') := by
  constructor
  · intro _; exact ⟨hts, hcs⟩
  · intro v _; exact ⟨[], allHandlers_nil, by simp [hts], Nat.le_of_eq hcs.symm⟩

theorem Bal.andThen {st : St} {r r' : Outcome × St} (h : Bal st r) (hn : r.1 = .normal) (h' : Bal r.2 r') : Bal st r' :=
  Bal.of_eq (h.1 (Or.inl hn)).1 (h.1 (Or.inl hn)).2 h'

theorem BalStrong.andThen {st : St} {r r' : Outcome × St} (h : BalStrong st r) (hn : r.1 = .normal)
    (h' : BalStrong r.2 r') : BalStrong st r' := by
  intro ho
  have a := h (by simp [hn])
  have b := h' ho
  exact ⟨by rw [b.1, a.1], by rw [b.2, a.2]⟩

structure IH (n : Nat) : Prop where
  exec : ∀ c s st, Bal st (exec n c s st)
  block : ∀ c b st, Bal st (execBlock n c b st)
  loop : ∀ c k b st, Bal st (execLoop n c k b st)
  frame : ∀ c g i t b st, Bal st (execFrame n c g i t b st)
  frameS : ∀ c i t b st, BalStrong st (execFrame n c false i t b st)
  native : ∀ c g i t k b st, Bal st (execNative n c g i t k b st)
  forOf : ∀ c i k brk nx b rt st, Bal st (execForOf n c i k brk nx b rt st)

theorem ih_zero : IH 0 := by
  constructor <;> intros <;> simp [exec, execBlock, execLoop, execFrame, execNative, execForOf, Bal, BalStrong]

theorem handlerTF_isHandler (cs : Nat) (hc hf : Bool) : (handlerTF cs hc hf).catchPos ≠ tryPanicMarker := by
  cases hc <;> simp [handlerTF, tryPanicMarker]

theorem bal_block_succ {n : Nat} (ih : IH n) (c : Cfg) (b : List Stmt) (st : St) : Bal st (execBlock (n + 1) c b st) := by
  cases b with
  | nil =>
    simp only [execBlock]; split
    · exact Bal.same _ (pollStep_ts c st) (pollStep_cs c st)
    · exact Bal.same _ (pollStep_ts c st) (pollStep_cs c st)
  | cons s rest =>
    simp only [execBlock]
    have h1 := ih.exec c s st
    split
    · rename_i hn; exact h1.andThen hn (ih.block c rest _)
    · exact h1

theorem bal_loop_succ {n : Nat} (ih : IH n) (c : Cfg) (k : Nat) (b : List Stmt) (st : St) :
    Bal st (execLoop (n + 1) c k b st) := by
  cases k with
  | zero => simp only [execLoop]; exact Bal.same _ rfl rfl
  | succ k =>
    simp only [execLoop]
    have h1 := ih.block c b st
    split
    · rename_i hn; exact h1.andThen hn (ih.loop c k b _)
    · exact h1

theorem enterFrame_ts_cs (g : Bool) (st : St) :
    (enterFrame g st).ts = markerTF (if g then st.cs + 1 else st.cs) :: st.ts ∧
    (enterFrame g st).cs = (if g then st.cs + 2 else st.cs + 1) := by
  cases g <;> simp [enterFrame]

/-- what the frame's own handleThrow(ex = nil) sees and does -/
theorem frame_unwind {g : Bool} {st : St} {r : Outcome × St} {v : Nat} (hb : Bal (enterFrame g st) r) (hv : r.1 = .intr v) :
    (unwindNone r.2.ts r.2.cs).1.tail = st.ts ∧
    (unwindNone r.2.ts r.2.cs).2 = (if g then st.cs + 1 else st.cs) := by
  obtain ⟨hs, hh, hts, hcs⟩ := hb.2 v hv
  have e := enterFrame_ts_cs g st
  rw [e.1] at hts; rw [e.2] at hcs
  have hm := handleThrow_none_handlers hs st.ts (markerTF (if g then st.cs + 1 else st.cs)) r.2.cs hh rfl
  simp only [unwindNone, hts, hm, List.tail_cons, true_and]
  simp only [truncCs, markerTF]
  cases g <;> simp at hcs ⊢ <;> omega

theorem bal_frame_succ {n : Nat} (ih : IH n) (c : Cfg) (g i t : Bool) (b : List Stmt) (st : St) :
    Bal st (execFrame (n + 1) c g i t b st) ∧ (g = false → BalStrong st (execFrame (n + 1) c g i t b st)) := by
  simp only [execFrame]
  have hb := ih.block c b (enterFrame g st)
  generalize execBlock n c b (enterFrame g st) = r at hb ⊢
  obtain ⟨o, st1⟩ := r
  cases o with
  | normal => exact ⟨Bal.same _ rfl rfl, fun _ _ => ⟨rfl, rfl⟩⟩
  | thrown => exact ⟨Bal.same _ rfl rfl, fun _ _ => ⟨rfl, rfl⟩⟩
  | oof => exact ⟨Bal.oof _ _, fun _ h => absurd rfl h⟩
  | intr v =>
    have hu := frame_unwind hb (v := v) rfl
    cases g with
    | true =>
      simp only [if_true] at hu ⊢
      refine ⟨?_, fun h => by cases h⟩
      constructor
      · intro h; simp at h
      · intro v' _; exact ⟨[], allHandlers_nil, by simp, by simp [hu.2]⟩
    | false =>
      simp only [Bool.false_eq_true, if_false] at hu ⊢
      cases i with
      | true => simp only [if_true]; exact ⟨Bal.same _ hu.1 hu.2, fun _ _ => ⟨hu.1, hu.2⟩⟩
      | false => simp only [Bool.false_eq_true, if_false]; exact ⟨Bal.same _ hu.1 hu.2, fun _ _ => ⟨hu.1, hu.2⟩⟩

theorem bal_native_succ {n : Nat} (ih : IH n) (c : Cfg) (g i t : Bool) (k : Nat) (b : List Stmt) (st : St) :
    Bal st (execNative (n + 1) c g i t k b st) := by
  cases k with
  | zero => simp only [execNative]; exact Bal.same _ rfl rfl
  | succ k =>
    simp only [execNative]
    have h1 := ih.frame c g i t b st
    split
    · rename_i hn; exact h1.andThen hn (ih.native c g i t k b _)
    · exact h1

theorem bal_forOf_succ {n : Nat} (ih : IH n) (c : Cfg) (i k : Nat) (brk : Bool) (nx b rt : List Stmt) (st : St) :
    Bal st (execForOf (n + 1) c i k brk nx b rt st) := by
  simp only [execForOf]
  have h1 := ih.frame c false false false nx st
  split
  · rename_i hn1
    split
    · have h2 := h1.andThen hn1 (ih.block c b _)
      split
      · rename_i hn2
        split
        · exact h2.andThen hn2 (ih.frame c false false false rt _)
        · exact h2.andThen hn2 (ih.forOf c (i + 1) k brk nx b rt _)
      · split
        · -- body threw: iterator closed, then the throw continues
          rename_i hth
          have hbs := h2.1 (Or.inr hth)
          have h3 : Bal st (execFrame n c false false false rt (execBlock n c b (execFrame n c false false false nx st).2).2) :=
            Bal.of_eq hbs.1 hbs.2 (ih.frame c false false false rt _)
          split
          · exact h3
          · rename_i hna
            have hs := ih.frameS c false false rt (execBlock n c b (execFrame n c false false false nx st).2).2
            have : (execFrame n c false false false rt (execBlock n c b (execFrame n c false false false nx st).2).2).1 ≠ .oof := by
              intro ho; simp [ho, Outcome.isAbort] at hna
            have e := hs this
            exact Bal.same _ (by rw [e.1, hbs.1]) (by rw [e.2, hbs.2])
        · exact h2
    · exact h1
  · exact h1

theorem bal_exec_succ {n : Nat} (ih : IH n) (c : Cfg) (s : Stmt) (st : St) : Bal st (exec (n + 1) c s st) := by
  simp only [exec]
  have pts := pollStep_ts c st
  have pcs := pollStep_cs c st
  split
  · exact Bal.same _ pts pcs
  · cases s with
    | log k => exact Bal.same _ pts pcs
    | probe => exact Bal.same _ ((doProbe_ts c _).trans pts) ((doProbe_cs c _).trans pcs)
    | throw => exact Bal.same _ pts pcs
    | enqueue j => exact Bal.same _ pts pcs
    | loop k b => exact Bal.of_eq pts pcs (ih.loop c k b _)
    | native g i t k b => exact Bal.of_eq pts pcs (ih.native c g i t k b _)
    | forOf k brk nx b rt => exact Bal.of_eq pts pcs (ih.forOf c 0 k brk nx b rt _)
    | asyncResume b =>
      simp only []
      have hf := ih.frame c true false true b { instr (pass (pollStep c st)) with car := true }
      generalize execFrame n c true false true b { instr (pass (pollStep c st)) with car := true } = r at hf ⊢
      have hf' : Bal st r := Bal.of_eq pts pcs hf
      exact ⟨fun h => hf'.1 h, fun v h => hf'.2 v h⟩
    | tryc hc hf body cat fin =>
      simp only []
      generalize hr1 : execBlock n c body _ = r1
      have hb : Bal _ r1 := hr1 ▸ ih.block c body _
      split
      · -- uncatchable (or out of fuel) from the body: the handler frame stays on the try stack
        constructor
        · intro h; rename_i ha; rcases h with h | h <;> simp [h, Outcome.isAbort] at ha
        · intro v hv
          obtain ⟨hs, hh, hts, hcs⟩ := hb.2 v hv
          refine ⟨hs ++ [handlerTF st.cs hc hf], ?_, ?_, ?_⟩
          · intro tf htf
            rcases List.mem_append.mp htf with h | h
            · exact hh tf h
            · simp at h; subst h; exact handlerTF_isHandler _ _ _
          · rw [hts]; simp only [instr, pass, emit, pcs, pts, List.append_assoc, List.singleton_append]
          · simp only [instr, pass, emit, pcs] at hcs; exact hcs
      · generalize hr2 : (if r1.1 = Outcome.thrown ∧ hc = true then execBlock n c cat _ else (r1.1, _)) = r2
        have hb2 : Bal st r2 := by
          subst hr2
          split
          · exact Bal.of_eq pts pcs (ih.block c cat _)
          · exact Bal.same _ pts pcs
        split
        · exact hb2
        · rename_i hna2
          have hn2 : r2.1 = .normal ∨ r2.1 = .thrown := by
            cases h : r2.1 <;> simp [h, Outcome.isAbort] at hna2 ⊢
          split
          · have hb3 : Bal st (execBlock n c fin r2.2) := Bal.of_eq (hb2.1 hn2).1 (hb2.1 hn2).2 (ih.block c fin _)
            split
            · rename_i hn3
              exact Bal.same _ (hb3.1 (Or.inl hn3)).1 (hb3.1 (Or.inl hn3)).2
            · exact hb3
          · exact hb2

theorem ih_succ {n : Nat} (ih : IH n) : IH (n + 1) where
  exec := bal_exec_succ ih
  block := bal_block_succ ih
  loop := bal_loop_succ ih
  frame := fun c g i t b st => (bal_frame_succ ih c g i t b st).1
  frameS := fun c i t b st => (bal_frame_succ ih c false i t b st).2 rfl
  native := bal_native_succ ih
  forOf := bal_forOf_succ ih

theorem ih_all (n : Nat) : IH n := by
  induction n with
  | zero => exact ih_zero
  | succ n ih => exact ih_succ ih

/-- leave(): every job frame restores exactly, so the drain loop does -/
theorem runJobs_balStrong (n : Nat) : ∀ (c : Cfg) (batch : List (List Stmt)) (st : St), BalStrong st (runJobs n c batch st) := by
  induction n with
  | zero => intro c batch st h; simp [runJobs] at h
  | succ n ih =>
    intro c batch st
    cases batch with
    | nil =>
      simp only [runJobs]
      split
      · intro _; exact ⟨rfl, rfl⟩
      · exact fun h => ih c _ _ h
    | cons job batch =>
      simp only [runJobs]
      have h1 := (ih_all n).frameS c false true job st
      split
      · rename_i hn; exact h1.andThen hn (ih c batch _)
      · exact h1


end GojaModel.C15
