/-
  C15 — invariants of the sequential interpreter proved by simultaneous induction on fuel:
  the interrupt invariant (value and frozen event log) and the vm.curAsyncRunner discipline.
-/
import GojaModel.C15.Lemmas

namespace GojaModel.C15

/-! ### the interrupt invariant: from the instant a probe calls Interrupt(v) the event log never grows again and the
    value cell holds v; an uncatchable outcome is only ever produced with the flag visible and carries the cell -/

def Inv (c : Cfg) (st : St) : Prop := st.flag = true → st.log = st.frozen ∧ st.val = c.v

def Good (c : Cfg) (r : Outcome × St) : Prop :=
  Inv c r.2 ∧ (∀ v, r.1 = .intr v → r.2.flag = true ∧ r.2.val = v)

theorem Inv.of_eq {c : Cfg} {st st' : St} (h : Inv c st) (hf : st'.flag = st.flag) (hl : st'.log = st.log)
    (hz : st'.frozen = st.frozen) (hv : st'.val = st.val) : Inv c st' := by
  intro hflag; rw [hf] at hflag; rw [hl, hz, hv]; exact h hflag

theorem Inv.of_false {c : Cfg} {st : St} (h : st.flag = false) : Inv c st := by
  intro hf; rw [h] at hf; cases hf

theorem Good.poll {c : Cfg} {st : St} (h : Inv c st) (hf : st.flag = true) : Good c (.intr st.val, raise st) :=
  ⟨h.of_eq rfl rfl rfl rfl, fun _ hv => by cases hv; exact ⟨hf, rfl⟩⟩

theorem inv_pollStep {c : Cfg} {st : St} (h : Inv c st) : Inv c (pollStep c st) := by
  unfold pollStep
  split
  · intro _; exact ⟨rfl, rfl⟩
  · exact h.of_eq rfl rfl rfl rfl

theorem Good.plain {c : Cfg} {o : Outcome} {st : St} (h : Inv c st) (ho : ∀ v, o ≠ .intr v) : Good c (o, st) :=
  ⟨h, fun v hv => absurd hv (ho v)⟩

/-- changing only the stacks keeps `Good` -/
theorem Good.restack {c : Cfg} {r : Outcome × St} (h : Good c r) (o : Outcome) (st' : St)
    (ho : ∀ v, o = .intr v → r.1 = .intr v)
    (hf : st'.flag = r.2.flag) (hl : st'.log = r.2.log) (hz : st'.frozen = r.2.frozen) (hv : st'.val = r.2.val) :
    Good c (o, st') := by
  refine ⟨h.1.of_eq hf hl hz hv, fun v hvv => ?_⟩
  have := h.2 v (ho v hvv)
  exact ⟨by rw [hf]; exact this.1, by rw [hv]; exact this.2⟩

structure IH2 (n : Nat) : Prop where
  exec : ∀ c s st, Inv c st → Good c (exec n c s st)
  block : ∀ c b st, Inv c st → Good c (execBlock n c b st)
  loop : ∀ c k b st, Inv c st → Good c (execLoop n c k b st)
  frame : ∀ c g i t b st, Inv c st → Good c (execFrame n c g i t b st)
  native : ∀ c g i t k b st, Inv c st → Good c (execNative n c g i t k b st)
  forOf : ∀ c i k brk nx b rt st, Inv c st → Good c (execForOf n c i k brk nx b rt st)

theorem ih2_zero : IH2 0 := by
  constructor <;> intros <;> simp only [exec, execBlock, execLoop, execFrame, execNative, execForOf] <;>
    exact Good.plain (by assumption) (by intro v h; cases h)

theorem good_block_succ {n : Nat} (ih : IH2 n) (c : Cfg) (b : List Stmt) (st : St) (hI : Inv c st) :
    Good c (execBlock (n + 1) c b st) := by
  cases b with
  | nil =>
    simp only [execBlock]; split
    · rename_i hf; exact Good.poll (inv_pollStep hI) hf
    · exact Good.plain ((inv_pollStep hI).of_eq rfl rfl rfl rfl) (by intro v h; cases h)
  | cons s rest =>
    simp only [execBlock]
    have h1 := ih.exec c s st hI
    split
    · exact ih.block c rest _ h1.1
    · exact h1

theorem good_loop_succ {n : Nat} (ih : IH2 n) (c : Cfg) (k : Nat) (b : List Stmt) (st : St) (hI : Inv c st) :
    Good c (execLoop (n + 1) c k b st) := by
  cases k with
  | zero => simp only [execLoop]; exact Good.plain hI (by intro v h; cases h)
  | succ k =>
    simp only [execLoop]
    have h1 := ih.block c b st hI
    split
    · exact ih.loop c k b _ h1.1
    · exact h1

theorem inv_enterFrame {c : Cfg} {st : St} (g : Bool) (hI : Inv c st) : Inv c (enterFrame g st) := by
  cases g <;> exact hI.of_eq rfl rfl rfl rfl

theorem good_frame_succ {n : Nat} (ih : IH2 n) (c : Cfg) (g i t : Bool) (b : List Stmt) (st : St) (hI : Inv c st) :
    Good c (execFrame (n + 1) c g i t b st) := by
  simp only [execFrame]
  have hb := ih.block c b (enterFrame g st) (inv_enterFrame g hI)
  generalize execBlock n c b (enterFrame g st) = r at hb ⊢
  obtain ⟨o, st1⟩ := r
  cases o with
  | normal => exact hb.restack _ _ (by intro v h; cases h) rfl rfl rfl rfl
  | thrown => exact hb.restack _ _ (by intro v h; cases t <;> simp at h) rfl rfl rfl rfl
  | oof => exact hb
  | intr v =>
    cases g with
    | true => simp only [if_true]; exact hb.restack _ _ (fun _ h => h) rfl rfl rfl rfl
    | false =>
      simp only [Bool.false_eq_true, if_false]
      cases i with
      | true => simp only [if_true]; exact hb.restack _ _ (by intro v h; cases h) rfl rfl rfl rfl
      | false => simp only [Bool.false_eq_true, if_false]; exact hb.restack _ _ (fun _ h => h) rfl rfl rfl rfl

theorem good_native_succ {n : Nat} (ih : IH2 n) (c : Cfg) (g i t : Bool) (k : Nat) (b : List Stmt) (st : St)
    (hI : Inv c st) : Good c (execNative (n + 1) c g i t k b st) := by
  cases k with
  | zero => simp only [execNative]; exact Good.plain hI (by intro v h; cases h)
  | succ k =>
    simp only [execNative]
    have h1 := ih.frame c g i t b st hI
    split
    · exact ih.native c g i t k b _ h1.1
    · exact h1

theorem good_forOf_succ {n : Nat} (ih : IH2 n) (c : Cfg) (i k : Nat) (brk : Bool) (nx b rt : List Stmt) (st : St)
    (hI : Inv c st) : Good c (execForOf (n + 1) c i k brk nx b rt st) := by
  simp only [execForOf]
  have h1 := ih.frame c false false false nx st hI
  split
  · split
    · have h2 := ih.block c b _ h1.1
      split
      · split
        · exact ih.frame c false false false rt _ h2.1
        · exact ih.forOf c (i + 1) k brk nx b rt _ h2.1
      · split
        · have h3 := ih.frame c false false false rt _ h2.1
          split
          · exact h3
          · exact Good.plain h3.1 (by intro v h; cases h)
        · exact h2
    · exact h1
  · exact h1

theorem inv_doProbe {c : Cfg} {st : St} (hf : st.flag = false) : Inv c (doProbe c st) := by
  simp only [doProbe]
  split
  · intro _; exact ⟨rfl, rfl⟩
  · exact Inv.of_false hf

theorem good_exec_succ {n : Nat} (ih : IH2 n) (c : Cfg) (s : Stmt) (st : St) (hI : Inv c st) :
    Good c (exec (n + 1) c s st) := by
  simp only [exec]
  split
  · rename_i hf; exact Good.poll (inv_pollStep hI) hf
  · rename_i hnf
    have hff : (pollStep c st).flag = false := by cases h : (pollStep c st).flag <;> simp [h] at hnf ⊢
    have hI' : Inv c (instr (pass (pollStep c st))) := Inv.of_false hff
    cases s with
    | log k => exact Good.plain (Inv.of_false hff) (by intro v h; cases h)
    | probe =>
      refine Good.plain ?_ (by intro v h; cases h)
      exact (inv_doProbe (c := c) (st := pass (pollStep c st)) hff).of_eq rfl rfl rfl rfl
    | throw => exact Good.plain hI' (by intro v h; cases h)
    | enqueue j => exact Good.plain (Inv.of_false hff) (by intro v h; cases h)
    | loop k b => exact ih.loop c k b _ hI'
    | native g i t k b => exact ih.native c g i t k b _ hI'
    | forOf k brk nx b rt => exact ih.forOf c 0 k brk nx b rt _ hI'
    | asyncResume b =>
      simp only []
      have hf := ih.frame c true false true b { instr (pass (pollStep c st)) with car := true } (Inv.of_false hff)
      exact hf.restack _ _ (fun _ h => h) rfl rfl rfl rfl
    | tryc hc hf body cat fin =>
      simp only []
      generalize hr1 : execBlock n c body _ = r1
      have hb : Good c r1 := hr1 ▸ ih.block c body _ (Inv.of_false hff)
      split
      · exact hb
      · generalize hr2 : (if r1.1 = Outcome.thrown ∧ hc = true then execBlock n c cat _ else (r1.1, _)) = r2
        have hb2 : Good c r2 := by
          subst hr2
          split
          · exact ih.block c cat _ (hb.1.of_eq rfl rfl rfl rfl)
          · rename_i hna _
            exact Good.plain (hb.1.of_eq rfl rfl rfl rfl) (by intro v h; simp [h, Outcome.isAbort] at hna)
        split
        · exact hb2
        · rename_i hna2
          split
          · have hb3 := ih.block c fin r2.2 hb2.1
            split
            · exact Good.plain hb3.1 (by intro v h; simp [h, Outcome.isAbort] at hna2)
            · exact hb3
          · exact hb2

theorem ih2_succ {n : Nat} (ih : IH2 n) : IH2 (n + 1) where
  exec := good_exec_succ ih
  block := good_block_succ ih
  loop := good_loop_succ ih
  frame := good_frame_succ ih
  native := good_native_succ ih
  forOf := good_forOf_succ ih

theorem ih2_all (n : Nat) : IH2 n := by
  induction n with
  | zero => exact ih2_zero
  | succ n ih => exact ih2_succ ih

theorem runJobs_good (n : Nat) : ∀ (c : Cfg) (batch : List (List Stmt)) (st : St), Inv c st → Good c (runJobs n c batch st) := by
  induction n with
  | zero => intro c batch st hI; simp only [runJobs]; exact Good.plain hI (by intro v h; cases h)
  | succ n ih =>
    intro c batch st hI
    cases batch with
    | nil =>
      simp only [runJobs]
      split
      · exact Good.plain hI (by intro v h; cases h)
      · exact ih c _ _ (hI.of_eq rfl rfl rfl rfl)
    | cons job batch =>
      simp only [runJobs]
      have h1 := (ih2_all n).frame c false false true job st hI
      split
      · exact ih c batch _ h1.1
      · exact h1


/-! ### vm.curAsyncRunner: every construct leaves it as it found it or nil -/

def CarOk (st : St) (r : Outcome × St) : Prop := r.2.car = st.car ∨ r.2.car = false

theorem CarOk.same {st st' : St} (o : Outcome) (h : st'.car = st.car) : CarOk st (o, st') := Or.inl h

theorem CarOk.of_eq {st st0 : St} {r : Outcome × St} (h0 : st.car = st0.car) (h : CarOk st r) : CarOk st0 r := by
  unfold CarOk at *; rw [h0] at h; exact h

theorem CarOk.andThen {st : St} {r r' : Outcome × St} (h : CarOk st r) (h' : CarOk r.2 r') : CarOk st r' := by
  unfold CarOk at *
  rcases h' with h' | h'
  · rcases h with h | h
    · left; rw [h', h]
    · right; rw [h', h]
  · right; exact h'

theorem CarOk.restack {st : St} {r : Outcome × St} (h : CarOk st r) (o : Outcome) (st' : St) (hc : st'.car = r.2.car) :
    CarOk st (o, st') := by
  unfold CarOk at *; simp only; rw [hc]; exact h

structure IH4 (n : Nat) : Prop where
  exec : ∀ c s st, CarOk st (exec n c s st)
  block : ∀ c b st, CarOk st (execBlock n c b st)
  loop : ∀ c k b st, CarOk st (execLoop n c k b st)
  frame : ∀ c g i t b st, CarOk st (execFrame n c g i t b st)
  native : ∀ c g i t k b st, CarOk st (execNative n c g i t k b st)
  forOf : ∀ c i k brk nx b rt st, CarOk st (execForOf n c i k brk nx b rt st)

theorem ih4_zero : IH4 0 := by
  constructor <;> intros <;> simp only [exec, execBlock, execLoop, execFrame, execNative, execForOf] <;> exact Or.inl rfl

theorem ih4_succ {n : Nat} (ih : IH4 n) : IH4 (n + 1) where
  exec := by
    intro c s st
    simp only [exec]
    have pc := pollStep_car c st
    split
    · exact CarOk.same _ pc
    · cases s with
      | log k => exact CarOk.same _ pc
      | probe => exact CarOk.same _ ((doProbe_car c _).trans pc)
      | throw => exact CarOk.same _ pc
      | enqueue j => exact CarOk.same _ pc
      | loop k b => exact CarOk.of_eq pc (ih.loop c k b _)
      | native g i t k b => exact CarOk.of_eq pc (ih.native c g i t k b _)
      | forOf k brk nx b rt => exact CarOk.of_eq pc (ih.forOf c 0 k brk nx b rt _)
      | asyncResume b => exact Or.inr rfl
      | tryc hc hf body cat fin =>
        simp only []
        generalize hr1 : execBlock n c body _ = r1
        have hb : CarOk st r1 := CarOk.of_eq pc (hr1 ▸ ih.block c body _)
        split
        · exact hb
        · generalize hr2 : (if r1.1 = Outcome.thrown ∧ hc = true then execBlock n c cat _ else (r1.1, _)) = r2
          have hb2 : CarOk st r2 := by
            subst hr2
            split
            · exact hb.andThen (CarOk.of_eq rfl (ih.block c cat _))
            · exact hb.restack _ _ rfl
          split
          · exact hb2
          · split
            · have hb3 := hb2.andThen (ih.block c fin r2.2)
              split
              · exact hb3.restack _ _ rfl
              · exact hb3
            · exact hb2
  block := by
    intro c b st
    cases b with
    | nil => simp only [execBlock]; split <;> exact CarOk.same _ (pollStep_car c st)
    | cons s rest =>
      simp only [execBlock]
      have h1 := ih.exec c s st
      split
      · exact h1.andThen (ih.block c rest _)
      · exact h1
  loop := by
    intro c k b st
    cases k with
    | zero => simp only [execLoop]; exact Or.inl rfl
    | succ k =>
      simp only [execLoop]
      have h1 := ih.block c b st
      split
      · exact h1.andThen (ih.loop c k b _)
      · exact h1
  frame := by
    intro c g i t b st
    simp only [execFrame]
    have hb : CarOk st (execBlock n c b (enterFrame g st)) :=
      CarOk.of_eq (by cases g <;> rfl) (ih.block c b (enterFrame g st))
    generalize execBlock n c b (enterFrame g st) = r at hb ⊢
    obtain ⟨o, st1⟩ := r
    cases o with
    | normal => exact hb.restack _ _ rfl
    | thrown => exact hb.restack _ _ rfl
    | oof => exact hb
    | intr v => cases g <;> cases i <;> exact hb.restack _ _ rfl
  native := by
    intro c g i t k b st
    cases k with
    | zero => simp only [execNative]; exact Or.inl rfl
    | succ k =>
      simp only [execNative]
      have h1 := ih.frame c g i t b st
      split
      · exact h1.andThen (ih.native c g i t k b _)
      · exact h1
  forOf := by
    intro c i k brk nx b rt st
    simp only [execForOf]
    have h1 := ih.frame c false false false nx st
    split
    · split
      · have h2 := h1.andThen (ih.block c b _)
        split
        · split
          · exact h2.andThen (ih.frame c false false false rt _)
          · exact h2.andThen (ih.forOf c (i + 1) k brk nx b rt _)
        · split
          · have h3 := h2.andThen (ih.frame c false false false rt _)
            split
            · exact h3
            · exact h3.restack _ _ rfl
          · exact h2
      · exact h1
    · exact h1

theorem ih4_all (n : Nat) : IH4 n := by
  induction n with
  | zero => exact ih4_zero
  | succ n ih => exact ih4_succ ih

theorem runJobs_carOk (n : Nat) : ∀ (c : Cfg) (batch : List (List Stmt)) (st : St), CarOk st (runJobs n c batch st) := by
  induction n with
  | zero => intro c batch st; simp only [runJobs]; exact Or.inl rfl
  | succ n ih =>
    intro c batch st
    cases batch with
    | nil =>
      simp only [runJobs]
      split
      · exact Or.inl rfl
      · exact CarOk.of_eq rfl (ih c _ _)
    | cons job batch =>
      simp only [runJobs]
      have h1 := (ih4_all n).frame c false false true job st
      split
      · exact h1.andThen (ih c batch _)
      · exact h1

end GojaModel.C15
