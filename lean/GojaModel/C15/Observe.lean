/-
  C15 — the runner's view of an interleaved execution.  The runner interacts with the interrupting goroutines only
  through what its polls of `interrupted` observe (and the value it then reads under the lock, theorem
  value_is_last_set).  This file proves the PROJECTION: in every execution of the interleaving model `Conc` that starts
  with the flag clear and contains no ClearInterrupt / outermost recover, the polls observe `false` exactly n times and
  `true` ever after, where n = number of polls taken before the first `iStore` — i.e. every interleaving, whatever the
  number of interrupting goroutines and wherever their actions fall, looks to the runner like "Interrupt delivered at
  poll point n", which is what the sequential interpreter implements for `Cfg.ext = some n`.
-/
import GojaModel.C15.Lemmas

namespace GojaModel.C15.Conc

/-- what the successive polls of the runner observe along an execution -/
def obs : S → List Label → List Bool
  | _, [] => []
  | s, l :: ls =>
    match step s l with
    | some s' => (if l = .rPoll then [s.flag] else []) ++ obs s' ls
    | none => []

def isStore : Label → Bool
  | .iStore _ => true
  | _ => false

def pollCount : List Label → Nat
  | [] => 0
  | l :: ls => (if l = .rPoll then 1 else 0) + pollCount ls

/-- the actions before the first store to `interrupted` -/
def beforeStore : List Label → List Label
  | [] => []
  | l :: ls => if isStore l then [] else l :: beforeStore ls

/-- the first store and everything after it -/
def fromStore : List Label → List Label
  | [] => []
  | l :: ls => if isStore l then l :: ls else fromStore ls

theorem before_from (ls : List Label) : beforeStore ls ++ fromStore ls = ls := by
  induction ls with
  | nil => rfl
  | cons l ls ih => simp only [beforeStore, fromStore]; split <;> simp [ih]

/-- only the store sets the flag -/
theorem step_keeps_flag_clear {s s' : S} {l : Label} (h : step s l = some s') (hf : s.flag = false)
    (hl : isStore l = false) : s'.flag = false := by
  cases l <;> simp only [step, isStore] at h hl <;> (repeat' split at h) <;> simp at h <;> (try subst h) <;> simp_all

/-- once visible, every poll observes it (no ClearInterrupt, call not returned) -/
theorem obs_flag_set {ls : List Label} : ∀ {s s' : S}, run s ls = some s' → allQuiet ls = true → s.flag = true →
    obs s ls = List.replicate (pollCount ls) true := by
  induction ls with
  | nil => intro s s' _ _ _; rfl
  | cons l ls ih =>
    intro s s' h hq hf
    simp only [run] at h
    cases hs : step s l with
    | none => simp [hs] at h
    | some s1 =>
      simp only [hs] at h
      simp [allQuiet] at hq
      have a := step_quiet hs hq.1 hf
      have r := ih h (by simpa [allQuiet] using hq.2) a.1
      simp only [obs, hs, pollCount, r]
      by_cases hp : l = .rPoll
      · simp only [hp, if_true, hf, Nat.add_comm 1, List.replicate_succ]; rfl
      · simp [hp]

/-- THE PROJECTION: the polls observe `false` for exactly the polls taken before the first store, `true` afterwards. -/
theorem obs_delivered_at {ls : List Label} : ∀ {s s' : S}, run s ls = some s' → allQuiet ls = true → s.flag = false →
    obs s ls = List.replicate (pollCount (beforeStore ls)) false ++ List.replicate (pollCount (fromStore ls)) true := by
  induction ls with
  | nil => intro s s' _ _ _; rfl
  | cons l ls ih =>
    intro s s' h hq hf
    have hq' := hq
    simp only [run] at h
    cases hs : step s l with
    | none => simp [hs] at h
    | some s1 =>
      simp only [hs] at h
      simp [allQuiet] at hq
      by_cases hst : isStore l = true
      · -- the store itself: from here on the flag is visible
        have hnp : l ≠ .rPoll := by intro e; subst e; simp [isStore] at hst
        have hf1 : s1.flag = true := by
          cases l <;> simp [isStore] at hst
          simp only [step] at hs
          split at hs <;> simp at hs
          subst hs; rfl
        have r := obs_flag_set h (by simpa [allQuiet] using hq.2) hf1
        simp only [obs, hs, beforeStore, fromStore, hst, if_true, pollCount, hnp, if_false, r]
        simp
      · have hst' : isStore l = false := by simpa using hst
        have hf1 := step_keeps_flag_clear hs hf hst'
        have r := ih h (by simpa [allQuiet] using hq.2) hf1
        simp only [obs, hs, beforeStore, fromStore, hst', pollCount, r]
        by_cases hp : l = .rPoll
        · simp only [hp, if_true, hf, Bool.false_eq_true, if_false, pollCount, Nat.add_comm 1, List.replicate_succ]; rfl
        · simp [hp, pollCount]

end GojaModel.C15.Conc
