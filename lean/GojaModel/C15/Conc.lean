/-
  C15 — concurrent part of model `Intr`: interleaving semantics of the runner goroutine and any number of
  interrupting goroutines over the shared cells of vm.go:379–381

      interrupted   uint32        (accessed with sync/atomic only)        → `flag`
      interruptVal  interface{}   (accessed under interruptLock only)     → `val`
      interruptLock sync.Mutex                                            → `lock`

  One label = one atomic action; sequentially consistent atomics (Go memory model).  The instruction executed by
  `rInstr*` is opaque: nothing below depends on what an instruction does, only on WHEN the loop may start one.
  Core Lean only.
-/
namespace GojaModel.C15.Conc

/-- An interrupting goroutine inside `vm.Interrupt(v)` (vm.go:685–690). -/
inductive IPc where
  | idle
  | locked (v : Nat)     -- after interruptLock.Lock()
  | wrote (v : Nat)      -- after interruptVal = v
  | stored               -- after atomic.StoreUint32(&interrupted, 1); about to Unlock()
  deriving DecidableEq, Repr

/-- The runner goroutine (vm.go:619–646 plus the frames around it). -/
inductive RPc where
  | idle                 -- no API call pending
  | poll                 -- top of a run loop iteration: about to atomic.LoadUint32(&interrupted)
  | exec                 -- loaded 0: will do the halt test and, if not halted, execute ONE instruction
  | native               -- in a native frame (built-in / Go function) whose nested run loop is not running
  | leaving              -- in Runtime.leave(): running queued promise jobs
  | wantLock             -- loaded 1, left the loop: about to interruptLock.Lock()
  | haveLock             -- about to read interruptVal
  | gotVal (v : Nat)     -- about to Unlock() and panic
  | raised (v : Nat)     -- panic(&InterruptedError{iface: v}) propagating through frames
  deriving DecidableEq, Repr

structure S where
  flag : Bool := false
  val : Nat := 0
  lock : Option Nat := none        -- holder: 0 = runner, t+1 = interrupter t
  ipc : Nat → IPc := fun _ => .idle
  rpc : RPc := .idle
  depth : Nat := 0                 -- native frames between the outermost API call and the innermost run loop
  inLeave : Bool := false
  queue : Nat := 0                 -- len(r.jobQueue)
  execs : Nat := 0                 -- ghost: VM instructions executed so far
  hist : List Nat := []            -- ghost: arguments of Interrupt in the order of their critical sections
  result : Option Nat := none      -- value carried by the InterruptedError the last API call returned

inductive Label where
  | iLock (t v : Nat)    -- goroutine t calls Interrupt(v) and acquires the lock
  | iWrite (t : Nat)
  | iStore (t : Nat)
  | iUnlock (t : Nat)
  | clear                -- ClearInterrupt() by anybody: atomic store 0 (vm.go:693)
  | rCall                -- Go calls RunProgram / a Callable while idle
  | rPoll
  | rInstr (enq : Bool)  -- execute one instruction (it may enqueue a promise job)
  | rInstrEnter          -- execute one instruction that is a call into a native which re-enters the VM
  | rHalt                -- loop ends normally (pc out of range)
  | rReenter             -- native frame starts (another) nested run loop
  | rNativeRet           -- native frame returns to its caller's run loop
  | rJob                 -- leave(): start the next queued job
  | rLeaveDone           -- leave(): queue empty, API call returns normally
  | rLock
  | rRead
  | rUnlock
  | rUnwind              -- the panic leaves one native frame (recover → handleThrow(ex = nil) → re-panic)
  | rSwallow             -- a Go function between two run loops ignores the error it got from the nested call
  | rReturn              -- outermost recover: err = InterruptedError; leaveAbrupt()
  | rCtl                 -- runner-side control that executes NO instruction and touches no shared cell: leaving a run loop
                         -- (halt, JS exception), a native frame returning or re-entering, a Go frame swallowing the
                         -- error it got (raised → back to its run loop).  Coarser than rHalt/rNativeRet/rSwallow/…:
                         -- it forgets depth and queue; used by the traces the sequential interpreter emits.
  | rExit                -- the API call returns without an error
  deriving DecidableEq, Repr

def setI (f : Nat → IPc) (t : Nat) (x : IPc) : Nat → IPc := fun t' => if t' = t then x else f t'

def step (s : S) : Label → Option S
  | .iLock t v =>
    if s.ipc t = .idle ∧ s.lock = none then some { s with lock := some (t + 1), ipc := setI s.ipc t (.locked v) } else none
  | .iWrite t =>
    match s.ipc t with
    | .locked v => some { s with val := v, hist := s.hist ++ [v], ipc := setI s.ipc t (.wrote v) }
    | _ => none
  | .iStore t =>
    match s.ipc t with
    | .wrote _ => some { s with flag := true, ipc := setI s.ipc t .stored }
    | _ => none
  | .iUnlock t =>
    match s.ipc t with
    | .stored => some { s with lock := none, ipc := setI s.ipc t .idle }
    | _ => none
  | .clear => some { s with flag := false }
  | .rCall => if s.rpc = .idle then some { s with rpc := .poll, depth := 0, inLeave := false, result := none } else none
  | .rPoll => if s.rpc = .poll then some { s with rpc := if s.flag then .wantLock else .exec } else none
  | .rInstr enq =>
    if s.rpc = .exec then some { s with rpc := .poll, execs := s.execs + 1, queue := if enq then s.queue + 1 else s.queue } else none
  | .rInstrEnter => if s.rpc = .exec then some { s with rpc := .poll, execs := s.execs + 1, depth := s.depth + 1 } else none
  | .rHalt =>
    if s.rpc = .exec then
      if s.depth = 0 then some { s with rpc := .leaving, inLeave := true } else some { s with rpc := .native }
    else none
  | .rReenter => if s.rpc = .native then some { s with rpc := .poll } else none
  | .rNativeRet =>
    if s.rpc = .native ∧ 0 < s.depth then
      if s.inLeave ∧ s.depth = 1 then some { s with rpc := .leaving, depth := 0 }
      else some { s with rpc := .poll, depth := s.depth - 1 }
    else none
  | .rJob => if s.rpc = .leaving ∧ 0 < s.queue then some { s with rpc := .poll, depth := 1, queue := s.queue - 1 } else none
  | .rLeaveDone => if s.rpc = .leaving ∧ s.queue = 0 then some { s with rpc := .idle, inLeave := false } else none
  | .rLock => if s.rpc = .wantLock ∧ s.lock = none then some { s with rpc := .haveLock, lock := some 0 } else none
  | .rRead => if s.rpc = .haveLock then some { s with rpc := .gotVal s.val } else none
  | .rUnlock =>
    match s.rpc with
    | .gotVal v => some { s with rpc := .raised v, lock := none }
    | _ => none
  | .rUnwind =>
    match s.rpc with
    | .raised v => if 0 < s.depth then some { s with rpc := .raised v, depth := s.depth - 1 } else none
    | _ => none
  | .rSwallow =>
    match s.rpc with
    | .raised _ => if 0 < s.depth then some { s with rpc := .native } else none
    | _ => none
  | .rReturn =>
    match s.rpc with
    | .raised v =>
      if s.depth = 0 then some { s with rpc := .idle, flag := false, queue := 0, inLeave := false, result := some v } else none
    | _ => none
  | .rCtl =>
    match s.rpc with
    | .poll => some { s with rpc := .poll }
    | .exec => some { s with rpc := .poll }
    | .native => some { s with rpc := .poll }
    | .raised _ => some { s with rpc := .poll }
    | _ => none
  | .rExit => if s.rpc = .poll then some { s with rpc := .idle } else none

def run : S → List Label → Option S
  | s, [] => some s
  | s, l :: ls => match step s l with
    | some s' => run s' ls
    | none => none

/-- Labels that end the window the promptness theorems talk about. -/
def quiet : Label → Bool
  | .clear => false
  | .rReturn => false
  | _ => true

def isInstr : Label → Bool
  | .rInstr _ => true
  | .rInstrEnter => true
  | _ => false

def init : S := {}

end GojaModel.C15.Conc
