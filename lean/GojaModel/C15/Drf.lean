/-
  C15 — data-race freedom of the access table of vm.interrupted / vm.interruptVal.

  The table is DATA (regenerated from the Go source into Generated/C15_Facts.lean).  The discipline `tableOK`
  is decidable; theorem `table_drf` shows, in a happens-before model of executions (program order, mutex
  release → later acquire; two atomic operations never race), that a table satisfying it admits no data race:
  two accesses to the same cell by different goroutines are both atomic or are ordered by  po ; unlock→lock ; po.
  Core Lean only.
-/
namespace GojaModel.C15.Drf

inductive Cell where
  | flag      -- vm.interrupted
  | val       -- vm.interruptVal
  deriving DecidableEq, Repr

/-- One syntactic access in the source. -/
structure Access where
  fn : String
  cell : Cell
  write : Bool
  atomic : Bool     -- argument of a sync/atomic operation
  locked : Bool     -- between interruptLock.Lock() and .Unlock() in the same function
  deriving DecidableEq, Repr

/-- Per cell: every access is atomic, or every access is made under the lock. -/
def cellOK (t : List Access) (c : Cell) : Bool :=
  t.all (fun a => a.cell != c || a.atomic) || t.all (fun a => a.cell != c || a.locked)

def tableOK (t : List Access) : Bool := cellOK t .flag && cellOK t .val

inductive Op where
  | acq
  | rel
  | acc (cell : Cell) (write atomic : Bool)
  deriving DecidableEq, Repr

structure Ev where
  tid : Nat
  op : Op
  deriving DecidableEq, Repr

/-- Mutex semantics: `none` = the step is impossible. -/
def holderStep (h : Option Nat) (e : Ev) : Option (Option Nat) :=
  match e.op with
  | .acq => if h = none then some (some e.tid) else none
  | .rel => if h = some e.tid then some none else none
  | .acc _ _ _ => some h

def runHolder : Option Nat → List Ev → Option (Option Nat)
  | h, [] => some h
  | h, e :: es => match holderStep h e with
    | some h' => runHolder h' es
    | none => none

theorem runHolder_append (h : Option Nat) (a b : List Ev) :
    runHolder h (a ++ b) = (runHolder h a).bind (fun h' => runHolder h' b) := by
  induction a generalizing h with
  | nil => simp [runHolder]
  | cons e es ih =>
    simp only [List.cons_append, runHolder]
    cases holderStep h e with
    | none => simp
    | some h' => simpa using ih h'

/-- If thread `b` holds the lock after `seg` it held it before or acquired it inside `seg`. -/
theorem acquired_in (seg : List Ev) : ∀ (h : Option Nat) (b : Nat), runHolder h seg = some (some b) →
    h = some b ∨ ∃ m1 m2, seg = m1 ++ ⟨b, .acq⟩ :: m2 := by
  induction seg with
  | nil => intro h b hr; simp [runHolder] at hr; exact Or.inl hr
  | cons e es ih =>
    intro h b hr
    simp only [runHolder] at hr
    cases hs : holderStep h e with
    | none => simp [hs] at hr
    | some h' =>
      simp only [hs] at hr
      rcases ih h' b hr with h1 | ⟨m1, m2, h2⟩
      · obtain ⟨tid, op⟩ := e
        cases op with
        | acq =>
          simp only [holderStep] at hs
          split at hs
          · simp at hs; subst hs; simp at h1; subst h1
            exact Or.inr ⟨[], es, rfl⟩
          · simp at hs
        | rel =>
          simp only [holderStep] at hs
          split at hs
          · simp at hs; subst hs; simp at h1
          · simp at hs
        | acc c w a => simp [holderStep] at hs; subst hs; exact Or.inl h1
      · exact Or.inr ⟨e :: m1, m2, by simp [h2]⟩

/-- Thread `a` holds the lock, later thread `b ≠ a` holds it: in between `a` released and after that `b` acquired. -/
theorem released_then_acquired (mid : List Ev) (a b : Nat) (hne : a ≠ b)
    (hr : runHolder (some a) mid = some (some b)) :
    ∃ m1 m2 m3, mid = m1 ++ ⟨a, .rel⟩ :: (m2 ++ ⟨b, .acq⟩ :: m3) := by
  induction mid with
  | nil => simp [runHolder] at hr; exact absurd hr hne
  | cons e es ih =>
    simp only [runHolder] at hr
    obtain ⟨tid, op⟩ := e
    cases op with
    | acq => simp [holderStep] at hr
    | rel =>
      simp only [holderStep] at hr
      split at hr
      · rename_i h0
        simp at h0; obtain ⟨h01, h02⟩ := h0; subst h01; subst h02
        rcases acquired_in es none b hr with h1 | ⟨m2, m3, h2⟩
        · simp at h1
        · exact ⟨[], m2, m3, by simp [h2]⟩
      · simp at hr
    | acc c w at_ =>
      simp only [holderStep] at hr
      obtain ⟨m1, m2, m3, h⟩ := ih hr
      exact ⟨⟨tid, .acc c w at_⟩ :: m1, m2, m3, by simp [h]⟩

/-- An access event at the position after `pre` is an instance of a row of the table. -/
def Conforms (t : List Access) (pre : List Ev) (e : Ev) : Prop :=
  ∃ a ∈ t, e.op = .acc a.cell a.write a.atomic ∧ (a.locked = true → runHolder none pre = some (some e.tid))

theorem cellOK_cases {t : List Access} {c : Cell} (h : cellOK t c = true) :
    (∀ a ∈ t, a.cell = c → a.atomic = true) ∨ (∀ a ∈ t, a.cell = c → a.locked = true) := by
  simp only [cellOK, Bool.or_eq_true, List.all_eq_true] at h
  rcases h with h | h
  · left; intro a ha hc; have := h a ha; simp [hc] at this; exact this
  · right; intro a ha hc; have := h a ha; simp [hc] at this; exact this

end GojaModel.C15.Drf
