/-
  C15 — property theorems about model `Intr` (Conc = interleaving semantics, Model = sequential VM-control
  mechanism, Drf = happens-before model over the access table).  Every `theorem` here is one proof obligation.

  Deliberately partial (see design/C15.md):
    * `prompt…` bound the number of VM INSTRUCTIONS; a native call that runs long without re-entering the VM is
      outside the model;
    * `intr_drf_partial` is about an access table (instantiated with the regenerated one in Tie.lean), not about the Go binary;
  The old (pre e8f901b) generator-frame mechanism survives only in the regression lemmas `…_prefix_witness`.
-/
import GojaModel.C15.Lemmas
import GojaModel.C15.Drf

namespace GojaModel.C15.Props
open GojaModel.C15 GojaModel.C15.Conc GojaModel.C15.Drf

/-! ### interleaving semantics -/

/-- Once the store to `interrupted` is visible, and for as long as nobody clears it and the pending call has not
    returned, the runner completes at most ONE more instruction (the one that had already passed its poll) and
    starts none — over all interleavings with any number of interrupting goroutines, at any nesting depth. -/
theorem prompt_partial {s s' : S} {ls : List Label} (h : run s ls = some s') (hq : allQuiet ls = true)
    (hf : s.flag = true) :
    s'.flag = true ∧ s'.execs ≤ s.execs + 1 ∧ (s.rpc ≠ .exec → s'.execs = s.execs ∧ s'.rpc ≠ .exec) := by
  have a := run_quiet h hq hf
  have m := run_execs_mono h
  have hs : allowance s ≤ 1 := by unfold allowance; split <;> omega
  refine ⟨a.1, by omega, ?_⟩
  intro hne
  have h0 : allowance s = 0 := by simp [allowance, hne]
  refine ⟨by omega, ?_⟩
  intro he
  have : allowance s' = 1 := by simp [allowance, he]
  omega

/-- While the InterruptedError propagates (through any number of enclosing native frames, including Go functions
    that swallow the error and let the outer script continue) no further VM instruction is executed. -/
theorem prompt_nested_partial {s s' : S} {ls : List Label} {v : Nat} (h : run s ls = some s') (hq : allQuiet ls = true)
    (hf : s.flag = true) (hr : s.rpc = .raised v) : s'.execs = s.execs ∧ s'.rpc ≠ .exec :=
  (prompt_partial h hq hf).2.2 (by simp [hr])

/-- The value the runner reads under the lock is the argument of the latest Interrupt (in critical-section
    order), and there is one: the flag can only be seen set after a value was written. -/
theorem value_is_last_set {s : S} {ls : List Label} (h : run init ls = some s) (hr : s.rpc = .haveLock) :
    step s .rRead = some { s with rpc := .gotVal s.val } ∧ s.hist ≠ [] ∧ s.hist.getLast? = some s.val := by
  have I := run_valInv h valInv_init
  have hne := I.runnerNE (Or.inr hr)
  exact ⟨by simp [step, hr], hne, I.last hne⟩

/-- Interrupt while idle: the next call executes no instruction at all (whatever the interleaving) … -/
theorem idle_interrupt_next_call_fails_unless_cleared {s s' : S} {ls : List Label} (hi : s.rpc = .idle)
    (hf : s.flag = true) (h : run s (.rCall :: ls) = some s') (hq : allQuiet ls = true) :
    s'.execs = s.execs ∧ s'.rpc ≠ .exec := by
  simp only [run, step, hi] at h
  simp at h
  have a := prompt_partial h hq (by simpa using hf)
  simpa using a.2.2 (by simp)

/-- … unless the flag was cleared: then the first poll lets the call start executing. -/
theorem idle_cleared_call_proceeds {s : S} (hi : s.rpc = .idle) (hf : s.flag = false) :
    ∃ s', run s [.rCall, .rPoll] = some s' ∧ s'.rpc = .exec := by
  simp [run, step, hi, hf]

/-- The outermost recover (leaveAbrupt): idle, queue dropped, flag cleared, error value delivered. -/
theorem after_interrupt_idle_and_queue_empty {s s' : S} (h : step s .rReturn = some s') :
    s'.rpc = .idle ∧ s'.queue = 0 ∧ s'.flag = false ∧ s'.depth = 0 ∧ ∃ v, s.rpc = .raised v ∧ s'.result = some v := by
  simp only [step] at h
  split at h
  · rename_i v hv
    split at h <;> simp at h
    subst h; rename_i hd
    exact ⟨rfl, rfl, rfl, hd, v, hv, rfl⟩
  · simp at h

/-! ### sequential mechanism -/

/-- handleThrow with an uncatchable payload (ex == nil) never transfers control to a catch or finally block,
    whatever the try stack. -/
theorem no_catch_no_finally_after_interrupt (ts : List TF) (cs : Nat) :
    ∀ c ts' cs', handleThrow true ts cs ≠ .resumed c ts' cs' := by
  intro c ts' cs' h
  obtain ⟨a, b, hp⟩ := handleThrow_none_propagates ts cs
  rw [hp] at h; cases h

/-- and, independently, any block (a catch block, a finally block, an iterator's return method, the rest of a
    loop) entered once the flag is visible leaves the whole state — event log included — untouched. -/
theorem no_script_code_once_flag_visible (fuel : Nat) (c : Cfg) (b : List Stmt) (st : St) (h : st.flag = true) :
    (execBlock fuel c b st).2 = st := by
  rcases execBlock_flag fuel c b st h with e | e <;> simp [e]

/-- A nested native frame entered while the flag is visible re-raises without executing a statement or logging. -/
theorem nested_frame_reraises (fuel : Nat) (c : Cfg) (leaky swI swT : Bool) (b : List Stmt) (st : St)
    (h : st.flag = true) :
    (execFrame fuel c leaky swI swT b st).2.log = st.log ∧ (execFrame fuel c leaky swI swT b st).2.flag = true ∧
    (execFrame fuel c leaky swI swT b st).2.execs = st.execs :=
  execFrame_flag fuel c leaky swI swT b st h

/-- A frame whose marker is popped in a `defer` (vm.try, runTry, __call, nested RunProgram, Callable) leaves try stack
    and call stack exactly as it found them — for EVERY body and every outcome (normal, JS exception, uncatchable
    error propagated or swallowed), whatever generator frames, handlers or nested frames the body went through. -/
theorem frame_restores_stacks (fuel : Nat) (c : Cfg) (swI swT : Bool) (b : List Stmt) (st : St)
    (h : (execFrame fuel c false swI swT b st).1 ≠ .oof) :
    (execFrame fuel c false swI swT b st).2.ts = st.ts ∧ (execFrame fuel c false swI swT b st).2.cs = st.cs :=
  (ih_all fuel).frameS c swI swT b st h

/-- A generator / async-function frame (fixed code, e8f901b): when an uncatchable error leaves it, its marker frame
    and everything above are gone from the try stack; exactly the one context pushed by enter() is left for the
    enclosing frame's handleThrow to truncate. -/
theorem generator_frame_pops_marker (fuel : Nat) (c : Cfg) (swI swT : Bool) (b : List Stmt) (st : St) (v : Nat)
    (h : (execFrame fuel c true swI swT b st).1 = .intr v) :
    (execFrame fuel c true swI swT b st).2.ts = st.ts ∧ (execFrame fuel c true swI swT b st).2.cs = st.cs + 1 := by
  cases fuel with
  | zero => simp [execFrame] at h
  | succ n =>
    simp only [execFrame] at h ⊢
    have hb := (ih_all n).block c b (enterFrame true st)
    generalize execBlock n c b (enterFrame true st) = r at hb h ⊢
    obtain ⟨o, st1⟩ := r
    cases o with
    | normal => simp at h
    | thrown => cases swT <;> simp at h
    | oof => simp at h
    | intr v' =>
      have hu := frame_unwind hb (v := v') rfl
      simp only [if_true] at hu ⊢
      exact ⟨by trivial, hu.2⟩

/-- Every statement, block, loop, native call and for-of is stack-balanced: normal and JS-exception outcomes restore
    both stacks; an uncatchable outcome leaves only script-level handler frames above the entry try stack (which the
    enclosing handleThrow skips) and never fewer contexts than at entry. -/
theorem statements_stack_balanced (fuel : Nat) (c : Cfg) (s : Stmt) (st : St) :
    (((exec fuel c s st).1 = .normal ∨ (exec fuel c s st).1 = .thrown) →
        (exec fuel c s st).2.ts = st.ts ∧ (exec fuel c s st).2.cs = st.cs) ∧
    (∀ v, (exec fuel c s st).1 = .intr v →
        ∃ hs, allHandlers hs ∧ (exec fuel c s st).2.ts = hs ++ st.ts ∧ st.cs ≤ (exec fuel c s st).2.cs) :=
  (ih_all fuel).exec c s st

/-- Any outermost API call (RunProgram / Callable with `jobs`, Runtime.Try without) on an idle runtime, for EVERY
    program, probe index and value: if it returns an InterruptedError then the flag is cleared, the job queue is
    dropped and both VM stacks are empty again — no assumption about the frames the error passed through. -/
theorem after_interrupt_clean (jobs : Bool) (fuel : Nat) (c : Cfg) (prog : List Stmt) (st : St) (v : Nat)
    (hcs : st.cs = 0) (hts : st.ts = []) (h : (apiCallJ jobs fuel c prog st).1 = .intr v) :
    (apiCallJ jobs fuel c prog st).2.flag = false ∧ (apiCallJ jobs fuel c prog st).2.queue = [] ∧
    (apiCallJ jobs fuel c prog st).2.cs = 0 ∧ (apiCallJ jobs fuel c prog st).2.ts = [] := by
  simp only [apiCallJ] at h ⊢
  have hb := (ih_all fuel).block c prog { st with cs := st.cs + 1, ts := markerTF (st.cs + 1) :: st.ts }
  generalize execBlock fuel c prog { st with cs := st.cs + 1, ts := markerTF (st.cs + 1) :: st.ts } = r at hb h ⊢
  obtain ⟨o, st1⟩ := r
  cases o with
  | oof => simp at h
  | intr v' =>
    obtain ⟨hs, hh, hts1, hcs1⟩ := hb.2 v' rfl
    simp only [hts, hcs, Nat.zero_add] at hts1 hcs1
    have hm := handleThrow_none_handlers hs [] (markerTF 1) st1.cs hh rfl
    have htr : truncCs (markerTF 1) st1.cs = 1 := by
      simp only [truncCs, markerTF]
      by_cases hlt : 1 < st1.cs
      · simp [hlt]
      · simp [hlt]; omega
    have hu : unwindNone st1.ts st1.cs = ([markerTF 1], 1) := by
      simp only [unwindNone, hts1, hm, htr]
    simp [hu, apiRecover, leaveAbrupt]
  | normal =>
    have hbs := hb.1 (Or.inl rfl)
    simp only [hcs, true_and] at h ⊢
    cases jobs with
    | false => simp at h
    | true =>
      simp only [if_true] at h ⊢
      have hj := runJobs_balStrong fuel c [] { st1 with ts := st.ts, cs := 0 }
      generalize runJobs fuel c [] { st1 with ts := st.ts, cs := 0 } = rj at hj h ⊢
      obtain ⟨oj, stj⟩ := rj
      cases oj with
      | intr vj =>
        have e := hj (by simp)
        simp only [] at e
        simp [apiRecover, leaveAbrupt, e.2, e.1, hts]
      | normal => simp at h
      | thrown => simp at h
      | oof => simp at h
  | thrown =>
    simp only [hcs, true_and] at h ⊢
    cases jobs with
    | false => simp at h
    | true =>
      simp only [if_true] at h ⊢
      have hj := runJobs_balStrong fuel c [] { st1 with ts := st.ts, cs := 0 }
      generalize runJobs fuel c [] { st1 with ts := st.ts, cs := 0 } = rj at hj h ⊢
      obtain ⟨oj, stj⟩ := rj
      cases oj with
      | intr vj =>
        have e := hj (by simp)
        simp only [] at e
        simp [apiRecover, leaveAbrupt, e.2, e.1, hts]
      | normal => simp at h
      | thrown => simp at h
      | oof => simp at h

theorem apiRecover_keeps (v : Nat) (st : St) :
    (apiRecover v st).1 = .intr v ∧ (apiRecover v st).2.log = st.log ∧ (apiRecover v st).2.frozen = st.frozen := by
  unfold apiRecover; split <;> simp [leaveAbrupt]

/-- For EVERY program, entry point, probe index k and value: if the call returns an InterruptedError, (1) it carries
    exactly the value passed to Interrupt, and (2) the event log at return is the event log at the instant Interrupt was
    called (ghost `frozen`, recorded by the interrupting probe): no catch block, finally block, iterator return(),
    generator body, promise job or any other script statement added an event afterwards — through every nesting of
    native frames, swallowed errors and the job drain. (`Inv` holds in particular in every state with the flag clear.) -/
theorem interrupted_call_value_and_log (jobs : Bool) (fuel : Nat) (c : Cfg) (prog : List Stmt) (st : St) (v : Nat)
    (hI : Inv c st) (h : (apiCallJ jobs fuel c prog st).1 = .intr v) :
    v = c.v ∧ (apiCallJ jobs fuel c prog st).2.log = (apiCallJ jobs fuel c prog st).2.frozen := by
  simp only [apiCallJ] at h ⊢
  have hb := (ih2_all fuel).block c prog { st with cs := st.cs + 1, ts := markerTF (st.cs + 1) :: st.ts }
    (hI.of_eq rfl rfl rfl rfl)
  generalize execBlock fuel c prog { st with cs := st.cs + 1, ts := markerTF (st.cs + 1) :: st.ts } = r at hb h ⊢
  obtain ⟨o, st1⟩ := r
  have fin : ∀ (w : Nat) (s1 s2 : St), Good c (.intr w, s1) → s2.log = s1.log → s2.frozen = s1.frozen →
      (apiRecover w s2).1 = .intr v → v = c.v ∧ (apiRecover w s2).2.log = (apiRecover w s2).2.frozen := by
    intro w s1 s2 hg hl hz hr
    have k := apiRecover_keeps w s2
    rw [k.1] at hr; cases hr
    have f := hg.2 v rfl
    have i := hg.1 f.1
    exact ⟨by rw [← f.2]; exact i.2, by rw [k.2.1, k.2.2, hl, hz]; exact i.1⟩
  cases o with
  | oof => simp at h
  | intr w => exact fin w st1 _ hb rfl rfl h
  | normal =>
    simp only at h ⊢
    split at h
    · have hj := runJobs_good fuel c [] { st1 with ts := st.ts, cs := st.cs } (hb.1.of_eq rfl rfl rfl rfl)
      generalize runJobs fuel c [] { st1 with ts := st.ts, cs := st.cs } = rj at hj h ⊢
      obtain ⟨oj, stj⟩ := rj
      cases oj with
      | intr w => rename_i hc; simp only [hc]; exact fin w stj stj hj rfl rfl h
      | normal => simp at h
      | thrown => simp at h
      | oof => simp at h
    · simp at h
  | thrown =>
    simp only at h ⊢
    split at h
    · have hj := runJobs_good fuel c [] { st1 with ts := st.ts, cs := st.cs } (hb.1.of_eq rfl rfl rfl rfl)
      generalize runJobs fuel c [] { st1 with ts := st.ts, cs := st.cs } = rj at hj h ⊢
      obtain ⟨oj, stj⟩ := rj
      cases oj with
      | intr w => rename_i hc; simp only [hc]; exact fin w stj stj hj rfl rfl h
      | normal => simp at h
      | thrown => simp at h
      | oof => simp at h
    · simp at h

/-- Interrupt while idle, sequential mechanism: the next call (any program) returns the pending value at its first
    poll, logs nothing, executes nothing, and leaves the runtime clean. -/
theorem idle_interrupt_immediate (jobs : Bool) (fuel : Nat) (c : Cfg) (prog : List Stmt) (st : St)
    (hf : st.flag = true) (hcs : st.cs = 0) (hts : st.ts = []) :
    (apiCallJ jobs (fuel + 2) c prog st).1 = .intr st.val ∧ (apiCallJ jobs (fuel + 2) c prog st).2.log = st.log ∧
    (apiCallJ jobs (fuel + 2) c prog st).2.execs = st.execs ∧ (apiCallJ jobs (fuel + 2) c prog st).2.flag = false ∧
    (apiCallJ jobs (fuel + 2) c prog st).2.queue = [] := by
  have e : execBlock (fuel + 2) c prog { st with cs := st.cs + 1, ts := markerTF (st.cs + 1) :: st.ts } =
      (.intr st.val, { st with cs := st.cs + 1, ts := markerTF (st.cs + 1) :: st.ts }) := by
    cases prog with
    | nil => simp [execBlock, hf]
    | cons s rest => simp [execBlock, exec, hf]
  simp only [apiCallJ, e]
  simp [hcs, hts, unwindNone, handleThrow, frameAction, skipFrame, markerTF, tryPanicMarker, truncCs, apiRecover, leaveAbrupt]

set_option linter.unusedSimpArgs false

/-- evaluate a concrete run of the sequential model by unfolding its definitions -/
macro "eval_model" : tactic => `(tactic|
  simp [apiCall, apiCallJ, execBlock, exec, execNative, execFrame, enterFrame, doProbe, unwindNone, handleThrow,
    frameAction, skipFrame, apiRecover, leaveAbrupt, runJobs, markerTF, tryPanicMarker, truncCs, Outcome.isAbort])

/-- TEST on literals: the minimised failing input of the repaired defect (interrupt inside a generator body, a job
    queued) now ends clean in the model. -/
theorem generator_frame_clean_example :
    (apiCall 8 ⟨1, 7⟩ [Stmt.enqueue [Stmt.log 5], Stmt.native true false false 1 [Stmt.probe, Stmt.log 2]] {}).2.flag = false := by
  eval_model

/-- REGRESSION lemma about the OLD mechanism (before e8f901b), not about the current code: a generator frame that
    does not pop its marker on the panic path leaves it on the try stack … -/
theorem leaky_frame_keeps_marker_prefix_witness (st : St) (hs rest : List TF) (c0 : Nat) (hh : allHandlers hs)
    (hts : st.ts = hs ++ markerTF c0 :: rest) :
    (unwindFrameOld true st).ts = markerTF c0 :: rest := by
  have e := handleThrow_none_handlers hs rest (markerTF c0) st.cs hh rfl
  simp [unwindFrameOld, unwindNone, hts, e]

/-- … and then the outermost recover (which unwinds to the FIRST marker and drops one context) does not see an empty
    call stack, so leaveAbrupt is skipped and the flag stays set: RunProgram(cs 1, marker 1) → generator frame
    (context, marker 2, extra frame: cs 3). -/
theorem after_interrupt_not_idle_prefix_witness :
    let inner : St := { flag := true, val := 7, cs := 3, ts := [markerTF 2, markerTF 1] }
    let afterGen := unwindFrameOld true inner
    let u := unwindNone afterGen.ts afterGen.cs
    (apiRecover 7 { afterGen with ts := u.1.tail, cs := u.2 - 1 }).2.flag = true := by
  simp [unwindFrameOld, unwindNone, handleThrow, frameAction, skipFrame, markerTF, tryPanicMarker, truncCs, apiRecover]

/-! ### data-race freedom of an access table -/

/-- For ANY access table satisfying the discipline `tableOK` and any lock-respecting execution whose accesses are
    instances of table rows: two accesses to the same cell by different goroutines are both atomic, or the earlier
    one happens-before the later one via  program order ; unlock → lock ; program order. -/
theorem intr_drf_partial (t : List Access) (ht : tableOK t = true) (pre mid : List Drf.Ev) (ei ej : Drf.Ev)
    (ci : Conforms t pre ei) (cj : Conforms t (pre ++ ei :: mid) ej)
    (cell : Cell) (wi ai wj aj : Bool) (hi : ei.op = .acc cell wi ai) (hj : ej.op = .acc cell wj aj)
    (hne : ei.tid ≠ ej.tid) :
    (ai = true ∧ aj = true) ∨
    ∃ m1 m2 m3, mid = m1 ++ ⟨ei.tid, .rel⟩ :: (m2 ++ ⟨ej.tid, .acq⟩ :: m3) := by
  obtain ⟨ri, hri, hopi, hli⟩ := ci
  obtain ⟨rj, hrj, hopj, hlj⟩ := cj
  rw [hi] at hopi; rw [hj] at hopj
  injection hopi with hci _ hai
  injection hopj with hcj _ haj
  have hc : cellOK t cell = true := by
    simp only [tableOK, Bool.and_eq_true] at ht
    cases cell
    · exact ht.1
    · exact ht.2
  rcases cellOK_cases hc with hall | hall
  · left
    exact ⟨by rw [hai]; exact hall ri hri hci.symm, by rw [haj]; exact hall rj hrj hcj.symm⟩
  · right
    have h1 := hli (hall ri hri hci.symm)
    have h2 := hlj (hall rj hrj hcj.symm)
    rw [runHolder_append] at h2
    simp only [h1, Option.bind_some, runHolder, holderStep, hi] at h2
    exact released_then_acquired mid ei.tid ej.tid hne h2

/-! ### hypotheses are satisfiable (tests on literals) -/

/-- an interleaving in which a 2nd goroutine interrupts a running script at depth 1 and the call returns the value -/
example : ∃ s, run init [.rCall, .rPoll, .rInstrEnter, .rPoll, .iLock 3 42, .iWrite 3, .iStore 3, .rInstr true,
    .iUnlock 3, .rPoll, .rLock, .rRead, .rUnlock, .rUnwind, .rReturn] = some s ∧ s.result = some 42 ∧ s.execs = 2 ∧
    s.queue = 0 ∧ s.flag = false := by
  refine ⟨_, rfl, ?_⟩
  decide

end GojaModel.C15.Props
