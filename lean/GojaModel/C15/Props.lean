/-
  C15 — property theorems about model `Intr` (Conc = interleaving semantics, Model = sequential VM-control
  mechanism, Drf = happens-before model over the access table).  Every `theorem` here is one proof obligation.

  Deliberately partial (see design/C15.md):
    * `prompt…` bound the number of VM INSTRUCTIONS; a native call that runs long without re-entering the VM is
      outside the model;
    * `intr_drf_partial` is about an access table (instantiated with the regenerated one in Tie.lean), not about the Go binary;
  The old (pre e8f901b) generator-frame mechanism survives only in the regression lemmas `…_prefix_witness`.
-/
import GojaModel.C15.Balance
import GojaModel.C15.Invariant
import GojaModel.C15.Sim
import GojaModel.C15.Observe
import GojaModel.C15.Deliver
import GojaModel.C15.Commute
import GojaModel.C15.Race
import GojaModel.C15.Drf

namespace GojaModel.C15.Props
open GojaModel.C15 GojaModel.C15.Conc GojaModel.C15.Drf

/-! ### interleaving semantics -/

/-- Once the store to `interrupted` is visible, and for as long as nobody clears it and the pending call has not
    returned, the runner completes at most ONE more instruction (the one that had already passed its poll) and
    starts none — over all interleavings with any number of interrupting goroutines, at any nesting depth. -/
theorem prompt_partial {s s' : S} {ls : List Label} (h : run s ls = some s') (hq : allQuiet ls = true)
    (hf : s.flag = true) :
    s'.flag = true ∧ s'.execs ≤ s.execs + 1 ∧ (s.rpc ≠ .exec → s'.execs = s.execs ∧ s'.rpc ≠ .exec) := by
  have a := run_quiet h hq hf
  have m := run_execs_mono h
  have hs : allowance s ≤ 1 := by unfold allowance; split <;> omega
  refine ⟨a.1, by omega, ?_⟩
  intro hne
  have h0 : allowance s = 0 := by simp [allowance, hne]
  refine ⟨by omega, ?_⟩
  intro he
  have : allowance s' = 1 := by simp [allowance, he]
  omega

/-- While the InterruptedError propagates (through any number of enclosing native frames, including Go functions
    that swallow the error and let the outer script continue) no further VM instruction is executed. -/
theorem prompt_nested_partial {s s' : S} {ls : List Label} {v : Nat} (h : run s ls = some s') (hq : allQuiet ls = true)
    (hf : s.flag = true) (hr : s.rpc = .raised v) : s'.execs = s.execs ∧ s'.rpc ≠ .exec :=
  (prompt_partial h hq hf).2.2 (by simp [hr])

/-- The value the runner reads under the lock is the argument of the latest Interrupt (in critical-section
    order), and there is one: the flag can only be seen set after a value was written. -/
theorem value_is_last_set {s : S} {ls : List Label} (h : run init ls = some s) (hr : s.rpc = .haveLock) :
    step s .rRead = some { s with rpc := .gotVal s.val } ∧ s.hist ≠ [] ∧ s.hist.getLast? = some s.val := by
  have I := run_valInv h valInv_init
  have hne := I.runnerNE (Or.inr hr)
  exact ⟨by simp [step, hr], hne, I.last hne⟩

/-- Interrupt while idle: the next call executes no instruction at all (whatever the interleaving) … -/
theorem idle_interrupt_next_call_fails_unless_cleared {s s' : S} {ls : List Label} (hi : s.rpc = .idle)
    (hf : s.flag = true) (h : run s (.rCall :: ls) = some s') (hq : allQuiet ls = true) :
    s'.execs = s.execs ∧ s'.rpc ≠ .exec := by
  simp only [run, step, hi] at h
  simp at h
  have a := prompt_partial h hq (by simpa using hf)
  simpa using a.2.2 (by simp)

/-- … unless the flag was cleared: then the first poll lets the call start executing. -/
theorem idle_cleared_call_proceeds {s : S} (hi : s.rpc = .idle) (hf : s.flag = false) :
    ∃ s', run s [.rCall, .rPoll] = some s' ∧ s'.rpc = .exec := by
  simp [run, step, hi, hf]

/-- The outermost recover (leaveAbrupt): idle, queue dropped, flag cleared, error value delivered. -/
theorem after_interrupt_idle_and_queue_empty {s s' : S} (h : step s .rReturn = some s') :
    s'.rpc = .idle ∧ s'.queue = 0 ∧ s'.flag = false ∧ s'.depth = 0 ∧ ∃ v, s.rpc = .raised v ∧ s'.result = some v := by
  simp only [step] at h
  split at h
  · rename_i v hv
    split at h <;> simp at h
    subst h; rename_i hd
    exact ⟨rfl, rfl, rfl, hd, v, hv, rfl⟩
  · simp at h

/-! ### ClearInterrupt racing Interrupt; several interrupting goroutines (Race.lean) — ARBITRARY executions from the
    initial state: any number of goroutines, ClearInterrupt at any moment, no quietness assumption -/

/-- interruptLock is exclusive: at most one Interrupt call is inside its critical section, and none while the runner
    holds the lock to read the value. -/
theorem interrupt_lock_is_exclusive {s : S} {ls : List Label} (h : run init ls = some s) :
    (∀ t t', s.ipc t ≠ .idle → s.ipc t' ≠ .idle → t = t') ∧
    ((s.rpc = .haveLock ∨ ∃ v, s.rpc = .gotVal v) → ∀ t, s.ipc t = .idle) := by
  have M := (run_raceInv h raceInv_init).mutex
  exact ⟨fun t t' a b => M.unique a b, M.runner_excludes⟩

/-- ClearInterrupt (an unlocked atomic store of 0) racing with any number of Interrupt calls: in EVERY reachable state
    the runtime is either clean (flag clear) or interrupted with a value, and that value is the LAST one written — a set
    flag without a value, or with an older value than the latest write, is impossible. -/
theorem flag_never_without_last_value {s : S} {ls : List Label} (h : run init ls = some s) :
    s.flag = false ∨ (s.flag = true ∧ s.hist ≠ [] ∧ s.hist.getLast? = some s.val) := by
  have I := (run_raceInv h raceInv_init).val
  cases hf : s.flag with
  | false => exact Or.inl rfl
  | true => exact Or.inr ⟨rfl, I.flagNE hf, I.last (I.flagNE hf)⟩

/-- The flag cell is sequentially consistent: in every reachable state its value is the LAST write to it in interleaving
    order — 1 by an Interrupt's store, 0 by ClearInterrupt or by the outermost recover (leaveAbrupt).  Together with
    `flag_never_without_last_value` this decides every Interrupt/ClearInterrupt race: the execution ends clean iff the last
    such write is a clearing one, and otherwise interrupted with the last written value. -/
theorem flag_is_the_last_write {s : S} {ls : List Label} (h : run init ls = some s) :
    s.flag = (lastFlagWrite ls).getD false ∧
    (lastFlagWrite ls = some true → s.hist ≠ [] ∧ s.hist.getLast? = some s.val) := by
  have f : s.flag = (lastFlagWrite ls).getD false := run_flag h
  refine ⟨f, ?_⟩
  intro hl
  have ht : s.flag = true := by rw [f, hl]; rfl
  have I := (run_raceInv h raceInv_init).val
  exact ⟨I.flagNE ht, I.last (I.flagNE ht)⟩

/-- NORMAL FORM for several interrupting goroutines.  Cut any execution at the moment the runner has the lock: every
    Interrupt call that took the lock before has completed (written, stored, unlocked), the history is exactly the list of
    their arguments in lock order, and the runner reads the argument of the LAST of them. -/
theorem reported_value_is_last_interrupt_in_lock_order {s : S} {pre : List Label} (h : run init pre = some s)
    (hr : s.rpc = .haveLock) :
    (∀ t, s.ipc t = .idle) ∧ s.hist = lockArgs pre ∧
    step s .rRead = some { s with rpc := .gotVal s.val } ∧ (lockArgs pre).getLast? = some s.val := by
  have R := run_raceInv h raceInv_init
  have idle := R.mutex.runner_excludes (Or.inl hr)
  have rep := run_rep h mutex_init rep_init
  have hh : s.hist = lockArgs pre := by
    rcases rep with ⟨t, v, a, _⟩ | ⟨_, b⟩
    · rw [idle t] at a; cases a
    · simpa using b.symm
  have hne := R.val.runnerNE (Or.inr hr)
  exact ⟨idle, hh, by simp [step, hr], by rw [← hh]; exact R.val.last hne⟩

/-- A value the runner is raising, or that an API call has returned in its InterruptedError, was passed to Interrupt by
    some goroutine in this execution — whatever ClearInterrupt calls raced with it. -/
theorem returned_value_was_passed_to_interrupt {s : S} {ls : List Label} (h : run init ls = some s) (v : Nat)
    (hv : s.rpc = .raised v ∨ s.rpc = .gotVal v ∨ s.result = some v) : ∃ t, Label.iLock t v ∈ ls := by
  have P := (run_raceInv h raceInv_init).prov
  have hm : v ∈ s.hist := by
    rcases hv with a | a | a
    · exact P.got v (Or.inr a)
    · exact P.got v (Or.inl a)
    · exact P.res v a
  rcases (run_hist_from_calls h).1 v hm with a | ⟨t, a⟩ | a
  · simp [init] at a
  · simp [init] at a
  · exact a

/-! ### sequential mechanism -/

/-- handleThrow with an uncatchable payload (ex == nil) never transfers control to a catch or finally block,
    whatever the try stack. -/
theorem no_catch_no_finally_after_interrupt (ts : List TF) (cs : Nat) :
    ∀ c ts' cs', handleThrow true ts cs ≠ .resumed c ts' cs' := by
  intro c ts' cs' h
  obtain ⟨a, b, hp⟩ := handleThrow_none_propagates ts cs
  rw [hp] at h; cases h

/-- and, independently, any block (a catch block, a finally block, an iterator's return method, the rest of a
    loop) entered once the flag is visible leaves every observable part of the state — event log, queue, stacks,
    count of executed statements — untouched (only the ghosts `polls` and `tr` advance). -/
theorem no_script_code_once_flag_visible (fuel : Nat) (c : Cfg) (b : List Stmt) (st : St) (h : st.flag = true) :
    SameObs st (execBlock fuel c b st).2 := by
  rcases execBlock_flag fuel c b st h with e | e
  · rw [e]; exact sameObs_raise_poll h
  · rw [e]; constructor <;> rfl

/-- A nested native frame entered while the flag is visible re-raises without executing a statement or logging. -/
theorem nested_frame_reraises (fuel : Nat) (c : Cfg) (g swI swT : Bool) (b : List Stmt) (st : St)
    (h : st.flag = true) :
    (execFrame fuel c g swI swT b st).2.log = st.log ∧ (execFrame fuel c g swI swT b st).2.flag = true ∧
    (execFrame fuel c g swI swT b st).2.execs = st.execs :=
  execFrame_flag fuel c g swI swT b st h

/-- A frame whose marker is popped in a `defer` (vm.try, runTry, __call, nested RunProgram, Callable) leaves try stack
    and call stack exactly as it found them — for EVERY body and every outcome (normal, JS exception, uncatchable
    error propagated or swallowed), whatever generator frames, handlers or nested frames the body went through. -/
theorem frame_restores_stacks (fuel : Nat) (c : Cfg) (swI swT : Bool) (b : List Stmt) (st : St)
    (h : (execFrame fuel c false swI swT b st).1 ≠ .oof) :
    (execFrame fuel c false swI swT b st).2.ts = st.ts ∧ (execFrame fuel c false swI swT b st).2.cs = st.cs :=
  (ih_all fuel).frameS c swI swT b st h

/-- A generator / async-function frame (fixed code, e8f901b): when an uncatchable error leaves it, its marker frame
    and everything above are gone from the try stack; exactly the one context pushed by enter() is left for the
    enclosing frame's handleThrow to truncate. -/
theorem generator_frame_pops_marker (fuel : Nat) (c : Cfg) (swI swT : Bool) (b : List Stmt) (st : St) (v : Nat)
    (h : (execFrame fuel c true swI swT b st).1 = .intr v) :
    (execFrame fuel c true swI swT b st).2.ts = st.ts ∧ (execFrame fuel c true swI swT b st).2.cs = st.cs + 1 := by
  cases fuel with
  | zero => simp [execFrame] at h
  | succ n =>
    simp only [execFrame] at h ⊢
    have hb := (ih_all n).block c b (enterFrame true st)
    generalize execBlock n c b (enterFrame true st) = r at hb h ⊢
    obtain ⟨o, st1⟩ := r
    cases o with
    | normal => simp at h
    | thrown => cases swT <;> simp at h
    | oof => simp at h
    | intr v' =>
      have hu := frame_unwind hb (v := v') rfl
      simp only [if_true] at hu ⊢
      exact ⟨by trivial, hu.2⟩

/-- Every statement is stack-balanced: normal and JS-exception outcomes restore both stacks; an uncatchable outcome
    leaves only script-level handler frames above the entry try stack (which the enclosing handleThrow skips) and
    never fewer contexts than at entry. -/
theorem statements_stack_balanced (fuel : Nat) (c : Cfg) (s : Stmt) (st : St) :
    (((exec fuel c s st).1 = .normal ∨ (exec fuel c s st).1 = .thrown) →
        (exec fuel c s st).2.ts = st.ts ∧ (exec fuel c s st).2.cs = st.cs) ∧
    (∀ v, (exec fuel c s st).1 = .intr v →
        ∃ hs, allHandlers hs ∧ (exec fuel c s st).2.ts = hs ++ st.ts ∧ st.cs ≤ (exec fuel c s st).2.cs) :=
  (ih_all fuel).exec c s st

/-- vm.curAsyncRunner: every statement leaves it as it found it, or nil (the reset in onFulfilled/onRejected is
    deferred, so it also runs when an uncatchable error leaves the continuation). -/
theorem statements_keep_asyncRunner (fuel : Nat) (c : Cfg) (s : Stmt) (st : St) :
    (exec fuel c s st).2.car = st.car ∨ (exec fuel c s st).2.car = false :=
  (ih4_all fuel).exec c s st

/-- Every statement's emitted trace extends an execution of the interleaving model to an execution of the interleaving
    model, with the shared cells in agreement and the runner where the outcome says (at a poll / raising v). -/
theorem statements_simulated (s0 : S) (fuel : Nat) (c : Cfg) (s : Stmt) (st : St) (h : Live s0 st) :
    Sim s0 (exec fuel c s st) :=
  (ih3_all s0 fuel).exec c s st h

/-- What "the runtime is idle and nothing of an earlier run is left" means in the model: flag, queued jobs, call
    stack, try stack, and the async runner the VM points at (vm.go captureStack appends the frames of the awaiting
    async functions to EVERY later stack trace iff vm.curAsyncRunner != nil — the red-team change m4). -/
structure Idle (st : St) : Prop where
  flag : st.flag = false
  queue : st.queue = []
  cs : st.cs = 0
  ts : st.ts = []
  car : st.car = false

/-- Everything the four inductions (stack balance, interrupt invariant, async-runner discipline, simulation) say about
    ONE outermost API call, for every program, entry point (`jobs`), fuel, probe index, external delivery point and
    value.  `At s0 st .idle`: the trace emitted so far is an execution of the interleaving model `Conc` from `s0`
    that ends, in agreement on the shared cells, with the runner idle. -/
theorem apiCallJ_master (s0 : S) (jobs : Bool) (fuel : Nat) (c : Cfg) (prog : List Stmt) (st : St)
    (hcs : st.cs = 0) (hts : st.ts = []) (hI : Inv c st) (hcar : st.car = false) (hAt : At s0 st .idle)
    (hne : (apiCallJ jobs fuel c prog st).1 ≠ .oof) :
    (apiCallJ jobs fuel c prog st).2.cs = 0 ∧ (apiCallJ jobs fuel c prog st).2.ts = [] ∧
    (apiCallJ jobs fuel c prog st).2.car = false ∧ At s0 (apiCallJ jobs fuel c prog st).2 .idle ∧
    (∀ v, (apiCallJ jobs fuel c prog st).1 = .intr v →
      v = c.v ∧ (apiCallJ jobs fuel c prog st).2.log = (apiCallJ jobs fuel c prog st).2.frozen ∧
      (apiCallJ jobs fuel c prog st).2.flag = false ∧ (apiCallJ jobs fuel c prog st).2.queue = []) := by
  simp only [apiCallJ] at hne ⊢
  have hL0 : Live s0 (emit [.rCall] { st with cs := st.cs + 1, ts := markerTF (st.cs + 1) :: st.ts }) :=
    idle_call hAt rfl rfl rfl
  have hb := (ih_all fuel).block c prog (emit [.rCall] { st with cs := st.cs + 1, ts := markerTF (st.cs + 1) :: st.ts })
  have hg := (ih2_all fuel).block c prog (emit [.rCall] { st with cs := st.cs + 1, ts := markerTF (st.cs + 1) :: st.ts })
    (hI.of_eq rfl rfl rfl rfl)
  have hc := (ih4_all fuel).block c prog (emit [.rCall] { st with cs := st.cs + 1, ts := markerTF (st.cs + 1) :: st.ts })
  have hs := (ih3_all s0 fuel).block c prog (emit [.rCall] { st with cs := st.cs + 1, ts := markerTF (st.cs + 1) :: st.ts }) hL0
  generalize execBlock fuel c prog (emit [.rCall] { st with cs := st.cs + 1, ts := markerTF (st.cs + 1) :: st.ts }) = r
    at hb hg hc hs hne ⊢
  obtain ⟨o, st1⟩ := r
  have hcar1 : st1.car = false := by
    rcases hc with h | h
    · rw [h]; exact hcar
    · exact h
  -- the outermost recover, given that it sees an empty call stack
  have fin : ∀ (w : Nat) (s2 : St), s2.cs = 0 → s2.ts = [] → s2.car = false → Good c (.intr w, s2) → Dead s0 s2 w →
      (apiRecover w s2).2.cs = 0 ∧ (apiRecover w s2).2.ts = [] ∧ (apiRecover w s2).2.car = false ∧
      At s0 (apiRecover w s2).2 .idle ∧
      (∀ v, (apiRecover w s2).1 = .intr v → v = c.v ∧ (apiRecover w s2).2.log = (apiRecover w s2).2.frozen ∧
        (apiRecover w s2).2.flag = false ∧ (apiRecover w s2).2.queue = []) := by
    intro w s2 h1 h2 h3 hgood hdead
    have f := hgood.2 w rfl
    have i := hgood.1 f.1
    simp only [apiRecover, h1, if_true]
    refine ⟨h1, h2, h3, dead_return hdead rfl rfl rfl, ?_⟩
    intro v hv
    simp at hv; subst hv
    exact ⟨by rw [← f.2]; exact i.2, i.1, rfl, rfl⟩
  cases o
  case oof => simp at hne
  case intr w =>
    obtain ⟨hs', hh, hts1, hcs1⟩ := hb.2 w rfl
    simp only [emit, hts, hcs, Nat.zero_add] at hts1 hcs1
    have hm := handleThrow_none_handlers hs' [] (markerTF 1) st1.cs hh rfl
    have htr : truncCs (markerTF 1) st1.cs = 1 := by
      simp only [truncCs, markerTF]
      by_cases hlt : 1 < st1.cs
      · simp [hlt]
      · simp [hlt]; omega
    have hu : unwindNone st1.ts st1.cs = ([markerTF 1], 1) := by
      simp only [unwindNone, hts1, hm, htr]
    simp only [hu, List.tail_cons, Nat.sub_self]
    exact fin w _ rfl rfl hcar1 (hg.restack _ _ (fun _ h => h) rfl rfl rfl rfl) ((hs.2 w rfl).congr rfl rfl rfl)
  -- the normal way out (the program completed or threw a script exception): leave() drains the jobs
  all_goals
    have hl1 : Live s0 st1 := hs.1 (by first | exact Or.inl rfl | exact Or.inr rfl)
    simp only [hcs, true_and] at hne ⊢
    cases jobs with
    | false =>
      simp only [Bool.false_eq_true, if_false, if_true]
      refine ⟨rfl, hts, hcar1, live_exit (hl1.congr (st' := { st1 with ts := st.ts, cs := 0 }) rfl rfl rfl) rfl rfl rfl, ?_⟩
      intro v hv; simp at hv
    | true =>
      simp only [if_true] at hne ⊢
      have hj := runJobs_balStrong fuel c [] { st1 with ts := st.ts, cs := 0 }
      have hjg := runJobs_good fuel c [] { st1 with ts := st.ts, cs := 0 } (hg.1.of_eq rfl rfl rfl rfl)
      have hjc := runJobs_carOk fuel c [] { st1 with ts := st.ts, cs := 0 }
      have hjs := runJobs_sim s0 fuel c [] { st1 with ts := st.ts, cs := 0 } (hl1.congr rfl rfl rfl)
      generalize runJobs fuel c [] { st1 with ts := st.ts, cs := 0 } = rj at hj hjg hjc hjs hne ⊢
      obtain ⟨oj, stj⟩ := rj
      have hcarj : stj.car = false := by
        rcases hjc with h | h
        · rw [h]; exact hcar1
        · exact h
      cases oj with
      | intr w =>
        have e := hj (by simp)
        exact fin w stj e.2 (by rw [e.1]; exact hts) hcarj hjg (hjs.2 w rfl)
      | oof => simp at hne
      | normal =>
        have e := hj (by simp)
        refine ⟨e.2, by rw [show (emit [Label.rExit] stj).ts = stj.ts from rfl, e.1]; exact hts, hcarj,
          live_exit (hjs.1 (Or.inl rfl)) rfl rfl rfl, ?_⟩
        intro v hv; simp at hv
      | thrown =>
        have e := hj (by simp)
        refine ⟨e.2, by rw [show (emit [Label.rExit] stj).ts = stj.ts from rfl, e.1]; exact hts, hcarj,
          live_exit (hjs.1 (Or.inr rfl)) rfl rfl rfl, ?_⟩
        intro v hv; simp at hv

/-- a fresh runtime: nothing emitted yet, the interleaving model in its initial state -/
theorem fresh_at_idle : At Conc.init ({} : St) .idle :=
  ⟨Conc.init, rfl, ⟨rfl, rfl, rfl, fun _ => rfl, rfl⟩, rfl⟩

/-- Any outermost call (RunProgram / Callable / Runtime.Try / Exception.Error() at depth 0) on an idle runtime, for EVERY
    program, probe index, external delivery point and value: if it returns an InterruptedError the runtime is `Idle`
    again — flag cleared, queue dropped, both VM stacks empty, and the VM points at no async runner (so later stack
    traces cannot show frames of the aborted run) — with no assumption about the frames the error passed through. -/
theorem after_interrupt_clean (s0 : S) (jobs : Bool) (fuel : Nat) (c : Cfg) (prog : List Stmt) (st : St) (v : Nat)
    (hcs : st.cs = 0) (hts : st.ts = []) (hI : Inv c st) (hcar : st.car = false) (hAt : At s0 st .idle)
    (h : (apiCallJ jobs fuel c prog st).1 = .intr v) : Idle (apiCallJ jobs fuel c prog st).2 := by
  have m := apiCallJ_master s0 jobs fuel c prog st hcs hts hI hcar hAt (by rw [h]; simp)
  have k := m.2.2.2.2 v h
  exact ⟨k.2.2.1, k.2.2.2, m.1, m.2.1, m.2.2.1⟩

/-- Whatever the outcome, the VM stacks are empty and the VM points at no async runner when the call has returned, and
    the runtime is again in a state the interleaving model calls idle: the next call may start from it. -/
theorem call_returns_to_reusable_state (s0 : S) (jobs : Bool) (fuel : Nat) (c : Cfg) (prog : List Stmt) (st : St)
    (hcs : st.cs = 0) (hts : st.ts = []) (hI : Inv c st) (hcar : st.car = false) (hAt : At s0 st .idle)
    (hne : (apiCallJ jobs fuel c prog st).1 ≠ .oof) :
    (apiCallJ jobs fuel c prog st).2.cs = 0 ∧ (apiCallJ jobs fuel c prog st).2.ts = [] ∧
    (apiCallJ jobs fuel c prog st).2.car = false ∧ At s0 (apiCallJ jobs fuel c prog st).2 .idle :=
  let m := apiCallJ_master s0 jobs fuel c prog st hcs hts hI hcar hAt hne
  ⟨m.1, m.2.1, m.2.2.1, m.2.2.2.1⟩

/-- For EVERY program, entry point, probe index k, external delivery point and value: if the call returns an
    InterruptedError, (1) it carries exactly the value passed to Interrupt, and (2) the event log at return is the event
    log at the instant Interrupt was called (ghost `frozen`): no catch block, finally block, iterator return(),
    generator body, promise job or any other script statement added an event afterwards. -/
theorem interrupted_call_value_and_log (s0 : S) (jobs : Bool) (fuel : Nat) (c : Cfg) (prog : List Stmt) (st : St)
    (v : Nat) (hcs : st.cs = 0) (hts : st.ts = []) (hI : Inv c st) (hcar : st.car = false) (hAt : At s0 st .idle)
    (h : (apiCallJ jobs fuel c prog st).1 = .intr v) :
    v = c.v ∧ (apiCallJ jobs fuel c prog st).2.log = (apiCallJ jobs fuel c prog st).2.frozen := by
  have k := (apiCallJ_master s0 jobs fuel c prog st hcs hts hI hcar hAt (by rw [h]; simp)).2.2.2.2 v h
  exact ⟨k.1, k.2.1⟩

/-! ### the join: an interpreter run IS an execution of the interleaving model -/

/-- THE REFINEMENT.  The list of actions an outermost call emits (its polls, instructions, lock/read/unlock, control
    steps, and the four atomic actions of each Interrupt — by the runner itself inside probe(), or by another goroutine
    just before ANY chosen poll `c.ext`) is an execution of the two-thread interleaving model `Conc`; the execution
    ends with the runner idle and the shared cells (flag, value, lock, interrupters) as the interpreter says. -/
theorem interpreter_run_is_interleaved_execution (s0 : S) (jobs : Bool) (fuel : Nat) (c : Cfg) (prog : List Stmt)
    (st : St) (hcs : st.cs = 0) (hts : st.ts = []) (hI : Inv c st) (hcar : st.car = false) (hAt : At s0 st .idle)
    (hne : (apiCallJ jobs fuel c prog st).1 ≠ .oof) :
    ∃ s', run s0 (apiCallJ jobs fuel c prog st).2.tr = some s' ∧ s'.rpc = .idle ∧
      s'.flag = (apiCallJ jobs fuel c prog st).2.flag ∧ s'.val = (apiCallJ jobs fuel c prog st).2.val ∧
      s'.lock = none ∧ (∀ t, s'.ipc t = .idle) := by
  obtain ⟨s', h1, ⟨a, b, c', d, _⟩, h3⟩ := (apiCallJ_master s0 jobs fuel c prog st hcs hts hI hcar hAt hne).2.2.2.1
  exact ⟨s', h1, h3, a, b, c', d⟩

/-- the script part of a call emits an execution of `Conc`, all of whose actions are quiet -/
theorem script_trace_valid_and_quiet (s0 : S) (fuel : Nat) (c : Cfg) (prog : List Stmt) (st : St) (hL : Live s0 st)
    (hQ : TrQuiet st) (hne : (execBlock fuel c prog st).1 ≠ .oof) :
    (∃ s', run s0 (execBlock fuel c prog st).2.tr = some s') ∧ allQuiet (execBlock fuel c prog st).2.tr = true := by
  have hs := (ih3_all s0 fuel).block c prog st hL
  refine ⟨?_, (ih5_all fuel).block c prog st hQ⟩
  cases ho : (execBlock fuel c prog st).1 with
  | oof => exact absurd ho hne
  | normal => obtain ⟨s', h, _⟩ := hs.1 (Or.inl ho); exact ⟨s', h⟩
  | thrown => obtain ⟨s', h, _⟩ := hs.1 (Or.inr ho); exact ⟨s', h⟩
  | intr v => obtain ⟨s', h, _⟩ := hs.2 v ho; exact ⟨s', h⟩

/-- Hence the promptness theorem of the interleaving model speaks about interpreter runs: cut the trace emitted by the
    script part of a call (`execBlock`, i.e. up to the outermost recover) at ANY point where the store to `interrupted`
    is visible; in the rest at most one more instruction is executed, and none if the runner was not between a poll and
    its instruction — for every program, every placement of the Interrupt (k-th probe, or any poll `ext`), no side
    condition on the rest of the trace. -/
theorem interpreter_trace_prompt (s0 : S) (fuel : Nat) (c : Cfg) (prog : List Stmt) (st : St) (hL : Live s0 st)
    (hQ : TrQuiet st) (pre post : List Label) (hsplit : (execBlock fuel c prog st).2.tr = pre ++ post)
    (hne : (execBlock fuel c prog st).1 ≠ .oof) (s : S) (hpre : run s0 pre = some s) (hf : s.flag = true) :
    ∃ s', run s post = some s' ∧ s'.execs ≤ s.execs + 1 ∧ (s.rpc ≠ .exec → s'.execs = s.execs ∧ s'.rpc ≠ .exec) := by
  obtain ⟨⟨s', hr⟩, hq⟩ := script_trace_valid_and_quiet s0 fuel c prog st hL hQ hne
  rw [hsplit, run_append, hpre] at hr
  have hr' : run s post = some s' := hr
  rw [hsplit, allQuiet_append] at hq
  have hq' : allQuiet post = true := by
    cases h1 : allQuiet pre <;> cases h2 : allQuiet post <;> simp [h1, h2] at hq ⊢
  have p := prompt_partial hr' hq' hf
  exact ⟨s', hr', p.2.1, p.2.2⟩

/-- THE PROJECTION (interleaving model → interpreter interface).  In EVERY execution of the two-thread model that starts
    with the flag clear (any number of interrupting goroutines, their actions interleaved anywhere, no ClearInterrupt,
    call not yet returned) the runner's polls observe `false` exactly n times and `true` ever after, n = the number of
    polls taken before the first store to `interrupted`.  The runner depends on the other goroutines only through
    these observations (and the value read under the lock, `value_is_last_set`), so every interleaving is, to the runner,
    "Interrupt delivered at poll point n" — the executions the interpreter implements with `Cfg.ext = some n`. -/
theorem interleaved_executions_project {s s' : S} {ls : List Label} (h : run s ls = some s') (hq : allQuiet ls = true)
    (hf : s.flag = false) :
    obs s ls = List.replicate (pollCount (beforeStore ls)) false ++ List.replicate (pollCount (fromStore ls)) true :=
  obs_delivered_at h hq hf

/-- LABEL-LEVEL form of the projection, within a poll-free stretch: wherever the four atomic actions of an Interrupt(v) by
    goroutine t fall among runner actions that touch no shared cell, the execution has the same result (same final
    state, or equally impossible) as the canonical one in which all four are taken together immediately before the
    runner's next poll — the placement the interpreter emits for `Cfg.ext`. -/
theorem interrupt_placement_irrelevant (s : S) (t v : Nat) (b1 b2 b3 b4 rest : List Label)
    (h1 : ∀ b ∈ b1, runnerLocal b = true) (h2 : ∀ b ∈ b2, runnerLocal b = true)
    (h3 : ∀ b ∈ b3, runnerLocal b = true) (h4 : ∀ b ∈ b4, runnerLocal b = true) :
    run s (Label.iLock t v :: b1 ++ Label.iWrite t :: b2 ++ Label.iStore t :: b3 ++ Label.iUnlock t :: b4 ++ rest) =
    run s (b1 ++ b2 ++ b3 ++ b4 ++ [Label.iLock t v, Label.iWrite t, Label.iStore t, Label.iUnlock t] ++ rest) :=
  interrupt_actions_commute_to_next_poll s t v b1 b2 b3 b4 rest h1 h2 h3 h4

/-- … and across polls: taking the lock, writing the value and releasing the lock commute with the runner's poll (only
    the store to `interrupted` does not), so what decides the delivery point is the position of the store alone. -/
theorem non_store_actions_commute_with_poll (s : S) (a : Label) (ha : isI a = true) (hns : isStoreL a = false) :
    run s [a, .rPoll] = run s [.rPoll, a] :=
  comm_i_poll s a ha hns

/-- … and the interpreter's own runs are among them: what the polls of an interpreter run observe is `false` n times,
    then `true`, with n read off its emitted trace. -/
theorem interpreter_observations (s0 : S) (fuel : Nat) (c : Cfg) (prog : List Stmt) (st : St) (hL : Live s0 st)
    (hQ : TrQuiet st) (hne : (execBlock fuel c prog st).1 ≠ .oof) (hf : s0.flag = false) :
    obs s0 (execBlock fuel c prog st).2.tr =
      List.replicate (pollCount (beforeStore (execBlock fuel c prog st).2.tr)) false ++
      List.replicate (pollCount (fromStore (execBlock fuel c prog st).2.tr)) true := by
  obtain ⟨⟨s', hr⟩, hq⟩ := script_trace_valid_and_quiet s0 fuel c prog st hL hQ hne
  exact obs_delivered_at hr hq hf

/-- `Cfg.ext = some n` IS "delivered at poll point n" in the sense of the projection theorem: when another goroutine's
    Interrupt is placed before the interpreter's poll number n (no probe-interrupt), the polls of the emitted execution
    observe `false` exactly n times, then `true` — for every program. (`Dlv n 0 st`: so far the trace has as many polls as
    the poll counter says and no store; true of a fresh call, `fresh_call_dlv`.) -/
theorem ext_is_the_delivery_point (s0 : S) (fuel : Nat) (c : Cfg) (prog : List Stmt) (st : St) (n : Nat)
    (hk : c.k = 0) (he : c.ext = some n) (hD : Dlv n 0 st) (hL : Live s0 st) (hQ : TrQuiet st)
    (hne : (execBlock fuel c prog st).1 ≠ .oof) (hf0 : s0.flag = false)
    (hfl : (execBlock fuel c prog st).2.flag = true) :
    obs s0 (execBlock fuel c prog st).2.tr =
      List.replicate n false ++ List.replicate (pollCount (fromStore (execBlock fuel c prog st).2.tr)) true := by
  have o := interpreter_observations s0 fuel c prog st hL hQ hne hf0
  have d := (ih6_all n fuel).block c prog st hk he hD
  rw [(d.2.2 hfl).2] at o
  exact o

theorem fresh_call_dlv (n : Nat) : Dlv n 0 (emit [Label.rCall] ({} : St)) :=
  ⟨rfl, fun _ => rfl, fun h => by cases h⟩

theorem apiRecover_keeps (v : Nat) (st : St) :
    (apiRecover v st).1 = .intr v ∧ (apiRecover v st).2.log = st.log ∧ (apiRecover v st).2.frozen = st.frozen := by
  unfold apiRecover; split <;> simp [leaveAbrupt, emit]

/-- Interrupt while idle, sequential mechanism: the next call (any program) returns the pending value at its first
    poll, logs nothing, executes nothing, and leaves the runtime clean. -/
theorem idle_interrupt_immediate (jobs : Bool) (fuel : Nat) (c : Cfg) (prog : List Stmt) (st : St)
    (hf : st.flag = true) (hcs : st.cs = 0) (hts : st.ts = []) :
    (apiCallJ jobs (fuel + 2) c prog st).1 = .intr st.val ∧ (apiCallJ jobs (fuel + 2) c prog st).2.log = st.log ∧
    (apiCallJ jobs (fuel + 2) c prog st).2.execs = st.execs ∧ (apiCallJ jobs (fuel + 2) c prog st).2.flag = false ∧
    (apiCallJ jobs (fuel + 2) c prog st).2.queue = [] := by
  have hf0 : (emit [Label.rCall] { st with cs := st.cs + 1, ts := markerTF (st.cs + 1) :: st.ts }).flag = true := hf
  have key : ∀ st0 : St, st0.flag = true →
      execBlock (fuel + 2) c prog st0 = (.intr st0.val, raise (pollStep c st0)) := by
    intro st0 h0
    cases prog with
    | nil => simp [execBlock, pollStep_flag h0, h0]
    | cons s rest =>
      have e1 : exec (fuel + 1) c s st0 = (.intr st0.val, raise (pollStep c st0)) := by
        simp [exec, pollStep_flag h0, h0]
      simp [execBlock, e1]
  have e' := key _ hf0
  simp only [apiCallJ, e', pollStep_flag hf0]
  simp [hcs, hts, raise, emit, unwindNone, handleThrow, frameAction, skipFrame, markerTF, tryPanicMarker, truncCs, apiRecover,
    leaveAbrupt]

set_option linter.unusedSimpArgs false

/-- evaluate a concrete run of the sequential model by unfolding its definitions -/
macro "eval_model" : tactic => `(tactic|
  simp [apiCall, apiCallJ, execBlock, exec, execNative, execFrame, enterFrame, doProbe, unwindNone, handleThrow,
    frameAction, skipFrame, apiRecover, leaveAbrupt, runJobs, markerTF, tryPanicMarker, truncCs, Outcome.isAbort,
    pollStep, raise, pass, instr, emit, interruptLabels])

/-- TEST on literals: the minimised failing input of the repaired defect e8f901b (interrupt inside a generator body, a
    job queued) ends clean in the model. -/
theorem generator_frame_clean_example :
    (apiCall 8 ⟨1, 7, none⟩ [Stmt.enqueue [Stmt.log 5], Stmt.native true false false 1 [Stmt.probe, Stmt.log 2]] {}).2.flag = false := by
  eval_model

/-- TEST on literals: an Interrupt by another goroutine delivered at the runner's 3rd poll (not at a probe). -/
theorem external_delivery_example :
    (apiCall 8 ⟨0, 7, some 2⟩ [Stmt.log 1, Stmt.log 2, Stmt.log 3] {}).1 = .intr 7 ∧
    (apiCall 8 ⟨0, 7, some 2⟩ [Stmt.log 1, Stmt.log 2, Stmt.log 3] {}).2.log = [Ev.n 1, Ev.n 2] := by
  constructor <;> eval_model

/-- REGRESSION lemma about the OLD mechanism (before e8f901b), not about the current code: a generator frame that
    does not pop its marker on the panic path leaves it on the try stack … -/
theorem leaky_frame_keeps_marker_prefix_witness (st : St) (hs rest : List TF) (c0 : Nat) (hh : allHandlers hs)
    (hts : st.ts = hs ++ markerTF c0 :: rest) :
    (unwindFrameOld true st).ts = markerTF c0 :: rest := by
  have e := handleThrow_none_handlers hs rest (markerTF c0) st.cs hh rfl
  simp [unwindFrameOld, unwindNone, hts, e]

/-- … and then the outermost recover (which unwinds to the FIRST marker and drops one context) does not see an empty
    call stack, so leaveAbrupt is skipped and the flag stays set: RunProgram(cs 1, marker 1) → generator frame
    (context, marker 2, extra frame: cs 3). -/
theorem after_interrupt_not_idle_prefix_witness :
    let inner : St := { flag := true, val := 7, cs := 3, ts := [markerTF 2, markerTF 1] }
    let afterGen := unwindFrameOld true inner
    let u := unwindNone afterGen.ts afterGen.cs
    (apiRecover 7 { afterGen with ts := u.1.tail, cs := u.2 - 1 }).2.flag = true := by
  simp [unwindFrameOld, unwindNone, handleThrow, frameAction, skipFrame, markerTF, tryPanicMarker, truncCs, apiRecover]

/-- REGRESSION lemma about the red-team change m4 (reset of vm.curAsyncRunner not deferred), not about the current code:
    when the continuation is left by an uncatchable error the VM keeps pointing at the async runner. -/
theorem async_runner_leak_prefix_witness (st : St) (v : Nat) (h : st.car = true) :
    (asyncResumeNoDefer (.intr v, st)).2.car = true ∧ (asyncResumeNoDefer (.normal, st)).2.car = false := by
  simp [asyncResumeNoDefer, h]

/-! ### data-race freedom of an access table -/

/-- For ANY access table satisfying the discipline `tableOK` and any lock-respecting execution whose accesses are
    instances of table rows: two accesses to the same cell by different goroutines are both atomic, or the earlier
    one happens-before the later one via  program order ; unlock → lock ; program order. -/
theorem intr_drf_partial (t : List Access) (ht : tableOK t = true) (pre mid : List Drf.Ev) (ei ej : Drf.Ev)
    (ci : Conforms t pre ei) (cj : Conforms t (pre ++ ei :: mid) ej)
    (cell : Cell) (wi ai wj aj : Bool) (hi : ei.op = .acc cell wi ai) (hj : ej.op = .acc cell wj aj)
    (hne : ei.tid ≠ ej.tid) :
    (ai = true ∧ aj = true) ∨
    ∃ m1 m2 m3, mid = m1 ++ ⟨ei.tid, .rel⟩ :: (m2 ++ ⟨ej.tid, .acq⟩ :: m3) := by
  obtain ⟨ri, hri, hopi, hli⟩ := ci
  obtain ⟨rj, hrj, hopj, hlj⟩ := cj
  rw [hi] at hopi; rw [hj] at hopj
  injection hopi with hci _ hai
  injection hopj with hcj _ haj
  have hc : cellOK t cell = true := by
    simp only [tableOK, Bool.and_eq_true] at ht
    cases cell
    · exact ht.1
    · exact ht.2
  rcases cellOK_cases hc with hall | hall
  · left
    exact ⟨by rw [hai]; exact hall ri hri hci.symm, by rw [haj]; exact hall rj hrj hcj.symm⟩
  · right
    have h1 := hli (hall ri hri hci.symm)
    have h2 := hlj (hall rj hrj hcj.symm)
    rw [runHolder_append] at h2
    simp only [h1, Option.bind_some, runHolder, holderStep, hi] at h2
    exact released_then_acquired mid ei.tid ej.tid hne h2

/-! ### hypotheses are satisfiable (tests on literals) -/

/-- an interleaving in which a 2nd goroutine interrupts a running script at depth 1 and the call returns the value -/
example : ∃ s, run init [.rCall, .rPoll, .rInstrEnter, .rPoll, .iLock 3 42, .iWrite 3, .iStore 3, .rInstr true,
    .iUnlock 3, .rPoll, .rLock, .rRead, .rUnlock, .rUnwind, .rReturn] = some s ∧ s.result = some 42 ∧ s.execs = 2 ∧
    s.queue = 0 ∧ s.flag = false := by
  refine ⟨_, rfl, ?_⟩
  decide

end GojaModel.C15.Props
