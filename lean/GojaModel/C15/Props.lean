/-
  C15 — property theorems about model `Intr` (Conc = interleaving semantics, Model = sequential VM-control
  mechanism, Drf = happens-before model over the access table).  Every `theorem` here is one proof obligation.

  Deliberately partial (see design/C15.md):
    * `prompt…` bound the number of VM INSTRUCTIONS; a native call that runs long without re-entering the VM is
      outside the model;
    * `intr_drf_partial` is about an access table (instantiated with the regenerated one in Tie.lean), not about the Go binary;
    * `after_interrupt_clean_partial` needs the outermost recover to see an empty call stack; the current code violates
      that when the error passes through a generator / async-function frame: `after_interrupt_not_idle_witness`.
-/
import GojaModel.C15.Lemmas
import GojaModel.C15.Drf

namespace GojaModel.C15.Props
open GojaModel.C15 GojaModel.C15.Conc GojaModel.C15.Drf

/-! ### interleaving semantics -/

/-- Once the store to `interrupted` is visible, and for as long as nobody clears it and the pending call has not
    returned, the runner completes at most ONE more instruction (the one that had already passed its poll) and
    starts none — over all interleavings with any number of interrupting goroutines, at any nesting depth. -/
theorem prompt_partial {s s' : S} {ls : List Label} (h : run s ls = some s') (hq : allQuiet ls = true)
    (hf : s.flag = true) :
    s'.flag = true ∧ s'.execs ≤ s.execs + 1 ∧ (s.rpc ≠ .exec → s'.execs = s.execs ∧ s'.rpc ≠ .exec) := by
  have a := run_quiet h hq hf
  have m := run_execs_mono h
  have hs : allowance s ≤ 1 := by unfold allowance; split <;> omega
  refine ⟨a.1, by omega, ?_⟩
  intro hne
  have h0 : allowance s = 0 := by simp [allowance, hne]
  refine ⟨by omega, ?_⟩
  intro he
  have : allowance s' = 1 := by simp [allowance, he]
  omega

/-- While the InterruptedError propagates (through any number of enclosing native frames, including Go functions
    that swallow the error and let the outer script continue) no further VM instruction is executed. -/
theorem prompt_nested_partial {s s' : S} {ls : List Label} {v : Nat} (h : run s ls = some s') (hq : allQuiet ls = true)
    (hf : s.flag = true) (hr : s.rpc = .raised v) : s'.execs = s.execs ∧ s'.rpc ≠ .exec :=
  (prompt_partial h hq hf).2.2 (by simp [hr])

/-- The value the runner reads under the lock is the argument of the latest Interrupt (in critical-section
    order), and there is one: the flag can only be seen set after a value was written. -/
theorem value_is_last_set {s : S} {ls : List Label} (h : run init ls = some s) (hr : s.rpc = .haveLock) :
    step s .rRead = some { s with rpc := .gotVal s.val } ∧ s.hist ≠ [] ∧ s.hist.getLast? = some s.val := by
  have I := run_valInv h valInv_init
  have hne := I.runnerNE (Or.inr hr)
  exact ⟨by simp [step, hr], hne, I.last hne⟩

/-- Interrupt while idle: the next call executes no instruction at all (whatever the interleaving) … -/
theorem idle_interrupt_next_call_fails_unless_cleared {s s' : S} {ls : List Label} (hi : s.rpc = .idle)
    (hf : s.flag = true) (h : run s (.rCall :: ls) = some s') (hq : allQuiet ls = true) :
    s'.execs = s.execs ∧ s'.rpc ≠ .exec := by
  simp only [run, step, hi] at h
  simp at h
  have a := prompt_partial h hq (by simpa using hf)
  simpa using a.2.2 (by simp)

/-- … unless the flag was cleared: then the first poll lets the call start executing. -/
theorem idle_cleared_call_proceeds {s : S} (hi : s.rpc = .idle) (hf : s.flag = false) :
    ∃ s', run s [.rCall, .rPoll] = some s' ∧ s'.rpc = .exec := by
  simp [run, step, hi, hf]

/-- The outermost recover (leaveAbrupt): idle, queue dropped, flag cleared, error value delivered. -/
theorem after_interrupt_idle_and_queue_empty {s s' : S} (h : step s .rReturn = some s') :
    s'.rpc = .idle ∧ s'.queue = 0 ∧ s'.flag = false ∧ s'.depth = 0 ∧ ∃ v, s.rpc = .raised v ∧ s'.result = some v := by
  simp only [step] at h
  split at h
  · rename_i v hv
    split at h <;> simp at h
    subst h; rename_i hd
    exact ⟨rfl, rfl, rfl, hd, v, hv, rfl⟩
  · simp at h

/-! ### sequential mechanism -/

/-- handleThrow with an uncatchable payload (ex == nil) never transfers control to a catch or finally block,
    whatever the try stack. -/
theorem no_catch_no_finally_after_interrupt (ts : List TF) (cs : Nat) :
    ∀ c ts' cs', handleThrow true ts cs ≠ .resumed c ts' cs' := by
  intro c ts' cs' h
  obtain ⟨a, b, hp⟩ := handleThrow_none_propagates ts cs
  rw [hp] at h; cases h

/-- and, independently, any block (a catch block, a finally block, an iterator's return method, the rest of a
    loop) entered once the flag is visible leaves the whole state — event log included — untouched. -/
theorem no_script_code_once_flag_visible (fuel : Nat) (c : Cfg) (b : List Stmt) (st : St) (h : st.flag = true) :
    (execBlock fuel c b st).2 = st := by
  rcases execBlock_flag fuel c b st h with e | e <;> simp [e]

/-- A nested native frame entered while the flag is visible re-raises without executing a statement or logging. -/
theorem nested_frame_reraises (fuel : Nat) (c : Cfg) (leaky swI swT : Bool) (b : List Stmt) (st : St)
    (h : st.flag = true) :
    (execFrame fuel c leaky swI swT b st).2.log = st.log ∧ (execFrame fuel c leaky swI swT b st).2.flag = true ∧
    (execFrame fuel c leaky swI swT b st).2.execs = st.execs :=
  execFrame_flag fuel c leaky swI swT b st h

/-- A frame with a deferred popTryFrame (vm.try, runTry, __call) restores exactly its caller's stacks, whatever
    script-level try frames lie above its marker. -/
theorem nonleaky_frame_unwinds (st : St) (hs rest : List TF) (c0 : Nat) (hh : allHandlers hs)
    (hts : st.ts = hs ++ markerTF c0 :: rest) (hcs : c0 ≤ st.cs) :
    (unwindFrame false st).ts = rest ∧ (unwindFrame false st).cs = c0 := by
  have e := handleThrow_none_handlers hs rest (markerTF c0) st.cs hh rfl
  have hu : unwindNone st.ts st.cs = (markerTF c0 :: rest, truncCs (markerTF c0) st.cs) := by
    simp [unwindNone, hts, e]
  constructor
  · simp [unwindFrame, hu]
  · have : truncCs (markerTF c0) st.cs = c0 := by
      simp only [truncCs, markerTF]
      by_cases hlt : c0 < st.cs
      · simp [hlt]
      · simp [hlt]; omega
    simp [unwindFrame, hu, this]

/-- A generator-style frame (popTryFrame not deferred) leaves its marker frame on the try stack. -/
theorem leaky_frame_keeps_marker (st : St) (hs rest : List TF) (c0 : Nat) (hh : allHandlers hs)
    (hts : st.ts = hs ++ markerTF c0 :: rest) :
    (unwindFrame true st).ts = markerTF c0 :: rest ∧ (unwindFrame true st).leaked = true := by
  have e := handleThrow_none_handlers hs rest (markerTF c0) st.cs hh rfl
  simp [unwindFrame, unwindNone, hts, e]

/-- If the outermost recover sees an empty call stack, the runtime is left with the flag cleared and no jobs. -/
theorem after_interrupt_clean_partial (v : Nat) (st : St) (h : st.cs = 0) :
    (apiRecover v st).1 = .intr v ∧ (apiRecover v st).2.flag = false ∧ (apiRecover v st).2.queue = [] := by
  simp [apiRecover, h, leaveAbrupt]

set_option linter.unusedSimpArgs false

/-- evaluate a concrete run of the sequential model by unfolding its definitions -/
macro "eval_model" : tactic => `(tactic|
  simp [apiCall, execBlock, exec, execNative, execFrame, enterFrame, doProbe, unwindFrame, unwindNone, handleThrow,
    frameAction, skipFrame, apiRecover, leaveAbrupt, runJobs, markerTF, tryPanicMarker, truncCs])

/-- TEST on literals (not a general theorem): interrupt inside an ordinary callback frame → runtime idle afterwards. -/
theorem callback_frame_clean_example :
    (apiCall 8 ⟨1, 7⟩ [Stmt.enqueue [Stmt.log 5], Stmt.native false false false 1 [Stmt.probe, Stmt.log 2]] {}).2.flag = false := by
  eval_model

/-- The current code does NOT guarantee a clean runtime after every interrupt: the same program with a
    generator-style frame ends with the flag still set (so every later call fails at once). -/
theorem after_interrupt_not_idle_witness :
    ¬ (∀ (prog : List Stmt) (k v : Nat), (apiCall 8 ⟨k, v⟩ prog {}).1 = .intr v → (apiCall 8 ⟨k, v⟩ prog {}).2.flag = false) := by
  intro h
  have h1 := h [Stmt.native true false false 1 [Stmt.probe, Stmt.log 2]] 1 7 (by eval_model)
  have h2 : (apiCall 8 ⟨1, 7⟩ [Stmt.native true false false 1 [Stmt.probe, Stmt.log 2]] {}).2.flag = true := by eval_model
  rw [h1] at h2
  cases h2

/-! ### data-race freedom of an access table -/

/-- For ANY access table satisfying the discipline `tableOK` and any lock-respecting execution whose accesses are
    instances of table rows: two accesses to the same cell by different goroutines are both atomic, or the earlier
    one happens-before the later one via  program order ; unlock → lock ; program order. -/
theorem intr_drf_partial (t : List Access) (ht : tableOK t = true) (pre mid : List Drf.Ev) (ei ej : Drf.Ev)
    (ci : Conforms t pre ei) (cj : Conforms t (pre ++ ei :: mid) ej)
    (cell : Cell) (wi ai wj aj : Bool) (hi : ei.op = .acc cell wi ai) (hj : ej.op = .acc cell wj aj)
    (hne : ei.tid ≠ ej.tid) :
    (ai = true ∧ aj = true) ∨
    ∃ m1 m2 m3, mid = m1 ++ ⟨ei.tid, .rel⟩ :: (m2 ++ ⟨ej.tid, .acq⟩ :: m3) := by
  obtain ⟨ri, hri, hopi, hli⟩ := ci
  obtain ⟨rj, hrj, hopj, hlj⟩ := cj
  rw [hi] at hopi; rw [hj] at hopj
  injection hopi with hci _ hai
  injection hopj with hcj _ haj
  have hc : cellOK t cell = true := by
    simp only [tableOK, Bool.and_eq_true] at ht
    cases cell
    · exact ht.1
    · exact ht.2
  rcases cellOK_cases hc with hall | hall
  · left
    exact ⟨by rw [hai]; exact hall ri hri hci.symm, by rw [haj]; exact hall rj hrj hcj.symm⟩
  · right
    have h1 := hli (hall ri hri hci.symm)
    have h2 := hlj (hall rj hrj hcj.symm)
    rw [runHolder_append] at h2
    simp only [h1, Option.bind_some, runHolder, holderStep, hi] at h2
    exact released_then_acquired mid ei.tid ej.tid hne h2

/-! ### hypotheses are satisfiable (tests on literals) -/

/-- an interleaving in which a 2nd goroutine interrupts a running script at depth 1 and the call returns the value -/
example : ∃ s, run init [.rCall, .rPoll, .rInstrEnter, .rPoll, .iLock 3 42, .iWrite 3, .iStore 3, .rInstr true,
    .iUnlock 3, .rPoll, .rLock, .rRead, .rUnlock, .rUnwind, .rReturn] = some s ∧ s.result = some 42 ∧ s.execs = 2 ∧
    s.queue = 0 ∧ s.flag = false := by
  refine ⟨_, rfl, ?_⟩
  decide

end GojaModel.C15.Props
