/-
  C15 — the interpreter's external delivery point IS the delivery point of the projection theorem:
  for `Cfg.ext = some n` (and no probe-interrupt, `k = 0`) the trace the interpreter emits contains exactly n polls
  before the first store to `interrupted`, and no store at all while the flag is clear.  Induction 6 over the interpreter.
-/
import GojaModel.C15.Sim
import GojaModel.C15.Observe

namespace GojaModel.C15
open GojaModel.C15.Conc

def hasStore (ls : List Label) : Bool := ls.any isStore

theorem pollCount_append (a b : List Label) : pollCount (a ++ b) = pollCount a + pollCount b := by
  induction a with
  | nil => simp [pollCount]
  | cons l ls ih => simp only [List.cons_append, pollCount, ih]; omega

theorem hasStore_append (a b : List Label) : hasStore (a ++ b) = (hasStore a || hasStore b) := by
  simp [hasStore, List.any_append]

theorem beforeStore_append_noStore (a b : List Label) (h : hasStore a = false) :
    beforeStore (a ++ b) = a ++ beforeStore b := by
  induction a with
  | nil => rfl
  | cons l ls ih =>
    simp only [hasStore, List.any_cons, Bool.or_eq_false_iff] at h
    simp only [List.cons_append, beforeStore, h.1, Bool.false_eq_true, if_false]
    rw [ih (by simpa [hasStore] using h.2)]

theorem beforeStore_append_store (a b : List Label) (h : hasStore a = true) : beforeStore (a ++ b) = beforeStore a := by
  induction a with
  | nil => simp [hasStore] at h
  | cons l ls ih =>
    simp only [List.cons_append, beforeStore]
    by_cases hl : isStore l = true
    · simp [hl]
    · have hl' : isStore l = false := by simpa using hl
      simp only [hl', Bool.false_eq_true, if_false]
      rw [ih (by simpa [hasStore, hl'] using h)]

/-- the delivery invariant; `pend = 1` between `pollStep` (which counts the poll) and the emission of its `rPoll` -/
def Dlv (n pend : Nat) (st : St) : Prop :=
  pollCount st.tr + pend = st.polls ∧
  (st.flag = false → hasStore st.tr = false) ∧
  (st.flag = true → hasStore st.tr = true ∧ pollCount (beforeStore st.tr) = n)

/-- the trace grew by labels that are no store; the poll counter follows the emitted polls -/
theorem Dlv.ext {n p p' : Nat} {st st' : St} {ls : List Label} (h : Dlv n p st) (htr : st'.tr = st.tr ++ ls)
    (hns : hasStore ls = false) (hp : st'.polls + p = st.polls + pollCount ls + p') (hf : st'.flag = st.flag) :
    Dlv n p' st' := by
  obtain ⟨h1, h2, h3⟩ := h
  refine ⟨?_, ?_, ?_⟩
  · rw [htr, pollCount_append]; omega
  · intro hff; rw [hf] at hff; rw [htr, hasStore_append, h2 hff, hns]; rfl
  · intro hft; rw [hf] at hft
    have := h3 hft
    rw [htr, hasStore_append, this.1, beforeStore_append_store _ _ this.1]
    exact ⟨rfl, this.2⟩

theorem Dlv.congr {n p : Nat} {st st' : St} (h : Dlv n p st) (htr : st'.tr = st.tr) (hp : st'.polls = st.polls)
    (hf : st'.flag = st.flag) : Dlv n p st' := by
  unfold Dlv at *; rw [htr, hp, hf]; exact h

theorem dlv_pollStep {n : Nat} {c : Cfg} {st : St} (hext : c.ext = some n) (h : Dlv n 0 st) : Dlv n 1 (pollStep c st) := by
  obtain ⟨h1, h2, h3⟩ := h
  unfold pollStep
  split
  · rename_i hc
    have hn : n = st.polls := by rw [hext] at hc; exact Option.some.inj hc.2
    have hnos := h2 hc.1
    refine ⟨?_, ?_, ?_⟩
    · show pollCount (st.tr ++ interruptLabels 1 c.v) + 1 = st.polls + 1
      rw [pollCount_append]; simp [interruptLabels, pollCount]; omega
    · intro hff; cases hff
    · intro _
      show hasStore (st.tr ++ interruptLabels 1 c.v) = true ∧ pollCount (beforeStore (st.tr ++ interruptLabels 1 c.v)) = n
      rw [hasStore_append, beforeStore_append_noStore _ _ hnos, pollCount_append]
      refine ⟨by simp [interruptLabels, hasStore, isStore], ?_⟩
      simp [interruptLabels, beforeStore, isStore, pollCount]; omega
  · exact ⟨by show pollCount st.tr + 1 = st.polls + 1; omega, h2, h3⟩

theorem dlv_raise {n : Nat} {st : St} (h : Dlv n 1 st) : Dlv n 0 (raise st) :=
  h.ext (ls := [.rPoll, .rLock, .rRead, .rUnlock]) rfl (by rfl) (by simp [raise, emit, pollCount]) rfl

theorem dlv_pass {n : Nat} {st : St} (h : Dlv n 1 st) : Dlv n 0 (pass st) :=
  h.ext (ls := [.rPoll]) rfl (by rfl) (by simp [pass, emit, pollCount]) rfl

theorem dlv_instr {n : Nat} {st : St} (h : Dlv n 0 st) : Dlv n 0 (instr st) :=
  h.ext (ls := [.rInstr false]) rfl (by rfl) (by simp [instr, emit, pollCount]) rfl

theorem dlv_doProbe {n : Nat} {c : Cfg} {st : St} (hk : c.k = 0) (h : Dlv n 0 st) : Dlv n 0 (doProbe c st) := by
  simp only [doProbe, hk]
  simp only [ne_eq, not_true_eq_false, false_and, if_false]
  exact h.congr rfl rfl rfl

structure IH6 (n : Nat) (m : Nat) : Prop where
  exec : ∀ c s st, c.k = 0 → c.ext = some n → Dlv n 0 st → Dlv n 0 (exec m c s st).2
  block : ∀ c b st, c.k = 0 → c.ext = some n → Dlv n 0 st → Dlv n 0 (execBlock m c b st).2
  loop : ∀ c k b st, c.k = 0 → c.ext = some n → Dlv n 0 st → Dlv n 0 (execLoop m c k b st).2
  frame : ∀ c g i t b st, c.k = 0 → c.ext = some n → Dlv n 0 st → Dlv n 0 (execFrame m c g i t b st).2
  native : ∀ c g i t k b st, c.k = 0 → c.ext = some n → Dlv n 0 st → Dlv n 0 (execNative m c g i t k b st).2
  forOf : ∀ c i k brk nx b rt st, c.k = 0 → c.ext = some n → Dlv n 0 st → Dlv n 0 (execForOf m c i k brk nx b rt st).2

theorem ih6_zero (n : Nat) : IH6 n 0 := by
  constructor <;> intros <;> simp only [exec, execBlock, execLoop, execFrame, execNative, execForOf] <;> assumption

theorem ih6_succ {n m : Nat} (ih : IH6 n m) : IH6 n (m + 1) where
  exec := by
    intro c s st hk he h
    simp only [exec]
    have hp := dlv_pollStep he h
    split
    · exact dlv_raise hp
    · have ha := dlv_pass hp
      have hi := dlv_instr ha
      cases s with
      | log k => exact dlv_instr (ha.congr rfl rfl rfl)
      | probe => exact dlv_instr (dlv_doProbe hk ha)
      | throw => exact hi
      | enqueue j => exact dlv_instr (ha.congr rfl rfl rfl)
      | loop k b => exact ih.loop c k b _ hk he hi
      | native g i t k b => exact ih.native c g i t k b _ hk he hi
      | forOf k brk nx b rt => exact ih.forOf c 0 k brk nx b rt _ hk he hi
      | asyncResume b =>
        simp only []
        have hf := ih.frame c true false true b { instr (pass (pollStep c st)) with car := true } hk he (hi.congr rfl rfl rfl)
        exact hf.congr rfl rfl rfl
      | tryc hc hf body cat fin =>
        simp only []
        generalize hr1 : execBlock m c body _ = r1
        have hb : Dlv n 0 r1.2 := hr1 ▸ ih.block c body _ hk he (hi.congr rfl rfl rfl)
        split
        · exact hb
        · generalize hr2 : (if r1.1 = Outcome.thrown ∧ hc = true then execBlock m c cat _ else (r1.1, _)) = r2
          have hb2 : Dlv n 0 r2.2 := by
            subst hr2
            split
            · exact ih.block c cat _ hk he (hb.congr rfl rfl rfl)
            · exact hb.congr rfl rfl rfl
          split
          · exact hb2
          · split
            · have hb3 := ih.block c fin r2.2 hk he hb2
              split
              · exact hb3
              · exact hb3
            · exact hb2
  block := by
    intro c b st hk he h
    cases b with
    | nil =>
      simp only [execBlock]
      have hp := dlv_pollStep he h
      split
      · exact dlv_raise hp
      · exact hp.ext (ls := [.rPoll, .rCtl]) rfl (by rfl) (by simp [emit, pollCount]) rfl
    | cons s rest =>
      simp only [execBlock]
      have h1 := ih.exec c s st hk he h
      split
      · exact ih.block c rest _ hk he h1
      · exact h1
  loop := by
    intro c k b st hk he h
    cases k with
    | zero => simp only [execLoop]; exact h
    | succ k =>
      simp only [execLoop]
      have h1 := ih.block c b st hk he h
      split
      · exact ih.loop c k b _ hk he h1
      · exact h1
  frame := by
    intro c g i t b st hk he h
    simp only [execFrame]
    have hb := ih.block c b (enterFrame g st) hk he (by cases g <;> exact h.congr rfl rfl rfl)
    generalize execBlock m c b (enterFrame g st) = r at hb ⊢
    obtain ⟨o, st1⟩ := r
    cases o with
    | normal => exact hb.congr rfl rfl rfl
    | thrown => exact hb.congr rfl rfl rfl
    | oof => exact hb
    | intr v =>
      cases g with
      | true => exact hb.congr rfl rfl rfl
      | false =>
        cases i with
        | true => exact hb.ext (ls := [.rCtl]) rfl (by rfl) (by simp [emit, pollCount]) rfl
        | false => exact hb.congr rfl rfl rfl
  native := by
    intro c g i t k b st hk he h
    cases k with
    | zero => simp only [execNative]; exact h
    | succ k =>
      simp only [execNative]
      have h1 := ih.frame c g i t b st hk he h
      split
      · exact ih.native c g i t k b _ hk he h1
      · exact h1
  forOf := by
    intro c i k brk nx b rt st hk he h
    simp only [execForOf]
    have h1 := ih.frame c false false false nx st hk he h
    split
    · split
      · have h2 := ih.block c b _ hk he h1
        split
        · split
          · exact ih.frame c false false false rt _ hk he h2
          · exact ih.forOf c (i + 1) k brk nx b rt _ hk he h2
        · split
          · have h3 := ih.frame c false false false rt _ hk he h2
            split
            · exact h3
            · exact h3
          · exact h2
      · exact h1
    · exact h1

theorem ih6_all (n m : Nat) : IH6 n m := by
  induction m with
  | zero => exact ih6_zero n
  | succ m ih => exact ih6_succ ih

end GojaModel.C15
