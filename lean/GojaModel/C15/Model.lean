/-
  C15 — sequential part of model `Intr`: what the RUNNER goroutine does with the interrupt flag.

  Mechanism modelled (all in /repo):
    vm.go:613  run()             every loop iteration polls `interrupted` BEFORE the halt test and before
                                 executing one instruction; if set: lock, read interruptVal, unlock, panic(*InterruptedError)
    vm.go:800  handleThrow(arg)  ex == nil for an uncatchable payload: every try frame that is not a
                                 tryPanicMarker frame is popped without running catch or finally; at the first marker
                                 frame the call stack is truncated to tf.callStackLen and the payload is re-panicked
    vm.go:854  try / 868 runTry / func.go:414 __call     marker frame pushed, `defer vm.popTryFrame()`
    func.go:762 generator.enter / 863 enterNext         pushCtx, marker frame, extra frame; popTryFrame()/popCtx() of the
                                 callers (next, nextThrow, asyncRunner.start, generatorObject.init) are NOT deferred
                                 (`leaky` frames below — see the witness theorem in Props.lean and design/C15.md)
    runtime.go:1437 RunProgram / 2504 runWrapped         recover: uncatchable → err; `len(callStack)==0` → leaveAbrupt()
    runtime.go:2836 leave (double-buffered job loop) / 2849 leaveAbrupt (jobQueue = nil; ClearInterrupt())

  Programs are structured abstract scripts; the Go harness renders the same program to JavaScript.
  Core Lean only.
-/
namespace GojaModel.C15

/-- Abstract script statements (prefix syntax in the line protocol, see `Driver.lean`). -/
inductive Stmt where
  | log (n : Nat)                                   -- `L n`   ev(n)
  | probe                                           -- `P`     native probe(); the k-th one calls Interrupt(v)
  | throw                                           -- `T`     throw new Error
  | loop (n : Nat) (body : List Stmt)               -- `W n (body)`
  | tryc (hasCatch hasFin : Bool) (body cat fin : List Stmt)     -- `Y c f (body) (catch) (finally)`
  | native (leaky swIntr swThrow : Bool) (reps : Nat) (body : List Stmt)
      -- a built-in / Go function that re-enters the VM `reps` times, each time running `body` in a nested run loop
  | enqueue (job : List Stmt)                       -- `Q (job)`  Promise.resolve().then(job)
  | forOf (n : Nat) (brk : Bool) (next body ret : List Stmt)     -- `F n brk (next) (body) (return)`

inductive Ev where
  | n (k : Nat)
  | p
  deriving DecidableEq, Repr

inductive Outcome where
  | normal
  | thrown
  | intr (v : Nat)
  | oof                      -- model ran out of fuel (never reported as a prediction)
  deriving DecidableEq, Repr

/-- tryFrame (vm.go:345): only the fields that decide unwinding. `catchPos = -2` is tryPanicMarker. -/
structure TF where
  csLen : Nat
  catchPos : Int
  finallyPos : Int
  deriving DecidableEq, Repr

def tryPanicMarker : Int := -2

/-- vm.go:804 — the condition under which handleThrow pops a frame and continues (`exNil` ⇔ `ex == nil`).
    Regenerated from the source and compared in Tie.lean. -/
def skipFrame (catchPos finallyPos : Int) (exNil : Bool) : Bool :=
  (catchPos == -1 && finallyPos == -1) || (exNil && catchPos != tryPanicMarker)

/-- What handleThrow does with the frame on top of the try stack (vm.go:803–838). -/
inductive FrameAction where
  | skip          -- popTryFrame; continue
  | stop          -- marker frame: break (caller re-panics / returns ex)
  | toCatch       -- vm.pc = catchPos
  | toFinally     -- vm.pc = finallyPos
  deriving DecidableEq, Repr

def frameAction (tf : TF) (exNil : Bool) : FrameAction :=
  if skipFrame tf.catchPos tf.finallyPos exNil then .skip
  else if tf.catchPos == tryPanicMarker then .stop
  else if tf.catchPos ≥ 0 then .toCatch
  else if tf.finallyPos ≥ 0 then .toFinally
  else .skip

/-- Result of a whole handleThrow pass. -/
inductive Unwound where
  | resumed (catch_ : Bool) (ts : List TF) (cs : Nat)   -- script code resumes in a catch (true) or finally (false) block
  | propagate (ts : List TF) (cs : Nat)                 -- nothing handled it here: re-panic (ex = nil) / return ex
  deriving DecidableEq, Repr

def truncCs (tf : TF) (cs : Nat) : Nat := if tf.csLen < cs then tf.csLen else cs

/-- handleThrow, vm.go:800–844, on the try stack (top = head) and the call-stack length. -/
def handleThrow (exNil : Bool) : List TF → Nat → Unwound
  | [], cs => .propagate [] cs
  | tf :: rest, cs =>
    match frameAction tf exNil with
    | .skip => handleThrow exNil rest cs
    | .stop => .propagate (tf :: rest) (truncCs tf cs)
    | .toCatch => .resumed true (tf :: rest) (truncCs tf cs)
    | .toFinally => .resumed false (tf :: rest) (truncCs tf cs)

/-- The pass for an uncatchable payload, as a function to (try stack, call-stack length). -/
def unwindNone (ts : List TF) (cs : Nat) : List TF × Nat :=
  match handleThrow true ts cs with
  | .resumed _ ts' cs' => (ts', cs')      -- unreachable (theorem handleThrow_none_never_resumes)
  | .propagate ts' cs' => (ts', cs')

def markerTF (csLen : Nat) : TF := ⟨csLen, tryPanicMarker, -1⟩
def handlerTF (csLen : Nat) (hasCatch hasFin : Bool) : TF :=
  ⟨csLen, if hasCatch then 1 else -1, if hasFin then 1 else -1⟩

/-- Runner-side state. -/
structure St where
  flag : Bool := false            -- vm.interrupted
  val : Nat := 0                  -- vm.interruptVal
  log : List Ev := []             -- observable events (ev(n) / probe())
  probes : Nat := 0
  queue : List (List Stmt) := []  -- r.jobQueue
  cs : Nat := 0                   -- len(vm.callStack)
  ts : List TF := []              -- vm.tryStack, top first
  leaked : Bool := false          -- ghost: an uncatchable error passed through a generator/async frame
  execs : Nat := 0                -- ghost: statements executed (polls passed)

/-- k-th probe interrupts with value v (k = 0: never). -/
structure Cfg where
  k : Nat
  v : Nat

def doProbe (c : Cfg) (st : St) : St :=
  let st1 := { st with log := st.log ++ [Ev.p], probes := st.probes + 1 }
  if c.k ≠ 0 ∧ st1.probes = c.k then { st1 with flag := true, val := c.v }   -- vm.Interrupt(v), vm.go:685
  else st1

def enterFrame (leaky : Bool) (st : St) : St :=
  if leaky then { st with cs := st.cs + 2, ts := markerTF (st.cs + 1) :: st.ts }   -- generator.enterNext
  else { st with cs := st.cs + 1, ts := markerTF st.cs :: st.ts }                   -- __call / try / runTry

/-- A frame sees the uncatchable panic: its own recover runs handleThrow, re-panics; a deferred
    popTryFrame runs only for non-leaky frames. -/
def unwindFrame (leaky : Bool) (st : St) : St :=
  let r := unwindNone st.ts st.cs
  if leaky then { st with ts := r.1, cs := r.2, leaked := true }
  else { st with ts := r.1.tail, cs := r.2 }

mutual
/-- One statement = poll, then execute (vm.go:628–635). -/
def exec : Nat → Cfg → Stmt → St → Outcome × St
  | 0, _, _, st => (.oof, st)
  | fuel + 1, c, s, st =>
    if st.flag then (.intr st.val, st) else
    let st := { st with execs := st.execs + 1 }
    match s with
    | .log n => (.normal, { st with log := st.log ++ [Ev.n n] })
    | .probe => (.normal, doProbe c st)
    | .throw => (.thrown, st)
    | .enqueue job => (.normal, { st with queue := st.queue ++ [job] })
    | .loop n body => execLoop fuel c n body st
    | .native leaky swI swT reps body => execNative fuel c leaky swI swT reps body st
    | .forOf n brk next body ret => execForOf fuel c 0 n brk next body ret st
    | .tryc hc hf body cat fin =>
      let st0 := { st with ts := handlerTF st.cs hc hf :: st.ts }
      match execBlock fuel c body st0 with
      | (.intr v, st1) => (.intr v, st1)     -- frame stays for the enclosing handleThrow, which skips it
      | (.oof, st1) => (.oof, st1)
      | (o1, st1) =>
        let st1 := { st1 with ts := st.ts, cs := st.cs }
        let r2 := if o1 = .thrown ∧ hc then execBlock fuel c cat st1 else (o1, st1)
        match r2 with
        | (.intr v, st2) => (.intr v, st2)
        | (.oof, st2) => (.oof, st2)
        | (o2, st2) =>
          if hf then
            match execBlock fuel c fin st2 with
            | (.normal, st3) => (o2, st3)
            | (o3, st3) => (o3, st3)
          else (o2, st2)

/-- A block; the run loop polls once more after the last statement (there is always a following
    instruction: jump, ret, or the halt test which comes after the poll). -/
def execBlock : Nat → Cfg → List Stmt → St → Outcome × St
  | 0, _, _, st => (.oof, st)
  | _ + 1, _, [], st => if st.flag then (.intr st.val, st) else (.normal, st)
  | fuel + 1, c, s :: rest, st =>
    match exec fuel c s st with
    | (.normal, st1) => execBlock fuel c rest st1
    | r => r

def execLoop : Nat → Cfg → Nat → List Stmt → St → Outcome × St
  | 0, _, _, _, st => (.oof, st)
  | _ + 1, _, 0, _, st => (.normal, st)
  | fuel + 1, c, n + 1, body, st =>
    match execBlock fuel c body st with
    | (.normal, st1) => execLoop fuel c n body st1
    | r => r

/-- A native frame that re-enters the VM: nested run loop over `body`. -/
def execFrame : Nat → Cfg → Bool → Bool → Bool → List Stmt → St → Outcome × St
  | 0, _, _, _, _, _, st => (.oof, st)
  | fuel + 1, c, leaky, swI, swT, body, st =>
    match execBlock fuel c body (enterFrame leaky st) with
    | (.normal, st1) => (.normal, { st1 with ts := st.ts, cs := st.cs })
    | (.thrown, st1) => (if swT then .normal else .thrown, { st1 with ts := st.ts, cs := st.cs })
    | (.oof, st1) => (.oof, st1)
    | (.intr v, st1) =>
      let st2 := unwindFrame leaky st1
      if swI then (.normal, st2) else (.intr v, st2)

def execNative : Nat → Cfg → Bool → Bool → Bool → Nat → List Stmt → St → Outcome × St
  | 0, _, _, _, _, _, _, st => (.oof, st)
  | _ + 1, _, _, _, _, 0, _, st => (.normal, st)
  | fuel + 1, c, leaky, swI, swT, reps + 1, body, st =>
    match execFrame fuel c leaky swI swT body st with
    | (.normal, st1) => execNative fuel c leaky swI swT reps body st1
    | r => r

def execForOf : Nat → Cfg → Nat → Nat → Bool → List Stmt → List Stmt → List Stmt → St → Outcome × St
  | 0, _, _, _, _, _, _, _, st => (.oof, st)
  | fuel + 1, c, i, n, brk, next, body, ret, st =>
    match execFrame fuel c false false false next st with
    | (.normal, st1) =>
      if i < n then
        match execBlock fuel c body st1 with
        | (.normal, st2) =>
          if brk then execFrame fuel c false false false ret st2
          else execForOf fuel c (i + 1) n brk next body ret st2
        | (.thrown, st2) =>
          match execFrame fuel c false false false ret st2 with
          | (.intr v, st3) => (.intr v, st3)
          | (.oof, st3) => (.oof, st3)
          | (_, st3) => (.thrown, st3)
        | r => r
      else (.normal, st1)
    | r => r
end

/-- runtime.go:2836 leave(): `for len(q)>0 { jobs, q = q, jobs[:0]; for job in jobs { job() } }`.
    `batch` is the local slice; it is lost when a job panics. -/
def runJobs : Nat → Cfg → List (List Stmt) → St → Outcome × St
  | 0, _, _, st => (.oof, st)
  | fuel + 1, c, [], st =>
    match st.queue with
    | [] => (.normal, st)
    | q => runJobs fuel c q { st with queue := [] }
  | fuel + 1, c, job :: batch, st =>
    match execFrame fuel c false false true job st with
    | (.normal, st1) => runJobs fuel c batch st1
    | r => r

/-- runtime.go:2849 -/
def leaveAbrupt (st : St) : St := { st with queue := [], flag := false }

/-- The deferred function of RunProgram (runtime.go:1440) / runWrapped (2505) after an uncatchable error. -/
def apiRecover (v : Nat) (st : St) : Outcome × St :=
  if st.cs = 0 then (.intr v, leaveAbrupt st) else (.intr v, st)

/-- An outermost-or-nested API call (RunProgram or a Callable): context + marker frame, run, leave. -/
def apiCall (fuel : Nat) (c : Cfg) (prog : List Stmt) (st : St) : Outcome × St :=
  let st0 := { st with cs := st.cs + 1, ts := markerTF (st.cs + 1) :: st.ts }
  match execBlock fuel c prog st0 with
  | (.oof, st1) => (.oof, st1)
  | (.intr v, st1) =>
    let r := unwindNone st1.ts st1.cs
    apiRecover v { st1 with ts := r.1.tail, cs := r.2 - 1 }
  | (o, st1) =>
    let st2 := { st1 with ts := st.ts, cs := st.cs }
    if st.cs = 0 then
      match runJobs fuel c [] st2 with
      | (.intr v, st3) => apiRecover v st3
      | (.oof, st3) => (.oof, st3)
      | (_, st3) => (o, st3)
    else (o, st2)

/-- Harness kinds of `N kind reps (body)` → (leaky, swallowInterrupt, swallowThrow). Kind 3 is a generator
    body; 6 and 7 are Go functions that ignore the error of the nested call. -/
def kindAttrs (kind : Nat) : Bool × Bool × Bool :=
  match kind % 13 with
  | 3 => (true, false, false)
  | 6 => (false, true, true)
  | 7 => (false, true, true)
  | _ => (false, false, false)

end GojaModel.C15
