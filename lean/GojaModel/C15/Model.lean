/-
  C15 — sequential part of model `Intr`: what the RUNNER goroutine does with the interrupt flag.

  Mechanism modelled (all in /repo):
    vm.go:613  run()             every loop iteration polls `interrupted` BEFORE the halt test and before
                                 executing one instruction; if set: lock, read interruptVal, unlock, panic(*InterruptedError)
    vm.go:800  handleThrow(arg)  ex == nil for an uncatchable payload: every try frame that is not a
                                 tryPanicMarker frame is popped without running catch or finally; at the first marker
                                 frame the call stack is truncated to tf.callStackLen and the payload is re-panicked
    vm.go:854  try / 868 runTry / func.go:414 __call     marker frame pushed, `defer vm.popTryFrame()`
    func.go:762 generator.enter / enterNext            pushCtx, marker frame, extra frame; the callers' popTryFrame()/popCtx()
                                 are not deferred, but generator.step (func.go:798, fix e8f901b) drops, on the panic path,
                                 the activation's try frames down to and including its marker (tryStack[:tryStackLen-1]);
                                 the context pushed by enter() is left to the enclosing frame's handleThrow (`gen` frames below)
    vm.go handleThrow → _restoreStacks(…, ex != nil)   (fix 5d979ec) iterators are NOT closed when the payload is uncatchable
    runtime.go:1437 RunProgram / 2504 runWrapped         recover: uncatchable → err; `len(callStack)==0` → leaveAbrupt()
    runtime.go leave (double-buffered job loop) / leaveAbrupt (jobQueue = nil; ClearInterrupt(); vm.prg = nil; vm.sb = -1)
    runtime.go Runtime.Try (fix 9e5aa04): an uncatchable passing through at depth 0 runs leaveAbrupt, then re-panics

  Programs are structured abstract scripts; the Go harness renders the same program to JavaScript.
  Core Lean only.
-/
import GojaModel.C15.Conc

namespace GojaModel.C15
open GojaModel.C15.Conc (Label)

/-- Abstract script statements (prefix syntax in the line protocol, see `Driver.lean`). -/
inductive Stmt where
  | log (n : Nat)                                   -- `L n`   ev(n)
  | probe                                           -- `P`     native probe(); the k-th one calls Interrupt(v)
  | throw                                           -- `T`     throw new Error
  | loop (n : Nat) (body : List Stmt)               -- `W n (body)`
  | tryc (hasCatch hasFin : Bool) (body cat fin : List Stmt)     -- `Y c f (body) (catch) (finally)`
  | native (gen swIntr swThrow : Bool) (reps : Nat) (body : List Stmt)
      -- a built-in / Go function that re-enters the VM `reps` times, each time running `body` in a nested run loop
  | enqueue (job : List Stmt)                       -- `Q (job)`  Promise.resolve().then(job)
  | forOf (n : Nat) (brk : Bool) (next body ret : List Stmt)     -- `F n brk (next) (body) (return)`
  | asyncResume (body : List Stmt)
      -- asyncRunner.onFulfilled / onRejected (func.go): vm.curAsyncRunner = ar; defer { vm.curAsyncRunner = nil };
      -- ar.gen.next(arg) — the continuation of an async function after an await, run as a promise job

inductive Ev where
  | n (k : Nat)
  | p
  deriving DecidableEq, Repr

inductive Outcome where
  | normal
  | thrown
  | intr (v : Nat)
  | oof                      -- model ran out of fuel (never reported as a prediction)
  deriving DecidableEq, Repr

/-- tryFrame (vm.go:345): only the fields that decide unwinding. `catchPos = -2` is tryPanicMarker. -/
structure TF where
  csLen : Nat
  catchPos : Int
  finallyPos : Int
  deriving DecidableEq, Repr

def tryPanicMarker : Int := -2

/-- vm.go:804 — the condition under which handleThrow pops a frame and continues (`exNil` ⇔ `ex == nil`).
    Regenerated from the source and compared in Tie.lean. -/
def skipFrame (catchPos finallyPos : Int) (exNil : Bool) : Bool :=
  (catchPos == -1 && finallyPos == -1) || (exNil && catchPos != tryPanicMarker)

/-- What handleThrow does with the frame on top of the try stack (vm.go:803–838). -/
inductive FrameAction where
  | skip          -- popTryFrame; continue
  | stop          -- marker frame: break (caller re-panics / returns ex)
  | toCatch       -- vm.pc = catchPos
  | toFinally     -- vm.pc = finallyPos
  deriving DecidableEq, Repr

def frameAction (tf : TF) (exNil : Bool) : FrameAction :=
  if skipFrame tf.catchPos tf.finallyPos exNil then .skip
  else if tf.catchPos == tryPanicMarker then .stop
  else if tf.catchPos ≥ 0 then .toCatch
  else if tf.finallyPos ≥ 0 then .toFinally
  else .skip

/-- Result of a whole handleThrow pass. -/
inductive Unwound where
  | resumed (catch_ : Bool) (ts : List TF) (cs : Nat)   -- script code resumes in a catch (true) or finally (false) block
  | propagate (ts : List TF) (cs : Nat)                 -- nothing handled it here: re-panic (ex = nil) / return ex
  deriving DecidableEq, Repr

def truncCs (tf : TF) (cs : Nat) : Nat := if tf.csLen < cs then tf.csLen else cs

/-- handleThrow, vm.go:800–844, on the try stack (top = head) and the call-stack length. -/
def handleThrow (exNil : Bool) : List TF → Nat → Unwound
  | [], cs => .propagate [] cs
  | tf :: rest, cs =>
    match frameAction tf exNil with
    | .skip => handleThrow exNil rest cs
    | .stop => .propagate (tf :: rest) (truncCs tf cs)
    | .toCatch => .resumed true (tf :: rest) (truncCs tf cs)
    | .toFinally => .resumed false (tf :: rest) (truncCs tf cs)

/-- The pass for an uncatchable payload, as a function to (try stack, call-stack length). -/
def unwindNone (ts : List TF) (cs : Nat) : List TF × Nat :=
  match handleThrow true ts cs with
  | .resumed _ ts' cs' => (ts', cs')      -- unreachable (theorem handleThrow_none_never_resumes)
  | .propagate ts' cs' => (ts', cs')

def markerTF (csLen : Nat) : TF := ⟨csLen, tryPanicMarker, -1⟩
def handlerTF (csLen : Nat) (hasCatch hasFin : Bool) : TF :=
  ⟨csLen, if hasCatch then 1 else -1, if hasFin then 1 else -1⟩

/-- Runner-side state. -/
structure St where
  flag : Bool := false            -- vm.interrupted
  val : Nat := 0                  -- vm.interruptVal
  log : List Ev := []             -- observable events (ev(n) / probe())
  probes : Nat := 0
  queue : List (List Stmt) := []  -- r.jobQueue
  cs : Nat := 0                   -- len(vm.callStack)
  ts : List TF := []              -- vm.tryStack, top first
  car : Bool := false             -- vm.curAsyncRunner != nil (vm.go captureStack appends the awaiting async frames iff set)
  execs : Nat := 0                -- ghost: statements executed (polls passed)
  polls : Nat := 0                -- ghost: polls of the interrupt flag performed so far
  frozen : List Ev := []          -- ghost: the event log at the instant Interrupt(v) was called
  tr : List Label := []           -- ghost: the actions of the interleaving model `Conc` this run has performed so far

/-- k-th probe interrupts with value v (k = 0: never); `ext = some n`: another goroutine's Interrupt(v) completes
    just before the runner's poll number n (any poll point, not only probes). -/
structure Cfg where
  k : Nat
  v : Nat
  ext : Option Nat := none

def emit (ls : List Label) (st : St) : St := { st with tr := st.tr ++ ls }

/-- the four atomic actions of vm.Interrupt(v) performed by goroutine t (vm.go Interrupt) -/
def interruptLabels (t v : Nat) : List Label := [.iLock t v, .iWrite t, .iStore t, .iUnlock t]

def doProbe (c : Cfg) (st : St) : St :=
  let st1 := { st with log := st.log ++ [Ev.p], probes := st.probes + 1 }
  if c.k ≠ 0 ∧ st1.probes = c.k then
    -- the runner goroutine itself (t = 0) calls Interrupt(v) from inside the native probe()
    emit (interruptLabels 0 c.v) { st1 with flag := true, val := c.v, frozen := st1.log }
  else st1

/-- What has happened in the shared cells by the time of the runner's next poll. -/
def pollStep (c : Cfg) (st : St) : St :=
  let st1 := { st with polls := st.polls + 1 }
  if st.flag = false ∧ c.ext = some st.polls then
    emit (interruptLabels 1 c.v) { st1 with flag := true, val := c.v, frozen := st.log }
  else st1

/-- the poll saw 1: leave the loop, Lock, read interruptVal, Unlock, panic (vm.go run) -/
def raise (st : St) : St := emit [.rPoll, .rLock, .rRead, .rUnlock] st
/-- the poll saw 0 -/
def pass (st : St) : St := emit [.rPoll] { st with execs := st.execs + 1 }
/-- the instruction itself -/
def instr (st : St) : St := emit [.rInstr false] st

/-- Entering a native frame that re-enters the VM.  `gen` = generator.enter/enterNext (pushCtx, marker, extra
    frame); otherwise __call / vm.try / runTry (marker, then one context). -/
def enterFrame (gen : Bool) (st : St) : St :=
  if gen then { st with cs := st.cs + 2, ts := markerTF (st.cs + 1) :: st.ts }
  else { st with cs := st.cs + 1, ts := markerTF st.cs :: st.ts }

def Outcome.isAbort : Outcome → Bool
  | .intr _ => true
  | .oof => true
  | _ => false

mutual
/-- One statement = poll, then execute (vm.go run loop). -/
def exec : Nat → Cfg → Stmt → St → Outcome × St
  | 0, _, _, st => (.oof, st)
  | fuel + 1, c, s, st =>
    let st := pollStep c st
    if st.flag then (.intr st.val, raise st) else
    let st := pass st
    match s with
    | .log n => (.normal, instr { st with log := st.log ++ [Ev.n n] })
    | .probe => (.normal, instr (doProbe c st))
    | .throw => (.thrown, instr st)
    | .enqueue job => (.normal, instr { st with queue := st.queue ++ [job] })
    | .loop n body => execLoop fuel c n body (instr st)
    | .native g swI swT reps body => execNative fuel c g swI swT reps body (instr st)
    | .forOf n brk next body ret => execForOf fuel c 0 n brk next body ret (instr st)
    | .asyncResume body =>
      let r := execFrame fuel c true false true body { instr st with car := true }
      (r.1, { r.2 with car := false })          -- the reset is deferred: it runs on every way out
    | .tryc hc hf body cat fin =>
      let st := instr st
      let r1 := execBlock fuel c body { st with ts := handlerTF st.cs hc hf :: st.ts }
      -- uncatchable: no Go frame here; the try frame stays for the enclosing handleThrow, which skips it
      if r1.1.isAbort then r1 else
      let st1 := { r1.2 with ts := st.ts, cs := st.cs }
      let r2 := if r1.1 = .thrown ∧ hc = true then execBlock fuel c cat st1 else (r1.1, st1)
      if r2.1.isAbort then r2 else
      if hf then
        -- enterFinally clears catchPos (fix 379f30d): a throw from here is not caught by this statement
        let r3 := execBlock fuel c fin r2.2
        if r3.1 = .normal then (r2.1, r3.2) else r3
      else r2

/-- A block; the run loop polls once more after the last statement (there is always a following
    instruction: jump, ret, or the halt test which comes after the poll). -/
def execBlock : Nat → Cfg → List Stmt → St → Outcome × St
  | 0, _, _, st => (.oof, st)
  | _ + 1, c, [], st =>
    let st := pollStep c st
    if st.flag then (.intr st.val, raise st) else (.normal, emit [.rPoll, .rCtl] st)
  | fuel + 1, c, s :: rest, st =>
    let r := exec fuel c s st
    if r.1 = .normal then execBlock fuel c rest r.2 else r

def execLoop : Nat → Cfg → Nat → List Stmt → St → Outcome × St
  | 0, _, _, _, st => (.oof, st)
  | _ + 1, _, 0, _, st => (.normal, st)
  | fuel + 1, c, n + 1, body, st =>
    let r := execBlock fuel c body st
    if r.1 = .normal then execLoop fuel c n body r.2 else r

/-- A native frame that re-enters the VM: nested run loop over `body`. -/
def execFrame : Nat → Cfg → Bool → Bool → Bool → List Stmt → St → Outcome × St
  | 0, _, _, _, _, _, st => (.oof, st)
  | fuel + 1, c, g, swI, swT, body, st =>
    let r := execBlock fuel c body (enterFrame g st)
    match r.1 with
    | .normal => (.normal, { r.2 with ts := st.ts, cs := st.cs })
    | .thrown => (if swT then .normal else .thrown, { r.2 with ts := st.ts, cs := st.cs })
    | .oof => r
    | .intr v =>
      -- the frame's own recover runs handleThrow(ex = nil) and re-panics
      let u := unwindNone r.2.ts r.2.cs
      if g then
        -- generator.step: tryStack = tryStack[:tryStackLen-1]; popCtx() is skipped; generator.next re-panics always
        (.intr v, { r.2 with ts := st.ts, cs := u.2 })
      else if swI then (.normal, emit [.rCtl] { r.2 with ts := u.1.tail, cs := u.2 })   -- deferred pop; Go caller ignores err
      else (.intr v, { r.2 with ts := u.1.tail, cs := u.2 })

def execNative : Nat → Cfg → Bool → Bool → Bool → Nat → List Stmt → St → Outcome × St
  | 0, _, _, _, _, _, _, st => (.oof, st)
  | _ + 1, _, _, _, _, 0, _, st => (.normal, st)
  | fuel + 1, c, g, swI, swT, reps + 1, body, st =>
    let r := execFrame fuel c g swI swT body st
    if r.1 = .normal then execNative fuel c g swI swT reps body r.2 else r

def execForOf : Nat → Cfg → Nat → Nat → Bool → List Stmt → List Stmt → List Stmt → St → Outcome × St
  | 0, _, _, _, _, _, _, _, st => (.oof, st)
  | fuel + 1, c, i, n, brk, next, body, ret, st =>
    let r1 := execFrame fuel c false false false next st
    if r1.1 = .normal then
      if i < n then
        let r2 := execBlock fuel c body r1.2
        if r2.1 = .normal then
          if brk then execFrame fuel c false false false ret r2.2
          else execForOf fuel c (i + 1) n brk next body ret r2.2
        else if r2.1 = .thrown then
          -- ex != nil: _restoreStacks closes the iterator; its own exception is dropped, an uncatchable one is not
          let r3 := execFrame fuel c false false false ret r2.2
          if r3.1.isAbort then r3 else (.thrown, r3.2)
        else r2       -- uncatchable: iterators are NOT closed (fix 5d979ec)
      else r1
    else r1
end

/-- runtime.go leave(): `for len(q)>0 { jobs, q = q, jobs[:0]; for job in jobs { job() } }`.
    `batch` is the local slice; it is lost when a job panics. -/
def runJobs : Nat → Cfg → List (List Stmt) → St → Outcome × St
  | 0, _, _, st => (.oof, st)
  | fuel + 1, c, [], st =>
    match st.queue with
    | [] => (.normal, st)
    | j :: q => runJobs fuel c (j :: q) { st with queue := [] }
  | fuel + 1, c, job :: batch, st =>
    let r := execFrame fuel c false false true job st
    if r.1 = .normal then runJobs fuel c batch r.2 else r

/-- runtime.go leaveAbrupt -/
def leaveAbrupt (st : St) : St := { st with queue := [], flag := false }

/-- The deferred function of RunProgram / runWrapped / Runtime.Try after an uncatchable error. -/
def apiRecover (v : Nat) (st : St) : Outcome × St :=
  if st.cs = 0 then (.intr v, emit [.rReturn] (leaveAbrupt st)) else (.intr v, st)

/-- An outermost-or-nested API call (RunProgram or a Callable): context + marker frame, run, leave.
    `jobs = false`: Runtime.Try, which does not call leave() (queued jobs stay for the next call). -/
def apiCallJ (jobs : Bool) (fuel : Nat) (c : Cfg) (prog : List Stmt) (st : St) : Outcome × St :=
  let r := execBlock fuel c prog (emit [.rCall] { st with cs := st.cs + 1, ts := markerTF (st.cs + 1) :: st.ts })
  match r.1 with
  | .oof => r
  | .intr v =>
    let u := unwindNone r.2.ts r.2.cs
    apiRecover v { r.2 with ts := u.1.tail, cs := u.2 - 1 }
  | o =>
    let st2 := { r.2 with ts := st.ts, cs := st.cs }
    if st.cs = 0 ∧ jobs = true then
      let rj := runJobs fuel c [] st2
      match rj.1 with
      | .intr v => apiRecover v rj.2
      | .oof => rj
      | _ => (o, emit [.rExit] rj.2)
    else (o, if st.cs = 0 then emit [.rExit] st2 else st2)

def apiCall := apiCallJ true

/-- Harness kinds of `N kind reps (body)` → (gen, swallowInterrupt, swallowThrow). Kind 3 is a generator
    body; 6 and 7 are Go functions that ignore the error of the nested call; 13–18 are Go host functions that pass the
    nested call's error on WRAPPED (fmt.Errorf %w, errors.Join, both nested, or returned from a reflected func): a
    wrapper is still uncatchable (isUncatchableException uses errors.As) and errors.As still reaches the value, so
    for the model they are plain propagating frames. -/
def nKinds : Nat := 21

def kindAttrs (kind : Nat) : Bool × Bool × Bool :=
  match kind % nKinds with
  | 3 => (true, false, false)
  | 6 => (false, true, true)
  | 7 => (false, true, true)
  -- 19/20: a Go function calls Error()/String() on the *Exception a callback threw; the thrown object's toString() is the
  -- body.  Exception.valueString (runtime.go) recovers an uncatchable raised in there and, NESTED (call stack not
  -- empty), does nothing else: the flag stays set and the outer run loop raises at its next poll.
  | 19 => (false, true, true)
  | 20 => (false, true, true)
  | _ => (false, false, false)

/-- OLD mechanism (before fix e8f901b), kept only for the regression lemmas `…_prefix_witness`: a generator frame
    did not pop its marker on the panic path. -/
def unwindFrameOld (leaky : Bool) (st : St) : St :=
  let r := unwindNone st.ts st.cs
  if leaky then { st with ts := r.1, cs := r.2 } else { st with ts := r.1.tail, cs := r.2 }

/-- OLD shape of asyncRunner.onFulfilled (red-team m4), kept only for a regression lemma: the reset of
    vm.curAsyncRunner is a plain statement after gen.next(), so a panic skips it. -/
def asyncResumeNoDefer (r : Outcome × St) : Outcome × St :=
  match r.1 with
  | .intr _ => r
  | _ => (r.1, { r.2 with car := false })

end GojaModel.C15
