/-
  C15 helper lemmas (interleaving model `Conc`, sequential model `Model`).
-/
import GojaModel.C15.Model
import GojaModel.C15.Conc

namespace GojaModel.C15.Conc

/-- allowance: how many more instructions the runner may still complete (the one in flight, if any). -/
def allowance (s : S) : Nat := if s.rpc = .exec then 1 else 0

/-- One quiet step from a state where the store to `interrupted` is visible: the flag stays visible and
    `execs + allowance` does not grow. -/
theorem step_quiet {s s' : S} {l : Label} (h : step s l = some s') (hq : quiet l = true) (hf : s.flag = true) :
    s'.flag = true ∧ s'.execs + allowance s' ≤ s.execs + allowance s := by
  cases l <;> simp only [step, quiet] at h hq
  case iLock t v =>
    split at h <;> simp at h; subst h; simp [allowance, hf]
  case iWrite t =>
    split at h <;> simp at h; subst h; simp [allowance, hf]
  case iStore t =>
    split at h <;> simp at h; subst h; simp [allowance]
  case iUnlock t =>
    split at h <;> simp at h; subst h; simp [allowance, hf]
  case clear => simp at hq
  case rCall =>
    split at h <;> simp at h; subst h; rename_i h0; simp [allowance, hf, h0]
  case rPoll =>
    split at h <;> simp at h; subst h; rename_i h0; simp [allowance, hf, h0]
  case rInstr enq =>
    split at h <;> simp at h; subst h; rename_i h0; simp [allowance, hf, h0]
  case rInstrEnter =>
    split at h <;> simp at h; subst h; rename_i h0; simp [allowance, hf, h0]
  case rHalt =>
    split at h
    · rename_i h0
      split at h <;> simp at h <;> subst h <;> simp [allowance, hf, h0]
    · simp at h
  case rReenter =>
    split at h <;> simp at h; subst h; rename_i h0; simp [allowance, hf, h0]
  case rNativeRet =>
    split at h
    · rename_i h0
      split at h <;> simp at h <;> subst h <;> simp [allowance, hf, h0.1]
    · simp at h
  case rJob =>
    split at h <;> simp at h; subst h; rename_i h0; simp [allowance, hf, h0.1]
  case rLeaveDone =>
    split at h <;> simp at h; subst h; rename_i h0; simp [allowance, hf, h0.1]
  case rLock =>
    split at h <;> simp at h; subst h; rename_i h0; simp [allowance, hf, h0.1]
  case rRead =>
    split at h <;> simp at h; subst h; rename_i h0; simp [allowance, hf, h0]
  case rUnlock =>
    split at h <;> simp at h; subst h; rename_i h0; simp [allowance, hf, h0]
  case rUnwind =>
    split at h
    · rename_i v h0
      split at h <;> simp at h; subst h; simp [allowance, hf, h0]
    · simp at h
  case rSwallow =>
    split at h
    · rename_i v h0
      split at h <;> simp at h; subst h; simp [allowance, hf, h0]
    · simp at h
  case rReturn => simp at hq
  case rCtl =>
    split at h <;> simp at h <;> subst h <;> rename_i h0 <;> simp [allowance, hf, h0]
  case rExit =>
    split at h <;> simp at h; subst h; rename_i h0; simp [allowance, hf, h0]

def allQuiet (ls : List Label) : Bool := ls.all quiet

theorem run_quiet {ls : List Label} : ∀ {s s' : S}, run s ls = some s' → allQuiet ls = true → s.flag = true →
    s'.flag = true ∧ s'.execs + allowance s' ≤ s.execs + allowance s := by
  induction ls with
  | nil => intro s s' h _ hf; simp [run] at h; subst h; exact ⟨hf, Nat.le_refl _⟩
  | cons l ls ih =>
    intro s s' h hq hf
    simp only [run] at h
    split at h
    · rename_i s1 h1
      simp [allQuiet] at hq
      have a := step_quiet h1 hq.1 hf
      have b := ih h (by simpa [allQuiet] using hq.2) a.1
      exact ⟨b.1, Nat.le_trans b.2 a.2⟩
    · simp at h

theorem step_execs_mono {s s' : S} {l : Label} (h : step s l = some s') : s.execs ≤ s'.execs := by
  cases l <;> simp only [step] at h <;> (repeat' split at h) <;> simp at h <;> subst h <;> simp

theorem run_execs_mono {ls : List Label} : ∀ {s s' : S}, run s ls = some s' → s.execs ≤ s'.execs := by
  induction ls with
  | nil => intro s s' h; simp [run] at h; subst h; exact Nat.le_refl _
  | cons l ls ih =>
    intro s s' h
    simp only [run] at h
    split at h
    · rename_i s1 h1; exact Nat.le_trans (step_execs_mono h1) (ih h)
    · simp at h

/-- Invariant about the value cell.  `hist` = arguments of Interrupt in critical-section order. -/
structure ValInv (s : S) : Prop where
  last : s.hist ≠ [] → s.hist.getLast? = some s.val
  flagNE : s.flag = true → s.hist ≠ []
  wroteNE : ∀ t v, s.ipc t = .wrote v → s.hist ≠ []
  runnerNE : (s.rpc = .wantLock ∨ s.rpc = .haveLock) → s.hist ≠ []

theorem valInv_init : ValInv init := by
  constructor <;> simp [init]

theorem step_valInv {s s' : S} {l : Label} (h : step s l = some s') (I : ValInv s) : ValInv s' := by
  obtain ⟨i1, i2, i3, i4⟩ := I
  cases l <;> simp only [step] at h
  case iLock t v =>
    split at h <;> simp at h; subst h
    refine ⟨i1, i2, ?_, i4⟩
    intro t' v' hw; simp only [setI] at hw; split at hw
    · simp at hw
    · exact i3 t' v' hw
  case iWrite t =>
    split at h <;> simp at h; subst h
    refine ⟨?_, ?_, ?_, ?_⟩ <;> simp
  case iStore t =>
    split at h <;> simp at h; subst h; rename_i v hv
    have hne := i3 t v hv
    refine ⟨i1, fun _ => hne, fun _ _ _ => hne, i4⟩
  case iUnlock t =>
    split at h <;> simp at h; subst h
    refine ⟨i1, i2, ?_, i4⟩
    intro t' v' hw; simp only [setI] at hw; split at hw
    · simp at hw
    · exact i3 t' v' hw
  case clear =>
    simp at h; subst h; exact ⟨i1, by simp, i3, i4⟩
  case rCall =>
    split at h <;> simp at h; subst h; exact ⟨i1, i2, i3, by simp⟩
  case rPoll =>
    split at h <;> simp at h; subst h
    refine ⟨i1, i2, i3, ?_⟩
    intro hh
    by_cases hf : s.flag = true
    · exact i2 hf
    · simp [hf] at hh
  case rInstr enq =>
    split at h <;> simp at h; subst h; exact ⟨i1, i2, i3, by simp⟩
  case rInstrEnter =>
    split at h <;> simp at h; subst h; exact ⟨i1, i2, i3, by simp⟩
  case rHalt =>
    split at h
    · split at h <;> simp at h <;> subst h <;> exact ⟨i1, i2, i3, by simp⟩
    · simp at h
  case rReenter =>
    split at h <;> simp at h; subst h; exact ⟨i1, i2, i3, by simp⟩
  case rNativeRet =>
    split at h
    · split at h <;> simp at h <;> subst h <;> exact ⟨i1, i2, i3, by simp⟩
    · simp at h
  case rJob =>
    split at h <;> simp at h; subst h; exact ⟨i1, i2, i3, by simp⟩
  case rLeaveDone =>
    split at h <;> simp at h; subst h; exact ⟨i1, i2, i3, by simp⟩
  case rLock =>
    split at h <;> simp at h; subst h; rename_i h0
    exact ⟨i1, i2, i3, fun _ => i4 (Or.inl h0.1)⟩
  case rRead =>
    split at h <;> simp at h; subst h; exact ⟨i1, i2, i3, by simp⟩
  case rUnlock =>
    split at h <;> simp at h; subst h; exact ⟨i1, i2, i3, by simp⟩
  case rUnwind =>
    split at h
    · split at h <;> simp at h; subst h; exact ⟨i1, i2, i3, by simp⟩
    · simp at h
  case rSwallow =>
    split at h
    · split at h <;> simp at h; subst h; exact ⟨i1, i2, i3, by simp⟩
    · simp at h
  case rReturn =>
    split at h
    · split at h <;> simp at h; subst h; exact ⟨i1, by simp, i3, by simp⟩
    · simp at h
  case rCtl =>
    split at h <;> simp at h <;> subst h
    · exact ⟨i1, i2, i3, by simp⟩
    · exact ⟨i1, i2, i3, by simp⟩
    · exact ⟨i1, i2, i3, by simp⟩
    · exact ⟨i1, i2, i3, by simp⟩
  case rExit =>
    split at h <;> simp at h; subst h; exact ⟨i1, i2, i3, by simp⟩

theorem run_valInv {ls : List Label} : ∀ {s s' : S}, run s ls = some s' → ValInv s → ValInv s' := by
  induction ls with
  | nil => intro s s' h I; simp [run] at h; subst h; exact I
  | cons l ls ih =>
    intro s s' h I
    simp only [run] at h
    split at h
    · rename_i s1 h1; exact ih h (step_valInv h1 I)
    · simp at h

theorem run_append (s : S) (a b : List Label) : run s (a ++ b) = (run s a).bind (fun s' => run s' b) := by
  induction a generalizing s with
  | nil => simp [run]
  | cons l ls ih =>
    simp only [List.cons_append, run]
    cases step s l with
    | none => simp
    | some s1 => simpa using ih s1

end GojaModel.C15.Conc

namespace GojaModel.C15

theorem frameAction_none (tf : TF) :
    (tf.catchPos ≠ tryPanicMarker ∧ frameAction tf true = .skip) ∨ (tf.catchPos = tryPanicMarker ∧ frameAction tf true = .stop) := by
  by_cases h : tf.catchPos = tryPanicMarker
  · right; refine ⟨h, ?_⟩; simp [frameAction, skipFrame, h, tryPanicMarker]
  · left; refine ⟨h, ?_⟩; simp [frameAction, skipFrame, h]

theorem handleThrow_none_propagates (ts : List TF) (cs : Nat) :
    ∃ ts' cs', handleThrow true ts cs = .propagate ts' cs' := by
  induction ts with
  | nil => exact ⟨[], cs, rfl⟩
  | cons tf rest ih =>
    rcases frameAction_none tf with ⟨_, h⟩ | ⟨_, h⟩
    · simp only [handleThrow, h]; exact ih
    · simp only [handleThrow, h]; exact ⟨_, _, rfl⟩

def allHandlers (hs : List TF) : Prop := ∀ tf ∈ hs, tf.catchPos ≠ tryPanicMarker

theorem handleThrow_none_handlers (hs rest : List TF) (m : TF) (cs : Nat) (hh : allHandlers hs)
    (hm : m.catchPos = tryPanicMarker) :
    handleThrow true (hs ++ m :: rest) cs = .propagate (m :: rest) (truncCs m cs) := by
  induction hs with
  | nil =>
    rcases frameAction_none m with ⟨h, _⟩ | ⟨_, h⟩
    · exact absurd hm h
    · simp [handleThrow, h]
  | cons tf hs ih =>
    have htf : tf.catchPos ≠ tryPanicMarker := hh tf (by simp)
    rcases frameAction_none tf with ⟨_, h⟩ | ⟨h, _⟩
    · simp only [List.cons_append, handleThrow, h]
      exact ih (fun x hx => hh x (by simp [hx]))
    · exact absurd h htf

/-! ### elementary facts about the state transformers -/

theorem pollStep_flag {c : Cfg} {st : St} (h : st.flag = true) : pollStep c st = { st with polls := st.polls + 1 } := by
  simp [pollStep, h]

theorem pollStep_ts (c : Cfg) (st : St) : (pollStep c st).ts = st.ts := by unfold pollStep; split <;> rfl
theorem pollStep_cs (c : Cfg) (st : St) : (pollStep c st).cs = st.cs := by unfold pollStep; split <;> rfl
theorem pollStep_car (c : Cfg) (st : St) : (pollStep c st).car = st.car := by unfold pollStep; split <;> rfl
theorem pollStep_log (c : Cfg) (st : St) : (pollStep c st).log = st.log := by unfold pollStep; split <;> rfl
theorem pollStep_queue (c : Cfg) (st : St) : (pollStep c st).queue = st.queue := by unfold pollStep; split <;> rfl
theorem pollStep_execs (c : Cfg) (st : St) : (pollStep c st).execs = st.execs := by unfold pollStep; split <;> rfl
theorem doProbe_ts (c : Cfg) (st : St) : (doProbe c st).ts = st.ts := by simp only [doProbe]; split <;> rfl
theorem doProbe_cs (c : Cfg) (st : St) : (doProbe c st).cs = st.cs := by simp only [doProbe]; split <;> rfl
theorem doProbe_car (c : Cfg) (st : St) : (doProbe c st).car = st.car := by simp only [doProbe]; split <;> rfl

/-- what may differ between two states when no script code ran: only ghosts (`polls`, `tr`) -/
structure SameObs (st st' : St) : Prop where
  flag : st'.flag = st.flag
  val : st'.val = st.val
  log : st'.log = st.log
  queue : st'.queue = st.queue
  cs : st'.cs = st.cs
  ts : st'.ts = st.ts
  car : st'.car = st.car
  execs : st'.execs = st.execs
  frozen : st'.frozen = st.frozen

theorem sameObs_raise_poll {c : Cfg} {st : St} (h : st.flag = true) : SameObs st (raise (pollStep c st)) := by
  rw [pollStep_flag h]; constructor <;> rfl

/-- Once the flag is visible a statement does nothing but raise. -/
theorem exec_flag (fuel : Nat) (c : Cfg) (s : Stmt) (st : St) (h : st.flag = true) :
    exec fuel c s st = (.intr st.val, raise (pollStep c st)) ∨ exec fuel c s st = (.oof, st) := by
  cases fuel with
  | zero => right; simp [exec]
  | succ n => left; simp [exec, pollStep_flag h, h]

theorem execBlock_flag (fuel : Nat) (c : Cfg) (b : List Stmt) (st : St) (h : st.flag = true) :
    execBlock fuel c b st = (.intr st.val, raise (pollStep c st)) ∨ execBlock fuel c b st = (.oof, st) := by
  cases fuel with
  | zero => right; simp [execBlock]
  | succ n =>
    cases b with
    | nil => left; simp [execBlock, pollStep_flag h, h]
    | cons s rest =>
      rcases exec_flag n c s st h with e | e
      · left; simp [execBlock, e]
      · right; simp [execBlock, e]

theorem execFrame_flag (fuel : Nat) (c : Cfg) (g swI swT : Bool) (b : List Stmt) (st : St) (h : st.flag = true) :
    (execFrame fuel c g swI swT b st).2.log = st.log ∧ (execFrame fuel c g swI swT b st).2.flag = true ∧
    (execFrame fuel c g swI swT b st).2.execs = st.execs := by
  cases fuel with
  | zero => simp [execFrame, h]
  | succ n =>
    have hf : (enterFrame g st).flag = true := by cases g <;> simp [enterFrame, h]
    rcases execBlock_flag n c b (enterFrame g st) hf with e | e
    · simp only [execFrame, e]
      rw [pollStep_flag hf]
      cases g <;> cases swI <;> simp [enterFrame, h, raise, emit]
    · simp only [execFrame, e]
      cases g <;> simp [enterFrame, h]

end GojaModel.C15
