/-
  C15 helper lemmas (interleaving model `Conc`, sequential model `Model`).
-/
import GojaModel.C15.Model
import GojaModel.C15.Conc

namespace GojaModel.C15.Conc

/-- allowance: how many more instructions the runner may still complete (the one in flight, if any). -/
def allowance (s : S) : Nat := if s.rpc = .exec then 1 else 0

/-- One quiet step from a state where the store to `interrupted` is visible: the flag stays visible and
    `execs + allowance` does not grow. -/
theorem step_quiet {s s' : S} {l : Label} (h : step s l = some s') (hq : quiet l = true) (hf : s.flag = true) :
    s'.flag = true ∧ s'.execs + allowance s' ≤ s.execs + allowance s := by
  cases l <;> simp only [step, quiet] at h hq
  case iLock t v =>
    split at h <;> simp at h; subst h; simp [allowance, hf]
  case iWrite t =>
    split at h <;> simp at h; subst h; simp [allowance, hf]
  case iStore t =>
    split at h <;> simp at h; subst h; simp [allowance]
  case iUnlock t =>
    split at h <;> simp at h; subst h; simp [allowance, hf]
  case clear => simp at hq
  case rCall =>
    split at h <;> simp at h; subst h; rename_i h0; simp [allowance, hf, h0]
  case rPoll =>
    split at h <;> simp at h; subst h; rename_i h0; simp [allowance, hf, h0]
  case rInstr enq =>
    split at h <;> simp at h; subst h; rename_i h0; simp [allowance, hf, h0]
  case rInstrEnter =>
    split at h <;> simp at h; subst h; rename_i h0; simp [allowance, hf, h0]
  case rHalt =>
    split at h
    · rename_i h0
      split at h <;> simp at h <;> subst h <;> simp [allowance, hf, h0]
    · simp at h
  case rReenter =>
    split at h <;> simp at h; subst h; rename_i h0; simp [allowance, hf, h0]
  case rNativeRet =>
    split at h
    · rename_i h0
      split at h <;> simp at h <;> subst h <;> simp [allowance, hf, h0.1]
    · simp at h
  case rJob =>
    split at h <;> simp at h; subst h; rename_i h0; simp [allowance, hf, h0.1]
  case rLeaveDone =>
    split at h <;> simp at h; subst h; rename_i h0; simp [allowance, hf, h0.1]
  case rLock =>
    split at h <;> simp at h; subst h; rename_i h0; simp [allowance, hf, h0.1]
  case rRead =>
    split at h <;> simp at h; subst h; rename_i h0; simp [allowance, hf, h0]
  case rUnlock =>
    split at h <;> simp at h; subst h; rename_i h0; simp [allowance, hf, h0]
  case rUnwind =>
    split at h
    · rename_i v h0
      split at h <;> simp at h; subst h; simp [allowance, hf, h0]
    · simp at h
  case rSwallow =>
    split at h
    · rename_i v h0
      split at h <;> simp at h; subst h; simp [allowance, hf, h0]
    · simp at h
  case rReturn => simp at hq

def allQuiet (ls : List Label) : Bool := ls.all quiet

theorem run_quiet {ls : List Label} : ∀ {s s' : S}, run s ls = some s' → allQuiet ls = true → s.flag = true →
    s'.flag = true ∧ s'.execs + allowance s' ≤ s.execs + allowance s := by
  induction ls with
  | nil => intro s s' h _ hf; simp [run] at h; subst h; exact ⟨hf, Nat.le_refl _⟩
  | cons l ls ih =>
    intro s s' h hq hf
    simp only [run] at h
    split at h
    · rename_i s1 h1
      simp [allQuiet] at hq
      have a := step_quiet h1 hq.1 hf
      have b := ih h (by simpa [allQuiet] using hq.2) a.1
      exact ⟨b.1, Nat.le_trans b.2 a.2⟩
    · simp at h

theorem step_execs_mono {s s' : S} {l : Label} (h : step s l = some s') : s.execs ≤ s'.execs := by
  cases l <;> simp only [step] at h <;> (repeat' split at h) <;> simp at h <;> subst h <;> simp

theorem run_execs_mono {ls : List Label} : ∀ {s s' : S}, run s ls = some s' → s.execs ≤ s'.execs := by
  induction ls with
  | nil => intro s s' h; simp [run] at h; subst h; exact Nat.le_refl _
  | cons l ls ih =>
    intro s s' h
    simp only [run] at h
    split at h
    · rename_i s1 h1; exact Nat.le_trans (step_execs_mono h1) (ih h)
    · simp at h

/-- Invariant about the value cell.  `hist` = arguments of Interrupt in critical-section order. -/
structure ValInv (s : S) : Prop where
  last : s.hist ≠ [] → s.hist.getLast? = some s.val
  flagNE : s.flag = true → s.hist ≠ []
  wroteNE : ∀ t v, s.ipc t = .wrote v → s.hist ≠ []
  runnerNE : (s.rpc = .wantLock ∨ s.rpc = .haveLock) → s.hist ≠ []

theorem valInv_init : ValInv init := by
  constructor <;> simp [init]

theorem step_valInv {s s' : S} {l : Label} (h : step s l = some s') (I : ValInv s) : ValInv s' := by
  obtain ⟨i1, i2, i3, i4⟩ := I
  cases l <;> simp only [step] at h
  case iLock t v =>
    split at h <;> simp at h; subst h
    refine ⟨i1, i2, ?_, i4⟩
    intro t' v' hw; simp only [setI] at hw; split at hw
    · simp at hw
    · exact i3 t' v' hw
  case iWrite t =>
    split at h <;> simp at h; subst h
    refine ⟨?_, ?_, ?_, ?_⟩ <;> simp
  case iStore t =>
    split at h <;> simp at h; subst h; rename_i v hv
    have hne := i3 t v hv
    refine ⟨i1, fun _ => hne, fun _ _ _ => hne, i4⟩
  case iUnlock t =>
    split at h <;> simp at h; subst h
    refine ⟨i1, i2, ?_, i4⟩
    intro t' v' hw; simp only [setI] at hw; split at hw
    · simp at hw
    · exact i3 t' v' hw
  case clear =>
    simp at h; subst h; exact ⟨i1, by simp, i3, i4⟩
  case rCall =>
    split at h <;> simp at h; subst h; exact ⟨i1, i2, i3, by simp⟩
  case rPoll =>
    split at h <;> simp at h; subst h
    refine ⟨i1, i2, i3, ?_⟩
    intro hh
    by_cases hf : s.flag = true
    · exact i2 hf
    · simp [hf] at hh
  case rInstr enq =>
    split at h <;> simp at h; subst h; exact ⟨i1, i2, i3, by simp⟩
  case rInstrEnter =>
    split at h <;> simp at h; subst h; exact ⟨i1, i2, i3, by simp⟩
  case rHalt =>
    split at h
    · split at h <;> simp at h <;> subst h <;> exact ⟨i1, i2, i3, by simp⟩
    · simp at h
  case rReenter =>
    split at h <;> simp at h; subst h; exact ⟨i1, i2, i3, by simp⟩
  case rNativeRet =>
    split at h
    · split at h <;> simp at h <;> subst h <;> exact ⟨i1, i2, i3, by simp⟩
    · simp at h
  case rJob =>
    split at h <;> simp at h; subst h; exact ⟨i1, i2, i3, by simp⟩
  case rLeaveDone =>
    split at h <;> simp at h; subst h; exact ⟨i1, i2, i3, by simp⟩
  case rLock =>
    split at h <;> simp at h; subst h; rename_i h0
    exact ⟨i1, i2, i3, fun _ => i4 (Or.inl h0.1)⟩
  case rRead =>
    split at h <;> simp at h; subst h; exact ⟨i1, i2, i3, by simp⟩
  case rUnlock =>
    split at h <;> simp at h; subst h; exact ⟨i1, i2, i3, by simp⟩
  case rUnwind =>
    split at h
    · split at h <;> simp at h; subst h; exact ⟨i1, i2, i3, by simp⟩
    · simp at h
  case rSwallow =>
    split at h
    · split at h <;> simp at h; subst h; exact ⟨i1, i2, i3, by simp⟩
    · simp at h
  case rReturn =>
    split at h
    · split at h <;> simp at h; subst h; exact ⟨i1, by simp, i3, by simp⟩
    · simp at h

theorem run_valInv {ls : List Label} : ∀ {s s' : S}, run s ls = some s' → ValInv s → ValInv s' := by
  induction ls with
  | nil => intro s s' h I; simp [run] at h; subst h; exact I
  | cons l ls ih =>
    intro s s' h I
    simp only [run] at h
    split at h
    · rename_i s1 h1; exact ih h (step_valInv h1 I)
    · simp at h

end GojaModel.C15.Conc

namespace GojaModel.C15

theorem frameAction_none (tf : TF) :
    (tf.catchPos ≠ tryPanicMarker ∧ frameAction tf true = .skip) ∨ (tf.catchPos = tryPanicMarker ∧ frameAction tf true = .stop) := by
  by_cases h : tf.catchPos = tryPanicMarker
  · right; refine ⟨h, ?_⟩; simp [frameAction, skipFrame, h, tryPanicMarker]
  · left; refine ⟨h, ?_⟩; simp [frameAction, skipFrame, h]

theorem handleThrow_none_propagates (ts : List TF) (cs : Nat) :
    ∃ ts' cs', handleThrow true ts cs = .propagate ts' cs' := by
  induction ts with
  | nil => exact ⟨[], cs, rfl⟩
  | cons tf rest ih =>
    rcases frameAction_none tf with ⟨_, h⟩ | ⟨_, h⟩
    · simp only [handleThrow, h]; exact ih
    · simp only [handleThrow, h]; exact ⟨_, _, rfl⟩

def allHandlers (hs : List TF) : Prop := ∀ tf ∈ hs, tf.catchPos ≠ tryPanicMarker

theorem handleThrow_none_handlers (hs rest : List TF) (m : TF) (cs : Nat) (hh : allHandlers hs)
    (hm : m.catchPos = tryPanicMarker) :
    handleThrow true (hs ++ m :: rest) cs = .propagate (m :: rest) (truncCs m cs) := by
  induction hs with
  | nil =>
    rcases frameAction_none m with ⟨h, _⟩ | ⟨_, h⟩
    · exact absurd hm h
    · simp [handleThrow, h]
  | cons tf hs ih =>
    have htf : tf.catchPos ≠ tryPanicMarker := hh tf (by simp)
    rcases frameAction_none tf with ⟨_, h⟩ | ⟨h, _⟩
    · simp only [List.cons_append, handleThrow, h]
      exact ih (fun x hx => hh x (by simp [hx]))
    · exact absurd h htf

/-- Once the flag is visible a statement does nothing but raise. -/
theorem exec_flag (fuel : Nat) (c : Cfg) (s : Stmt) (st : St) (h : st.flag = true) :
    exec fuel c s st = (.intr st.val, st) ∨ exec fuel c s st = (.oof, st) := by
  cases fuel with
  | zero => right; simp [exec]
  | succ n => left; simp [exec, h]

theorem execBlock_flag (fuel : Nat) (c : Cfg) (b : List Stmt) (st : St) (h : st.flag = true) :
    execBlock fuel c b st = (.intr st.val, st) ∨ execBlock fuel c b st = (.oof, st) := by
  cases fuel with
  | zero => right; simp [execBlock]
  | succ n =>
    cases b with
    | nil => left; simp [execBlock, h]
    | cons s rest =>
      rcases exec_flag n c s st h with e | e
      · left; simp [execBlock, e]
      · right; simp [execBlock, e]

theorem execFrame_flag (fuel : Nat) (c : Cfg) (g swI swT : Bool) (b : List Stmt) (st : St) (h : st.flag = true) :
    (execFrame fuel c g swI swT b st).2.log = st.log ∧ (execFrame fuel c g swI swT b st).2.flag = true ∧
    (execFrame fuel c g swI swT b st).2.execs = st.execs := by
  cases fuel with
  | zero => simp [execFrame, h]
  | succ n =>
    have hf : (enterFrame g st).flag = true := by cases g <;> simp [enterFrame, h]
    rcases execBlock_flag n c b (enterFrame g st) hf with e | e
    · simp only [execFrame, e]
      cases g <;> cases swI <;> simp [enterFrame, h]
    · simp only [execFrame, e]
      cases g <;> simp [enterFrame, h]

/-! ### stack balance: every construct leaves the try stack and the call stack as it found them, also when an
    uncatchable error passes through (then only script-level handler frames may remain above, for the enclosing
    handleThrow to skip, and contexts for it to truncate) -/

def Bal (st : St) (r : Outcome × St) : Prop :=
  ((r.1 = .normal ∨ r.1 = .thrown) → r.2.ts = st.ts ∧ r.2.cs = st.cs) ∧
  (∀ v, r.1 = .intr v → ∃ hs, allHandlers hs ∧ r.2.ts = hs ++ st.ts ∧ st.cs ≤ r.2.cs)

/-- frames whose marker is popped in a `defer` (and generator frames inside them) restore exactly -/
def BalStrong (st : St) (r : Outcome × St) : Prop :=
  r.1 ≠ .oof → r.2.ts = st.ts ∧ r.2.cs = st.cs

theorem allHandlers_nil : allHandlers [] := by intro tf h; cases h

theorem BalStrong.toBal {st : St} {r : Outcome × St} (h : BalStrong st r) : Bal st r := by
  constructor
  · intro ho; apply h; rcases ho with ho | ho <;> simp [ho]
  · intro v hv
    have := h (by simp [hv])
    exact ⟨[], allHandlers_nil, by simp [this.1], by omega⟩

theorem Bal.of_eq {st st0 : St} {r : Outcome × St} (hts : st.ts = st0.ts) (hcs : st.cs = st0.cs) (h : Bal st r) :
    Bal st0 r := by
  unfold Bal at *; rw [hts, hcs] at h; exact h

theorem Bal.intr_self (st : St) (v : Nat) : Bal st (.intr v, st) := by
  constructor
  · intro h; simp at h
  · intro _ _; exact ⟨[], allHandlers_nil, by simp, Nat.le_refl _⟩

theorem Bal.oof (st st' : St) : Bal st (.oof, st') := by
  constructor
  · intro h; rcases h with h | h <;> simp at h
  · intro v h; simp at h

theorem Bal.same {st st' : St} (o : Outcome) (hts : st'.ts = st.ts) (hcs : st'.cs = st.cs) : Bal st (o, st') := by
  constructor
  · intro _; exact ⟨hts, hcs⟩
  · intro v _; exact ⟨[], allHandlers_nil, by simp [hts], Nat.le_of_eq hcs.symm⟩

theorem Bal.andThen {st : St} {r r' : Outcome × St} (h : Bal st r) (hn : r.1 = .normal) (h' : Bal r.2 r') : Bal st r' :=
  Bal.of_eq (h.1 (Or.inl hn)).1 (h.1 (Or.inl hn)).2 h'

theorem BalStrong.andThen {st : St} {r r' : Outcome × St} (h : BalStrong st r) (hn : r.1 = .normal)
    (h' : BalStrong r.2 r') : BalStrong st r' := by
  intro ho
  have a := h (by simp [hn])
  have b := h' ho
  exact ⟨by rw [b.1, a.1], by rw [b.2, a.2]⟩

structure IH (n : Nat) : Prop where
  exec : ∀ c s st, Bal st (exec n c s st)
  block : ∀ c b st, Bal st (execBlock n c b st)
  loop : ∀ c k b st, Bal st (execLoop n c k b st)
  frame : ∀ c g i t b st, Bal st (execFrame n c g i t b st)
  frameS : ∀ c i t b st, BalStrong st (execFrame n c false i t b st)
  native : ∀ c g i t k b st, Bal st (execNative n c g i t k b st)
  forOf : ∀ c i k brk nx b rt st, Bal st (execForOf n c i k brk nx b rt st)

theorem ih_zero : IH 0 := by
  constructor <;> intros <;> simp [exec, execBlock, execLoop, execFrame, execNative, execForOf, Bal, BalStrong]

theorem handlerTF_isHandler (cs : Nat) (hc hf : Bool) : (handlerTF cs hc hf).catchPos ≠ tryPanicMarker := by
  cases hc <;> simp [handlerTF, tryPanicMarker]

theorem bal_block_succ {n : Nat} (ih : IH n) (c : Cfg) (b : List Stmt) (st : St) : Bal st (execBlock (n + 1) c b st) := by
  cases b with
  | nil =>
    simp only [execBlock]; split
    · exact Bal.intr_self _ _
    · exact Bal.same _ rfl rfl
  | cons s rest =>
    simp only [execBlock]
    have h1 := ih.exec c s st
    split
    · rename_i hn; exact h1.andThen hn (ih.block c rest _)
    · exact h1

theorem bal_loop_succ {n : Nat} (ih : IH n) (c : Cfg) (k : Nat) (b : List Stmt) (st : St) :
    Bal st (execLoop (n + 1) c k b st) := by
  cases k with
  | zero => simp only [execLoop]; exact Bal.same _ rfl rfl
  | succ k =>
    simp only [execLoop]
    have h1 := ih.block c b st
    split
    · rename_i hn; exact h1.andThen hn (ih.loop c k b _)
    · exact h1

theorem enterFrame_ts_cs (g : Bool) (st : St) :
    (enterFrame g st).ts = markerTF (if g then st.cs + 1 else st.cs) :: st.ts ∧
    (enterFrame g st).cs = (if g then st.cs + 2 else st.cs + 1) := by
  cases g <;> simp [enterFrame]

/-- what the frame's own handleThrow(ex = nil) sees and does -/
theorem frame_unwind {g : Bool} {st : St} {r : Outcome × St} {v : Nat} (hb : Bal (enterFrame g st) r) (hv : r.1 = .intr v) :
    (unwindNone r.2.ts r.2.cs).1.tail = st.ts ∧
    (unwindNone r.2.ts r.2.cs).2 = (if g then st.cs + 1 else st.cs) := by
  obtain ⟨hs, hh, hts, hcs⟩ := hb.2 v hv
  have e := enterFrame_ts_cs g st
  rw [e.1] at hts; rw [e.2] at hcs
  have hm := handleThrow_none_handlers hs st.ts (markerTF (if g then st.cs + 1 else st.cs)) r.2.cs hh rfl
  simp only [unwindNone, hts, hm, List.tail_cons, true_and]
  simp only [truncCs, markerTF]
  cases g <;> simp at hcs ⊢ <;> omega

theorem bal_frame_succ {n : Nat} (ih : IH n) (c : Cfg) (g i t : Bool) (b : List Stmt) (st : St) :
    Bal st (execFrame (n + 1) c g i t b st) ∧ (g = false → BalStrong st (execFrame (n + 1) c g i t b st)) := by
  simp only [execFrame]
  have hb := ih.block c b (enterFrame g st)
  generalize execBlock n c b (enterFrame g st) = r at hb ⊢
  obtain ⟨o, st1⟩ := r
  cases o with
  | normal => exact ⟨Bal.same _ rfl rfl, fun _ _ => ⟨rfl, rfl⟩⟩
  | thrown => exact ⟨Bal.same _ rfl rfl, fun _ _ => ⟨rfl, rfl⟩⟩
  | oof => exact ⟨Bal.oof _ _, fun _ h => absurd rfl h⟩
  | intr v =>
    have hu := frame_unwind hb (v := v) rfl
    cases g with
    | true =>
      simp only [if_true] at hu ⊢
      refine ⟨?_, fun h => by cases h⟩
      constructor
      · intro h; simp at h
      · intro v' _; exact ⟨[], allHandlers_nil, by simp, by simp [hu.2]⟩
    | false =>
      simp only [Bool.false_eq_true, if_false] at hu ⊢
      cases i with
      | true => simp only [if_true]; exact ⟨Bal.same _ hu.1 hu.2, fun _ _ => ⟨hu.1, hu.2⟩⟩
      | false => simp only [Bool.false_eq_true, if_false]; exact ⟨Bal.same _ hu.1 hu.2, fun _ _ => ⟨hu.1, hu.2⟩⟩

theorem bal_native_succ {n : Nat} (ih : IH n) (c : Cfg) (g i t : Bool) (k : Nat) (b : List Stmt) (st : St) :
    Bal st (execNative (n + 1) c g i t k b st) := by
  cases k with
  | zero => simp only [execNative]; exact Bal.same _ rfl rfl
  | succ k =>
    simp only [execNative]
    have h1 := ih.frame c g i t b st
    split
    · rename_i hn; exact h1.andThen hn (ih.native c g i t k b _)
    · exact h1

theorem bal_forOf_succ {n : Nat} (ih : IH n) (c : Cfg) (i k : Nat) (brk : Bool) (nx b rt : List Stmt) (st : St) :
    Bal st (execForOf (n + 1) c i k brk nx b rt st) := by
  simp only [execForOf]
  have h1 := ih.frame c false false false nx st
  split
  · rename_i hn1
    split
    · have h2 := h1.andThen hn1 (ih.block c b _)
      split
      · rename_i hn2
        split
        · exact h2.andThen hn2 (ih.frame c false false false rt _)
        · exact h2.andThen hn2 (ih.forOf c (i + 1) k brk nx b rt _)
      · split
        · -- body threw: iterator closed, then the throw continues
          rename_i hth
          have hbs := h2.1 (Or.inr hth)
          have h3 : Bal st (execFrame n c false false false rt (execBlock n c b (execFrame n c false false false nx st).2).2) :=
            Bal.of_eq hbs.1 hbs.2 (ih.frame c false false false rt _)
          split
          · exact h3
          · rename_i hna
            have hs := ih.frameS c false false rt (execBlock n c b (execFrame n c false false false nx st).2).2
            have : (execFrame n c false false false rt (execBlock n c b (execFrame n c false false false nx st).2).2).1 ≠ .oof := by
              intro ho; simp [ho, Outcome.isAbort] at hna
            have e := hs this
            exact Bal.same _ (by rw [e.1, hbs.1]) (by rw [e.2, hbs.2])
        · exact h2
    · exact h1
  · exact h1

theorem bal_exec_succ {n : Nat} (ih : IH n) (c : Cfg) (s : Stmt) (st : St) : Bal st (exec (n + 1) c s st) := by
  simp only [exec]
  split
  · exact Bal.intr_self _ _
  · cases s with
    | log k => exact Bal.same _ rfl rfl
    | probe => exact Bal.same _ (by simp only [doProbe]; split <;> rfl) (by simp only [doProbe]; split <;> rfl)
    | throw => exact Bal.same _ rfl rfl
    | enqueue j => exact Bal.same _ rfl rfl
    | loop k b => exact Bal.of_eq rfl rfl (ih.loop c k b _)
    | native g i t k b => exact Bal.of_eq rfl rfl (ih.native c g i t k b _)
    | forOf k brk nx b rt => exact Bal.of_eq rfl rfl (ih.forOf c 0 k brk nx b rt _)
    | tryc hc hf body cat fin =>
      simp only []
      generalize hr1 : execBlock n c body _ = r1
      have hb : Bal _ r1 := hr1 ▸ ih.block c body _
      split
      · -- uncatchable (or out of fuel) from the body: the handler frame stays on the try stack
        constructor
        · intro h; rename_i ha; rcases h with h | h <;> simp [h, Outcome.isAbort] at ha
        · intro v hv
          obtain ⟨hs, hh, hts, hcs⟩ := hb.2 v hv
          refine ⟨hs ++ [handlerTF st.cs hc hf], ?_, by simp [hts], hcs⟩
          intro tf htf
          rcases List.mem_append.mp htf with h | h
          · exact hh tf h
          · simp at h; subst h; exact handlerTF_isHandler _ _ _
      · generalize hr2 : (if r1.1 = Outcome.thrown ∧ hc = true then execBlock n c cat _ else (r1.1, _)) = r2
        have hb2 : Bal st r2 := by
          subst hr2
          split
          · exact Bal.of_eq rfl rfl (ih.block c cat _)
          · exact Bal.same _ rfl rfl
        split
        · exact hb2
        · rename_i hna2
          have hn2 : r2.1 = .normal ∨ r2.1 = .thrown := by
            cases h : r2.1 <;> simp [h, Outcome.isAbort] at hna2 ⊢
          split
          · have hb3 : Bal st (execBlock n c fin r2.2) := Bal.of_eq (hb2.1 hn2).1 (hb2.1 hn2).2 (ih.block c fin _)
            split
            · rename_i hn3
              exact Bal.same _ (hb3.1 (Or.inl hn3)).1 (hb3.1 (Or.inl hn3)).2
            · exact hb3
          · exact hb2

theorem ih_succ {n : Nat} (ih : IH n) : IH (n + 1) where
  exec := bal_exec_succ ih
  block := bal_block_succ ih
  loop := bal_loop_succ ih
  frame := fun c g i t b st => (bal_frame_succ ih c g i t b st).1
  frameS := fun c i t b st => (bal_frame_succ ih c false i t b st).2 rfl
  native := bal_native_succ ih
  forOf := bal_forOf_succ ih

theorem ih_all (n : Nat) : IH n := by
  induction n with
  | zero => exact ih_zero
  | succ n ih => exact ih_succ ih

/-- leave(): every job frame restores exactly, so the drain loop does -/
theorem runJobs_balStrong (n : Nat) : ∀ (c : Cfg) (batch : List (List Stmt)) (st : St), BalStrong st (runJobs n c batch st) := by
  induction n with
  | zero => intro c batch st h; simp [runJobs] at h
  | succ n ih =>
    intro c batch st
    cases batch with
    | nil =>
      simp only [runJobs]
      split
      · intro _; exact ⟨rfl, rfl⟩
      · exact fun h => ih c _ _ h
    | cons job batch =>
      simp only [runJobs]
      have h1 := (ih_all n).frameS c false true job st
      split
      · rename_i hn; exact h1.andThen hn (ih c batch _)
      · exact h1

/-! ### the interrupt invariant: from the instant a probe calls Interrupt(v) the event log never grows again and the
    value cell holds v; an uncatchable outcome is only ever produced with the flag visible and carries the cell -/

def Inv (c : Cfg) (st : St) : Prop := st.flag = true → st.log = st.frozen ∧ st.val = c.v

def Good (c : Cfg) (r : Outcome × St) : Prop :=
  Inv c r.2 ∧ (∀ v, r.1 = .intr v → r.2.flag = true ∧ r.2.val = v)

theorem Inv.of_eq {c : Cfg} {st st' : St} (h : Inv c st) (hf : st'.flag = st.flag) (hl : st'.log = st.log)
    (hz : st'.frozen = st.frozen) (hv : st'.val = st.val) : Inv c st' := by
  intro hflag; rw [hf] at hflag; rw [hl, hz, hv]; exact h hflag

theorem Inv.of_false {c : Cfg} {st : St} (h : st.flag = false) : Inv c st := by
  intro hf; rw [h] at hf; cases hf

theorem Good.poll {c : Cfg} {st : St} (h : Inv c st) (hf : st.flag = true) : Good c (.intr st.val, st) :=
  ⟨h, fun _ hv => by cases hv; exact ⟨hf, rfl⟩⟩

theorem Good.plain {c : Cfg} {o : Outcome} {st : St} (h : Inv c st) (ho : ∀ v, o ≠ .intr v) : Good c (o, st) :=
  ⟨h, fun v hv => absurd hv (ho v)⟩

/-- changing only the stacks keeps `Good` -/
theorem Good.restack {c : Cfg} {r : Outcome × St} (h : Good c r) (o : Outcome) (st' : St)
    (ho : ∀ v, o = .intr v → r.1 = .intr v)
    (hf : st'.flag = r.2.flag) (hl : st'.log = r.2.log) (hz : st'.frozen = r.2.frozen) (hv : st'.val = r.2.val) :
    Good c (o, st') := by
  refine ⟨h.1.of_eq hf hl hz hv, fun v hvv => ?_⟩
  have := h.2 v (ho v hvv)
  exact ⟨by rw [hf]; exact this.1, by rw [hv]; exact this.2⟩

structure IH2 (n : Nat) : Prop where
  exec : ∀ c s st, Inv c st → Good c (exec n c s st)
  block : ∀ c b st, Inv c st → Good c (execBlock n c b st)
  loop : ∀ c k b st, Inv c st → Good c (execLoop n c k b st)
  frame : ∀ c g i t b st, Inv c st → Good c (execFrame n c g i t b st)
  native : ∀ c g i t k b st, Inv c st → Good c (execNative n c g i t k b st)
  forOf : ∀ c i k brk nx b rt st, Inv c st → Good c (execForOf n c i k brk nx b rt st)

theorem ih2_zero : IH2 0 := by
  constructor <;> intros <;> simp only [exec, execBlock, execLoop, execFrame, execNative, execForOf] <;>
    exact Good.plain (by assumption) (by intro v h; cases h)

theorem good_block_succ {n : Nat} (ih : IH2 n) (c : Cfg) (b : List Stmt) (st : St) (hI : Inv c st) :
    Good c (execBlock (n + 1) c b st) := by
  cases b with
  | nil =>
    simp only [execBlock]; split
    · rename_i hf; exact Good.poll hI hf
    · exact Good.plain hI (by intro v h; cases h)
  | cons s rest =>
    simp only [execBlock]
    have h1 := ih.exec c s st hI
    split
    · exact ih.block c rest _ h1.1
    · exact h1

theorem good_loop_succ {n : Nat} (ih : IH2 n) (c : Cfg) (k : Nat) (b : List Stmt) (st : St) (hI : Inv c st) :
    Good c (execLoop (n + 1) c k b st) := by
  cases k with
  | zero => simp only [execLoop]; exact Good.plain hI (by intro v h; cases h)
  | succ k =>
    simp only [execLoop]
    have h1 := ih.block c b st hI
    split
    · exact ih.loop c k b _ h1.1
    · exact h1

theorem inv_enterFrame {c : Cfg} {st : St} (g : Bool) (hI : Inv c st) : Inv c (enterFrame g st) := by
  cases g <;> exact hI.of_eq rfl rfl rfl rfl

theorem good_frame_succ {n : Nat} (ih : IH2 n) (c : Cfg) (g i t : Bool) (b : List Stmt) (st : St) (hI : Inv c st) :
    Good c (execFrame (n + 1) c g i t b st) := by
  simp only [execFrame]
  have hb := ih.block c b (enterFrame g st) (inv_enterFrame g hI)
  generalize execBlock n c b (enterFrame g st) = r at hb ⊢
  obtain ⟨o, st1⟩ := r
  cases o with
  | normal => exact hb.restack _ _ (by intro v h; cases h) rfl rfl rfl rfl
  | thrown => exact hb.restack _ _ (by intro v h; cases t <;> simp at h) rfl rfl rfl rfl
  | oof => exact hb
  | intr v =>
    cases g with
    | true => simp only [if_true]; exact hb.restack _ _ (fun _ h => h) rfl rfl rfl rfl
    | false =>
      simp only [Bool.false_eq_true, if_false]
      cases i with
      | true => simp only [if_true]; exact hb.restack _ _ (by intro v h; cases h) rfl rfl rfl rfl
      | false => simp only [Bool.false_eq_true, if_false]; exact hb.restack _ _ (fun _ h => h) rfl rfl rfl rfl

theorem good_native_succ {n : Nat} (ih : IH2 n) (c : Cfg) (g i t : Bool) (k : Nat) (b : List Stmt) (st : St)
    (hI : Inv c st) : Good c (execNative (n + 1) c g i t k b st) := by
  cases k with
  | zero => simp only [execNative]; exact Good.plain hI (by intro v h; cases h)
  | succ k =>
    simp only [execNative]
    have h1 := ih.frame c g i t b st hI
    split
    · exact ih.native c g i t k b _ h1.1
    · exact h1

theorem good_forOf_succ {n : Nat} (ih : IH2 n) (c : Cfg) (i k : Nat) (brk : Bool) (nx b rt : List Stmt) (st : St)
    (hI : Inv c st) : Good c (execForOf (n + 1) c i k brk nx b rt st) := by
  simp only [execForOf]
  have h1 := ih.frame c false false false nx st hI
  split
  · split
    · have h2 := ih.block c b _ h1.1
      split
      · split
        · exact ih.frame c false false false rt _ h2.1
        · exact ih.forOf c (i + 1) k brk nx b rt _ h2.1
      · split
        · have h3 := ih.frame c false false false rt _ h2.1
          split
          · exact h3
          · exact Good.plain h3.1 (by intro v h; cases h)
        · exact h2
    · exact h1
  · exact h1

theorem inv_doProbe {c : Cfg} {st : St} (hf : st.flag = false) : Inv c (doProbe c st) := by
  simp only [doProbe]
  split
  · intro _; exact ⟨rfl, rfl⟩
  · exact Inv.of_false hf

theorem good_exec_succ {n : Nat} (ih : IH2 n) (c : Cfg) (s : Stmt) (st : St) (hI : Inv c st) :
    Good c (exec (n + 1) c s st) := by
  simp only [exec]
  split
  · rename_i hf; exact Good.poll hI hf
  · rename_i hnf
    have hff : st.flag = false := by cases h : st.flag <;> simp [h] at hnf ⊢
    have hI' : Inv c { st with execs := st.execs + 1 } := Inv.of_false hff
    cases s with
    | log k => exact Good.plain (Inv.of_false hff) (by intro v h; cases h)
    | probe => exact Good.plain (inv_doProbe hff) (by intro v h; cases h)
    | throw => exact Good.plain hI' (by intro v h; cases h)
    | enqueue j => exact Good.plain (Inv.of_false hff) (by intro v h; cases h)
    | loop k b => exact ih.loop c k b _ hI'
    | native g i t k b => exact ih.native c g i t k b _ hI'
    | forOf k brk nx b rt => exact ih.forOf c 0 k brk nx b rt _ hI'
    | tryc hc hf body cat fin =>
      simp only []
      generalize hr1 : execBlock n c body _ = r1
      have hb : Good c r1 := hr1 ▸ ih.block c body _ (Inv.of_false hff)
      split
      · exact hb
      · generalize hr2 : (if r1.1 = Outcome.thrown ∧ hc = true then execBlock n c cat _ else (r1.1, _)) = r2
        have hb2 : Good c r2 := by
          subst hr2
          split
          · exact ih.block c cat _ (hb.1.of_eq rfl rfl rfl rfl)
          · rename_i hna _
            exact Good.plain (hb.1.of_eq rfl rfl rfl rfl) (by intro v h; simp [h, Outcome.isAbort] at hna)
        split
        · exact hb2
        · rename_i hna2
          split
          · have hb3 := ih.block c fin r2.2 hb2.1
            split
            · exact Good.plain hb3.1 (by intro v h; simp [h, Outcome.isAbort] at hna2)
            · exact hb3
          · exact hb2

theorem ih2_succ {n : Nat} (ih : IH2 n) : IH2 (n + 1) where
  exec := good_exec_succ ih
  block := good_block_succ ih
  loop := good_loop_succ ih
  frame := good_frame_succ ih
  native := good_native_succ ih
  forOf := good_forOf_succ ih

theorem ih2_all (n : Nat) : IH2 n := by
  induction n with
  | zero => exact ih2_zero
  | succ n ih => exact ih2_succ ih

theorem runJobs_good (n : Nat) : ∀ (c : Cfg) (batch : List (List Stmt)) (st : St), Inv c st → Good c (runJobs n c batch st) := by
  induction n with
  | zero => intro c batch st hI; simp only [runJobs]; exact Good.plain hI (by intro v h; cases h)
  | succ n ih =>
    intro c batch st hI
    cases batch with
    | nil =>
      simp only [runJobs]
      split
      · exact Good.plain hI (by intro v h; cases h)
      · exact ih c _ _ (hI.of_eq rfl rfl rfl rfl)
    | cons job batch =>
      simp only [runJobs]
      have h1 := (ih2_all n).frame c false false true job st hI
      split
      · exact ih c batch _ h1.1
      · exact h1

end GojaModel.C15
