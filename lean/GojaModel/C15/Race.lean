/-
  C15 — ClearInterrupt racing Interrupt, and several interrupting goroutines.  Everything here is about ARBITRARY
  executions of the interleaving model `Conc` from its initial state: any number of interrupting goroutines, their four
  atomic actions interleaved anywhere, ClearInterrupt (`clear`, an unlocked atomic store of 0) at any moment, the runner
  anywhere.  Proved as invariants by induction on the execution:
    * mutual exclusion of interruptLock (`Mutex`);
    * provenance (`Prov`): a value the runner has read, is raising, or has returned was written by some Interrupt;
    * and, with `ValInv` (Lemmas.lean): a set flag always has a value, and that value is the LAST one written.
-/
import GojaModel.C15.Lemmas

namespace GojaModel.C15.Conc

/-- interruptLock: who is inside a critical section holds it -/
structure Mutex (s : S) : Prop where
  m1 : ∀ t, s.ipc t ≠ .idle → s.lock = some (t + 1)
  m2 : (s.rpc = .haveLock ∨ ∃ v, s.rpc = .gotVal v) → s.lock = some 0

theorem Mutex.free {s : S} (h : Mutex s) (hl : s.lock = none) : ∀ t, s.ipc t = .idle := by
  intro t
  by_cases hi : s.ipc t = .idle
  · exact hi
  · have := h.m1 t hi; rw [hl] at this; cases this

/-- while the runner holds the lock no Interrupt call is inside its critical section -/
theorem Mutex.runner_excludes {s : S} (h : Mutex s) (hr : s.rpc = .haveLock ∨ ∃ v, s.rpc = .gotVal v) :
    ∀ t, s.ipc t = .idle := by
  intro t
  by_cases hi : s.ipc t = .idle
  · exact hi
  · have a := h.m1 t hi; have b := h.m2 hr; rw [b] at a; cases a

/-- at most one Interrupt call is inside its critical section -/
theorem Mutex.unique {s : S} (h : Mutex s) {t t' : Nat} (ht : s.ipc t ≠ .idle) (ht' : s.ipc t' ≠ .idle) : t = t' := by
  have a := h.m1 t ht; have b := h.m1 t' ht'; rw [a] at b; simpa using b

theorem mutex_init : Mutex init := ⟨fun t h => absurd rfl h, by intro h; rcases h with h | ⟨v, h⟩ <;> cases h⟩

theorem setI_ne (f : Nat → IPc) (t t' : Nat) (x : IPc) (h : t' ≠ t) : setI f t x t' = f t' := by simp [setI, h]
theorem setI_eq (f : Nat → IPc) (t : Nat) (x : IPc) : setI f t x t = x := by simp [setI]

/-- a step that changes neither lock nor interrupters and does not put the runner at haveLock/gotVal -/
theorem Mutex.keep {s s' : S} (h : Mutex s) (hl : s'.lock = s.lock) (hi : s'.ipc = s.ipc)
    (hr : (s'.rpc = .haveLock ∨ ∃ v, s'.rpc = .gotVal v) → (s.rpc = .haveLock ∨ ∃ v, s.rpc = .gotVal v)) : Mutex s' :=
  ⟨fun t ht => by rw [hl]; exact h.m1 t (by rw [← hi]; exact ht), fun hh => by rw [hl]; exact h.m2 (hr hh)⟩

theorem step_mutex {s s' : S} {l : Label} (h : step s l = some s') (M : Mutex s) : Mutex s' := by
  cases l <;> simp only [step] at h
  case iLock t v =>
    split at h <;> simp at h; subst h; rename_i hc
    have fr := M.free hc.2
    refine ⟨?_, ?_⟩
    · intro t' ht'
      by_cases e : t' = t
      · subst e; rfl
      · exact absurd (by show setI s.ipc t (IPc.locked v) t' = IPc.idle; rw [setI_ne _ _ _ _ e]; exact fr t') ht'
    · intro hh; have := M.m2 hh; rw [hc.2] at this; cases this
  case iWrite t =>
    split at h <;> simp at h; subst h; rename_i v hv
    refine ⟨?_, M.m2⟩
    intro t' ht'
    by_cases e : t' = t
    · subst e; exact M.m1 _ (by rw [hv]; simp)
    · exact M.m1 t' (by intro hi; apply ht'; show setI s.ipc t (IPc.wrote v) t' = IPc.idle; rw [setI_ne _ _ _ _ e]; exact hi)
  case iStore t =>
    split at h <;> simp at h; subst h; rename_i v hv
    refine ⟨?_, M.m2⟩
    intro t' ht'
    by_cases e : t' = t
    · subst e; exact M.m1 _ (by rw [hv]; simp)
    · exact M.m1 t' (by intro hi; apply ht'; show setI s.ipc t IPc.stored t' = IPc.idle; rw [setI_ne _ _ _ _ e]; exact hi)
  case iUnlock t =>
    split at h <;> simp at h; subst h; rename_i hv
    have lt := M.m1 t (by rw [hv]; simp)
    refine ⟨?_, ?_⟩
    · intro t' ht'
      by_cases e : t' = t
      · subst e; exact absurd (setI_eq _ _ _) ht'
      · have : s.ipc t' ≠ .idle := by
          intro hi; apply ht'; show setI s.ipc t IPc.idle t' = IPc.idle; rw [setI_ne _ _ _ _ e]; exact hi
        have l' := M.m1 t' this; rw [lt] at l'; exact absurd (by simpa using l') (Ne.symm e)
    · intro hh; have := M.m2 hh; rw [lt] at this; simp at this
  case clear => simp at h; subst h; exact M.keep rfl rfl id
  case rCall =>
    split at h <;> simp at h; subst h
    exact M.keep rfl rfl (by intro hh; rcases hh with hh | ⟨v, hh⟩ <;> simp at hh)
  case rPoll =>
    split at h <;> simp at h; subst h
    exact M.keep rfl rfl (by intro hh; rcases hh with hh | ⟨v, hh⟩ <;> (split at hh <;> simp at hh))
  case rInstr enq =>
    split at h <;> simp at h; subst h
    exact M.keep rfl rfl (by intro hh; rcases hh with hh | ⟨v, hh⟩ <;> simp at hh)
  case rInstrEnter =>
    split at h <;> simp at h; subst h
    exact M.keep rfl rfl (by intro hh; rcases hh with hh | ⟨v, hh⟩ <;> simp at hh)
  case rHalt =>
    split at h
    · split at h <;> simp at h <;> subst h <;>
        exact M.keep rfl rfl (by intro hh; rcases hh with hh | ⟨v, hh⟩ <;> simp at hh)
    · simp at h
  case rReenter =>
    split at h <;> simp at h; subst h
    exact M.keep rfl rfl (by intro hh; rcases hh with hh | ⟨v, hh⟩ <;> simp at hh)
  case rNativeRet =>
    split at h
    · split at h <;> simp at h <;> subst h <;>
        exact M.keep rfl rfl (by intro hh; rcases hh with hh | ⟨v, hh⟩ <;> simp at hh)
    · simp at h
  case rJob =>
    split at h <;> simp at h; subst h
    exact M.keep rfl rfl (by intro hh; rcases hh with hh | ⟨v, hh⟩ <;> simp at hh)
  case rLeaveDone =>
    split at h <;> simp at h; subst h
    exact M.keep rfl rfl (by intro hh; rcases hh with hh | ⟨v, hh⟩ <;> simp at hh)
  case rLock =>
    split at h <;> simp at h; subst h; rename_i hc
    have fr := M.free hc.2
    exact ⟨fun t ht => absurd (fr t) ht, fun _ => rfl⟩
  case rRead =>
    split at h <;> simp at h; subst h; rename_i hc
    exact ⟨M.m1, fun _ => M.m2 (Or.inl hc)⟩
  case rUnlock =>
    split at h <;> simp at h; subst h; rename_i v hv
    have fr := M.runner_excludes (Or.inr ⟨v, hv⟩)
    exact ⟨fun t ht => absurd (fr t) ht, by intro hh; rcases hh with hh | ⟨w, hh⟩ <;> simp at hh⟩
  case rUnwind =>
    split at h
    · split at h <;> simp at h; subst h
      exact M.keep rfl rfl (by intro hh; rcases hh with hh | ⟨v, hh⟩ <;> simp at hh)
    · simp at h
  case rSwallow =>
    split at h
    · split at h <;> simp at h; subst h
      exact M.keep rfl rfl (by intro hh; rcases hh with hh | ⟨v, hh⟩ <;> simp at hh)
    · simp at h
  case rReturn =>
    split at h
    · split at h <;> simp at h; subst h
      exact M.keep rfl rfl (by intro hh; rcases hh with hh | ⟨v, hh⟩ <;> simp at hh)
    · simp at h
  case rCtl =>
    split at h <;> simp at h <;> subst h <;>
      exact M.keep rfl rfl (by intro hh; rcases hh with hh | ⟨v, hh⟩ <;> simp at hh)
  case rExit =>
    split at h <;> simp at h; subst h
    exact M.keep rfl rfl (by intro hh; rcases hh with hh | ⟨v, hh⟩ <;> simp at hh)

theorem run_mutex {ls : List Label} : ∀ {s s' : S}, run s ls = some s' → Mutex s → Mutex s' := by
  induction ls with
  | nil => intro s s' h M; simp [run] at h; subst h; exact M
  | cons l ls ih =>
    intro s s' h M
    simp only [run] at h
    split at h
    · rename_i s1 h1; exact ih h (step_mutex h1 M)
    · simp at h

/-! ### provenance of the values -/

/-- what the runner holds or has returned was written by some Interrupt -/
structure Prov (s : S) : Prop where
  got : ∀ v, (s.rpc = .gotVal v ∨ s.rpc = .raised v) → v ∈ s.hist
  res : ∀ v, s.result = some v → v ∈ s.hist

theorem prov_init : Prov init := by
  constructor
  · intro v h; rcases h with h | h <;> simp [init] at h
  · intro v h; simp [init] at h

theorem mem_of_getLast? {l : List Nat} {a : Nat} (h : l.getLast? = some a) : a ∈ l := by
  rw [List.getLast?_eq_some_iff] at h
  obtain ⟨ys, rfl⟩ := h
  simp

/-- a step after which the runner holds no new value, the result is no new value, and the history only grew -/
theorem Prov.keep {s s' : S} (P : Prov s) (hh : ∃ ws, s'.hist = s.hist ++ ws)
    (hr : ∀ v, (s'.rpc = .gotVal v ∨ s'.rpc = .raised v) → (s.rpc = .gotVal v ∨ s.rpc = .raised v))
    (hres : ∀ v, s'.result = some v → s.result = some v) : Prov s' := by
  obtain ⟨ws, hw⟩ := hh
  exact ⟨fun v h => by rw [hw]; exact List.mem_append_left _ (P.got v (hr v h)),
         fun v h => by rw [hw]; exact List.mem_append_left _ (P.res v (hres v h))⟩

theorem step_prov {s s' : S} {l : Label} (h : step s l = some s') (I : ValInv s) (P : Prov s) : Prov s' := by
  cases l <;> simp only [step] at h
  case iLock t v => split at h <;> simp at h; subst h; exact P.keep ⟨[], by simp⟩ (fun _ h => h) (fun _ h => h)
  case iWrite t => split at h <;> simp at h; subst h; exact P.keep ⟨_, rfl⟩ (fun _ h => h) (fun _ h => h)
  case iStore t => split at h <;> simp at h; subst h; exact P.keep ⟨[], by simp⟩ (fun _ h => h) (fun _ h => h)
  case iUnlock t => split at h <;> simp at h; subst h; exact P.keep ⟨[], by simp⟩ (fun _ h => h) (fun _ h => h)
  case clear => simp at h; subst h; exact P.keep ⟨[], by simp⟩ (fun _ h => h) (fun _ h => h)
  case rCall =>
    split at h <;> simp at h; subst h
    exact P.keep ⟨[], by simp⟩ (by intro v hh; rcases hh with hh | hh <;> simp at hh) (by intro v hh; simp at hh)
  case rPoll =>
    split at h <;> simp at h; subst h
    exact P.keep ⟨[], by simp⟩ (by intro v hh; rcases hh with hh | hh <;> (split at hh <;> simp at hh)) (fun _ h => h)
  case rInstr enq =>
    split at h <;> simp at h; subst h
    exact P.keep ⟨[], by simp⟩ (by intro v hh; rcases hh with hh | hh <;> simp at hh) (fun _ h => h)
  case rInstrEnter =>
    split at h <;> simp at h; subst h
    exact P.keep ⟨[], by simp⟩ (by intro v hh; rcases hh with hh | hh <;> simp at hh) (fun _ h => h)
  case rHalt =>
    split at h
    · split at h <;> simp at h <;> subst h <;>
        exact P.keep ⟨[], by simp⟩ (by intro v hh; rcases hh with hh | hh <;> simp at hh) (fun _ h => h)
    · simp at h
  case rReenter =>
    split at h <;> simp at h; subst h
    exact P.keep ⟨[], by simp⟩ (by intro v hh; rcases hh with hh | hh <;> simp at hh) (fun _ h => h)
  case rNativeRet =>
    split at h
    · split at h <;> simp at h <;> subst h <;>
        exact P.keep ⟨[], by simp⟩ (by intro v hh; rcases hh with hh | hh <;> simp at hh) (fun _ h => h)
    · simp at h
  case rJob =>
    split at h <;> simp at h; subst h
    exact P.keep ⟨[], by simp⟩ (by intro v hh; rcases hh with hh | hh <;> simp at hh) (fun _ h => h)
  case rLeaveDone =>
    split at h <;> simp at h; subst h
    exact P.keep ⟨[], by simp⟩ (by intro v hh; rcases hh with hh | hh <;> simp at hh) (fun _ h => h)
  case rLock =>
    split at h <;> simp at h; subst h
    exact P.keep ⟨[], by simp⟩ (by intro v hh; rcases hh with hh | hh <;> simp at hh) (fun _ h => h)
  case rRead =>
    split at h <;> simp at h; subst h; rename_i hc
    have hne := I.runnerNE (Or.inr hc)
    have hm := mem_of_getLast? (I.last hne)
    refine ⟨?_, P.res⟩
    intro v hh
    rcases hh with hh | hh <;> simp at hh
    subst hh; exact hm
  case rUnlock =>
    split at h <;> simp at h; subst h; rename_i v hv
    refine ⟨?_, P.res⟩
    intro w hh
    rcases hh with hh | hh <;> simp at hh
    subst hh; exact P.got _ (Or.inl hv)
  case rUnwind =>
    split at h
    · rename_i v hv
      split at h <;> simp at h; subst h
      exact P.keep ⟨[], by simp⟩ (by intro w hh; rcases hh with hh | hh <;> simp at hh; subst hh; exact Or.inr hv) (fun _ h => h)
    · simp at h
  case rSwallow =>
    split at h
    · split at h <;> simp at h; subst h
      exact P.keep ⟨[], by simp⟩ (by intro v hh; rcases hh with hh | hh <;> simp at hh) (fun _ h => h)
    · simp at h
  case rReturn =>
    split at h
    · rename_i v hv
      split at h <;> simp at h; subst h
      refine ⟨by intro w hh; rcases hh with hh | hh <;> simp at hh, ?_⟩
      intro w hh; simp at hh; subst hh; exact P.got _ (Or.inr hv)
    · simp at h
  case rCtl =>
    split at h <;> simp at h <;> subst h <;>
      exact P.keep ⟨[], by simp⟩ (by intro v hh; rcases hh with hh | hh <;> simp at hh) (fun _ h => h)
  case rExit =>
    split at h <;> simp at h; subst h
    exact P.keep ⟨[], by simp⟩ (by intro v hh; rcases hh with hh | hh <;> simp at hh) (fun _ h => h)

/-- all three invariants along any execution -/
structure RaceInv (s : S) : Prop where
  val : ValInv s
  mutex : Mutex s
  prov : Prov s

theorem raceInv_init : RaceInv init := ⟨valInv_init, mutex_init, prov_init⟩

theorem run_raceInv {ls : List Label} : ∀ {s s' : S}, run s ls = some s' → RaceInv s → RaceInv s' := by
  induction ls with
  | nil => intro s s' h R; simp [run] at h; subst h; exact R
  | cons l ls ih =>
    intro s s' h R
    simp only [run] at h
    split at h
    · rename_i s1 h1
      exact ih h ⟨step_valInv h1 R.val, step_mutex h1 R.mutex, step_prov h1 R.val R.prov⟩
    · simp at h

/-! ### every written value is the argument of an Interrupt call of the execution -/

theorem step_hist_ipc {s s' : S} {l : Label} (h : step s l = some s') :
    (∀ v, v ∈ s'.hist → v ∈ s.hist ∨ ∃ t, s.ipc t = .locked v) ∧
    (∀ t v, s'.ipc t = .locked v → s.ipc t = .locked v ∨ l = .iLock t v) := by
  cases l <;> simp only [step] at h
  case iLock t v =>
    split at h <;> simp at h; subst h
    refine ⟨fun w hw => Or.inl hw, ?_⟩
    intro t' w ht'
    dsimp only at ht'
    by_cases e : t' = t
    · subst e; rw [show setI s.ipc t' (IPc.locked v) t' = IPc.locked v from setI_eq _ _ _] at ht'
      right; cases ht'; rfl
    · left; rw [show setI s.ipc t (IPc.locked v) t' = s.ipc t' from setI_ne _ _ _ _ e] at ht'; exact ht'
  case iWrite t =>
    split at h <;> simp at h; subst h; rename_i v hv
    refine ⟨?_, ?_⟩
    · intro w hw
      rcases List.mem_append.mp hw with hw | hw
      · exact Or.inl hw
      · simp at hw; subst hw; exact Or.inr ⟨t, hv⟩
    · intro t' w ht'
      dsimp only at ht'
      by_cases e : t' = t
      · subst e; rw [show setI s.ipc t' (IPc.wrote v) t' = IPc.wrote v from setI_eq _ _ _] at ht'; cases ht'
      · left; rw [show setI s.ipc t (IPc.wrote v) t' = s.ipc t' from setI_ne _ _ _ _ e] at ht'; exact ht'
  case iStore t =>
    split at h <;> simp at h; subst h
    refine ⟨fun w hw => Or.inl hw, ?_⟩
    intro t' w ht'
    dsimp only at ht'
    by_cases e : t' = t
    · subst e; rw [show setI s.ipc t' IPc.stored t' = IPc.stored from setI_eq _ _ _] at ht'; cases ht'
    · left; rw [show setI s.ipc t IPc.stored t' = s.ipc t' from setI_ne _ _ _ _ e] at ht'; exact ht'
  case iUnlock t =>
    split at h <;> simp at h; subst h
    refine ⟨fun w hw => Or.inl hw, ?_⟩
    intro t' w ht'
    dsimp only at ht'
    by_cases e : t' = t
    · subst e; rw [show setI s.ipc t' IPc.idle t' = IPc.idle from setI_eq _ _ _] at ht'; cases ht'
    · left; rw [show setI s.ipc t IPc.idle t' = s.ipc t' from setI_ne _ _ _ _ e] at ht'; exact ht'
  all_goals
    ((repeat' split at h) <;> simp at h <;> (try subst h) <;>
      exact ⟨fun v hv => Or.inl hv, fun t v ht => Or.inl ht⟩)

theorem run_hist_from_calls {ls : List Label} : ∀ {s s' : S}, run s ls = some s' →
    (∀ v, v ∈ s'.hist → v ∈ s.hist ∨ (∃ t, s.ipc t = .locked v) ∨ ∃ t, Label.iLock t v ∈ ls) ∧
    (∀ t v, s'.ipc t = .locked v → s.ipc t = .locked v ∨ Label.iLock t v ∈ ls) := by
  induction ls with
  | nil => intro s s' h; simp [run] at h; subst h; exact ⟨fun v hv => Or.inl hv, fun t v ht => Or.inl ht⟩
  | cons l ls ih =>
    intro s s' h
    simp only [run] at h
    cases hs : step s l with
    | none => simp [hs] at h
    | some s1 =>
      simp only [hs] at h
      have o := step_hist_ipc hs
      have r := ih h
      refine ⟨?_, ?_⟩
      · intro v hv
        rcases r.1 v hv with a | ⟨t, a⟩ | ⟨t, a⟩
        · rcases o.1 v a with b | b
          · exact Or.inl b
          · exact Or.inr (Or.inl b)
        · rcases o.2 t v a with b | b
          · exact Or.inr (Or.inl ⟨t, b⟩)
          · exact Or.inr (Or.inr ⟨t, by rw [b]; exact List.mem_cons_self⟩)
        · exact Or.inr (Or.inr ⟨t, List.mem_cons_of_mem _ a⟩)
      · intro t v ht
        rcases r.2 t v ht with a | a
        · rcases o.2 t v a with b | b
          · exact Or.inl b
          · exact Or.inr (by rw [b]; exact List.mem_cons_self)
        · exact Or.inr (List.mem_cons_of_mem _ a)

/-! ### normal form for several interrupting goroutines: the history is the list of Interrupt arguments in lock order -/

/-- the arguments of the Interrupt calls of an execution, in the order in which they took interruptLock -/
def lockArgs : List Label → List Nat
  | [] => []
  | .iLock _ v :: ls => v :: lockArgs ls
  | _ :: ls => lockArgs ls

def isIL : Label → Bool
  | .iLock _ _ => true
  | .iWrite _ => true
  | .iStore _ => true
  | .iUnlock _ => true
  | _ => false

theorem lockArgs_nonI (l : Label) (ls : List Label) (h : isIL l = false) : lockArgs (l :: ls) = lockArgs ls := by
  cases l <;> simp [isIL] at h <;> rfl

theorem step_nonI_keeps {s s' : S} {l : Label} (h : step s l = some s') (hl : isIL l = false) :
    s'.hist = s.hist ∧ s'.ipc = s.ipc := by
  cases l <;> simp [isIL] at hl <;> simp only [step] at h <;> (repeat' split at h) <;> simp at h <;>
    (try subst h) <;> exact ⟨rfl, rfl⟩

/-- `L` lists the arguments of the calls that have taken the lock so far: the written ones are `hist`, plus the one that
    holds the lock but has not written yet -/
def Rep (s : S) (L : List Nat) : Prop :=
  (∃ t v, s.ipc t = .locked v ∧ L = s.hist ++ [v]) ∨ ((∀ t v, s.ipc t ≠ .locked v) ∧ L = s.hist)

theorem step_rep {s s' : S} {l : Label} (h : step s l = some s') (M : Mutex s) {L : List Nat} (R : Rep s L) :
    Rep s' (L ++ lockArgs [l]) := by
  by_cases hl : isIL l = false
  · have k := step_nonI_keeps h hl
    have e : lockArgs [l] = [] := by rw [lockArgs_nonI l [] hl]; rfl
    rw [e, List.append_nil]
    rcases R with ⟨t, v, a, b⟩ | ⟨a, b⟩
    · exact Or.inl ⟨t, v, by rw [k.2]; exact a, by rw [k.1]; exact b⟩
    · exact Or.inr ⟨by rw [k.2]; exact a, by rw [k.1]; exact b⟩
  · cases l <;> simp [isIL] at hl <;> simp only [step] at h
    case iLock t v =>
      split at h <;> simp at h; subst h; rename_i hc
      have fr := M.free hc.2
      rcases R with ⟨t0, v0, a, _⟩ | ⟨_, b⟩
      · rw [fr t0] at a; cases a
      · exact Or.inl ⟨t, v, setI_eq _ _ _, by simp [lockArgs, b]⟩
    case iWrite t =>
      split at h <;> simp at h; subst h; rename_i v hv
      have hne : s.ipc t ≠ .idle := by rw [hv]; simp
      rcases R with ⟨t0, v0, a, b⟩ | ⟨a, _⟩
      · have e : t0 = t := M.unique (by rw [a]; simp) hne
        subst e; rw [hv] at a; cases a
        refine Or.inr ⟨?_, by simp [lockArgs, b]⟩
        intro t' w ht'
        dsimp only at ht'
        by_cases e : t' = t0
        · subst e; rw [setI_eq] at ht'; cases ht'
        · rw [setI_ne _ _ _ _ e] at ht'
          exact e (M.unique (by rw [ht']; simp) hne)
      · exact absurd hv (a t v)
    case iStore t =>
      split at h <;> simp at h; subst h; rename_i v hv
      have hne : s.ipc t ≠ .idle := by rw [hv]; simp
      rcases R with ⟨t0, v0, a, _⟩ | ⟨a, b⟩
      · have e : t0 = t := M.unique (by rw [a]; simp) hne
        subst e; rw [hv] at a; cases a
      · refine Or.inr ⟨?_, by simp [lockArgs, b]⟩
        intro t' w ht'
        dsimp only at ht'
        by_cases e : t' = t
        · subst e; rw [setI_eq] at ht'; cases ht'
        · rw [setI_ne _ _ _ _ e] at ht'; exact a t' w ht'
    case iUnlock t =>
      split at h <;> simp at h; subst h; rename_i hv
      have hne : s.ipc t ≠ .idle := by rw [hv]; simp
      rcases R with ⟨t0, v0, a, _⟩ | ⟨a, b⟩
      · have e : t0 = t := M.unique (by rw [a]; simp) hne
        subst e; rw [hv] at a; cases a
      · refine Or.inr ⟨?_, by simp [lockArgs, b]⟩
        intro t' w ht'
        dsimp only at ht'
        by_cases e : t' = t
        · subst e; rw [setI_eq] at ht'; cases ht'
        · rw [setI_ne _ _ _ _ e] at ht'; exact a t' w ht'

theorem lockArgs_cons (l : Label) (ls : List Label) : lockArgs (l :: ls) = lockArgs [l] ++ lockArgs ls := by
  cases l <;> rfl

theorem run_rep {ls : List Label} : ∀ {s s' : S} {L : List Nat}, run s ls = some s' → Mutex s → Rep s L →
    Rep s' (L ++ lockArgs ls) := by
  induction ls with
  | nil => intro s s' L h _ R; simp [run] at h; subst h; simpa [lockArgs] using R
  | cons l ls ih =>
    intro s s' L h M R
    simp only [run] at h
    cases hs : step s l with
    | none => simp [hs] at h
    | some s1 =>
      simp only [hs] at h
      have r := ih h (step_mutex hs M) (step_rep hs M R)
      rw [lockArgs_cons, ← List.append_assoc]; exact r

theorem rep_init : Rep init [] := Or.inr ⟨by intro t v h; simp [init] at h, rfl⟩

/-! ### the flag cell: its value is the last write in interleaving order -/

/-- what an action writes to `interrupted`, if anything: Interrupt's store 1; ClearInterrupt and leaveAbrupt 0 -/
def flagWrite : Label → Option Bool
  | .iStore _ => some true
  | .clear => some false
  | .rReturn => some false
  | _ => none

def lastFlagWrite : List Label → Option Bool
  | [] => none
  | l :: ls =>
    match lastFlagWrite ls with
    | some b => some b
    | none => flagWrite l

theorem step_flag {s s' : S} {l : Label} (h : step s l = some s') : s'.flag = (flagWrite l).getD s.flag := by
  cases l <;> simp only [step] at h <;> (repeat' split at h) <;> simp at h <;> (try subst h) <;> rfl

theorem run_flag {ls : List Label} : ∀ {s s' : S}, run s ls = some s' → s'.flag = (lastFlagWrite ls).getD s.flag := by
  induction ls with
  | nil => intro s s' h; simp [run] at h; subst h; rfl
  | cons l ls ih =>
    intro s s' h
    simp only [run] at h
    cases hs : step s l with
    | none => simp [hs] at h
    | some s1 =>
      simp only [hs] at h
      have a := step_flag hs
      have b := ih h
      simp only [lastFlagWrite]
      cases hl : lastFlagWrite ls with
      | some v => rw [hl] at b; simpa using b
      | none => rw [hl] at b; simp only [Option.getD_none] at b; rw [b, a]

end GojaModel.C15.Conc
