/-
  C15 — the formal join of the two models: the sequential interpreter (Model.lean) emits, as a ghost, the list of
  actions of the interleaving model (Conc.lean) that it performs — its own polls, instructions, lock/read/unlock,
  control steps, and the four atomic actions of every Interrupt call (goroutine 0 = the runner inside probe(),
  goroutine 1 = another goroutine whose Interrupt completes just before a given poll).  This file proves, by
  simultaneous induction over the whole interpreter, that this list IS an execution of `Conc` (every action is enabled
  when it is taken) and that the two states agree on the shared cells and on where the runner is.
-/
import GojaModel.C15.Lemmas

namespace GojaModel.C15
open GojaModel.C15.Conc

/-- agreement between a state of the interleaving model and a state of the interpreter -/
def Rel (s : S) (st : St) : Prop :=
  s.flag = st.flag ∧ s.val = st.val ∧ s.lock = none ∧ (∀ t, s.ipc t = .idle) ∧ s.depth = 0

/-- the trace emitted so far is an execution of `Conc` from `s0`, ending in agreement, with the runner at `p` -/
def At (s0 : S) (st : St) (p : RPc) : Prop := ∃ s, run s0 st.tr = some s ∧ Rel s st ∧ s.rpc = p

abbrev Live (s0 : S) (st : St) : Prop := At s0 st .poll
abbrev Armed (s0 : S) (st : St) : Prop := At s0 st .exec
abbrev Dead (s0 : S) (st : St) (v : Nat) : Prop := At s0 st (.raised v)

def Sim (s0 : S) (r : Outcome × St) : Prop :=
  ((r.1 = .normal ∨ r.1 = .thrown) → Live s0 r.2) ∧ (∀ v, r.1 = .intr v → Dead s0 r.2 v)

theorem At.congr {s0 : S} {st st' : St} {p : RPc} (h : At s0 st p) (htr : st'.tr = st.tr) (hf : st'.flag = st.flag)
    (hv : st'.val = st.val) : At s0 st' p := by
  obtain ⟨s, hr, ⟨a, b, c, d, e⟩, hp⟩ := h
  exact ⟨s, by rw [htr]; exact hr, ⟨by rw [hf]; exact a, by rw [hv]; exact b, c, d, e⟩, hp⟩

/-- extend the execution by a list of actions -/
theorem At.steps {s0 : S} {st st' : St} {p p' : RPc} {ls : List Label} (h : At s0 st p) (htr : st'.tr = st.tr ++ ls)
    (hs : ∀ s, Rel s st → s.rpc = p → ∃ s', run s ls = some s' ∧ Rel s' st' ∧ s'.rpc = p') : At s0 st' p' := by
  obtain ⟨s, hr, hrel, hp⟩ := h
  obtain ⟨s', h1, h2, h3⟩ := hs s hrel hp
  exact ⟨s', by rw [htr, run_append, hr]; exact h1, h2, h3⟩

theorem Sim.oof (s0 : S) (st : St) : Sim s0 (.oof, st) := by
  unfold Sim
  constructor
  · intro h; rcases h with h | h <;> simp at h
  · intro v h; simp at h

theorem Sim.live {s0 : S} {o : Outcome} {st : St} (h : Live s0 st) (ho : ∀ v, o ≠ .intr v) : Sim s0 (o, st) := by
  unfold Sim
  exact ⟨fun _ => h, fun v hv => absurd hv (ho v)⟩

theorem Sim.dead {s0 : S} {st : St} {v : Nat} (h : Dead s0 st v) : Sim s0 (.intr v, st) := by
  unfold Sim
  constructor
  · intro h; rcases h with h | h <;> simp at h
  · intro w hw; simp at hw; subst hw; exact h

/-- changing fields other than the trace, the flag and the value cell -/
theorem Sim.restack {s0 : S} {r : Outcome × St} (h : Sim s0 r) (o : Outcome) (st' : St)
    (ho : (o = .normal ∨ o = .thrown) → (r.1 = .normal ∨ r.1 = .thrown)) (hi : ∀ v, o = .intr v → r.1 = .intr v)
    (htr : st'.tr = r.2.tr) (hf : st'.flag = r.2.flag) (hv : st'.val = r.2.val) : Sim s0 (o, st') := by
  unfold Sim at *
  exact ⟨fun h1 => (h.1 (ho h1)).congr htr hf hv, fun v h1 => (h.2 v (hi v h1)).congr htr hf hv⟩

/-! ### the primitive actions -/

theorem setI_same (f : Nat → IPc) (t : Nat) (x : IPc) : setI f t x t = x := by simp [setI]

/-- the four actions of Interrupt(v) by goroutine t, taken while nobody holds the lock -/
theorem run_interrupt (s : S) (t v : Nat) (hi : ∀ t, s.ipc t = .idle) (hl : s.lock = none) :
    ∃ s', run s (interruptLabels t v) = some s' ∧ s'.flag = true ∧ s'.val = v ∧ s'.lock = none ∧
      (∀ t, s'.ipc t = .idle) ∧ s'.depth = s.depth ∧ s'.rpc = s.rpc := by
  let ipc' : Nat → IPc := setI (setI (setI (setI s.ipc t (.locked v)) t (.wrote v)) t .stored) t .idle
  refine ⟨{ s with flag := true, val := v, hist := s.hist ++ [v], lock := none, ipc := ipc' }, ?_, rfl, rfl, rfl, ?_, rfl, rfl⟩
  · simp [interruptLabels, run, step, hi t, hl, setI_same, ipc']
  · intro t'
    by_cases h : t' = t
    · subst h; exact setI_same _ _ _
    · simp [ipc', setI, h, hi t']

theorem at_interrupt {s0 : S} {st st' : St} {p : RPc} (t v : Nat) (h : At s0 st p)
    (htr : st'.tr = st.tr ++ interruptLabels t v) (hf : st'.flag = true) (hv : st'.val = v) : At s0 st' p := by
  refine h.steps htr ?_
  intro s ⟨_, _, c, d, e⟩ hp
  obtain ⟨s', h1, h2, h3, h4, h5, h6, h7⟩ := run_interrupt s t v d c
  exact ⟨s', h1, ⟨by rw [h2, hf], by rw [h3, hv], h4, h5, by rw [h6, e]⟩, by rw [h7, hp]⟩

theorem live_pollStep {s0 : S} {c : Cfg} {st : St} (h : Live s0 st) : Live s0 (pollStep c st) := by
  unfold pollStep
  split
  · exact at_interrupt 1 c.v h rfl rfl rfl
  · exact h.congr rfl rfl rfl

/-- a poll that sees 1: leave the loop, lock, read, unlock, panic -/
theorem live_raise {s0 : S} {st : St} (h : Live s0 st) (hf : st.flag = true) : Dead s0 (raise st) st.val := by
  refine h.steps (p' := .raised st.val) rfl ?_
  intro s ⟨a, b, c, d, e⟩ hp
  refine ⟨{ s with rpc := .raised s.val, lock := none }, ?_, ⟨a, b, rfl, d, e⟩, by simp [b]⟩
  simp [run, step, hp, a, hf, c]

/-- a poll that sees 0 -/
theorem live_pass {s0 : S} {st : St} (h : Live s0 st) (hf : st.flag = false) : Armed s0 (pass st) := by
  refine h.steps (ls := [.rPoll]) rfl ?_
  intro s ⟨a, b, c, d, e⟩ hp
  exact ⟨{ s with rpc := .exec }, by simp [run, step, hp, a, hf], ⟨a, b, c, d, e⟩, rfl⟩

theorem armed_instr {s0 : S} {st : St} (h : Armed s0 st) : Live s0 (instr st) := by
  refine h.steps (ls := [.rInstr false]) rfl ?_
  intro s ⟨a, b, c, d, e⟩ hp
  exact ⟨{ s with rpc := .poll, execs := s.execs + 1 }, by simp [run, step, hp], ⟨a, b, c, d, e⟩, rfl⟩

theorem armed_doProbe {s0 : S} {c : Cfg} {st : St} (h : Armed s0 st) : Armed s0 (doProbe c st) := by
  simp only [doProbe]
  split
  · exact at_interrupt 0 c.v (h.congr (st' := { st with log := st.log ++ [Ev.p], probes := st.probes + 1 }) rfl rfl rfl)
      rfl rfl rfl
  · exact h.congr rfl rfl rfl

/-- end of a block: poll (sees 0), then control leaves the block without executing a further statement -/
theorem live_blockEnd {s0 : S} {st : St} (h : Live s0 st) (hf : st.flag = false) : Live s0 (emit [.rPoll, .rCtl] st) := by
  refine h.steps (ls := [.rPoll, .rCtl]) rfl ?_
  intro s ⟨a, b, c, d, e⟩ hp
  exact ⟨{ s with rpc := .poll }, by simp [run, step, hp, a, hf], ⟨a, b, c, d, e⟩, rfl⟩

/-- a Go frame swallows the error it got and goes back to its run loop -/
theorem dead_ctl {s0 : S} {st : St} {v : Nat} (h : Dead s0 st v) : Live s0 (emit [.rCtl] st) := by
  refine h.steps (ls := [.rCtl]) rfl ?_
  intro s ⟨a, b, c, d, e⟩ hp
  exact ⟨{ s with rpc := .poll }, by simp [run, step, hp], ⟨a, b, c, d, e⟩, rfl⟩

/-! ### the simulation, by simultaneous induction on fuel -/

structure IH3 (s0 : S) (n : Nat) : Prop where
  exec : ∀ c s st, Live s0 st → Sim s0 (exec n c s st)
  block : ∀ c b st, Live s0 st → Sim s0 (execBlock n c b st)
  loop : ∀ c k b st, Live s0 st → Sim s0 (execLoop n c k b st)
  frame : ∀ c g i t b st, Live s0 st → Sim s0 (execFrame n c g i t b st)
  native : ∀ c g i t k b st, Live s0 st → Sim s0 (execNative n c g i t k b st)
  forOf : ∀ c i k brk nx b rt st, Live s0 st → Sim s0 (execForOf n c i k brk nx b rt st)

theorem ih3_zero (s0 : S) : IH3 s0 0 := by
  constructor <;> intros <;> simp only [exec, execBlock, execLoop, execFrame, execNative, execForOf] <;>
    exact Sim.oof _ _

theorem Sim.next {s0 : S} {r : Outcome × St} (h : Sim s0 r) (hn : r.1 = .normal) : Live s0 r.2 := h.1 (Or.inl hn)

theorem sim_block_succ {s0 : S} {n : Nat} (ih : IH3 s0 n) (c : Cfg) (b : List Stmt) (st : St) (hL : Live s0 st) :
    Sim s0 (execBlock (n + 1) c b st) := by
  cases b with
  | nil =>
    simp only [execBlock]
    have hp := live_pollStep (c := c) hL
    split
    · rename_i hf; exact Sim.dead (live_raise hp hf)
    · rename_i hnf
      have hff : (pollStep c st).flag = false := by cases h : (pollStep c st).flag <;> simp [h] at hnf ⊢
      exact Sim.live (live_blockEnd hp hff) (by intro v h; cases h)
  | cons s rest =>
    simp only [execBlock]
    have h1 := ih.exec c s st hL
    split
    · rename_i hn; exact ih.block c rest _ (h1.next hn)
    · exact h1

theorem sim_loop_succ {s0 : S} {n : Nat} (ih : IH3 s0 n) (c : Cfg) (k : Nat) (b : List Stmt) (st : St) (hL : Live s0 st) :
    Sim s0 (execLoop (n + 1) c k b st) := by
  cases k with
  | zero => simp only [execLoop]; exact Sim.live hL (by intro v h; cases h)
  | succ k =>
    simp only [execLoop]
    have h1 := ih.block c b st hL
    split
    · rename_i hn; exact ih.loop c k b _ (h1.next hn)
    · exact h1

theorem live_enterFrame {s0 : S} {st : St} (g : Bool) (hL : Live s0 st) : Live s0 (enterFrame g st) := by
  cases g <;> exact hL.congr rfl rfl rfl

theorem sim_frame_succ {s0 : S} {n : Nat} (ih : IH3 s0 n) (c : Cfg) (g i t : Bool) (b : List Stmt) (st : St)
    (hL : Live s0 st) : Sim s0 (execFrame (n + 1) c g i t b st) := by
  simp only [execFrame]
  have hb := ih.block c b (enterFrame g st) (live_enterFrame g hL)
  generalize execBlock n c b (enterFrame g st) = r at hb ⊢
  obtain ⟨o, st1⟩ := r
  cases o with
  | normal => exact hb.restack _ _ (fun _ => Or.inl rfl) (by intro v h; cases h) rfl rfl rfl
  | thrown =>
    refine hb.restack _ _ (fun _ => Or.inr rfl) ?_ rfl rfl rfl
    intro v h; cases t <;> simp at h
  | oof => exact Sim.oof _ _
  | intr v =>
    have hd : Dead s0 st1 v := hb.2 v rfl
    cases g with
    | true => simp only [if_true]; exact Sim.dead (hd.congr rfl rfl rfl)
    | false =>
      simp only [Bool.false_eq_true, if_false]
      cases i with
      | true =>
        simp only [if_true]
        exact Sim.live (dead_ctl (hd.congr (st' := { st1 with ts := _, cs := _ }) rfl rfl rfl)) (by intro v h; cases h)
      | false => simp only [Bool.false_eq_true, if_false]; exact Sim.dead (hd.congr rfl rfl rfl)

theorem sim_native_succ {s0 : S} {n : Nat} (ih : IH3 s0 n) (c : Cfg) (g i t : Bool) (k : Nat) (b : List Stmt) (st : St)
    (hL : Live s0 st) : Sim s0 (execNative (n + 1) c g i t k b st) := by
  cases k with
  | zero => simp only [execNative]; exact Sim.live hL (by intro v h; cases h)
  | succ k =>
    simp only [execNative]
    have h1 := ih.frame c g i t b st hL
    split
    · rename_i hn; exact ih.native c g i t k b _ (h1.next hn)
    · exact h1

theorem sim_forOf_succ {s0 : S} {n : Nat} (ih : IH3 s0 n) (c : Cfg) (i k : Nat) (brk : Bool) (nx b rt : List Stmt)
    (st : St) (hL : Live s0 st) : Sim s0 (execForOf (n + 1) c i k brk nx b rt st) := by
  simp only [execForOf]
  have h1 := ih.frame c false false false nx st hL
  split
  · rename_i hn1
    split
    · have h2 := ih.block c b _ (h1.next hn1)
      split
      · rename_i hn2
        split
        · exact ih.frame c false false false rt _ (h2.next hn2)
        · exact ih.forOf c (i + 1) k brk nx b rt _ (h2.next hn2)
      · split
        · rename_i hth
          have h3 := ih.frame c false false false rt _ (h2.1 (Or.inr hth))
          split
          · exact h3
          · rename_i hna
            refine Sim.live (h3.1 ?_) (by intro v h; cases h)
            cases h : (execFrame n c false false false rt (execBlock n c b (execFrame n c false false false nx st).2).2).1 <;>
              simp [h, Outcome.isAbort] at hna ⊢
        · exact h2
    · exact h1
  · exact h1

theorem sim_exec_succ {s0 : S} {n : Nat} (ih : IH3 s0 n) (c : Cfg) (s : Stmt) (st : St) (hL : Live s0 st) :
    Sim s0 (exec (n + 1) c s st) := by
  simp only [exec]
  have hp := live_pollStep (c := c) hL
  split
  · rename_i hf; exact Sim.dead (live_raise hp hf)
  · rename_i hnf
    have hff : (pollStep c st).flag = false := by cases h : (pollStep c st).flag <;> simp [h] at hnf ⊢
    have ha : Armed s0 (pass (pollStep c st)) := live_pass hp hff
    have hl : Live s0 (instr (pass (pollStep c st))) := armed_instr ha
    cases s with
    | log k =>
      exact Sim.live (armed_instr (ha.congr (st' := { pass (pollStep c st) with log := _ }) rfl rfl rfl)) (by intro v h; cases h)
    | probe => exact Sim.live (armed_instr (armed_doProbe ha)) (by intro v h; cases h)
    | throw => exact Sim.live hl (by intro v h; cases h)
    | enqueue j =>
      exact Sim.live (armed_instr (ha.congr (st' := { pass (pollStep c st) with queue := _ }) rfl rfl rfl)) (by intro v h; cases h)
    | loop k b => exact ih.loop c k b _ hl
    | native g i t k b => exact ih.native c g i t k b _ hl
    | forOf k brk nx b rt => exact ih.forOf c 0 k brk nx b rt _ hl
    | asyncResume b =>
      simp only []
      have hf := ih.frame c true false true b { instr (pass (pollStep c st)) with car := true } (hl.congr rfl rfl rfl)
      exact hf.restack _ _ id (fun _ h => h) rfl rfl rfl
    | tryc hc hf body cat fin =>
      simp only []
      generalize hr1 : execBlock n c body _ = r1
      have hb : Sim s0 r1 := hr1 ▸ ih.block c body _ (hl.congr rfl rfl rfl)
      split
      · exact hb
      · rename_i hna1
        have hn1 : r1.1 = .normal ∨ r1.1 = .thrown := by
          cases h : r1.1 <;> simp [h, Outcome.isAbort] at hna1 ⊢
        generalize hr2 : (if r1.1 = Outcome.thrown ∧ hc = true then execBlock n c cat _ else (r1.1, _)) = r2
        have hb2 : Sim s0 r2 := by
          subst hr2
          split
          · exact ih.block c cat _ ((hb.1 hn1).congr rfl rfl rfl)
          · exact Sim.live ((hb.1 hn1).congr rfl rfl rfl) (by intro v h; simp [h, Outcome.isAbort] at hna1)
        split
        · exact hb2
        · rename_i hna2
          have hn2 : r2.1 = .normal ∨ r2.1 = .thrown := by
            cases h : r2.1 <;> simp [h, Outcome.isAbort] at hna2 ⊢
          split
          · have hb3 := ih.block c fin r2.2 (hb2.1 hn2)
            split
            · rename_i hn3
              exact Sim.live (hb3.next hn3) (by intro v h; simp [h, Outcome.isAbort] at hna2)
            · exact hb3
          · exact hb2

theorem ih3_succ {s0 : S} {n : Nat} (ih : IH3 s0 n) : IH3 s0 (n + 1) where
  exec := sim_exec_succ ih
  block := sim_block_succ ih
  loop := sim_loop_succ ih
  frame := sim_frame_succ ih
  native := sim_native_succ ih
  forOf := sim_forOf_succ ih

theorem ih3_all (s0 : S) (n : Nat) : IH3 s0 n := by
  induction n with
  | zero => exact ih3_zero s0
  | succ n ih => exact ih3_succ ih

theorem runJobs_sim (s0 : S) (n : Nat) : ∀ (c : Cfg) (batch : List (List Stmt)) (st : St), Live s0 st →
    Sim s0 (runJobs n c batch st) := by
  induction n with
  | zero => intro c batch st _; simp only [runJobs]; exact Sim.oof _ _
  | succ n ih =>
    intro c batch st hL
    cases batch with
    | nil =>
      simp only [runJobs]
      split
      · exact Sim.live hL (by intro v h; cases h)
      · exact ih c _ _ (hL.congr rfl rfl rfl)
    | cons job batch =>
      simp only [runJobs]
      have h1 := (ih3_all s0 n).frame c false false true job st hL
      split
      · rename_i hn; exact ih c batch _ (h1.next hn)
      · exact h1

/-! ### entering and leaving an outermost API call -/

theorem idle_call {s0 : S} {st st' : St} (h : At s0 st .idle) (htr : st'.tr = st.tr ++ [.rCall])
    (hf : st'.flag = st.flag) (hv : st'.val = st.val) : Live s0 st' := by
  refine h.steps htr ?_
  intro s ⟨a, b, c, d, _⟩ hp
  exact ⟨{ s with rpc := .poll, depth := 0, inLeave := false, result := none }, by simp [run, step, hp],
    ⟨by rw [hf]; exact a, by rw [hv]; exact b, c, d, rfl⟩, rfl⟩

/-- the outermost recover: leaveAbrupt (the flag is cleared) and the error is returned -/
theorem dead_return {s0 : S} {st st' : St} {v : Nat} (h : Dead s0 st v) (htr : st'.tr = st.tr ++ [.rReturn])
    (hf : st'.flag = false) (hv : st'.val = st.val) : At s0 st' .idle := by
  refine h.steps htr ?_
  intro s ⟨_, b, c, d, e⟩ hp
  exact ⟨{ s with rpc := .idle, flag := false, queue := 0, inLeave := false, result := some v }, by simp [run, step, hp, e],
    ⟨by rw [hf], by rw [hv]; exact b, c, d, e⟩, rfl⟩

theorem live_exit {s0 : S} {st st' : St} (h : Live s0 st) (htr : st'.tr = st.tr ++ [.rExit])
    (hf : st'.flag = st.flag) (hv : st'.val = st.val) : At s0 st' .idle := by
  refine h.steps htr ?_
  intro s ⟨a, b, c, d, e⟩ hp
  exact ⟨{ s with rpc := .idle }, by simp [run, step, hp], ⟨by rw [hf]; exact a, by rw [hv]; exact b, c, d, e⟩, rfl⟩

end GojaModel.C15

namespace GojaModel.C15
open GojaModel.C15.Conc

/-! ### the script part of a call emits no ClearInterrupt and no outermost recover -/

def TrQuiet (st : St) : Prop := allQuiet st.tr = true

theorem allQuiet_append (a b : List Label) : allQuiet (a ++ b) = (allQuiet a && allQuiet b) := by
  simp [allQuiet, List.all_append]

/-- the trace grew by quiet labels -/
theorem TrQuiet.ext {st st' : St} {ls : List Label} (h : TrQuiet st) (htr : st'.tr = st.tr ++ ls)
    (hl : allQuiet ls = true) : TrQuiet st' := by
  unfold TrQuiet at *; rw [htr, allQuiet_append, h, hl]; rfl

theorem TrQuiet.emit {st : St} {ls : List Label} (h : TrQuiet st) (hl : allQuiet ls = true) :
    TrQuiet (GojaModel.C15.emit ls st) := h.ext rfl hl

theorem TrQuiet.congr {st st' : St} (h : TrQuiet st) (htr : st'.tr = st.tr) : TrQuiet st' := by
  unfold TrQuiet at *; rw [htr]; exact h

theorem trQuiet_pollStep {c : Cfg} {st : St} (h : TrQuiet st) : TrQuiet (pollStep c st) := by
  unfold pollStep
  split
  · exact h.ext rfl (by rfl)
  · exact h.congr rfl

theorem trQuiet_doProbe {c : Cfg} {st : St} (h : TrQuiet st) : TrQuiet (doProbe c st) := by
  simp only [doProbe]
  split
  · exact h.ext rfl (by rfl)
  · exact h.congr rfl

theorem trQuiet_raise {st : St} (h : TrQuiet st) : TrQuiet (raise st) := h.emit (by rfl)
theorem trQuiet_pass {st : St} (h : TrQuiet st) : TrQuiet (pass st) := h.ext rfl (by rfl)
theorem trQuiet_instr {st : St} (h : TrQuiet st) : TrQuiet (instr st) := h.emit (by rfl)

structure IH5 (n : Nat) : Prop where
  exec : ∀ c s st, TrQuiet st → TrQuiet (exec n c s st).2
  block : ∀ c b st, TrQuiet st → TrQuiet (execBlock n c b st).2
  loop : ∀ c k b st, TrQuiet st → TrQuiet (execLoop n c k b st).2
  frame : ∀ c g i t b st, TrQuiet st → TrQuiet (execFrame n c g i t b st).2
  native : ∀ c g i t k b st, TrQuiet st → TrQuiet (execNative n c g i t k b st).2
  forOf : ∀ c i k brk nx b rt st, TrQuiet st → TrQuiet (execForOf n c i k brk nx b rt st).2

theorem ih5_zero : IH5 0 := by
  constructor <;> intros <;> simp only [exec, execBlock, execLoop, execFrame, execNative, execForOf] <;> assumption

theorem ih5_succ {n : Nat} (ih : IH5 n) : IH5 (n + 1) where
  exec := by
    intro c s st h
    simp only [exec]
    have hp := trQuiet_pollStep (c := c) h
    split
    · exact trQuiet_raise hp
    · have ha := trQuiet_pass hp
      have hi := trQuiet_instr ha
      cases s with
      | log k => exact trQuiet_instr (ha.congr rfl)
      | probe => exact trQuiet_instr (trQuiet_doProbe ha)
      | throw => exact hi
      | enqueue j => exact trQuiet_instr (ha.congr rfl)
      | loop k b => exact ih.loop c k b _ hi
      | native g i t k b => exact ih.native c g i t k b _ hi
      | forOf k brk nx b rt => exact ih.forOf c 0 k brk nx b rt _ hi
      | asyncResume b =>
        simp only []
        have hf := ih.frame c true false true b { instr (pass (pollStep c st)) with car := true } (hi.congr rfl)
        exact hf.congr rfl
      | tryc hc hf body cat fin =>
        simp only []
        generalize hr1 : execBlock n c body _ = r1
        have hb : TrQuiet r1.2 := hr1 ▸ ih.block c body _ (hi.congr rfl)
        split
        · exact hb
        · generalize hr2 : (if r1.1 = Outcome.thrown ∧ hc = true then execBlock n c cat _ else (r1.1, _)) = r2
          have hb2 : TrQuiet r2.2 := by
            subst hr2
            split
            · exact ih.block c cat _ (hb.congr rfl)
            · exact hb.congr rfl
          split
          · exact hb2
          · split
            · have hb3 := ih.block c fin r2.2 hb2
              split
              · exact hb3
              · exact hb3
            · exact hb2
  block := by
    intro c b st h
    cases b with
    | nil =>
      simp only [execBlock]
      have hp := trQuiet_pollStep (c := c) h
      split
      · exact trQuiet_raise hp
      · exact hp.emit (by rfl)
    | cons s rest =>
      simp only [execBlock]
      have h1 := ih.exec c s st h
      split
      · exact ih.block c rest _ h1
      · exact h1
  loop := by
    intro c k b st h
    cases k with
    | zero => simp only [execLoop]; exact h
    | succ k =>
      simp only [execLoop]
      have h1 := ih.block c b st h
      split
      · exact ih.loop c k b _ h1
      · exact h1
  frame := by
    intro c g i t b st h
    simp only [execFrame]
    have hb := ih.block c b (enterFrame g st) (by cases g <;> exact h.congr rfl)
    generalize execBlock n c b (enterFrame g st) = r at hb ⊢
    obtain ⟨o, st1⟩ := r
    cases o with
    | normal => exact hb.congr rfl
    | thrown => exact hb.congr rfl
    | oof => exact hb
    | intr v =>
      cases g with
      | true => exact hb.congr rfl
      | false =>
        cases i with
        | true => exact hb.ext rfl (by rfl)
        | false => exact hb.congr rfl
  native := by
    intro c g i t k b st h
    cases k with
    | zero => simp only [execNative]; exact h
    | succ k =>
      simp only [execNative]
      have h1 := ih.frame c g i t b st h
      split
      · exact ih.native c g i t k b _ h1
      · exact h1
  forOf := by
    intro c i k brk nx b rt st h
    simp only [execForOf]
    have h1 := ih.frame c false false false nx st h
    split
    · split
      · have h2 := ih.block c b _ h1
        split
        · split
          · exact ih.frame c false false false rt _ h2
          · exact ih.forOf c (i + 1) k brk nx b rt _ h2
        · split
          · have h3 := ih.frame c false false false rt _ h2
            split
            · exact h3
            · exact h3
          · exact h2
      · exact h1
    · exact h1

theorem ih5_all (n : Nat) : IH5 n := by
  induction n with
  | zero => exact ih5_zero
  | succ n ih => exact ih5_succ ih

end GojaModel.C15
