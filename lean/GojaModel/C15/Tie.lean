/-
  C15 — ties between the model and the facts regenerated from /repo by extract/c15.go on every run
  (lean/GojaModel/Generated/C15_Facts.lean).  If the source changes shape these stop checking.
-/
import GojaModel.C15.Props
import GojaModel.Generated.C15_Facts

namespace GojaModel.C15.Tie
open GojaModel.C15 GojaModel.C15.Drf
open GojaModel.Generated.C15

/-- every access in the source obeys the discipline: `interrupted` only through sync/atomic, `interruptVal` only
    under interruptLock.  A plain access added anywhere in the package falsifies this. -/
theorem table_ok : tableOK accessTable = true := by decide

/-- the extractor saw the accesses the model talks about (the table is not vacuous) -/
theorem table_shape :
    2 ≤ (accessTable.filter (fun a => a.cell == .flag && !a.write)).length ∧
    2 ≤ (accessTable.filter (fun a => a.cell == .flag && a.write)).length ∧
    1 ≤ (accessTable.filter (fun a => a.cell == .val && !a.write)).length ∧
    1 ≤ (accessTable.filter (fun a => a.cell == .val && a.write)).length := by decide

/-- `intr_drf_partial` instantiated with the regenerated table. -/
theorem intr_drf_generated (pre mid : List Drf.Ev) (ei ej : Drf.Ev)
    (ci : Conforms accessTable pre ei) (cj : Conforms accessTable (pre ++ ei :: mid) ej)
    (cell : Cell) (wi ai wj aj : Bool) (hi : ei.op = .acc cell wi ai) (hj : ej.op = .acc cell wj aj)
    (hne : ei.tid ≠ ej.tid) :
    (ai = true ∧ aj = true) ∨ ∃ m1 m2 m3, mid = m1 ++ ⟨ei.tid, .rel⟩ :: (m2 ++ ⟨ej.tid, .acq⟩ :: m3) :=
  Props.intr_drf_partial accessTable table_ok pre mid ei ej ci cj cell wi ai wj aj hi hj hne

/-- the frame-skipping condition of handleThrow, translated from the source, is the model's -/
theorem skipCond_eq (c f : Int) (e : Bool) : skipCond c f e = skipFrame c f e := by
  simp [skipCond, skipFrame, tryPanicMarker]

/-- run(): the poll is a statement of the loop body itself (not under the `count == 0` profiler test), it comes
    before the halt test and before the instruction is executed -/
theorem runLoop_eq : runLoop = ["count", "poll-break", "pc", "halt-break", "exec"] := rfl

theorem runWithProfilerLoop_eq : runWithProfilerLoop = ["poll-return", "pc", "halt-break", "exec"] := rfl

/-- run(): the value is read and the error built between Lock and Unlock, then panic -/
theorem runRaise_eq : runRaise = ["lock", "err=interruptVal", "other", "unlock", "panic"] := rfl

theorem bodyInterrupt_eq : bodyInterrupt =
    ["vm.interruptLock.Lock()", "vm.interruptVal = v", "atomic.StoreUint32(&vm.interrupted, 1)", "vm.interruptLock.Unlock()"] := rfl

theorem bodyClearInterrupt_eq : bodyClearInterrupt = ["atomic.StoreUint32(&vm.interrupted, 0)"] := rfl

/-- leaveAbrupt: queue dropped, flag cleared (model `leaveAbrupt`), and the aborted program forgotten (e71ffae) -/
theorem bodyleaveAbrupt_eq : bodyleaveAbrupt = ["r.jobQueue = nil", "r.ClearInterrupt()", "r.vm.prg = nil", "r.vm.sb = -1"] := rfl

theorem recoverRunProgram_eq : recoverRunProgram =
    "if ex := asUncatchableException(x); ex != nil { err = ex if len(vm.callStack) == 0 { r.leaveAbrupt() } } else { panic(x) }" := rfl

theorem recoverRunWrapped_eq : recoverRunWrapped = recoverRunProgram := rfl

/-- Runtime.Try (9e5aa04): an uncatchable passing through at depth 0 runs leaveAbrupt and is re-panicked
    (model `apiCallJ false` … `apiRecover`) -/
theorem tryDefer_eq : tryDefer =
    "defer func() { if x := recover(); x != nil { if len(r.vm.callStack) == 0 && asUncatchableException(x) != nil { r.leaveAbrupt() } panic(x) } }()" := rfl

/-- handleThrow closes open iterators only for catchable payloads (5d979ec): model `execForOf` runs the iterator's
    return() after a JS exception and not after an uncatchable error -/
theorem handleThrowRestore_eq : handleThrowRestore = "_ = vm._restoreStacks(tf.iterLen, tf.refLen, ex != nil)" := rfl

/-- generator.step (e8f901b): on the panic path the try stack is cut to just below the activation's marker frame
    (model `execFrame` with gen = true: `ts := st.ts`) -/
theorem generatorStepDefer_eq : generatorStepDefer =
    "defer func() { if !completed { if l := int(g.tryStackLen) - 1; l >= 0 && l < len(g.vm.tryStack) { g.vm.tryStack = g.vm.tryStack[:l] } } }()" := rfl

end GojaModel.C15.Tie
