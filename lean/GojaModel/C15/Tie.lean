/-
  C15 — ties between the model and the facts regenerated from /repo by extract/c15.go on every run
  (lean/GojaModel/Generated/C15_Facts.lean).  If the source changes shape these stop checking.
-/
import GojaModel.C15.Props
import GojaModel.Generated.C15_Facts

namespace GojaModel.C15.Tie
open GojaModel.C15 GojaModel.C15.Drf
open GojaModel.Generated.C15

/-- every access in the source obeys the discipline: `interrupted` only through sync/atomic, `interruptVal` only
    under interruptLock.  A plain access added anywhere in the package falsifies this. -/
theorem table_ok : tableOK accessTable = true := by decide

/-- the extractor saw the accesses the model talks about (the table is not vacuous) -/
theorem table_shape :
    2 ≤ (accessTable.filter (fun a => a.cell == .flag && !a.write)).length ∧
    2 ≤ (accessTable.filter (fun a => a.cell == .flag && a.write)).length ∧
    1 ≤ (accessTable.filter (fun a => a.cell == .val && !a.write)).length ∧
    1 ≤ (accessTable.filter (fun a => a.cell == .val && a.write)).length := by decide

/-- `intr_drf_partial` instantiated with the regenerated table. -/
theorem intr_drf_generated (pre mid : List Drf.Ev) (ei ej : Drf.Ev)
    (ci : Conforms accessTable pre ei) (cj : Conforms accessTable (pre ++ ei :: mid) ej)
    (cell : Cell) (wi ai wj aj : Bool) (hi : ei.op = .acc cell wi ai) (hj : ej.op = .acc cell wj aj)
    (hne : ei.tid ≠ ej.tid) :
    (ai = true ∧ aj = true) ∨ ∃ m1 m2 m3, mid = m1 ++ ⟨ei.tid, .rel⟩ :: (m2 ++ ⟨ej.tid, .acq⟩ :: m3) :=
  Props.intr_drf_partial accessTable table_ok pre mid ei ej ci cj cell wi ai wj aj hi hj hne

/-- the frame-skipping condition of handleThrow, translated from the source, is the model's -/
theorem skipCond_eq (c f : Int) (e : Bool) : skipCond c f e = skipFrame c f e := by
  simp [skipCond, skipFrame, tryPanicMarker]

/-! The following ties pin DECISION STRUCTURE (which classified statements occur, in which order, under which guards),
    not statement text: unrelated statements added to the same functions do not affect them. -/

/-- run() and runWithProfiler(): the poll is a top-level statement of the loop body (not under the `count == 0`
    profiler test), before the halt test, before the instruction is executed (model: `pollStep` first in `exec`) -/
theorem runOrder_eq : runOrder = ["poll", "halt", "exec"] := rfl
theorem runWithProfilerOrder_eq : runWithProfilerOrder = ["poll", "halt", "exec"] := rfl

/-- run(): Lock, build the error from interruptVal, Unlock, panic — and nothing else touches interruptVal or the flag
    there (model `raise`; red-team m1 wrote interruptVal in this block) -/
theorem raiseOrder_eq : raiseOrder = ["lock", "err=interruptVal", "unlock", "panic"] := rfl

/-- Interrupt(): Lock; interruptVal = v; store 1; Unlock (model `interruptLabels`) -/
theorem interruptOrder_eq : interruptOrder = ["lock", "val", "store", "unlock"] := rfl

/-- ClearInterrupt(): one atomic store of 0, no lock, no access to interruptVal (model label `clear`) -/
theorem clearOrder_eq : clearOrder = ["store0"] := rfl

/-- interruptVal is written by Interrupt only -/
theorem val_written_by_interrupt_only :
    ((accessTable.filter (fun a => a.cell == .val && a.write)).map (·.fn)) = ["Interrupt"] := rfl

/-- leaveAbrupt(): drops the job queue and clears the flag UNCONDITIONALLY, and takes no parameter on which that could
    depend (model `leaveAbrupt`; red-team m2 made ClearInterrupt conditional on the error's dynamic type) -/
theorem leaveAbruptEffects_eq : leaveAbruptEffects = (true, true, 0) := rfl

/-- leaveAbrupt is called from exactly the four outermost recover sites, each time only if the call stack is empty
    and the payload is uncatchable (model `apiRecover`: `if st.cs = 0`; red-team m3 dropped the guard in valueString) -/
theorem leaveAbruptSites_eq : leaveAbruptSites.map (·.1) = ["valueString", "RunProgram", "runWrapped", "Try"] := rfl

theorem leaveAbruptSites_guarded : leaveAbruptSites.all (fun s => s.2.1 && s.2.2.1 && s.2.2.2 == 0) = true := by decide

/-- handleThrow closes open iterators exactly for catchable payloads (5d979ec; model `execForOf`) -/
theorem handleThrowClosesItersIff_eq : handleThrowClosesItersIff = "ex != nil" := rfl

/-- generator.step (e8f901b): on the panic path the try stack is cut to just below the activation's marker frame
    (model `execFrame` with gen = true: `ts := st.ts`) -/
theorem generatorStepDefer_eq : generatorStepDefer =
    "defer func() { if !completed { if l := int(g.tryStackLen) - 1; l >= 0 && l < len(g.vm.tryStack) { g.vm.tryStack = g.vm.tryStack[:l] } } }()" := rfl

/-- vm.curAsyncRunner is assigned only by the two continuation entry points, and every function that sets it to a runner
    resets it to nil inside a `defer` (model: `Stmt.asyncResume` resets `car` on every way out) — the m4 class -/
theorem curAsyncRunner_writers_eq : curAsyncRunnerWriters.map (·.1) = ["onFulfilled", "onRejected"] := rfl

theorem curAsyncRunner_reset_deferred : curAsyncRunnerWriters.all (fun w => !w.2.1 || w.2.2.1) = true := by decide

/-- captureStack appends the awaiting async functions' frames exactly when the VM points at a runner (model: `car`) -/
theorem captureStackAsyncCond_eq : captureStackAsyncCond = "ctxOffset == 0 && vm.curAsyncRunner != nil" := rfl

end GojaModel.C15.Tie
