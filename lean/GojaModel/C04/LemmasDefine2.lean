/-
  C04 helper lemmas, part 1b: the per-shape cell lemmas assembled into one statement over every existing slot.
-/
import GojaModel.C04.LemmasDefine
namespace GojaModel.C04
set_option linter.unusedSimpArgs false
set_option linter.unusedVariables false

/-- the descriptor changes the KIND (data ↔ accessor) of the existing property -/
def kindChange {V} (existing : Option (Stored V)) (d : Desc V) : Bool :=
  match existing with
  | none => false
  | some (.plain _) => d.isAccessor
  | some (.prop p) => if p.accessor then d.isData else d.isAccessor

theorem cell_any {V} [DecidableEq V] (undef : V) (existing : Option (Stored V)) (d : Desc V) (ext : Bool)
    (hw : d.wellFormed = true) (hinv : ∀ s, existing = some s → s.repInv = true) : CellOk undef existing d ext := by
  cases existing with
  | none => exact cell_new undef d ext hw
  | some s =>
    have hri := hinv s rfl
    clear hinv
    cases s with
    | plain x => exact cell_plain undef x d ext hw
    | prop p =>
      obtain ⟨pv, pw, pc, pe, pa, pg, ps⟩ := p
      cases pa
      · simp [Stored.repInv, VProp.repInv] at hri
        obtain ⟨⟨hg, hs⟩, hv⟩ := hri
        subst hg; subst hs
        cases pv with
        | none => simp at hv
        | some x =>
          cases pc
          · exact cell_data_ncfg undef x pw pe d ext hw
          · exact cell_data_cfg undef x pw pe d ext hw
      · simp [Stored.repInv, VProp.repInv] at hri
        obtain ⟨hpw, hpv⟩ := hri
        subst hpw; subst hpv
        exact cell_acc undef pg ps pe pc d ext hw

end GojaModel.C04
