/-
  C04 — the entry points (syntax, Object.*/Reflect.*, Go API) and the spelling of an index key (valueInt vs canonical
  numeric string): which hand-written copy of an internal method each of them reaches, and the theorem that the answer
  does not depend on it.
-/
import GojaModel.C04.LemmasGet
namespace GojaModel.C04
set_option linter.unusedSimpArgs false
set_option linter.unusedVariables false

/-- how an entry point is reached -/
inductive Entry where
  | syntax        -- o[k] = v (vm.go `_setElem`: `obj.setOwn`), o[k] (`_getElem`: `obj.get(k, v)`), delete o[k], k in o
  | reflect       -- Reflect.set/get/deleteProperty/has/defineProperty, Object.defineProperty (`Object.set/get/delete/…`)
  | goapi         -- Object.Set/Get/Delete/DefineDataProperty (value.go:806-925): always the string-keyed copy (or Sym)
  deriving DecidableEq, Repr

/-- how an index key arrives: as a `valueInt` (the Idx copies) or as its canonical numeric string (the Str copies,
`toPropertyKey` leaves a string a string) -/
inductive Spelling where
  | int | str
  deriving DecidableEq, Repr

/-- which copy `Object.set/get/delete/hasProperty/defineOwnProperty` (object.go:1429-1623: `switch name.(type)`) dispatch to -/
inductive Copy where
  | cStr | cIdx | cSym
  deriving DecidableEq, Repr

def copyOf (e : Entry) (sp : Spelling) (k : Key) : Copy :=
  match k with
  | .sym _ => .cSym
  | .str _ => .cStr
  | .idx _ => if e = .goapi then .cStr else (match sp with | .int => .cIdx | .str => .cStr)

/-- [[Set]] with the object itself as receiver through an entry point.  syntax: `Object.setOwn` object.go:1520; reflect:
`Object.set` :1509 with `receiver == o`; goapi: `o.self.setOwnStr/Sym` value.go:904-913. -/
def setEntry {V} [DecidableEq V] (undef : V) (mv : MView V) (e : Entry) (sp : Spelling) (o : Nat) (rest : List Nat)
    (k : Key) (v : V) : Act (Stored V) V :=
  match e with
  | .reflect =>
    (match copyOf e sp k with
     | .cStr => objSetStr undef mv (o :: rest) k v (.obj o)
     | .cIdx => objSetIdx undef mv (o :: rest) k v (.obj o)
     | .cSym => objSetSym undef mv (o :: rest) k v (.obj o))
  | _ =>
    (match copyOf e sp k with
     | .cStr => setOwnStr mv (o :: rest) k v
     | .cIdx => setOwnIdx mv (o :: rest) k v
     | .cSym => setOwnSym mv (o :: rest) k v)

/-- [[Get]] with the object itself as receiver (`receiver == nil` in the Go API, `v` in `_getElem`, the target in Reflect.get) -/
def getEntry {V} (undef : V) (mv : MView V) (e : Entry) (sp : Spelling) (o : Nat) (rest : List Nat) (k : Key) : GetRes V :=
  match copyOf e sp k with
  | .cStr => getStr undef mv (o :: rest) k (.obj o)
  | .cIdx => getIdx undef mv (o :: rest) k (.obj o)
  | .cSym => getSym undef mv (o :: rest) k (.obj o)

def hasEntry {V} (mv : MView V) (e : Entry) (sp : Spelling) (chain : List Nat) (k : Key) : Bool :=
  match copyOf e sp k with
  | .cStr => hasPropertyStr mv chain k
  | .cIdx => hasPropertyIdx mv chain k
  | .cSym => hasPropertySym mv chain k

def deleteEntry {V} (mv : MView V) (e : Entry) (sp : Spelling) (o : Nat) (k : Key) : DelRes :=
  match copyOf e sp k with
  | .cStr => deleteStr mv o k
  | .cIdx => deleteIdx mv o k
  | .cSym => deleteSym mv o k

/-- `defineOwnPropertyStr` object.go:753 / `defineOwnPropertyIdx` :766 (→ Str with `idx.string()`) / `defineOwnPropertySym` :770 -/
def defineOwnPropertyStr {V} [DecidableEq V] (undef : V) (mv : MView V) (o : Nat) (k : Key) (d : Desc V) : Act (Stored V) V :=
  defineAct undef mv o k d
def defineOwnPropertyIdx {V} [DecidableEq V] (undef : V) (mv : MView V) (o : Nat) (k : Key) (d : Desc V) : Act (Stored V) V :=
  defineOwnPropertyStr undef mv o k d
def defineOwnPropertySym {V} [DecidableEq V] (undef : V) (mv : MView V) (o : Nat) (k : Key) (d : Desc V) : Act (Stored V) V :=
  match defineOwn undef (mv.own o k) d (mv.ext o) with          -- :771-782
  | some s => .write o k s (mv.own o k).isNone
  | none => .fail
def defineEntry {V} [DecidableEq V] (undef : V) (mv : MView V) (e : Entry) (sp : Spelling) (o : Nat) (k : Key) (d : Desc V) :
    Act (Stored V) V :=
  match copyOf e sp k with
  | .cStr => defineOwnPropertyStr undef mv o k d
  | .cIdx => defineOwnPropertyIdx undef mv o k d
  | .cSym => defineOwnPropertySym undef mv o k d

theorem objSetStr_self {V} [DecidableEq V] (undef : V) (mv : MView V) (o : Nat) (rest : List Nat) (k : Key) (v : V) :
    objSetStr undef mv (o :: rest) k v (.obj o) = setOwnStr mv (o :: rest) k v := by
  rw [objSetStr_unfold]; simp

/-- [[Set]] gives the same action through every entry point and for both spellings of an index key, and that action is
OrdinarySet's. -/
theorem setEntry_eq {V} [DecidableEq V] (undef : V) (mv : MView V) (hinv : RepInvView mv) (hc : IdxCountOk mv)
    (e : Entry) (sp : Spelling) (o : Nat) (rest : List Nat) (k : Key) (v : V) :
    setEntry undef mv e sp o rest k v = setOwnStr mv (o :: rest) k v := by
  have hsym := (setSym_eq_setStr_aux mv k v (o :: rest)).1
  cases e <;> cases k <;> cases sp <;>
    simp [setEntry, copyOf, setOwnIdx, hsym, objSetStr_unfold, objSetIdx_unfold, objSetSym_unfold]

theorem getEntry_eq {V} (undef : V) (mv : MView V) (e : Entry) (sp : Spelling) (o : Nat) (rest : List Nat) (k : Key) :
    getEntry undef mv e sp o rest k = getStr undef mv (o :: rest) k (.obj o) := by
  have hsym := getSym_eq_getStr undef mv k (.obj o) (o :: rest)
  cases e <;> cases k <;> cases sp <;> simp [getEntry, copyOf, getIdx, hsym]

theorem hasEntry_eq {V} (mv : MView V) (e : Entry) (sp : Spelling) (chain : List Nat) (k : Key) :
    hasEntry mv e sp chain k = hasPropertyStr mv chain k := by
  have hsym := hasSym_eq_hasStr mv k chain
  cases e <;> cases k <;> cases sp <;> simp [hasEntry, copyOf, hasPropertyIdx, hsym]

theorem deleteEntry_eq {V} (mv : MView V) (e : Entry) (sp : Spelling) (o : Nat) (k : Key) :
    deleteEntry mv e sp o k = deleteStr mv o k := by
  cases e <;> cases k <;> cases sp <;> simp [deleteEntry, copyOf, deleteIdx, deleteSym, deleteStr]

theorem defineEntry_eq {V} [DecidableEq V] (undef : V) (mv : MView V) (e : Entry) (sp : Spelling) (o : Nat) (k : Key) (d : Desc V) :
    defineEntry undef mv e sp o k d = defineAct undef mv o k d := by
  cases e <;> cases k <;> cases sp <;>
    simp [defineEntry, copyOf, defineOwnPropertyIdx, defineOwnPropertyStr, defineOwnPropertySym, defineAct] <;> rfl

end GojaModel.C04
