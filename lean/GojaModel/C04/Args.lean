/-
  C04 — exotic delta: the mapped `arguments` object (ECMA-262 10.4.4; object_args.go).  A mapped index is stored as a
  `mappedProperty{writable, enumerable, configurable, v *Value}` pointing at the parameter's variable.  As long as the
  variable is written only through the arguments object (no closure over the parameters writes it — the situation of every
  arguments object the correspondence creates), the object is observationally an ORDINARY object: the theorems below.
-/
import GojaModel.C04.Model
import GojaModel.C04.LemmasDefine2
import GojaModel.C04.HistKeys
namespace GojaModel.C04
set_option linter.unusedSimpArgs false
set_option linter.unusedVariables false

/-- a slot of `argumentsObject.values`: a `*mappedProperty` (flags + reference into the environment) or anything a
baseObject slot can hold -/
inductive ASlot (V : Type) where
  | mapped (w e c : Bool) (ref : Nat)
  | ord (s : Stored V)

def envSet {V} (env : Nat → V) (r : Nat) (v : V) : Nat → V := fun i => if i = r then v else env i

/-- `argumentsObject.getOwnPropStr` object_args.go:24-37: what the rest of the engine sees in the slot -/
def ASlot.view {V} (env : Nat → V) : ASlot V → Stored V
  | .mapped w e c ref =>
    if w && e && c then .plain (env ref)                                             -- :26-28
    else .prop { value := some (env ref), writable := w, configurable := c, enumerable := e,
                 accessor := false, getterFunc := none, setterFunc := none }          -- :29-34
  | .ord s => s                                                                       -- :37

/-- the spec-level property the slot stands for -/
def ASlot.spec {V} (undef : V) (env : Nat → V) (s : ASlot V) : SProp V := absProp undef (s.view env)

/-- invariant: a mapped slot is writable (`defineOwnPropertyStr` unmaps a slot that becomes non-writable :128-131), an
ordinary slot satisfies the representation invariant -/
def ASlot.ok {V} : ASlot V → Bool
  | .mapped w _ _ _ => w
  | .ord s => s.repInv

/-- `argumentsObject.defineOwnPropertyStr` object_args.go:109-145 on an existing slot: `none` = rejected -/
def argsDefine {V} [DecidableEq V] (undef : V) (slot : ASlot V) (env : Nat → V) (d : Desc V) (ext : Bool) :
    Option (ASlot V × (Nat → V)) :=
  match slot with
  | .mapped w e c ref =>
    let existing : VProp V := { value := some (env ref), writable := true, configurable := c, enumerable := e,
                                accessor := false, getterFunc := none, setterFunc := none }     -- :111-116
    match defineOwn undef (some (.prop existing)) d ext with                                      -- :118
    | none => none                                                                                -- :119-121
    | some (.prop prop) =>                                                                        -- :123
      let env' := if !prop.accessor then envSet env ref (prop.value.getD undef) else env          -- :124-126
      if prop.accessor || !prop.writable then some (.ord (.prop prop), env')                      -- :127-130 a._put(name, prop)
      else some (.mapped w prop.enumerable prop.configurable ref, env')                           -- :131-132
    | some (.plain v) => some (.mapped w true true ref, envSet env ref v)                         -- :133-137
  | .ord s =>
    match defineOwn undef (some s) d ext with                                                     -- :144 baseObject.defineOwnPropertyStr
    | none => none
    | some s' => some (.ord s', env)

/-- the own-slot part of `argumentsObject.setOwnStr` :44-55 (a mapped slot) / `baseObject.setOwnStr` :493-502 (data slot):
`none` = not writable -/
def argsSetOwn {V} (slot : ASlot V) (env : Nat → V) (v : V) : Option (ASlot V × (Nat → V)) :=
  match slot with
  | .mapped w e c ref => if !w then none else some (.mapped w e c ref, envSet env ref v)         -- :46-52
  | .ord (.plain _) => some (.ord (.plain v), env)
  | .ord (.prop p) =>
    if !p.isWritable then none
    else match p.setterFunc with
      | none => some (.ord (.prop { p with value := some v }), env)
      | some _ => some (.ord (.prop p), env)        -- setter call: no change of the slot

/-- `argumentsObject.deleteStr` :61-72: `true` = the slot is removed -/
def argsDelete {V} : ASlot V → Bool
  | .mapped _ _ c _ => c                      -- checkDeleteProp(&prop.valueProperty)
  | .ord s => checkDeleteStored s
where checkDeleteStored : Stored V → Bool
  | .prop p => p.configurable
  | .plain _ => true

theorem spec_mapped {V} (undef : V) (env : Nat → V) (w e c : Bool) (ref : Nat) :
    (ASlot.mapped w e c ref : ASlot V).spec undef env = .data (env ref) w e c := by
  cases w <;> cases e <;> cases c <;> simp [ASlot.spec, ASlot.view, absProp]

/-- [[DefineOwnProperty]] on a mapped (or unmapped) arguments slot = ValidateAndApplyPropertyDescriptor on the property
the slot stands for, and the invariant is kept. -/
theorem argsDefine_refines {V} [DecidableEq V] (undef : V) (slot : ASlot V) (env : Nat → V) (d : Desc V) (ext : Bool)
    (hw : d.wellFormed = true) (hok : slot.ok = true) :
    (argsDefine undef slot env d ext).map (fun r => r.1.spec undef r.2) =
      validateAndApply undef (some (slot.spec undef env)) d ext
    ∧ ∀ r, argsDefine undef slot env d ext = some r → r.1.ok = true := by
  cases slot with
  | ord s =>
    have hinv : ∀ t, some s = some t → t.repInv = true := by intro t e; cases e; exact hok
    have hc := cell_any undef (some s) d ext hw hinv
    simp only [argsDefine]
    cases hd : defineOwn undef (some s) d ext with
    | none =>
      have := hc.1; rw [hd] at this
      exact ⟨by simpa [ASlot.spec, ASlot.view] using this, by intro r hr; cases hr⟩
    | some s' =>
      have h1 := hc.1; rw [hd] at h1
      refine ⟨by simpa [ASlot.spec, ASlot.view] using h1, ?_⟩
      intro r hr; cases hr
      exact hc.2 s' hd
  | mapped w e c ref =>
    simp only [ASlot.ok] at hok; subst hok
    let existing : VProp V := { value := some (env ref), writable := true, configurable := c, enumerable := e,
                                accessor := false, getterFunc := none, setterFunc := none }
    have hinv : ∀ t, some (Stored.prop existing) = some t → t.repInv = true := by
      intro t e'; cases e'; simp [Stored.repInv, VProp.repInv, existing]
    have hc := cell_any undef (some (.prop existing)) d ext hw hinv
    have habs : absProp undef (.prop existing) = .data (env ref) true e c := by simp [absProp, existing]
    rw [spec_mapped]
    simp only [argsDefine]
    cases hd : defineOwn undef (some (Stored.prop existing)) d ext with
    | none =>
      have h1 := hc.1; rw [hd] at h1
      simp only [Option.map, habs] at h1
      exact ⟨by simpa using h1, by intro r hr; cases hr⟩
    | some val =>
      have h1 := hc.1; rw [hd] at h1
      simp only [Option.map, habs] at h1
      have hri := hc.2 val hd
      cases val with
      | plain v =>
        refine ⟨?_, ?_⟩
        · simp only [Option.map]; rw [spec_mapped, ← h1]; simp [absProp, envSet]
        · intro r hr; cases hr; rfl
      | prop p =>
        simp only [Stored.repInv, VProp.repInv] at hri
        by_cases ha : p.accessor = true
        · simp only [ha, Bool.true_or, if_true, Bool.not_true, Bool.false_eq_true, if_false]
          refine ⟨?_, ?_⟩
          · simp only [Option.map, ASlot.spec, ASlot.view]; exact h1
          · intro r hr; cases hr; simp [ASlot.ok, Stored.repInv, VProp.repInv, ha] at hri ⊢; exact hri
        · have ha' : p.accessor = false := by simpa using ha
          simp only [ha', Bool.false_eq_true, if_false, Bool.and_eq_true, Bool.not_eq_true', Option.isSome_iff_ne_none] at hri
          by_cases hpw : p.writable = true
          · simp only [ha', hpw, Bool.not_false, Bool.not_true, Bool.or_self, Bool.false_eq_true, if_false, if_true]
            refine ⟨?_, ?_⟩
            · simp only [Option.map]; rw [spec_mapped, ← h1]
              simp [absProp, ha', hpw, envSet]
            · intro r hr; cases hr; rfl
          · have hpw' : p.writable = false := by simpa using hpw
            simp only [ha', hpw', Bool.not_false, Bool.or_true, if_true]
            refine ⟨?_, ?_⟩
            · simp only [Option.map, ASlot.spec, ASlot.view]; exact h1
            · intro r hr; cases hr
              simp [ASlot.ok, Stored.repInv, VProp.repInv, ha', hri, Option.isSome_iff_ne_none.mpr hri.2]

/-- the own-slot part of [[Set]]: a mapped slot behaves as the writable data property it stands for -/
theorem argsSetOwn_mapped {V} (undef : V) (env : Nat → V) (e c : Bool) (ref : Nat) (v : V) :
    (argsSetOwn (ASlot.mapped true e c ref) env v).map (fun r => r.1.spec undef r.2) = some (.data v true e c) := by
  simp [argsSetOwn, Option.map, spec_mapped, envSet]

/-- [[Delete]]: a mapped slot is removed iff the property it stands for is configurable -/
theorem argsDelete_spec {V} (undef : V) (env : Nat → V) (slot : ASlot V) :
    argsDelete slot = (slot.spec undef env).configurable := by
  cases slot with
  | mapped w e c ref => rw [spec_mapped]; rfl
  | ord s =>
    cases s with
    | plain x => rfl
    | prop p => cases h : p.accessor <;> simp [argsDelete, argsDelete.checkDeleteStored, ASlot.spec, ASlot.view, absProp, h, SProp.configurable]

/-! ### histories: a mapped arguments object is the ordinary object it stands for, after ANY sequence of own-property
operations (the parameter variables being written only through it) -/

structure AObj (V : Type) where
  slots : List (Key × ASlot V)
  env : Nat → V
  ext : Bool

inductive AOp (V : Type) where
  | define (k : Key) (d : Desc V)
  | setOwn (k : Key) (v : V)          -- [[Set]] reaching an existing own slot (the chain walk is `SetPath`)
  | delete (k : Key)

def AObj.spec {V} (undef : V) (a : AObj V) : List (Key × SProp V) :=
  a.slots.map (fun ks => (ks.1, ks.2.spec undef a.env))

def AObj.step {V} [DecidableEq V] (undef : V) (a : AObj V) : AOp V → AObj V
  | .define k d =>
    (match lookup a.slots k with
     | some slot =>
       (match argsDefine undef slot a.env d a.ext with
        | some r => { a with slots := put a.slots k r.1, env := r.2 }
        | none => a)
     | none =>
       (match defineOwn undef none d a.ext with                 -- baseObject.defineOwnPropertyStr: new property
        | some s => { a with slots := put a.slots k (.ord s) }
        | none => a))
  | .setOwn k v =>
    (match lookup a.slots k with
     | some slot =>
       (match argsSetOwn slot a.env v with
        | some r => { a with slots := put a.slots k r.1, env := r.2 }
        | none => a)
     | none => a)
  | .delete k =>
    (match lookup a.slots k with
     | some slot => if argsDelete slot then { a with slots := eraseKey a.slots k } else a
     | none => a)

/-- the ordinary object's operations on its spec-level property list -/
def specStep {V} [DecidableEq V] (undef : V) (ext : Bool) (l : List (Key × SProp V)) : AOp V → List (Key × SProp V)
  | .define k d => (match validateAndApply undef (lookup l k) d ext with
                    | some p => put l k p
                    | none => l)
  | .setOwn k v => (match lookup l k with
                    | some (.data _ true e c) => put l k (.data v true e c)
                    | _ => l)
  | .delete k => (match lookup l k with
                  | some p => if p.configurable then eraseKey l k else l
                  | none => l)

def ASlot.refOf {V} : ASlot V → Option Nat
  | .mapped _ _ _ r => some r
  | .ord _ => none

/-- invariant: every slot ok, keys unique, two mapped slots never share a variable -/
structure AObj.WF {V} (a : AObj V) : Prop where
  ok : ∀ ks ∈ a.slots, ks.2.ok = true
  nodup : (keysOf a.slots).Nodup
  refs : ∀ k1 s1 k2 s2 r, (k1, s1) ∈ a.slots → (k2, s2) ∈ a.slots → s1.refOf = some r → s2.refOf = some r → k1 = k2

theorem spec_env_irrelevant {V} (undef : V) (env env' : Nat → V) (s : ASlot V)
    (h : ∀ r, s.refOf = some r → env' r = env r) : s.spec undef env' = s.spec undef env := by
  cases s with
  | ord x => rfl
  | mapped w e c r => rw [spec_mapped, spec_mapped, h r rfl]

theorem lookup_map_spec {V} (undef : V) (env : Nat → V) (l : List (Key × ASlot V)) (k : Key) :
    lookup (l.map (fun ks => (ks.1, ks.2.spec undef env))) k = (lookup l k).map (fun s => s.spec undef env) := by
  induction l with
  | nil => rfl
  | cons x xs ih =>
    obtain ⟨k0, s0⟩ := x
    by_cases h : k0 = k <;> simp [lookup, h, ih]

theorem map_put_spec {V} (undef : V) (env env' : Nat → V) (l : List (Key × ASlot V)) (k : Key) (s' : ASlot V)
    (hn : (keysOf l).Nodup)
    (hother : ∀ ks ∈ l, ks.1 ≠ k → ks.2.spec undef env' = ks.2.spec undef env) :
    (put l k s').map (fun ks => (ks.1, ks.2.spec undef env')) =
      put (l.map (fun ks => (ks.1, ks.2.spec undef env))) k (s'.spec undef env') := by
  induction l with
  | nil => simp [put]
  | cons x xs ih =>
    obtain ⟨k0, s0⟩ := x
    have hn' := List.nodup_cons.mp hn
    by_cases h : k0 = k
    · subst h
      simp only [put, if_true, List.map_cons]
      congr 1
      apply List.map_congr_left
      intro ks hks
      have hne : ks.1 ≠ k0 := by
        intro e
        exact hn'.1 (e ▸ List.mem_map.mpr ⟨ks, hks, rfl⟩)
      rw [hother ks (List.mem_cons_of_mem _ hks) hne]
    · simp only [put, h, if_false, List.map_cons]
      rw [hother (k0, s0) (List.mem_cons_self) h]
      congr 1
      exact ih hn'.2 (fun ks hks hne => hother ks (List.mem_cons_of_mem _ hks) hne)

theorem map_erase_spec {V} (undef : V) (env : Nat → V) (l : List (Key × ASlot V)) (k : Key) :
    (eraseKey l k).map (fun ks => (ks.1, ks.2.spec undef env)) =
      eraseKey (l.map (fun ks => (ks.1, ks.2.spec undef env))) k := by
  induction l with
  | nil => rfl
  | cons x xs ih =>
    obtain ⟨k0, s0⟩ := x
    by_cases h : k0 = k <;> simp [eraseKey, h, ih]

theorem mem_of_lookup {α} (l : List (Key × α)) (k : Key) (a : α) (h : lookup l k = some a) : (k, a) ∈ l := by
  induction l with
  | nil => simp [lookup] at h
  | cons x xs ih =>
    obtain ⟨k0, a0⟩ := x
    by_cases hk : k0 = k
    · subst hk; simp [lookup] at h; subst h; exact List.mem_cons_self
    · simp only [lookup, hk, if_false] at h
      exact List.mem_cons_of_mem _ (ih h)

/-- changing the variable of the slot at `k` does not change what the other slots stand for (distinct variables) -/
theorem others_unchanged {V} (undef : V) (a : AObj V) (h : a.WF) (k : Key) (slot : ASlot V) (hl : lookup a.slots k = some slot)
    (env' : Nat → V) (henv : ∀ r, slot.refOf ≠ some r → env' r = a.env r) :
    ∀ ks ∈ a.slots, ks.1 ≠ k → ks.2.spec undef env' = ks.2.spec undef a.env := by
  intro ks hks hne
  apply spec_env_irrelevant
  intro r hr
  apply henv
  intro hs
  exact hne (h.refs ks.1 ks.2 k slot r hks (mem_of_lookup _ _ _ hl) hr hs)

theorem argsDefine_frame {V} [DecidableEq V] (undef : V) (slot : ASlot V) (env : Nat → V) (d : Desc V) (ext : Bool)
    (r : ASlot V × (Nat → V)) (h : argsDefine undef slot env d ext = some r) :
    (∀ q, slot.refOf ≠ some q → r.2 q = env q) ∧ (∀ q, r.1.refOf = some q → slot.refOf = some q) := by
  cases slot with
  | ord s0 =>
    simp only [argsDefine] at h
    cases hd : defineOwn undef (some s0) d ext with
    | none => rw [hd] at h; cases h
    | some s1 => rw [hd] at h; cases h; exact ⟨fun _ _ => rfl, fun q hq => by simp [ASlot.refOf] at hq⟩
  | mapped w e c ref =>
    have hset : ∀ (x : V) q, (ASlot.mapped w e c ref : ASlot V).refOf ≠ some q → envSet env ref x q = env q := by
      intro x q hq
      have : q ≠ ref := fun e' => hq (by simp [ASlot.refOf, e'])
      simp [envSet, this]
    simp only [argsDefine] at h
    split at h
    · cases h
    · split at h
      · cases h
        refine ⟨?_, fun q hq => by simp [ASlot.refOf] at hq⟩
        intro q hq; split
        · exact hset _ q hq
        · rfl
      · cases h
        refine ⟨?_, fun q hq => by simpa [ASlot.refOf] using hq⟩
        intro q hq; split
        · exact hset _ q hq
        · rfl
    · cases h
      exact ⟨fun q hq => hset _ q hq, fun q hq => by simpa [ASlot.refOf] using hq⟩

theorem put_same {α} (l : List (Key × α)) (k : Key) (a : α) (h : lookup l k = some a) : put l k a = l := by
  induction l with
  | nil => simp [lookup] at h
  | cons x xs ih =>
    obtain ⟨k0, a0⟩ := x
    by_cases hk : k0 = k
    · subst hk; simp [lookup] at h; subst h; simp [put]
    · simp only [lookup, hk, if_false] at h
      simp [put, hk, ih h]

theorem mem_put {α} (l : List (Key × α)) (k : Key) (a : α) (x : Key × α) (hn : (keysOf l).Nodup) (h : x ∈ put l k a) :
    x = (k, a) ∨ (x ∈ l ∧ x.1 ≠ k) := by
  induction l with
  | nil => simp [put] at h; exact Or.inl h
  | cons y ys ih =>
    obtain ⟨k0, a0⟩ := y
    have hn' := List.nodup_cons.mp hn
    by_cases hk : k0 = k
    · subst hk
      simp only [put, if_true, List.mem_cons] at h
      rcases h with h | h
      · exact Or.inl h
      · refine Or.inr ⟨List.mem_cons_of_mem _ h, ?_⟩
        intro e
        exact hn'.1 (e ▸ List.mem_map.mpr ⟨x, h, rfl⟩)
    · simp only [put, hk, if_false, List.mem_cons] at h
      rcases h with h | h
      · exact Or.inr ⟨by rw [h]; exact List.mem_cons_self, by rw [h]; exact hk⟩
      · rcases ih hn'.2 h with e | ⟨e1, e2⟩
        · exact Or.inl e
        · exact Or.inr ⟨List.mem_cons_of_mem _ e1, e2⟩

def AOp.wf {V} : AOp V → Bool
  | .define _ d => d.wellFormed
  | _ => true

theorem wf_put {V} (a : AObj V) (h : a.WF) (k : Key) (slot : ASlot V) (hl : lookup a.slots k = some slot) (s' : ASlot V)
    (env' : Nat → V) (hok : s'.ok = true) (hrefs : ∀ q, s'.refOf = some q → slot.refOf = some q) :
    AObj.WF { a with slots := put a.slots k s', env := env' } := by
  refine ⟨?_, nodup_put _ _ _ h.nodup, ?_⟩
  · intro ks hks
    rcases mem_put _ _ _ _ h.nodup hks with e | ⟨e1, _⟩
    · rw [e]; exact hok
    · exact h.ok ks e1
  · intro k1 s1 k2 s2 r h1 h2 r1 r2
    have hm := mem_of_lookup _ _ _ hl
    rcases mem_put _ _ _ _ h.nodup h1 with e1 | ⟨m1, n1⟩ <;> rcases mem_put _ _ _ _ h.nodup h2 with e2 | ⟨m2, n2⟩
    · cases e1; cases e2; rfl
    · cases e1
      exact (h.refs k slot k2 s2 r hm m2 (hrefs r r1) r2)
    · cases e2
      exact (h.refs k1 s1 k slot r m1 hm r1 (hrefs r r2))
    · exact h.refs k1 s1 k2 s2 r m1 m2 r1 r2

/-- one own-property operation on the arguments object = the ordinary operation on the property list it stands for -/
theorem args_step_refines {V} [DecidableEq V] (undef : V) (a : AObj V) (h : a.WF) (op : AOp V) (hw : op.wf = true) :
    (a.step undef op).spec undef = specStep undef a.ext (a.spec undef) op ∧ (a.step undef op).WF ∧ (a.step undef op).ext = a.ext := by
  have hlk : ∀ k, lookup (a.spec undef) k = (lookup a.slots k).map (fun s => s.spec undef a.env) :=
    fun k => lookup_map_spec undef a.env a.slots k
  cases op with
  | define k d =>
    have hd : d.wellFormed = true := by simpa [AOp.wf] using hw
    simp only [AObj.step, specStep, hlk]
    cases hl : lookup a.slots k with
    | some slot =>
      have hok := h.ok (k, slot) (mem_of_lookup _ _ _ hl)
      obtain ⟨href, hkeep⟩ := argsDefine_refines undef slot a.env d a.ext hd hok
      simp only [Option.map_some]
      cases hr : argsDefine undef slot a.env d a.ext with
      | none => rw [hr] at href; simp only [Option.map_none] at href; rw [← href]; exact ⟨(by first | rfl | trivial), h, (by first | rfl | trivial)⟩
      | some r =>
        rw [hr] at href
        simp only [Option.map_some] at href
        rw [← href]
        obtain ⟨hfr1, hfr2⟩ := argsDefine_frame undef slot a.env d a.ext r hr
        refine ⟨?_, wf_put a h k slot hl r.1 r.2 (hkeep r hr) hfr2, (by first | rfl | trivial)⟩
        simp only [AObj.spec]
        exact map_put_spec undef a.env r.2 a.slots k r.1 h.nodup (others_unchanged undef a h k slot hl r.2 hfr1)
    | none =>
      simp only [Option.map_none]
      have hc := cell_new undef d a.ext hd
      cases hdo : defineOwn undef none d a.ext with
      | none => have := hc.1; rw [hdo] at this; simp only [Option.map_none] at this; rw [← this]; exact ⟨(by first | rfl | trivial), h, (by first | rfl | trivial)⟩
      | some s0 =>
        have h1 := hc.1; rw [hdo] at h1; simp only [Option.map_some, Option.map_none] at h1
        rw [← h1]
        refine ⟨?_, ?_, (by first | rfl | trivial)⟩
        · simp only [AObj.spec]
          have := map_put_spec undef a.env a.env a.slots k (.ord s0) h.nodup (fun _ _ _ => rfl)
          simpa [ASlot.spec, ASlot.view] using this
        · refine ⟨?_, nodup_put _ _ _ h.nodup, ?_⟩
          · intro ks hks
            rcases mem_put _ _ _ _ h.nodup hks with e | ⟨e1, _⟩
            · rw [e]; exact hc.2 s0 hdo
            · exact h.ok ks e1
          · intro k1 s1 k2 s2 r h1' h2' r1 r2
            rcases mem_put _ _ _ _ h.nodup h1' with e1 | ⟨m1, n1⟩ <;> rcases mem_put _ _ _ _ h.nodup h2' with e2 | ⟨m2, n2⟩
            · cases e1; cases e2; rfl
            · cases e1; simp [ASlot.refOf] at r1
            · cases e2; simp [ASlot.refOf] at r2
            · exact h.refs k1 s1 k2 s2 r m1 m2 r1 r2
  | delete k =>
    simp only [AObj.step, specStep, hlk]
    cases hl : lookup a.slots k with
    | none => exact ⟨(by first | rfl | trivial), h, (by first | rfl | trivial)⟩
    | some slot =>
      simp only [Option.map_some, argsDelete_spec undef a.env slot]
      cases hc : (slot.spec undef a.env).configurable with
      | false => simp only [Bool.false_eq_true, if_false]; exact ⟨(by first | rfl | trivial), h, (by first | rfl | trivial)⟩
      | true =>
        simp only [if_true]
        refine ⟨by simp only [AObj.spec]; exact map_erase_spec undef a.env a.slots k, ?_, (by first | rfl | trivial)⟩
        have hsub : ∀ x, x ∈ eraseKey a.slots k → x ∈ a.slots := by
          intro x hx
          have : (eraseKey a.slots k).Sublist a.slots := by
            clear hl hc h hlk
            induction a.slots with
            | nil => exact List.Sublist.refl _
            | cons y ys ih =>
              obtain ⟨k0, a0⟩ := y
              by_cases hk : k0 = k
              · simp [eraseKey, hk]
              · simp only [eraseKey, hk, if_false]; exact List.Sublist.cons₂ _ ih
          exact this.subset hx
        refine ⟨fun ks hks => h.ok ks (hsub ks hks), by rw [keys_erase]; exact List.Nodup.erase _ h.nodup, ?_⟩
        intro k1 s1 k2 s2 r h1 h2 r1 r2
        exact h.refs k1 s1 k2 s2 r (hsub _ h1) (hsub _ h2) r1 r2
  | setOwn k v =>
    simp only [AObj.step, specStep, hlk]
    cases hl : lookup a.slots k with
    | none => exact ⟨(by first | rfl | trivial), h, (by first | rfl | trivial)⟩
    | some slot =>
      have hok := h.ok (k, slot) (mem_of_lookup _ _ _ hl)
      simp only [Option.map_some]
      cases slot with
      | mapped w e c ref =>
        simp only [ASlot.ok] at hok; subst hok
        rw [spec_mapped]
        simp only [argsSetOwn, Bool.not_true, Bool.false_eq_true, if_false]
        refine ⟨?_, ?_, (by first | rfl | trivial)⟩
        · simp only [AObj.spec]
          have hoth := others_unchanged undef a h k _ hl (envSet a.env ref v) (by
            intro r hr
            have : r ≠ ref := fun e' => hr (by simp [ASlot.refOf, e'])
            simp [envSet, this])
          have := map_put_spec undef a.env (envSet a.env ref v) a.slots k (.mapped true e c ref) h.nodup hoth
          rw [this, spec_mapped]; simp [envSet]
        · exact wf_put a h k _ hl _ _ rfl (fun q hq => hq)
      | ord s0 =>
        simp only [ASlot.ok] at hok
        cases s0 with
        | plain x =>
          simp only [argsSetOwn, ASlot.spec, ASlot.view, absProp]
          refine ⟨?_, ?_, (by first | rfl | trivial)⟩
          · simp only [AObj.spec]
            have := map_put_spec undef a.env a.env a.slots k (.ord (.plain v)) h.nodup (fun _ _ _ => rfl)
            simpa [ASlot.spec, ASlot.view, absProp] using this
          · exact wf_put a h k _ hl _ _ rfl (fun q hq => by simp [ASlot.refOf] at hq)
        | prop p =>
          simp only [Stored.repInv, VProp.repInv] at hok
          have hsame : lookup (a.spec undef) k = some ((ASlot.ord (.prop p) : ASlot V).spec undef a.env) := by
            rw [hlk, hl]; rfl
          cases hacc : p.accessor with
          | true =>
            rw [hacc] at hok
            simp only [if_true, Bool.and_eq_true, Bool.not_eq_true', Option.isNone_iff_eq_none] at hok
            obtain ⟨hwr, hval⟩ := hok
            have hspec : (ASlot.ord (.prop p) : ASlot V).spec undef a.env = .acc p.getterFunc p.setterFunc p.enumerable p.configurable := by
              simp [ASlot.spec, ASlot.view, absProp, hacc]
            rw [hspec]
            cases hs : p.setterFunc with
            | none =>
              simp only [argsSetOwn, VProp.isWritable, hwr, hs, Option.isSome_none, Bool.or_self, Bool.not_false, if_true]
              exact ⟨(by first | rfl | trivial), h, (by first | rfl | trivial)⟩
            | some f =>
              simp only [argsSetOwn, VProp.isWritable, hwr, hs, Option.isSome_some, Bool.or_true, Bool.not_true, Bool.false_eq_true, if_false]
              refine ⟨?_, ?_, (by first | rfl | trivial)⟩
              · simp only [AObj.spec]
                have := map_put_spec undef a.env a.env a.slots k (.ord (.prop p)) h.nodup (fun _ _ _ => rfl)
                rw [this]
                exact put_same _ _ _ hsame
              · exact wf_put a h k _ hl _ _ (by simpa [ASlot.ok, Stored.repInv] using h.ok _ (mem_of_lookup _ _ _ hl)) (fun q hq => by simp [ASlot.refOf] at hq)
          | false =>
            rw [hacc] at hok
            simp only [Bool.false_eq_true, if_false, Bool.and_eq_true, Option.isNone_iff_eq_none] at hok
            obtain ⟨⟨hg, hs⟩, hv⟩ := hok
            have hspec : (ASlot.ord (.prop p) : ASlot V).spec undef a.env = .data (p.value.getD undef) p.writable p.enumerable p.configurable := by
              simp [ASlot.spec, ASlot.view, absProp, hacc]
            rw [hspec]
            cases hwr : p.writable with
            | false =>
              simp only [argsSetOwn, VProp.isWritable, hwr, hs, Option.isSome_none, Bool.or_self, Bool.not_false, if_true]
              exact ⟨(by first | rfl | trivial), h, (by first | rfl | trivial)⟩
            | true =>
              simp only [argsSetOwn, VProp.isWritable, hwr, hs, Bool.true_or, Bool.not_true, Bool.false_eq_true, if_false]
              refine ⟨?_, ?_, (by first | rfl | trivial)⟩
              · simp only [AObj.spec]
                have := map_put_spec undef a.env a.env a.slots k (.ord (.prop { p with value := some v })) h.nodup (fun _ _ _ => rfl)
                simp only [hwr, hs] at this
                rw [this]
                simp [ASlot.spec, ASlot.view, absProp, hacc, hwr]
              · exact wf_put a h k _ hl _ _ (by simp [ASlot.ok, Stored.repInv, VProp.repInv, hacc, hg, hs]) (fun q hq => by simp [ASlot.refOf] at hq)

/-- histories: after ANY sequence of well-formed own-property operations the arguments object stands for exactly the
property list an ordinary object reaches by the same operations (and the invariant holds again) -/
theorem args_run_refines {V} [DecidableEq V] (undef : V) (ops : List (AOp V)) (hw : ∀ op ∈ ops, op.wf = true) :
    ∀ (a : AObj V), a.WF →
      (ops.foldl (AObj.step undef) a).spec undef = ops.foldl (specStep undef a.ext) (a.spec undef) ∧
      (ops.foldl (AObj.step undef) a).WF := by
  induction ops with
  | nil => intro a h; exact ⟨rfl, h⟩
  | cons op rest ih =>
    intro a h
    obtain ⟨h1, h2, h3⟩ := args_step_refines undef a h op (hw op List.mem_cons_self)
    have := ih (fun o ho => hw o (List.mem_cons_of_mem _ ho)) (a.step undef op) h2
    simp only [List.foldl_cons]
    rw [h3, h1] at this
    exact this

end GojaModel.C04
