/-
  C04 — exotic delta: the mapped `arguments` object (ECMA-262 10.4.4; object_args.go).  A mapped index is stored as a
  `mappedProperty{writable, enumerable, configurable, v *Value}` pointing at the parameter's variable.  As long as the
  variable is written only through the arguments object (no closure over the parameters writes it — the situation of every
  arguments object the correspondence creates), the object is observationally an ORDINARY object: the theorems below.
-/
import GojaModel.C04.Model
import GojaModel.C04.LemmasDefine2
namespace GojaModel.C04
set_option linter.unusedSimpArgs false
set_option linter.unusedVariables false

/-- a slot of `argumentsObject.values`: a `*mappedProperty` (flags + reference into the environment) or anything a
baseObject slot can hold -/
inductive ASlot (V : Type) where
  | mapped (w e c : Bool) (ref : Nat)
  | ord (s : Stored V)

def envSet {V} (env : Nat → V) (r : Nat) (v : V) : Nat → V := fun i => if i = r then v else env i

/-- `argumentsObject.getOwnPropStr` object_args.go:24-37: what the rest of the engine sees in the slot -/
def ASlot.view {V} (env : Nat → V) : ASlot V → Stored V
  | .mapped w e c ref =>
    if w && e && c then .plain (env ref)                                             -- :26-28
    else .prop { value := some (env ref), writable := w, configurable := c, enumerable := e,
                 accessor := false, getterFunc := none, setterFunc := none }          -- :29-34
  | .ord s => s                                                                       -- :37

/-- the spec-level property the slot stands for -/
def ASlot.spec {V} (undef : V) (env : Nat → V) (s : ASlot V) : SProp V := absProp undef (s.view env)

/-- invariant: a mapped slot is writable (`defineOwnPropertyStr` unmaps a slot that becomes non-writable :128-131), an
ordinary slot satisfies the representation invariant -/
def ASlot.ok {V} : ASlot V → Bool
  | .mapped w _ _ _ => w
  | .ord s => s.repInv

/-- `argumentsObject.defineOwnPropertyStr` object_args.go:109-145 on an existing slot: `none` = rejected -/
def argsDefine {V} [DecidableEq V] (undef : V) (slot : ASlot V) (env : Nat → V) (d : Desc V) (ext : Bool) :
    Option (ASlot V × (Nat → V)) :=
  match slot with
  | .mapped w e c ref =>
    let existing : VProp V := { value := some (env ref), writable := true, configurable := c, enumerable := e,
                                accessor := false, getterFunc := none, setterFunc := none }     -- :111-116
    match defineOwn undef (some (.prop existing)) d ext with                                      -- :118
    | none => none                                                                                -- :119-121
    | some (.prop prop) =>                                                                        -- :123
      let env' := if !prop.accessor then envSet env ref (prop.value.getD undef) else env          -- :124-126
      if prop.accessor || !prop.writable then some (.ord (.prop prop), env')                      -- :127-130 a._put(name, prop)
      else some (.mapped w prop.enumerable prop.configurable ref, env')                           -- :131-132
    | some (.plain v) => some (.mapped w true true ref, envSet env ref v)                         -- :133-137
  | .ord s =>
    match defineOwn undef (some s) d ext with                                                     -- :144 baseObject.defineOwnPropertyStr
    | none => none
    | some s' => some (.ord s', env)

/-- the own-slot part of `argumentsObject.setOwnStr` :44-55 (a mapped slot) / `baseObject.setOwnStr` :493-502 (data slot):
`none` = not writable -/
def argsSetOwn {V} (slot : ASlot V) (env : Nat → V) (v : V) : Option (ASlot V × (Nat → V)) :=
  match slot with
  | .mapped w e c ref => if !w then none else some (.mapped w e c ref, envSet env ref v)         -- :46-52
  | .ord (.plain _) => some (.ord (.plain v), env)
  | .ord (.prop p) =>
    if !p.isWritable then none
    else match p.setterFunc with
      | none => some (.ord (.prop { p with value := some v }), env)
      | some _ => some (.ord (.prop p), env)        -- setter call: no change of the slot

/-- `argumentsObject.deleteStr` :61-72: `true` = the slot is removed -/
def argsDelete {V} : ASlot V → Bool
  | .mapped _ _ c _ => c                      -- checkDeleteProp(&prop.valueProperty)
  | .ord s => checkDeleteStored s
where checkDeleteStored : Stored V → Bool
  | .prop p => p.configurable
  | .plain _ => true

theorem spec_mapped {V} (undef : V) (env : Nat → V) (w e c : Bool) (ref : Nat) :
    (ASlot.mapped w e c ref : ASlot V).spec undef env = .data (env ref) w e c := by
  cases w <;> cases e <;> cases c <;> simp [ASlot.spec, ASlot.view, absProp]

/-- [[DefineOwnProperty]] on a mapped (or unmapped) arguments slot = ValidateAndApplyPropertyDescriptor on the property
the slot stands for, and the invariant is kept. -/
theorem argsDefine_refines {V} [DecidableEq V] (undef : V) (slot : ASlot V) (env : Nat → V) (d : Desc V) (ext : Bool)
    (hw : d.wellFormed = true) (hok : slot.ok = true) :
    (argsDefine undef slot env d ext).map (fun r => r.1.spec undef r.2) =
      validateAndApply undef (some (slot.spec undef env)) d ext
    ∧ ∀ r, argsDefine undef slot env d ext = some r → r.1.ok = true := by
  cases slot with
  | ord s =>
    have hinv : ∀ t, some s = some t → t.repInv = true := by intro t e; cases e; exact hok
    have hc := cell_any undef (some s) d ext hw hinv
    simp only [argsDefine]
    cases hd : defineOwn undef (some s) d ext with
    | none =>
      have := hc.1; rw [hd] at this
      exact ⟨by simpa [ASlot.spec, ASlot.view] using this, by intro r hr; cases hr⟩
    | some s' =>
      have h1 := hc.1; rw [hd] at h1
      refine ⟨by simpa [ASlot.spec, ASlot.view] using h1, ?_⟩
      intro r hr; cases hr
      exact hc.2 s' hd
  | mapped w e c ref =>
    simp only [ASlot.ok] at hok; subst hok
    let existing : VProp V := { value := some (env ref), writable := true, configurable := c, enumerable := e,
                                accessor := false, getterFunc := none, setterFunc := none }
    have hinv : ∀ t, some (Stored.prop existing) = some t → t.repInv = true := by
      intro t e'; cases e'; simp [Stored.repInv, VProp.repInv, existing]
    have hc := cell_any undef (some (.prop existing)) d ext hw hinv
    have habs : absProp undef (.prop existing) = .data (env ref) true e c := by simp [absProp, existing]
    rw [spec_mapped]
    simp only [argsDefine]
    cases hd : defineOwn undef (some (Stored.prop existing)) d ext with
    | none =>
      have h1 := hc.1; rw [hd] at h1
      simp only [Option.map, habs] at h1
      exact ⟨by simpa using h1, by intro r hr; cases hr⟩
    | some val =>
      have h1 := hc.1; rw [hd] at h1
      simp only [Option.map, habs] at h1
      have hri := hc.2 val hd
      cases val with
      | plain v =>
        refine ⟨?_, ?_⟩
        · simp only [Option.map]; rw [spec_mapped, ← h1]; simp [absProp, envSet]
        · intro r hr; cases hr; rfl
      | prop p =>
        simp only [Stored.repInv, VProp.repInv] at hri
        by_cases ha : p.accessor = true
        · simp only [ha, Bool.true_or, if_true, Bool.not_true, Bool.false_eq_true, if_false]
          refine ⟨?_, ?_⟩
          · simp only [Option.map, ASlot.spec, ASlot.view]; exact h1
          · intro r hr; cases hr; simp [ASlot.ok, Stored.repInv, VProp.repInv, ha] at hri ⊢; exact hri
        · have ha' : p.accessor = false := by simpa using ha
          simp only [ha', Bool.false_eq_true, if_false, Bool.and_eq_true, Bool.not_eq_true', Option.isSome_iff_ne_none] at hri
          by_cases hpw : p.writable = true
          · simp only [ha', hpw, Bool.not_false, Bool.not_true, Bool.or_self, Bool.false_eq_true, if_false, if_true]
            refine ⟨?_, ?_⟩
            · simp only [Option.map]; rw [spec_mapped, ← h1]
              simp [absProp, ha', hpw, envSet]
            · intro r hr; cases hr; rfl
          · have hpw' : p.writable = false := by simpa using hpw
            simp only [ha', hpw', Bool.not_false, Bool.or_true, if_true]
            refine ⟨?_, ?_⟩
            · simp only [Option.map, ASlot.spec, ASlot.view]; exact h1
            · intro r hr; cases hr
              simp [ASlot.ok, Stored.repInv, VProp.repInv, ha', hri, Option.isSome_iff_ne_none.mpr hri.2]

/-- the own-slot part of [[Set]]: a mapped slot behaves as the writable data property it stands for -/
theorem argsSetOwn_mapped {V} (undef : V) (env : Nat → V) (e c : Bool) (ref : Nat) (v : V) :
    (argsSetOwn (ASlot.mapped true e c ref) env v).map (fun r => r.1.spec undef r.2) = some (.data v true e c) := by
  simp [argsSetOwn, Option.map, spec_mapped, envSet]

/-- [[Delete]]: a mapped slot is removed iff the property it stands for is configurable -/
theorem argsDelete_spec {V} (undef : V) (env : Nat → V) (slot : ASlot V) :
    argsDelete slot = (slot.spec undef env).configurable := by
  cases slot with
  | mapped w e c ref => rw [spec_mapped]; rfl
  | ord s =>
    cases s with
    | plain x => rfl
    | prop p => cases h : p.accessor <;> simp [argsDelete, argsDelete.checkDeleteStored, ASlot.spec, ASlot.view, absProp, h, SProp.configurable]

end GojaModel.C04
