/-
  C04 — exotic delta: integer-indexed exotic objects (typed arrays, ECMA-262 10.4.5; typedarrays.go:760-930) on top of the
  ordinary-object heap.  Core Lean only (the driver runs these definitions for the `u8` kind).
  An object `o` with `typed o = some elems` answers every canonical-numeric key (`Key.idx n` — the only numeric keys of the
  correspondence) from its element list and never from its ordinary part or its prototype chain.
-/
import GojaModel.C04.Model
namespace GojaModel.C04

structure XHeap (V : Type) where
  h : Heap V
  typed : Nat → Option (List V)

inductive SetOut (V : Type) where
  | fail
  | ok
  | call (f : V) (this : Recv) (arg : V)
  deriving Repr

variable {V : Type}

/-- [[GetOwnProperty]] 10.4.5.1 -/
def xGetOwn (xh : XHeap V) (o : Nat) (k : Key) : Option (SProp V) :=
  match xh.typed o, k with
  | some els, .idx n => (els[n]?).map (fun v => SProp.data v true true true)
  | _, _ => lookup (xh.h o).props k

def setElem (xh : XHeap V) (o : Nat) (els : List V) (n : Nat) (v : V) : XHeap V :=
  { xh with typed := fun i => if i = o then some (els.set n v) else xh.typed i }

/-- [[DefineOwnProperty]] 10.4.5.3; `coerce` = ToNumber + the element type's conversion (TypedArraySetElement) -/
def xDefine [DecidableEq V] (undef : V) (coerce : V → V) (xh : XHeap V) (o : Nat) (k : Key) (d : Desc V) : XHeap V × Bool :=
  match xh.typed o, k with
  | some els, .idx n =>
    if !(decide (n < els.length)) then (xh, false)                       -- 3.b.i  not a valid integer index
    else if d.configurable == .fFalse then (xh, false)                   -- ii
    else if d.enumerable == .fFalse then (xh, false)                     -- iii
    else if d.isAccessor then (xh, false)                                -- iv
    else if d.writable == .fFalse then (xh, false)                       -- v
    else match d.value with                                              -- vi
      | some v => (setElem xh o els n (coerce v), true)
      | none => (xh, true)
  | _, _ =>
    let r := sDefine undef xh.h o k d
    ({ xh with h := r.1 }, r.2)

/-- [[HasProperty]] 10.4.5.2 along a chain -/
def xHas (xh : XHeap V) : List Nat → Key → Bool
  | [], _ => false
  | o :: rest, k =>
    match xh.typed o, k with
    | some els, .idx n => decide (n < els.length)                        -- no prototype walk for a numeric key
    | _, _ => (lookup (xh.h o).props k).isSome || xHas xh rest k

/-- [[Get]] 10.4.5.4 along a chain -/
def xGet (undef : V) (xh : XHeap V) : List Nat → Key → Recv → GetRes V
  | [], _, _ => .val undef
  | o :: rest, k, r =>
    match xh.typed o, k with
    | some els, .idx n => .val ((els[n]?).getD undef)                    -- TypedArrayGetElement; undefined when out of range
    | _, _ =>
      match lookup (xh.h o).props k with
      | none => xGet undef xh rest k r
      | some (.data v _ _ _) => .val v
      | some (.acc g _ _ _) => (match g with
        | none => .val undef
        | some f => .call f r)

/-- steps 2.b-2.e of OrdinarySetWithOwnDescriptor with the receiver's own (possibly exotic) methods -/
def xSetData [DecidableEq V] (undef : V) (coerce : V → V) (xh : XHeap V) (k : Key) (v : V) (r : Recv) : XHeap V × SetOut V :=
  match r with
  | .prim => (xh, .fail)
  | .obj ro =>
    match xGetOwn xh ro k with
    | some (.acc ..) => (xh, .fail)
    | some (.data _ w _ _) =>
      if !w then (xh, .fail)
      else let x := xDefine undef coerce xh ro k (descValue v); (x.1, if x.2 then .ok else .fail)
    | none => let x := xDefine undef coerce xh ro k (descFull v); (x.1, if x.2 then .ok else .fail)

/-- [[Set]] 10.4.5.5 / OrdinarySet along a chain -/
def xSet [DecidableEq V] (undef : V) (coerce : V → V) (xh : XHeap V) : List Nat → Key → V → Recv → XHeap V × SetOut V
  | [], k, v, r => xSetData undef coerce xh k v r
  | o :: rest, k, v, r =>
    match xh.typed o, k with
    | some els, .idx n =>
      if r == .obj o then                                                -- 1.b.i  SameValue(O, Receiver)
        ((if n < els.length then setElem xh o els n (coerce v) else xh), .ok)
      else if !(decide (n < els.length)) then (xh, .ok)                  -- 1.b.ii not a valid index: true, nothing happens
      else xSetData undef coerce xh k v r                                -- OrdinarySet with the element as writable data ownDesc
    | _, _ =>
      match lookup (xh.h o).props k with
      | none => xSet undef coerce xh rest k v r
      | some (.data _ w _ _) => if !w then (xh, .fail) else xSetData undef coerce xh k v r
      | some (.acc _ s _ _) => (match s with
        | none => (xh, .fail)
        | some f => (xh, .call f r v))

/-- [[Delete]] 10.4.5.6 -/
def xDelete (xh : XHeap V) (o : Nat) (k : Key) : XHeap V × Bool :=
  match xh.typed o, k with
  | some els, .idx n => (xh, !(decide (n < els.length)))
  | _, _ => let r := sDelete xh.h o k; ({ xh with h := r.1 }, r.2)

/-- [[OwnPropertyKeys]] 10.4.5.7 -/
def xOwnKeys (xh : XHeap V) (o : Nat) : List Key :=
  match xh.typed o with
  | some els => (List.range els.length).map Key.idx ++ (ownKeys (xh.h o).props).filter (fun k => !k.isIdx)
  | none => ownKeys (xh.h o).props

/-- Object.freeze / Object.seal: [[PreventExtensions]], then DefinePropertyOrThrow per key — the first element of a non-empty
typed array rejects `{configurable:false}`, so the call throws after making the object non-extensible -/
def xSetIntegrity (xh : XHeap V) (o : Nat) (frozen : Bool) : XHeap V × Bool :=
  match xh.typed o with
  | some els =>
    if els.length = 0 then ({ xh with h := sSetIntegrity xh.h o frozen }, true)
    else ({ xh with h := sPreventExt xh.h o }, false)
  | none => ({ xh with h := sSetIntegrity xh.h o frozen }, true)

def xTestIntegrity (xh : XHeap V) (o : Nat) (frozen : Bool) : Bool :=
  match xh.typed o with
  | some els => els.length == 0 && sTestIntegrity (xh.h o) frozen
  | none => sTestIntegrity (xh.h o) frozen

end GojaModel.C04
