/-
  C04 — theorems about the integer-indexed exotic layer (Typed.lean): it is a conservative extension of the ordinary heap,
  and over arbitrary histories a typed array keeps its element count, so that "index n is an own property" never changes.
-/
import GojaModel.C04.Typed
import GojaModel.C04.Hist
namespace GojaModel.C04
set_option linter.unusedSimpArgs false
set_option linter.unusedVariables false

variable {V : Type}

def NoTyped (xh : XHeap V) : Prop := ∀ o, xh.typed o = none

def outOf : Act (SProp V) V → SetOut V
  | .fail => .fail
  | .write .. => .ok
  | .call f t a => .call f t a

theorem xGetOwn_ord (xh : XHeap V) (hn : NoTyped xh) (o : Nat) (k : Key) : xGetOwn xh o k = lookup (xh.h o).props k := by
  simp [xGetOwn, hn o]

theorem xDefine_ord [DecidableEq V] (undef : V) (c : V → V) (xh : XHeap V) (hn : NoTyped xh) (o : Nat) (k : Key) (d : Desc V) :
    xDefine undef c xh o k d = ({ xh with h := (sDefine undef xh.h o k d).1 }, (sDefine undef xh.h o k d).2) := by
  simp [xDefine, hn o]

theorem xHas_ord (xh : XHeap V) (hn : NoTyped xh) (k : Key) : ∀ chain, xHas xh chain k = sHas xh.h chain k := by
  intro chain
  induction chain with
  | nil => rfl
  | cons o rest ih => simp [xHas, sHas, hn o, ih]

theorem xGet_ord (undef : V) (xh : XHeap V) (hn : NoTyped xh) (k : Key) (r : Recv) :
    ∀ chain, xGet undef xh chain k r = sGet undef xh.h chain k r := by
  intro chain
  induction chain with
  | nil => rfl
  | cons o rest ih => simp only [xGet, sGet, hn o, ih]; rfl

theorem xDelete_ord (xh : XHeap V) (hn : NoTyped xh) (o : Nat) (k : Key) :
    xDelete xh o k = ({ xh with h := (sDelete xh.h o k).1 }, (sDelete xh.h o k).2) := by
  simp [xDelete, hn o]

theorem xOwnKeys_ord (xh : XHeap V) (hn : NoTyped xh) (o : Nat) : xOwnKeys xh o = ownKeys (xh.h o).props := by
  simp [xOwnKeys, hn o]

theorem xSetData_ord [DecidableEq V] (undef : V) (c : V → V) (xh : XHeap V) (hn : NoTyped xh) (k : Key) (v : V) (r : Recv) :
    xSetData undef c xh k v r =
      ({ xh with h := applyAct xh.h (setData undef xh.h.view k v r) }, outOf (setData undef xh.h.view k v r)) := by
  cases r with
  | prim => simp [xSetData, setData, applyAct, outOf]
  | obj ro =>
    simp only [xSetData, setData, xGetOwn_ord xh hn, Heap.view]
    cases hl : lookup (xh.h ro).props k with
    | none =>
      simp only [xDefine_ord undef c xh hn, sDefine, hl]
      cases validateAndApply undef none (descFull v) (xh.h ro).ext <;> simp [applyAct, outOf]
    | some p =>
      cases p with
      | acc g s e cf => simp [applyAct, outOf]
      | data v0 w e cf =>
        cases w with
        | false => simp [applyAct, outOf]
        | true =>
          simp only [Bool.not_true, Bool.false_eq_true, if_false, xDefine_ord undef c xh hn, sDefine, hl]
          cases validateAndApply undef (some (SProp.data v0 true e cf)) (descValue v) (xh.h ro).ext <;> simp [applyAct, outOf]

/-- without typed arrays the exotic [[Set]] is OrdinarySet -/
theorem xSet_ord [DecidableEq V] (undef : V) (c : V → V) (xh : XHeap V) (hn : NoTyped xh) (k : Key) (v : V) (r : Recv) :
    ∀ chain, xSet undef c xh chain k v r =
      ({ xh with h := applyAct xh.h (ordinarySet undef xh.h.view chain k v r) }, outOf (ordinarySet undef xh.h.view chain k v r)) := by
  intro chain
  induction chain with
  | nil => simp only [xSet, ordinarySet]; exact xSetData_ord undef c xh hn k v r
  | cons o rest ih =>
    simp only [xSet, ordinarySet, hn o, Heap.view]
    cases hl : lookup (xh.h o).props k with
    | none => simpa [Heap.view] using ih
    | some p =>
      cases p with
      | data v0 w e cf =>
        cases w with
        | false => simp [applyAct, outOf]
        | true => simpa [Heap.view] using xSetData_ord undef c xh hn k v r
      | acc g s e cf => cases s <;> simp [applyAct, outOf]

/-! ### the element count of a typed array is fixed -/

inductive XOp (V : Type) where
  | define (o : Nat) (k : Key) (d : Desc V)
  | set (chain : List Nat) (k : Key) (v : V) (r : Recv)
  | delete (o : Nat) (k : Key)
  | integrity (o : Nat) (frozen : Bool)
  | preventExt (o : Nat)
  | setProto (fuel o : Nat) (p : Option Nat)

def xStep [DecidableEq V] (undef : V) (c : V → V) (xh : XHeap V) : XOp V → XHeap V
  | .define o k d => (xDefine undef c xh o k d).1
  | .set ch k v r => (xSet undef c xh ch k v r).1
  | .delete o k => (xDelete xh o k).1
  | .integrity o fr => (xSetIntegrity xh o fr).1
  | .preventExt o => { xh with h := sPreventExt xh.h o }
  | .setProto f o p => { xh with h := (sSetProto xh.h f o p).1 }

def xRun [DecidableEq V] (undef : V) (c : V → V) (xh : XHeap V) (ops : List (XOp V)) : XHeap V := ops.foldl (xStep undef c) xh

/-- same typed objects, same element counts -/
def SameShape (a b : XHeap V) : Prop := ∀ o, (b.typed o).map List.length = (a.typed o).map List.length

theorem sameShape_refl (a : XHeap V) : SameShape a a := fun _ => rfl
theorem sameShape_trans {a b c : XHeap V} (h1 : SameShape a b) (h2 : SameShape b c) : SameShape a c :=
  fun o => (h2 o).trans (h1 o)

theorem setElem_shape (xh : XHeap V) (o : Nat) (els : List V) (n : Nat) (v : V) (h : xh.typed o = some els) :
    SameShape xh (setElem xh o els n v) := by
  intro o'
  by_cases e : o' = o
  · subst e; simp [setElem, h]
  · simp [setElem, e]

theorem xDefine_shape [DecidableEq V] (undef : V) (c : V → V) (xh : XHeap V) (o : Nat) (k : Key) (d : Desc V) :
    SameShape xh (xDefine undef c xh o k d).1 := by
  unfold xDefine
  cases ht : xh.typed o with
  | none => exact sameShape_refl _
  | some els =>
    cases k with
    | idx n =>
      simp only
      split
      · exact sameShape_refl _
      · split
        · exact sameShape_refl _
        · split
          · exact sameShape_refl _
          · split
            · exact sameShape_refl _
            · split
              · exact sameShape_refl _
              · cases d.value with
                | none => exact sameShape_refl _
                | some v => exact setElem_shape xh o els n _ ht
    | str s => exact sameShape_refl _
    | sym s => exact sameShape_refl _

theorem xSetData_shape [DecidableEq V] (undef : V) (c : V → V) (xh : XHeap V) (k : Key) (v : V) (r : Recv) :
    SameShape xh (xSetData undef c xh k v r).1 := by
  unfold xSetData
  cases r with
  | prim => exact sameShape_refl _
  | obj ro =>
    simp only
    cases xGetOwn xh ro k with
    | none => exact xDefine_shape undef c xh ro k _
    | some p =>
      cases p with
      | acc g s e cf => exact sameShape_refl _
      | data v0 w e cf =>
        simp only
        split
        · exact sameShape_refl _
        · exact xDefine_shape undef c xh ro k _

theorem xSet_shape [DecidableEq V] (undef : V) (c : V → V) (xh : XHeap V) (k : Key) (v : V) (r : Recv) :
    ∀ chain, SameShape xh (xSet undef c xh chain k v r).1 := by
  intro chain
  induction chain with
  | nil => exact xSetData_shape undef c xh k v r
  | cons o rest ih =>
    unfold xSet
    cases ht : xh.typed o with
    | none =>
      simp only
      cases lookup (xh.h o).props k with
      | none => exact ih
      | some p =>
        cases p with
        | data v0 w e cf => simp only; split; exact sameShape_refl _; exact xSetData_shape undef c xh k v r
        | acc g s e cf => cases s <;> exact sameShape_refl _
    | some els =>
      cases k with
      | idx n =>
        simp only
        split
        · split
          · exact setElem_shape xh o els n _ ht
          · exact sameShape_refl _
        · split
          · exact sameShape_refl _
          · exact xSetData_shape undef c xh (Key.idx n) v r
      | str s =>
        simp only
        cases lookup (xh.h o).props (Key.str s) with
        | none => exact ih
        | some p =>
          cases p with
          | data v0 w e cf => simp only; split; exact sameShape_refl _; exact xSetData_shape undef c xh (Key.str s) v r
          | acc g s' e cf => cases s' <;> exact sameShape_refl _
      | sym s =>
        simp only
        cases lookup (xh.h o).props (Key.sym s) with
        | none => exact ih
        | some p =>
          cases p with
          | data v0 w e cf => simp only; split; exact sameShape_refl _; exact xSetData_shape undef c xh (Key.sym s) v r
          | acc g s' e cf => cases s' <;> exact sameShape_refl _

theorem xStep_shape [DecidableEq V] (undef : V) (c : V → V) (xh : XHeap V) (op : XOp V) : SameShape xh (xStep undef c xh op) := by
  cases op with
  | define o k d => exact xDefine_shape undef c xh o k d
  | set ch k v r => exact xSet_shape undef c xh k v r ch
  | delete o k =>
    simp only [xStep, xDelete]
    cases xh.typed o with
    | none => exact sameShape_refl _
    | some els => cases k <;> exact sameShape_refl _
  | integrity o fr =>
    simp only [xStep, xSetIntegrity]
    cases xh.typed o with
    | none => exact sameShape_refl _
    | some els => simp only; split <;> exact sameShape_refl _
  | preventExt o => exact sameShape_refl _
  | setProto f o p => exact sameShape_refl _

theorem xRun_shape [DecidableEq V] (undef : V) (c : V → V) (ops : List (XOp V)) :
    ∀ xh : XHeap V, SameShape xh (xRun undef c xh ops) := by
  induction ops with
  | nil => intro xh; exact sameShape_refl _
  | cons op ops ih =>
    intro xh
    exact sameShape_trans (xStep_shape undef c xh op) (ih _)

/-- what the element count decides: own-ness of an index, [[HasProperty]] (no prototype walk), [[Delete]], the index keys -/
theorem typed_index_facts (xh : XHeap V) (o : Nat) (els : List V) (h : xh.typed o = some els) (n : Nat) (rest : List Nat) :
    ((xGetOwn xh o (.idx n)).isSome = decide (n < els.length))
    ∧ xHas xh (o :: rest) (.idx n) = decide (n < els.length)
    ∧ (xDelete xh o (.idx n)).2 = !(decide (n < els.length))
    ∧ (Key.idx n ∈ xOwnKeys xh o ↔ n < els.length) := by
  refine ⟨?_, ?_, ?_, ?_⟩
  · simp only [xGetOwn, h, Option.isSome_map]
    by_cases hn : n < els.length
    · simp [hn, List.getElem?_eq_getElem hn]
    · simp [hn, List.getElem?_eq_none (Nat.le_of_not_lt hn)]
  · simp [xHas, h]
  · simp [xDelete, h]
  · simp only [xOwnKeys, h, List.mem_append, List.mem_map, List.mem_range, List.mem_filter]
    constructor
    · rintro (⟨m, hm, e⟩ | ⟨_, hk⟩)
      · cases e; exact hm
      · simp [Key.isIdx] at hk
    · intro hn; exact Or.inl ⟨n, hn, rfl⟩

/-! ### every exotic step acts on the ORDINARY part of the heap as zero or one ordinary steps — so the history-level
essential invariants of the ordinary heap (Hist.lean) hold along histories that involve typed arrays -/

def OrdTrace [DecidableEq V] (undef : V) (h h' : Heap V) : Prop :=
  ∃ l : List (SOp V), (∀ op ∈ l, op.wf = true) ∧ h' = sRun undef h l

theorem ordTrace_refl [DecidableEq V] (undef : V) (h : Heap V) : OrdTrace undef h h := ⟨[], by simp, rfl⟩

theorem ordTrace_trans [DecidableEq V] (undef : V) {a b c : Heap V} (h1 : OrdTrace undef a b) (h2 : OrdTrace undef b c) :
    OrdTrace undef a c := by
  obtain ⟨l1, w1, e1⟩ := h1
  obtain ⟨l2, w2, e2⟩ := h2
  refine ⟨l1 ++ l2, ?_, ?_⟩
  · intro op hm
    rcases List.mem_append.mp hm with h | h
    · exact w1 op h
    · exact w2 op h
  · rw [e2, e1]; simp [sRun, List.foldl_append]

theorem xDefine_trace [DecidableEq V] (undef : V) (c : V → V) (xh : XHeap V) (o : Nat) (k : Key) (d : Desc V)
    (hw : d.wellFormed = true) : OrdTrace undef xh.h (xDefine undef c xh o k d).1.h := by
  have hord : OrdTrace undef xh.h (sDefine undef xh.h o k d).1 :=
    ⟨[SOp.define o k d], by simpa [SOp.wf] using hw, by simp [sRun, sStep]⟩
  unfold xDefine
  cases ht : xh.typed o with
  | none => exact hord
  | some els =>
    cases k with
    | idx n =>
      simp only
      repeat' split
      all_goals first | exact ordTrace_refl undef xh.h | (simp only [setElem]; exact ordTrace_refl undef xh.h)
    | str s => exact hord
    | sym s => exact hord

theorem descValue_wf' (v : V) : (descValue v).wellFormed = true := by simp [descValue, Desc.wellFormed, Desc.isAccessor]
theorem descFull_wf' (v : V) : (descFull v).wellFormed = true := by simp [descFull, Desc.wellFormed, Desc.isAccessor]

theorem xSetData_trace [DecidableEq V] (undef : V) (c : V → V) (xh : XHeap V) (k : Key) (v : V) (r : Recv) :
    OrdTrace undef xh.h (xSetData undef c xh k v r).1.h := by
  unfold xSetData
  cases r with
  | prim => exact ordTrace_refl undef xh.h
  | obj ro =>
    simp only
    cases xGetOwn xh ro k with
    | none => exact xDefine_trace undef c xh ro k _ (descFull_wf' v)
    | some p =>
      cases p with
      | acc g s e cf => exact ordTrace_refl undef xh.h
      | data v0 w e cf =>
        simp only
        split
        · exact ordTrace_refl undef xh.h
        · exact xDefine_trace undef c xh ro k _ (descValue_wf' v)

theorem xSet_trace [DecidableEq V] (undef : V) (c : V → V) (xh : XHeap V) (k : Key) (v : V) (r : Recv) :
    ∀ chain, OrdTrace undef xh.h (xSet undef c xh chain k v r).1.h := by
  intro chain
  induction chain with
  | nil => exact xSetData_trace undef c xh k v r
  | cons o rest ih =>
    unfold xSet
    cases ht : xh.typed o with
    | none =>
      simp only
      cases lookup (xh.h o).props k with
      | none => exact ih
      | some p =>
        cases p with
        | data v0 w e cf => simp only; split; exact ordTrace_refl undef xh.h; exact xSetData_trace undef c xh k v r
        | acc g s e cf => cases s <;> exact ordTrace_refl undef xh.h
    | some els =>
      cases k with
      | idx n =>
        simp only
        split
        · split
          · simp only [setElem]; exact ordTrace_refl undef xh.h
          · exact ordTrace_refl undef xh.h
        · split
          · exact ordTrace_refl undef xh.h
          · exact xSetData_trace undef c xh (Key.idx n) v r
      | str s =>
        simp only
        cases lookup (xh.h o).props (Key.str s) with
        | none => exact ih
        | some p =>
          cases p with
          | data v0 w e cf => simp only; split; exact ordTrace_refl undef xh.h; exact xSetData_trace undef c xh (Key.str s) v r
          | acc g s' e cf => cases s' <;> exact ordTrace_refl undef xh.h
      | sym s =>
        simp only
        cases lookup (xh.h o).props (Key.sym s) with
        | none => exact ih
        | some p =>
          cases p with
          | data v0 w e cf => simp only; split; exact ordTrace_refl undef xh.h; exact xSetData_trace undef c xh (Key.sym s) v r
          | acc g s' e cf => cases s' <;> exact ordTrace_refl undef xh.h

def XOp.wf : XOp V → Bool
  | .define _ _ d => d.wellFormed
  | _ => true

theorem xStep_trace [DecidableEq V] (undef : V) (c : V → V) (xh : XHeap V) (op : XOp V) (hw : op.wf = true) :
    OrdTrace undef xh.h (xStep undef c xh op).h := by
  cases op with
  | define o k d => exact xDefine_trace undef c xh o k d (by simpa [XOp.wf] using hw)
  | set ch k v r => exact xSet_trace undef c xh k v r ch
  | delete o k =>
    simp only [xStep, xDelete]
    have hord : OrdTrace undef xh.h (sDelete xh.h o k).1 := ⟨[SOp.delete o k], by simp [SOp.wf], by simp [sRun, sStep]⟩
    cases xh.typed o with
    | none => exact hord
    | some els => cases k with
      | idx n => exact ordTrace_refl undef xh.h
      | str s => exact hord
      | sym s => exact hord
  | integrity o fr =>
    simp only [xStep, xSetIntegrity]
    have hI : OrdTrace undef xh.h (sSetIntegrity xh.h o fr) := ⟨[SOp.integrity o fr], by simp [SOp.wf], by simp [sRun, sStep]⟩
    have hP : OrdTrace undef xh.h (sPreventExt xh.h o) := ⟨[SOp.preventExt o], by simp [SOp.wf], by simp [sRun, sStep]⟩
    cases xh.typed o with
    | none => exact hI
    | some els => simp only; split; exact hI; exact hP
  | preventExt o => exact ⟨[SOp.preventExt o], by simp [SOp.wf], by simp [xStep, sRun, sStep]⟩
  | setProto f o p => exact ⟨[SOp.setProto f o p], by simp [SOp.wf], by simp [xStep, sRun, sStep]⟩

theorem xRun_trace [DecidableEq V] (undef : V) (c : V → V) (ops : List (XOp V)) :
    ∀ xh : XHeap V, (∀ op ∈ ops, op.wf = true) → OrdTrace undef xh.h (xRun undef c xh ops).h := by
  induction ops with
  | nil => intro xh _; exact ordTrace_refl undef xh.h
  | cons op ops ih =>
    intro xh hw
    exact ordTrace_trans undef (xStep_trace undef c xh op (hw op (List.mem_cons_self)))
      (ih _ (fun o ho => hw o (List.mem_cons_of_mem _ ho)))

end GojaModel.C04
