/-
  C04 helper lemmas, part 2b: [[Get]] / [[HasProperty]] / [[Delete]] — the key-kind copies coincide and refine the spec.
-/
import GojaModel.C04.LemmasSet
namespace GojaModel.C04
set_option linter.unusedSimpArgs false
set_option linter.unusedVariables false

theorem getSym_eq_getStr {V} (undef : V) (mv : MView V) (k : Key) (r : Recv) :
    ∀ chain, getSym undef mv chain k r = getStr undef mv chain k r := by
  intro chain
  induction chain with
  | nil => rfl
  | cons o rest ih => simp only [getSym, getStr, ih]

theorem getStr_refines {V} (undef : V) (mv : MView V) (hinv : RepInvView mv) (k : Key) (r : Recv) :
    ∀ chain, getStr undef mv chain k r = ordinaryGet undef (mv.abs undef) chain k r := by
  intro chain
  induction chain with
  | nil => rfl
  | cons o rest ih =>
    cases hown : mv.own o k with
    | none => simp only [getStr, ordinaryGet, hown, abs_own_none undef mv o k hown, ih]
    | some s =>
      have hri := hinv o k s hown
      cases s with
      | plain x => simp [getStr, ordinaryGet, hown, abs_own_some undef mv o k _ hown, absProp]
      | prop p =>
        obtain ⟨pv, pw, pc, pe, pa, pg, ps⟩ := p
        cases pa
        · simp [Stored.repInv, VProp.repInv] at hri
          obtain ⟨⟨hg, hs⟩, hv⟩ := hri
          subst hg; subst hs
          cases pv with
          | none => simp at hv
          | some x => simp [getStr, ordinaryGet, hown, abs_own_some undef mv o k _ hown, absProp, VProp.getRes]
        · simp [Stored.repInv, VProp.repInv] at hri
          obtain ⟨hpw, hpv⟩ := hri
          subst hpw; subst hpv
          cases pg <;> simp [getStr, ordinaryGet, hown, abs_own_some undef mv o k _ hown, absProp, VProp.getRes]

theorem hasSym_eq_hasStr {V} (mv : MView V) (k : Key) : ∀ chain, hasPropertySym mv chain k = hasPropertyStr mv chain k := by
  intro chain
  induction chain with
  | nil => rfl
  | cons o rest ih => simp only [hasPropertySym, hasPropertyStr, ih]

theorem hasStr_refines {V} (undef : V) (mv : MView V) (k : Key) :
    ∀ chain, hasPropertyStr mv chain k = ordinaryHas (mv.abs undef) chain k := by
  intro chain
  induction chain with
  | nil => rfl
  | cons o rest ih =>
    simp only [hasPropertyStr, ordinaryHas, ih, MView.abs]
    cases mv.own o k <;> simp

theorem deleteStr_refines {V} (undef : V) (mv : MView V) (o : Nat) (k : Key) :
    deleteStr mv o k = ordinaryDelete (mv.abs undef) o k := by
  cases hown : mv.own o k with
  | none => simp [deleteStr, ordinaryDelete, hown, abs_own_none undef mv o k hown]
  | some s =>
    cases s with
    | plain x => simp [deleteStr, ordinaryDelete, hown, abs_own_some undef mv o k _ hown, absProp, checkDelete, SProp.configurable]
    | prop p =>
      cases hc : p.configurable <;> cases ha : p.accessor <;>
        simp [deleteStr, ordinaryDelete, hown, abs_own_some undef mv o k _ hown, absProp, checkDelete, SProp.configurable, hc, ha]

end GojaModel.C04
