/-
  C04 supporting tie — KeyKindCopies: the branch structure of the triplicated [[Set]]/[[DefineOwnProperty]]/[[Delete]]
  families of /repo/object.go (regenerated on every run by extract/c04.go into GojaModel.Generated.C04, Str/Idx/Sym
  suffixes erased, key parameter renamed KEY, error messages dropped) against the hand-written expectation of the
  LEGITIMATE differences between the copies:
    * `_defineOwnProperty`                     — the exact statement list the Lean transcription was written from;
    * `Object.setStr/setIdx/setSym`            — identical text;
    * `_setForeignStr/_setForeignIdx`          — identical text; `setForeignSym` = symValues lookup prelude ++ the same text;
    * `setOwnSym`, `defineOwnPropertySym`, `deleteSym` — symValues storage instead of values/propNames (Expected below);
    * `getStr/getIdx/getSym` (+ `getWithOwnProp`), `hasPropertyStr/Idx/Sym`, `checkDelete` — the text `Model.lean` part 2b transcribes;
    * the Idx copies of setOwn/define/delete delegate to the Str copy with `idx.string()`; `setForeignIdx` has the
      `idxPropCount == 0` fast path.
  A failing theorem names the copy that drifted.  The obligation proper is `setStr_eq_setIdx_eq_setSym` on the three
  Lean transcriptions plus the key-kind-rotating correspondence.
-/
import GojaModel.Generated.C04_KeyKindCopies
namespace GojaModel.C04.Tie
open GojaModel.Generated.C04

namespace Expected
def setOwnIdx : List String := [
  "return o.val.self.setOwn(KEY.string(), val, throw)"
]

def setOwnSym : List String := [
  "var ownDesc Value",
  "if o.symValues != nil",
  "ownDesc = o.symValues.get(KEY)",
  "end",
  "if ownDesc == nil",
  "proto := o.prototype",
  "if proto != nil",
  "res, handled := proto.self.setForeign(KEY, val, o.val, throw)",
  "if handled",
  "return res",
  "end",
  "end",
  "if !o.extensible",
  "typeErrorResult(throw)",
  "return false",
  "else",
  "if o.symValues == nil",
  "o.symValues = newOrderedMap(nil)",
  "end",
  "o.symValues.set(KEY, val)",
  "end",
  "return true",
  "end",
  "prop, ok := ownDesc.(*valueProperty)",
  "if ok",
  "if !prop.isWritable()",
  "typeErrorResult(throw)",
  "return false",
  "else",
  "prop.set(o.val, val)",
  "end",
  "else",
  "o.symValues.set(KEY, val)",
  "end",
  "return true"
]

def setForeignOuterStr : List String := [
  "return o._setForeign(KEY, o.values[KEY], val, receiver, throw)"
]

def setForeignOuterIdx : List String := [
  "idx := to(KEY)",
  "if idx != math.MaxUint32",
  "o.ensurePropOrder()",
  "if o.idxPropCount == 0",
  "return o._setForeign(KEY, nil, val, receiver, throw)",
  "end",
  "end",
  "return o.setForeign(KEY.string(), val, receiver, throw)"
]

def defineOwnStr : List String := [
  "existingVal := o.values[KEY]",
  "v, ok := o._defineOwnProperty(KEY, existingVal, descr, throw)",
  "if ok",
  "o.values[KEY] = v",
  "if existingVal == nil",
  "names := copyNamesIfNeeded(o.propNames, 1)",
  "o.propNames = append(names, KEY)",
  "end",
  "return true",
  "end",
  "return false"
]

def defineOwnIdx : List String := [
  "return o.val.self.defineOwnProperty(KEY.string(), desc, throw)"
]

def defineOwnSym : List String := [
  "var existingVal Value",
  "if o.symValues != nil",
  "existingVal = o.symValues.get(KEY)",
  "end",
  "v, ok := o._defineOwnProperty(KEY.descriptiveString().string(), existingVal, descr, throw)",
  "if ok",
  "if o.symValues == nil",
  "o.symValues = newOrderedMap(nil)",
  "end",
  "o.symValues.set(KEY, v)",
  "return true",
  "end",
  "return false"
]

def deleteOwnStr : List String := [
  "val, exists := o.values[KEY]",
  "if exists",
  "if !o.checkDelete(KEY, val, throw)",
  "return false",
  "end",
  "o._delete(KEY)",
  "end",
  "return true"
]

def deleteOwnIdx : List String := [
  "return o.val.self.delete(KEY.string(), throw)"
]

def deleteOwnSym : List String := [
  "if o.symValues != nil",
  "val := o.symValues.get(KEY)",
  "if val != nil",
  "if !o.checkDelete(KEY.descriptiveString().string(), val, throw)",
  "return false",
  "end",
  "o.symValues.remove(KEY)",
  "end",
  "end",
  "return true"
]

/-- `_defineOwnProperty` (object.go:650) statement by statement — the text that ModelDefine.lean `rejects`/`applyDesc`
transcribe.  A change of any condition, assignment or goto (e.g. a revert of d72dab1) breaks `defineOwnProperty_expected`. -/
def defineOwnProperty : List String := [
  "getterObj, _ := descr.Getter.(*Object)",
  "setterObj, _ := descr.Setter.(*Object)",
  "var existing *valueProperty",
  "if existingValue == nil",
  "if !o.extensible",
  "typeErrorResult(throw)",
  "return nil, false",
  "end",
  "existing = &valueProperty{}",
  "else",
  "existing, ok = existingValue.(*valueProperty)",
  "if !ok",
  "existing = &valueProperty{ writable: true, enumerable: true, configurable: true, value: existingValue, }",
  "end",
  "if !existing.configurable",
  "if descr.Configurable == FLAG_TRUE",
  "goto Reject",
  "end",
  "if descr.Enumerable != FLAG_NOT_SET && descr.Enumerable.Bool() != existing.enumerable",
  "goto Reject",
  "end",
  "end",
  "if existing.accessor && descr.IsData() || !existing.accessor && descr.IsAccessor()",
  "if !existing.configurable",
  "goto Reject",
  "end",
  "else",
  "if !existing.accessor",
  "if !existing.configurable",
  "if !existing.writable",
  "if descr.Writable == FLAG_TRUE",
  "goto Reject",
  "end",
  "if descr.Value != nil && !descr.Value.SameAs(existing.value)",
  "goto Reject",
  "end",
  "end",
  "end",
  "else",
  "if !existing.configurable",
  "if descr.Getter != nil && existing.getterFunc != getterObj || descr.Setter != nil && existing.setterFunc != setterObj",
  "goto Reject",
  "end",
  "end",
  "end",
  "end",
  "end",
  "if descr.Writable == FLAG_TRUE && descr.Enumerable == FLAG_TRUE && descr.Configurable == FLAG_TRUE && descr.Value != nil",
  "return descr.Value, true",
  "end",
  "if descr.Writable != FLAG_NOT_SET",
  "existing.writable = descr.Writable.Bool()",
  "end",
  "if descr.Enumerable != FLAG_NOT_SET",
  "existing.enumerable = descr.Enumerable.Bool()",
  "end",
  "if descr.Configurable != FLAG_NOT_SET",
  "existing.configurable = descr.Configurable.Bool()",
  "end",
  "if descr.Value != nil",
  "existing.value = descr.Value",
  "existing.getterFunc = nil",
  "existing.setterFunc = nil",
  "end",
  "if descr.Value != nil || descr.Writable != FLAG_NOT_SET",
  "if existing.accessor",
  "existing.getterFunc = nil",
  "existing.setterFunc = nil",
  "if descr.Writable == FLAG_NOT_SET",
  "existing.writable = false",
  "end",
  "end",
  "existing.accessor = false",
  "end",
  "if (descr.Getter != nil || descr.Setter != nil) && !existing.accessor",
  "existing.writable = false",
  "end",
  "if descr.Getter != nil",
  "existing.getterFunc = propGetter(o.val, descr.Getter, o.val.runtime)",
  "existing.value = nil",
  "existing.accessor = true",
  "end",
  "if descr.Setter != nil",
  "existing.setterFunc = propSetter(o.val, descr.Setter, o.val.runtime)",
  "existing.value = nil",
  "existing.accessor = true",
  "end",
  "if !existing.accessor && existing.value == nil",
  "existing.value = _undefined",
  "end",
  "return existing, true",
  "label Reject",
  "typeErrorResult(throw)",
  "return nil, false"
]

def getPropStr : List String := [
  "prop := o.values[KEY]",
  "if prop == nil",
  "if o.prototype != nil",
  "if receiver == nil",
  "return o.prototype.self.get(KEY, o.val)",
  "end",
  "return o.prototype.self.get(KEY, receiver)",
  "end",
  "end",
  "prop, ok := prop.(*valueProperty)",
  "if ok",
  "if receiver == nil",
  "return prop.get(o.val)",
  "end",
  "return prop.get(receiver)",
  "end",
  "return prop"
]

def getPropIdx : List String := [
  "return o.val.self.get(KEY.string(), receiver)"
]

def getPropSym : List String := [
  "return o.getWithOwnProp(o.getOwnProp(KEY), KEY, receiver)"
]

def hasPropertyStr : List String := [
  "if o.val.self.hasOwnProperty(KEY)",
  "return true",
  "end",
  "if o.prototype != nil",
  "return o.prototype.self.hasProperty(KEY)",
  "end",
  "return false"
]

def hasPropertyIdx : List String := [
  "return o.val.self.hasProperty(KEY.string())"
]

def hasPropertySym : List String := [
  "if o.hasOwnProperty(KEY)",
  "return true",
  "end",
  "if o.prototype != nil",
  "return o.prototype.self.hasProperty(KEY)",
  "end",
  "return false"
]

def getWithOwnPropStr : List String := [
  "if KEY == nil && o.prototype != nil",
  "if receiver == nil",
  "return o.prototype.get(p, o.val)",
  "end",
  "return o.prototype.get(p, receiver)",
  "end",
  "KEY, ok := KEY.(*valueProperty)",
  "if ok",
  "if receiver == nil",
  "return KEY.get(o.val)",
  "end",
  "return KEY.get(receiver)",
  "end",
  "return KEY"
]

def checkDeleteStr : List String := [
  "val, ok := val.(*valueProperty)",
  "if ok",
  "return o.checkDeleteProp(KEY, val, throw)",
  "end",
  "return true"
]

/-! the copy-on-write functions of propNames (Cow.lean), the key-type dispatchers of `Object` (Entry.lean, suffixes NOT erased),
the lazily-templated built-ins (Templ.lean), the mapped arguments object (Args.lean) -/
def cow_delete : List String := [
  "delete(o.values, KEY)",
  "for range o.propNames",
  "if n == KEY",
  "names := o.propNames",
  "if namesMarkedForCopy(names)",
  "newNames := make([]unistring.String, len(names)-1, shrinkCap(len(names), cap(names)))",
  "copy(newNames, names[:i])",
  "copy(newNames[i:], names[i+1:])",
  "o.propNames = newNames",
  "else",
  "copy(names[i:], names[i+1:])",
  "names[len(names)-1] = \"\"",
  "o.propNames = names[:len(names)-1]",
  "end",
  "if i < o.lastSortedPropLen",
  "o.lastSortedPropLen--",
  "if i < o.idxPropCount",
  "o.idxPropCount--",
  "end",
  "end",
  "break",
  "end",
  "end"
]

def cow_fixPropOrder : List String := [
  "names := o.propNames",
  "i := o.lastSortedPropLen",
  "for i < len(names)",
  "name := names[i]",
  "idx := strToArray(name)",
  "if idx != math.MaxUint32",
  "k := sort.Search(o.idxPropCount, func(j int) bool { return strToArray(names[j]) >= idx })",
  "if k < i",
  "if namesMarkedForCopy(names)",
  "newNames := make([]unistring.String, len(names), cap(names))",
  "copy(newNames[:k], names)",
  "copy(newNames[k+1:i+1], names[k:i])",
  "copy(newNames[i+1:], names[i+1:])",
  "names = newNames",
  "o.propNames = names",
  "else",
  "copy(names[k+1:i+1], names[k:i])",
  "end",
  "names[k] = name",
  "end",
  "o.idxPropCount++",
  "end",
  "i++",
  "end",
  "o.lastSortedPropLen = len(names)"
]

def cow_ensurePropOrder : List String := [
  "if o.lastSortedPropLen < len(o.propNames)",
  "o.fixPropOrder()",
  "end"
]

def cow_prepareNamesForCopy : List String := [
  "if len(KEY) == 0",
  "return KEY",
  "end",
  "if namesMarkedForCopy(KEY) || cap(KEY) == len(KEY)",
  "var newcap int",
  "if cap(KEY) == len(KEY)",
  "newcap = growCap(len(KEY)+1, len(KEY), cap(KEY))",
  "else",
  "newcap = cap(KEY)",
  "end",
  "newNames := make([]unistring.String, len(KEY), newcap)",
  "copy(newNames, KEY)",
  "KEY = newNames",
  "end",
  "KEY[cap(KEY)-1 : cap(KEY)][0] = copyMarker",
  "return KEY"
]

def cow_namesMarkedForCopy : List String := [
  "return cap(KEY) > len(KEY) && KEY[cap(KEY)-1 : cap(KEY)][0] == copyMarker"
]

def cow_clearNamesCopyMarker : List String := [
  "if cap(KEY) > len(KEY)",
  "KEY[cap(KEY)-1 : cap(KEY)][0] = \"\"",
  "end"
]

def cow_copyNamesIfNeeded : List String := [
  "if namesMarkedForCopy(KEY) && len(KEY)+extraCap >= cap(KEY)",
  "var newcap int",
  "newsize := len(KEY) + extraCap + 1",
  "if newsize > cap(KEY)",
  "newcap = growCap(newsize, len(KEY), cap(KEY))",
  "else",
  "newcap = cap(KEY)",
  "end",
  "newNames := make([]unistring.String, len(KEY), newcap)",
  "copy(newNames, KEY)",
  "return newNames",
  "end",
  "return KEY"
]

def cow_iterateStringKeys : List String := [
  "o.ensurePropOrder()",
  "propNames := prepareNamesForCopy(o.propNames)",
  "o.propNames = propNames",
  "return (&objectPropIter{ o: o, propNames: propNames, }).next"
]

def cow_objectPropIter_next : List String := [
  "for i.idx < len(i.propNames)",
  "name := i.propNames[i.idx]",
  "i.idx++",
  "prop := i.o.values[name]",
  "if prop != nil",
  "return propIterItem{name: stringValueFromRaw(name), value: prop}, i.next",
  "end",
  "end",
  "clearNamesCopyMarker(i.propNames)",
  "return propIterItem{}, nil"
]

def disp_get : List String := [
  "typeswitch KEY := KEY.(type)",
  "case valueInt",
  "return o.self.getIdx(KEY, receiver)",
  "case *Symbol",
  "return o.self.getSym(KEY, receiver)",
  "default",
  "return o.self.getStr(KEY.string(), receiver)",
  "end"
]

def disp_set : List String := [
  "typeswitch KEY := KEY.(type)",
  "case valueInt",
  "return o.setIdx(KEY, val, receiver, throw)",
  "case *Symbol",
  "return o.setSym(KEY, val, receiver, throw)",
  "default",
  "return o.setStr(KEY.string(), val, receiver, throw)",
  "end"
]

def disp_setOwn : List String := [
  "typeswitch KEY := KEY.(type)",
  "case valueInt",
  "return o.self.setOwnIdx(KEY, val, throw)",
  "case *Symbol",
  "return o.self.setOwnSym(KEY, val, throw)",
  "default",
  "return o.self.setOwnStr(KEY.string(), val, throw)",
  "end"
]

def disp_delete : List String := [
  "typeswitch KEY := KEY.(type)",
  "case valueInt",
  "return o.self.deleteIdx(KEY, throw)",
  "case *Symbol",
  "return o.self.deleteSym(KEY, throw)",
  "default",
  "return o.self.deleteStr(KEY.string(), throw)",
  "end"
]

def disp_hasProperty : List String := [
  "typeswitch KEY := KEY.(type)",
  "case valueInt",
  "return o.self.hasPropertyIdx(KEY)",
  "case *Symbol",
  "return o.self.hasPropertySym(KEY)",
  "default",
  "return o.self.hasPropertyStr(KEY.string())",
  "end"
]

def disp_defineOwnProperty : List String := [
  "typeswitch KEY := KEY.(type)",
  "case valueInt",
  "return o.self.defineOwnPropertyIdx(KEY, desc, throw)",
  "case *Symbol",
  "return o.self.defineOwnPropertySym(KEY, desc, throw)",
  "default",
  "return o.self.defineOwnPropertyStr(KEY.string(), desc, throw)",
  "end"
]

def tmpl_getOwnPropStr : List String := [
  "v, exists := o.values[KEY]",
  "if exists",
  "return v",
  "end",
  "f := o.tmpl.props[KEY]",
  "if f != nil",
  "v := f(o.val.runtime)",
  "o.values[KEY] = v",
  "return v",
  "end",
  "return nil"
]

def tmpl_getOwnPropSym : List String := [
  "if o.symValues == nil && o.tmpl.symProps[KEY] == nil",
  "return nil",
  "end",
  "o.materialiseSymbols()",
  "return o.baseObject.getOwnProp(KEY)"
]

def tmpl_materialiseSymbols : List String := [
  "if o.symValues == nil",
  "o.symValues = newOrderedMap(nil)",
  "for range o.tmpl.symPropNames",
  "o.symValues.set(p, o.tmpl.symProps[p](o.val.runtime))",
  "end",
  "end"
]

def tmpl_materialisePropNames : List String := [
  "if o.propNames == nil",
  "o.propNames = append(([]unistring.String)(nil), o.tmpl.propNames...)",
  "end"
]

def tmpl_defineOwnPropertyStr : List String := [
  "existingVal := o.getOwnProp(KEY)",
  "v, ok := o._defineOwnProperty(KEY, existingVal, descr, throw)",
  "if ok",
  "o.values[KEY] = v",
  "if existingVal == nil",
  "o.materialisePropNames()",
  "names := copyNamesIfNeeded(o.propNames, 1)",
  "o.propNames = append(names, KEY)",
  "end",
  "return true",
  "end",
  "return false"
]

def tmpl_defineOwnPropertySym : List String := [
  "o.materialiseSymbols()",
  "return o.baseObject.defineOwnProperty(KEY, descr, throw)"
]

def tmpl_deleteStr : List String := [
  "val := o.getOwnProp(KEY)",
  "if val != nil",
  "if !o.checkDelete(KEY, val, throw)",
  "return false",
  "end",
  "o.materialisePropNames()",
  "o._delete(KEY)",
  "_, exists := o.tmpl.props[KEY]",
  "if exists",
  "o.values[KEY] = nil",
  "end",
  "end",
  "return true"
]

def tmpl_deleteSym : List String := [
  "o.materialiseSymbols()",
  "return o.baseObject.delete(KEY, throw)"
]

def tmpl_setOwnSym : List String := [
  "o.materialiseSymbols()",
  "o.materialiseProto()",
  "return o.baseObject.setOwn(KEY, val, throw)"
]

def tmpl_hasOwnPropertyStr : List String := [
  "v, exists := o.values[KEY]",
  "if exists",
  "return v != nil",
  "end",
  "_, exists := o.tmpl.props[KEY]",
  "return exists"
]

def tmpl_hasOwnPropertySym : List String := [
  "if o.symValues != nil",
  "return o.symValues.has(KEY)",
  "end",
  "_, exists := o.tmpl.symProps[KEY]",
  "return exists"
]

def args_getOwnPropStr : List String := [
  "mapped, ok := a.values[KEY].(*mappedProperty)",
  "if ok",
  "if mapped.writable && mapped.enumerable && mapped.configurable",
  "return *mapped.v",
  "end",
  "return &valueProperty{ value: *mapped.v, writable: mapped.writable, configurable: mapped.configurable, enumerable: mapped.enumerable, }",
  "end",
  "return a.baseObject.getOwnProp(KEY)"
]

def args_setOwnStr : List String := [
  "prop, ok := a.values[KEY].(*mappedProperty)",
  "if ok",
  "if !prop.writable",
  "typeErrorResult(throw)",
  "return false",
  "end",
  "*prop.v = val",
  "return true",
  "end",
  "return a.baseObject.setOwn(KEY, val, throw)"
]

def args_deleteStr : List String := [
  "prop, ok := a.values[KEY].(*mappedProperty)",
  "if ok",
  "if !a.checkDeleteProp(KEY, &prop.valueProperty, throw)",
  "return false",
  "end",
  "a._delete(KEY)",
  "return true",
  "end",
  "return a.baseObject.delete(KEY, throw)"
]

def args_defineOwnPropertyStr : List String := [
  "mapped, ok := a.values[KEY].(*mappedProperty)",
  "if ok",
  "existing := &valueProperty{ configurable: mapped.configurable, writable: true, enumerable: mapped.enumerable, value: *mapped.v, }",
  "val, ok := a.baseObject._defineOwnProperty(KEY, existing, descr, throw)",
  "if !ok",
  "return false",
  "end",
  "prop, ok := val.(*valueProperty)",
  "if ok",
  "if !prop.accessor",
  "*mapped.v = prop.value",
  "end",
  "if prop.accessor || !prop.writable",
  "a._put(KEY, prop)",
  "return true",
  "end",
  "mapped.configurable = prop.configurable",
  "mapped.enumerable = prop.enumerable",
  "else",
  "*mapped.v = val",
  "mapped.configurable = true",
  "mapped.enumerable = true",
  "end",
  "return true",
  "end",
  "return a.baseObject.defineOwnProperty(KEY, descr, throw)"
]

/-! String exotic object (string.go), integer-indexed exotic objects (typedarrays.go), lazy function prototype (func.go) -/
def str_getOwnPropStr : List String := [
  "i := strToGo(KEY)",
  "if i >= 0 && i < s.length",
  "val := s._get(i)",
  "return &valueProperty{ value: val, enumerable: true, }",
  "end",
  "return s.baseObject.getOwnProp(KEY)"
]

def str_getOwnPropIdx : List String := [
  "i := int64(KEY)",
  "if i >= 0 && i < int64(s.length)",
  "val := s._get(int(i))",
  "return &valueProperty{ value: val, enumerable: true, }",
  "end",
  "return s.baseObject.getOwnProp(KEY.string())"
]

def str_setOwnStr : List String := [
  "i := strToGo(KEY)",
  "if i >= 0 && i < s.length",
  "typeErrorResult(throw)",
  "return false",
  "end",
  "return s.baseObject.setOwn(KEY, val, throw)"
]

def str_setOwnIdx : List String := [
  "i := int64(KEY)",
  "if i >= 0 && i < int64(s.length)",
  "typeErrorResult(throw)",
  "return false",
  "end",
  "return s.baseObject.setOwn(KEY.string(), val, throw)"
]

def str_defineOwnPropertyStr : List String := [
  "i := strToGo(KEY)",
  "if i >= 0 && i < s.length",
  "_, ok := s._defineOwnProperty(KEY, &valueProperty{value: s._get(i), enumerable: true}, descr, throw)",
  "return ok",
  "end",
  "return s.baseObject.defineOwnProperty(KEY, descr, throw)"
]

def str_defineOwnPropertyIdx : List String := [
  "return s.defineOwnProperty(KEY.string(), descr, throw)"
]

def str_deleteStr : List String := [
  "i := strToGo(KEY)",
  "if i >= 0 && i < s.length",
  "typeErrorResult(throw)",
  "return false",
  "end",
  "return s.baseObject.delete(KEY, throw)"
]

def str_deleteIdx : List String := [
  "i := int64(KEY)",
  "if i >= 0 && i < int64(s.length)",
  "typeErrorResult(throw)",
  "return false",
  "end",
  "return s.baseObject.delete(KEY.string(), throw)"
]

def str_hasOwnPropertyStr : List String := [
  "i := strToGo(KEY)",
  "if i >= 0 && i < s.length",
  "return true",
  "end",
  "return s.baseObject.hasOwnProperty(KEY)"
]

def str_hasOwnPropertyIdx : List String := [
  "i := int64(KEY)",
  "if i >= 0 && i < int64(s.length)",
  "return true",
  "end",
  "return s.baseObject.hasOwnProperty(KEY.string())"
]

def ta_getOwnPropStr : List String := [
  "idx, ok := strToIntNum(KEY)",
  "if ok",
  "v := a._get(idx)",
  "if v != nil",
  "return &valueProperty{ value: v, writable: true, enumerable: true, configurable: true, }",
  "end",
  "return nil",
  "end",
  "if idx == 0",
  "return nil",
  "end",
  "return a.baseObject.getOwnProp(KEY)"
]

def ta_getOwnPropIdx : List String := [
  "v := a._get(toIntClamp(int64(KEY)))",
  "if v != nil",
  "return &valueProperty{ value: v, writable: true, enumerable: true, configurable: true, }",
  "end",
  "return nil"
]

def ta_getStr : List String := [
  "idx, ok := strToIntNum(KEY)",
  "if ok",
  "return a._get(idx)",
  "end",
  "if idx == 0",
  "return nil",
  "end",
  "return a.baseObject.get(KEY, receiver)"
]

def ta_getIdx : List String := [
  "return a._get(toIntClamp(int64(KEY)))"
]

def ta_setOwnStr : List String := [
  "idx, ok := strToIntNum(KEY)",
  "if ok",
  "a._put(idx, v)",
  "return true",
  "end",
  "if idx == 0",
  "toNumeric(v)",
  "return true",
  "end",
  "return a.baseObject.setOwn(KEY, v, throw)"
]

def ta_setOwnIdx : List String := [
  "a._put(toIntClamp(int64(KEY)), v)",
  "return true"
]

def ta_setForeignStr : List String := [
  "idx, ok := strToIntNum(KEY)",
  "if ok",
  "if !a.isValidIntegerIndex(idx)",
  "return true, true",
  "end",
  "else",
  "if idx == 0",
  "return true, true",
  "end",
  "end",
  "return a._setForeign(KEY, a.getOwnProp(KEY), v, receiver, throw)"
]

def ta_setForeignIdx : List String := [
  "if !a.isValidIntegerIndex(toIntClamp(int64(KEY)))",
  "return true, true",
  "end",
  "return a._setForeign(KEY, trueValIfPresent(a.hasOwnProperty(KEY)), v, receiver, throw)"
]

def ta_hasOwnPropertyStr : List String := [
  "idx, ok := strToIntNum(KEY)",
  "if ok",
  "return a._has(idx)",
  "end",
  "if idx == 0",
  "return false",
  "end",
  "return a.baseObject.hasOwnProperty(KEY)"
]

def ta_hasOwnPropertyIdx : List String := [
  "return a._has(toIntClamp(int64(KEY)))"
]

def ta_hasPropertyStr : List String := [
  "idx, ok := strToIntNum(KEY)",
  "if ok",
  "return a._has(idx)",
  "end",
  "if idx == 0",
  "return false",
  "end",
  "return a.baseObject.hasProperty(KEY)"
]

def ta_hasPropertyIdx : List String := [
  "return a.hasOwnProperty(KEY)"
]

def ta_defineIdxProperty : List String := [
  "if desc.Configurable == FLAG_FALSE || desc.Enumerable == FLAG_FALSE || desc.IsAccessor() || desc.Writable == FLAG_FALSE",
  "typeErrorResult(throw)",
  "return false",
  "end",
  "_, ok := a._defineOwnProperty(unistring.String(strconv.Itoa(KEY)), a.getOwnProp(valueInt(KEY)), desc, throw)",
  "if ok",
  "if !a.isValidIntegerIndex(KEY)",
  "typeErrorResult(throw)",
  "return false",
  "end",
  "if desc.Value != nil",
  "a._put(KEY, desc.Value)",
  "end",
  "return true",
  "end",
  "return ok"
]

def ta_defineOwnPropertyStr : List String := [
  "idx, ok := strToIntNum(KEY)",
  "if ok",
  "return a._defineIdxProperty(idx, desc, throw)",
  "end",
  "if idx == 0",
  "a.viewedArrayBuf.ensureNotDetached(throw)",
  "typeErrorResult(throw)",
  "return false",
  "end",
  "return a.baseObject.defineOwnProperty(KEY, desc, throw)"
]

def ta_defineOwnPropertyIdx : List String := [
  "return a._defineIdxProperty(toIntClamp(int64(KEY)), desc, throw)"
]

def fn_addProto : List String := [
  "if KEY == \"prototype\"",
  "_, exists := f.values[KEY]",
  "if !exists",
  "return f.addPrototype()",
  "end",
  "end",
  "return nil"
]

def fn_addProtoBeforeNewKey : List String := [
  "_, exists := f.values[\"prototype\"]",
  "if !exists",
  "_, exists := f.values[KEY]",
  "if !exists",
  "f.addPrototype()",
  "end",
  "end"
]

def fn_addPrototype : List String := [
  "proto := f.val.runtime.NewObject()",
  "proto.self._putProp(\"constructor\", f.val, true, false, true)",
  "return f._putProp(\"prototype\", proto, true, false, false)"
]

def fn_getOwnPropStr : List String := [
  "v := f._addProto(KEY)",
  "if v != nil",
  "return v",
  "end",
  "return f.baseObject.getOwnProp(KEY)"
]

def fn_setOwnStr : List String := [
  "f._addProtoBeforeNewKey(KEY)",
  "return f.baseObject.setOwn(KEY, val, throw)"
]

def fn_defineOwnPropertyStr : List String := [
  "f._addProtoBeforeNewKey(KEY)",
  "return f.baseObject.defineOwnProperty(KEY, descr, throw)"
]

def fn_deleteStr : List String := [
  "f._addProto(KEY)",
  "return f.baseObject.delete(KEY, throw)"
]

def fn_hasOwnPropertyStr : List String := [
  "if f.baseObject.hasOwnProperty(KEY)",
  "return true",
  "end",
  "if KEY == \"prototype\"",
  "return true",
  "end",
  "return false"
]

def fn_stringKeys : List String := [
  "if KEY",
  "_, exists := f.values[\"prototype\"]",
  "if !exists",
  "f.addPrototype()",
  "end",
  "end",
  "return f.baseFuncObject.stringKeys(KEY, accum)"
]

def fn_iterateStringKeys : List String := [
  "_, exists := f.values[\"prototype\"]",
  "if !exists",
  "f.addPrototype()",
  "end",
  "return f.baseFuncObject.iterateStringKeys()"
]

def symLookupPrelude : List String := [
  "var prop Value",
  "if o.symValues != nil",
  "prop = o.symValues.get(KEY)",
  "end"
]
end Expected

theorem defineOwnProperty_expected : defineOwnProperty = Expected.defineOwnProperty := by rfl
theorem objectSet_Idx_eq_Str : objectSetIdx = objectSetStr := by rfl
theorem objectSet_Sym_eq_Str : objectSetSym = objectSetStr := by rfl
theorem setForeignInner_Idx_eq_Str : setForeignInnerIdx = setForeignInnerStr := by rfl
theorem setForeignInner_Sym_eq_prelude_Str : setForeignInnerSym = Expected.symLookupPrelude ++ setForeignInnerStr := by rfl
theorem setForeignOuter_Str_expected : setForeignOuterStr = Expected.setForeignOuterStr := by rfl
theorem setForeignOuter_Idx_expected : setForeignOuterIdx = Expected.setForeignOuterIdx := by rfl
theorem setOwn_Idx_expected : setOwnIdx = Expected.setOwnIdx := by rfl
theorem setOwn_Sym_expected : setOwnSym = Expected.setOwnSym := by rfl
theorem defineOwn_Str_expected : defineOwnStr = Expected.defineOwnStr := by rfl
theorem defineOwn_Idx_expected : defineOwnIdx = Expected.defineOwnIdx := by rfl
theorem defineOwn_Sym_expected : defineOwnSym = Expected.defineOwnSym := by rfl
theorem deleteOwn_Str_expected : deleteOwnStr = Expected.deleteOwnStr := by rfl
theorem deleteOwn_Idx_expected : deleteOwnIdx = Expected.deleteOwnIdx := by rfl
theorem deleteOwn_Sym_expected : deleteOwnSym = Expected.deleteOwnSym := by rfl
theorem getPropStr_expected : getPropStr = Expected.getPropStr := by rfl
theorem getPropIdx_expected : getPropIdx = Expected.getPropIdx := by rfl
theorem getPropSym_expected : getPropSym = Expected.getPropSym := by rfl
theorem hasPropertyStr_expected : hasPropertyStr = Expected.hasPropertyStr := by rfl
theorem hasPropertyIdx_expected : hasPropertyIdx = Expected.hasPropertyIdx := by rfl
theorem hasPropertySym_expected : hasPropertySym = Expected.hasPropertySym := by rfl
theorem getWithOwnPropStr_expected : getWithOwnPropStr = Expected.getWithOwnPropStr := by rfl
theorem checkDeleteStr_expected : checkDeleteStr = Expected.checkDeleteStr := by rfl
theorem cow_delete_expected : cow_delete = Expected.cow_delete := by rfl
theorem cow_fixPropOrder_expected : cow_fixPropOrder = Expected.cow_fixPropOrder := by rfl
theorem cow_ensurePropOrder_expected : cow_ensurePropOrder = Expected.cow_ensurePropOrder := by rfl
theorem cow_prepareNamesForCopy_expected : cow_prepareNamesForCopy = Expected.cow_prepareNamesForCopy := by rfl
theorem cow_namesMarkedForCopy_expected : cow_namesMarkedForCopy = Expected.cow_namesMarkedForCopy := by rfl
theorem cow_clearNamesCopyMarker_expected : cow_clearNamesCopyMarker = Expected.cow_clearNamesCopyMarker := by rfl
theorem cow_copyNamesIfNeeded_expected : cow_copyNamesIfNeeded = Expected.cow_copyNamesIfNeeded := by rfl
theorem cow_iterateStringKeys_expected : cow_iterateStringKeys = Expected.cow_iterateStringKeys := by rfl
theorem cow_objectPropIter_next_expected : cow_objectPropIter_next = Expected.cow_objectPropIter_next := by rfl
theorem disp_get_expected : disp_get = Expected.disp_get := by rfl
theorem disp_set_expected : disp_set = Expected.disp_set := by rfl
theorem disp_setOwn_expected : disp_setOwn = Expected.disp_setOwn := by rfl
theorem disp_delete_expected : disp_delete = Expected.disp_delete := by rfl
theorem disp_hasProperty_expected : disp_hasProperty = Expected.disp_hasProperty := by rfl
theorem disp_defineOwnProperty_expected : disp_defineOwnProperty = Expected.disp_defineOwnProperty := by rfl
theorem tmpl_getOwnPropStr_expected : tmpl_getOwnPropStr = Expected.tmpl_getOwnPropStr := by rfl
theorem tmpl_getOwnPropSym_expected : tmpl_getOwnPropSym = Expected.tmpl_getOwnPropSym := by rfl
theorem tmpl_materialiseSymbols_expected : tmpl_materialiseSymbols = Expected.tmpl_materialiseSymbols := by rfl
theorem tmpl_materialisePropNames_expected : tmpl_materialisePropNames = Expected.tmpl_materialisePropNames := by rfl
theorem tmpl_defineOwnPropertyStr_expected : tmpl_defineOwnPropertyStr = Expected.tmpl_defineOwnPropertyStr := by rfl
theorem tmpl_defineOwnPropertySym_expected : tmpl_defineOwnPropertySym = Expected.tmpl_defineOwnPropertySym := by rfl
theorem tmpl_deleteStr_expected : tmpl_deleteStr = Expected.tmpl_deleteStr := by rfl
theorem tmpl_deleteSym_expected : tmpl_deleteSym = Expected.tmpl_deleteSym := by rfl
theorem tmpl_setOwnSym_expected : tmpl_setOwnSym = Expected.tmpl_setOwnSym := by rfl
theorem tmpl_hasOwnPropertyStr_expected : tmpl_hasOwnPropertyStr = Expected.tmpl_hasOwnPropertyStr := by rfl
theorem tmpl_hasOwnPropertySym_expected : tmpl_hasOwnPropertySym = Expected.tmpl_hasOwnPropertySym := by rfl
theorem args_getOwnPropStr_expected : args_getOwnPropStr = Expected.args_getOwnPropStr := by rfl
theorem args_setOwnStr_expected : args_setOwnStr = Expected.args_setOwnStr := by rfl
theorem args_deleteStr_expected : args_deleteStr = Expected.args_deleteStr := by rfl
theorem args_defineOwnPropertyStr_expected : args_defineOwnPropertyStr = Expected.args_defineOwnPropertyStr := by rfl
theorem str_getOwnPropStr_expected : str_getOwnPropStr = Expected.str_getOwnPropStr := by rfl
theorem str_getOwnPropIdx_expected : str_getOwnPropIdx = Expected.str_getOwnPropIdx := by rfl
theorem str_setOwnStr_expected : str_setOwnStr = Expected.str_setOwnStr := by rfl
theorem str_setOwnIdx_expected : str_setOwnIdx = Expected.str_setOwnIdx := by rfl
theorem str_defineOwnPropertyStr_expected : str_defineOwnPropertyStr = Expected.str_defineOwnPropertyStr := by rfl
theorem str_defineOwnPropertyIdx_expected : str_defineOwnPropertyIdx = Expected.str_defineOwnPropertyIdx := by rfl
theorem str_deleteStr_expected : str_deleteStr = Expected.str_deleteStr := by rfl
theorem str_deleteIdx_expected : str_deleteIdx = Expected.str_deleteIdx := by rfl
theorem str_hasOwnPropertyStr_expected : str_hasOwnPropertyStr = Expected.str_hasOwnPropertyStr := by rfl
theorem str_hasOwnPropertyIdx_expected : str_hasOwnPropertyIdx = Expected.str_hasOwnPropertyIdx := by rfl
theorem ta_getOwnPropStr_expected : ta_getOwnPropStr = Expected.ta_getOwnPropStr := by rfl
theorem ta_getOwnPropIdx_expected : ta_getOwnPropIdx = Expected.ta_getOwnPropIdx := by rfl
theorem ta_getStr_expected : ta_getStr = Expected.ta_getStr := by rfl
theorem ta_getIdx_expected : ta_getIdx = Expected.ta_getIdx := by rfl
theorem ta_setOwnStr_expected : ta_setOwnStr = Expected.ta_setOwnStr := by rfl
theorem ta_setOwnIdx_expected : ta_setOwnIdx = Expected.ta_setOwnIdx := by rfl
theorem ta_setForeignStr_expected : ta_setForeignStr = Expected.ta_setForeignStr := by rfl
theorem ta_setForeignIdx_expected : ta_setForeignIdx = Expected.ta_setForeignIdx := by rfl
theorem ta_hasOwnPropertyStr_expected : ta_hasOwnPropertyStr = Expected.ta_hasOwnPropertyStr := by rfl
theorem ta_hasOwnPropertyIdx_expected : ta_hasOwnPropertyIdx = Expected.ta_hasOwnPropertyIdx := by rfl
theorem ta_hasPropertyStr_expected : ta_hasPropertyStr = Expected.ta_hasPropertyStr := by rfl
theorem ta_hasPropertyIdx_expected : ta_hasPropertyIdx = Expected.ta_hasPropertyIdx := by rfl
theorem ta_defineIdxProperty_expected : ta_defineIdxProperty = Expected.ta_defineIdxProperty := by rfl
theorem ta_defineOwnPropertyStr_expected : ta_defineOwnPropertyStr = Expected.ta_defineOwnPropertyStr := by rfl
theorem ta_defineOwnPropertyIdx_expected : ta_defineOwnPropertyIdx = Expected.ta_defineOwnPropertyIdx := by rfl
theorem fn_addProto_expected : fn_addProto = Expected.fn_addProto := by rfl
theorem fn_addProtoBeforeNewKey_expected : fn_addProtoBeforeNewKey = Expected.fn_addProtoBeforeNewKey := by rfl
theorem fn_addPrototype_expected : fn_addPrototype = Expected.fn_addPrototype := by rfl
theorem fn_getOwnPropStr_expected : fn_getOwnPropStr = Expected.fn_getOwnPropStr := by rfl
theorem fn_setOwnStr_expected : fn_setOwnStr = Expected.fn_setOwnStr := by rfl
theorem fn_defineOwnPropertyStr_expected : fn_defineOwnPropertyStr = Expected.fn_defineOwnPropertyStr := by rfl
theorem fn_deleteStr_expected : fn_deleteStr = Expected.fn_deleteStr := by rfl
theorem fn_hasOwnPropertyStr_expected : fn_hasOwnPropertyStr = Expected.fn_hasOwnPropertyStr := by rfl
theorem fn_stringKeys_expected : fn_stringKeys = Expected.fn_stringKeys := by rfl
theorem fn_iterateStringKeys_expected : fn_iterateStringKeys = Expected.fn_iterateStringKeys := by rfl

end GojaModel.C04.Tie
