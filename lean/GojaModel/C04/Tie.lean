/-
  C04 supporting tie — KeyKindCopies: the branch structure of the triplicated [[Set]]/[[DefineOwnProperty]]/[[Delete]]
  families of /repo/object.go (regenerated on every run by extract/c04.go into GojaModel.Generated.C04, Str/Idx/Sym
  suffixes erased, key parameter renamed KEY, error messages dropped) against the hand-written expectation of the
  LEGITIMATE differences between the copies:
    * `_defineOwnProperty`                     — the exact statement list the Lean transcription was written from;
    * `Object.setStr/setIdx/setSym`            — identical text;
    * `_setForeignStr/_setForeignIdx`          — identical text; `setForeignSym` = symValues lookup prelude ++ the same text;
    * `setOwnSym`, `defineOwnPropertySym`, `deleteSym` — symValues storage instead of values/propNames (Expected below);
    * `getStr/getIdx/getSym` (+ `getWithOwnProp`), `hasPropertyStr/Idx/Sym`, `checkDelete` — the text `Model.lean` part 2b transcribes;
    * the Idx copies of setOwn/define/delete delegate to the Str copy with `idx.string()`; `setForeignIdx` has the
      `idxPropCount == 0` fast path.
  A failing theorem names the copy that drifted.  The obligation proper is `setStr_eq_setIdx_eq_setSym` on the three
  Lean transcriptions plus the key-kind-rotating correspondence.
-/
import GojaModel.Generated.C04_KeyKindCopies
namespace GojaModel.C04.Tie
open GojaModel.Generated.C04

namespace Expected
def setOwnIdx : List String := [
  "return o.val.self.setOwn(KEY.string(), val, throw)"
]

def setOwnSym : List String := [
  "var ownDesc Value",
  "if o.symValues != nil",
  "ownDesc = o.symValues.get(KEY)",
  "end",
  "if ownDesc == nil",
  "proto := o.prototype",
  "if proto != nil",
  "res, handled := proto.self.setForeign(KEY, val, o.val, throw)",
  "if handled",
  "return res",
  "end",
  "end",
  "if !o.extensible",
  "typeErrorResult(throw)",
  "return false",
  "else",
  "if o.symValues == nil",
  "o.symValues = newOrderedMap(nil)",
  "end",
  "o.symValues.set(KEY, val)",
  "end",
  "return true",
  "end",
  "prop, ok := ownDesc.(*valueProperty)",
  "if ok",
  "if !prop.isWritable()",
  "typeErrorResult(throw)",
  "return false",
  "else",
  "prop.set(o.val, val)",
  "end",
  "else",
  "o.symValues.set(KEY, val)",
  "end",
  "return true"
]

def setForeignOuterStr : List String := [
  "return o._setForeign(KEY, o.values[KEY], val, receiver, throw)"
]

def setForeignOuterIdx : List String := [
  "idx := to(KEY)",
  "if idx != math.MaxUint32",
  "o.ensurePropOrder()",
  "if o.idxPropCount == 0",
  "return o._setForeign(KEY, nil, val, receiver, throw)",
  "end",
  "end",
  "return o.setForeign(KEY.string(), val, receiver, throw)"
]

def defineOwnStr : List String := [
  "existingVal := o.values[KEY]",
  "v, ok := o._defineOwnProperty(KEY, existingVal, descr, throw)",
  "if ok",
  "o.values[KEY] = v",
  "if existingVal == nil",
  "names := copyNamesIfNeeded(o.propNames, 1)",
  "o.propNames = append(names, KEY)",
  "end",
  "return true",
  "end",
  "return false"
]

def defineOwnIdx : List String := [
  "return o.val.self.defineOwnProperty(KEY.string(), desc, throw)"
]

def defineOwnSym : List String := [
  "var existingVal Value",
  "if o.symValues != nil",
  "existingVal = o.symValues.get(KEY)",
  "end",
  "v, ok := o._defineOwnProperty(KEY.descriptiveString().string(), existingVal, descr, throw)",
  "if ok",
  "if o.symValues == nil",
  "o.symValues = newOrderedMap(nil)",
  "end",
  "o.symValues.set(KEY, v)",
  "return true",
  "end",
  "return false"
]

def deleteOwnStr : List String := [
  "val, exists := o.values[KEY]",
  "if exists",
  "if !o.checkDelete(KEY, val, throw)",
  "return false",
  "end",
  "o._delete(KEY)",
  "end",
  "return true"
]

def deleteOwnIdx : List String := [
  "return o.val.self.delete(KEY.string(), throw)"
]

def deleteOwnSym : List String := [
  "if o.symValues != nil",
  "val := o.symValues.get(KEY)",
  "if val != nil",
  "if !o.checkDelete(KEY.descriptiveString().string(), val, throw)",
  "return false",
  "end",
  "o.symValues.remove(KEY)",
  "end",
  "end",
  "return true"
]

/-- `_defineOwnProperty` (object.go:650) statement by statement — the text that ModelDefine.lean `rejects`/`applyDesc`
transcribe.  A change of any condition, assignment or goto (e.g. a revert of d72dab1) breaks `defineOwnProperty_expected`. -/
def defineOwnProperty : List String := [
  "getterObj, _ := descr.Getter.(*Object)",
  "setterObj, _ := descr.Setter.(*Object)",
  "var existing *valueProperty",
  "if existingValue == nil",
  "if !o.extensible",
  "typeErrorResult(throw)",
  "return nil, false",
  "end",
  "existing = &valueProperty{}",
  "else",
  "existing, ok = existingValue.(*valueProperty)",
  "if !ok",
  "existing = &valueProperty{ writable: true, enumerable: true, configurable: true, value: existingValue, }",
  "end",
  "if !existing.configurable",
  "if descr.Configurable == FLAG_TRUE",
  "goto Reject",
  "end",
  "if descr.Enumerable != FLAG_NOT_SET && descr.Enumerable.Bool() != existing.enumerable",
  "goto Reject",
  "end",
  "end",
  "if existing.accessor && descr.IsData() || !existing.accessor && descr.IsAccessor()",
  "if !existing.configurable",
  "goto Reject",
  "end",
  "else",
  "if !existing.accessor",
  "if !existing.configurable",
  "if !existing.writable",
  "if descr.Writable == FLAG_TRUE",
  "goto Reject",
  "end",
  "if descr.Value != nil && !descr.Value.SameAs(existing.value)",
  "goto Reject",
  "end",
  "end",
  "end",
  "else",
  "if !existing.configurable",
  "if descr.Getter != nil && existing.getterFunc != getterObj || descr.Setter != nil && existing.setterFunc != setterObj",
  "goto Reject",
  "end",
  "end",
  "end",
  "end",
  "end",
  "if descr.Writable == FLAG_TRUE && descr.Enumerable == FLAG_TRUE && descr.Configurable == FLAG_TRUE && descr.Value != nil",
  "return descr.Value, true",
  "end",
  "if descr.Writable != FLAG_NOT_SET",
  "existing.writable = descr.Writable.Bool()",
  "end",
  "if descr.Enumerable != FLAG_NOT_SET",
  "existing.enumerable = descr.Enumerable.Bool()",
  "end",
  "if descr.Configurable != FLAG_NOT_SET",
  "existing.configurable = descr.Configurable.Bool()",
  "end",
  "if descr.Value != nil",
  "existing.value = descr.Value",
  "existing.getterFunc = nil",
  "existing.setterFunc = nil",
  "end",
  "if descr.Value != nil || descr.Writable != FLAG_NOT_SET",
  "if existing.accessor",
  "existing.getterFunc = nil",
  "existing.setterFunc = nil",
  "if descr.Writable == FLAG_NOT_SET",
  "existing.writable = false",
  "end",
  "end",
  "existing.accessor = false",
  "end",
  "if (descr.Getter != nil || descr.Setter != nil) && !existing.accessor",
  "existing.writable = false",
  "end",
  "if descr.Getter != nil",
  "existing.getterFunc = propGetter(o.val, descr.Getter, o.val.runtime)",
  "existing.value = nil",
  "existing.accessor = true",
  "end",
  "if descr.Setter != nil",
  "existing.setterFunc = propSetter(o.val, descr.Setter, o.val.runtime)",
  "existing.value = nil",
  "existing.accessor = true",
  "end",
  "if !existing.accessor && existing.value == nil",
  "existing.value = _undefined",
  "end",
  "return existing, true",
  "label Reject",
  "typeErrorResult(throw)",
  "return nil, false"
]

def getPropStr : List String := [
  "prop := o.values[KEY]",
  "if prop == nil",
  "if o.prototype != nil",
  "if receiver == nil",
  "return o.prototype.self.get(KEY, o.val)",
  "end",
  "return o.prototype.self.get(KEY, receiver)",
  "end",
  "end",
  "prop, ok := prop.(*valueProperty)",
  "if ok",
  "if receiver == nil",
  "return prop.get(o.val)",
  "end",
  "return prop.get(receiver)",
  "end",
  "return prop"
]

def getPropIdx : List String := [
  "return o.val.self.get(KEY.string(), receiver)"
]

def getPropSym : List String := [
  "return o.getWithOwnProp(o.getOwnProp(KEY), KEY, receiver)"
]

def hasPropertyStr : List String := [
  "if o.val.self.hasOwnProperty(KEY)",
  "return true",
  "end",
  "if o.prototype != nil",
  "return o.prototype.self.hasProperty(KEY)",
  "end",
  "return false"
]

def hasPropertyIdx : List String := [
  "return o.val.self.hasProperty(KEY.string())"
]

def hasPropertySym : List String := [
  "if o.hasOwnProperty(KEY)",
  "return true",
  "end",
  "if o.prototype != nil",
  "return o.prototype.self.hasProperty(KEY)",
  "end",
  "return false"
]

def getWithOwnPropStr : List String := [
  "if KEY == nil && o.prototype != nil",
  "if receiver == nil",
  "return o.prototype.get(p, o.val)",
  "end",
  "return o.prototype.get(p, receiver)",
  "end",
  "KEY, ok := KEY.(*valueProperty)",
  "if ok",
  "if receiver == nil",
  "return KEY.get(o.val)",
  "end",
  "return KEY.get(receiver)",
  "end",
  "return KEY"
]

def checkDeleteStr : List String := [
  "val, ok := val.(*valueProperty)",
  "if ok",
  "return o.checkDeleteProp(KEY, val, throw)",
  "end",
  "return true"
]

def symLookupPrelude : List String := [
  "var prop Value",
  "if o.symValues != nil",
  "prop = o.symValues.get(KEY)",
  "end"
]
end Expected

theorem defineOwnProperty_expected : defineOwnProperty = Expected.defineOwnProperty := by rfl
theorem objectSet_Idx_eq_Str : objectSetIdx = objectSetStr := by rfl
theorem objectSet_Sym_eq_Str : objectSetSym = objectSetStr := by rfl
theorem setForeignInner_Idx_eq_Str : setForeignInnerIdx = setForeignInnerStr := by rfl
theorem setForeignInner_Sym_eq_prelude_Str : setForeignInnerSym = Expected.symLookupPrelude ++ setForeignInnerStr := by rfl
theorem setForeignOuter_Str_expected : setForeignOuterStr = Expected.setForeignOuterStr := by rfl
theorem setForeignOuter_Idx_expected : setForeignOuterIdx = Expected.setForeignOuterIdx := by rfl
theorem setOwn_Idx_expected : setOwnIdx = Expected.setOwnIdx := by rfl
theorem setOwn_Sym_expected : setOwnSym = Expected.setOwnSym := by rfl
theorem defineOwn_Str_expected : defineOwnStr = Expected.defineOwnStr := by rfl
theorem defineOwn_Idx_expected : defineOwnIdx = Expected.defineOwnIdx := by rfl
theorem defineOwn_Sym_expected : defineOwnSym = Expected.defineOwnSym := by rfl
theorem deleteOwn_Str_expected : deleteOwnStr = Expected.deleteOwnStr := by rfl
theorem deleteOwn_Idx_expected : deleteOwnIdx = Expected.deleteOwnIdx := by rfl
theorem deleteOwn_Sym_expected : deleteOwnSym = Expected.deleteOwnSym := by rfl
theorem getPropStr_expected : getPropStr = Expected.getPropStr := by rfl
theorem getPropIdx_expected : getPropIdx = Expected.getPropIdx := by rfl
theorem getPropSym_expected : getPropSym = Expected.getPropSym := by rfl
theorem hasPropertyStr_expected : hasPropertyStr = Expected.hasPropertyStr := by rfl
theorem hasPropertyIdx_expected : hasPropertyIdx = Expected.hasPropertyIdx := by rfl
theorem hasPropertySym_expected : hasPropertySym = Expected.hasPropertySym := by rfl
theorem getWithOwnPropStr_expected : getWithOwnPropStr = Expected.getWithOwnPropStr := by rfl
theorem checkDeleteStr_expected : checkDeleteStr = Expected.checkDeleteStr := by rfl

end GojaModel.C04.Tie
